(* Proofs/RefNeed_proofs.v — C02/C04: call-by-need rewrite laws over the reference interpreter,
   part 1: the laws that need no coincidence argument (the rewritten expression is evaluated in the
   same environment; only evaluation frames differ). *)
From RJ Require Import Base.Outcome Base.F64 Model.Token Model.Ast Model.RefCore Model.RefValue Model.RefEval.
From RJ Require Import Proofs.RefSem_proofs Proofs.RefSem_laws Proofs.RefSem_params Proofs.RefInherit_proofs.
From Coq Require Import Lia.
Local Open Scope N_scope.

(* results that every construct passes through unchanged: a value, or an error *)
Definition passes (o : outcome answer err) : Prop := (exists v, o = Ok (AVal v)) \/ (exists e, o = Err e).

Ltac pass_cases H := destruct H as [[?v ->] | [?e ->]].
Ltac open_m := unfold eval, forceT, apply, applyf, call, bind, ret, enter; cbv beta.

Lemma force_th : forall f c en e d t o,
  run_task f c (TEval en e) d = (t, o) -> passes o -> run_task (S f) c (TForce (Th e en)) d = (t, o).
Proof.
  intros f c en e d t o H Hp. change (run_task (S f) c (TForce (Th e en)) d)
    with ((let* v := eval en e d in ret (AVal v)) c (run_task f c)).
  remember (run_task f c) as rec. open_m. rewrite H. pass_cases Hp; simpl; rewrite ?app_nil_r; reflexivity.
Qed.

Lemma var_lookup : forall f c en x th d t o,
  lookup_var x en = Some th -> fits c d ->
  run_task f c (TForce th) (d + 1) = (t, o) -> passes o -> run_task (S f) c (TEval en (CVar x)) d = (t, o).
Proof.
  intros f c en x th d t o Hl Hfit H Hp. unfold fits in Hfit. rewrite step_eval. unfold do_eval. rewrite Hl.
  remember (run_task f c) as rec. open_m. rewrite Hfit. simpl. rewrite H.
  pass_cases Hp; simpl; rewrite ?app_nil_r; reflexivity.
Qed.

Lemma local_body : forall f c en binds body d t o,
  run_task f c (TEval (FVars [] binds :: en) body) d = (t, o) -> passes o ->
  run_task (S f) c (TEval en (CLocal binds body)) d = (t, o).
Proof.
  intros f c en binds body d t o H Hp. rewrite step_eval.
  change (do_eval en (CLocal binds body) d) with (eval (FVars [] binds :: en) body d).
  remember (run_task f c) as rec. open_m. rewrite H. pass_cases Hp; simpl; rewrite ?app_nil_r; reflexivity.
Qed.

(* local x = e; x   is   e  evaluated one frame deeper in the environment extended by that binding
   (x itself; if x is not free in e the extension is invisible — that last step is the coincidence
   goal below) *)
Theorem rw_local_name : forall f c en x e d t o,
  fits c d ->
  run_task f c (TEval (FVars [] [(x, e)] :: en) e) (d + 1) = (t, o) -> passes o ->
  run_task (S (S (S f))) c (TEval en (CLocal [(x, e)] (CVar x))) d = (t, o).
Proof.
  intros f c en x e d t o Hfit H Hp.
  apply local_body; [|exact Hp]. eapply var_lookup; [| exact Hfit | | exact Hp].
  - simpl. rewrite str_eqb_refl. reflexivity.
  - apply force_th; assumption.
Qed.

(* [e][0]  is  e  (same environment), one frame deeper *)
Theorem rw_array_proj : forall f c en e d t o,
  fits c d ->
  run_task f c (TEval en e) (d + 1) = (t, o) -> passes o ->
  run_task (S (S f)) c (TEval en (CIndex (CArray [e]) (CNum f_zero))) d = (t, o).
Proof.
  intros f c en e d t o Hfit H Hp. unfold fits in Hfit.
  pose proof (force_th f c en e (d + 1) t o H Hp) as Hf.
  rewrite step_eval.
  change (do_eval en (CIndex (CArray [e]) (CNum f_zero)) d)
    with (let* v := eval en (CArray [e]) d in let* iv := eval en (CNum f_zero) d in index_value v iv d).
  assert (Ha : run_task (S f) c (TEval en (CArray [e])) d = ([], Ok (AVal (VArr [Th e en])))) by reflexivity.
  assert (Hn : run_task (S f) c (TEval en (CNum f_zero)) d = ([], Ok (AVal (VNum f_zero)))) by reflexivity.
  remember (run_task (S f) c) as rec. open_m. rewrite Ha. simpl. rewrite Hn. simpl.
  open_m. rewrite Hfit. simpl. rewrite Hf. pass_cases Hp; simpl; rewrite ?app_nil_r; reflexivity.
Qed.

(* (function(x) x)(e)  is  e  (same environment), two frames deeper (the call and the parameter) *)
Theorem rw_identity : forall f c en x e tl d t o,
  fits c d -> fits c (d + 1) ->
  run_task f c (TEval en e) (d + 1 + 1) = (t, o) -> passes o ->
  run_task (S (S (S (S f)))) c (TEval en (CCall (CFunc [(x, None)] (CVar x)) [e] [] false tl)) d = (t, o).
Proof.
  intros f c en x e tl d t o Hfit Hfit1 H Hp.
  pose proof (force_th f c en e _ t o H Hp) as Hf.
  assert (Hv : run_task (S (S f)) c (TEval (FVars [(x, Th e en)] [] :: en) (CVar x)) (d + 1) = (t, o)).
  { eapply var_lookup; [| exact Hfit1 | exact Hf | exact Hp]. simpl. rewrite str_eqb_refl. reflexivity. }
  assert (Ha : run_task (S (S (S f))) c (TApply (VFun [(x, None)] (CVar x) en) [Th e en] [] false) d = (t, o)).
  { change (run_task (S (S (S f))) c (TApply (VFun [(x, None)] (CVar x) en) [Th e en] [] false) d)
      with ((let* v := do_apply (VFun [(x, None)] (CVar x) en) [Th e en] [] false d in ret (AVal v)) c (run_task (S (S f)) c)).
    unfold do_apply. unfold fits in Hfit.
    remember (run_task (S (S f)) c) as rec. unfold lift. simpl bind_args. open_m. simpl. rewrite Hfit. simpl. rewrite Hv.
    pass_cases Hp; simpl; rewrite ?app_nil_r; reflexivity. }
  rewrite step_eval.
  change (do_eval en (CCall (CFunc [(x, None)] (CVar x)) [e] [] false tl) d)
    with (let* fv := eval en (CFunc [(x, None)] (CVar x)) d in
          if is_fun fv then
            let* only_tail := ask_ts_tail in
            apply fv (map (fun e0 => Th e0 en) [e]) (map (fun p => (fst p, Th (snd p) en)) []) (false && (tl || negb only_tail)) d
          else kind "CalleeIsNotFunction").
  assert (Hfn : run_task (S (S (S f))) c (TEval en (CFunc [(x, None)] (CVar x))) d = ([], Ok (AVal (VFun [(x, None)] (CVar x) en)))) by reflexivity.
  remember (run_task (S (S (S f))) c) as rec. open_m. rewrite Hfn. simpl. unfold ask_ts_tail. open_m. simpl. rewrite Ha.
  pass_cases Hp; simpl; rewrite ?app_nil_r; reflexivity.
Qed.
