(* Proofs/RefDead_final.v — C02/C04: a dead local binding is irrelevant, unconditionally. *)
From RJ Require Import Base.Outcome Base.F64 Model.Token Model.Ast Model.RefCore Model.RefValue Model.RefEval.
From RJ Require Import Model.Analyze.
From RJ Require Import Proofs.RefScope_defs Proofs.RefDead_defs Proofs.RefDead_proofs Proofs.RefDead_main Proofs.RefDead_builtins Proofs.RefDead_thm.
Local Open Scope N_scope.

Theorem dead_local_core_full : forall x e1 e2 body,
  closed (rm x [s_std]) false body ->
  forall fuel c, run_core fuel c (CLocal [(x, e1)] body) = run_core fuel c (CLocal [(x, e2)] body).
Proof. intros x e1 e2 body. apply dead_local_core. apply builtin_sim. Qed.

Theorem dead_local_irrelevant_full : forall sp xid e1 e2 body,
  id_value xid <> s_std ->
  StaticOK [s_std] false body ->
  forall fuel c, run fuel c (ELocal sp [MkBind xid None e1] body) = run fuel c (ELocal sp [MkBind xid None e2] body).
Proof. intros sp xid e1 e2 body Hne. apply dead_local_irrelevant; [exact Hne | apply builtin_sim]. Qed.
