(* Proofs/Sort_proofs.v — lemmas and proofs about Model/Sort.v *)
From Coq Require Import List Arith Lia Permutation Sorted Bool.
From RJ Require Import Base.Outcome Model.Sort.
Import ListNotations.
Local Open Scope outcome_scope.

(* ------------------------------------------------------------------ *)
(* outcome plumbing *)

Ltac obind_inv H :=
  let a := fresh "v" in let Ha := fresh "Hv" in
  apply obind_ok_inv in H; destruct H as [a [Ha H]].

Lemma obind_ok {A B E} (x : outcome A E) (f : A -> outcome B E) a :
  x = Ok a -> obind x f = f a.
Proof. intros ->; reflexivity. Qed.

Section MapMFacts.
  Context {A B E : Type}.
  Variable f : A -> outcome B E.

  Lemma mapM_pure (g : A -> B) l :
    (forall x, In x l -> f x = Ok (g x)) -> mapM f l = Ok (map g l).
  Proof.
    induction l as [|x l IH]; intros H; cbn [mapM map]; [reflexivity|].
    rewrite (H x (or_introl eq_refl)); cbn [obind].
    rewrite IH by (intros y Hy; apply H; right; exact Hy). reflexivity.
  Qed.

  Lemma mapM_ok_forall2 l ys :
    mapM f l = Ok ys -> Forall2 (fun x y => f x = Ok y) l ys.
  Proof.
    revert ys; induction l as [|x l IH]; intros ys H; cbn [mapM] in H.
    - inversion H; constructor.
    - obind_inv H. obind_inv H. inversion H; subst. constructor; auto.
  Qed.

  Lemma mapM_ok_length l ys : mapM f l = Ok ys -> length ys = length l.
  Proof. intros H. apply mapM_ok_forall2 in H. induction H; cbn [length]; congruence. Qed.

  (* the first failing call decides *)
  Lemma mapM_first_error l1 x l2 (g : A -> B) (o : outcome B E) :
    (forall y, In y l1 -> f y = Ok (g y)) -> f x = o -> is_ok o = false ->
    mapM f (l1 ++ x :: l2) = obind o (fun _ => Ok []) /\ is_ok (mapM f (l1 ++ x :: l2)) = false.
  Proof.
    induction l1 as [|y l1 IH]; intros Hpre Hx Ho; cbn [app mapM].
    - rewrite Hx. destruct o; cbn in *; try discriminate; auto.
    - rewrite (Hpre y (or_introl eq_refl)); cbn [obind].
      destruct (IH (fun z Hz => Hpre z (or_intror Hz)) Hx Ho) as [E1 E2].
      rewrite E1. destruct o; cbn in *; try discriminate; auto.
  Qed.
End MapMFacts.

(* ------------------------------------------------------------------ *)
(* list facts *)

Lemma filter_filter_implies {X} (P Q : X -> bool) l :
  (forall x, In x l -> P x = true -> Q x = true) -> filter P (filter Q l) = filter P l.
Proof.
  induction l as [|x l IH]; intros H; cbn [filter]; [reflexivity|].
  destruct (Q x) eqn:EQ; cbn [filter].
  - destruct (P x); rewrite IH by (intros; apply H; [right|]; assumption); reflexivity.
  - destruct (P x) eqn:EP.
    + rewrite (H x (or_introl eq_refl) EP) in EQ; discriminate.
    + apply IH; intros; apply H; [right|]; assumption.
Qed.

Lemma filter_filter_none {X} (P Q : X -> bool) l :
  (forall x, In x l -> P x = true -> Q x = false) -> filter P (filter Q l) = [].
Proof.
  induction l as [|x l IH]; intros H; cbn [filter]; [reflexivity|].
  destruct (Q x) eqn:EQ; cbn [filter].
  - destruct (P x) eqn:EP.
    + rewrite (H x (or_introl eq_refl) EP) in EQ; discriminate.
    + apply IH; intros; apply H; [right|]; assumption.
  - apply IH; intros; apply H; [right|]; assumption.
Qed.

Lemma filter_none {X} (P : X -> bool) l : (forall x, In x l -> P x = false) -> filter P l = [].
Proof.
  induction l as [|x l IH]; intros H; cbn [filter]; [reflexivity|].
  rewrite (H x (or_introl eq_refl)). apply IH; intros; apply H; right; assumption.
Qed.

Lemma filter_ext_in' {X} (P Q : X -> bool) l : (forall x, In x l -> P x = Q x) -> filter P l = filter Q l.
Proof.
  induction l as [|x l IH]; intros H; cbn [filter]; [reflexivity|].
  rewrite (H x (or_introl eq_refl)), IH by (intros; apply H; right; assumption). reflexivity.
Qed.

Lemma filter_length_le' {X} (P : X -> bool) l : length (filter P l) <= length l.
Proof. induction l as [|x l IH]; cbn [filter length]; [lia|]. destruct (P x); cbn [length]; lia. Qed.

Lemma filter_map_comm {X Y} (f : X -> Y) (P : Y -> bool) l :
  filter P (map f l) = map f (filter (fun x => P (f x)) l).
Proof.
  induction l as [|x l IH]; cbn [map filter]; [reflexivity|].
  destruct (P (f x)); cbn [map]; rewrite IH; reflexivity.
Qed.

Lemma StronglySorted_app {X} (R : X -> X -> Prop) l1 l2 :
  StronglySorted R l1 -> StronglySorted R l2 ->
  (forall x y, In x l1 -> In y l2 -> R x y) -> StronglySorted R (l1 ++ l2).
Proof.
  induction l1 as [|a l1 IH]; intros S1 S2 H; cbn [app]; [assumption|].
  inversion S1; subst. constructor.
  - apply IH; auto. intros; apply H; [right|]; assumption.
  - apply Forall_app; split; [assumption|].
    apply Forall_forall; intros y Hy; apply H; [left; reflexivity|assumption].
Qed.

Lemma StronglySorted_map {X Y} (f : X -> Y) (R : Y -> Y -> Prop) l :
  StronglySorted (fun a b => R (f a) (f b)) l -> StronglySorted R (map f l).
Proof.
  induction 1 as [|a l S IH F]; cbn [map]; constructor; [assumption|].
  apply Forall_map. exact F.
Qed.

Lemma StronglySorted_filter {X} (R : X -> X -> Prop) (P : X -> bool) l :
  StronglySorted R l -> StronglySorted R (filter P l).
Proof.
  induction 1 as [|a l S IH F]; cbn [filter]; [constructor|].
  destruct (P a); [|assumption]. constructor; [assumption|].
  apply Forall_forall; intros y Hy. apply filter_In in Hy. destruct Hy as [Hy _].
  revert y Hy. apply Forall_forall. exact F.
Qed.

Lemma StronglySorted_short {X} (R : X -> X -> Prop) l : length l <= 1 -> StronglySorted R l.
Proof.
  destruct l as [|a [|b l]]; cbn [length]; intros H; try lia; repeat constructor.
Qed.

Lemma map_nth_seq {X} (l : list X) d : map (fun i => nth i l d) (seq 0 (length l)) = l.
Proof.
  induction l as [|x l IH]; cbn [length seq map nth]; [reflexivity|].
  f_equal. rewrite <- seq_shift, map_map. exact IH.
Qed.

(* ------------------------------------------------------------------ *)
(* what the sort does whatever the comparison answers: it only rearranges *)

Section Rearranges.
  Variables (X E : Type) (cmp : X -> X -> outcome comparison E).

  Lemma split_ords_perm ords (items lt ge : list X) :
    length ords = length items -> split_ords ords items = (lt, ge) -> Permutation (lt ++ ge) items.
  Proof.
    revert items lt ge; induction ords as [|o ords IH]; intros [|it items] lt ge HL H; cbn [split_ords length] in *; try discriminate.
    - inversion H; constructor.
    - destruct (split_ords ords items) as [lt0 ge0] eqn:ES.
      assert (HP : Permutation (lt0 ++ ge0) items) by (apply IH; [lia|exact ES]).
      destruct (is_lt o); inversion H; subst; cbn [app].
      + constructor; exact HP.
      + apply Permutation_sym, Permutation_cons_app, Permutation_sym; exact HP.
  Qed.

  Lemma split_ords_filter (g : X -> comparison) items :
    split_ords (map g items) items =
    (filter (fun x => is_lt (g x)) items, filter (fun x => negb (is_lt (g x))) items).
  Proof.
    induction items as [|it items IH]; cbn [map split_ords filter]; [reflexivity|].
    rewrite IH. destruct (is_lt (g it)); reflexivity.
  Qed.

  Lemma quick_S f l :
    quick cmp (S f) l =
    match l with
    | [] | [_] => Panic "stdlib.rs:do_std_sort_quick_sort_1:assert!(len > 1)"
    | pivot :: items =>
        do ords <- mapM (fun it => cmp it pivot) items;
        let '(lt, ge) := split_ords ords items in
        do lt' <- (if 1 <? length lt then quick cmp f lt else Ok lt);
        do ge' <- (if 1 <? length ge then quick cmp f ge else Ok ge);
        Ok (lt' ++ pivot :: ge')
    end.
  Proof. reflexivity. Qed.

  Lemma quick_perm fuel : forall l r, quick cmp fuel l = Ok r -> Permutation r l.
  Proof.
    induction fuel as [|f IH]; intros l r H; [discriminate|].
    rewrite quick_S in H. destruct l as [|pivot [|i0 items0]]; try discriminate.
    remember (i0 :: items0) as items eqn:EI. clear EI.
    obind_inv H. rename v into ords.
    destruct (split_ords ords items) as [lt ge] eqn:ES.
    obind_inv H. rename v into lt'. obind_inv H. rename v into ge'. inversion H; subst r; clear H.
    assert (HL : Permutation lt' lt).
    { destruct (1 <? length lt); [apply IH; assumption|]. inversion Hv0; auto. }
    assert (HG : Permutation ge' ge).
    { destruct (1 <? length ge); [apply IH; assumption|]. inversion Hv1; auto. }
    apply split_ords_perm in ES; [|apply mapM_ok_length in Hv; exact Hv].
    apply Permutation_sym, Permutation_cons_app, Permutation_sym.
    rewrite HL, HG. exact ES.
  Qed.

  Lemma merge_nil_l l2 : merge cmp [] l2 = Ok l2.
  Proof. destruct l2; reflexivity. Qed.
  Lemma merge_nil_r l1 : merge cmp l1 [] = Ok l1.
  Proof. destruct l1; reflexivity. Qed.
  Lemma merge_cons a1 l1 a2 l2 :
    merge cmp (a1 :: l1) (a2 :: l2) =
    do c <- cmp a1 a2;
    if is_le c then (do r <- merge cmp l1 (a2 :: l2); Ok (a1 :: r))
    else (do r <- merge cmp (a1 :: l1) l2; Ok (a2 :: r)).
  Proof. reflexivity. Qed.

  Lemma merge_perm : forall l1 l2 r, merge cmp l1 l2 = Ok r -> Permutation r (l1 ++ l2).
  Proof.
    induction l1 as [|a1 l1 IH1]; intros l2 r H.
    - rewrite merge_nil_l in H; inversion H; auto.
    - revert r H; induction l2 as [|a2 l2 IH2]; intros r H.
      + rewrite merge_nil_r in H; inversion H; rewrite app_nil_r; auto.
      + rewrite merge_cons in H. obind_inv H. destruct (is_le v).
        * obind_inv H. inversion H; subst. cbn [app]. constructor. apply IH1; assumption.
        * obind_inv H. inversion H; subst.
          apply Permutation_cons_app with (l1 := a1 :: l1). apply IH2; assumption.
  Qed.

  Lemma sort_slice_S f l :
    sort_slice cmp (S f) l =
    let len := length l in
    if 30 <? len then
      let mid := Nat.div len 2 in
      do a <- sort_slice cmp f (firstn mid l);
      do b <- sort_slice cmp f (skipn mid l);
      merge cmp a b
    else if 1 <? len then quick cmp len l
    else Ok l.
  Proof. reflexivity. Qed.

  Lemma sort_slice_perm fuel : forall l r, sort_slice cmp fuel l = Ok r -> Permutation r l.
  Proof.
    induction fuel as [|f IH]; intros l r H; [discriminate|].
    rewrite sort_slice_S in H. cbv zeta in H.
    destruct (30 <? length l).
    - obind_inv H. obind_inv H. apply merge_perm in H.
      rewrite H, (IH _ _ Hv), (IH _ _ Hv0), firstn_skipn. reflexivity.
    - destruct (1 <? length l); [eapply quick_perm; eassumption|]. inversion H; auto.
  Qed.
End Rearranges.

(* ------------------------------------------------------------------ *)
(* total preorders given by a three-way comparison *)

Record total_preorder {X : Type} (c : X -> X -> comparison) : Prop := {
  tp_refl : forall x, c x x = Eq;
  tp_sym : forall x y, c y x = CompOpp (c x y);
  tp_trans : forall x y z, c x y <> Gt -> c y z <> Gt -> c x z <> Gt
}.

Definition same_key {X} (c : X -> X -> comparison) (a x : X) : bool :=
  match c a x with Eq => true | _ => false end.

Section Preorder.
  Variables (X : Type) (c : X -> X -> comparison).
  Hypothesis TP : total_preorder c.

  Definition cle (x y : X) : Prop := c x y <> Gt.

  Lemma cle_trans x y z : cle x y -> cle y z -> cle x z.
  Proof. apply (tp_trans c TP). Qed.

  Lemma cle_refl x : cle x x.
  Proof. unfold cle; rewrite (tp_refl c TP); discriminate. Qed.

  Lemma lt_cle x y : c x y = Lt -> cle x y.
  Proof. unfold cle; intros ->; discriminate. Qed.

  Lemma not_lt_cle x y : is_lt (c x y) = false -> cle y x.
  Proof.
    unfold cle; rewrite (tp_sym c TP x y). destruct (c x y); cbn; intros; try discriminate.
  Qed.

  Lemma gt_cle x y : c x y = Gt -> cle y x.
  Proof. intros H; apply not_lt_cle; rewrite H; reflexivity. Qed.

  (* equal keys are interchangeable on the left of a comparison *)
  Lemma eq_cong_l a x z : c a x = Eq -> c x z = c a z.
  Proof.
    intros Hax.
    pose proof (tp_sym c TP a x) as S1. pose proof (tp_sym c TP x z) as S2. pose proof (tp_sym c TP a z) as S3.
    pose proof (tp_trans c TP x a z) as T1. pose proof (tp_trans c TP a x z) as T2.
    pose proof (tp_trans c TP z a x) as T3. pose proof (tp_trans c TP z x a) as T4.
    rewrite Hax in *. cbn in S1. rewrite S1, S2, S3 in *.
    destruct (c x z), (c a z); cbn in *; try reflexivity; exfalso;
      first [ apply T1; congruence | apply T2; congruence | apply T3; congruence | apply T4; congruence ].
  Qed.

  Lemma same_key_cong a x z : c a x = Eq -> same_key c x z = same_key c a z.
  Proof. intros H; unfold same_key; rewrite (eq_cong_l a x z H); reflexivity. Qed.

  Lemma eq_sym x y : c x y = Eq -> c y x = Eq.
  Proof. intros H; rewrite (tp_sym c TP x y), H; reflexivity. Qed.
End Preorder.

(* ------------------------------------------------------------------ *)
(* the sort under a total preorder that the comparison computes without error
   on the elements of the input *)

Section Correct.
  Variables (X E : Type) (cmp : X -> X -> outcome comparison E) (c : X -> X -> comparison).
  Hypothesis TP : total_preorder c.

  Definition agree (l : list X) : Prop := forall x y, In x l -> In y l -> cmp x y = Ok (c x y).

  Definition sorted_of (l r : list X) : Prop :=
    Permutation r l /\ StronglySorted (cle X c) r /\
    (forall a, filter (same_key c a) r = filter (same_key c a) l).

  Lemma agree_incl l l' : agree l -> incl l' l -> agree l'.
  Proof. intros H I x y Hx Hy; apply H; apply I; assumption. Qed.

  Lemma sorted_of_short l : length l <= 1 -> sorted_of l l.
  Proof. intros H; split; [auto|split; [apply StronglySorted_short; exact H|reflexivity]]. Qed.

  Lemma quick_correct fuel : forall l,
    length l <= fuel -> 2 <= length l -> agree l ->
    exists r, quick cmp fuel l = Ok r /\ sorted_of l r.
  Proof.
    induction fuel as [|f IH]; intros l HF HL HA; [lia|].
    rewrite quick_S. destruct l as [|pivot [|i0 items0]]; cbn [length] in HL; try lia.
    remember (i0 :: items0) as items eqn:EI.
    assert (HM : mapM (fun it => cmp it pivot) items = Ok (map (fun it => c it pivot) items)).
    { apply mapM_pure; intros x Hx; apply HA; [right; exact Hx|left; reflexivity]. }
    rewrite HM; cbn [obind]. rewrite split_ords_filter.
    set (lt := filter (fun x => is_lt (c x pivot)) items).
    set (ge := filter (fun x => negb (is_lt (c x pivot))) items).
    assert (Ilt : incl lt (pivot :: items)) by (intros x Hx; right; apply filter_In in Hx; tauto).
    assert (Ige : incl ge (pivot :: items)) by (intros x Hx; right; apply filter_In in Hx; tauto).
    assert (Llt : length lt <= f).
    { pose proof (filter_length_le' (fun x => is_lt (c x pivot)) items). cbn [length] in HF. unfold lt. lia. }
    assert (Lge : length ge <= f).
    { pose proof (filter_length_le' (fun x => negb (is_lt (c x pivot))) items). cbn [length] in HF. unfold ge. lia. }
    assert (Hlt : exists lt', (if 1 <? length lt then quick cmp f lt else Ok lt) = Ok lt' /\ sorted_of lt lt').
    { destruct (1 <? length lt) eqn:E1.
      - apply Nat.ltb_lt in E1. apply IH; [assumption|lia|eapply agree_incl; eassumption].
      - apply Nat.ltb_ge in E1. exists lt; split; [reflexivity|apply sorted_of_short; exact E1]. }
    assert (Hge : exists ge', (if 1 <? length ge then quick cmp f ge else Ok ge) = Ok ge' /\ sorted_of ge ge').
    { destruct (1 <? length ge) eqn:E1.
      - apply Nat.ltb_lt in E1. apply IH; [assumption|lia|eapply agree_incl; eassumption].
      - apply Nat.ltb_ge in E1. exists ge; split; [reflexivity|apply sorted_of_short; exact E1]. }
    destruct Hlt as [lt' [Elt [Plt [Slt Tlt]]]]. destruct Hge as [ge' [Ege [Pge [Sge Tge]]]].
    rewrite Elt; cbn [obind]. rewrite Ege; cbn [obind].
    eexists; split; [reflexivity|].
    assert (Flt : forall x, In x lt' -> c x pivot = Lt).
    { intros x Hx. apply (Permutation_in _ Plt) in Hx. apply filter_In in Hx. destruct Hx as [_ Hx].
      destruct (c x pivot); cbn in Hx; congruence. }
    assert (Fge : forall x, In x ge' -> is_lt (c x pivot) = false).
    { intros x Hx. apply (Permutation_in _ Pge) in Hx. apply filter_In in Hx. destruct Hx as [_ Hx].
      apply negb_true_iff in Hx; exact Hx. }
    split; [|split].
    - (* permutation *)
      apply Permutation_sym, Permutation_cons_app, Permutation_sym.
      rewrite Plt, Pge. unfold lt, ge.
      clear. induction items as [|x items IH]; cbn [filter]; [constructor|].
      destruct (is_lt (c x pivot)); cbn [negb app].
      + constructor; exact IH.
      + apply Permutation_sym, Permutation_cons_app, Permutation_sym; exact IH.
    - (* sorted *)
      apply StronglySorted_app; [assumption| |].
      + constructor; [assumption|]. apply Forall_forall; intros y Hy. apply (not_lt_cle X c TP). apply Fge; exact Hy.
      + intros x y Hx [Hy|Hy].
        * subst y. apply lt_cle. apply Flt; exact Hx.
        * apply (cle_trans X c TP x pivot y); [apply lt_cle, Flt; exact Hx|apply (not_lt_cle X c TP), Fge; exact Hy].
    - (* stable *)
      intros a. rewrite filter_app. cbn [filter]. rewrite Tlt, Tge. unfold lt, ge.
      destruct (c a pivot) eqn:Eap.
      + (* a ~ pivot *)
        assert (Hsk : same_key c a pivot = true) by (unfold same_key; rewrite Eap; reflexivity).
        rewrite Hsk.
        rewrite filter_filter_none.
        2:{ intros x _ Hx. unfold same_key in Hx. destruct (c a x) eqn:Eax; try discriminate.
            rewrite (eq_cong_l X c TP a x pivot Eax), Eap. reflexivity. }
        rewrite filter_filter_implies; [reflexivity|].
        intros x _ Hx. unfold same_key in Hx. destruct (c a x) eqn:Eax; try discriminate.
        rewrite (eq_cong_l X c TP a x pivot Eax), Eap. reflexivity.
      + (* a < pivot *)
        assert (Hsk : same_key c a pivot = false) by (unfold same_key; rewrite Eap; reflexivity).
        rewrite Hsk.
        rewrite filter_filter_implies.
        2:{ intros x _ Hx. unfold same_key in Hx. destruct (c a x) eqn:Eax; try discriminate.
            rewrite (eq_cong_l X c TP a x pivot Eax), Eap. reflexivity. }
        rewrite filter_filter_none; [rewrite app_nil_r; reflexivity|].
        intros x _ Hx. unfold same_key in Hx. destruct (c a x) eqn:Eax; try discriminate.
        rewrite (eq_cong_l X c TP a x pivot Eax), Eap. reflexivity.
      + (* a > pivot *)
        assert (Hsk : same_key c a pivot = false) by (unfold same_key; rewrite Eap; reflexivity).
        rewrite Hsk.
        rewrite filter_filter_none.
        2:{ intros x _ Hx. unfold same_key in Hx. destruct (c a x) eqn:Eax; try discriminate.
            rewrite (eq_cong_l X c TP a x pivot Eax), Eap. reflexivity. }
        rewrite filter_filter_implies; [reflexivity|].
        intros x _ Hx. unfold same_key in Hx. destruct (c a x) eqn:Eax; try discriminate.
        rewrite (eq_cong_l X c TP a x pivot Eax), Eap. reflexivity.
  Qed.

  Lemma merge_correct : forall l1 l2,
    agree (l1 ++ l2) -> StronglySorted (cle X c) l1 -> StronglySorted (cle X c) l2 ->
    exists r, merge cmp l1 l2 = Ok r /\ Permutation r (l1 ++ l2) /\ StronglySorted (cle X c) r /\
              (forall a, filter (same_key c a) r = filter (same_key c a) l1 ++ filter (same_key c a) l2).
  Proof.
    induction l1 as [|a1 l1 IH1]; intros l2 HA S1 S2.
    - exists l2. rewrite merge_nil_l. repeat split; auto.
    - induction l2 as [|a2 l2 IH2].
      + exists (a1 :: l1). rewrite merge_nil_r, app_nil_r. repeat split; auto.
        intros a; rewrite app_nil_r; reflexivity.
      + rewrite merge_cons.
        rewrite (HA a1 a2) by (apply in_or_app; cbn [In]; auto).
        cbn [obind].
        inversion S1 as [|? ? S1' F1]; subst. inversion S2 as [|? ? S2' F2]; subst.
        destruct (is_le (c a1 a2)) eqn:Ele.
        * (* take the left head *)
          destruct (IH1 (a2 :: l2)) as [r [Er [Pr [Sr Tr]]]]; auto.
          { eapply agree_incl; [exact HA|]. intros x Hx; right; exact Hx. }
          rewrite Er; cbn [obind]. eexists; split; [reflexivity|]. split; [|split].
          -- cbn [app]; constructor; exact Pr.
          -- constructor; [exact Sr|].
             eapply Permutation_Forall; [apply Permutation_sym; exact Pr|].
             apply Forall_app; split; [exact F1|].
             assert (H12 : cle X c a1 a2) by (unfold cle; destruct (c a1 a2); cbn in Ele; congruence).
             constructor; [exact H12|].
             eapply Forall_impl; [|exact F2]. intros y Hy. eapply cle_trans; eauto.
          -- intros a. cbn [filter]. destruct (same_key c a a1); rewrite Tr; reflexivity.
        * (* take the right head: a1 > a2 *)
          assert (Hgt : c a1 a2 = Gt) by (destruct (c a1 a2); cbn in Ele; congruence).
          destruct IH2 as [r [Er [Pr [Sr Tr]]]]; auto.
          { eapply agree_incl; [exact HA|]. intros x Hx. apply in_app_or in Hx. apply in_or_app.
            destruct Hx as [Hx|Hx]; [left; exact Hx|right; right; exact Hx]. }
          rewrite Er; cbn [obind]. eexists; split; [reflexivity|]. split; [|split].
          -- apply Permutation_cons_app with (l1 := a1 :: l1). exact Pr.
          -- constructor; [exact Sr|].
             eapply Permutation_Forall; [apply Permutation_sym; exact Pr|].
             assert (H21 : cle X c a2 a1) by (apply (gt_cle X c TP); exact Hgt).
             apply Forall_app; split; [|exact F2].
             constructor; [exact H21|].
             eapply Forall_impl; [|exact F1]. intros y Hy. eapply cle_trans; eauto.
          -- intros a.
             change (filter (same_key c a) (a2 :: r)) with
               (if same_key c a a2 then a2 :: filter (same_key c a) r else filter (same_key c a) r).
             change (filter (same_key c a) (a2 :: l2)) with
               (if same_key c a a2 then a2 :: filter (same_key c a) l2 else filter (same_key c a) l2).
             rewrite Tr.
             destruct (same_key c a a2) eqn:Esk; [|reflexivity].
             (* nothing on the left has the key of a2: everything there is above a1 > a2 *)
             assert (HN : filter (same_key c a) (a1 :: l1) = []).
             { apply filter_none. intros x Hx.
               destruct (same_key c a x) eqn:Ex; [exfalso|reflexivity].
               unfold same_key in Esk, Ex.
               destruct (c a a2) eqn:Eaa2; try discriminate. destruct (c a x) eqn:Eax; try discriminate.
               assert (Hxa2 : c x a2 = Eq) by (rewrite (eq_cong_l X c TP a x a2 Eax); exact Eaa2).
               assert (H1x : cle X c a1 x).
               { destruct Hx as [Hx|Hx]; [subst; apply cle_refl; exact TP|].
                 exact (proj1 (Forall_forall _ _) F1 x Hx). }
               assert (H1a2 : cle X c a1 a2).
               { eapply cle_trans; [exact TP|exact H1x|]. unfold cle; rewrite Hxa2; discriminate. }
               apply H1a2; exact Hgt. }
             rewrite HN. reflexivity.
  Qed.

  Lemma sort_slice_correct fuel : forall l,
    length l < fuel -> agree l -> exists r, sort_slice cmp fuel l = Ok r /\ sorted_of l r.
  Proof.
    induction fuel as [|f IH]; intros l HF HA; [lia|].
    rewrite sort_slice_S; cbv zeta.
    destruct (30 <? length l) eqn:E30.
    - apply Nat.ltb_lt in E30.
      set (mid := Nat.div (length l) 2).
      assert (Hmid : 0 < mid < length l).
      { unfold mid. split; [apply Nat.div_str_pos; lia|apply Nat.div_lt; lia]. }
      assert (HLa : length (firstn mid l) < f) by (rewrite firstn_length; lia).
      assert (HLb : length (skipn mid l) < f) by (rewrite skipn_length; lia).
      assert (Ia : incl (firstn mid l) l).
      { intros x Hx. rewrite <- (firstn_skipn mid l). apply in_or_app; left; exact Hx. }
      assert (Ib : incl (skipn mid l) l).
      { intros x Hx. rewrite <- (firstn_skipn mid l). apply in_or_app; right; exact Hx. }
      destruct (IH _ HLa (agree_incl _ _ HA Ia)) as [a [Ea [Pa [Sa Ta]]]].
      destruct (IH _ HLb (agree_incl _ _ HA Ib)) as [b [Eb [Pb [Sb Tb]]]].
      rewrite Ea; cbn [obind]. rewrite Eb; cbn [obind].
      destruct (merge_correct a b) as [r [Er [Pr [Sr Tr]]]]; auto.
      { eapply agree_incl; [exact HA|]. intros x Hx. apply in_app_or in Hx.
        destruct Hx as [Hx|Hx]; [apply Ia; eapply Permutation_in; eauto|apply Ib; eapply Permutation_in; eauto]. }
      exists r; split; [exact Er|]. split; [|split].
      + rewrite Pr, Pa, Pb, firstn_skipn. reflexivity.
      + exact Sr.
      + intros k. rewrite Tr, Ta, Tb, <- filter_app, firstn_skipn. reflexivity.
    - destruct (1 <? length l) eqn:E1.
      + apply Nat.ltb_lt in E1. apply quick_correct; [lia|lia|exact HA].
      + apply Nat.ltb_ge in E1. exists l; split; [reflexivity|apply sorted_of_short; exact E1].
  Qed.

  Lemma sort_list_correct l : agree l -> exists r, sort_list cmp l = Ok r /\ sorted_of l r.
  Proof. intros HA; unfold sort_list; apply sort_slice_correct; [lia|exact HA]. Qed.
End Correct.

(* ------------------------------------------------------------------ *)
(* relative order inside a list *)

Definition before {X} (i j : X) (p : list X) : Prop :=
  exists l1 l2 l3, p = l1 ++ i :: l2 ++ j :: l3.

Lemma StronglySorted_before {X} (R : X -> X -> Prop) l1 i l2 j l3 :
  StronglySorted R (l1 ++ i :: l2 ++ j :: l3) -> R i j.
Proof.
  induction l1 as [|a l1 IH]; cbn [app]; intros S; inversion S as [|? ? S' F]; subst.
  - apply (proj1 (Forall_forall _ _) F). apply in_or_app; right; left; reflexivity.
  - apply IH; exact S'.
Qed.

Lemma StronglySorted_seq a n : StronglySorted lt (seq a n).
Proof.
  revert a; induction n as [|n IH]; intros a; cbn [seq]; constructor; [apply IH|].
  apply Forall_forall; intros y Hy; apply in_seq in Hy; lia.
Qed.

Lemma StronglySorted_impl {X} (R1 R2 : X -> X -> Prop) l :
  (forall x y, R1 x y -> R2 x y) -> StronglySorted R1 l -> StronglySorted R2 l.
Proof.
  intros H; induction 1 as [|a l S IH F]; constructor; [assumption|].
  eapply Forall_impl; [|exact F]. intros; apply H; assumption.
Qed.

Lemma total_preorder_pullback {X Y} (c : X -> X -> comparison) (f : Y -> X) :
  total_preorder c -> total_preorder (fun a b => c (f a) (f b)).
Proof.
  intros [R S T]; constructor; intros; [apply R|apply S|eapply T; eassumption].
Qed.

(* ------------------------------------------------------------------ *)
(* std.sort *)

Section StdSortCorrect.
  Variables (A K E : Type) (keyf : A -> outcome K E) (cmp : K -> K -> outcome comparison E).
  Variables (kf : A -> K) (c : K -> K -> comparison).
  Hypothesis TP : total_preorder c.

  Definition keys_pure (arr : list A) : Prop := forall a, In a arr -> keyf a = Ok (kf a).
  Definition cmp_pure (arr : list A) : Prop :=
    forall a b, In a arr -> In b arr -> cmp (kf a) (kf b) = Ok (c (kf a) (kf b)).

  (* the comparison on indices induced by an array and a default element *)
  Definition cidx (arr : list A) (d : A) (i j : nat) : comparison :=
    c (kf (nth i arr d)) (kf (nth j arr d)).

  Lemma key_at_map (arr : list A) (d : A) i : i < length arr -> key_at (E := E) (map kf arr) i = Ok (kf (nth i arr d)).
  Proof.
    intros H. unfold key_at.
    rewrite (nth_error_nth' (map kf arr) (kf d)) by (rewrite map_length; exact H).
    rewrite map_nth. reflexivity.
  Qed.

  Lemma sort_idx_correct arr d :
    cmp_pure arr ->
    exists p, sort_idx cmp (map kf arr) = Ok p /\
              sorted_of nat (cidx arr d) (seq 0 (length arr)) p.
  Proof.
    intros HC. unfold sort_idx. rewrite map_length.
    apply sort_list_correct.
    - apply (total_preorder_pullback c (fun i => kf (nth i arr d)) TP).
    - intros i j Hi Hj. apply in_seq in Hi. apply in_seq in Hj.
      unfold cmp_idx. rewrite (key_at_map arr d i), (key_at_map arr d j) by lia. cbn [obind].
      apply HC; apply nth_In; lia.
  Qed.

  Lemma elems_of_perm (arr : list A) (d : A) p :
    Permutation p (seq 0 (length arr)) ->
    mapM (elem_at (E := E) arr) p = Ok (map (fun i => nth i arr d) p).
  Proof.
    intros HP. apply mapM_pure. intros i Hi.
    apply (Permutation_in _ HP) in Hi. apply in_seq in Hi.
    unfold elem_at. rewrite (nth_error_nth' arr d) by lia. reflexivity.
  Qed.

  Theorem std_sort_correct arr :
    keys_pure arr -> cmp_pure arr ->
    exists r, std_sort keyf cmp arr = Ok r /\
              Permutation r arr /\
              StronglySorted (fun x y => c (kf x) (kf y) <> Gt) r /\
              (forall k, filter (fun x => same_key c k (kf x)) r = filter (fun x => same_key c k (kf x)) arr).
  Proof.
    intros HK HC. unfold std_sort.
    destruct (length arr <=? 1) eqn:E1.
    - apply Nat.leb_le in E1. exists arr. repeat split; auto. apply StronglySorted_short; exact E1.
    - apply Nat.leb_gt in E1. destruct arr as [|d rest]; [cbn in E1; lia|].
      set (arr := d :: rest) in *.
      rewrite (mapM_pure keyf kf arr HK); cbn [obind].
      destruct (sort_idx_correct arr d HC) as [p [Ep [Pp [Sp Tp]]]].
      rewrite Ep; cbn [obind]. rewrite (elems_of_perm arr d p Pp).
      set (f := fun i => nth i arr d).
      exists (map f p). split; [reflexivity|]. split; [|split].
      + apply Permutation_trans with (map f (seq 0 (length arr))); [apply Permutation_map; exact Pp|].
        unfold f. rewrite map_nth_seq. apply Permutation_refl.
      + apply StronglySorted_map. exact Sp.
      + intros k.
        destruct (existsb (fun x => same_key c k (kf x)) arr) eqn:Eex.
        * apply existsb_exists in Eex. destruct Eex as [x0 [Hx0 Hk0]].
          destruct (In_nth arr x0 d Hx0) as [i0 [Hi0 Ei0]].
          assert (Hk : c k (kf x0) = Eq) by (unfold same_key in Hk0; destruct (c k (kf x0)); congruence).
          assert (Hrep : forall x, same_key c k (kf x) = same_key c (kf x0) (kf x)).
          { intros x. symmetry. apply (same_key_cong K c TP). exact Hk. }
          rewrite (filter_ext_in' _ (fun x => same_key c (kf x0) (kf x)) (map f p)) by (intros; apply Hrep).
          rewrite (filter_ext_in' _ (fun x => same_key c (kf x0) (kf x)) arr) by (intros; apply Hrep).
          rewrite filter_map_comm.
          assert (Hfi : forall i, same_key c (kf x0) (kf (f i)) = same_key (cidx arr d) i0 i).
          { intros i. unfold same_key, cidx. fold (f i0). unfold f at 2. rewrite Ei0. reflexivity. }
          rewrite (filter_ext_in' _ (same_key (cidx arr d) i0) p) by (intros; apply Hfi).
          rewrite Tp.
          rewrite <- (filter_ext_in' (fun i => same_key c (kf x0) (kf (f i))) _ (seq 0 (length arr))) by (intros; apply Hfi).
          rewrite <- (filter_map_comm f (fun x => same_key c (kf x0) (kf x))). unfold f. rewrite map_nth_seq. reflexivity.
        * assert (Hno : forall x, In x arr -> same_key c k (kf x) = false).
          { intros x Hx. destruct (same_key c k (kf x)) eqn:Ex; [|reflexivity].
            assert (existsb (fun x => same_key c k (kf x)) arr = true) by (apply existsb_exists; eauto).
            congruence. }
          rewrite (filter_none _ arr Hno).
          apply filter_none. intros x Hx. apply Hno.
          apply in_map_iff in Hx. destruct Hx as [i [Ei Hi]]. subst x.
          apply (Permutation_in _ Pp) in Hi. apply in_seq in Hi. apply nth_In. lia.
  Qed.

  (* the index form: the permutation applied, sorted by key, equal keys in input order *)
  Theorem sort_idx_spec (ks : list K) (d : K) :
    (forall a b, In a ks -> In b ks -> cmp a b = Ok (c a b)) ->
    exists p, sort_idx cmp ks = Ok p /\
      Permutation p (seq 0 (length ks)) /\
      StronglySorted (fun i j => c (nth i ks d) (nth j ks d) <> Gt) p /\
      (forall i j, before i j p -> c (nth i ks d) (nth j ks d) = Eq -> i < j).
  Proof.
    intros HC.
    set (cx := fun i j => c (nth i ks d) (nth j ks d)).
    assert (TPx : total_preorder cx) by (apply (total_preorder_pullback c (fun i => nth i ks d) TP)).
    destruct (sort_list_correct nat E (cmp_idx cmp ks) cx TPx (seq 0 (length ks))) as [p [Ep [Pp [Sp Tp]]]].
    { intros i j Hi Hj. apply in_seq in Hi. apply in_seq in Hj. unfold cmp_idx, key_at.
      rewrite (nth_error_nth' ks d), (nth_error_nth' ks d) by lia. cbn [obind].
      apply HC; apply nth_In; lia. }
    exists p. split; [exact Ep|]. split; [exact Pp|]. split; [exact Sp|].
    intros i j [l1 [l2 [l3 Hb]]] Heq.
    specialize (Tp i). rewrite Hb in Tp.
    rewrite filter_app in Tp. cbn [filter] in Tp. rewrite filter_app in Tp. cbn [filter] in Tp.
    assert (Hii : same_key cx i i = true) by (unfold same_key; rewrite (tp_refl cx TPx); reflexivity).
    assert (Hij : same_key cx i j = true) by (unfold same_key, cx; rewrite Heq; reflexivity).
    rewrite Hii, Hij in Tp.
    pose proof (StronglySorted_filter lt (same_key cx i) _ (StronglySorted_seq 0 (length ks))) as HS.
    rewrite <- Tp in HS. apply StronglySorted_before in HS. exact HS.
  Qed.
End StdSortCorrect.

(* ------------------------------------------------------------------ *)
(* no Panic, no OutOfFuel: the asserts and unwraps of the sort are unreachable and
   the fuel [S (length l)] suffices, whatever the comparison answers *)

Definition clean {A E} (o : outcome A E) : Prop :=
  match o with Ok _ | Err _ => True | _ => False end.

Lemma clean_obind {A B E} (x : outcome A E) (f : A -> outcome B E) :
  clean x -> (forall a, x = Ok a -> clean (f a)) -> clean (obind x f).
Proof. destruct x; cbn; intros H1 H2; auto. Qed.

Lemma clean_mapM {A B E} (f : A -> outcome B E) l : (forall x, In x l -> clean (f x)) -> clean (mapM f l).
Proof.
  induction l as [|x l IH]; intros H; cbn [mapM]; [exact I|].
  apply clean_obind; [apply H; left; reflexivity|]. intros y _.
  apply clean_obind; [apply IH; intros; apply H; right; assumption|]. intros; exact I.
Qed.

Section NoPanic.
  Variables (X E : Type) (cmp : X -> X -> outcome comparison E).

  Definition cmp_clean (l : list X) : Prop := forall x y, In x l -> In y l -> clean (cmp x y).

  Lemma quick_clean fuel : forall l, length l <= fuel -> 2 <= length l -> cmp_clean l -> clean (quick cmp fuel l).
  Proof.
    induction fuel as [|f IH]; intros l HF HL HC; [lia|].
    rewrite quick_S. destruct l as [|pivot [|i0 items0]]; cbn [length] in HL; try lia.
    remember (i0 :: items0) as items eqn:EI.
    apply clean_obind.
    { apply clean_mapM. intros x Hx. apply HC; [right; exact Hx|left; reflexivity]. }
    intros ords Hords.
    destruct (split_ords ords items) as [lt ge] eqn:ES.
    pose proof (split_ords_perm X ords items lt ge (mapM_ok_length _ _ _ Hords) ES) as HP.
    assert (HLen : length lt + length ge = length items).
    { rewrite <- app_length. apply Permutation_length. exact HP. }
    cbn [length] in HF.
    assert (Hsub : forall l', incl l' (lt ++ ge) -> cmp_clean l').
    { intros l' Hi x y Hx Hy. apply HC; right; eapply Permutation_in; try exact HP; apply Hi; assumption. }
    apply clean_obind.
    { destruct (1 <? length lt) eqn:E1; [|exact I]. apply Nat.ltb_lt in E1.
      apply IH; [lia|lia|]. apply Hsub. intros x Hx; apply in_or_app; left; exact Hx. }
    intros lt' _. apply clean_obind.
    { destruct (1 <? length ge) eqn:E1; [|exact I]. apply Nat.ltb_lt in E1.
      apply IH; [lia|lia|]. apply Hsub. intros x Hx; apply in_or_app; right; exact Hx. }
    intros; exact I.
  Qed.

  Lemma merge_clean : forall l1 l2, cmp_clean (l1 ++ l2) -> clean (merge cmp l1 l2).
  Proof.
    induction l1 as [|a1 l1 IH1]; intros l2 HC.
    - rewrite merge_nil_l; exact I.
    - induction l2 as [|a2 l2 IH2].
      + rewrite merge_nil_r; exact I.
      + rewrite merge_cons. apply clean_obind.
        { apply HC; apply in_or_app; cbn [In]; auto. }
        intros cc _. destruct (is_le cc).
        * apply clean_obind; [|intros; exact I]. apply IH1.
          intros x y Hx Hy. apply HC; right; assumption.
        * apply clean_obind; [|intros; exact I]. apply IH2.
          intros x y Hx Hy. apply HC; apply in_app_or in Hx; apply in_app_or in Hy; apply in_or_app.
          -- destruct Hx; [left|right; right]; assumption.
          -- destruct Hy; [left|right; right]; assumption.
  Qed.

  Lemma sort_slice_clean fuel : forall l, length l < fuel -> cmp_clean l -> clean (sort_slice cmp fuel l).
  Proof.
    induction fuel as [|f IH]; intros l HF HC; [lia|].
    rewrite sort_slice_S; cbv zeta.
    destruct (30 <? length l) eqn:E30.
    - apply Nat.ltb_lt in E30.
      set (mid := Nat.div (length l) 2).
      assert (Hmid : 0 < mid < length l).
      { unfold mid. split; [apply Nat.div_str_pos; lia|apply Nat.div_lt; lia]. }
      assert (Ia : incl (firstn mid l) l).
      { intros x Hx. rewrite <- (firstn_skipn mid l). apply in_or_app; left; exact Hx. }
      assert (Ib : incl (skipn mid l) l).
      { intros x Hx. rewrite <- (firstn_skipn mid l). apply in_or_app; right; exact Hx. }
      apply clean_obind.
      { apply IH; [rewrite firstn_length; lia|]. intros x y Hx Hy; apply HC; apply Ia; assumption. }
      intros a Ha. apply clean_obind.
      { apply IH; [rewrite skipn_length; lia|]. intros x y Hx Hy; apply HC; apply Ib; assumption. }
      intros b Hb. apply merge_clean.
      apply sort_slice_perm in Ha. apply sort_slice_perm in Hb.
      intros x y Hx Hy. apply HC.
      + apply in_app_or in Hx. destruct Hx as [Hx|Hx]; [apply Ia|apply Ib]; eapply Permutation_in; eauto.
      + apply in_app_or in Hy. destruct Hy as [Hy|Hy]; [apply Ia|apply Ib]; eapply Permutation_in; eauto.
    - destruct (1 <? length l) eqn:E1; [|exact I].
      apply Nat.ltb_lt in E1. apply quick_clean; [lia|lia|exact HC].
  Qed.

  Theorem sort_list_clean l : cmp_clean l -> clean (sort_list cmp l).
  Proof. intros HC; unfold sort_list; apply sort_slice_clean; [lia|exact HC]. Qed.

  (* ---- errors of the comparison are not swallowed ---- *)

  Lemma mapM_not_ok {B} (f : X -> outcome B E) l x : In x l -> is_ok (f x) = false -> is_ok (mapM f l) = false.
  Proof.
    induction l as [|y l IH]; intros Hin Hx; [destruct Hin|].
    cbn [mapM]. destruct Hin as [->|Hin].
    - destruct (f x); cbn in *; try discriminate; reflexivity.
    - destruct (f y); cbn [obind is_ok]; try reflexivity.
      specialize (IH Hin Hx). destruct (mapM f l); cbn in *; try discriminate; reflexivity.
  Qed.

  (* (a) the comparison fails on every pair of the input *)
  Lemma quick_all_bad fuel l :
    2 <= length l -> (forall x y, In x l -> In y l -> is_ok (cmp x y) = false) -> is_ok (quick cmp fuel l) = false.
  Proof.
    destruct fuel as [|f]; intros HL HB; [reflexivity|].
    rewrite quick_S. destruct l as [|pivot [|i0 items0]]; cbn [length] in HL; try lia.
    assert (HM : is_ok (mapM (fun it => cmp it pivot) (i0 :: items0)) = false).
    { apply (mapM_not_ok _ _ i0); [left; reflexivity|]. apply HB; [right; left; reflexivity|left; reflexivity]. }
    destruct (mapM (fun it => cmp it pivot) (i0 :: items0)); cbn in *; try discriminate; reflexivity.
  Qed.

  Lemma sort_slice_all_bad fuel : forall l,
    2 <= length l -> (forall x y, In x l -> In y l -> is_ok (cmp x y) = false) -> is_ok (sort_slice cmp fuel l) = false.
  Proof.
    induction fuel as [|f IH]; intros l HL HB; [reflexivity|].
    rewrite sort_slice_S; cbv zeta.
    destruct (30 <? length l) eqn:E30.
    - apply Nat.ltb_lt in E30.
      assert (Hmid : 15 <= Nat.div (length l) 2 < length l).
      { split; [apply Nat.div_le_lower_bound; lia|apply Nat.div_lt; lia]. }
      assert (HA : is_ok (sort_slice cmp f (firstn (Nat.div (length l) 2) l)) = false).
      { apply IH; [rewrite firstn_length; lia|].
        intros x y Hx Hy; apply HB; rewrite <- (firstn_skipn (Nat.div (length l) 2) l); apply in_or_app; left; assumption. }
      destruct (sort_slice cmp f (firstn (Nat.div (length l) 2) l)); cbn in *; try discriminate; reflexivity.
    - destruct (1 <? length l) eqn:E1.
      + apply quick_all_bad; assumption.
      + apply Nat.ltb_ge in E1; lia.
  Qed.

  (* (b) the comparison only succeeds inside one class (e.g. the value type):
     a successful sort means that the input is of one class *)
  Variables (T : Type) (ty : X -> T).
  Hypothesis ok_same_class : forall x y, is_ok (cmp x y) = true -> ty x = ty y.

  Definition one_class (l : list X) : Prop := forall x y, In x l -> In y l -> ty x = ty y.

  Lemma mapM_ok_all {B} (f : X -> outcome B E) l ys x : mapM f l = Ok ys -> In x l -> is_ok (f x) = true.
  Proof.
    intros H Hin. destruct (is_ok (f x)) eqn:Ex; [reflexivity|].
    pose proof (mapM_not_ok f l x Hin Ex) as HN. rewrite H in HN. discriminate.
  Qed.

  Lemma quick_ok_one_class fuel l r : quick cmp fuel l = Ok r -> one_class l.
  Proof.
    destruct fuel as [|f]; intros H; [discriminate|].
    rewrite quick_S in H. destruct l as [|pivot [|i0 items0]]; try discriminate.
    remember (i0 :: items0) as items eqn:EI. clear EI.
    obind_inv H.
    assert (HP : forall x, In x (pivot :: items) -> ty x = ty pivot).
    { intros x [<-|Hx]; [reflexivity|]. apply ok_same_class.
      apply (mapM_ok_all (fun it => cmp it pivot) items v x Hv Hx). }
    intros x y Hx Hy. rewrite (HP x Hx), (HP y Hy). reflexivity.
  Qed.

  Lemma merge_ok_one_class l1 l2 r :
    merge cmp l1 l2 = Ok r -> one_class l1 -> one_class l2 -> one_class (l1 ++ l2).
  Proof.
    intros H H1 H2. destruct l1 as [|a1 l1]; [exact H2|]. destruct l2 as [|a2 l2]; [rewrite app_nil_r; exact H1|].
    rewrite merge_cons in H. obind_inv H.
    assert (H12 : ty a1 = ty a2) by (apply ok_same_class; rewrite Hv; reflexivity).
    assert (HP : forall x, In x ((a1 :: l1) ++ a2 :: l2) -> ty x = ty a1).
    { intros x Hx. apply in_app_or in Hx. destruct Hx as [Hx|Hx].
      - apply H1; [exact Hx|left; reflexivity].
      - rewrite H12. apply H2; [exact Hx|left; reflexivity]. }
    intros x y Hx Hy. rewrite (HP x Hx), (HP y Hy). reflexivity.
  Qed.

  Lemma one_class_perm l l' : Permutation l l' -> one_class l' -> one_class l.
  Proof. intros HP H x y Hx Hy; apply H; eapply Permutation_in; eauto. Qed.

  Lemma sort_slice_ok_one_class fuel : forall l r, sort_slice cmp fuel l = Ok r -> one_class l.
  Proof.
    induction fuel as [|f IH]; intros l r H; [discriminate|].
    rewrite sort_slice_S in H; cbv zeta in H.
    destruct (30 <? length l).
    - obind_inv H. obind_inv H.
      pose proof (IH _ _ Hv) as C1. pose proof (IH _ _ Hv0) as C2.
      pose proof (sort_slice_perm X E cmp _ _ _ Hv) as P1. pose proof (sort_slice_perm X E cmp _ _ _ Hv0) as P2.
      pose proof (merge_ok_one_class _ _ _ H (one_class_perm _ _ P1 C1) (one_class_perm _ _ P2 C2)) as C.
      rewrite <- (firstn_skipn (Nat.div (length l) 2) l).
      eapply one_class_perm; [|exact C]. apply Permutation_app; apply Permutation_sym; assumption.
    - destruct (1 <? length l) eqn:E1.
      + eapply quick_ok_one_class; eassumption.
      + apply Nat.ltb_ge in E1. destruct l as [|a [|b l]]; cbn [length] in E1; try lia.
        * intros x y [].
        * intros x y [<-|[]] [<-|[]]; reflexivity.
  Qed.

  Theorem sort_error_propagates l :
    cmp_clean l -> 2 <= length l ->
    (exists x y, In x l /\ In y l /\ ty x <> ty y) \/ (forall x y, In x l -> In y l -> is_ok (cmp x y) = false) ->
    exists e, sort_list cmp l = Err e.
  Proof.
    intros HC HL HB.
    pose proof (sort_list_clean l HC) as Hcl.
    assert (HN : is_ok (sort_list cmp l) = false).
    { destruct HB as [[x [y [Hx [Hy Hne]]]]|HB].
      - destruct (sort_list cmp l) eqn:Es; try reflexivity.
        exfalso. apply Hne. eapply sort_slice_ok_one_class; eassumption.
      - apply sort_slice_all_bad; assumption. }
    destruct (sort_list cmp l); cbn in *; try discriminate; try contradiction. eauto.
  Qed.
End NoPanic.

(* keyF errors: the first failing call decides, before any comparison *)
Theorem std_sort_keyf_error {A K E} (keyf : A -> outcome K E) cmp (kf : A -> K) pre x post e :
  1 <= length (pre ++ post) ->
  (forall a, In a pre -> keyf a = Ok (kf a)) -> keyf x = Err e ->
  std_sort keyf cmp (pre ++ x :: post) = Err e.
Proof.
  intros HL Hpre Hx. unfold std_sort.
  assert (E1 : (length (pre ++ x :: post) <=? 1) = false).
  { apply Nat.leb_gt. rewrite app_length in *. cbn [length]. lia. }
  rewrite E1.
  destruct (mapM_first_error keyf pre x post kf (Err e) Hpre Hx eq_refl) as [HM _].
  rewrite HM. reflexivity.
Qed.

(* std.sort never panics and never runs out of fuel *)
Theorem std_sort_clean {A K E} (keyf : A -> outcome K E) cmp arr :
  (forall a, In a arr -> clean (keyf a)) ->
  (forall a b, clean (cmp a b)) ->
  clean (std_sort keyf cmp arr).
Proof.
  intros HK HC. unfold std_sort. destruct (length arr <=? 1); [exact I|].
  apply clean_obind; [apply clean_mapM; exact HK|]. intros keys Hkeys.
  assert (HCI : forall i j, In i (seq 0 (length keys)) -> In j (seq 0 (length keys)) -> clean (cmp_idx cmp keys i j)).
  { intros i j Hi Hj. apply in_seq in Hi. apply in_seq in Hj. unfold cmp_idx, key_at.
    destruct (nth_error keys i) eqn:Ei; [|apply nth_error_None in Ei; lia].
    destruct (nth_error keys j) eqn:Ej; [|apply nth_error_None in Ej; lia].
    cbn [obind]. apply HC. }
  apply clean_obind; [apply sort_list_clean; exact HCI|]. intros p Hp.
  apply sort_slice_perm in Hp. rewrite (mapM_ok_length _ _ _ Hkeys) in Hp.
  apply clean_mapM. intros i Hi. apply (Permutation_in _ Hp) in Hi. apply in_seq in Hi.
  unfold elem_at. destruct (nth_error arr i) eqn:Ei; [exact I|]. apply nth_error_None in Ei. lia.
Qed.

(* the parts of [std_sort_correct] as separate statements about any Ok answer *)
Section StdSortParts.
  Variables (A K E : Type) (keyf : A -> outcome K E) (cmp : K -> K -> outcome comparison E).
  Variables (kf : A -> K) (c : K -> K -> comparison) (arr r : list A).
  Hypothesis TP : total_preorder c.
  Hypothesis HK : keys_pure A K E keyf kf arr.
  Hypothesis HC : cmp_pure A K E cmp kf c arr.

  Lemma std_sort_total : exists r', std_sort keyf cmp arr = Ok r'.
  Proof. destruct (std_sort_correct A K E keyf cmp kf c TP arr HK HC) as [r' [Hr _]]. eauto. Qed.

  Hypothesis H : std_sort keyf cmp arr = Ok r.

  Lemma std_sort_perm : Permutation r arr.
  Proof.
    destruct (std_sort_correct A K E keyf cmp kf c TP arr HK HC) as [r' [Hr [HP _]]].
    rewrite Hr in H; inversion H; subst; exact HP.
  Qed.

  Lemma std_sort_sorted : StronglySorted (fun x y => c (kf x) (kf y) <> Gt) r.
  Proof.
    destruct (std_sort_correct A K E keyf cmp kf c TP arr HK HC) as [r' [Hr [_ [HS _]]]].
    rewrite Hr in H; inversion H; subst; exact HS.
  Qed.

  Lemma std_sort_stable :
    forall k, filter (fun x => same_key c k (kf x)) r = filter (fun x => same_key c k (kf x)) arr.
  Proof.
    destruct (std_sort_correct A K E keyf cmp kf c TP arr HK HC) as [r' [Hr [_ [_ HT]]]].
    rewrite Hr in H; inversion H; subst; exact HT.
  Qed.
End StdSortParts.
