(* Proofs/RefNoPanic_defs.v — C01: the reference interpreter (Model/RefEval.v) never answers Panic, part 1.

   The only panic site of RefEval that needs a global invariant is CompareValue's
   `partial_cmp().unwrap()`: it is unreachable because no number value is ever a NaN.
   [nv_value / nv_thunk / nv_env / nv_layer]: every number stored anywhere in a run-time structure
   (arrays of thunks, environments, object layers, closures, pending calls) is not a NaN.
   Same shape as RefScope_defs.wf_* (C02's scope invariant) without the closedness part.
   The other sites (answer kinds of the knot, do_field's layer lookup, call_builtin's arity) are local. *)
From RJ Require Import Base.Outcome Base.F64 Model.Token Model.Ast Model.RefCore Model.RefValue Model.RefEval.
From RJ Require Import Proofs.RefScope_defs.
From Coq Require Import Lia Floats.SpecFloat.
Local Open Scope N_scope.

(* ---------------------------------------------------------------- numbers: not a NaN *)
Definition nn (f : f64) : Prop := f <> S754_nan.

Lemma shr_1_nonneg mrs : (0 <= shr_m mrs)%Z -> (0 <= shr_m (shr_1 mrs))%Z.
Proof. destruct mrs as [m r s]. cbn [shr_m]. destruct m as [|p|p]; [|destruct p|]; cbn; lia. Qed.

Lemma iter_shr_1_nonneg p : forall mrs, (0 <= shr_m mrs)%Z -> (0 <= shr_m (iter_pos shr_1 p mrs))%Z.
Proof.
  induction p as [p IH|p IH|]; intros mrs H; cbn [iter_pos].
  - apply IH. apply IH. apply shr_1_nonneg. exact H.
  - apply IH. apply IH. exact H.
  - apply shr_1_nonneg. exact H.
Qed.

Lemma shr_fexp_nonneg prec emax m e l : (0 <= m)%Z -> (0 <= shr_m (fst (shr_fexp prec emax m e l)))%Z.
Proof.
  intros H. unfold shr_fexp, shr.
  assert (H0 : (0 <= shr_m (shr_record_of_loc m l))%Z) by (destruct l as [|[| |]]; exact H).
  destruct (fexp prec emax (Zdigits2 m + e) - e)%Z; cbn [fst]; [exact H0| |exact H0].
  apply iter_shr_1_nonneg. exact H0.
Qed.

Lemma round_nearest_even_nonneg m l : (0 <= m)%Z -> (0 <= round_nearest_even m l)%Z.
Proof. intros H. unfold round_nearest_even. destruct l as [|[| |]]; try destruct (Z.even m); lia. Qed.

Lemma binary_round_aux_nn prec emax sx mx ex lx : (0 <= mx)%Z -> binary_round_aux prec emax sx mx ex lx <> S754_nan.
Proof.
  intros H. unfold binary_round_aux.
  pose proof (shr_fexp_nonneg prec emax mx ex lx H) as H1.
  destruct (shr_fexp prec emax mx ex lx) as [mrs' e']. cbn [fst] in H1.
  pose proof (shr_fexp_nonneg prec emax _ e' loc_Exact (round_nearest_even_nonneg _ (loc_of_shr_record mrs') H1)) as H2.
  destruct (shr_fexp prec emax (round_nearest_even (shr_m mrs') (loc_of_shr_record mrs')) e' loc_Exact) as [mrs'' e''].
  cbn [fst] in H2. destruct (shr_m mrs''); [discriminate| |lia].
  destruct (Zle_bool e'' (emax - prec)); discriminate.
Qed.

Lemma nn_f_of_Z z : nn (f_of_Z z).
Proof.
  unfold nn, f_of_Z, f_of_Z_exp, binary_normalize. destruct z; [discriminate| |];
    unfold binary_round; destruct (shl_align _ _ _); apply binary_round_aux_nn; lia.
Qed.
Lemma nn_f_of_N n : nn (f_of_N n).
Proof. apply nn_f_of_Z. Qed.
Lemma nn_f_zero : nn f_zero. Proof. discriminate. Qed.
Lemma nn_f_neg f : nn f -> nn (f_neg f).
Proof. unfold nn, f_neg. destruct f; cbn; congruence. Qed.
Lemma nn_compare x y : nn x -> nn y -> f_compare x y <> None.
Proof. unfold nn, f_compare. destruct x, y; cbn; try congruence; try discriminate. Qed.

(* ---------------------------------------------------------------- the invariant on run-time structures *)
Inductive nv_value : value -> Prop :=
| NV_null : nv_value VNull
| NV_bool b : nv_value (VBool b)
| NV_num f : nn f -> nv_value (VNum f)
| NV_str s : nv_value (VStr s)
| NV_arr items : Forall nv_thunk items -> nv_value (VArr items)
| NV_obj ls c : Forall nv_layer ls -> nv_value (VObj ls c)
| NV_fun ps body fenv : nv_env fenv -> nv_value (VFun ps body fenv)
| NV_builtin b : nv_value (VBuiltin b)
with nv_thunk : thunk -> Prop :=
| NT_th e en : nv_env en -> nv_thunk (Th e en)
| NT_tv v : nv_value v -> nv_thunk (Tv v)
| NT_call f args : nv_value f -> Forall nv_thunk args -> nv_thunk (TCall f args)
with nv_env : list frame -> Prop :=
| NE_nil : nv_env []
| NE_vars b r rest : Forall (fun p => nv_thunk (snd p)) b -> nv_env rest -> nv_env (FVars b r :: rest)
| NE_obj ls i c rest : Forall nv_layer ls -> nv_env rest -> nv_env (FObj ls i c :: rest)
with nv_layer : layer -> Prop :=
| NL_intro locals asserts fields en std :
    nv_env en ->
    Forall (fun nf => forall fe, f_fenv (snd nf) = Some fe -> nv_env fe) fields ->
    nv_layer (MkLayer locals asserts fields en std).

Definition nv_layers (ls : list layer) : Prop := Forall nv_layer ls.
Definition nv_vars (v : list (str * thunk)) : Prop := Forall (fun p => nv_thunk (snd p)) v.

Lemma lookup_var_nv : forall x en t, nv_env en -> lookup_var x en = Some t -> nv_thunk t.
Proof.
  intros x en. induction en as [|fr rest IH]; intros t Hnv H; simpl in H; [discriminate|].
  destruct fr as [b r | ls i c].
  - inversion Hnv as [| b' r' rest' Hb Hrest |]; subst.
    destruct (assoc x b) as [t0|] eqn:Eb.
    + injection H as <-. apply in_assoc_in in Eb. rewrite Forall_forall in Hb. apply (Hb _ Eb).
    + destruct (assoc x r) as [ex|] eqn:Er.
      * injection H as <-. constructor. exact Hnv.
      * apply IH; assumption.
  - inversion Hnv; subst. apply IH; assumption.
Qed.

Lemma lookup_obj_nv : forall en ls i c, nv_env en -> lookup_obj en = Some (ls, i, c) -> nv_layers ls.
Proof.
  induction en as [|fr rest IH]; intros ls i c Hnv H; simpl in H; [discriminate|].
  destruct fr as [b r | ls' i' c'].
  - inversion Hnv; subst. eapply IH; eassumption.
  - injection H as <- <- <-. inversion Hnv; subst. assumption.
Qed.

Lemma layer_env_nv ls i l base : nv_layers ls -> nv_env base -> nv_env (layer_env ls i l base).
Proof. intros Hls Hb. unfold layer_env. constructor; [constructor|]. constructor; assumption. Qed.

(* do_field's layer lookup cannot fail: the index find_field returns is inside the list *)
Lemma find_field_nth : forall ls from name i f, find_field ls from name = Some (i, f) -> exists l, nthN ls i = Some l.
Proof.
  intros ls from name i f H. unfold find_field in H.
  destruct (find_field_in_sound _ _ _ _ _ H) as (l & _ & _ & Hn & Hle).
  rewrite nthN_dropN in Hn. replace (from + (i - from)) with i in Hn by lia. eauto.
Qed.

Lemma field_env_nv ls i l f : nv_layers ls -> nthN ls i = Some l -> In (fst f, snd f) (l_fields l) ->
  nv_env (field_env ls i l (snd f)).
Proof.
  intros Hls Hn Hin. unfold field_env. apply layer_env_nv; [exact Hls|].
  apply nthN_in in Hn. unfold nv_layers in Hls. rewrite Forall_forall in Hls. specialize (Hls l Hn).
  inversion Hls as [locals asserts fields en std He Hf]; subst. cbn [l_fields l_env] in *.
  destruct (f_fenv (snd f)) as [fe|] eqn:E; [|exact He].
  rewrite Forall_forall in Hf. exact (Hf _ Hin fe E).
Qed.
