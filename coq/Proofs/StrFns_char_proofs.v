(* Proofs/StrFns_char_proofs.v — std.char / std.codepoint over ALL 0x110000 code points,
   by one exhaustive vm_compute (about a minute of CPU); kept in its own file so that
   it is rebuilt only when the model changes. *)
From RJ Require Import Base.Outcome Base.F64 Model.StrFns.
From Coq Require Import Lia List.
Import ListNotations.


Fixpoint all_range (p : positive) (base : N) (f : N -> bool) : bool :=   (* base .. base + p - 1 *)
  match p with
  | xH => f base
  | xO q => all_range q base f && all_range q (base + Npos q) f
  | xI q => f base && all_range q (base + 1) f && all_range q (base + 1 + Npos q) f
  end.

Lemma all_range_spec p : forall base f, all_range p base f = true ->
  forall j, (base <= j < base + Npos p)%N -> f j = true.
Proof.
  induction p as [q IH|q IH|]; intros base f H j Hj; simpl in H.
  - apply andb_true_iff in H as [H H3]. apply andb_true_iff in H as [H1 H2].
    destruct (N.eq_dec j base) as [->|Hne]; [exact H1|].
    destruct (N.lt_ge_cases j (base + 1 + Npos q)) as [Hlt|Hge].
    + apply (IH _ _ H2). lia.
    + apply (IH _ _ H3). lia.
  - apply andb_true_iff in H as [H1 H2].
    destruct (N.lt_ge_cases j (base + Npos q)) as [Hlt|Hge].
    + apply (IH _ _ H1). lia.
    + apply (IH _ _ H2). lia.
  - assert (j = base) as -> by lia. exact H.
Qed.

Definition char_cp_ok (c : N) : bool :=
  match std_char (VNum (f_of_N c)) with
  | Ok (VStr [d]) => is_scalar c && (d =? c)%N
  | Err EOther => negb (is_scalar c)
  | _ => false
  end.

Lemma char_cp_all : all_range 0x110000 0 char_cp_ok = true.
Proof. vm_compute. reflexivity. Qed.

Lemma is_scalar_lt c : is_scalar c = true -> (c < 0x110000)%N.
Proof.
  unfold is_scalar. intros H. apply orb_true_iff in H as [H|H].
  - apply N.ltb_lt in H. lia.
  - apply andb_true_iff in H as [_ H]. apply N.ltb_lt in H. exact H.
Qed.

Lemma char_codepoint_inverse c : is_scalar c = true ->
  std_char (VNum (f_of_N c)) = Ok (VStr [c]) /\
  std_codepoint (VStr [c]) = Ok (VNum (f_of_N c)).
Proof.
  intros Hs. split; [|reflexivity].
  pose proof (all_range_spec _ _ _ char_cp_all c) as H.
  specialize (H ltac:(pose proof (is_scalar_lt c Hs); lia)).
  unfold char_cp_ok in H.
  destruct (std_char (VNum (f_of_N c))) as [v|e| |]; try discriminate H.
  - destruct v as [| | |t| | |]; try discriminate H.
    destruct t as [|d [|]]; try discriminate H.
    apply andb_true_iff in H as [_ H]. apply N.eqb_eq in H. subst. reflexivity.
  - destruct e; try discriminate H. rewrite Hs in H. discriminate H.
Qed.

(* below the first surrogate and above the last, up to 0x10FFFF, and nothing else *)
Lemma char_rejects_non_scalar c : (c < 0x110000)%N -> is_scalar c = false ->
  std_char (VNum (f_of_N c)) = Err EOther.
Proof.
  intros Hlt Hs.
  pose proof (all_range_spec _ _ _ char_cp_all c ltac:(lia)) as H.
  unfold char_cp_ok in H.
  destruct (std_char (VNum (f_of_N c))) as [v|e| |]; try discriminate H.
  - destruct v as [| | |t| | |]; try discriminate H.
    destruct t as [|d [|]]; try discriminate H. rewrite Hs in H. discriminate H.
  - destruct e; try discriminate H. reflexivity.
Qed.

