(* Proofs/StrFns_char_proofs.v — std.char / std.codepoint over ALL 0x110000 code points,
   by one exhaustive vm_compute (about a minute of CPU); kept in its own file so that
   it is rebuilt only when the model changes. *)
From RJ Require Import Base.Outcome Base.F64 Model.StrFns.
From Coq Require Import Lia List.
Import ListNotations.


Fixpoint all_range (p : positive) (base : N) (f : N -> bool) : bool :=   (* base .. base + p - 1 *)
  match p with
  | xH => f base
  | xO q => all_range q base f && all_range q (base + Npos q) f
  | xI q => f base && all_range q (base + 1) f && all_range q (base + 1 + Npos q) f
  end.

Lemma all_range_spec p : forall base f, all_range p base f = true ->
  forall j, (base <= j < base + Npos p)%N -> f j = true.
Proof.
  induction p as [q IH|q IH|]; intros base f H j Hj; simpl in H.
  - apply andb_true_iff in H as [H H3]. apply andb_true_iff in H as [H1 H2].
    destruct (N.eq_dec j base) as [->|Hne]; [exact H1|].
    destruct (N.lt_ge_cases j (base + 1 + Npos q)) as [Hlt|Hge].
    + apply (IH _ _ H2). lia.
    + apply (IH _ _ H3). lia.
  - apply andb_true_iff in H as [H1 H2].
    destruct (N.lt_ge_cases j (base + Npos q)) as [Hlt|Hge].
    + apply (IH _ _ H1). lia.
    + apply (IH _ _ H2). lia.
  - assert (j = base) as -> by lia. exact H.
Qed.

Definition char_cp_ok (c : N) : bool :=
  match std_char (VNum (f_of_N c)) with
  | Ok (VStr [d]) => is_scalar c && (d =? c)%N
  | Err EOther => negb (is_scalar c)
  | _ => false
  end.

Lemma char_cp_all : all_range 0x110000 0 char_cp_ok = true.
Proof. vm_compute. reflexivity. Qed.

Lemma is_scalar_lt c : is_scalar c = true -> (c < 0x110000)%N.
Proof.
  unfold is_scalar. intros H. apply orb_true_iff in H as [H|H].
  - apply N.ltb_lt in H. lia.
  - apply andb_true_iff in H as [_ H]. apply N.ltb_lt in H. exact H.
Qed.

Lemma char_codepoint_inverse c : is_scalar c = true ->
  std_char (VNum (f_of_N c)) = Ok (VStr [c]) /\
  std_codepoint (VStr [c]) = Ok (VNum (f_of_N c)).
Proof.
  intros Hs. split; [|reflexivity].
  pose proof (all_range_spec _ _ _ char_cp_all c) as H.
  specialize (H ltac:(pose proof (is_scalar_lt c Hs); lia)).
  unfold char_cp_ok in H.
  destruct (std_char (VNum (f_of_N c))) as [v|e| |]; try discriminate H.
  - destruct v as [| | |t| | |]; try discriminate H.
    destruct t as [|d [|]]; try discriminate H.
    apply andb_true_iff in H as [_ H]. apply N.eqb_eq in H. subst. reflexivity.
  - destruct e; try discriminate H. rewrite Hs in H. discriminate H.
Qed.

(* below the first surrogate and above the last, up to 0x10FFFF, and nothing else *)
Lemma char_rejects_non_scalar c : (c < 0x110000)%N -> is_scalar c = false ->
  std_char (VNum (f_of_N c)) = Err EOther.
Proof.
  intros Hlt Hs.
  pose proof (all_range_spec _ _ _ char_cp_all c ltac:(lia)) as H.
  unfold char_cp_ok in H.
  destruct (std_char (VNum (f_of_N c))) as [v|e| |]; try discriminate H.
  - destruct v as [| | |t| | |]; try discriminate H.
    destruct t as [|d [|]]; try discriminate H. rewrite Hs in H. discriminate H.
  - destruct e; try discriminate H. reflexivity.
Qed.


(* ------------------------------------------------------------------ *)
(* small non-negative integers as doubles: accepted exactly (exhaustive below 2^16) *)

Definition small_int_ok (i : N) : bool :=
  let x := f_of_N i in
  match try_to_usize_exact x with Some j => (j =? i)%N | None => false end
  && negb (not_integer x) && negb (f_neg_p x) && (sat_cast usize_max x =? i)%N.

Lemma small_int_all : all_range 0x10000 0 small_int_ok = true.
Proof. vm_compute. reflexivity. Qed.

Lemma small_int_exact i : (i < 0x10000)%N ->
  try_to_usize_exact (f_of_N i) = Some i /\ not_integer (f_of_N i) = false /\
  f_neg_p (f_of_N i) = false /\ sat_cast usize_max (f_of_N i) = i.
Proof.
  intros Hi. pose proof (all_range_spec _ _ _ small_int_all i ltac:(lia)) as H.
  unfold small_int_ok in H.
  apply andb_true_iff in H as [H H4]. apply andb_true_iff in H as [H H3]. apply andb_true_iff in H as [H1 H2].
  apply N.eqb_eq in H4. apply negb_true_iff in H2, H3.
  destruct (try_to_usize_exact (f_of_N i)) as [j|]; [|discriminate H1].
  apply N.eqb_eq in H1. subst j. auto.
Qed.

(* s[i] for an index below 2^16 written as a number: the i-th code point *)
Lemma index_small_is_nth s i : (i < 0x10000)%N ->
  index_value (VStr s) (VNum (f_of_N i)) =
    match nth_error s (N.to_nat i) with
    | Some c => Ok (VStr [c])
    | None => Err ENumericIndexOutOfRange
    end.
Proof.
  intros Hi. destruct (small_int_exact i Hi) as [H _]. unfold index_value. rewrite H.
  unfold nthN, lenN. destruct (N.of_nat (length s) <=? i)%N eqn:E.
  - apply N.leb_le in E. replace (nth_error s (N.to_nat i)) with (@None N); [reflexivity|].
    symmetry. apply nth_error_None. lia.
  - destruct (nth_error s (N.to_nat i)); reflexivity.
Qed.

(* std.substr(s, a, l) for a, l below 2^16: drop a code points, keep l *)
Lemma substr_small s a l : (a < 0x10000)%N -> (l < 0x10000)%N ->
  std_substr (VStr s) (VNum (f_of_N a)) (VNum (f_of_N l)) =
    Ok (VStr (firstn (N.to_nat l) (skipn (N.to_nat a) s))).
Proof.
  intros Ha Hl. destruct (small_int_exact a Ha) as (_ & A1 & A2 & A3).
  destruct (small_int_exact l Hl) as (_ & L1 & L2 & L3).
  unfold std_substr. cbn [want_str want_num obind]. rewrite A1, A2, L1, L2, A3, L3. cbn [orb].
  unfold substr_cps, takeN, skipN, lenN. f_equal. f_equal.
  destruct (N.of_nat (length s) <=? a)%N eqn:E1.
  - apply N.leb_le in E1. rewrite (skipn_all2 s) by lia. cbn [length]. 
    destruct (N.of_nat 0 <=? l)%N; [|reflexivity]. rewrite firstn_nil. reflexivity.
  - destruct (N.of_nat (length (skipn (N.to_nat a) s)) <=? l)%N eqn:E2; [|reflexivity].
    apply N.leb_le in E2. rewrite firstn_all2 by lia. reflexivity.
Qed.
