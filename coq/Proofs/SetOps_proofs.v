(* Proofs/SetOps_proofs.v — lemmas and proofs about Model/SetOps.v *)
From Coq Require Import List Arith Lia Permutation Sorted Bool.
From RJ Require Import Base.Outcome Model.Sort Model.SetOps Proofs.Sort_proofs.
Import ListNotations.
Local Open Scope outcome_scope.

(* ------------------------------------------------------------------ *)
(* more order facts *)

Section Order3.
  Variables (X : Type) (c : X -> X -> comparison).
  Hypothesis TP : total_preorder c.

  Lemma lt_le_trans x y z : c x y = Lt -> c y z <> Gt -> c x z = Lt.
  Proof.
    intros Hxy Hyz.
    pose proof (tp_trans c TP x y z) as T1. pose proof (tp_trans c TP y z x) as T2.
    pose proof (tp_sym c TP x z) as S1. pose proof (tp_sym c TP x y) as S2.
    rewrite Hxy in *. cbn in S2.
    destruct (c x z) eqn:Exz; cbn in S1.
    - exfalso. apply T2; [exact Hyz|rewrite S1; discriminate|exact S2].
    - reflexivity.
    - exfalso. apply T1; [discriminate|exact Hyz|reflexivity].
  Qed.

  Lemma le_lt_trans x y z : c x y <> Gt -> c y z = Lt -> c x z = Lt.
  Proof.
    intros Hxy Hyz.
    pose proof (tp_trans c TP x y z) as T1. pose proof (tp_trans c TP z x y) as T2.
    pose proof (tp_sym c TP x z) as S1. pose proof (tp_sym c TP y z) as S2.
    rewrite Hyz in *. cbn in S2.
    destruct (c x z) eqn:Exz; cbn in S1.
    - exfalso. apply T2; [rewrite S1; discriminate|exact Hxy|exact S2].
    - reflexivity.
    - exfalso. apply T1; [exact Hxy|discriminate|reflexivity].
  Qed.

  Lemma lt_trans' x y z : c x y = Lt -> c y z = Lt -> c x z = Lt.
  Proof. intros H1 H2. apply (lt_le_trans x y z H1). rewrite H2; discriminate. Qed.

  Lemma gt_lt x y : c x y = Gt -> c y x = Lt.
  Proof. intros H. rewrite (tp_sym c TP x y), H. reflexivity. Qed.

  Lemma lt_gt x y : c x y = Lt -> c y x = Gt.
  Proof. intros H. rewrite (tp_sym c TP x y), H. reflexivity. Qed.

  Lemma eq_lt_trans x y z : c x y = Eq -> c y z = Lt -> c x z = Lt.
  Proof. intros H1 H2. rewrite <- (eq_cong_l X c TP x y z H1). exact H2. Qed.

  Lemma total_preorder_flip : total_preorder (fun a b => c b a).
  Proof.
    destruct TP as [R S T]. constructor; intros.
    - apply R.
    - apply S.
    - eapply T; eassumption.
  Qed.
End Order3.

Lemma StronglySorted_nth {X} (R : X -> X -> Prop) l d i j :
  StronglySorted R l -> i < j < length l -> R (nth i l d) (nth j l d).
Proof.
  intros S; revert i j; induction S as [|a l S IH F]; intros i j H; cbn [length] in H; [lia|].
  destruct i as [|i]; destruct j as [|j]; try lia; cbn [nth].
  - apply (proj1 (Forall_forall _ _) F). apply nth_In. lia.
  - apply IH. lia.
Qed.

Lemma skipn_cons_nth {X} (l : list X) d : forall cur it more,
  skipn cur l = it :: more -> nth cur l d = it /\ skipn (S cur) l = more /\ cur < length l.
Proof.
  induction l as [|x l IH]; intros cur it more H.
  - destruct cur; discriminate.
  - destruct cur as [|cur]; cbn [skipn] in H.
    + inversion H; subst. cbn [nth skipn length]. repeat split; lia.
    + destruct (IH cur it more H) as [H1 [H2 H3]]. cbn [nth length]. repeat split; [exact H1|exact H2|lia].
Qed.

(* ------------------------------------------------------------------ *)
(* std.uniq *)

Definition pick {X} (mask : list bool) (l : list X) : list X :=
  map snd (filter fst (combine mask l)).

Section Uniq.
  Variables (A K E : Type) (keyf : A -> outcome K E) (eqv : K -> K -> outcome bool E).
  Variables (kf : A -> K) (e : K -> K -> bool).

  Definition eqv_pure (arr : list A) : Prop :=
    forall a b, In a arr -> In b arr -> eqv (kf a) (kf b) = Ok (e (kf a) (kf b)).

  Fixpoint uniq_mask (kprev : K) (items : list A) : list bool :=
    match items with
    | [] => []
    | it :: more => negb (e kprev (kf it)) :: uniq_mask (kf it) more
    end.

  Lemma uniq_mask_length kprev items : length (uniq_mask kprev items) = length items.
  Proof. revert kprev; induction items as [|it more IH]; intros kprev; cbn [uniq_mask length]; [reflexivity|]. rewrite IH; reflexivity. Qed.

  Lemma uniq_mask_nth items d : forall kprev i, i < length items ->
    nth i (uniq_mask kprev items) false =
    negb (e (match i with 0 => kprev | S i' => kf (nth i' items d) end) (kf (nth i items d))).
  Proof.
    induction items as [|it more IH]; intros kprev i Hi; cbn [length] in Hi; [lia|].
    destruct i as [|i]; cbn [uniq_mask nth]; [reflexivity|].
    rewrite IH by lia. destruct i; reflexivity.
  Qed.

  Lemma uniq_loop_mask items : forall a0 (all : list A),
    In a0 all -> incl items all -> keys_pure A K E keyf kf all -> eqv_pure all ->
    uniq_loop keyf eqv (kf a0) items = Ok (pick (uniq_mask (kf a0) items) items).
  Proof.
    induction items as [|it more IH]; intros a0 all H0 Hin HK HE; cbn [uniq_loop uniq_mask]; [reflexivity|].
    assert (Hit : In it all) by (apply Hin; left; reflexivity).
    rewrite (HK it Hit); cbn [obind]. rewrite (HE a0 it H0 Hit); cbn [obind].
    rewrite (IH it all Hit) by (try assumption; intros x Hx; apply Hin; right; exact Hx). cbn [obind].
    unfold pick. cbn [combine filter fst]. destruct (e (kf a0) (kf it)); reflexivity.
  Qed.

  (* the i-th item is kept iff i = 0 or its key differs (==) from the key of item i-1 *)
  Theorem uniq_spec arr d :
    keys_pure A K E keyf kf arr -> eqv_pure arr ->
    exists mask, length mask = length arr /\
      (forall i, i < length arr ->
         nth i mask false = match i with 0 => true | S i' => negb (e (kf (nth i' arr d)) (kf (nth i arr d))) end) /\
      std_uniq keyf eqv arr = Ok (pick mask arr).
  Proof.
    intros HK HE. destruct arr as [|a0 rest].
    - exists []. repeat split. intros i Hi; cbn in Hi; lia.
    - exists (true :: uniq_mask (kf a0) rest). split; [cbn [length]; rewrite uniq_mask_length; reflexivity|]. split.
      + intros i Hi. destruct i as [|i]; [reflexivity|]. cbn [nth length] in *.
        rewrite (uniq_mask_nth rest d) by lia. destruct i; reflexivity.
      + destruct rest as [|a1 rest']; [reflexivity|].
        set (rest := a1 :: rest') in *.
        change (std_uniq keyf eqv (a0 :: rest)) with
          (do k0 <- keyf a0; do r <- uniq_loop keyf eqv k0 rest; Ok (a0 :: r)).
        rewrite (HK a0 (or_introl eq_refl)); cbn [obind].
        rewrite (uniq_loop_mask rest a0 (a0 :: rest)); try assumption;
          [reflexivity|left; reflexivity|intros x Hx; right; exact Hx].
  Qed.

  (* when == is an equivalence, no two neighbours of the result have equal keys *)
  Hypothesis e_sym : forall a b, e a b = e b a.
  Hypothesis e_trans : forall a b c', e a b = true -> e b c' = true -> e a c' = true.

  Lemma uniq_loop_no_adj items : forall a0 (all : list A) r,
    In a0 all -> incl items all -> keys_pure A K E keyf kf all -> eqv_pure all ->
    uniq_loop keyf eqv (kf a0) items = Ok r ->
    HdRel (fun x y => e (kf x) (kf y) = false) a0 r /\ Sorted (fun x y => e (kf x) (kf y) = false) r /\ incl r items.
  Proof.
    induction items as [|it more IH]; intros a0 all r H0 Hin HK HE H; cbn [uniq_loop] in H.
    - inversion H; subst. repeat split; [constructor|constructor|intros x []].
    - assert (Hit : In it all) by (apply Hin; left; reflexivity).
      rewrite (HK it Hit) in H; cbn [obind] in H. rewrite (HE a0 it H0 Hit) in H; cbn [obind] in H.
      obind_inv H. rename v into r'. inversion H; subst r; clear H.
      destruct (IH it all r' Hit) as [Hd [Hs Hi]]; try assumption; [intros x Hx; apply Hin; right; exact Hx|].
      destruct (e (kf a0) (kf it)) eqn:Ee.
      + split; [|split; [exact Hs|intros x Hx; right; apply Hi; exact Hx]].
        destruct r' as [|x r'']; constructor. inversion Hd as [|? ? Hx]; subst.
        destruct (e (kf a0) (kf x)) eqn:Ex; [|reflexivity].
        assert (Ht : e (kf it) (kf x) = true)
          by (apply (e_trans (kf it) (kf a0) (kf x)); [rewrite e_sym; exact Ee|exact Ex]).
        congruence.
      + split; [constructor; exact Ee|]. split; [constructor; assumption|].
        intros x [<-|Hx]; [left; reflexivity|right; apply Hi; exact Hx].
  Qed.

  Theorem uniq_no_adjacent_duplicates arr r :
    keys_pure A K E keyf kf arr -> eqv_pure arr -> std_uniq keyf eqv arr = Ok r ->
    Sorted (fun x y => e (kf x) (kf y) = false) r /\ incl r arr.
  Proof.
    intros HK HE H. destruct arr as [|a0 [|a1 rest]]; cbn [std_uniq] in H.
    - inversion H; subst; split; [constructor|intros x []].
    - inversion H; subst; split; [repeat constructor|intros x Hx; exact Hx].
    - rewrite (HK a0 (or_introl eq_refl)) in H; cbn [obind] in H.
      obind_inv H. inversion H; subst r; clear H.
      destruct (uniq_loop_no_adj (a1 :: rest) a0 (a0 :: a1 :: rest) v) as [Hd [Hs Hi]]; try assumption;
        [left; reflexivity|intros x Hx; right; exact Hx|].
      split; [constructor; assumption|].
      intros x [<-|Hx]; [left; reflexivity|right; apply Hi; exact Hx].
  Qed.
End Uniq.

(* ------------------------------------------------------------------ *)
(* std.set = std.uniq o std.sort, as outcomes, whatever keyF / the comparison / == do *)

Lemma Forall2_length' {X Y} (R : X -> Y -> Prop) l l' : Forall2 R l l' -> length l = length l'.
Proof. induction 1; cbn [length]; congruence. Qed.

Lemma Forall2_nth_ok {A K E} (keyf : A -> outcome K E) arr keys d dk i :
  Forall2 (fun a k => keyf a = Ok k) arr keys -> i < length arr -> keyf (nth i arr d) = Ok (nth i keys dk).
Proof.
  intros H; revert i; induction H as [|a k arr keys Hak H IH]; intros i Hi; cbn [length] in Hi; [lia|].
  destruct i; cbn [nth]; [exact Hak|apply IH; lia].
Qed.

Section SetUniqSort.
  Variables (A K E : Type) (keyf : A -> outcome K E) (cmp : K -> K -> outcome comparison E) (eqv : K -> K -> outcome bool E).

  Lemma set_uniq_loop_incl keys : forall rest prev r, set_uniq_loop eqv keys prev rest = Ok r -> incl r rest.
  Proof.
    induction rest as [|i more IH]; intros prev r H; cbn [set_uniq_loop] in H.
    - inversion H; intros x [].
    - obind_inv H. obind_inv H. obind_inv H. obind_inv H. inversion H; subst r.
      specialize (IH _ _ Hv2). destruct v1; intros x Hx.
      + right; apply IH; exact Hx.
      + destruct Hx as [<-|Hx]; [left; reflexivity|right; apply IH; exact Hx].
  Qed.

  Lemma loops_agree arr keys d dk (f := fun i => nth i arr d) :
    Forall2 (fun a k => keyf a = Ok k) arr keys ->
    forall rest prev, prev < length arr -> (forall i, In i rest -> i < length arr) ->
    uniq_loop keyf eqv (nth prev keys dk) (map f rest) = omap (map f) (set_uniq_loop eqv keys prev rest).
  Proof.
    intros HF. pose proof (Forall2_length' _ _ _ HF) as HL.
    induction rest as [|i more IH]; intros prev Hp Hr; cbn [map uniq_loop set_uniq_loop]; [reflexivity|].
    assert (Hi : i < length arr) by (apply Hr; left; reflexivity).
    unfold f at 1. rewrite (Forall2_nth_ok keyf arr keys d dk i HF Hi); cbn [obind].
    unfold set_key_at.
    rewrite (nth_error_nth' keys dk) by lia. rewrite (nth_error_nth' keys dk) by lia. cbn [obind].
    destruct (eqv (nth prev keys dk) (nth i keys dk)) as [ee| | |]; cbn [obind omap]; try reflexivity.
    rewrite (IH i Hi) by (intros j Hj; apply Hr; right; exact Hj).
    destruct (set_uniq_loop eqv keys i more) as [r| | |]; cbn [obind omap]; try reflexivity.
    destruct ee; reflexivity.
  Qed.

  Theorem set_is_uniq_sort arr :
    std_set keyf cmp eqv arr = (do s <- std_sort keyf cmp arr; std_uniq keyf eqv s).
  Proof.
    unfold std_set, std_sort.
    destruct (length arr <=? 1) eqn:E1.
    - apply Nat.leb_le in E1. cbn [obind]. destruct arr as [|a [|b arr]]; cbn [length] in E1; try lia; reflexivity.
    - apply Nat.leb_gt in E1.
      destruct (mapM keyf arr) as [keys| | |] eqn:EK; cbn [obind]; try reflexivity.
      destruct (sort_idx cmp keys) as [p| | |] eqn:EP; cbn [obind]; try reflexivity.
      pose proof (mapM_ok_forall2 keyf arr keys EK) as HF.
      pose proof (Forall2_length' _ _ _ HF) as HL.
      pose proof (sort_slice_perm _ _ _ _ _ _ EP) as HP. rewrite <- HL in HP.
      destruct arr as [|d rest0]; [cbn in E1; lia|]. set (arr := d :: rest0) in *.
      destruct keys as [|dk keys0]; [cbn in HL; lia|]. set (keys := dk :: keys0) in *.
      rewrite (elems_of_perm A E arr d p HP); cbn [obind].
      set (f := fun i => nth i arr d).
      assert (Hrange : forall i, In i p -> i < length arr).
      { intros i Hi. apply (Permutation_in _ HP) in Hi. apply in_seq in Hi. lia. }
      destruct p as [|i0 [|i1 rest]].
      { apply Permutation_length in HP. rewrite seq_length in HP. cbn in HP. lia. }
      { apply Permutation_length in HP. rewrite seq_length in HP. cbn [length] in HP. lia. }
      set (tl := i1 :: rest) in *.
      change (std_uniq keyf eqv (map f (i0 :: tl))) with
        (do k0 <- keyf (f i0); do r <- uniq_loop keyf eqv k0 (map f tl); Ok (f i0 :: r)).
      assert (H0 : i0 < length arr) by (apply Hrange; left; reflexivity).
      unfold f. rewrite (Forall2_nth_ok keyf arr keys d dk i0 HF H0); cbn [obind].
      rewrite (loops_agree arr keys d dk HF tl i0 H0) by (intros j Hj; apply Hrange; right; exact Hj).
      fold f. cbn [set_uniq].
      destruct (set_uniq_loop eqv keys i0 tl) as [u| | |] eqn:EU; cbn [obind omap]; try reflexivity.
      pose proof (set_uniq_loop_incl keys tl i0 u EU) as HI.
      assert (HM : mapM (set_elem_at A E arr) (i0 :: u) = Ok (map f (i0 :: u))).
      { apply mapM_pure. intros i Hi. unfold set_elem_at.
        rewrite (nth_error_nth' arr d); [reflexivity|].
        destruct Hi as [<-|Hi]; [exact H0|apply Hrange; right; apply HI; exact Hi]. }
      rewrite HM. reflexivity.
  Qed.
End SetUniqSort.

(* ------------------------------------------------------------------ *)
(* the two-index walks on sets (strictly key-sorted arrays) *)

Section Walks.
  Variables (A K E : Type) (keyf : A -> outcome K E) (cmp : K -> K -> outcome comparison E).
  Variables (kf : A -> K) (c : K -> K -> comparison).
  Hypothesis TP : total_preorder c.

  Definition klt (x y : A) : Prop := c (kf x) (kf y) = Lt.
  Definition keq (x y : A) : Prop := c (kf x) (kf y) = Eq.
  Definition is_set (l : list A) : Prop := StronglySorted klt l.

  Definition walk_pure (a b : list A) : Prop :=
    keys_pure A K E keyf kf (a ++ b) /\
    (forall x y, In x a -> In y b -> cmp (kf x) (kf y) = Ok (c (kf x) (kf y))).

  Lemma cmp_ab_pure a b x y : walk_pure a b -> In x a -> In y b -> cmp_ab keyf cmp x y = Ok (c (kf x) (kf y)).
  Proof.
    intros [HK HC] Hx Hy. unfold cmp_ab.
    rewrite (HK x) by (apply in_or_app; left; exact Hx). cbn [obind].
    rewrite (HK y) by (apply in_or_app; right; exact Hy). cbn [obind].
    apply HC; assumption.
  Qed.

  Lemma walk_pure_tl_a x a b : walk_pure (x :: a) b -> walk_pure a b.
  Proof.
    intros [HK HC]; split.
    - intros z Hz. apply HK. cbn [app]. right; exact Hz.
    - intros u v Hu Hv. apply HC; [right; exact Hu|exact Hv].
  Qed.

  Lemma walk_pure_tl_b a y b : walk_pure a (y :: b) -> walk_pure a b.
  Proof.
    intros [HK HC]; split.
    - intros z Hz. apply HK. apply in_app_or in Hz. apply in_or_app. destruct Hz; [left|right; right]; assumption.
    - intros u v Hu Hv. apply HC; [exact Hu|right; exact Hv].
  Qed.

  (* order facts between the heads and the rest of two sets *)
  Lemma set_hd_lt x a z : is_set (x :: a) -> In z a -> klt x z.
  Proof. intros S Hz. inversion S as [|? ? _ F]; subst. exact (proj1 (Forall_forall _ _) F z Hz). Qed.

  Lemma set_tl x a : is_set (x :: a) -> is_set a.
  Proof. intros S; inversion S; assumption. Qed.

  Lemma set_hd_le x a z : is_set (x :: a) -> In z (x :: a) -> c (kf x) (kf z) <> Gt.
  Proof.
    intros S [<-|Hz].
    - rewrite (tp_refl c TP); discriminate.
    - rewrite (set_hd_lt x a z S Hz); discriminate.
  Qed.

  Ltac unfold_k := unfold klt, keq in *.

  Lemma union_walk_cons x a y b :
    union_walk keyf cmp (x :: a) (y :: b) =
    do cc <- cmp_ab keyf cmp x y;
    match cc with
    | Lt => do r <- union_walk keyf cmp a (y :: b); Ok (x :: r)
    | Eq => do r <- union_walk keyf cmp a b; Ok (x :: r)
    | Gt => do r <- union_walk keyf cmp (x :: a) b; Ok (y :: r)
    end.
  Proof. reflexivity. Qed.
  Lemma union_walk_nil_l b : union_walk keyf cmp [] b = Ok b.
  Proof. destruct b; reflexivity. Qed.
  Lemma union_walk_nil_r a : union_walk keyf cmp a [] = Ok a.
  Proof. destruct a; reflexivity. Qed.

  Lemma union_walk_spec : forall a b,
    walk_pure a b -> is_set a -> is_set b ->
    exists r, union_walk keyf cmp a b = Ok r /\ is_set r /\
      (forall z, In z r <-> In z a \/ (In z b /\ forall x, In x a -> ~ keq x z)).
  Proof.
    induction a as [|x a IHa]; intros b HP Sa Sb.
    - exists b. rewrite union_walk_nil_l. split; [reflexivity|]. split; [exact Sb|].
      intros z; split; [intros Hz; right; split; [exact Hz|intros ? []]|intros [[]|[Hz _]]; exact Hz].
    - induction b as [|y b IHb].
      + exists (x :: a). rewrite union_walk_nil_r. split; [reflexivity|]. split; [exact Sa|].
        intros z; split; [intros Hz; left; exact Hz|intros [Hz|[[] _]]; exact Hz].
      + rewrite union_walk_cons.
        rewrite (cmp_ab_pure (x :: a) (y :: b) x y HP) by (left; reflexivity). cbn [obind].
        destruct (c (kf x) (kf y)) eqn:Exy.
        * (* equal heads: keep a's *)
          destruct (IHa b) as [r [Er [Sr Mr]]];
            [apply walk_pure_tl_a with x; apply walk_pure_tl_b with y; exact HP|eapply set_tl; eassumption|eapply set_tl; eassumption|].
          rewrite Er; cbn [obind]. eexists; split; [reflexivity|]. split.
          -- constructor; [exact Sr|]. apply Forall_forall; intros z Hz. apply Mr in Hz.
             destruct Hz as [Hz|[Hz _]]; [eapply set_hd_lt; eassumption|].
             unfold klt. apply (eq_lt_trans K c TP _ (kf y)); [exact Exy|]. eapply set_hd_lt; eassumption.
          -- intros z; split.
             ++ intros [<-|Hz]; [left; left; reflexivity|]. apply Mr in Hz. destruct Hz as [Hz|[Hz Hn]]; [left; right; exact Hz|].
                right; split; [right; exact Hz|]. intros x' [<-|Hx']; [|apply Hn; exact Hx'].
                unfold keq. rewrite (eq_lt_trans K c TP _ (kf y) _ Exy (set_hd_lt y b z Sb Hz)). discriminate.
             ++ intros [[<-|Hz]|[[<-|Hz] Hn]].
                ** left; reflexivity.
                ** right; apply Mr; left; exact Hz.
                ** exfalso. apply (Hn x); [left; reflexivity|exact Exy].
                ** right; apply Mr; right; split; [exact Hz|]. intros x' Hx'; apply Hn; right; exact Hx'.
        * (* x < y: emit x *)
          destruct (IHa (y :: b)) as [r [Er [Sr Mr]]];
            [apply walk_pure_tl_a with x; exact HP|eapply set_tl; eassumption|exact Sb|].
          rewrite Er; cbn [obind]. eexists; split; [reflexivity|].
          assert (Hxb : forall z, In z (y :: b) -> klt x z).
          { intros z Hz. unfold klt. apply (lt_le_trans K c TP _ (kf y)); [exact Exy|]. eapply set_hd_le; eassumption. }
          split.
          -- constructor; [exact Sr|]. apply Forall_forall; intros z Hz. apply Mr in Hz.
             destruct Hz as [Hz|[Hz _]]; [eapply set_hd_lt; eassumption|apply Hxb; exact Hz].
          -- intros z; split.
             ++ intros [<-|Hz]; [left; left; reflexivity|]. apply Mr in Hz. destruct Hz as [Hz|[Hz Hn]]; [left; right; exact Hz|].
                right; split; [exact Hz|]. intros x' [<-|Hx']; [|apply Hn; exact Hx'].
                unfold keq. rewrite (Hxb z Hz). discriminate.
             ++ intros [[<-|Hz]|[Hz Hn]].
                ** left; reflexivity.
                ** right; apply Mr; left; exact Hz.
                ** right; apply Mr; right; split; [exact Hz|]. intros x' Hx'; apply Hn; right; exact Hx'.
        * (* x > y: emit y *)
          destruct IHb as [r [Er [Sr Mr]]]; [apply walk_pure_tl_b with y; exact HP|eapply set_tl; eassumption|].
          rewrite Er; cbn [obind]. eexists; split; [reflexivity|].
          assert (Hya : forall z, In z (x :: a) -> klt y z).
          { intros z Hz. unfold klt. apply (lt_le_trans K c TP _ (kf x)); [apply (gt_lt K c TP); exact Exy|]. eapply set_hd_le; eassumption. }
          split.
          -- constructor; [exact Sr|]. apply Forall_forall; intros z Hz. apply Mr in Hz.
             destruct Hz as [Hz|[Hz _]]; [apply Hya; exact Hz|eapply set_hd_lt; eassumption].
          -- intros z; split.
             ++ intros [<-|Hz].
                ** right; split; [left; reflexivity|]. intros x' Hx'. unfold keq.
                   rewrite (lt_gt K c TP _ _ (Hya x' Hx')). discriminate.
                ** apply Mr in Hz. destruct Hz as [Hz|[Hz Hn]]; [left; exact Hz|right; split; [right; exact Hz|exact Hn]].
             ++ intros [Hz|[[<-|Hz] Hn]].
                ** right; apply Mr; left; exact Hz.
                ** left; reflexivity.
                ** right; apply Mr; right; split; [exact Hz|exact Hn].
  Qed.

  Lemma inter_walk_cons x a y b :
    inter_walk keyf cmp (x :: a) (y :: b) =
    do cc <- cmp_ab keyf cmp x y;
    match cc with
    | Lt => inter_walk keyf cmp a (y :: b)
    | Eq => do r <- inter_walk keyf cmp a b; Ok (x :: r)
    | Gt => inter_walk keyf cmp (x :: a) b
    end.
  Proof. reflexivity. Qed.
  Lemma inter_walk_nil_l b : inter_walk keyf cmp [] b = Ok [].
  Proof. destruct b; reflexivity. Qed.
  Lemma inter_walk_nil_r a : inter_walk keyf cmp a [] = Ok [].
  Proof. destruct a; reflexivity. Qed.

  Lemma inter_walk_spec : forall a b,
    walk_pure a b -> is_set a -> is_set b ->
    exists r, inter_walk keyf cmp a b = Ok r /\ is_set r /\
      (forall z, In z r <-> In z a /\ exists y, In y b /\ keq z y).
  Proof.
    induction a as [|x a IHa]; intros b HP Sa Sb.
    - exists []. rewrite inter_walk_nil_l. split; [reflexivity|]. split; [constructor|].
      intros z; split; [intros []|intros [[] _]].
    - induction b as [|y b IHb].
      + exists []. rewrite inter_walk_nil_r. split; [reflexivity|]. split; [constructor|].
        intros z; split; [intros []|intros [_ [? [[] _]]]].
      + rewrite inter_walk_cons.
        rewrite (cmp_ab_pure (x :: a) (y :: b) x y HP) by (left; reflexivity). cbn [obind].
        destruct (c (kf x) (kf y)) eqn:Exy.
        * destruct (IHa b) as [r [Er [Sr Mr]]];
            [apply walk_pure_tl_a with x; apply walk_pure_tl_b with y; exact HP|eapply set_tl; eassumption|eapply set_tl; eassumption|].
          rewrite Er; cbn [obind]. eexists; split; [reflexivity|]. split.
          -- constructor; [exact Sr|]. apply Forall_forall; intros z Hz. apply Mr in Hz.
             destruct Hz as [Hz _]. eapply set_hd_lt; eassumption.
          -- intros z; split.
             ++ intros [<-|Hz]; [split; [left; reflexivity|exists y; split; [left; reflexivity|exact Exy]]|].
                apply Mr in Hz. destruct Hz as [Hz [y' [Hy' He]]]. split; [right; exact Hz|exists y'; split; [right; exact Hy'|exact He]].
             ++ intros [[<-|Hz] [y' [[<-|Hy'] He]]].
                ** left; reflexivity.
                ** left; reflexivity.
                ** exfalso. unfold keq in He.
                   (* z > x ~ y, so z is not equal to y *)
                   pose proof (set_hd_lt x a z Sa Hz) as Hxz. unfold klt in Hxz.
                   assert (Hyz : c (kf y) (kf z) = Lt).
                   { rewrite (eq_cong_l K c TP (kf x) (kf y) (kf z) Exy). exact Hxz. }
                   rewrite (lt_gt K c TP _ _ Hyz) in He. discriminate.
                ** right; apply Mr; split; [exact Hz|exists y'; split; assumption].
        * (* x < y: x is in no pair *)
          destruct (IHa (y :: b)) as [r [Er [Sr Mr]]];
            [apply walk_pure_tl_a with x; exact HP|eapply set_tl; eassumption|exact Sb|].
          exists r. split; [exact Er|]. split; [exact Sr|].
          intros z; split.
          -- intros Hz. apply Mr in Hz. destruct Hz as [Hz Hy]. split; [right; exact Hz|exact Hy].
          -- intros [[<-|Hz] [y' [Hy' He]]]; [|apply Mr; split; [exact Hz|exists y'; split; assumption]].
             exfalso. unfold keq in He.
             assert (Hlt : c (kf x) (kf y') = Lt).
             { apply (lt_le_trans K c TP _ (kf y)); [exact Exy|]. eapply set_hd_le; eassumption. }
             rewrite Hlt in He. discriminate.
        * (* x > y: y is in no pair *)
          destruct IHb as [r [Er [Sr Mr]]]; [apply walk_pure_tl_b with y; exact HP|eapply set_tl; eassumption|].
          exists r. split; [exact Er|]. split; [exact Sr|].
          intros z; split.
          -- intros Hz. apply Mr in Hz. destruct Hz as [Hz [y' [Hy' He]]]. split; [exact Hz|exists y'; split; [right; exact Hy'|exact He]].
          -- intros [Hz [y' [[<-|Hy'] He]]]; [|apply Mr; split; [exact Hz|exists y'; split; assumption]].
             exfalso. unfold keq in He.
             assert (Hlt : c (kf y) (kf z) = Lt).
             { apply (lt_le_trans K c TP _ (kf x)); [apply (gt_lt K c TP); exact Exy|]. eapply set_hd_le; eassumption. }
             rewrite (lt_gt K c TP _ _ Hlt) in He. discriminate.
  Qed.

  Lemma diff_walk_cons x a y b :
    diff_walk keyf cmp (x :: a) (y :: b) =
    do cc <- cmp_ab keyf cmp x y;
    match cc with
    | Lt => do r <- diff_walk keyf cmp a (y :: b); Ok (x :: r)
    | Eq => diff_walk keyf cmp a b
    | Gt => diff_walk keyf cmp (x :: a) b
    end.
  Proof. reflexivity. Qed.
  Lemma diff_walk_nil_l b : diff_walk keyf cmp [] b = Ok [].
  Proof. destruct b; reflexivity. Qed.
  Lemma diff_walk_nil_r a : diff_walk keyf cmp a [] = Ok a.
  Proof. destruct a; reflexivity. Qed.

  Lemma diff_walk_spec : forall a b,
    walk_pure a b -> is_set a -> is_set b ->
    exists r, diff_walk keyf cmp a b = Ok r /\ is_set r /\
      (forall z, In z r <-> In z a /\ forall y, In y b -> ~ keq z y).
  Proof.
    induction a as [|x a IHa]; intros b HP Sa Sb.
    - exists []. rewrite diff_walk_nil_l. split; [reflexivity|]. split; [constructor|].
      intros z; split; [intros []|intros [[] _]].
    - induction b as [|y b IHb].
      + exists (x :: a). rewrite diff_walk_nil_r. split; [reflexivity|]. split; [exact Sa|].
        intros z; split; [intros Hz; split; [exact Hz|intros ? []]|intros [Hz _]; exact Hz].
      + rewrite diff_walk_cons.
        rewrite (cmp_ab_pure (x :: a) (y :: b) x y HP) by (left; reflexivity). cbn [obind].
        destruct (c (kf x) (kf y)) eqn:Exy.
        * (* equal heads: drop x *)
          destruct (IHa b) as [r [Er [Sr Mr]]];
            [apply walk_pure_tl_a with x; apply walk_pure_tl_b with y; exact HP|eapply set_tl; eassumption|eapply set_tl; eassumption|].
          exists r. split; [exact Er|]. split; [exact Sr|].
          intros z; split.
          -- intros Hz. apply Mr in Hz. destruct Hz as [Hz Hn]. split; [right; exact Hz|].
             intros y' [<-|Hy']; [|apply Hn; exact Hy'].
             unfold keq. pose proof (set_hd_lt x a z Sa Hz) as Hxz. unfold klt in Hxz.
             assert (Hyz : c (kf y) (kf z) = Lt) by (rewrite (eq_cong_l K c TP (kf x) (kf y) (kf z) Exy); exact Hxz).
             rewrite (lt_gt K c TP _ _ Hyz). discriminate.
          -- intros [[<-|Hz] Hn].
             ++ exfalso. apply (Hn y); [left; reflexivity|exact Exy].
             ++ apply Mr; split; [exact Hz|intros y' Hy'; apply Hn; right; exact Hy'].
        * (* x < y: keep x *)
          destruct (IHa (y :: b)) as [r [Er [Sr Mr]]];
            [apply walk_pure_tl_a with x; exact HP|eapply set_tl; eassumption|exact Sb|].
          rewrite Er; cbn [obind]. eexists; split; [reflexivity|]. split.
          -- constructor; [exact Sr|]. apply Forall_forall; intros z Hz. apply Mr in Hz.
             destruct Hz as [Hz _]. eapply set_hd_lt; eassumption.
          -- intros z; split.
             ++ intros [<-|Hz].
                ** split; [left; reflexivity|]. intros y' Hy'. unfold keq.
                   rewrite (lt_le_trans K c TP _ (kf y) _ Exy (set_hd_le y b y' Sb Hy')). discriminate.
                ** apply Mr in Hz. destruct Hz as [Hz Hn]. split; [right; exact Hz|exact Hn].
             ++ intros [[<-|Hz] Hn]; [left; reflexivity|right; apply Mr; split; assumption].
        * (* x > y: skip y *)
          destruct IHb as [r [Er [Sr Mr]]]; [apply walk_pure_tl_b with y; exact HP|eapply set_tl; eassumption|].
          exists r. split; [exact Er|]. split; [exact Sr|].
          intros z; split.
          -- intros Hz. apply Mr in Hz. destruct Hz as [Hz Hn]. split; [exact Hz|].
             intros y' [<-|Hy']; [|apply Hn; exact Hy'].
             unfold keq.
             assert (Hlt : c (kf y) (kf z) = Lt).
             { apply (lt_le_trans K c TP _ (kf x)); [apply (gt_lt K c TP); exact Exy|]. eapply set_hd_le; eassumption. }
             rewrite (lt_gt K c TP _ _ Hlt). discriminate.
          -- intros [Hz Hn]. apply Mr; split; [exact Hz|intros y' Hy'; apply Hn; right; exact Hy'].
  Qed.

  Lemma std_set_union_walk a b : std_set_union keyf cmp a b = union_walk keyf cmp a b.
  Proof. destruct a, b; reflexivity. Qed.
  Lemma std_set_inter_walk a b : std_set_inter keyf cmp a b = inter_walk keyf cmp a b.
  Proof. destruct a, b; reflexivity. Qed.
  Lemma std_set_diff_walk a b : std_set_diff keyf cmp a b = diff_walk keyf cmp a b.
  Proof. destruct a, b; reflexivity. Qed.

  Theorem union_spec a b : walk_pure a b -> is_set a -> is_set b ->
    exists r, std_set_union keyf cmp a b = Ok r /\ is_set r /\
      (forall z, In z r <-> In z a \/ (In z b /\ forall x, In x a -> ~ keq x z)).
  Proof. rewrite std_set_union_walk. apply union_walk_spec. Qed.

  Theorem inter_spec a b : walk_pure a b -> is_set a -> is_set b ->
    exists r, std_set_inter keyf cmp a b = Ok r /\ is_set r /\
      (forall z, In z r <-> In z a /\ exists y, In y b /\ keq z y).
  Proof. rewrite std_set_inter_walk. apply inter_walk_spec. Qed.

  Theorem diff_spec a b : walk_pure a b -> is_set a -> is_set b ->
    exists r, std_set_diff keyf cmp a b = Ok r /\ is_set r /\
      (forall z, In z r <-> In z a /\ forall y, In y b -> ~ keq z y).
  Proof. rewrite std_set_diff_walk. apply diff_walk_spec. Qed.
End Walks.

(* ------------------------------------------------------------------ *)
(* std.setMember: binary search on a key-sorted array *)

Section Member.
  Variables (A K E : Type) (keyf : A -> outcome K E) (cmp : K -> K -> outcome comparison E).
  Variables (kf : A -> K) (c : K -> K -> comparison).
  Hypothesis TP : total_preorder c.

  Definition kle (x y : A) : Prop := c (kf x) (kf y) <> Gt.

  Lemma member_slice_S f kx arr lo hi :
    member_slice keyf cmp (S f) kx arr lo hi =
    if hi <? lo then Panic "stdlib.rs:do_std_set_member_slice:end - start underflows"
    else
      let mid := lo + Nat.div (hi - lo) 2 in
      match nth_error arr mid with
      | None => Panic "stdlib.rs:do_std_set_member_slice:arr[mid]"
      | Some am =>
          do km <- keyf am;
          do cc <- cmp kx km;
          match cc with
          | Eq => Ok true
          | Lt => if mid =? lo then Ok false else member_slice keyf cmp f kx arr lo (mid - 1)
          | Gt => if mid =? hi then Ok false else member_slice keyf cmp f kx arr (mid + 1) hi
          end
      end.
  Proof. reflexivity. Qed.

  Variables (x : A) (arr : list A) (d : A).
  Hypothesis HK : keys_pure A K E keyf kf arr.
  Hypothesis HC : forall y, In y arr -> cmp (kf x) (kf y) = Ok (c (kf x) (kf y)).
  Hypothesis HS : StronglySorted kle arr.

  Lemma member_slice_spec : forall fuel lo hi,
    lo <= hi -> hi < length arr -> hi - lo < fuel ->
    exists b, member_slice keyf cmp fuel (kf x) arr lo hi = Ok b /\
      (b = true <-> exists i, lo <= i <= hi /\ c (kf x) (kf (nth i arr d)) = Eq).
  Proof.
    induction fuel as [|f IH]; intros lo hi Hlh Hhn Hf; [lia|].
    rewrite member_slice_S.
    assert (E0 : (hi <? lo) = false) by (apply Nat.ltb_ge; exact Hlh). rewrite E0. cbv zeta.
    set (mid := lo + Nat.div (hi - lo) 2).
    assert (Hmid : lo <= mid <= hi).
    { unfold mid. pose proof (Nat.div_le_upper_bound (hi - lo) 2 (hi - lo)). lia. }
    rewrite (nth_error_nth' arr d) by lia.
    assert (Hin : In (nth mid arr d) arr) by (apply nth_In; lia).
    rewrite (HK _ Hin); cbn [obind]. rewrite (HC _ Hin); cbn [obind].
    destruct (c (kf x) (kf (nth mid arr d))) eqn:Ec.
    - exists true. split; [reflexivity|]. split; [intros _; exists mid; split; [exact Hmid|exact Ec]|reflexivity].
    - (* x < arr[mid]: nothing at or after mid equals x *)
      assert (Habove : forall i, mid <= i -> i < length arr -> c (kf x) (kf (nth i arr d)) = Lt).
      { intros i Hi Hn. destruct (Nat.eq_dec i mid) as [->|Hne]; [exact Ec|].
        apply (lt_le_trans K c TP _ (kf (nth mid arr d))); [exact Ec|].
        apply (StronglySorted_nth kle arr d mid i HS). lia. }
      destruct (mid =? lo) eqn:Eml.
      + apply Nat.eqb_eq in Eml. exists false. split; [reflexivity|]. split; [discriminate|].
        intros [i [Hi He]]. rewrite (Habove i) in He by lia. discriminate.
      + apply Nat.eqb_neq in Eml.
        destruct (IH lo (mid - 1)) as [b [Eb Hb]]; [lia|lia|lia|].
        exists b. split; [exact Eb|]. rewrite Hb. split.
        * intros [i [Hi He]]. exists i. split; [lia|exact He].
        * intros [i [Hi He]]. exists i. split; [|exact He].
          destruct (le_lt_dec mid i) as [Hge|Hlt]; [|lia].
          rewrite (Habove i) in He by lia. discriminate.
    - (* x > arr[mid]: nothing at or before mid equals x *)
      assert (Hbelow : forall i, i <= mid -> c (kf x) (kf (nth i arr d)) = Gt).
      { intros i Hi. destruct (Nat.eq_dec i mid) as [->|Hne]; [exact Ec|].
        apply (lt_gt K c TP).
        apply (le_lt_trans K c TP _ (kf (nth mid arr d))); [|apply (gt_lt K c TP); exact Ec].
        apply (StronglySorted_nth kle arr d i mid HS). lia. }
      destruct (mid =? hi) eqn:Emh.
      + apply Nat.eqb_eq in Emh. exists false. split; [reflexivity|]. split; [discriminate|].
        intros [i [Hi He]]. rewrite (Hbelow i) in He by lia. discriminate.
      + apply Nat.eqb_neq in Emh.
        destruct (IH (mid + 1) hi) as [b [Eb Hb]]; [lia|lia|lia|].
        exists b. split; [exact Eb|]. rewrite Hb. split.
        * intros [i [Hi He]]. exists i. split; [lia|exact He].
        * intros [i [Hi He]]. exists i. split; [|exact He].
          destruct (le_lt_dec i mid) as [Hle|Hgt]; [|lia].
          rewrite (Hbelow i) in He by lia. discriminate.
  Qed.

  Hypothesis HKx : keyf x = Ok (kf x).

  Theorem member_spec :
    std_set_member keyf cmp x arr = Ok (existsb (fun y => same_key c (kf x) (kf y)) arr).
  Proof.
    unfold std_set_member. destruct arr as [|a0 rest] eqn:Earr; [reflexivity|]. rewrite <- Earr in *.
    rewrite HKx; cbn [obind].
    assert (Hn : 0 < length arr) by (rewrite Earr; cbn; lia).
    destruct (member_slice_spec (S (length arr)) 0 (length arr - 1)) as [b [Eb Hb]]; [lia|lia|lia|].
    rewrite Eb. f_equal.
    destruct (existsb (fun y => same_key c (kf x) (kf y)) arr) eqn:Ex.
    - apply Hb. apply existsb_exists in Ex. destruct Ex as [y [Hy Hs]].
      destruct (In_nth arr y d Hy) as [i [Hi Ei]]. exists i. split; [lia|].
      rewrite Ei. unfold same_key in Hs. destruct (c (kf x) (kf y)); congruence.
    - destruct b; [|reflexivity]. exfalso.
      destruct (proj1 Hb eq_refl) as [i [Hi He]].
      assert (Ht : existsb (fun y => same_key c (kf x) (kf y)) arr = true).
      { apply existsb_exists. exists (nth i arr d). split; [apply nth_In; lia|].
        unfold same_key. rewrite He. reflexivity. }
      congruence.
  Qed.
End Member.

(* ------------------------------------------------------------------ *)
(* std.minArray / std.maxArray: the first minimal / maximal item *)

Section Scan.
  Variables (A K E : Type) (keyf : A -> outcome K E) (cmp : K -> K -> outcome comparison E).
  Variables (kf : A -> K) (c g : K -> K -> comparison) (take : comparison -> bool).
  Hypothesis TP : total_preorder c.
  Hypothesis take_gt : forall a b, take (g a b) = is_gt (c a b).
  Variables (arr : list A) (d : A).
  Hypothesis HK : keys_pure A K E keyf kf arr.
  Hypothesis HC : forall a b, In a arr -> In b arr -> cmp (kf a) (kf b) = Ok (g (kf a) (kf b)).

  Definition key (i : nat) : K := kf (nth i arr d).

  (* [best] is the first minimum (for c) of the items before [cur] *)
  Definition scan_inv (best cur : nat) : Prop :=
    best < cur /\ (forall j, j < cur -> c (key best) (key j) <> Gt) /\ (forall j, j < best -> c (key best) (key j) = Lt).

  Lemma scan_loop_spec : forall items cur best,
    skipn cur arr = items -> cur <= length arr -> scan_inv best cur ->
    exists m, scan_loop keyf cmp take best (key best) cur items = Ok m /\ scan_inv m (length arr).
  Proof.
    induction items as [|it more IH]; intros cur best Hsk Hcur Hinv.
    - exists best. split; [reflexivity|].
      assert (cur = length arr).
      { pose proof (skipn_length cur arr) as HL. rewrite Hsk in HL. cbn in HL. lia. }
      subst cur. exact Hinv.
    - destruct (skipn_cons_nth arr d cur it more Hsk) as [Hnth [Hmore Hlt]].
      destruct Hinv as [Hb [Hle Hfirst]].
      cbn [scan_loop].
      assert (Hit : In it arr) by (rewrite <- Hnth; apply nth_In; exact Hlt).
      assert (Hbest : In (nth best arr d) arr) by (apply nth_In; lia).
      rewrite (HK it Hit); cbn [obind].
      unfold key at 1. rewrite (HC _ _ Hbest Hit); cbn [obind].
      rewrite take_gt.
      assert (Hkc : kf it = key cur) by (unfold key; rewrite Hnth; reflexivity).
      destruct (c (kf (nth best arr d)) (kf it)) eqn:Ec; cbn [is_gt].
      + apply IH; [exact Hmore|lia|]. split; [lia|]. split; [|exact Hfirst].
        intros j Hj. destruct (Nat.eq_dec j cur) as [->|Hne]; [|apply Hle; lia].
        unfold key at 1. rewrite <- Hkc, Ec. discriminate.
      + apply IH; [exact Hmore|lia|]. split; [lia|]. split; [|exact Hfirst].
        intros j Hj. destruct (Nat.eq_dec j cur) as [->|Hne]; [|apply Hle; lia].
        unfold key at 1. rewrite <- Hkc, Ec. discriminate.
      + rewrite Hkc. apply IH; [exact Hmore|lia|].
        assert (Hcb : c (key cur) (key best) = Lt).
        { apply (gt_lt K c TP). rewrite <- Hkc. exact Ec. }
        split; [lia|]. split.
        * intros j Hj. destruct (Nat.eq_dec j cur) as [->|Hne]; [rewrite (tp_refl c TP); discriminate|].
          rewrite (lt_le_trans K c TP _ (key best) _ Hcb (Hle j ltac:(lia))). discriminate.
        * intros j Hj. apply (lt_le_trans K c TP _ (key best) _ Hcb). apply Hle; lia.
  Qed.

  Theorem scan_array_spec :
    arr <> [] ->
    exists m, scan_array keyf cmp take arr = Ok (Some m) /\ m < length arr /\
      (forall j, j < length arr -> c (key m) (key j) <> Gt) /\ (forall j, j < m -> c (key m) (key j) = Lt).
  Proof.
    intros Hne. destruct arr as [|a0 [|a1 rest]] eqn:Earr; [congruence| |].
    - exists 0. split; [reflexivity|]. split; [cbn; lia|]. split; [|intros j Hj; lia].
      intros j Hj. cbn [length] in Hj. assert (j = 0) by lia. subst j. rewrite (tp_refl c TP). discriminate.
    - rewrite <- Earr in *.
      assert (Hs : scan_array keyf cmp take arr =
                   do k0 <- keyf a0; do m <- scan_loop keyf cmp take 0 k0 1 (a1 :: rest); Ok (Some m))
        by (rewrite Earr; reflexivity).
      rewrite Hs.
      assert (H0 : In a0 arr) by (rewrite Earr; left; reflexivity).
      rewrite (HK a0 H0); cbn [obind].
      assert (Hk0 : kf a0 = key 0) by (unfold key; rewrite Earr; reflexivity).
      rewrite Hk0.
      destruct (scan_loop_spec (a1 :: rest) 1 0) as [m [Em [Hm [Hle Hf]]]].
      + rewrite Earr; reflexivity.
      + rewrite Earr; cbn; lia.
      + split; [lia|]. split; [|intros j Hj; lia].
        intros j Hj. assert (j = 0) by lia. subst j. rewrite (tp_refl c TP). discriminate.
      + rewrite Em; cbn [obind]. exists m. repeat split; assumption.
  Qed.
End Scan.

Section MinMax.
  Variables (A K E : Type) (keyf : A -> outcome K E) (cmp : K -> K -> outcome comparison E).
  Variables (kf : A -> K) (c : K -> K -> comparison).
  Hypothesis TP : total_preorder c.
  Variables (arr : list A) (d : A).
  Hypothesis HK : keys_pure A K E keyf kf arr.
  Hypothesis HC : cmp_pure A K E cmp kf c arr.

  (* the chosen item is minimal, and strictly smaller than every item before it *)
  Theorem minArray_first_min :
    arr <> [] ->
    exists m, std_min_array_idx keyf cmp arr = Ok (Some m) /\ m < length arr /\
      (forall j, j < length arr -> c (kf (nth m arr d)) (kf (nth j arr d)) <> Gt) /\
      (forall j, j < m -> c (kf (nth m arr d)) (kf (nth j arr d)) = Lt).
  Proof.
    intros Hne. unfold std_min_array_idx.
    exact (scan_array_spec A K E keyf cmp kf c c is_gt TP (fun a b => eq_refl) arr d HK HC Hne).
  Qed.

  (* the chosen item is maximal, and strictly greater than every item before it *)
  Theorem maxArray_first_max :
    arr <> [] ->
    exists m, std_max_array_idx keyf cmp arr = Ok (Some m) /\ m < length arr /\
      (forall j, j < length arr -> c (kf (nth j arr d)) (kf (nth m arr d)) <> Gt) /\
      (forall j, j < m -> c (kf (nth j arr d)) (kf (nth m arr d)) = Lt).
  Proof.
    intros Hne. unfold std_max_array_idx.
    assert (Htake : forall a b, is_lt (c a b) = is_gt (c b a)).
    { intros a b. rewrite (tp_sym c TP a b). destruct (c a b); reflexivity. }
    exact (scan_array_spec A K E keyf cmp kf (fun a b => c b a) c is_lt (total_preorder_flip K c TP) Htake arr d HK HC Hne).
  Qed.

  Theorem min_max_empty :
    std_min_array_idx keyf cmp (@nil A) = Ok None /\ std_max_array_idx keyf cmp (@nil A) = Ok None.
  Proof. split; reflexivity. Qed.
End MinMax.

(* ------------------------------------------------------------------ *)
(* the wire instance on number keys: the hypotheses of the theorems above are met
   (used by the non-vacuity examples of Props/C17.v) *)

Definition numkey (r : N) : wkey := (2%N, r, 0%N).
Definition num_c (a b : wkey) : comparison := N.compare (snd (fst a)) (snd (fst b)).
Definition num_e (a b : wkey) : bool := N.eqb (snd (fst a)) (snd (fst b)).
Definition num_kf (ranks : list N) (i : nat) : wkey := numkey (nth i ranks 0%N).
Definition num_script (ranks : list N) : list (outcome wkey werr) := map (fun r => Ok (numkey r)) ranks.

Lemma num_c_total_preorder : total_preorder num_c.
Proof.
  constructor; unfold num_c; intros.
  - apply N.compare_refl.
  - apply N.compare_antisym.
  - rewrite N.compare_le_iff in *. eapply N.le_trans; eassumption.
Qed.

Lemma wcmp_numkey r1 r2 : wcmp (numkey r1) (numkey r2) = Ok (num_c (numkey r1) (numkey r2)).
Proof. unfold wcmp, numkey, num_c. cbn. destruct (N.compare r1 r2); reflexivity. Qed.

Lemma weqv_numkey r1 r2 : weqv (numkey r1) (numkey r2) = Ok (num_e (numkey r1) (numkey r2)).
Proof. unfold weqv, numkey, num_e. cbn. destruct (N.eqb r1 r2); reflexivity. Qed.

Lemma num_keys_pure ranks l :
  (forall i, In i l -> i < length ranks) ->
  keys_pure nat wkey werr (wkeyf (num_script ranks)) (num_kf ranks) l.
Proof.
  intros H i Hi. unfold wkeyf, num_script, num_kf.
  rewrite (nth_error_nth' _ (Ok (numkey 0%N))) by (rewrite map_length; apply H; exact Hi).
  rewrite (map_nth (fun r => Ok (numkey r)) ranks 0%N). reflexivity.
Qed.

Lemma num_cmp_pure ranks l : cmp_pure nat wkey werr wcmp (num_kf ranks) num_c l.
Proof. intros a b _ _. apply wcmp_numkey. Qed.

Lemma num_eqv_pure ranks l : eqv_pure nat wkey werr weqv (num_kf ranks) num_e l.
Proof. intros a b _ _. apply weqv_numkey. Qed.

Lemma num_e_is_eq a b : num_e a b = true <-> num_c a b = Eq.
Proof. unfold num_e, num_c. rewrite N.eqb_eq, N.compare_eq_iff. reflexivity. Qed.

Lemma num_e_sym a b : num_e a b = num_e b a.
Proof. unfold num_e. apply N.eqb_sym. Qed.

Lemma num_e_trans a b c' : num_e a b = true -> num_e b c' = true -> num_e a c' = true.
Proof. unfold num_e. rewrite !N.eqb_eq. congruence. Qed.

(* ------------------------------------------------------------------ *)
(* std.set: strictly key-sorted, made of input items, one per key of the input *)

Section UniqMore.
  Variables (A K E : Type) (keyf : A -> outcome K E) (eqv : K -> K -> outcome bool E).
  Variables (kf : A -> K) (e : K -> K -> bool).
  Hypothesis e_refl : forall a, e a a = true.
  Hypothesis e_trans : forall a b c', e a b = true -> e b c' = true -> e a c' = true.

  Lemma uniq_loop_sorted_cover (R : A -> A -> Prop) items : forall a0 (all : list A) r,
    In a0 all -> incl items all -> keys_pure A K E keyf kf all -> eqv_pure A K E eqv kf e all ->
    uniq_loop keyf eqv (kf a0) items = Ok r ->
    (StronglySorted R items -> StronglySorted R r) /\ incl r items /\
    (forall z, In z items -> exists y, In y (a0 :: r) /\ e (kf y) (kf z) = true).
  Proof.
    induction items as [|it more IH]; intros a0 all r H0 Hin HK HE H; cbn [uniq_loop] in H.
    - inversion H; subst. split; [auto|]. split; [intros x []|intros z []].
    - assert (Hit : In it all) by (apply Hin; left; reflexivity).
      rewrite (HK it Hit) in H; cbn [obind] in H. rewrite (HE a0 it H0 Hit) in H; cbn [obind] in H.
      obind_inv H. rename v into r'. inversion H; subst r; clear H.
      destruct (IH it all r' Hit) as [Hs [Hi Hc]]; try assumption; [intros x Hx; apply Hin; right; exact Hx|].
      destruct (e (kf a0) (kf it)) eqn:Ee.
      + split; [intros S; inversion S; subst; auto|]. split; [intros x Hx; right; apply Hi; exact Hx|].
        intros z [<-|Hz]; [exists a0; split; [left; reflexivity|exact Ee]|].
        destruct (Hc z Hz) as [y [[<-|Hy] Hyz]].
        * exists a0. split; [left; reflexivity|]. eapply e_trans; eassumption.
        * exists y. split; [right; exact Hy|exact Hyz].
      + split; [|split].
        * intros S; inversion S as [|? ? S' F]; subst. constructor; [auto|].
          apply Forall_forall; intros y Hy. exact (proj1 (Forall_forall _ _) F y (Hi y Hy)).
        * intros x [<-|Hx]; [left; reflexivity|right; apply Hi; exact Hx].
        * intros z [<-|Hz]; [exists it; split; [right; left; reflexivity|apply e_refl]|].
          destruct (Hc z Hz) as [y [Hy Hyz]]. exists y. split; [right; exact Hy|exact Hyz].
  Qed.

  Lemma std_uniq_sorted_cover (R : A -> A -> Prop) arr r :
    keys_pure A K E keyf kf arr -> eqv_pure A K E eqv kf e arr -> std_uniq keyf eqv arr = Ok r ->
    (StronglySorted R arr -> StronglySorted R r) /\
    (forall z, In z arr -> exists y, In y r /\ e (kf y) (kf z) = true).
  Proof.
    intros HK HE H. destruct arr as [|a0 [|a1 rest]]; cbn [std_uniq] in H.
    - inversion H; subst; split; [auto|intros z []].
    - inversion H; subst; split; [auto|]. intros z [<-|[]]. exists a0; split; [left; reflexivity|apply e_refl].
    - rewrite (HK a0 (or_introl eq_refl)) in H; cbn [obind] in H.
      obind_inv H. inversion H; subst r; clear H.
      destruct (uniq_loop_sorted_cover R (a1 :: rest) a0 (a0 :: a1 :: rest) v) as [Hs [Hi Hc]]; try assumption;
        [left; reflexivity|intros x Hx; right; exact Hx|].
      split.
      + intros S; inversion S as [|? ? S' F]; subst. constructor; [auto|].
        apply Forall_forall; intros y Hy. exact (proj1 (Forall_forall _ _) F y (Hi y Hy)).
      + intros z [<-|Hz]; [exists a0; split; [left; reflexivity|apply e_refl]|]. apply Hc; exact Hz.
  Qed.
End UniqMore.

Section SetSpec.
  Variables (A K E : Type) (keyf : A -> outcome K E) (cmp : K -> K -> outcome comparison E) (eqv : K -> K -> outcome bool E).
  Variables (kf : A -> K) (c : K -> K -> comparison) (e : K -> K -> bool).
  Hypothesis TP : total_preorder c.
  Hypothesis e_is_eq : forall a b, e a b = true <-> c a b = Eq.

  Lemma strict_of_le_neq r :
    StronglySorted (fun x y => c (kf x) (kf y) <> Gt) r -> Sorted (fun x y => e (kf x) (kf y) = false) r ->
    StronglySorted (klt A K kf c) r.
  Proof.
    induction r as [|x r IH]; intros S N; [constructor|].
    inversion S as [|? ? S' F]; subst. inversion N as [|? ? N' Hd]; subst.
    constructor; [apply IH; assumption|].
    destruct r as [|y0 r]; [constructor|].
    inversion Hd as [|? ? Hne]; subst.
    assert (Hlt0 : c (kf x) (kf y0) = Lt).
    { pose proof (proj1 (Forall_forall _ _) F y0 (or_introl eq_refl)) as Hle.
      destruct (c (kf x) (kf y0)) eqn:Ec; [|reflexivity|congruence].
      apply e_is_eq in Ec. congruence. }
    inversion S' as [|? ? _ F']; subst.
    constructor; [exact Hlt0|].
    apply Forall_forall; intros y Hy. unfold klt.
    apply (lt_le_trans K c TP _ (kf y0)); [exact Hlt0|].
    exact (proj1 (Forall_forall _ _) F' y Hy).
  Qed.

  Theorem set_spec arr :
    keys_pure A K E keyf kf arr -> cmp_pure A K E cmp kf c arr -> eqv_pure A K E eqv kf e arr ->
    exists r, std_set keyf cmp eqv arr = Ok r /\ is_set A K kf c r /\ incl r arr /\
      (forall z, In z arr -> exists y, In y r /\ c (kf y) (kf z) = Eq).
  Proof.
    intros HK HC HE. rewrite set_is_uniq_sort.
    destruct (std_sort_correct A K E keyf cmp kf c TP arr HK HC) as [s [Es [Ps [Ss _]]]].
    rewrite Es; cbn [obind].
    assert (Is : incl s arr) by (intros z Hz; eapply Permutation_in; eassumption).
    assert (HKs : keys_pure A K E keyf kf s) by (intros a Ha; apply HK; apply Is; exact Ha).
    assert (HEs : eqv_pure A K E eqv kf e s) by (intros a b Ha Hb; apply HE; apply Is; assumption).
    assert (e_refl : forall a, e a a = true) by (intros a; apply e_is_eq; apply (tp_refl c TP)).
    assert (e_sym : forall a b, e a b = e b a).
    { intros a b. destruct (e a b) eqn:E1, (e b a) eqn:E2; try reflexivity.
      - apply e_is_eq in E1. apply (eq_sym K c TP) in E1. apply e_is_eq in E1. congruence.
      - apply e_is_eq in E2. apply (eq_sym K c TP) in E2. apply e_is_eq in E2. congruence. }
    assert (e_trans : forall a b c', e a b = true -> e b c' = true -> e a c' = true).
    { intros a b c' H1 H2. apply e_is_eq in H1. apply e_is_eq in H2. apply e_is_eq.
      rewrite <- (eq_cong_l K c TP a b c' H1). exact H2. }
    destruct s as [|d0 s0] eqn:Es0.
    { exists []. split; [reflexivity|]. split; [constructor|]. split; [intros z []|].
      intros z Hz. apply Permutation_sym in Ps. apply (Permutation_in _ Ps) in Hz. destruct Hz. }
    rewrite <- Es0 in *.
    destruct (uniq_spec A K E keyf eqv kf e s d0 HKs HEs) as [mask [_ [_ Eu]]].
    exists (pick mask s). split; [exact Eu|].
    destruct (uniq_no_adjacent_duplicates A K E keyf eqv kf e e_sym e_trans s _ HKs HEs Eu) as [Hn Hi].
    destruct (std_uniq_sorted_cover A K E keyf eqv kf e e_refl e_trans
                (fun x y => c (kf x) (kf y) <> Gt) s _ HKs HEs Eu) as [Hs Hc].
    split; [apply strict_of_le_neq; [apply Hs; exact Ss|exact Hn]|].
    split; [intros z Hz; apply Is; apply Hi; exact Hz|].
    intros z Hz. apply Permutation_sym in Ps. apply (Permutation_in _ Ps) in Hz.
    destruct (Hc z Hz) as [y [Hy He]]. exists y. split; [exact Hy|apply e_is_eq; exact He].
  Qed.
End SetSpec.

(* ------------------------------------------------------------------ *)
(* none of the set functions can Panic or run out of fuel: they answer Ok or Err
   whenever keyF, the comparison and == do *)

Section NoPanicSetOps.
  Variables (A K E : Type) (keyf : A -> outcome K E) (cmp : K -> K -> outcome comparison E) (eqv : K -> K -> outcome bool E).
  Hypothesis keyf_clean : forall a, clean (keyf a).
  Hypothesis cmp_clean' : forall a b, clean (cmp a b).
  Hypothesis eqv_clean : forall a b, clean (eqv a b).

  Lemma uniq_loop_clean items : forall k, clean (uniq_loop keyf eqv k items).
  Proof.
    induction items as [|it more IH]; intros k; cbn [uniq_loop]; [exact I|].
    apply clean_obind; [apply keyf_clean|]. intros k' _.
    apply clean_obind; [apply eqv_clean|]. intros e' _.
    apply clean_obind; [apply IH|]. intros; exact I.
  Qed.

  Theorem std_uniq_clean arr : clean (std_uniq keyf eqv arr).
  Proof.
    destruct arr as [|a0 [|a1 rest]]; cbn [std_uniq]; try exact I.
    apply clean_obind; [apply keyf_clean|]. intros k _.
    apply clean_obind; [apply uniq_loop_clean|]. intros; exact I.
  Qed.

  Theorem std_set_clean arr : clean (std_set keyf cmp eqv arr).
  Proof.
    rewrite set_is_uniq_sort. apply clean_obind.
    - apply std_sort_clean; intros; [apply keyf_clean|apply cmp_clean'].
    - intros s _. apply std_uniq_clean.
  Qed.

  Lemma cmp_ab_clean x y : clean (cmp_ab keyf cmp x y).
  Proof.
    unfold cmp_ab. apply clean_obind; [apply keyf_clean|]. intros kx _.
    apply clean_obind; [apply keyf_clean|]. intros ky _. apply cmp_clean'.
  Qed.

  Lemma union_walk_clean : forall a b, clean (union_walk keyf cmp a b).
  Proof.
    induction a as [|x a IHa]; intros b; [rewrite union_walk_nil_l; exact I|].
    induction b as [|y b IHb]; [rewrite union_walk_nil_r; exact I|].
    rewrite union_walk_cons. apply clean_obind; [apply cmp_ab_clean|]. intros cc _.
    destruct cc; (apply clean_obind; [first [apply IHa|apply IHb]|intros; exact I]).
  Qed.

  Lemma inter_walk_clean : forall a b, clean (inter_walk keyf cmp a b).
  Proof.
    induction a as [|x a IHa]; intros b; [rewrite inter_walk_nil_l; exact I|].
    induction b as [|y b IHb]; [rewrite inter_walk_nil_r; exact I|].
    rewrite inter_walk_cons. apply clean_obind; [apply cmp_ab_clean|]. intros cc _.
    destruct cc; [apply clean_obind; [apply IHa|intros; exact I]|apply IHa|apply IHb].
  Qed.

  Lemma diff_walk_clean : forall a b, clean (diff_walk keyf cmp a b).
  Proof.
    induction a as [|x a IHa]; intros b; [rewrite diff_walk_nil_l; exact I|].
    induction b as [|y b IHb]; [rewrite diff_walk_nil_r; exact I|].
    rewrite diff_walk_cons. apply clean_obind; [apply cmp_ab_clean|]. intros cc _.
    destruct cc; [apply IHa|apply clean_obind; [apply IHa|intros; exact I]|apply IHb].
  Qed.

  Lemma member_slice_clean kx arr : forall fuel lo hi,
    lo <= hi -> hi < length arr -> hi - lo < fuel -> clean (member_slice keyf cmp fuel kx arr lo hi).
  Proof.
    induction fuel as [|f IH]; intros lo hi Hlh Hhn Hf; [lia|].
    rewrite member_slice_S.
    assert (E0 : (hi <? lo) = false) by (apply Nat.ltb_ge; exact Hlh). rewrite E0. cbv zeta.
    set (mid := lo + Nat.div (hi - lo) 2).
    assert (Hmid : lo <= mid <= hi).
    { unfold mid. pose proof (Nat.div_le_upper_bound (hi - lo) 2 (hi - lo)). lia. }
    destruct (nth_error arr mid) eqn:En; [|apply nth_error_None in En; lia].
    apply clean_obind; [apply keyf_clean|]. intros km _.
    apply clean_obind; [apply cmp_clean'|]. intros cc _.
    destruct cc; [exact I| |].
    - destruct (mid =? lo) eqn:Em; [exact I|]. apply Nat.eqb_neq in Em. apply IH; lia.
    - destruct (mid =? hi) eqn:Em; [exact I|]. apply Nat.eqb_neq in Em. apply IH; lia.
  Qed.

  Theorem std_set_member_clean x arr : clean (std_set_member keyf cmp x arr).
  Proof.
    unfold std_set_member. destruct arr as [|a0 rest] eqn:Earr; [exact I|]. rewrite <- Earr.
    assert (0 < length arr) by (rewrite Earr; cbn; lia).
    apply clean_obind; [apply keyf_clean|]. intros kx _. apply member_slice_clean; lia.
  Qed.

  Lemma scan_loop_clean take items : forall best kbest cur, clean (scan_loop keyf cmp take best kbest cur items).
  Proof.
    induction items as [|it more IH]; intros best kbest cur; cbn [scan_loop]; [exact I|].
    apply clean_obind; [apply keyf_clean|]. intros k _.
    apply clean_obind; [apply cmp_clean'|]. intros cc _. destruct (take cc); apply IH.
  Qed.

  Theorem scan_array_clean take arr : clean (scan_array keyf cmp take arr).
  Proof.
    destruct arr as [|a0 [|a1 rest]]; cbn [scan_array]; try exact I.
    apply clean_obind; [apply keyf_clean|]. intros k _.
    apply clean_obind; [apply scan_loop_clean|]. intros; exact I.
  Qed.

  Theorem set_functions_clean :
    (forall arr, clean (std_uniq keyf eqv arr)) /\ (forall arr, clean (std_set keyf cmp eqv arr)) /\
    (forall a b, clean (std_set_union keyf cmp a b)) /\ (forall a b, clean (std_set_inter keyf cmp a b)) /\
    (forall a b, clean (std_set_diff keyf cmp a b)) /\ (forall x arr, clean (std_set_member keyf cmp x arr)) /\
    (forall arr, clean (std_min_array_idx keyf cmp arr)) /\ (forall arr, clean (std_max_array_idx keyf cmp arr)).
  Proof.
    split; [exact std_uniq_clean|]. split; [exact std_set_clean|].
    split; [intros; rewrite std_set_union_walk; apply union_walk_clean|].
    split; [intros; rewrite std_set_inter_walk; apply inter_walk_clean|].
    split; [intros; rewrite std_set_diff_walk; apply diff_walk_clean|].
    split; [exact std_set_member_clean|].
    split; intros; apply scan_array_clean.
  Qed.
End NoPanicSetOps.

(* the function the correspondence check runs, on every script of number keys: the
   stable sorted permutation *)
Theorem run_sort_numkeys_spec (ranks : list N) :
  exists p, run_sort (num_script ranks) = Ok p /\
    Permutation p (seq 0 (length ranks)) /\
    StronglySorted (fun i j => (nth i ranks 0 <= nth j ranks 0)%N) p /\
    (forall r, filter (fun i => N.eqb r (nth i ranks 0%N)) p =
               filter (fun i => N.eqb r (nth i ranks 0%N)) (seq 0 (length ranks))).
Proof.
  unfold run_sort, num_script. rewrite map_length. fold (num_script ranks).
  destruct (std_sort_correct nat wkey werr (wkeyf (num_script ranks)) wcmp (num_kf ranks) num_c
              num_c_total_preorder (seq 0 (length ranks))) as [p [Ep [Pp [Sp Tp]]]].
  - apply num_keys_pure. intros i Hi. apply in_seq in Hi. exact (proj2 Hi).
  - apply num_cmp_pure.
  - exists p. split; [exact Ep|]. split; [exact Pp|]. split.
    + eapply StronglySorted_impl; [|exact Sp]. intros i j H. unfold num_c, num_kf, numkey in H. cbn in H.
      apply N.compare_le_iff. exact H.
    + intros r. specialize (Tp (numkey r)).
      assert (Hf : forall i, same_key num_c (numkey r) (num_kf ranks i) = N.eqb r (nth i ranks 0%N)).
      { intros i. unfold same_key, num_c, num_kf, numkey. cbn.
        destruct (N.compare_spec r (nth i ranks 0%N)) as [He|Hl|Hg].
        - subst. symmetry. apply N.eqb_refl.
        - symmetry. apply N.eqb_neq. intros ->. apply (N.lt_irrefl _ Hl).
        - symmetry. apply N.eqb_neq. intros ->. apply (N.lt_irrefl _ Hg). }
      rewrite (filter_ext_in' _ _ p (fun i _ => Hf i)) in Tp.
      rewrite (filter_ext_in' _ _ (seq 0 (length ranks)) (fun i _ => Hf i)) in Tp. exact Tp.
Qed.
