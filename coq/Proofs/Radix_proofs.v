(* Proofs/Radix_proofs.v — facts about Model/Radix.v *)
From RJ Require Import Base.Outcome Base.F64 Model.Radix.
From Coq Require Import Lia Floats.SpecFloat.
Local Open Scope N_scope.

(* ---- the function as it stood in the snapshot: two refutations ------------ *)

Definition rep (c : N) (k : nat) : str := repeat c k.

(* "1" x 31 ++ U+00E9 : the byte slice at 32 falls inside the two-byte character *)
Definition w_panic : str := rep 49 31 ++ [233].

Lemma radix_orig_panics :
  parse_num_radix_orig 16 w_panic = Panic "mod.rs:parse_num_radix:byte index is not a char boundary".
Proof. vm_compute. reflexivity. Qed.

(* 10000000000002 8 0^17 1 : 33 hexadecimal digits; the integer lies just above the
   midpoint between 0x1.0000000000002p+128 and 0x1.0000000000003p+128 *)
Definition w_tie : str :=
  [49] ++ rep 48 12 ++ [50] ++ [56] ++ rep 48 17 ++ [49].

Definition hex_value (s : str) : N :=
  fold_left (fun acc c => match to_digit 16 c with Some d => acc * 16 + d | None => acc end) s 0.

Lemma radix_orig_misrounds :
  parse_num_radix_orig 16 w_tie = Ok (f_of_bits 0x47f0000000000002) /\
  f_of_N (hex_value w_tie) = f_of_bits 0x47f0000000000003.
Proof. vm_compute. split; reflexivity. Qed.
