(* Proofs/Radix_proofs.v — facts about Model/Radix.v *)
From RJ Require Import Base.Outcome Base.F64 Model.Radix Proofs.Radix_float_proofs.
From Coq Require Import Lia Floats.SpecFloat.
Local Open Scope N_scope.

(* ---- the function as it stood in the snapshot: two refutations ------------ *)

Definition rep (c : N) (k : nat) : str := repeat c k.

(* "1" x 31 ++ U+00E9 : the byte slice at 32 falls inside the two-byte character *)
Definition w_panic : str := rep 49 31 ++ [233].

Lemma radix_orig_panics :
  parse_num_radix_orig 16 w_panic = Panic "mod.rs:parse_num_radix:byte index is not a char boundary".
Proof. vm_compute. reflexivity. Qed.

(* 10000000000002 8 0^17 1 : 33 hexadecimal digits; the integer lies just above the
   midpoint between 0x1.0000000000002p+128 and 0x1.0000000000003p+128 *)
Definition w_tie : str :=
  [49] ++ rep 48 12 ++ [50] ++ [56] ++ rep 48 17 ++ [49].

Definition hex_value (s : str) : N :=
  fold_left (fun acc c => match to_digit 16 c with Some d => acc * 16 + d | None => acc end) s 0.

Lemma radix_orig_misrounds :
  parse_num_radix_orig 16 w_tie = Ok (f_of_bits 0x47f0000000000002) /\
  f_of_N (hex_value w_tie) = f_of_bits 0x47f0000000000003.
Proof. vm_compute. split; reflexivity. Qed.

(* ---- the function as it stands now ------------------------------------------ *)

Definition valid (radix c : N) : Prop := to_digit radix c <> None.

(* the integer denoted by a string of valid digits (most significant first) *)
Fixpoint value_acc (radix : N) (s : str) (acc : N) : N :=
  match s with
  | [] => acc
  | c :: r => match to_digit radix c with
              | Some d => value_acc radix r (acc * radix + d)
              | None => acc
              end
  end.
Definition value (radix : N) (s : str) : N := value_acc radix s 0.

Lemma to_digit_lt radix c d : to_digit radix c = Some d -> d < radix.
Proof.
  unfold to_digit.
  destruct (if (48 <=? c) && (c <=? 57) then Some (c - 48)
            else if (97 <=? c) && (c <=? 122) then Some (c - 97 + 10)
            else if (65 <=? c) && (c <=? 90) then Some (c - 65 + 10) else None) as [v|]; [|discriminate].
  destruct (v <? radix) eqn:E; [|discriminate]. intros H. injection H as <-. now apply N.ltb_lt.
Qed.

Lemma acc_u128_ok radix : 0 < radix -> forall s acc,
  Forall (valid radix) s -> (acc + 1) * radix ^ N.of_nat (length s) <= u128_lim ->
  acc_u128 radix s acc = Ok (value_acc radix s acc) /\
  (value_acc radix s acc + 1) <= (acc + 1) * radix ^ N.of_nat (length s).
Proof.
  intros Hr. induction s as [|c r IH]; intros acc Hv Hb.
  - cbn. split; [reflexivity|]. lia.
  - inversion Hv as [|? ? Hc Hr']; subst. unfold valid in Hc.
    cbn [acc_u128 value_acc]. destruct (to_digit radix c) as [d|] eqn:Ed; [|contradiction].
    pose proof (to_digit_lt _ _ _ Ed) as Hd.
    cbn [length] in Hb. rewrite Nat2N.inj_succ, N.pow_succ_r' in Hb.
    assert (Hstep : (acc * radix + d + 1) * radix ^ N.of_nat (length r) <= (acc + 1) * (radix * radix ^ N.of_nat (length r))).
    { rewrite N.mul_assoc. apply N.mul_le_mono_r. lia. }
    assert (Hpos : 0 < radix ^ N.of_nat (length r)) by (apply N.neq_0_lt_0, N.pow_nonzero; lia).
    replace (u128_lim <=? acc * radix + d) with false.
    2:{ symmetry. apply N.leb_gt. nia. }
    destruct (IH (acc * radix + d) Hr') as [E B]; [lia|].
    split; [exact E|]. cbn [length]. rewrite Nat2N.inj_succ, N.pow_succ_r'. lia.
Qed.

(* the digits after the first chunk *)
Lemma scan_rest_ok radix : forall s extra sticky, Forall (valid radix) s ->
  exists st, scan_rest radix s extra sticky = Ok ((extra + length s)%nat, st).
Proof.
  induction s as [|c r IH]; intros extra sticky Hv.
  - exists sticky. cbn. now rewrite Nat.add_0_r.
  - inversion Hv as [|? ? Hc Hr]; subst. unfold valid in Hc. cbn [scan_rest].
    destruct (to_digit radix c) as [d|]; [|contradiction].
    destruct (IH (S extra) (sticky || negb (d =? 0))%bool Hr) as [st E]. exists st. rewrite E.
    cbn [length]. f_equal. f_equal. lia.
Qed.

Lemma scan_rest_invalid radix : forall pre c post extra sticky,
  Forall (valid radix) pre -> to_digit radix c = None ->
  scan_rest radix (pre ++ c :: post) extra sticky = Err (RInvalidDigit c).
Proof.
  induction pre as [|x pre IH]; intros c post extra sticky Hv Hc.
  - cbn [app scan_rest]. now rewrite Hc.
  - inversion Hv as [|? ? Hx Hpre]; subst. unfold valid in Hx. cbn [app scan_rest].
    destruct (to_digit radix x) as [d|]; [|contradiction]. now apply IH.
Qed.

Lemma split_chars_app s n : fst (split_chars s n) ++ snd (split_chars s n) = s.
Proof.
  revert s. induction n as [|n IH]; intros s; [destruct s; reflexivity|].
  destruct s as [|c r]; [reflexivity|]. cbn [split_chars fst snd app]. now rewrite IH.
Qed.

Lemma split_chars_length s n : (length (fst (split_chars s n)) <= n)%nat.
Proof.
  revert s. induction n as [|n IH]; intros s; [destruct s; cbn; lia|].
  destruct s as [|c r]; [cbn; lia|]. cbn [split_chars fst length]. specialize (IH r). lia.
Qed.

Lemma split_chars_short s n : (length s <= n)%nat -> split_chars s n = (s, []).
Proof.
  revert s. induction n as [|n IH]; intros s H.
  - destruct s; [reflexivity|cbn in H; lia].
  - destruct s as [|c r]; [reflexivity|]. cbn [split_chars]. rewrite IH by (cbn in H; lia). reflexivity.
Qed.

Definition radix_ok (radix : N) : Prop := radix = 8 \/ radix = 16.

Lemma chunk_bound radix : radix_ok radix -> radix ^ max_digits_128 radix <= u128_lim.
Proof. intros [->| ->]; vm_compute; discriminate. Qed.

Lemma first_chunk_ok radix s : radix_ok radix -> Forall (valid radix) s ->
  (length s <= N.to_nat (max_digits_128 radix))%nat ->
  acc_u128 radix s 0 = Ok (value radix s) /\ value radix s < radix ^ N.of_nat (length s).
Proof.
  intros Hr Hv Hl.
  assert (Hpos : 0 < radix) by (destruct Hr as [->| ->]; reflexivity).
  destruct (acc_u128_ok radix Hpos s 0 Hv) as [E B].
  - rewrite N.add_0_l, N.mul_1_l. etransitivity; [|apply (chunk_bound radix Hr)].
    apply N.pow_le_mono_r; lia.
  - split; [exact E|]. unfold value. lia.
Qed.

(* 1. no input makes the function panic *)
Theorem radix_no_panic : forall radix s, radix_ok radix -> is_panic (parse_num_radix radix s) = false.
Proof.
  intros radix s Hr. unfold parse_num_radix. destruct s as [|c0 s0]; [reflexivity|].
  set (t := trim_zeros (c0 :: s0)).
  set (k := N.to_nat (max_digits_128 radix)).
  pose proof (split_chars_length t k) as Hl.
  assert (Hpos : 0 < radix) by (destruct Hr as [->| ->]; reflexivity).
  (* the first chunk either contains an invalid digit or is accumulated exactly *)
  assert (Hacc : forall u acc, (acc + 1) * radix ^ N.of_nat (length u) <= u128_lim ->
                               is_panic (acc_u128 radix u acc) = false).
  { induction u as [|x u IH]; intros acc Hb; [reflexivity|]. cbn [acc_u128].
    destruct (to_digit radix x) as [d|] eqn:Ed; [|reflexivity].
    pose proof (to_digit_lt _ _ _ Ed) as Hd.
    cbn [length] in Hb. rewrite Nat2N.inj_succ, N.pow_succ_r' in Hb.
    assert (Hp : 0 < radix ^ N.of_nat (length u)) by (apply N.neq_0_lt_0, N.pow_nonzero; lia).
    replace (u128_lim <=? acc * radix + d) with false by (symmetry; apply N.leb_gt; nia).
    apply IH. nia. }
  specialize (Hacc (fst (split_chars t k)) 0).
  destruct (acc_u128 radix (fst (split_chars t k)) 0) as [n| | |] eqn:E; cbn [obind]; try reflexivity.
  - assert (Hs : forall u a b, match scan_rest radix u a b with Ok _ | Err _ => True | _ => False end).
    { induction u as [|x u IH]; intros a b; cbn [scan_rest]; [exact I|].
      destruct (to_digit radix x); [apply IH|exact I]. }
    specialize (Hs (snd (split_chars t k)) 0%nat false).
    destruct (scan_rest radix (snd (split_chars t k)) 0 false) as [[ex st]| | |];
      cbn [obind]; try contradiction; try reflexivity.
    destruct (f_is_finite _); reflexivity.
  - cbn [is_panic] in Hacc. assert (true = false); [|discriminate]. apply Hacc.
    rewrite N.add_0_l, N.mul_1_l. etransitivity; [|apply (chunk_bound radix Hr)].
    apply N.pow_le_mono_r; [lia|].
    replace (max_digits_128 radix) with (N.of_nat k) by (unfold k; apply N2Nat.id). lia.
Qed.

(* 2. an invalid digit is reported exactly when there is one, and it is the first one *)
Theorem radix_invalid_digit_iff : forall radix s c, radix_ok radix -> s <> [] ->
  (parse_num_radix radix s = Err (RInvalidDigit c) <->
   exists pre post, trim_zeros s = pre ++ c :: post /\ Forall (valid radix) pre /\ to_digit radix c = None).
Proof.
  intros radix s c Hr Hs.
  assert (Hpos : 0 < radix) by (destruct Hr as [->| ->]; reflexivity).
  unfold parse_num_radix. destruct s as [|c0 s0]; [contradiction|].
  set (t := trim_zeros (c0 :: s0)). set (k := N.to_nat (max_digits_128 radix)).
  pose proof (split_chars_app t k) as Happ. pose proof (split_chars_length t k) as Hlen.
  set (hd := fst (split_chars t k)) in *. set (tl := snd (split_chars t k)) in *.
  (* decompose t at its first invalid digit, if any *)
  assert (Hdec : forall u, Forall (valid radix) u \/
                           exists pre x post, u = pre ++ x :: post /\ Forall (valid radix) pre /\ to_digit radix x = None).
  { induction u as [|x u [IH|[pre [y [post [-> [Hp Hy]]]]]]].
    - left. constructor.
    - destruct (to_digit radix x) eqn:E.
      + left. constructor; [unfold valid; congruence|assumption].
      + right. exists [], x, u. repeat split; [constructor|assumption].
    - destruct (to_digit radix x) eqn:E.
      + right. exists (x :: pre), y, post. repeat split; [constructor; [unfold valid; congruence|assumption]|assumption].
      + right. exists [], x, (pre ++ y :: post). repeat split; [constructor|assumption]. }
  assert (Huniq : forall pre1 x1 post1 pre2 x2 post2,
             pre1 ++ x1 :: post1 = pre2 ++ x2 :: post2 ->
             Forall (valid radix) pre1 -> to_digit radix x1 = None ->
             Forall (valid radix) pre2 -> to_digit radix x2 = None -> x1 = x2).
  { induction pre1 as [|a pre1 IH]; intros x1 post1 pre2 x2 post2 E H1 Hx1 H2 Hx2.
    - destruct pre2 as [|b pre2]; [now injection E|].
      injection E as -> _. inversion H2 as [|? ? Hb _]; subst. contradiction.
    - destruct pre2 as [|b pre2].
      + injection E as -> _. inversion H1 as [|? ? Ha _]; subst. contradiction.
      + injection E as -> E. inversion H1; inversion H2; subst. eapply IH; eauto. }
  destruct (Hdec hd) as [Hhd|[pre [x [post [Ehd [Hpre Hx]]]]]].
  - (* first chunk valid *)
    destruct (first_chunk_ok radix hd Hr Hhd) as [E _]; [unfold k in Hlen; lia|]. rewrite E. cbn [obind].
    destruct (Hdec tl) as [Htl|[pre [x [post [Etl [Hpre Hx]]]]]].
    + destruct (scan_rest_ok radix tl 0 false Htl) as [st E2]. rewrite E2. cbn [obind fst snd].
      split.
      * destruct (f_is_finite _); discriminate.
      * intros [pre [post [Et [Hp Hc]]]]. exfalso.
        assert (Hall : Forall (valid radix) t) by (rewrite <- Happ; apply Forall_app; split; assumption).
        fold t in Et. rewrite Et in Hall. apply Forall_app in Hall. destruct Hall as [_ Hall].
        inversion Hall as [|? ? Hcv _]; subst. contradiction.
    + rewrite Etl, scan_rest_invalid by assumption. cbn [obind]. split.
      * intros H. injection H as <-. exists (hd ++ pre), post. fold t. rewrite <- Happ, Etl, <- app_assoc.
        repeat split; [apply Forall_app; split; assumption|assumption].
      * intros [pre2 [post2 [Et [Hp Hc]]]]. f_equal. f_equal. fold t in Et. rewrite <- Happ, Etl in Et.
        rewrite app_assoc in Et. eapply Huniq; [exact Et| | | |]; try assumption. apply Forall_app; split; assumption.
  - (* invalid digit inside the first chunk *)
    assert (Hb : (0 + 1) * radix ^ N.of_nat (length pre) <= u128_lim).
    { rewrite N.add_0_l, N.mul_1_l. etransitivity; [|apply (chunk_bound radix Hr)].
      apply N.pow_le_mono_r; [lia|]. rewrite Ehd, app_length in Hlen. unfold k in Hlen. lia. }
    assert (E : acc_u128 radix hd 0 = Err (RInvalidDigit x)).
    { rewrite Ehd. clear - Hpre Hx Hb Hpos. revert Hb. generalize 0 as acc.
      induction pre as [|a pre IH]; intros acc Hb.
      - cbn [app acc_u128]. now rewrite Hx.
      - inversion Hpre as [|? ? Ha Hp]; subst. unfold valid in Ha. cbn [app acc_u128].
        destruct (to_digit radix a) as [d|] eqn:Ed; [|contradiction].
        pose proof (to_digit_lt _ _ _ Ed) as Hd.
        cbn [length] in Hb. rewrite Nat2N.inj_succ, N.pow_succ_r' in Hb.
        assert (Hp' : 0 < radix ^ N.of_nat (length pre)) by (apply N.neq_0_lt_0, N.pow_nonzero; lia).
        replace (u128_lim <=? acc * radix + d) with false by (symmetry; apply N.leb_gt; nia).
        apply IH; [assumption|]. nia. }
    rewrite E. cbn [obind]. split.
    + intros H. injection H as <-. exists pre, (post ++ tl). fold t. rewrite <- Happ, Ehd, <- app_assoc.
      repeat split; assumption.
    + intros [pre2 [post2 [Et [Hp Hc]]]]. f_equal. f_equal. fold t in Et. rewrite <- Happ, Ehd, <- app_assoc in Et.
      cbn [app] in Et. eapply Huniq; [exact Et| | | |]; assumption.
Qed.

(* 3. the exact path: at most 32 hexadecimal / 42 octal significant digits *)
Theorem radix_value_exact : forall radix s, radix_ok radix -> s <> [] ->
  Forall (valid radix) (trim_zeros s) ->
  (length (trim_zeros s) <= N.to_nat (max_digits_128 radix))%nat ->
  parse_num_radix radix s = Ok (f_of_N (value radix (trim_zeros s))) /\
  value radix (trim_zeros s) < 2 ^ 128.
Proof.
  intros radix s Hr Hs Hv Hl. unfold parse_num_radix. destruct s as [|c0 s0]; [contradiction|].
  set (t := trim_zeros (c0 :: s0)) in *.
  rewrite (split_chars_short t _ Hl). cbn [fst snd].
  destruct (first_chunk_ok radix t Hr Hv Hl) as [E B]. rewrite E. cbn [obind scan_rest fst snd scale].
  assert (B128 : value radix t < 2 ^ 128).
  { eapply N.lt_le_trans; [exact B|]. etransitivity; [|apply (chunk_bound radix Hr)].
    apply N.pow_le_mono_r; [destruct Hr as [->| ->]; discriminate|lia]. }
  split; [|exact B128].
  assert (Hfin : f_is_finite (f_of_N (value radix t)) = true).
  { unfold f_of_N. apply f_of_Z_finite_small. rewrite Z.abs_eq by lia.
    change (2 ^ 128)%Z with (Z.of_N (2 ^ 128)). lia. }
  rewrite Hfin. reflexivity.
Qed.

