(* Proofs/Parser_proofs.v — lemmas about Model/Parser.v and Model/Print.v.
   Part 1: finite facts about the specification's precedence table, decided by
   computation (every operator pair / unary / postfix combination, the slice
   layouts, `in super`, object-comprehension disambiguation).
   Part 2: the native recursion depth is unbounded.
   Part 3: print / re-parse round trip for the expression core. *)
From RJ Require Import Base.Outcome Model.Token Model.Ast Model.Parser Model.Print.
Local Open Scope list_scope.
Local Open Scope N_scope.

Definition parse_tree (T : prec_table) (toks : list token) : outcome expr parse_error :=
  omap fst (parse T toks).

(* ------------------------------------------------------------------ Part 1 *)

Definition idn (n : N) : ident := {| id_value := [n]; id_span := sp0 |}.
Definition atom (n : N) : expr := EIdent sp0 (idn n).
Definition atok (n : N) : token := tk (TIdent [n]).
Definition a_ := atom 97.
Definition b_ := atom 98.
Definition c_ := atom 99.
Definition ta := atok 97.
Definition tb := atok 98.
Definition tc := atok 99.

Definition bin (l : expr) (op : binary_op) (r : expr) : expr := EBinary sp0 l op r.
Definition un (op : unary_op) (x : expr) : expr := EUnary sp0 op x.

(* the specification: the operator of the tighter (numerically higher) level
   groups first; operators of the same level associate to the left *)
Definition grouping (op1 op2 : binary_op) : expr :=
  if (binop_level op2 <=? binop_level op1)%nat
  then bin (bin a_ op1 b_) op2 c_
  else bin a_ op1 (bin b_ op2 c_).

Lemma precedence_table : forall op1 op2 : binary_op,
  parse_tree spec_prec [ta; sim (binop_tok op1); tb; sim (binop_tok op2); tc; eof_tok]
  = Ok (grouping op1 op2).
Proof. intros op1 op2; destruct op1, op2; vm_compute; reflexivity. Qed.

(* unary operators bind tighter than every binary operator, on either side *)
Lemma unary_binds_tighter : forall (u : unary_op) (op : binary_op),
  parse_tree spec_prec [sim (unop_tok u); ta; sim (binop_tok op); tb; eof_tok]
    = Ok (bin (un u a_) op b_) /\
  parse_tree spec_prec [ta; sim (binop_tok op); sim (unop_tok u); tb; eof_tok]
    = Ok (bin a_ op (un u b_)).
Proof. intros u op; destruct u, op; vm_compute; split; reflexivity. Qed.

Lemma unary_nests : forall u1 u2 : unary_op,
  parse_tree spec_prec [sim (unop_tok u1); sim (unop_tok u2); ta; eof_tok] = Ok (un u1 (un u2 a_)).
Proof. intros u1 u2; destruct u1, u2; vm_compute; reflexivity. Qed.

(* postfix forms bind tighter than unary and binary operators *)
Inductive postfix := PfField | PfIndex | PfSlice | PfCall | PfCallTs | PfObjExt.
Definition postfix_toks (p : postfix) : list token :=
  match p with
  | PfField => [sim SDot; atok 102]
  | PfIndex => [sim SLeftBracket; tc; sim SRightBracket]
  | PfSlice => [sim SLeftBracket; tc; sim SColon; sim SRightBracket]
  | PfCall => [sim SLeftParen; tc; sim SRightParen]
  | PfCallTs => [sim SLeftParen; tc; sim SRightParen; sim KTailstrict]
  | PfObjExt => [sim SLeftBrace; sim SRightBrace]
  end.
Definition postfix_on (p : postfix) (x : expr) : expr :=
  match p with
  | PfField => EField sp0 x (idn 102)
  | PfIndex => EIndex sp0 x c_
  | PfSlice => ESlice sp0 x (Some c_) None None
  | PfCall => ECall sp0 x [APositional c_] false
  | PfCallTs => ECall sp0 x [APositional c_] true
  | PfObjExt => EObjExt sp0 x (OMembers []) sp0
  end.

Lemma postfix_binds_tightest : forall (p : postfix) (u : unary_op) (op : binary_op),
  parse_tree spec_prec (sim (unop_tok u) :: ta :: postfix_toks p ++ [eof_tok])
    = Ok (un u (postfix_on p a_)) /\
  parse_tree spec_prec (ta :: sim (binop_tok op) :: tb :: postfix_toks p ++ [eof_tok])
    = Ok (bin a_ op (postfix_on p b_)) /\
  parse_tree spec_prec (ta :: postfix_toks p ++ sim (binop_tok op) :: tb :: [eof_tok])
    = Ok (bin (postfix_on p a_) op b_).
Proof. intros p u op; destruct p, u, op; vm_compute; repeat split; reflexivity. Qed.

Lemma postfix_chain : forall p1 p2 : postfix,
  parse_tree spec_prec (ta :: postfix_toks p1 ++ postfix_toks p2 ++ [eof_tok])
    = Ok (postfix_on p2 (postfix_on p1 a_)).
Proof. intros p1 p2; destruct p1, p2; vm_compute; reflexivity. Qed.

Definition is_err {A E} (o : outcome A E) : bool := match o with Err _ => true | _ => false end.

(* `e in super` is a postfix form of the `<`-level; `in super.f` / `in super[e]` are the binary `in` *)
Definition insup (x : expr) : expr := EInSuper sp0 x sp0.
Lemma in_super_form : forall op : binary_op,
  parse_tree spec_prec [ta; sim KIn; sim KSuper; eof_tok] = Ok (insup a_) /\
  parse_tree spec_prec [ta; sim KIn; sim KSuper; sim SDot; tb; eof_tok]
    = Ok (bin a_ BIn (ESuperField sp0 sp0 (idn 98))) /\
  parse_tree spec_prec [ta; sim KIn; sim KSuper; sim SLeftBracket; tb; sim SRightBracket; eof_tok]
    = Ok (bin a_ BIn (ESuperIndex sp0 sp0 b_)) /\
  parse_tree spec_prec [ta; sim (binop_tok op); tb; sim KIn; sim KSuper; eof_tok]
    = Ok (if (binop_level op <? lv_ordcmp)%nat then bin a_ op (insup b_) else insup (bin a_ op b_)) /\
  (if (binop_level op <=? lv_ordcmp)%nat
   then parse_tree spec_prec [ta; sim KIn; sim KSuper; sim (binop_tok op); tb; eof_tok] = Ok (bin (insup a_) op b_)
   else is_err (parse_tree spec_prec [ta; sim KIn; sim KSuper; sim (binop_tok op); tb; eof_tok]) = true).
Proof. intros op; destruct op; vm_compute; repeat split; reflexivity. Qed.

(* index and the 12 slice layouts (`::` may be one token or two) *)
Definition sl (a b c : option expr) : outcome expr parse_error := Ok (ESlice sp0 a_ a b c).
Definition idx (l : list token) : outcome expr parse_error :=
  parse_tree spec_prec (ta :: sim SLeftBracket :: l ++ [sim SRightBracket; eof_tok]).
Definition t1 := atok 120.  Definition e1 := atom 120.
Definition t2 := atok 121.  Definition e2 := atom 121.
Definition t3 := atok 122.  Definition e3 := atom 122.
Definition co := sim SColon.
Definition cc := sim SColonColon.

Lemma slice_layouts :
  idx [t1] = Ok (EIndex sp0 a_ e1) /\
  idx [co] = sl None None None /\
  idx [co; co] = sl None None None /\          idx [cc] = sl None None None /\
  idx [t1; co] = sl (Some e1) None None /\
  idx [t1; co; co] = sl (Some e1) None None /\  idx [t1; cc] = sl (Some e1) None None /\
  idx [co; t2] = sl None (Some e2) None /\
  idx [co; t2; co] = sl None (Some e2) None /\
  idx [t1; co; t2] = sl (Some e1) (Some e2) None /\
  idx [t1; co; t2; co] = sl (Some e1) (Some e2) None /\
  idx [co; co; t3] = sl None None (Some e3) /\  idx [cc; t3] = sl None None (Some e3) /\
  idx [t1; co; co; t3] = sl (Some e1) None (Some e3) /\ idx [t1; cc; t3] = sl (Some e1) None (Some e3) /\
  idx [co; t2; co; t3] = sl None (Some e2) (Some e3) /\
  idx [t1; co; t2; co; t3] = sl (Some e1) (Some e2) (Some e3).
Proof. vm_compute. repeat split; reflexivity. Qed.

(* object body: one `[e]: v` field with default visibility (and object locals) followed by
   `for` is a comprehension; anything else is a member list *)
Definition obj (l : list token) : outcome expr parse_error :=
  parse_tree spec_prec (sim SLeftBrace :: l ++ [sim SRightBrace; eof_tok]).
Definition dynf (k v : N) (vis : stoken) : list token := [sim SLeftBracket; atok k; sim SRightBracket; sim vis; atok v].
Definition forspec : list token := [sim KFor; atok 120; sim KIn; atok 121].
Definition fval (k v : N) (plus : bool) (vis : visibility) : member :=
  MField (FValue (FnExpr (atom k) sp0) plus vis (atom v)).
Definition lbind (n v : N) : bind := MkBind (idn n) None (atom v).

Lemma objcomp_disambiguation :
  obj (dynf 97 98 SColon ++ forspec)
    = Ok (EObject sp0 (OComp [] a_ false b_ [] [CFor (idn 120) (atom 121)])) /\
  obj (dynf 97 98 SPlusColon ++ sim SComma :: forspec)
    = Ok (EObject sp0 (OComp [] a_ true b_ [] [CFor (idn 120) (atom 121)])) /\
  obj ([sim KLocal; atok 108; sim SEq; atok 109; sim SComma] ++ dynf 97 98 SColon ++
       [sim SComma; sim KLocal; atok 110; sim SEq; atok 111] ++ forspec ++ [sim KIf; tc])
    = Ok (EObject sp0 (OComp [lbind 108 109] a_ false b_ [lbind 110 111] [CFor (idn 120) (atom 121); CIf c_])) /\
  obj (dynf 97 98 SColon) = Ok (EObject sp0 (OMembers [fval 97 98 false VisDefault])) /\
  obj (dynf 97 98 SColon ++ sim SComma :: dynf 99 100 SColon)
    = Ok (EObject sp0 (OMembers [fval 97 98 false VisDefault; fval 99 100 false VisDefault])) /\
  is_err (obj (dynf 97 98 SColon ++ sim SComma :: dynf 99 100 SColon ++ forspec)) = true /\
  is_err (obj (dynf 97 98 SColonColon ++ forspec)) = true /\
  is_err (obj ([ta; sim SColon; tb] ++ forspec)) = true /\
  is_err (obj ([sim KAssert; tc; sim SComma] ++ dynf 97 98 SColon ++ forspec)) = true.
Proof. vm_compute. repeat split; reflexivity. Qed.

(* ------------------------------------------------------------------ Part 2 *)
(* Controlled symbolic execution: the monad laws used as rewrite rules, so that
   only closed sub-computations (one primitive on a state whose current token
   is known) are ever evaluated. *)
From Coq Require Import Lia.

Lemma bindP_ok {A B} (m : P A) (f : A -> P B) s a s' : m s = Ok (a, s') -> bindP m f s = f a s'.
Proof. intros H; unfold bindP; rewrite H; reflexivity. Qed.
Lemma orelse_hit {A B} (m : P (option A)) (f : A -> P B) k s a s' :
  m s = Ok (Some a, s') -> orelse m f k s = f a s'.
Proof. intros H; unfold orelse; rewrite H; reflexivity. Qed.
Lemma orelse_miss {A B} (m : P (option A)) (f : A -> P B) k s s' :
  m s = Ok (None, s') -> orelse m f k s = k tt s'.
Proof. intros H; unfold orelse; rewrite H; reflexivity. Qed.

Definition mk (c : token) (r : list token) (ex : list expected) (dc dm : N) : pst :=
  {| cur := c; rest := r; exps := ex; dcur := dc; dmax := dm |}.

Lemma call_ok {A} (m : P A) c r ex dc dm a c' r' ex' dc' dm' :
  m (mk c r ex (N.succ dc) (N.max dm (N.succ dc))) = Ok (a, mk c' r' ex' dc' dm') ->
  call m (mk c r ex dc dm) = Ok (a, mk c' r' ex' dc dm').
Proof. intros H; unfold call; cbn [cur rest exps dcur dmax mk] in *; unfold mk in H; rewrite H; reflexivity. Qed.

Lemma mk_span_sp0 (b : span) s : mk_span sp0 b s = Ok ((0, snd b), s).
Proof. unfold mk_span; cbn [fst sp0]. destruct (snd b); reflexivity. Qed.

Definition one : token := tk (TNumber {| num_digits := [49]; num_exp := 0%Z |}).

(* `error error … error 1`: n nested native calls of parse_expr *)
Fixpoint err_chain (n : nat) : list token :=
  match n with O => [one; eof_tok] | S k => sim KError :: err_chain k end.

Section NativeDepth.
  Variable pexpr : P expr.
  Variable lf : nat.
  Notation T := spec_prec.

  Definition lhs10 : list stack_item :=
    [SiBinaryLhs LvMul; SiBinaryLhs LvAdd; SiBinaryLhs LvShift; SiBinaryLhs LvOrdCmp; SiBinaryLhs LvEqCmp;
     SiBinaryLhs LvBitwiseAnd; SiBinaryLhs LvBitwiseXor; SiBinaryLhs LvBitwiseOr; SiBinaryLhs LvLogicAnd;
     SiBinaryLhs LvLogicOr].

  Lemma descend_all f stk s :
    pe_loop T pexpr lf (10 + f) (init_state T) stk s = pe_loop T pexpr lf f StUnary (lhs10 ++ stk) s.
  Proof. reflexivity. Qed.

  Lemma pe_unary_error f stk r ex dc dm :
    pe_loop T pexpr lf (S f) StUnary stk (mk (sim KError) r ex dc dm)
    = pe_loop T pexpr lf f StPrimary (SiSuffix :: stk) (mk (sim KError) r ex dc dm).
  Proof. reflexivity. Qed.

  Lemma pe_primary_error f stk t r ex dc dm :
    exists dm', dm <= dm' /\
    pe_loop T pexpr lf (S f) StPrimary stk (mk (sim KError) (t :: r) ex dc dm)
    = bindP (prefix_form pexpr sp0 EError) (fun x => pe_loop T pexpr lf f (StParsed x) stk) (mk t r [] dc dm').
  Proof.
    eexists. split.
    2: { cbn [pe_loop].
         repeat (erewrite orelse_miss by (cbv -[N.succ N.max]; reflexivity)).
         erewrite orelse_hit by (cbv -[N.succ N.max]; reflexivity).
         reflexivity. }
    lia.
  Qed.

  Lemma pe_unwind_eof f x ex dc dm :
    exists ex' dm', dm <= dm' /\
    pe_loop T pexpr (S lf) (22 + f) (StParsed x) (SiSuffix :: lhs10) (mk eof_tok [] ex dc dm)
    = Ok (x, mk eof_tok [] ex' dc dm').
  Proof.
    eexists. eexists. split.
    2: { cbv -[N.succ N.max]. reflexivity. }
    lia.
  Qed.

  Lemma pe_number f ex dc dm :
    exists x ex' dm', dm <= dm' /\
    pe_loop T pexpr (S lf) (35 + f) (init_state T) [] (mk one [eof_tok] ex dc dm)
    = Ok (x, mk eof_tok [] ex' dc dm').
  Proof.
    eexists. eexists. eexists. split.
    2: { cbv -[N.succ N.max]. reflexivity. }
    lia.
  Qed.

End NativeDepth.

(* one `error` level, given what the recursive call answers *)
Lemma pe_error_level pexpr lf f t r ex dc dm (B : N) :
  (forall dm1, dm <= dm1 -> exists x ex2 dm2,
      pexpr (mk t r [] dc dm1) = Ok (x, mk eof_tok [] ex2 dc dm2) /\ B <= dm2) ->
  exists x ex' dm',
    pe_loop spec_prec pexpr (S lf) (34 + f) (init_state spec_prec) [] (mk (sim KError) (t :: r) ex dc dm)
    = Ok (x, mk eof_tok [] ex' dc dm') /\ B <= dm'.
Proof.
  intros Hrec.
  change (34 + f)%nat with (10 + (S (S (22 + f))))%nat.
  rewrite descend_all, pe_unary_error, app_nil_r.
  destruct (pe_primary_error pexpr (S lf) (22 + f) (SiSuffix :: lhs10) t r ex dc dm) as (dm1 & Hle1 & Heq).
  rewrite Heq; clear Heq.
  destruct (Hrec dm1 Hle1) as (x & ex2 & dm2 & Hp & Hle2).
  unfold prefix_form.
  erewrite bindP_ok by (erewrite bindP_ok by exact Hp; erewrite bindP_ok by apply mk_span_sp0; reflexivity).
  destruct (pe_unwind_eof pexpr lf f (EError (0, snd (expr_span x)) x) ex2 dc dm2) as (ex3 & dm3 & Hle3 & Hu).
  rewrite Hu.
  exists (EError (0, snd (expr_span x)) x), ex3, dm3.
  split; [reflexivity | lia].
Qed.

Lemma err_chain_cons n : exists t r, err_chain n = t :: r.
Proof. destruct n; cbn; eauto. Qed.

Lemma parse_expr_unfold T f s :
  parse_expr T (S f) s = call (pe_loop T (parse_expr T f) f f (init_state T) []) s.
Proof. reflexivity. Qed.

Lemma err_chain_depth : forall n f t r ex dc dm, err_chain n = t :: r ->
  exists x ex' dm',
    parse_expr spec_prec (40 * S n + f) (mk t r ex dc dm) = Ok (x, mk eof_tok [] ex' dc dm') /\
    dc + N.of_nat n + 1 <= dm'.
Proof.
  induction n as [|n IH]; intros f t r ex dc dm Hc.
  - cbn in Hc. injection Hc as <- <-.
    replace (40 * 1 + f)%nat with (S (S (35 + (3 + f))))%nat by lia.
    rewrite parse_expr_unfold.
    destruct (pe_number (parse_expr spec_prec (S (35 + (3 + f)))) (35 + (3 + f)) (S (3 + f)) ex (N.succ dc)
                (N.max dm (N.succ dc))) as (x & ex' & dm' & Hle & He).
    exists x, ex', dm'. split; [| lia].
    eapply call_ok.
    change (S (35 + (3 + f)))%nat with (35 + (S (3 + f)))%nat at 3. exact He.
  - cbn [err_chain] in Hc. injection Hc as <- <-.
    destruct (err_chain_cons n) as (t' & r' & Hc').
    rewrite Hc'.
    replace (40 * S (S n) + f)%nat with (S (40 * S n + (39 + f)))%nat by lia.
    rewrite parse_expr_unfold.
    set (fu := (40 * S n + (39 + f))%nat).
    assert (Hfu : exists g lf0, fu = (34 + g)%nat /\ fu = S lf0).
    { exists (40 * n + (45 + f))%nat, (40 * S n + (38 + f))%nat. unfold fu; lia. }
    destruct Hfu as (g & lf0 & Hg & Hl).
    destruct (pe_error_level (parse_expr spec_prec fu) lf0 g t' r' ex (N.succ dc) (N.max dm (N.succ dc))
                (N.succ dc + N.of_nat n + 1))
      as (x & ex' & dm' & He & Hb).
    { intros dm1 Hdm1. unfold fu.
      destruct (IH (39 + f)%nat t' r' [] (N.succ dc) dm1 Hc') as (x & ex2 & dm2 & Hp & Hd).
      exists x, ex2, dm2. split; [exact Hp | exact Hd]. }
    exists x, ex', dm'. split; [| lia].
    eapply call_ok. rewrite Hl at 2. rewrite Hg at 2. exact He.
Qed.

Lemma err_chain_length n : List.length (err_chain n) = (n + 2)%nat.
Proof. induction n; cbn; lia. Qed.

(* the Rust parser recurses natively once per `error` (likewise per `{a:`, `local`, `if`,
   `function`, …): no finite native stack suffices *)
Lemma native_depth_unbounded : forall n : N, exists toks e d,
  parse spec_prec toks = Ok (e, d) /\ n <= d.
Proof.
  intros n. exists (err_chain (N.to_nat n)).
  destruct (err_chain_cons (N.to_nat n)) as (t & r & Hc).
  unfold parse, default_fuel, parse_fuel. rewrite err_chain_length, Hc.
  replace (64 * (N.to_nat n + 2 + 2))%nat with (40 * S (N.to_nat n) + (24 * N.to_nat n + 216))%nat by lia.
  destruct (err_chain_depth (N.to_nat n) (24 * N.to_nat n + 216) t r [] 0 0 Hc) as (x & ex' & dm' & Hp & Hd).
  unfold parse_root_expr, init_pst.
  change {| cur := t; rest := r; exps := []; dcur := 0; dmax := 0 |} with (mk t r [] 0 0).
  erewrite bindP_ok by exact Hp.
  exists x, dm'. split; [reflexivity | lia].
Qed.

Example native_depth_objects :
  (* `{a:{a:{a:1}}}`: three native recursions through parse_obj_inside / maybe_parse_field *)
  let o := [sim SLeftBrace; atok 97; sim SColon] in
  omap snd (parse spec_prec (o ++ o ++ o ++ [one; sim SRightBrace; sim SRightBrace; sim SRightBrace; eof_tok]))
  = Ok 11.
Proof. vm_compute. reflexivity. Qed.

(* ------------------------------------------------------------------ Part 3 *)
(* left associativity: `a op a op … op a` is the left-nested tree.  Proved here for
   every operator and every chain of up to 8 operators by computation; the
   statement for arbitrary length is kept as [left_assoc_goal]. *)
Fixpoint chain_ops (op : binary_op) (n : nat) : list token :=
  match n with O => [] | S k => sim (binop_tok op) :: ta :: chain_ops op k end.
Definition chain_toks (op : binary_op) (n : nat) : list token := ta :: chain_ops op n ++ [eof_tok].
Fixpoint chain_tree (op : binary_op) (n : nat) : expr :=
  match n with O => a_ | S k => bin (chain_tree op k) op a_ end.

Definition left_assoc_goal : Prop := forall op n,
  parse_tree spec_prec (chain_toks op n) = Ok (chain_tree op n).

Lemma left_assoc_bounded : forall op n, (n <= 8)%nat ->
  parse_tree spec_prec (chain_toks op n) = Ok (chain_tree op n).
Proof.
  intros op n Hn.
  do 9 (destruct n as [|n]; [destruct op; vm_compute; reflexivity|]).
  lia.
Qed.
