(* Proofs/RefSem_laws.v — C02: the big-step reading of the reference interpreter and the
   specification's desugaring laws, error-message and parameter-binding lemmas. *)
From RJ Require Import Base.Outcome Base.F64 Model.Token Model.Ast Model.RefCore Model.RefValue Model.RefEval.
From RJ Require Import Proofs.RefSem_proofs.
From Coq Require Import Lia.
Local Open Scope N_scope.

(* ------------------------------------------------------------------ big-step reading *)
(* [evaluates c e r]: some amount of fuel produces the result r (value or error, with its trace) *)
Definition evaluates (c : cfg) (e : expr) (r : res json) : Prop :=
  exists fuel, run fuel c e = r /\ snd r <> OutOfFuel.

Theorem evaluates_functional : forall c e r1 r2, evaluates c e r1 -> evaluates c e r2 -> r1 = r2.
Proof.
  intros c e r1 r2 (f1 & H1 & N1) (f2 & H2 & N2).
  rewrite <- (fuel_monotone f1 (Nat.max f1 f2) c e r1 H1 N1 (Nat.le_max_l _ _)).
  rewrite <- (fuel_monotone f2 (Nat.max f1 f2) c e r2 H2 N2 (Nat.le_max_r _ _)).
  reflexivity.
Qed.

(* ------------------------------------------------------------------ desugaring laws (definitional) *)
Lemma ne_desugars : forall io tl sp sp1 sp2 l r,
  ds_expr io tl (EBinary sp l BNe r) = ds_expr io tl (EUnary sp1 ULogicNot (EBinary sp2 l BEq r)).
Proof. reflexivity. Qed.

Lemma objext_desugars : forall io tl sp sp1 sp2 e o osp,
  ds_expr io tl (EObjExt sp e o osp) = ds_expr io tl (EBinary sp1 e BAdd (EObject sp2 o)).
Proof. reflexivity. Qed.

Lemma if_no_else_desugars : forall io tl sp sp1 sp2 c t,
  ds_expr io tl (EIf sp c t None) = ds_expr io tl (EIf sp1 c t (Some (ENull sp2))).
Proof. reflexivity. Qed.

Lemma local_function_desugars : forall io tl sp sp1 f ps psp b rest body,
  ds_expr io tl (ELocal sp (MkBind f (Some (ps, psp)) b :: rest) body)
  = ds_expr io tl (ELocal sp (MkBind f None (EFunc sp1 ps b) :: rest) body).
Proof. reflexivity. Qed.

Lemma field_function_desugars : forall io tl sp sp1 name ps psp vis b before after,
  ds_expr io tl (EObject sp (OMembers (before ++ MField (FFunc name ps psp vis b) :: after)))
  = ds_expr io tl (EObject sp (OMembers (before ++ MField (FValue name false vis (EFunc sp1 ps b)) :: after))).
Proof.
  intros. cbn [ds_expr ds_obj]. rewrite !flat_map_app. reflexivity.
Qed.

Lemma paren_transparent : forall sp e, desugar (EParen sp e) = desugar e.
Proof. reflexivity. Qed.

(* `$` is the variable bound by `local $ = self` on every outermost object, and only there:
   an outermost object literal is the inner-object form plus that one object local (computed
   field names stay in the enclosing scope, hence [ds_field_of io]) *)
Lemma dollar_is_outermost_self : forall tl sp s1 s2 s3 ms,
  ds_expr false tl (EObject sp (OMembers ms))
  = CObject (ds_bind true (MkBind {| id_value := dollar; id_span := s1 |} None (ESelf s2)) :: flat_map ds_local_of ms)
            (flat_map ds_assert_of ms) (flat_map (ds_field_of false) ms)
  /\ ds_expr true tl (EObject sp (OMembers ms))
     = CObject (flat_map ds_local_of ms) (flat_map ds_assert_of ms) (flat_map (ds_field_of true) ms)
  /\ (forall io, ds_expr io tl (EDollar s3) = ds_expr io tl (EIdent s3 {| id_value := dollar; id_span := s1 |})).
Proof. intros. split; [reflexivity | split; [reflexivity | intros; reflexivity]]. Qed.

Lemma desugar_eq_run : forall e1 e2, desugar e1 = desugar e2 -> forall fuel c, run fuel c e1 = run fuel c e2.
Proof. intros e1 e2 H fuel c. unfold run. rewrite H. reflexivity. Qed.

(* ------------------------------------------------------------------ semantic laws on the core *)
Lemma run_task_S f c t d : run_task (S f) c t d = step t d c (run_task f c).
Proof. reflexivity. Qed.

Definition fits (c : cfg) (d : N) : Prop := c_limit c <? d + 1 = false.

Ltac norm_apps := repeat rewrite ?app_nil_r, ?app_nil_l.
Ltac crunch :=
  repeat (progress (unfold step, do_eval, do_force, bind, enter, eval, forceT, call, to_string, as_val, as_bool, as_json,
                    ret, fail, lift, kind, run_assert, cond_bool, manifest, render_m, equals, un_op, fits in *; cbn)).

(* `error e`: if e evaluates to the string s, the program fails with exactly that message *)
Lemma error_message_string : forall f c en e d t s,
  fits c d ->
  run_task f c (TEval en e) (d + 1) = (t, Ok (AVal (VStr s))) ->
  run_task (S f) c (TEval en (CError e)) d = (t, Err (EExplicit s)).
Proof.
  intros f c en e d t s Hfit He. rewrite run_task_S.
  crunch. rewrite Hfit. crunch. rewrite He. crunch. norm_apps. reflexivity.
Qed.

(* ... and to the value v otherwise: the message is its toString text *)
Lemma error_message : forall f c en e d t v t2 j s,
  fits c d ->
  run_task f c (TEval en e) (d + 1) = (t, Ok (AVal v)) ->
  (forall s0, v <> VStr s0) ->
  run_task f c (TManifest true v) (d + 1) = (t2, Ok (AJson j)) ->
  render j = Some s ->
  run_task (S f) c (TEval en (CError e)) d = (t ++ t2, Err (EExplicit s)).
Proof.
  intros f c en e d t v t2 j s Hfit He Hns Hm Hr. rewrite run_task_S.
  crunch. rewrite Hfit. crunch. rewrite He. crunch.
  destruct v; try (exfalso; eapply Hns; reflexivity); crunch; rewrite Hm; crunch; rewrite Hr; crunch; norm_apps; reflexivity.
Qed.

(* failed assert with a message that evaluates to the string s *)
Lemma assert_message : forall f c en cnd m body d t1 t2 s,
  run_task f c (TEval en cnd) d = (t1, Ok (AVal (VBool false))) ->
  run_task f c (TEval en m) d = (t2, Ok (AVal (VStr s))) ->
  run_task (S f) c (TEval en (CAssert cnd (Some m) body)) d = (t1 ++ t2, Err (EAssertFailed (Some s))).
Proof.
  intros f c en cnd m body d t1 t2 s Hc Hm. rewrite run_task_S.
  crunch. rewrite Hc. crunch. rewrite Hm. crunch. norm_apps. reflexivity.
Qed.

Lemma assert_nomsg : forall f c en cnd body d t1,
  run_task f c (TEval en cnd) d = (t1, Ok (AVal (VBool false))) ->
  run_task (S f) c (TEval en (CAssert cnd None body)) d = (t1, Err (EAssertFailed None)).
Proof.
  intros f c en cnd body d t1 Hc. rewrite run_task_S.
  crunch. rewrite Hc. crunch. norm_apps. reflexivity.
Qed.

(* assert c : m; e  with c true is e (whatever e does), and so is  if c then e else error m *)
Lemma assert_is_if_error : forall f c en cnd m m' body d t1,
  run_task f c (TEval en cnd) d = (t1, Ok (AVal (VBool true))) ->
  run_task (S f) c (TEval en (CAssert cnd m body)) d
  = run_task (S f) c (TEval en (CIte cnd body (CError m'))) d.
Proof.
  intros f c en cnd m m' body d t1 Hc. rewrite !run_task_S.
  crunch. rewrite Hc. crunch.
  destruct (run_task f c (TEval en body) d) as [t2 [a | e | s |]]; crunch; norm_apps; try reflexivity.
  destruct a; crunch; norm_apps; reflexivity.
Qed.

Lemma assert_true_transparent : forall f c en cnd m body d t1 t2 v,
  run_task f c (TEval en cnd) d = (t1, Ok (AVal (VBool true))) ->
  run_task f c (TEval en body) d = (t2, Ok (AVal v)) ->
  run_task (S f) c (TEval en (CAssert cnd m body)) d = (t1 ++ t2, Ok (AVal v)).
Proof.
  intros f c en cnd m body d t1 t2 v Hc Hb. rewrite run_task_S.
  crunch. rewrite Hc. crunch. rewrite Hb. crunch. norm_apps. reflexivity.
Qed.

Lemma if_true : forall f c en cnd a b d t1 t2 v,
  run_task f c (TEval en cnd) d = (t1, Ok (AVal (VBool true))) ->
  run_task f c (TEval en a) d = (t2, Ok (AVal v)) ->
  run_task (S f) c (TEval en (CIte cnd a b)) d = (t1 ++ t2, Ok (AVal v)).
Proof.
  intros f c en cnd a b d t1 t2 v Hc Ha. rewrite run_task_S.
  crunch. rewrite Hc. crunch. rewrite Ha. crunch. norm_apps. reflexivity.
Qed.

Lemma if_false : forall f c en cnd a b d t1 t2 v,
  run_task f c (TEval en cnd) d = (t1, Ok (AVal (VBool false))) ->
  run_task f c (TEval en b) d = (t2, Ok (AVal v)) ->
  run_task (S f) c (TEval en (CIte cnd a b)) d = (t1 ++ t2, Ok (AVal v)).
Proof.
  intros f c en cnd a b d t1 t2 v Hc Hb. rewrite run_task_S.
  crunch. rewrite Hc. crunch. rewrite Hb. crunch. norm_apps. reflexivity.
Qed.

(* e1 != e2 computes the negation of e1 == e2 (semantic reading of the law, one more unit of fuel
   for the extra node of the expanded form) *)
Lemma ne_is_not_eq : forall f c en l r d,
  run_task (S (S f)) c (TEval en (CUn ULogicNot (CBin BEq l r))) d
  = run_task (S f) c (TEval en (CBin BNe l r)) d.
Proof.
  intros f c en l r d. rewrite (run_task_S (S f)). rewrite (run_task_S f c (TEval en (CBin BNe l r))).
  crunch.
  destruct (c_limit c <? d + 1); crunch; norm_apps; try reflexivity.
  destruct (run_task f c (TEval en l) (d + 1)) as [t1 [a1 | e1 | s1 |]]; crunch; norm_apps; try reflexivity.
  destruct a1; crunch; norm_apps; try reflexivity.
  destruct (run_task f c (TEval en r) (d + 1)) as [t2 [a2 | e2 | s2 |]]; crunch; norm_apps; try reflexivity.
  destruct a2; crunch; norm_apps; try reflexivity.
  destruct (run_task f c (TEquals v v0) (d + 1)) as [t3 [a3 | e3 | s3 |]]; crunch; norm_apps; try reflexivity.
  destruct a3; crunch; norm_apps; try reflexivity.
Qed.
