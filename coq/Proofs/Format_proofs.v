(* Proofs/Format_proofs.v — lemmas about Model/Format.v *)
From RJ Require Import Base.Outcome Base.F64 Model.Format.
From Coq Require Import Lia.
Local Open Scope N_scope.

(* pinned tree: the padding test compares the BYTE length with the width *)
Lemma pad_reaches_width_refuted :
  exists s w l, lenN (field_pad s w l) < w.
Proof. exists [26085; 26412], 5, true. vm_compute. reflexivity. Qed.

Lemma prec_limit_refuted :
  exists fmt a, is_panic (format_run fmt a) = true.
Proof.
  exists [37; 46; 55; 48; 48; 48; 48; 102], (ASingle (VNum (f_of_Z 1))).
  vm_compute. reflexivity.
Qed.
