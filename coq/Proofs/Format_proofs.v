(* Proofs/Format_proofs.v — lemmas about Model/Format.v (std.format / %). *)
From RJ Require Import Base.Outcome Base.F64 Model.Format.
From Coq Require Import Lia Floats.SpecFloat.
Local Open Scope N_scope.

Arguments N.add : simpl never.
Arguments N.sub : simpl never.
Arguments N.mul : simpl never.
Arguments N.div : simpl never.
Arguments N.modulo : simpl never.
Arguments N.ltb : simpl never.
Arguments N.leb : simpl never.
Arguments N.eqb : simpl never.
Arguments N.max : simpl never.
Arguments N.min : simpl never.
Arguments N.pow : simpl never.
Arguments Z.mul : simpl never.
Arguments Z.add : simpl never.
Arguments Z.sub : simpl never.
Arguments Z.pow : simpl never.
Arguments Z.div : simpl never.
Arguments Z.modulo : simpl never.

(* ------------------------------------------------------------ lengths *)

Lemma lenN_app {A} (a b : list A) : lenN (a ++ b) = lenN a + lenN b.
Proof. unfold lenN. rewrite app_length. lia. Qed.

Lemma lenN_cons {A} (x : A) l : lenN (x :: l) = 1 + lenN l.
Proof. unfold lenN. cbn [length]. lia. Qed.

Lemma lenN_nil {A} : lenN (@nil A) = 0.
Proof. reflexivity. Qed.

Lemma repeatN_succ c n : repeatN c (N.succ n) = c :: repeatN c n.
Proof. unfold repeatN. rewrite N.iter_succ. reflexivity. Qed.

Lemma repeatN_0 c : repeatN c 0 = [].
Proof. reflexivity. Qed.

Lemma lenN_repeatN c n : lenN (repeatN c n) = n.
Proof.
  induction n as [|n IH] using N.peano_ind.
  - reflexivity.
  - rewrite repeatN_succ, lenN_cons, IH. lia.
Qed.

Lemma repeatN_add c a b : repeatN c (a + b) = repeatN c a ++ repeatN c b.
Proof.
  induction a as [|a IH] using N.peano_ind.
  - reflexivity.
  - replace (N.succ a + b) with (N.succ (a + b)) by lia.
    rewrite !repeatN_succ, IH. reflexivity.
Qed.

Lemma repeatN_all c n : Forall (fun x => x = c) (repeatN c n).
Proof.
  induction n as [|n IH] using N.peano_ind.
  - constructor.
  - rewrite repeatN_succ. constructor; auto.
Qed.

(* ------------------------------------------------------------ padding *)

(* a rendered field is never shorter than its width, counted in characters *)
Lemma pad_reaches_width s w l : w <= lenN (field_pad s w l).
Proof.
  unfold field_pad. destruct (lenN s <? w) eqn:H.
  - apply N.ltb_lt in H. destruct l; rewrite lenN_app, lenN_repeatN; lia.
  - apply N.ltb_ge in H. exact H.
Qed.

(* and it is exactly the field when that is already wide enough, else exactly [w] long *)
Lemma pad_length s w l : lenN (field_pad s w l) = N.max w (lenN s).
Proof.
  unfold field_pad. destruct (lenN s <? w) eqn:H.
  - apply N.ltb_lt in H. destruct l; rewrite lenN_app, lenN_repeatN; lia.
  - apply N.ltb_ge in H. lia.
Qed.

(* the pinned tree (before /repo 0ba7637) tested the BYTE length *)
Definition field_pad_bytes (s : str) (fwv : N) (left : bool) : str :=
  if utf8_len s <? fwv then
    let pad_len := fwv - lenN s in
    if left then s ++ repeatN 32 pad_len else repeatN 32 pad_len ++ s
  else s.

Lemma pad_reaches_width_refuted : exists s w l, lenN (field_pad_bytes s w l) < w.
Proof. exists [26085; 26412], 5, true. vm_compute. reflexivity. Qed.

(* core::fmt refuses precisions above u16::MAX: the reason for /repo a32ed0a *)
Lemma fmt_prec_limit : exists x p, is_panic (fmt_fixed x p) = true /\ is_panic (fmt_exp x p) = true.
Proof. exists (f_of_Z 1), 70000. vm_compute. split; reflexivity. Qed.

(* ------------------------------------------------------------ decorate *)

Lemma lenN_sign_prefix n p b : lenN (sign_prefix n p b) <= 1.
Proof. unfold sign_prefix. destruct n, p, b; cbn; lia. Qed.

Lemma decorate_min_width digits neg mc md sg bl :
  mc <= lenN (decorate_digits digits neg mc md sg bl) /\
  lenN (sign_prefix neg sg bl) + md <= lenN (decorate_digits digits neg mc md sg bl) /\
  exists pad, decorate_digits digits neg mc md sg bl = sign_prefix neg sg bl ++ repeatN 48 pad ++ digits.
Proof.
  unfold decorate_digits. rewrite !lenN_app, lenN_repeatN.
  repeat split; try lia. eexists. reflexivity.
Qed.

Lemma render_int_min_width neg mag mc md bl pl radix zp :
  mc <= lenN (render_int neg mag mc md bl pl radix zp) /\
  lenN (sign_prefix neg pl bl) + md <= lenN (render_int neg mag mc md bl pl radix zp).
Proof. unfold render_int. rewrite !lenN_app, lenN_repeatN. split; lia. Qed.

Lemma render_hex_min_width neg mag mc md bl pl zx cap :
  mc <= lenN (render_hex neg mag mc md bl pl zx cap) /\
  lenN (sign_prefix neg pl bl) + md <= lenN (render_hex neg mag mc md bl pl zx cap).
Proof. unfold render_hex. rewrite !lenN_app, lenN_repeatN. split; lia. Qed.

(* ------------------------------------------------------------ radix digits *)

(* the number denoted by a digit list, most significant first *)
Definition digits_value (r : N) (ds : list N) : N := fold_left (fun a d => a * r + d) ds 0.

Lemma fold_value_app r l1 l2 a :
  fold_left (fun a d => a * r + d) (l1 ++ l2) a =
  fold_left (fun a d => a * r + d) l2 (fold_left (fun a d => a * r + d) l1 a).
Proof. apply fold_left_app. Qed.

Lemma digits_value_snoc r l d : digits_value r (l ++ [d]) = digits_value r l * r + d.
Proof. unfold digits_value. rewrite fold_left_app. reflexivity. Qed.

Lemma size_nat_bound n : n < 2 ^ N.of_nat (N.size_nat n).
Proof.
  destruct n as [|p]; [reflexivity|]. cbn [N.size_nat].
  induction p as [p IH|p IH|]; cbn [Pos.size_nat].
  - rewrite Nat2N.inj_succ, N.pow_succ_r'. change (N.pos p~1) with (2 * N.pos p + 1). lia.
  - rewrite Nat2N.inj_succ, N.pow_succ_r'. change (N.pos p~0) with (2 * N.pos p). lia.
  - reflexivity.
Qed.

(* what the loop prepends to [acc] *)
Lemma radix_loop_spec r (Hr : 2 <= r) : forall fuel n acc,
  n < 2 ^ N.of_nat fuel ->
  exists pre, radix_loop fuel r n acc = pre ++ acc /\
              digits_value r pre = n /\
              Forall (fun d => d < r) pre /\
              (n = 0 -> pre = []) /\
              (0 < n -> exists d t, pre = d :: t /\ 0 < d).
Proof.
  induction fuel as [|f IH]; intros n acc Hn.
  - cbn in Hn. assert (n = 0) by lia. subst. exists []. repeat split; auto. intros; lia.
  - cbn [radix_loop]. destruct (n =? 0) eqn:E.
    + apply N.eqb_eq in E. subst. exists []. repeat split; auto. intros; lia.
    + apply N.eqb_neq in E.
      assert (Hdiv : n / r < 2 ^ N.of_nat f).
      { rewrite Nat2N.inj_succ, N.pow_succ_r' in Hn.
        apply N.div_lt_upper_bound; [lia|].
        apply N.lt_le_trans with (2 * 2 ^ N.of_nat f); [exact Hn|].
        apply N.mul_le_mono_r. exact Hr. }
      destruct (IH (n / r) (n mod r :: acc) Hdiv) as (pre & Heq & Hval & Hall & Hz & Hnz).
      exists (pre ++ [n mod r]). repeat split.
      * rewrite Heq, <- app_assoc. reflexivity.
      * rewrite digits_value_snoc, Hval.
        pose proof (N.div_mod n r ltac:(lia)). lia.
      * apply Forall_app. split; [exact Hall|]. constructor; [|constructor].
        apply N.mod_lt. lia.
      * intros; lia.
      * intros _. destruct (N.eq_dec (n / r) 0) as [Hq|Hq].
        -- rewrite (Hz Hq). cbn [app]. exists (n mod r), []. split; [reflexivity|].
           pose proof (N.div_mod n r ltac:(lia)). rewrite Hq in H. lia.
        -- destruct (Hnz ltac:(lia)) as (d & t & Hp & Hd). subst pre.
           exists d, (t ++ [n mod r]). split; [reflexivity|exact Hd].
Qed.

(* for every radix >= 2 and every magnitude: the digits denote the number, each is a
   digit of the radix, and there is no leading zero *)
Lemma radix_digits_value r n : 2 <= r ->
  digits_value r (radix_digits r n) = n /\
  Forall (fun d => d < r) (radix_digits r n) /\
  (0 < n -> exists d t, radix_digits r n = d :: t /\ 0 < d).
Proof.
  intros Hr. unfold radix_digits.
  assert (Hn : n < 2 ^ N.of_nat (S (N.size_nat n))).
  { rewrite Nat2N.inj_succ, N.pow_succ_r'. pose proof (size_nat_bound n). lia. }
  destruct (radix_loop_spec r Hr _ n [] Hn) as (pre & Heq & Hval & Hall & _ & Hnz).
  rewrite Heq, app_nil_r. auto.
Qed.

(* ------------------------------------------------------------ parser totality *)

Definition is_parse_err (e : ferr) : bool :=
  match e with
  | ETruncated | EWidthTooLarge | EPrecTooLarge | EMissingPrecDigits | EBadConv _ => true
  | _ => false
  end.

(* a sub-parser result: Ok with a remainder no longer than [n], or a format-string error *)
Definition good {A} (n : nat) (r : res (A * str)) : Prop :=
  match r with
  | Ok (_, t) => (length t <= n)%nat
  | Err e => is_parse_err e = true
  | _ => False
  end.

Lemma find_char_len c s b t : find_char c s = Some (b, t) -> (length t < length s)%nat.
Proof.
  revert b t. induction s as [|a r IH]; intros b t H; cbn [find_char] in H; [discriminate|].
  destruct (a =? c).
  - inversion H; subst. cbn. lia.
  - destruct (find_char c r) as [[b' t']|] eqn:E; [|discriminate].
    inversion H; subst. specialize (IH _ _ eq_refl). cbn. lia.
Qed.

Lemma starts_with_len c s r : starts_with c s = Some r -> (length r < length s)%nat.
Proof.
  destruct s as [|a t]; cbn; [discriminate|]. destruct (a =? c); [|discriminate].
  intros H; inversion H; subst. lia.
Qed.

Lemma parse_mkey_good rem : good (length rem) (parse_mkey rem).
Proof.
  unfold parse_mkey. destruct rem as [|a r]; cbn [good]; [lia|].
  destruct (a =? 40).
  - destruct (find_char 41 r) as [[k t]|] eqn:E; cbn [good]; [|reflexivity].
    apply find_char_len in E. cbn. lia.
  - cbn. lia.
Qed.

Lemma parse_cflags_len fl rem : (length (snd (parse_cflags fl rem)) <= length rem)%nat.
Proof.
  revert fl. induction rem as [|a r IH]; intros fl; cbn [parse_cflags]; [cbn; lia|].
  repeat (match goal with |- context [if ?b then _ else _] => destruct b end;
          [etransitivity; [apply IH|cbn; lia]|]).
  cbn. lia.
Qed.

Lemma take_digits_len rem : (length (snd (take_digits rem)) <= length rem)%nat.
Proof.
  induction rem as [|a r IH]; cbn [take_digits]; [cbn; lia|].
  destruct (is_digit a); [|cbn; lia].
  destruct (take_digits r) as [d t]. cbn in *. lia.
Qed.

Lemma parse_field_width_good rem : good (length rem) (parse_field_width rem).
Proof.
  unfold parse_field_width. destruct (starts_with 42 rem) as [r|] eqn:E.
  - apply starts_with_len in E. cbn. lia.
  - pose proof (take_digits_len rem) as H. destruct (take_digits rem) as [ds t]. cbn [snd] in H.
    destruct ds; [cbn; lia|].
    destruct (u32_max <? _); cbn; [reflexivity|exact H].
Qed.

Lemma parse_prec_good rem : good (length rem) (parse_prec rem).
Proof.
  unfold parse_prec. destruct (starts_with 46 rem) as [rc|] eqn:E; [|cbn; lia].
  apply starts_with_len in E.
  destruct (starts_with 42 rc) as [r|] eqn:E2.
  - apply starts_with_len in E2. cbn. lia.
  - pose proof (take_digits_len rc) as H. destruct (take_digits rc) as [ds t]. cbn [snd] in H.
    destruct ds.
    + destruct rc; cbn; reflexivity.
    + destruct (u32_max <? _); cbn; [reflexivity|lia].
Qed.

Lemma parse_len_mod_len rem : (length (snd (parse_len_mod rem)) <= length rem)%nat.
Proof.
  unfold parse_len_mod.
  destruct (starts_with 104 rem) eqn:E1; [apply starts_with_len in E1; cbn; lia|].
  destruct (starts_with 108 rem) eqn:E2; [apply starts_with_len in E2; cbn; lia|].
  destruct (starts_with 76 rem) eqn:E3; [apply starts_with_len in E3; cbn; lia|].
  cbn. lia.
Qed.

Lemma parse_conv_type_good rem : good (length rem) (parse_conv_type rem).
Proof.
  unfold parse_conv_type. destruct rem as [|c r]; [reflexivity|].
  destruct (conv_of_char c); cbn; [lia|reflexivity].
Qed.

Lemma parse_code_good rem : good (length rem) (parse_code rem).
Proof.
  unfold parse_code.
  pose proof (parse_mkey_good rem) as H1.
  destruct (parse_mkey rem) as [[mk r1]|e| |]; cbn [obind good] in *; try assumption.
  pose proof (parse_cflags_len no_flags r1) as H2.
  destruct (parse_cflags no_flags r1) as [fl r2]. cbn [snd] in H2.
  pose proof (parse_field_width_good r2) as H3.
  destruct (parse_field_width r2) as [[w r3]|e| |]; cbn [obind good] in *; try assumption.
  pose proof (parse_prec_good r3) as H4.
  destruct (parse_prec r3) as [[p r4]|e| |]; cbn [obind good] in *; try assumption.
  pose proof (parse_len_mod_len r4) as H5.
  destruct (parse_len_mod r4) as [lm r5]. cbn [snd] in H5.
  pose proof (parse_conv_type_good r5) as H6.
  destruct (parse_conv_type r5) as [[ct r6]|e| |]; cbn [obind good] in *; try assumption.
  lia.
Qed.

Definition parse_outcome_ok (r : res (list part)) : Prop :=
  match r with
  | Ok _ => True
  | Err e => is_parse_err e = true
  | _ => False
  end.

Lemma parse_codes_total : forall fuel rem, (length rem < fuel)%nat -> parse_outcome_ok (parse_codes fuel rem).
Proof.
  induction fuel as [|f IH]; intros rem Hlen; [lia|].
  cbn [parse_codes]. destruct rem as [|a r0] eqn:Erem; [exact I|]. rewrite <- Erem in *.
  destruct (find_char 37 rem) as [[lit r]|] eqn:E; [|exact I].
  apply find_char_len in E.
  pose proof (parse_code_good r) as Hg.
  destruct (parse_code r) as [[c r']|e| |]; cbn [obind good] in *; try assumption.
  assert (Hr' : (length r' < f)%nat) by lia.
  specialize (IH r' Hr').
  destruct (parse_codes f r') as [rest|e| |]; cbn [obind parse_outcome_ok] in *; assumption.
Qed.

(* every format string yields codes or one of the five format-string errors; never a
   panic, never out of fuel *)
Lemma format_parse_total fmt : parse_outcome_ok (parse_format_codes fmt).
Proof. unfold parse_format_codes. apply parse_codes_total. lia. Qed.

(* ------------------------------------------------------------ decimal strings *)

(* the number written by a string of ASCII digits *)
Definition str_value (s : str) : N := digits_value 10 (map (fun c => c - 48) s).
Definition all_digits (s : str) : Prop := Forall (fun c => 48 <= c <= 57) s.

Lemma str_value_app a b : str_value (a ++ b) = fold_left (fun x d => x * 10 + d) (map (fun c => c - 48) b) (str_value a).
Proof. unfold str_value, digits_value. rewrite map_app, fold_left_app. reflexivity. Qed.

Lemma str_value_snoc a c : str_value (a ++ [c]) = str_value a * 10 + (c - 48).
Proof. rewrite str_value_app. reflexivity. Qed.

Lemma str_value_dec_digits n : str_value (dec_digits n) = n /\ all_digits (dec_digits n) /\ 1 <= lenN (dec_digits n).
Proof.
  unfold dec_digits. destruct (n =? 0) eqn:E.
  - apply N.eqb_eq in E. subst. repeat split; [repeat constructor; lia|cbn; lia].
  - apply N.eqb_neq in E.
    destruct (radix_digits_value 10 n ltac:(lia)) as (Hv & Hall & Hnz).
    repeat split.
    + unfold str_value. rewrite map_map.
      rewrite (map_ext _ (fun d => d)); [rewrite map_id; exact Hv|]. intros; lia.
    + unfold all_digits. apply Forall_map. eapply Forall_impl; [|exact Hall]. cbn; intros; lia.
    + destruct (Hnz ltac:(lia)) as (d & t & Hd & _). rewrite Hd. cbn [map]. rewrite lenN_cons. lia.
Qed.

Lemma str_value_lead_zeros k s : str_value (repeatN 48 k ++ s) = str_value s.
Proof.
  induction k as [|k IH] using N.peano_ind; [reflexivity|].
  rewrite repeatN_succ. cbn [app]. unfold str_value, digits_value in *. cbn [map fold_left].
  exact IH.
Qed.

Lemma str_value_trail_zeros s k : str_value (s ++ repeatN 48 k) = str_value s * 10 ^ k.
Proof.
  induction k as [|k IH] using N.peano_ind.
  - rewrite repeatN_0, app_nil_r. cbn. lia.
  - replace (N.succ k) with (k + 1) by lia. rewrite repeatN_add, app_assoc.
    change (repeatN 48 1) with [48]. rewrite str_value_snoc, IH, N.pow_add_r. cbn. lia.
Qed.

Lemma all_digits_app a b : all_digits a -> all_digits b -> all_digits (a ++ b).
Proof. intros; apply Forall_app; auto. Qed.

Lemma all_digits_zeros k : all_digits (repeatN 48 k).
Proof. eapply Forall_impl; [|apply repeatN_all]. cbn; intros; lia. Qed.

(* ------------------------------------------------------------ round-half-even *)

Local Open Scope Z_scope.

(* D is num/den rounded to the nearest integer, ties to even *)
Definition is_rhe (D num den : Z) : Prop :=
  2 * Z.abs (D * den - num) <= den /\
  (2 * Z.abs (D * den - num) = den -> Z.even D = true).

Lemma rhe_correct num den : 0 <= num -> 0 < den -> is_rhe (rhe num den) num den /\ 0 <= rhe num den.
Proof.
  intros Hn Hd. unfold rhe, is_rhe.
  pose proof (Z.div_mod num den ltac:(lia)) as Hdm.
  pose proof (Z.mod_pos_bound num den Hd) as Hr.
  pose proof (Z.div_pos num den Hn Hd) as Hq.
  set (q := num / den) in *. set (r := num mod den) in *.
  destruct (Z.compare_spec (2 * r) den) as [E|E|E].
  - destruct (Z.even q) eqn:Ev.
    + replace (q * den - num) with (- r) by lia. rewrite Z.abs_opp, Z.abs_eq by lia.
      repeat split; auto; lia.
    + replace ((q + 1) * den - num) with (den - r) by lia. rewrite Z.abs_eq by lia.
      repeat split; try lia. intros _. rewrite Z.even_add, Ev. reflexivity.
  - replace (q * den - num) with (- r) by lia. rewrite Z.abs_opp, Z.abs_eq by lia.
    repeat split; try lia.
  - replace ((q + 1) * den - num) with (den - r) by lia. rewrite Z.abs_eq by lia.
    repeat split; try lia.
Qed.

Lemma rhe_exact a den : 0 < den -> rhe (a * den) den = a.
Proof.
  intros Hd. unfold rhe. rewrite Z.div_mul, Z.mod_mul by lia.
  destruct (Z.compare_spec (2 * 0) den); lia.
Qed.

(* ------------------------------------------------------------ %f digits *)

Lemma pow10_split a b : 0 <= a -> 0 <= b -> 10 ^ (a + b) = 10 ^ a * 10 ^ b.
Proof. intros. apply Z.pow_add_r; lia. Qed.

Lemma pow10_pos k : 0 <= k -> 0 < 10 ^ k.
Proof. intros. apply Z.pow_pos_nonneg; lia. Qed.
Lemma pow2_pos k : 0 <= k -> 0 < 2 ^ k.
Proof. intros. apply Z.pow_pos_nonneg; lia. Qed.

(* the round-half-even integer of  m * 2^e * 10^p  — what %f must print, point removed *)
Definition fixed_spec (m e : Z) (p : N) : Z :=
  rhe (m * 2 ^ (Z.max e 0) * 10 ^ (Z.of_N p)) (2 ^ (Z.max (- e) 0)).

Lemma scaled_rhe_nonneg_k m e k : 0 <= k ->
  scaled_rhe m e k = rhe (m * 2 ^ (Z.max e 0) * 10 ^ k) (2 ^ (Z.max (- e) 0)).
Proof.
  intros Hk. unfold scaled_rhe. rewrite (Z.max_l k 0), (Z.max_r (- k) 0) by lia.
  rewrite Z.pow_0_r, Z.mul_1_r. reflexivity.
Qed.

(* once every fraction digit of the binary value is out, further digits are zeros *)
Lemma fixed_spec_beyond m e (p q : N) :
  Z.max (- e) 0 <= Z.of_N q -> (q <= p)%N ->
  fixed_spec m e p = fixed_spec m e q * 10 ^ (Z.of_N (p - q)).
Proof.
  intros Hq Hpq. unfold fixed_spec.
  set (d := Z.max (- e) 0) in *.
  assert (Hd : 0 <= d) by (unfold d; lia).
  assert (H10 : forall n, d <= n -> 10 ^ n = (5 ^ d * 10 ^ (n - d)) * 2 ^ d).
  { intros n Hn. replace n with (d + (n - d)) at 1 by lia. rewrite pow10_split by lia.
    change 10 with (5 * 2) at 1. rewrite Z.pow_mul_l. ring. }
  assert (Hden : 0 < 2 ^ d) by (apply pow2_pos; lia).
  rewrite (H10 (Z.of_N p)) by lia. rewrite (H10 (Z.of_N q)) by lia.
  rewrite !Z.mul_assoc.
  rewrite !rhe_exact by exact Hden.
  replace (Z.of_N p - d) with ((Z.of_N q - d) + Z.of_N (p - q)) by lia.
  rewrite pow10_split by lia. ring.
Qed.

Lemma lenN_firstn_skipn {A} (l : list A) k : (k <= length l)%nat ->
  firstn k l ++ skipn k l = l /\ lenN (skipn k l) = (lenN l - N.of_nat k)%N.
Proof.
  intros H. split; [apply firstn_skipn|]. unfold lenN. rewrite skipn_length. lia.
Qed.

Lemma fixed_parts_correct m e p : 0 <= m ->
  let '(ip, fp) := fixed_parts m e p in
  lenN fp = p /\ (1 <= lenN ip)%N /\ all_digits (ip ++ fp) /\
  Z.of_N (str_value (ip ++ fp)) = fixed_spec m e p.
Proof.
  intros Hm. unfold fixed_parts, ch_0. cbv zeta.
  set (p' := N.min p (Z.to_N (Z.max (- e) 0))).
  set (D := Z.to_N (scaled_rhe m e (Z.of_N p'))).
  destruct (str_value_dec_digits D) as (Hv & Hall & Hlen).
  set (ds0 := dec_digits D) in *.
  set (ds := repeatN 48 (p' + 1 - lenN ds0) ++ ds0).
  assert (Hlds : (p' + 1 <= lenN ds)%N).
  { unfold ds. rewrite lenN_app, lenN_repeatN. lia. }
  assert (Hk : (N.to_nat (lenN ds - p') <= length ds)%nat).
  { unfold lenN in *. lia. }
  destruct (lenN_firstn_skipn ds _ Hk) as (Hsplit & Hskip).
  rewrite N2Nat.id in Hskip.
  repeat split.
  - rewrite lenN_app, Hskip, lenN_repeatN. unfold p'. lia.
  - assert (lenN (firstn (N.to_nat (lenN ds - p')) ds) = lenN ds - p')%N.
    { unfold lenN. rewrite firstn_length. unfold lenN in Hk. lia. }
    lia.
  - rewrite app_assoc, Hsplit. apply all_digits_app; [|apply all_digits_zeros].
    unfold ds. apply all_digits_app; [apply all_digits_zeros|exact Hall].
  - rewrite app_assoc, Hsplit, str_value_trail_zeros. unfold ds.
    rewrite str_value_lead_zeros, Hv.
    assert (HD : Z.of_N D = fixed_spec m e p').
    { unfold D. rewrite scaled_rhe_nonneg_k by lia. rewrite Z2N.id; [reflexivity|].
      apply rhe_correct.
      - apply Z.mul_nonneg_nonneg; [apply Z.mul_nonneg_nonneg; [lia|]|];
          apply Z.lt_le_incl; [apply pow2_pos; lia|apply pow10_pos; lia].
      - apply pow2_pos; lia. }
    rewrite N2Z.inj_mul, N2Z.inj_pow, HD. cbn [Z.of_N].
    destruct (N.le_gt_cases p (Z.to_N (Z.max (- e) 0))) as [Hle|Hgt].
    + assert (p' = p) by (unfold p'; lia). rewrite H, N.sub_diag. cbn. lia.
    + assert (Hp' : p' = Z.to_N (Z.max (- e) 0)) by (unfold p'; lia).
      symmetry. apply fixed_spec_beyond; lia.
Qed.

(* the correctly rounded decimal: |D - x*10^p| <= 1/2, ties to the even D *)
Lemma fixed_spec_is_rhe m e p : 0 <= m ->
  is_rhe (fixed_spec m e p) (m * 2 ^ (Z.max e 0) * 10 ^ (Z.of_N p)) (2 ^ (Z.max (- e) 0)).
Proof.
  intros Hm. apply rhe_correct.
  - apply Z.mul_nonneg_nonneg; [apply Z.mul_nonneg_nonneg; [lia|]|];
      apply Z.lt_le_incl; [apply pow2_pos; lia|apply pow10_pos; lia].
  - apply pow2_pos; lia.
Qed.

Local Open Scope N_scope.
Local Open Scope outcome_scope.

(* the digit string render_float_def builds: the formatter at a capped precision,
   then zeros (as /repo a32ed0a does) *)
Definition capped_fixed (x : f64) (prec : N) : res str :=
  let fmt_prec := N.min prec fmt_prec_max in
  do d <- fmt_fixed x fmt_prec; Ok (d ++ repeatN 48 (prec - fmt_prec)).

Lemma fixed_parts_cap m e p c : (Z.max (- e) 0 <= Z.of_N c)%Z -> c <= p ->
  fixed_parts m e p = (fst (fixed_parts m e c), snd (fixed_parts m e c) ++ repeatN 48 (p - c)).
Proof.
  intros Hc Hcp. unfold fixed_parts, ch_0. cbv zeta.
  set (q := Z.to_N (Z.max (- e) 0)).
  assert (Hq : q <= c) by (unfold q; lia).
  replace (N.min p q) with q by lia. replace (N.min c q) with q by lia.
  cbn [fst snd]. f_equal. rewrite <- app_assoc. f_equal.
  replace (p - q) with ((c - q) + (p - c)) by lia. apply repeatN_add.
Qed.

Lemma capped_fixed_gen (m e : Z) prec : (- 65535 <= e)%Z ->
  (do d <- (if fmt_prec_max <? N.min prec fmt_prec_max
            then Panic "format.rs:render_float_def:format! precision above u16::MAX"
            else Ok (fixed_string m e (N.min prec fmt_prec_max)));
   Ok (d ++ repeatN 48 (prec - N.min prec fmt_prec_max))) = (Ok (fixed_string m e prec) : res str).
Proof.
  intros He.
  destruct (N.le_gt_cases prec fmt_prec_max) as [Hle|Hgt].
  - replace (N.min prec fmt_prec_max) with prec by lia.
    replace (fmt_prec_max <? prec) with false by (symmetry; apply N.ltb_ge; exact Hle).
    cbn [obind]. rewrite N.sub_diag, repeatN_0, app_nil_r. reflexivity.
  - replace (N.min prec fmt_prec_max) with fmt_prec_max by lia.
    rewrite N.ltb_irrefl. cbn [obind]. f_equal.
    unfold fixed_string.
    rewrite (fixed_parts_cap m e prec fmt_prec_max) by (unfold fmt_prec_max in *; lia).
    destruct (fixed_parts m e fmt_prec_max) as [ip fp]. cbn [fst snd].
    replace (fmt_prec_max =? 0) with false by reflexivity.
    replace (prec =? 0) with false by (symmetry; apply N.eqb_neq; unfold fmt_prec_max in Hgt; lia).
    rewrite <- app_assoc. reflexivity.
Qed.

Lemma capped_fixed_finite s m e prec : (- 65535 <= e)%Z ->
  capped_fixed (S754_finite s m e) prec = Ok (fixed_string (Z.pos m) e prec).
Proof. intros He. unfold capped_fixed, fmt_fixed. cbv zeta. apply capped_fixed_gen. exact He. Qed.

Lemma capped_fixed_zero s prec :
  capped_fixed (S754_zero s) prec = Ok (fixed_string 0 0 prec).
Proof. unfold capped_fixed, fmt_fixed. cbv zeta. apply capped_fixed_gen. lia. Qed.

Lemma render_float_def_digits value prec zp plus blank ensure_pt trim :
  render_float_def value prec zp plus blank ensure_pt trim =
  do d <- capped_fixed (f_abs value) prec;
  Ok (decorate_digits
        (if (prec =? 0) && ensure_pt then d ++ [46]
         else if negb (prec =? 0) && trim then
                (if ensure_pt then trim_end_zeros d else strip_dot_suffix (trim_end_zeros d))
              else d)
        (is_neg value) zp 0 plus blank).
Proof.
  unfold render_float_def, capped_fixed. cbv zeta.
  destruct (fmt_fixed (f_abs value) (N.min prec fmt_prec_max)); reflexivity.
Qed.

(* %f digits: for every finite double (any exponent a binary64 can have) and EVERY
   precision, the digit string is ip[.fp] with exactly prec fraction digits and
   ip.fp is the exact binary value rounded half-even at that precision *)
Lemma fixed_digits_correct s m e prec : (- 65535 <= e)%Z ->
  exists ip fp,
    capped_fixed (S754_finite s m e) prec = Ok (if prec =? 0 then ip else ip ++ 46 :: fp) /\
    lenN fp = prec /\ 1 <= lenN ip /\ all_digits (ip ++ fp) /\
    is_rhe (Z.of_N (str_value (ip ++ fp)))
           (Z.pos m * 2 ^ (Z.max e 0) * 10 ^ (Z.of_N prec)) (2 ^ (Z.max (- e) 0)).
Proof.
  intros He. rewrite capped_fixed_finite by exact He. unfold fixed_string.
  pose proof (fixed_parts_correct (Z.pos m) e prec ltac:(lia)) as H.
  destruct (fixed_parts (Z.pos m) e prec) as [ip fp].
  destruct H as (H1 & H2 & H3 & H4).
  exists ip, fp. repeat split; auto.
  - rewrite H4. apply fixed_spec_is_rhe. lia.
  - rewrite H4. apply fixed_spec_is_rhe. lia.
Qed.


(* ------------------------------------------------------------ the argument machines *)

Section Machines.
Variable lf : f64 -> Z.

Definition code_needs (c : code) : N :=
  (match fw c with Some FExternal => 1 | _ => 0 end) +
  (match prec c with Some FExternal => 1 | _ => 0 end) +
  (if conv_eqb (ctype c) CPercent then 0 else 1).

Fixpoint needed (parts : list part) : N :=
  match parts with
  | [] => 0
  | PLit _ :: ps => needed ps
  | PCode c :: ps => code_needs c + needed ps
  end.

Lemma take_width_spec w rest used wt rest' used' :
  take_width w rest used = Ok (wt, rest', used') ->
  let k := match w with Some FExternal => 1 | _ => 0 end in
  lenN rest = k + lenN rest' /\ used' = used + k /\
  (w = None -> wt = WNone) /\
  (forall v, w = Some (FInline v) -> wt = WInline v) /\
  (w = Some FExternal -> exists t, rest = t :: rest' /\ wt = WThunk t).
Proof.
  unfold take_width. destruct w as [[v|]|]; intros H.
  - inversion H; subst. cbn. repeat split; try lia; try congruence; try discriminate.
  - destruct rest as [|t r]; [discriminate|]. inversion H; subst.
    cbn zeta. rewrite lenN_cons. repeat split; try lia; try discriminate.
    intros _. exists t. split; reflexivity.
  - inversion H; subst. cbn. repeat split; try lia; try congruence; try discriminate.
Qed.

(* one directive: how many items it takes, and its field is at least as wide as the width *)
Lemma array_code_spec c rest used s rest' used' :
  array_code lf c rest used = Ok (s, rest', used') ->
  lenN rest = code_needs c + lenN rest' /\ used' = used + code_needs c /\
  (forall v, fw c = Some (FInline v) -> v <= lenN s) /\
  (forall x t v, fw c = Some FExternal -> rest = VNum x :: t -> try_to_u32 x = Some v -> v <= lenN s).
Proof.
  unfold array_code, code_needs. intros H.
  destruct (take_width (fw c) rest used) as [[[fwt r1] u1]|?| |] eqn:E1; cbn [obind] in H; try discriminate.
  destruct (take_width (prec c) r1 u1) as [[[prt r2] u2]|?| |] eqn:E2; cbn [obind] in H; try discriminate.
  apply take_width_spec in E1. apply take_width_spec in E2. cbv zeta in E1, E2.
  destruct E1 as (L1 & U1 & N1 & I1 & X1). destruct E2 as (L2 & U2 & _ & _ & _).
  match type of H with obind ?a _ = _ => destruct a as [precv|?| |] eqn:EP end; cbn [obind] in H; try discriminate.
  match type of H with obind ?a _ = _ => destruct a as [fwv|?| |] eqn:EF end; cbn [obind] in H; try discriminate.
  assert (HW : (forall v, fw c = Some (FInline v) -> fwv = v) /\
               (forall x t v, fw c = Some FExternal -> rest = VNum x :: t -> try_to_u32 x = Some v -> fwv = v)).
  { split.
    - intros v Hv. rewrite Hv in EF. rewrite (I1 v Hv) in EF. cbn in EF. congruence.
    - intros x t v Hx Hr Hv. rewrite Hx in EF. destruct (X1 Hx) as (t0 & Hr0 & Hw). subst fwt.
      rewrite Hr in Hr0. inversion Hr0; subst t0. cbn in EF. rewrite Hv in EF. congruence. }
  destruct HW as (HW1 & HW2).
  destruct (conv_eqb (ctype c) CPercent).
  - inversion H; subst. pose proof (pad_reaches_width [37] fwv (fl_left (flags c))).
    repeat split; try lia.
    + intros v Hv. rewrite <- (HW1 v Hv). assumption.
    + intros x t v Hx Hr Hv. rewrite <- (HW2 x t v Hx Hr Hv). assumption.
  - destruct r2 as [|item r3]; [discriminate|].
    destruct (do_format_code lf c fwv precv item) as [body|?| |]; cbn [obind] in H; try discriminate.
    inversion H; subst. pose proof (pad_reaches_width body fwv (fl_left (flags c))).
    rewrite lenN_cons in L2.
    repeat split; try lia.
    + intros v Hv. rewrite <- (HW1 v Hv). assumption.
    + intros x t v Hx Hr Hv. rewrite <- (HW2 x t v Hx Hr Hv). assumption.
Qed.

(* std.format on an array succeeds only when the array has exactly as many items as the
   directives consume (one per conversion other than %%, one per * width, one per * precision) *)
Lemma format_array_count : forall parts rest used s,
  format_array lf parts rest used = Ok s -> lenN rest = needed parts.
Proof.
  induction parts as [|p ps IH]; intros rest used s H; cbn [format_array needed] in *.
  - destruct rest; [reflexivity|discriminate].
  - destruct p as [l|c].
    + destruct (format_array lf ps rest used) eqn:E; cbn [obind] in H; try discriminate.
      eapply IH; eauto.
    + destruct (array_code lf c rest used) as [[[s1 r1] u1]|?| |] eqn:E1; cbn [obind] in H; try discriminate.
      destruct (format_array lf ps r1 u1) eqn:E2; cbn [obind] in H; try discriminate.
      apply array_code_spec in E1. apply IH in E2. lia.
Qed.

(* too many items is reported as such, with the number the directives expected *)
Lemma format_array_too_many : forall parts rest used s,
  format_array lf parts rest used <> Ok s \/ lenN rest = needed parts.
Proof. intros. destruct (format_array lf parts rest used) eqn:E; try (left; congruence). right. eapply format_array_count; eauto. Qed.

Lemma object_code_width c fs s v :
  object_code lf c fs = Ok s -> fw c = Some (FInline v) -> v <= lenN s.
Proof.
  unfold object_code. intros H Hv. rewrite Hv in H. cbn [obind] in H.
  destruct (prec c) as [[pv|]|]; cbn [obind] in H; try discriminate.
  - destruct (conv_eqb (ctype c) CPercent).
    + inversion H; subst. apply pad_reaches_width.
    + destruct (mkey c); [|discriminate]. destruct (find_field s0 fs); [|discriminate].
      destruct (do_format_code lf c v pv f); cbn [obind] in H; try discriminate.
      inversion H; subst. apply pad_reaches_width.
  - destruct (conv_eqb (ctype c) CPercent).
    + inversion H; subst. apply pad_reaches_width.
    + destruct (mkey c); [|discriminate]. destruct (find_field s0 fs); [|discriminate].
      destruct (do_format_code lf c v 0 f); cbn [obind] in H; try discriminate.
      inversion H; subst. apply pad_reaches_width.
Qed.

End Machines.

(* ------------------------------------------------------------ no panic, no divergence *)

Definition finite_val (v : fval) : Prop :=
  match v with VNum x => f_is_finite x = true | _ => True end.

Definition no_crash {A} (r : res A) : Prop :=
  match r with Ok _ | Err _ => True | _ => False end.

Lemma no_crash_bind {A B} (x : res A) (f : A -> res B) :
  no_crash x -> (forall a, x = Ok a -> no_crash (f a)) -> no_crash (obind x f).
Proof. destruct x; cbn; intros; auto. Qed.

Lemma render_float_def_no_crash x prec zp pl bl en tr :
  f_is_finite x = true -> no_crash (render_float_def x prec zp pl bl en tr).
Proof.
  intros Hf. unfold render_float_def. cbv zeta. apply no_crash_bind; [|intros; exact I].
  unfold fmt_fixed.
  replace (fmt_prec_max <? N.min prec fmt_prec_max) with false by (symmetry; apply N.ltb_ge; lia).
  destruct x; cbn in *; try discriminate; exact I.
Qed.

Lemma render_float_exp_no_crash x prec zp pl bl en tr up :
  f_is_finite x = true -> no_crash (render_float_exp x prec zp pl bl en tr up).
Proof.
  intros Hf. unfold render_float_exp. cbv zeta. apply no_crash_bind; [|intros [ds E] _; exact I].
  unfold fmt_exp.
  replace (fmt_prec_max <=? N.min prec (fmt_prec_max - 1)) with false
    by (symmetry; apply N.leb_gt; unfold fmt_prec_max; lia).
  destruct x; cbn in *; try discriminate; exact I.
Qed.

Lemma trunc_mag_finite x : f_is_finite x = true -> exists n, trunc_mag x = Some n.
Proof. destruct x; cbn; try discriminate; intros _; eexists; reflexivity. Qed.

Section NoCrash.
Variable lf : f64 -> Z.

Lemma do_format_code_no_crash c fwv precv v :
  conv_eqb (ctype c) CPercent = false -> finite_val v -> no_crash (do_format_code lf c fwv precv v).
Proof.
  intros Hc Hv. unfold do_format_code. cbv zeta.
  destruct (ctype c); try discriminate Hc;
    destruct v as [x|s|t sh]; cbn [need_num obind no_crash type_of]; try exact I;
    cbn [finite_val] in Hv.
  all: try (destruct (trunc_mag_finite x Hv) as (n & Hn); rewrite Hn; exact I).
  all: try (apply render_float_exp_no_crash; exact Hv).
  all: try (apply render_float_def_no_crash; exact Hv).
  all: try (match goal with |- no_crash (if ?b then _ else _) => destruct b end;
            [apply render_float_exp_no_crash|apply render_float_def_no_crash]; exact Hv).
  - destruct (try_to_u32 x) as [n|]; [destruct (is_scalar n)|]; exact I.
  - destruct (lenN s =? 1); exact I.
Qed.

Lemma take_width_no_crash w rest used : no_crash (take_width w rest used).
Proof. unfold take_width. destruct w as [[|]|]; try exact I. destruct rest; exact I. Qed.

Lemma eval_width_no_crash w f b : no_crash (eval_width w f b).
Proof.
  unfold eval_width. destruct w as [|v|[x|s|t sh]]; try exact I.
  destruct (try_to_u32 x); exact I.
Qed.

Lemma take_width_finite w rest used wt rest' used' :
  Forall finite_val rest -> take_width w rest used = Ok (wt, rest', used') -> Forall finite_val rest'.
Proof.
  unfold take_width. intros Hf H. destruct w as [[|]|]; try (inversion H; subst; exact Hf).
  destruct rest; [discriminate|]. inversion H; subst. inversion Hf; assumption.
Qed.

Lemma array_code_no_crash c rest used :
  Forall finite_val rest ->
  no_crash (array_code lf c rest used) /\
  (forall s rest' used', array_code lf c rest used = Ok (s, rest', used') -> Forall finite_val rest').
Proof.
  intros Hf. unfold array_code.
  pose proof (take_width_no_crash (fw c) rest used) as N1.
  destruct (take_width (fw c) rest used) as [[[fwt r1] u1]|?| |] eqn:E1; cbn [obind no_crash] in *;
    try (split; [exact I|discriminate]); try contradiction.
  pose proof (take_width_finite _ _ _ _ _ _ Hf E1) as Hf1.
  pose proof (take_width_no_crash (prec c) r1 u1) as N2.
  destruct (take_width (prec c) r1 u1) as [[[prt r2] u2]|?| |] eqn:E2; cbn [obind no_crash] in *;
    try (split; [exact I|discriminate]); try contradiction.
  pose proof (take_width_finite _ _ _ _ _ _ Hf1 E2) as Hf2.
  match goal with |- no_crash (obind ?a _) /\ _ =>
    assert (NP : no_crash a) by (destruct (prec c); [destruct (uses_prec (ctype c)); [apply eval_width_no_crash|exact I]|exact I]);
    destruct a as [precv|?| |]; cbn [obind no_crash] in *;
    try (split; [exact I|discriminate]); try contradiction end.
  match goal with |- no_crash (obind ?a _) /\ _ =>
    assert (NF : no_crash a) by (destruct (fw c); [apply eval_width_no_crash|exact I]);
    destruct a as [fwv|?| |]; cbn [obind no_crash] in *;
    try (split; [exact I|discriminate]); try contradiction end.
  destruct (conv_eqb (ctype c) CPercent) eqn:EC.
  - split; [exact I|]. intros s r' u' H. inversion H; subst. exact Hf2.
  - destruct r2 as [|item r3]; [split; [exact I|discriminate]|].
    inversion Hf2 as [|? ? Hitem Hr3]; subst.
    pose proof (do_format_code_no_crash c fwv precv item EC Hitem) as ND.
    destruct (do_format_code lf c fwv precv item); cbn [obind no_crash] in *;
      try (split; [exact I|discriminate]); try contradiction.
    split; [exact I|]. intros s r' u' H. inversion H; subst. exact Hr3.
Qed.

Lemma format_array_no_crash : forall parts rest used,
  Forall finite_val rest -> no_crash (format_array lf parts rest used).
Proof.
  induction parts as [|p ps IH]; intros rest used Hf; cbn [format_array].
  - destruct rest; exact I.
  - destruct p as [l|c].
    + apply no_crash_bind; [apply IH; exact Hf|intros; exact I].
    + destruct (array_code_no_crash c rest used Hf) as (NC & Hfin).
      destruct (array_code lf c rest used) as [[[s1 r1] u1]|?| |]; cbn [obind no_crash] in *; try exact I; try contradiction.
      apply no_crash_bind; [apply IH; eapply Hfin; reflexivity|intros; exact I].
Qed.

Lemma find_field_finite k fs v :
  Forall (fun kv => finite_val (snd kv)) fs -> find_field k fs = Some v -> finite_val v.
Proof.
  induction fs as [|[k' v'] r IH]; cbn [find_field]; intros Hf H; [discriminate|].
  inversion Hf; subst. destruct (str_eqb k k'); [inversion H; subst; assumption|auto].
Qed.

Lemma object_code_no_crash c fs :
  Forall (fun kv => finite_val (snd kv)) fs -> no_crash (object_code lf c fs).
Proof.
  intros Hf. unfold object_code.
  destruct (fw c) as [[v|]|]; cbn [obind no_crash]; try exact I;
  (destruct (prec c) as [[pv|]|]; cbn [obind no_crash]; try exact I;
   (destruct (conv_eqb (ctype c) CPercent) eqn:EC; [exact I|];
    destruct (mkey c) as [k|]; [|exact I];
    destruct (find_field k fs) as [item|] eqn:EF; [|exact I];
    apply no_crash_bind; [|intros; exact I];
    apply do_format_code_no_crash; [exact EC|eapply find_field_finite; eauto])).
Qed.

Lemma format_object_no_crash : forall parts fs,
  Forall (fun kv => finite_val (snd kv)) fs -> no_crash (format_object lf parts fs).
Proof.
  induction parts as [|p ps IH]; intros fs Hf; cbn [format_object]; [exact I|].
  destruct p as [l|c].
  - apply no_crash_bind; [apply IH; exact Hf|intros; exact I].
  - apply no_crash_bind; [apply object_code_no_crash; exact Hf|intros].
    apply no_crash_bind; [apply IH; exact Hf|intros; exact I].
Qed.

Definition finite_args (a : fargs) : Prop :=
  match a with
  | AArray l => Forall finite_val l
  | AObject fs => Forall (fun kv => finite_val (snd kv)) fs
  | ASingle v => finite_val v
  end.

(* std.format never panics and never loops: for every format string, every argument
   value (numbers finite, C06) and whatever libm's log10 returns, the outcome is a
   string or one of the listed errors *)
Lemma format_no_crash fmt a : finite_args a -> no_crash (format lf fmt a).
Proof.
  intros Hf. unfold format.
  pose proof (format_parse_total fmt) as HP.
  destruct (parse_format_codes fmt) as [parts|e| |]; cbn [obind parse_outcome_ok no_crash] in *; try exact I; try contradiction.
  destruct a as [l|fs|v]; cbn [finite_args] in Hf.
  - apply format_array_no_crash; exact Hf.
  - apply format_object_no_crash; exact Hf.
  - apply format_array_no_crash. constructor; [exact Hf|constructor].
Qed.

End NoCrash.

(* ------------------------------------------------------------ integer conversions *)

(* %o %x %X: sign, zero padding, then (prefix and) the radix digits of the exact magnitude *)
Lemma render_int_digits neg mag mc md bl pl radix zp :
  exists pad,
    render_int neg mag mc md bl pl radix zp =
    sign_prefix neg pl bl ++ repeatN 48 pad ++
      (if mag =? 0 then [48] else zp ++ map (fun d => 48 + d) (radix_digits radix mag)).
Proof. unfold render_int. eexists. reflexivity. Qed.

Lemma render_hex_digits neg mag mc md bl pl zx cap :
  exists pad,
    render_hex neg mag mc md bl pl zx cap =
    (sign_prefix neg pl bl ++ (if zx then (if cap then [48; 88] else [48; 120]) else [])) ++
      repeatN 48 pad ++
      (if mag =? 0 then [48] else map (hex_numeral cap) (radix_digits 16 mag)).
Proof. unfold render_hex. eexists. reflexivity. Qed.

(* %d %i %u below 2^53: the digits are the exact integer *)
Lemma decimal_exact_below_2p53 lf c fwv precv x n :
  ctype c = CDecimal -> trunc_mag x = Some n -> n < 2 ^ 53 ->
  do_format_code lf c fwv precv (VNum x) =
  Ok (decorate_digits (dec_digits n) (is_neg_trunc x)
        (if fl_zero (flags c) && negb (fl_left (flags c)) then fwv else 0)
        (match prec c with Some _ => precv | None => 0 end)
        (fl_plus (flags c)) (fl_blank (flags c))).
Proof.
  intros Hc Ht Hn. unfold do_format_code. cbv zeta. rewrite Hc. cbn [need_num obind].
  rewrite Ht. unfold display_int.
  replace (n <? 2 ^ 53) with true by (symmetry; apply N.ltb_lt; exact Hn).
  destruct (prec c); reflexivity.
Qed.

(* ------------------------------------------------------------ %g: shape *)

Lemma render_float_def_shape x prec zp pl bl en tr :
  f_is_finite x = true ->
  exists d, render_float_def x prec zp pl bl en tr = Ok (decorate_digits d (is_neg x) zp 0 pl bl).
Proof.
  intros Hf. rewrite render_float_def_digits. unfold capped_fixed, fmt_fixed. cbv zeta.
  replace (fmt_prec_max <? N.min prec fmt_prec_max) with false by (symmetry; apply N.ltb_ge; lia).
  destruct x; cbn in Hf; try discriminate; cbn [f_abs SFabs obind]; eexists; reflexivity.
Qed.

Lemma render_float_exp_shape x prec zp pl bl en tr up :
  f_is_finite x = true ->
  exists d, render_float_exp x prec zp pl bl en tr up = Ok (decorate_digits d (is_neg x) zp 0 pl bl).
Proof.
  intros Hf. unfold render_float_exp, fmt_exp. cbv zeta.
  replace (fmt_prec_max <=? N.min prec (fmt_prec_max - 1)) with false
    by (symmetry; apply N.leb_gt; unfold fmt_prec_max; lia).
  destruct x; cbn in Hf; try discriminate; cbn [f_abs SFabs obind].
  - eexists; reflexivity.
  - destruct (exp_parts (Z.pos m) e (N.min prec (fmt_prec_max - 1))) as [ds E].
    eexists; reflexivity.
Qed.

(* %g %G, whatever libm's log10 says: the result is a decorated digit string — sign
   only for negative non-zero values, and never shorter than the zero-pad width — of
   the %e renderer (precision max(P,1)-1) when the exponent is < -4 or >= P, else of
   the %f renderer (precision P minus the digits before the point) *)
Lemma g_shape lf c fwv precv x :
  (ctype c = CGLower \/ ctype c = CGUpper) -> f_is_finite x = true ->
  exists d, do_format_code lf c fwv precv (VNum x) =
            Ok (decorate_digits d (is_neg x)
                  (if fl_zero (flags c) && negb (fl_left (flags c)) then fwv else 0) 0
                  (fl_plus (flags c)) (fl_blank (flags c))).
Proof.
  intros Hc Hf. unfold do_format_code. cbv zeta.
  destruct Hc as [Hc|Hc]; rewrite Hc; cbn [need_num obind];
    match goal with |- context [if ?b then render_float_exp _ _ _ _ _ _ _ _ else _] => destruct b end;
    first [apply render_float_exp_shape; exact Hf | apply render_float_def_shape; exact Hf].
Qed.

(* ============================================================ %e digits *)

Local Open Scope Z_scope.

(* 10^j as a fraction pa j / pb j, for any integer j *)
Definition pa (j : Z) : Z := 10 ^ (Z.max j 0).
Definition pb (j : Z) : Z := 10 ^ (Z.max (- j) 0).

Lemma pa_pos j : 0 < pa j. Proof. apply pow10_pos; lia. Qed.
Lemma pb_pos j : 0 < pb j. Proof. apply pow10_pos; lia. Qed.

Lemma pow10_3 x y z : 0 <= x -> 0 <= y -> 0 <= z -> 10 ^ x * 10 ^ y * 10 ^ z = 10 ^ (x + y + z).
Proof. intros. rewrite !Z.pow_add_r by lia. reflexivity. Qed.

(* 10^(i+j) = 10^i * 10^j, on fractions *)
Lemma pab_law i j : pa (i + j) * pb i * pb j = pa i * pa j * pb (i + j).
Proof. unfold pa, pb. rewrite !pow10_3 by lia. f_equal. lia. Qed.

Lemma pa_nonneg j : 0 <= j -> pa j = 10 ^ j /\ pb j = 1.
Proof. intros. unfold pa, pb. rewrite Z.max_l, Z.max_r by lia. split; reflexivity. Qed.

(* 10^j <= num/den   and   num/den < 10^j *)
Definition le_p10 (j num den : Z) : Prop := pa j * den <= num * pb j.
Definition lt_p10 (num den j : Z) : Prop := num * pb j < pa j * den.
Definition bracket (E num den : Z) : Prop := le_p10 E num den /\ lt_p10 num den (E + 1).

Lemma pow_2_le_10 a : 0 <= a -> 2 ^ a <= 10 ^ a.
Proof. intros. apply Z.pow_le_mono_l. lia. Qed.

Lemma search_up_spec : forall fuel n pw k,
  0 <= k -> pw = 10 ^ k -> pw <= n -> n < 10 ^ (k + Z.of_nat fuel) ->
  let r := search_up fuel n pw k in k <= r /\ 10 ^ r <= n < 10 ^ (r + 1).
Proof.
  induction fuel as [|f IH]; intros n pw k Hk Hpw Hle Hlt; cbn [search_up].
  - cbn in Hlt. rewrite Z.add_0_r in Hlt. lia.
  - destruct (n <? pw * 10) eqn:E.
    + apply Z.ltb_lt in E. subst pw. rewrite Z.pow_add_r, Z.pow_1_r by lia. lia.
    + apply Z.ltb_ge in E.
      assert (H10 : pw * 10 = 10 ^ (k + 1)) by (subst pw; rewrite Z.pow_add_r, Z.pow_1_r by lia; reflexivity).
      specialize (IH n (pw * 10) (k + 1) ltac:(lia) H10 E).
      replace (k + 1 + Z.of_nat f) with (k + Z.of_nat (S f)) in IH by lia.
      specialize (IH Hlt). cbv zeta in IH. lia.
Qed.

Lemma search_up_top n : 1 <= n ->
  let r := search_up (S (Z.to_nat (Z.log2 n))) n 1 0 in 0 <= r /\ 10 ^ r <= n < 10 ^ (r + 1).
Proof.
  intros Hn. apply search_up_spec; try lia; try reflexivity.
  rewrite Z.add_0_l, Nat2Z.inj_succ, Z2Nat.id by apply Z.log2_nonneg.
  pose proof (Z.log2_spec n ltac:(lia)) as [_ H].
  pose proof (pow_2_le_10 (Z.succ (Z.log2 n)) ltac:(pose proof (Z.log2_nonneg n); lia)). lia.
Qed.

Lemma search_dn_spec : forall fuel mm q k,
  0 <= k -> 0 < mm -> mm < q -> q <= mm * 10 ^ Z.of_nat fuel ->
  let r := search_dn fuel mm q k in
  exists j, r = k + j /\ 1 <= j /\ mm * 10 ^ (j - 1) < q <= mm * 10 ^ j.
Proof.
  induction fuel as [|f IH]; intros mm q k Hk Hm Hlt Hq; cbn [search_dn].
  - cbn in Hq. lia.
  - destruct (q <=? mm * 10) eqn:E.
    + apply Z.leb_le in E. exists 1. cbn. lia.
    + apply Z.leb_gt in E.
      assert (Hq' : q <= mm * 10 * 10 ^ Z.of_nat f).
      { rewrite Nat2Z.inj_succ, Z.pow_succ_r in Hq by lia. lia. }
      destruct (IH (mm * 10) q (k + 1) ltac:(lia) ltac:(lia) E Hq') as (j & Hr & Hj & Hb).
      exists (j + 1). split; [cbv zeta in Hr; lia|]. split; [lia|].
      replace (j + 1 - 1) with (1 + (j - 1)) by lia. replace (j + 1) with (1 + j) by lia.
      rewrite !Z.pow_add_r, Z.pow_1_r by lia. lia.
Qed.

(* the decimal exponent found by the model is THE integer E with 10^E <= m*2^e < 10^(E+1) *)
Lemma ilog10_bracket m e : 0 < m ->
  bracket (ilog10 m e) (m * 2 ^ Z.max e 0) (2 ^ Z.max (- e) 0).
Proof.
  intros Hm. unfold ilog10, bracket, le_p10, lt_p10.
  destruct (0 <=? e) eqn:He.
  - apply Z.leb_le in He. rewrite (Z.max_l e 0), (Z.max_r (- e) 0) by lia.
    rewrite Z.pow_0_r. cbv zeta.
    assert (Hn : 1 <= m * 2 ^ e) by (pose proof (pow2_pos e He); nia).
    destruct (search_up_top _ Hn) as (Hr & Hb). set (r := search_up _ _ _ _) in *.
    destruct (pa_nonneg r Hr) as (-> & ->). destruct (pa_nonneg (r + 1) ltac:(lia)) as (-> & ->). lia.
  - apply Z.leb_gt in He. rewrite (Z.max_r e 0), (Z.max_l (- e) 0) by lia.
    rewrite Z.pow_0_r, Z.mul_1_r. cbv zeta.
    assert (Hq : 0 < 2 ^ (- e)) by (apply pow2_pos; lia). set (q := 2 ^ (- e)) in *.
    destruct (q <=? m) eqn:Hqm.
    + apply Z.leb_le in Hqm.
      assert (Hn : 1 <= m / q) by (apply Z.div_le_lower_bound; lia).
      destruct (search_up_top _ Hn) as (Hr & Hb). set (r := search_up _ _ _ _) in *.
      destruct (pa_nonneg r Hr) as (-> & ->). destruct (pa_nonneg (r + 1) ltac:(lia)) as (-> & ->).
      pose proof (Z.div_mod m q ltac:(lia)) as Hdm. pose proof (Z.mod_pos_bound m q Hq) as Hmod.
      split; nia.
    + apply Z.leb_gt in Hqm.
      assert (Hfuel : q <= m * 10 ^ Z.of_nat (Z.to_nat (- e))).
      { rewrite Z2Nat.id by lia. pose proof (pow_2_le_10 (- e) ltac:(lia)).
        pose proof (pow10_pos (- e) ltac:(lia)). unfold q. nia. }
      destruct (search_dn_spec _ m q 0 ltac:(lia) Hm Hqm Hfuel) as (j & Hr & Hj & Hb).
      cbv zeta in Hr. rewrite Hr. replace (0 + j) with j by lia.
      unfold pa, pb.
      rewrite (Z.max_r (- j) 0), (Z.max_l (- - j) 0), (Z.max_r (- j + 1) 0), (Z.max_l (- (- j + 1)) 0) by lia.
      rewrite Z.pow_0_r. replace (- - j) with j by lia. replace (- (- j + 1)) with (j - 1) by lia. lia.
Qed.

(* ---- uniqueness of the bracket *)
Lemma pab_mono i j : i <= j -> pa i * pb j <= pa j * pb i.
Proof.
  intros H. unfold pa, pb. rewrite <- !Z.pow_add_r by lia.
  apply Z.pow_le_mono_r; lia.
Qed.

Lemma bracket_unique E1 E2 num den : 0 < den -> bracket E1 num den -> bracket E2 num den -> E1 = E2.
Proof.
  assert (H : forall a b, 0 < den -> le_p10 b num den -> lt_p10 num den (a + 1) -> b < a + 1).
  { intros a b Hd Hle Hlt. destruct (Z.lt_ge_cases b (a + 1)) as [|Hge]; [assumption|exfalso].
    unfold le_p10, lt_p10 in *.
    pose proof (pab_mono (a + 1) b Hge) as Hm.
    pose proof (pa_pos b). pose proof (pb_pos b). pose proof (pa_pos (a + 1)). pose proof (pb_pos (a + 1)).
    assert (num * pb (a + 1) * pb b < pa (a + 1) * den * pb b) by nia.
    assert (pa (a + 1) * pb b * den <= pa b * pb (a + 1) * den) by nia.
    assert (pa b * den * pb (a + 1) <= num * pb b * pb (a + 1)) by nia.
    nia. }
  intros Hd [L1 U1] [L2 U2].
  pose proof (H E1 E2 Hd L2 U1). pose proof (H E2 E1 Hd L1 U2). lia.
Qed.

(* ---- number of decimal digits *)
Local Open Scope N_scope.

Lemma fold_value_acc r l a :
  fold_left (fun x d => x * r + d) l a = a * r ^ lenN l + digits_value r l.
Proof.
  revert a. induction l as [|d t IH]; intros a.
  - cbn. rewrite N.pow_0_r. lia.
  - cbn [fold_left]. unfold digits_value. cbn [fold_left]. rewrite IH, (IH (0 * r + d)).
    rewrite lenN_cons. replace (1 + lenN t) with (N.succ (lenN t)) by lia. rewrite N.pow_succ_r'. lia.
Qed.

Lemma digits_value_lt r l : Forall (fun d => d < r) l -> digits_value r l < r ^ lenN l.
Proof.
  induction l as [|d t IH] using rev_ind; intros H.
  - cbn. lia.
  - apply Forall_app in H. destruct H as [Ht Hd]. inversion Hd; subst.
    rewrite digits_value_snoc, lenN_app. change (lenN [d]) with 1. rewrite N.pow_add_r, N.pow_1_r.
    specialize (IH Ht). nia.
Qed.

Lemma digits_value_ge r d t : 0 < d -> r ^ lenN t <= digits_value r (d :: t).
Proof.
  intros Hd. unfold digits_value. cbn [fold_left]. rewrite fold_value_acc. nia.
Qed.

Lemma dec_digits_len n k : 10 ^ k <= n < 10 ^ (k + 1) -> lenN (dec_digits n) = k + 1.
Proof.
  intros [Hlo Hhi].
  assert (Hn : 0 < n) by (pose proof (N.pow_nonzero 10 k ltac:(lia)); lia).
  unfold dec_digits. replace (n =? 0) with false by (symmetry; apply N.eqb_neq; lia).
  destruct (radix_digits_value 10 n ltac:(lia)) as (Hv & Hall & Hnz).
  destruct (Hnz Hn) as (d & t & Hd & Hdpos).
  unfold lenN. rewrite map_length. fold (lenN (radix_digits 10 n)).
  pose proof (digits_value_lt 10 _ Hall) as Hup. rewrite Hv in Hup.
  rewrite Hd in *. pose proof (digits_value_ge 10 d t Hdpos) as Hdn. rewrite Hv in Hdn.
  rewrite lenN_cons in *.
  assert (lenN t < k + 1).
  { apply (N.pow_lt_mono_r_iff 10); lia. }
  assert (k < 1 + lenN t).
  { apply (N.pow_lt_mono_r_iff 10); lia. }
  lia.
Qed.

Local Open Scope Z_scope.

(* ---- rounding keeps integer bounds *)
Lemma rhe_bounds num den a b : 0 <= num -> 0 < den ->
  a * den <= num -> num <= b * den -> a <= rhe num den <= b.
Proof.
  intros Hn Hd Ha Hb. destruct (rhe_correct num den Hn Hd) as ((Herr & _) & _).
  set (D := rhe num den) in *. split.
  - destruct (Z.lt_ge_cases D a) as [Hlt|]; [exfalso|lia].
    assert (D * den <= a * den - den) by nia. lia.
  - destruct (Z.lt_ge_cases b D) as [Hlt|]; [exfalso|lia].
    assert (b * den + den <= D * den) by nia. lia.
Qed.

(* ---- the %e digits *)

(* ds (p+1 digits, first one non-zero) and E are the scientific rendering of m*2^e at
   precision p: the integer ds is (m*2^e) / 10^(E-p) rounded to nearest, ties to even *)
Definition exp_correct (m e : Z) (p : N) (ds : str) (E : Z) : Prop :=
  lenN ds = (p + 1)%N /\ all_digits ds /\
  10 ^ Z.of_N p <= Z.of_N (str_value ds) < 10 ^ (Z.of_N p + 1) /\
  is_rhe (Z.of_N (str_value ds))
         (m * 2 ^ Z.max e 0 * pa (Z.of_N p - E)) (2 ^ Z.max (- e) 0 * pb (Z.of_N p - E)).

Lemma scaled_rhe_pab m e k :
  scaled_rhe m e k = rhe (m * 2 ^ Z.max e 0 * pa k) (2 ^ Z.max (- e) 0 * pb k).
Proof. reflexivity. Qed.

(* digits of D followed by z zeros: length, digits, value *)
Lemma digits_then_zeros D q z :
  10 ^ Z.of_N q <= D < 10 ^ (Z.of_N q + 1) ->
  let ds := dec_digits (Z.to_N D) ++ repeatN 48 z in
  lenN ds = (q + z + 1)%N /\ all_digits ds /\ Z.of_N (str_value ds) = D * 10 ^ Z.of_N z.
Proof.
  intros [Hlo Hhi]. cbv zeta.
  assert (HD : 0 <= D) by (pose proof (pow10_pos (Z.of_N q) ltac:(lia)); lia).
  destruct (str_value_dec_digits (Z.to_N D)) as (Hv & Hall & _).
  assert (Hlen : lenN (dec_digits (Z.to_N D)) = (q + 1)%N).
  { apply dec_digits_len. split.
    - apply N2Z.inj_le. rewrite N2Z.inj_pow, Z2N.id by lia. exact Hlo.
    - apply N2Z.inj_lt. rewrite N2Z.inj_pow, Z2N.id, N2Z.inj_add by lia. exact Hhi. }
  repeat split.
  - rewrite lenN_app, lenN_repeatN, Hlen. lia.
  - apply all_digits_app; [exact Hall|apply all_digits_zeros].
  - rewrite str_value_trail_zeros, Hv, N2Z.inj_mul, N2Z.inj_pow, Z2N.id by lia. reflexivity.
Qed.

Lemma carry_arith_a D num den : 0 < den -> 2 * Z.abs (10 * (D * den - num)) <= den -> is_rhe D num den.
Proof. unfold is_rhe. intros. split; [lia|intros; exfalso; lia]. Qed.

Lemma carry_arith_b y W (ev : Prop) : 0 < W -> 2 * Z.abs y <= W ->
  2 * Z.abs y <= 10 * W /\ (2 * Z.abs y = 10 * W -> ev).
Proof. intros. split; [lia|intros; exfalso; lia]. Qed.

Lemma exp_parts_correct m e p : 0 < m ->
  let '(ds, E) := exp_parts m e p in exp_correct m e p ds E.
Proof.
  intros Hm. unfold exp_parts, ch_0. cbv zeta.
  pose proof (ilog10_bracket m e Hm) as [HB1 HB2]. unfold le_p10, lt_p10 in HB1, HB2.
  set (E0 := ilog10 m e) in *.
  set (num0 := m * 2 ^ Z.max e 0) in *. set (den0 := 2 ^ Z.max (- e) 0) in *.
  assert (Hnum0 : 0 < num0) by (unfold num0; pose proof (pow2_pos (Z.max e 0) ltac:(lia)); nia).
  assert (Hden0 : 0 < den0) by (unfold den0; apply pow2_pos; lia).
  set (cap := Z.to_N (Z.max (E0 + Z.max (- e) 0) 0)).
  set (p' := N.min p cap).
  set (k := Z.of_N p' - E0).
  rewrite scaled_rhe_pab. fold num0 den0.
  set (Nn := num0 * pa k). set (Dn := den0 * pb k).
  pose proof (pa_pos k) as Hpak. pose proof (pb_pos k) as Hpbk.
  assert (HNn : 0 <= Nn) by (unfold Nn; nia).
  assert (HDn : 0 < Dn) by (unfold Dn; nia).
  (* the scaled value lies in [10^p', 10^(p'+1)) *)
  assert (F1 : 10 ^ Z.of_N p' * Dn <= Nn).
  { pose proof (pab_law E0 k) as L. replace (E0 + k) with (Z.of_N p') in L by (unfold k; lia).
    destruct (pa_nonneg (Z.of_N p') ltac:(lia)) as (Ha & Hb). rewrite Ha, Hb in L.
    pose proof (pa_pos E0). pose proof (pb_pos E0). unfold Nn, Dn.
    assert (10 ^ Z.of_N p' * (den0 * pb k) * pb E0 <= num0 * pa k * pb E0) by nia.
    nia. }
  assert (F2 : Nn < 10 ^ (Z.of_N p' + 1) * Dn).
  { pose proof (pab_law (E0 + 1) k) as L. replace (E0 + 1 + k) with (Z.of_N p' + 1) in L by (unfold k; lia).
    destruct (pa_nonneg (Z.of_N p' + 1) ltac:(lia)) as (Ha & Hb). rewrite Ha, Hb in L.
    pose proof (pa_pos (E0 + 1)). pose proof (pb_pos (E0 + 1)). unfold Nn, Dn.
    assert (num0 * pa k * pb (E0 + 1) < 10 ^ (Z.of_N p' + 1) * (den0 * pb k) * pb (E0 + 1)) by nia.
    nia. }
  destruct (rhe_correct Nn Dn HNn HDn) as (Hrhe & _).
  pose proof (rhe_bounds Nn Dn (10 ^ Z.of_N p') (10 ^ (Z.of_N p' + 1)) HNn HDn F1 ltac:(lia)) as HD0.
  set (D0 := rhe Nn Dn) in *.
  pose proof (pow10_pos (Z.of_N p') ltac:(lia)) as Hp10.
  assert (Hsucc : 10 ^ (Z.of_N p' + 1) = 10 * 10 ^ Z.of_N p') by (rewrite Z.pow_add_r, Z.pow_1_r by lia; lia).
  destruct (N.le_gt_cases p cap) as [Hle|Hgt].
  - (* precision within the exact range: p' = p *)
    assert (Hp' : p' = p) by (unfold p'; lia). rewrite Hp' in *. rewrite N.sub_diag.
    destruct (10 ^ (Z.of_N p + 1) <=? D0) eqn:Ecarry.
    + (* carry: D0 = 10^(p+1), rendered as 1 0...0 with exponent E0+1 *)
      apply Z.leb_le in Ecarry. assert (HD0eq : D0 = 10 ^ (Z.of_N p + 1)) by lia.
      destruct (digits_then_zeros (10 ^ Z.of_N p) p 0 ltac:(lia)) as (L1 & L2 & L3).
      rewrite Z.mul_1_r in L3. unfold exp_correct. rewrite L3.
      destruct Hrhe as (Herr & _). rewrite HD0eq, Hsucc in Herr. unfold Nn, Dn in Herr.
      assert (Hcarry : is_rhe (10 ^ Z.of_N p) (num0 * pa (Z.of_N p - (E0 + 1))) (den0 * pb (Z.of_N p - (E0 + 1)))).
      { replace (Z.of_N p - (E0 + 1)) with (k - 1) by (unfold k; lia).
        clear - Herr Hden0 Hp10. set (P := 10 ^ Z.of_N p) in *.
        destruct (Z.le_gt_cases 1 k) as [Hk|Hk].
        - destruct (pa_nonneg k ltac:(lia)) as (Ha & Hb). destruct (pa_nonneg (k - 1) ltac:(lia)) as (Ha' & Hb').
          rewrite Ha, Hb in Herr. rewrite Ha', Hb'.
          assert (H10 : 10 ^ k = 10 * 10 ^ (k - 1)).
          { replace k with (1 + (k - 1)) at 1 by lia. rewrite Z.pow_add_r, Z.pow_1_r by lia. reflexivity. }
          rewrite H10 in Herr. set (A := 10 ^ (k - 1)) in *.
          replace (10 * P * (den0 * 1) - num0 * (10 * A)) with (10 * (P * (den0 * 1) - num0 * A)) in Herr by ring.
          apply carry_arith_a; [lia|exact Herr].
        - unfold pa, pb in *. rewrite (Z.max_r k 0) in Herr by lia. rewrite (Z.max_r (k - 1) 0) by lia.
          rewrite Z.pow_0_r in *. rewrite (Z.max_l (- k) 0) in Herr by lia. rewrite (Z.max_l (- (k - 1)) 0) by lia.
          assert (H10 : 10 ^ (- (k - 1)) = 10 * 10 ^ (- k)).
          { replace (- (k - 1)) with (1 + (- k)) by lia. rewrite Z.pow_add_r, Z.pow_1_r by lia. reflexivity. }
          rewrite H10. pose proof (pow10_pos (- k) ltac:(lia)) as HB. set (B := 10 ^ (- k)) in *. unfold is_rhe.
          replace (P * (den0 * (10 * B)) - num0 * 1) with (10 * P * (den0 * B) - num0 * 1) by ring.
          replace (den0 * (10 * B)) with (10 * (den0 * B)) by ring.
          apply carry_arith_b; [nia|exact Herr]. }
      repeat split; try assumption; try lia; apply Hcarry.
    + apply Z.leb_gt in Ecarry.
      destruct (digits_then_zeros D0 p 0 ltac:(lia)) as (L1 & L2 & L3).
      rewrite Z.mul_1_r in L3. unfold exp_correct. rewrite L3.
      replace (Z.of_N p - E0) with k by (unfold k; lia).
      repeat split; try assumption; try lia; apply Hrhe.
  - (* beyond the exact range: computed at cap, zeros appended *)
    assert (Hp' : p' = cap) by (unfold p'; lia).
    assert (Hk : Z.max (- e) 0 <= k) by (unfold k; rewrite Hp'; unfold cap; lia).
    destruct (pa_nonneg k ltac:(lia)) as (Ha & Hb).
    set (d := Z.max (- e) 0) in *.
    assert (Hexact : Nn = (num0 * 10 ^ (k - d) * 5 ^ d) * Dn).
    { unfold Nn, Dn. rewrite Ha, Hb, Z.mul_1_r. unfold den0. fold d.
      replace k with (d + (k - d)) at 1 by lia. rewrite Z.pow_add_r by lia.
      change 10 with (5 * 2) at 1. rewrite Z.pow_mul_l. ring. }
    assert (HD0v : D0 = num0 * 10 ^ (k - d) * 5 ^ d) by (unfold D0; rewrite Hexact; apply rhe_exact; exact HDn).
    assert (HD0N : D0 * Dn = Nn) by (rewrite Hexact, <- HD0v; reflexivity).
    assert (Hnocarry : D0 < 10 ^ (Z.of_N p' + 1)).
    { apply (Z.mul_lt_mono_pos_r Dn); [exact HDn|]. rewrite HD0N. exact F2. }
    replace (10 ^ (Z.of_N p' + 1) <=? D0) with false by (symmetry; apply Z.leb_gt; exact Hnocarry).
    destruct (digits_then_zeros D0 p' (p - p') ltac:(lia)) as (L1 & L2 & L3).
    unfold exp_correct. rewrite L3.
    assert (Hpp : Z.of_N p = Z.of_N p' + Z.of_N (p - p')) by lia.
    pose proof (pow10_pos (Z.of_N (p - p')) ltac:(lia)) as Hz.
    change (2 ^ Z.max (- e) 0) with den0. change (m * 2 ^ Z.max e 0) with num0.
    repeat split; try assumption.
    + rewrite L1. lia.
    + rewrite Hpp, Z.pow_add_r by lia. apply Z.mul_le_mono_nonneg_r; lia.
    + replace (Z.of_N p + 1) with ((Z.of_N p' + 1) + Z.of_N (p - p')) by lia. rewrite Z.pow_add_r by lia. apply Z.mul_lt_mono_pos_r; [exact Hz|exact Hnocarry].
    + replace (Z.of_N p - E0) with (k + Z.of_N (p - p')) by (unfold k; lia).
      destruct (pa_nonneg (k + Z.of_N (p - p')) ltac:(lia)) as (Ha2 & Hb2). rewrite Ha2, Hb2.
      rewrite Z.pow_add_r by lia. unfold Nn, Dn in HD0N. rewrite Ha, Hb in HD0N.
      replace (D0 * 10 ^ Z.of_N (p - p') * (den0 * 1) - num0 * (10 ^ k * 10 ^ Z.of_N (p - p')))
        with ((D0 * (den0 * 1) - num0 * 10 ^ k) * 10 ^ Z.of_N (p - p')) by ring.
      rewrite HD0N, Z.sub_diag, Z.mul_0_l.
      cbn. lia.
    + replace (Z.of_N p - E0) with (k + Z.of_N (p - p')) by (unfold k; lia).
      destruct (pa_nonneg (k + Z.of_N (p - p')) ltac:(lia)) as (Ha2 & Hb2). rewrite Ha2, Hb2.
      rewrite Z.pow_add_r by lia. unfold Nn, Dn in HD0N. rewrite Ha, Hb in HD0N.
      replace (D0 * 10 ^ Z.of_N (p - p') * (den0 * 1) - num0 * (10 ^ k * 10 ^ Z.of_N (p - p')))
        with ((D0 * (den0 * 1) - num0 * 10 ^ k) * 10 ^ Z.of_N (p - p')) by ring.
      rewrite HD0N, Z.sub_diag, Z.mul_0_l.
      cbn. lia.
Qed.

(* ---- the capped-precision path of render_float_exp (/repo a32ed0a + 913b069) *)
Local Open Scope N_scope.

(* the (digits, exponent) render_float_exp works with: the formatter at a capped
   precision, then zeros appended to the mantissa digits *)
Definition capped_exp (x : f64) (prec : N) : res (str * Z) :=
  let fmt_prec := N.min prec (fmt_prec_max - 1) in
  do de <- fmt_exp x fmt_prec; Ok (fst de ++ repeatN 48 (prec - fmt_prec), snd de).

Lemma exp_parts_cap m e p c :
  (Z.max (ilog10 m e + Z.max (- e) 0) 0 <= Z.of_N c)%Z -> c <= p ->
  exp_parts m e p = (fst (exp_parts m e c) ++ repeatN 48 (p - c), snd (exp_parts m e c)).
Proof.
  intros Hc Hcp. unfold exp_parts, ch_0. cbv zeta.
  set (q := Z.to_N (Z.max (ilog10 m e + Z.max (- e) 0) 0)).
  assert (Hq : q <= c) by (unfold q; lia).
  replace (N.min p q) with q by lia. replace (N.min c q) with q by lia.
  destruct (10 ^ (Z.of_N q + 1) <=? scaled_rhe m e (Z.of_N q - ilog10 m e))%Z; cbn [fst snd];
    rewrite <- app_assoc, <- repeatN_add; do 3 f_equal; lia.
Qed.

(* the decimal exponent of a number below 2^(53+max e 0) *)
Lemma ilog10_upper m e : (0 < m < 2 ^ 53)%Z -> (ilog10 m e < 53 + Z.max e 0)%Z.
Proof.
  intros [Hm Hm53]. destruct (ilog10_bracket m e Hm) as [HB _]. unfold le_p10 in HB.
  set (E := ilog10 m e) in *.
  destruct (Z.lt_ge_cases E (53 + Z.max e 0)) as [|Hge]; [assumption|exfalso].
  destruct (pa_nonneg E ltac:(lia)) as (Ha & Hb). rewrite Ha, Hb, Z.mul_1_r in HB.
  assert (H1 : (10 ^ (53 + Z.max e 0) <= 10 ^ E)%Z) by (apply Z.pow_le_mono_r; lia).
  assert (H2 : (2 ^ (53 + Z.max e 0) <= 10 ^ (53 + Z.max e 0))%Z) by (apply pow_2_le_10; lia).
  rewrite Z.pow_add_r in H2 by lia.
  pose proof (pow2_pos (Z.max e 0) ltac:(lia)). pose proof (pow2_pos (Z.max (- e) 0) ltac:(lia)).
  assert (m * 2 ^ Z.max e 0 < 2 ^ 53 * 2 ^ Z.max e 0)%Z by (apply Z.mul_lt_mono_pos_r; lia).
  assert (10 ^ E <= 10 ^ E * 2 ^ Z.max (- e) 0)%Z by nia.
  lia.
Qed.

Lemma capped_exp_finite s m e prec :
  (Z.pos m < 2 ^ 53)%Z -> (- 65000 <= e <= 65000)%Z ->
  capped_exp (S754_finite s m e) prec = Ok (exp_parts (Z.pos m) e prec).
Proof.
  intros Hm He. unfold capped_exp, fmt_exp. cbv zeta.
  pose proof (ilog10_upper (Z.pos m) e ltac:(lia)) as HE.
  replace (fmt_prec_max <=? N.min prec (fmt_prec_max - 1)) with false
    by (symmetry; apply N.leb_gt; unfold fmt_prec_max; lia).
  cbn [obind].
  destruct (N.le_gt_cases prec (fmt_prec_max - 1)) as [Hle|Hgt].
  - replace (N.min prec (fmt_prec_max - 1)) with prec by lia.
    rewrite N.sub_diag, repeatN_0, app_nil_r. destruct (exp_parts (Z.pos m) e prec); reflexivity.
  - replace (N.min prec (fmt_prec_max - 1)) with (fmt_prec_max - 1) by lia.
    rewrite (exp_parts_cap (Z.pos m) e prec (fmt_prec_max - 1)); [reflexivity| |lia].
    unfold fmt_prec_max. change (Z.of_N (65535 - 1)) with 65534%Z. lia.
Qed.

Lemma render_float_exp_digits value prec zp plus blank ensure_pt trim uppercase :
  render_float_exp value prec zp plus blank ensure_pt trim uppercase =
  do de <- capped_exp (f_abs value) prec;
  let ds := fst de in
  let mant := match ds with d0 :: rest => if prec =? 0 then [d0] else d0 :: 46 :: rest | [] => [] end in
  let mant := if negb (prec =? 0) && trim
              then (if ensure_pt then trim_end_zeros mant else strip_dot_suffix (trim_end_zeros mant))
              else mant in
  Ok (decorate_digits
        (mant ++ (if (prec =? 0) && ensure_pt then [46] else []) ++
         (if uppercase then 69 else 101) :: exp_suffix (snd de))
        (is_neg value) zp 0 plus blank).
Proof.
  unfold render_float_exp, capped_exp. cbv zeta.
  destruct (fmt_exp (f_abs value) (N.min prec (fmt_prec_max - 1))) as [[ds E]| | |]; reflexivity.
Qed.

(* %e digits: for every binary64 value m*2^e > 0 and EVERY precision, the p+1 digits and
   the exponent E handed to the decoration are the correctly rounded (half-even)
   scientific rendering: 10^p <= ds < 10^(p+1) and ds = m*2^e / 10^(E-p) rounded *)
Lemma exp_digits_correct s m e prec :
  (Z.pos m < 2 ^ 53)%Z -> (- 65000 <= e <= 65000)%Z ->
  exists ds E, capped_exp (S754_finite s m e) prec = Ok (ds, E) /\ exp_correct (Z.pos m) e prec ds E.
Proof.
  intros Hm He. rewrite (capped_exp_finite s m e prec Hm He).
  pose proof (exp_parts_correct (Z.pos m) e prec ltac:(lia)) as H.
  destruct (exp_parts (Z.pos m) e prec) as [ds E]. exists ds, E. split; [reflexivity|exact H].
Qed.

(* and the exponent: before rounding, E0 = ilog10 is the unique integer with
   10^E0 <= m*2^e < 10^(E0+1); the rendered E is E0, or E0+1 exactly when the digits
   round up to 10^(p+1) (then ds = 10^p) *)
Lemma exp_exponent_after_carry m e p : (0 < m)%Z ->
  let '(ds, E) := exp_parts m e p in
  let E0 := ilog10 m e in
  bracket E0 (m * 2 ^ Z.max e 0) (2 ^ Z.max (- e) 0) /\
  (E = E0 \/ (E = E0 + 1 /\ Z.of_N (str_value ds) = 10 ^ Z.of_N p))%Z.
Proof.
  intros Hm. pose proof (ilog10_bracket m e Hm) as HB.
  unfold exp_parts, ch_0. cbv zeta.
  set (E0 := ilog10 m e) in *. set (cap := Z.to_N (Z.max (E0 + Z.max (- e) 0) 0)).
  set (p' := N.min p cap).
  destruct (10 ^ (Z.of_N p' + 1) <=? scaled_rhe m e (Z.of_N p' - E0))%Z eqn:Ec.
  - split; [exact HB|]. right. split; [reflexivity|].
    destruct (digits_then_zeros (10 ^ Z.of_N p') p' (p - p')) as (_ & _ & L3).
    { pose proof (pow10_pos (Z.of_N p') ltac:(lia)). rewrite Z.pow_add_r, Z.pow_1_r by lia. lia. }
    rewrite L3, <- Z.pow_add_r by lia. f_equal. unfold p'. lia.
  - split; [exact HB|]. left. reflexivity.
Qed.

(* ============================================================ %g, precisely *)

(* which rendering %g / %G selects, as coded: P = the precision (6 when absent),
   X = 0 for zero, else floor(libm log10 |x|); the %e renderer with precision
   max(P,1)-1 when X < -4 or 0 <= X /\ P <= X, else the %f renderer with precision
   P -. (1 if |x| < 1 else the number of digits of trunc|x|); trailing zeros (and a
   bare point) are dropped unless # is given, and # forces the point *)
Lemma g_selects lf c fwv precv x :
  (ctype c = CGLower \/ ctype c = CGUpper) ->
  let fl := flags c in
  let P := match prec c with Some _ => precv | None => 6 end in
  let X := if f_is_zero x then 0%Z else lf (f_abs x) in
  let zp := if fl_zero fl && negb (fl_left fl) then fwv else 0 in
  do_format_code lf c fwv precv (VNum x) =
  if (X <? -4)%Z || ((0 <=? X)%Z && (Z.of_N P <=? X)%Z) then
    render_float_exp x (N.max P 1 - 1) zp (fl_plus fl) (fl_blank fl) (fl_alt fl) (negb (fl_alt fl))
                     (conv_eqb (ctype c) CGUpper)
  else
    render_float_def x
      (P - (if f_ltb (f_abs x) f_one then 1
            else match trunc_mag x with
                 | Some mag => lenN (display_int mag)
                 | None => lenN (display_abs (f_abs x)) end))
      zp (fl_plus fl) (fl_blank fl) (fl_alt fl) (negb (fl_alt fl)).
Proof.
  intros Hc. cbv zeta. unfold do_format_code. cbv zeta.
  destruct Hc as [Hc|Hc]; rewrite Hc; cbn [need_num obind]; destruct (prec c); reflexivity.
Qed.

(* trimming only removes trailing zeros *)
Lemma trim_end_zeros_spec s : exists k, s = trim_end_zeros s ++ repeatN 48 k.
Proof.
  induction s as [|c r IH]; [exists 0%N; reflexivity|].
  destruct IH as (k & Hk). cbn [trim_end_zeros].
  destruct (trim_end_zeros r) as [|t0 t] eqn:Et.
  - cbn [app] in Hk. destruct (c =? 48)%N eqn:Ec.
    + apply N.eqb_eq in Ec. subst c. exists (N.succ k). rewrite repeatN_succ, <- Hk. reflexivity.
    + exists k. cbn [app]. rewrite <- Hk. reflexivity.
  - exists k. cbn [app]. rewrite Hk at 1. reflexivity.
Qed.

Lemma trim_point ip fp : trim_end_zeros (ip ++ 46%N :: fp) = ip ++ 46%N :: trim_end_zeros fp.
Proof.
  induction ip as [|a ip IH]; cbn [app trim_end_zeros].
  - destruct (trim_end_zeros fp); reflexivity.
  - rewrite IH. destruct ip; reflexivity.
Qed.

Lemma strip_dot_cons a r : r <> [] -> strip_dot_suffix (a :: r) = a :: strip_dot_suffix r.
Proof. destruct r; [contradiction|reflexivity]. Qed.

Lemma strip_dot_point ip : strip_dot_suffix (ip ++ [46%N]) = ip.
Proof.
  induction ip as [|a ip IH]; [reflexivity|].
  cbn [app]. rewrite strip_dot_cons by (destruct ip; discriminate). rewrite IH. reflexivity.
Qed.

Lemma strip_dot_keep s c : c <> 46%N -> strip_dot_suffix (s ++ [c]) = s ++ [c].
Proof.
  intros Hc. induction s as [|a s IH]; cbn [app].
  - cbn. destruct (c =? 46)%N eqn:E; [apply N.eqb_eq in E; contradiction|reflexivity].
  - rewrite strip_dot_cons by (destruct s; discriminate). rewrite IH. reflexivity.
Qed.

(* what %g (without #) shows of a fixed rendering ip.fp: the fraction without its trailing
   zeros, no point when nothing is left — the number denoted is unchanged *)
Lemma g_trim_keeps_value ip fp : all_digits fp ->
  exists fp' k,
    fp = fp' ++ repeatN 48 k /\
    strip_dot_suffix (trim_end_zeros (ip ++ 46%N :: fp)) =
      (match fp' with [] => ip | _ => ip ++ 46%N :: fp' end) /\
    str_value (ip ++ fp) = (str_value (ip ++ fp') * 10 ^ k)%N.
Proof.
  intros Hall. destruct (trim_end_zeros_spec fp) as (k & Hk).
  exists (trim_end_zeros fp), k. split; [exact Hk|]. split.
  - rewrite trim_point.
    destruct (trim_end_zeros fp) as [|t0 t] eqn:Et.
    + apply strip_dot_point.
    + destruct (@exists_last _ (t0 :: t) ltac:(discriminate)) as (f & c & Hf). rewrite Hf.
      replace (ip ++ 46%N :: f ++ [c]) with ((ip ++ 46%N :: f) ++ [c]) by (rewrite <- app_assoc; reflexivity).
      apply strip_dot_keep.
      rewrite Hk, Hf in Hall. apply Forall_app in Hall. destruct Hall as [Hall _].
      apply Forall_app in Hall. destruct Hall as [_ Hc]. inversion Hc; subst. lia.
  - rewrite Hk at 1. rewrite app_assoc. apply str_value_trail_zeros.
Qed.

(* where the code deviates from C's %g (the implementation answers the same; Python gives
   "5", "1e+03", "0.000123456"): precision 0 is not treated as 1; the exponent is that of
   the unrounded value; below 1 the fraction keeps P-1 digits, not P significant ones *)
Lemma g_deviations :
  format_run [37; 46; 48; 103]%N (ASingle (VNum (f_of_Z 5))) = Ok [53; 101; 43; 48; 48]%N /\
  format_run [37; 46; 51; 103]%N (ASingle (VNum (f_of_bits 0x408f3f3333333333))) = Ok [49; 48; 48; 48]%N /\
  format_run [37; 103]%N (ASingle (VNum (f_of_bits 0x3f202e7ef70994dd))) = Ok [48; 46; 48; 48; 48; 49; 50]%N.
Proof. vm_compute. repeat split. Qed.

(* ============================================================ Display: shortest digits *)
Local Open Scope Z_scope.

(* the candidates tried at digit count n *)
Definition cand_lo (m e E n : Z) : Z :=
  (m * 2 ^ (Z.max e 0) * 10 ^ (Z.max (- (E - n + 1)) 0)) / (2 ^ (Z.max (- e) 0) * 10 ^ (Z.max (E - n + 1) 0)).

(* the rule implemented: first digit count with a candidate inside the rounding interval
   (i.e. reading back as the same double); when both neighbours are inside, the closer
   one, an exact tie going UP (Rust's flt2dec) *)
Lemma shortest_tie_rule f m e E b n :
  let k := E - n + 1 in
  let lo := cand_lo m e E n in
  in_interval m e b lo k = true -> in_interval m e b (lo + 1) k = true ->
  shortest_search (S f) m e E b n =
  if dist m e lo k <? dist m e (lo + 1) k then (lo, k) else (lo + 1, k).
Proof.
  cbv zeta. intros Hlo Hhi. cbn [shortest_search]. fold (cand_lo m e E n).
  rewrite Hlo, Hhi. cbn [andb]. unfold Z.ltb.
  destruct (dist m e (cand_lo m e E n) (E - n + 1) ?= dist m e (cand_lo m e E n + 1) (E - n + 1)); reflexivity.
Qed.

(* soundness: unless the 17-digit budget runs out, the digits returned lie inside the
   rounding interval of the double, and no shorter digit string tried before did *)
Lemma shortest_search_sound : forall fuel m e E b n,
  let '(d, k) := shortest_search fuel m e E b n in
  (in_interval m e b d k = true /\
   exists n', n <= n' /\ k = E - n' + 1 /\
     forall j, n <= j < n' ->
       in_interval m e b (cand_lo m e E j) (E - j + 1) = false /\
       in_interval m e b (cand_lo m e E j + 1) (E - j + 1) = false)
  \/ k = E - (n + Z.of_nat fuel) + 1.
Proof.
  induction fuel as [|f IH]; intros m e E b n.
  - cbn [shortest_search]. right. cbn. lia.
  - cbn [shortest_search]. fold (cand_lo m e E n).
    destruct (in_interval m e b (cand_lo m e E n) (E - n + 1)) eqn:Hlo;
    destruct (in_interval m e b (cand_lo m e E n + 1) (E - n + 1)) eqn:Hhi; cbn [andb].
    + destruct (dist m e (cand_lo m e E n) (E - n + 1) ?= dist m e (cand_lo m e E n + 1) (E - n + 1));
        left; (split; [assumption|exists n; repeat split; try lia]).
    + left. split; [assumption|exists n; repeat split; try lia].
    + left. split; [assumption|exists n; repeat split; try lia].
    + specialize (IH m e E b (n + 1)). destruct (shortest_search f m e E b (n + 1)) as [d k].
      destruct IH as [(Hin & n' & Hn' & Hk & Hmin)|Hk].
      * left. split; [assumption|]. exists n'. repeat split; try lia.
        -- destruct (Z.eq_dec j n) as [->|]; [assumption|apply Hmin; lia].
        -- destruct (Z.eq_dec j n) as [->|]; [assumption|apply Hmin; lia].
      * right. lia.
Qed.

(* the tie that raised a false alarm: 10^15 + 1/4 has two 17-digit neighbours at the same
   distance; Rust prints ...000.3 *)
Lemma display_tie_up :
  display (f_of_bits 0x430c6bf526340002) = [49; 48; 48; 48; 48; 48; 48; 48; 48; 48; 48; 48; 48; 48; 48; 48; 46; 51]%N.
Proof. vm_compute. reflexivity. Qed.
