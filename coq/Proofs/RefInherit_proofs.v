(* Proofs/RefInherit_proofs.v — C02/C07: inheritance laws over the reference interpreter.
   Objects are layer lists, most derived first; `a + b` is `b_layers ++ a_layers`. *)
From RJ Require Import Base.Outcome Base.F64 Model.Token Model.Ast Model.RefCore Model.RefValue Model.RefEval.
From RJ Require Import Proofs.RefSem_proofs Proofs.RefSem_laws.
From Coq Require Import Lia.
Local Open Scope N_scope.

(* ---- layer-list algebra ---- *)
Lemma dropN_0 {A} (l : list A) : dropN l 0 = l.
Proof. destruct l; reflexivity. Qed.

Lemma find_field_0 ls n : find_field ls 0 n = find_field_in ls 0 n.
Proof. unfold find_field. rewrite dropN_0. reflexivity. Qed.

Definition shift (j : N) (r : N * field) : N * field := (fst r + j, snd r).

Lemma find_field_in_shift : forall l k j n, find_field_in l (k + j) n = option_map (shift j) (find_field_in l k n).
Proof.
  induction l as [|x r IH]; intros k j n; simpl; [reflexivity|].
  destruct (assoc n (l_fields x)); [reflexivity|]. replace (k + j + 1) with (k + 1 + j) by lia. apply IH.
Qed.

Lemma find_field_in_app : forall l1 l2 k n,
  find_field_in (l1 ++ l2) k n =
  match find_field_in l1 k n with Some r => Some r | None => find_field_in l2 (k + lenN l1) n end.
Proof.
  induction l1 as [|x r IH]; intros l2 k n; simpl.
  - unfold lenN. simpl. replace (k + 0) with k by lia. reflexivity.
  - destruct (assoc n (l_fields x)); [reflexivity|]. rewrite IH. destruct (find_field_in r (k + 1) n); [reflexivity|].
    f_equal. unfold lenN. simpl length. lia.
Qed.

(* the most derived definition wins: a field defined in the extension b of  a + b  is b's *)
Lemma override_wins : forall la lb n, has_field lb 0 n = true -> find_field (lb ++ la) 0 n = find_field lb 0 n.
Proof.
  intros la lb n H. unfold has_field in H. rewrite !find_field_0 in *. rewrite find_field_in_app.
  destruct (find_field_in lb 0 n); [reflexivity | discriminate].
Qed.

(* ... and a field the extension does not define is the base's, one extension further down *)
Lemma inherited_field : forall la lb n, has_field lb 0 n = false ->
  find_field (lb ++ la) 0 n = option_map (shift (lenN lb)) (find_field la 0 n).
Proof.
  intros la lb n H. unfold has_field in H. rewrite !find_field_0 in *. rewrite find_field_in_app.
  destruct (find_field_in lb 0 n); [discriminate|]. rewrite <- find_field_in_shift. reflexivity.
Qed.

Lemma field_vis_in_found : forall l n, field_vis_in l n true <> None.
Proof.
  induction l as [|x r IH]; intros n; simpl; [discriminate|].
  destruct (assoc n (l_fields x)) as [f|]; [destruct (f_vis f); try discriminate; apply IH | apply IH].
Qed.

Lemma field_vis_in_app : forall l1 l2 n fd,
  field_vis_in (l1 ++ l2) n fd =
  match field_vis_in l1 n fd with
  | Some VisDefault => field_vis_in l2 n true
  | Some v => Some v
  | None => field_vis_in l2 n fd
  end.
Proof.
  induction l1 as [|x r IH]; intros l2 n fd; simpl.
  - destruct fd; reflexivity.
  - destruct (assoc n (l_fields x)) as [f|]; [|apply IH]. destruct (f_vis f); try reflexivity.
    rewrite IH. pose proof (field_vis_in_found r n). destruct (field_vis_in r n true); [reflexivity | congruence].
Qed.

(* ---- a + b + c ---- *)
Lemma add_objects la ca lb cb d c r :
  bin_op BAdd (VObj la ca) (VObj lb cb) d c r = ([], Ok (VObj (lb ++ la) false)).
Proof. reflexivity. Qed.

Lemma run_task_mono f c t d r : run_task f c t d = r -> snd r <> OutOfFuel -> forall f', (f <= f')%nat -> run_task f' c t d = r.
Proof.
  intros H Hn f' Hle. subst r. apply (run_task_fuel_le c f f' Hle t d).
  destruct (snd (run_task f c t d)); try reflexivity. congruence.
Qed.

Lemma step_eval f c en x d :
  run_task (S f) c (TEval en x) d = (let* v := do_eval en x d in ret (AVal v)) c (run_task f c).
Proof. reflexivity. Qed.

Lemma do_eval_add en l r d :
  do_eval en (CBin BAdd l r) d = (let* lv := eval en l d in let* rv := eval en r d in bin_op BAdd lv rv d).
Proof. reflexivity. Qed.

Lemma plus_objects : forall f c en a b d ta tb la lb ca cb,
  run_task f c (TEval en a) d = (ta, Ok (AVal (VObj la ca))) ->
  run_task f c (TEval en b) d = (tb, Ok (AVal (VObj lb cb))) ->
  run_task (S f) c (TEval en (CBin BAdd a b)) d = (ta ++ tb, Ok (AVal (VObj (lb ++ la) false))).
Proof.
  intros f c en a b d ta tb la lb ca cb Ha Hb. rewrite step_eval, do_eval_add.
  unfold eval, call, bind. cbv beta. rewrite Ha. simpl. rewrite Hb. simpl. rewrite !app_nil_r. reflexivity.
Qed.

(* inheritance is associative: whenever a, b, c evaluate to objects, (a + b) + c and a + (b + c)
   evaluate to the same object — same layers, same trace — (layer lists append associatively) *)
Theorem plus_assoc : forall f c en a b c0 d ta tb tc la lb lc ca cb cc,
  run_task f c (TEval en a) d = (ta, Ok (AVal (VObj la ca))) ->
  run_task f c (TEval en b) d = (tb, Ok (AVal (VObj lb cb))) ->
  run_task f c (TEval en c0) d = (tc, Ok (AVal (VObj lc cc))) ->
  run_task (S (S f)) c (TEval en (CBin BAdd (CBin BAdd a b) c0)) d = (ta ++ tb ++ tc, Ok (AVal (VObj (lc ++ lb ++ la) false)))
  /\ run_task (S (S f)) c (TEval en (CBin BAdd a (CBin BAdd b c0))) d = (ta ++ tb ++ tc, Ok (AVal (VObj (lc ++ lb ++ la) false))).
Proof.
  intros f c en a b c0 d ta tb tc la lb lc ca cb cc Ha Hb Hc.
  assert (Ha' := run_task_mono _ _ _ _ _ Ha ltac:(discriminate) (S f) ltac:(lia)).
  assert (Hc' := run_task_mono _ _ _ _ _ Hc ltac:(discriminate) (S f) ltac:(lia)).
  split.
  - rewrite (plus_objects (S f) c en (CBin BAdd a b) c0 d _ _ _ _ _ _ (plus_objects f c en a b d _ _ _ _ _ _ Ha Hb) Hc').
    rewrite <- !app_assoc. reflexivity.
  - rewrite (plus_objects (S f) c en a (CBin BAdd b c0) d _ _ _ _ _ _ Ha' (plus_objects f c en b c0 d _ _ _ _ _ _ Hb Hc)).
    rewrite <- !app_assoc. reflexivity.
Qed.

(* ---- the empty object is a unit of + for everything that inspects the layer list ---- *)
Lemma dropN_app_le {A} : forall (l1 l2 : list A) from, from <= lenN l1 -> dropN (l1 ++ l2) from = dropN l1 from ++ l2.
Proof.
  induction l1 as [|x r IH]; intros l2 from H.
  - unfold lenN in H. simpl in H. assert (from = 0) by lia. subst. simpl. apply dropN_0.
  - simpl. destruct (from =? 0) eqn:E; [reflexivity|]. apply IH. unfold lenN in *. simpl length in H. apply N.eqb_neq in E. lia.
Qed.

Lemma find_field_in_nofields : forall e k n, l_fields e = [] -> find_field_in [e] k n = None.
Proof. intros e k n H. simpl. rewrite H. reflexivity. Qed.

(* {} + o : the empty layer sits below o.  Every lookup (self.f, super.f from any layer of o,
   `in`, objectHasEx, objectFieldsEx, std.length, the field order of manifestation and of ==)
   sees exactly o's layers, indices included.  The one corner: o's base layer now HAS a super
   object, so `super.f` there reports UnknownObjectField instead of SuperWithoutSuperObject. *)
Theorem plus_empty_l : forall e lo, l_fields e = [] ->
  (forall from n, from <= lenN lo -> find_field (lo ++ [e]) from n = find_field lo from n) /\
  (forall from n, from <= lenN lo -> has_field (lo ++ [e]) from n = has_field lo from n) /\
  (forall n, field_vis (lo ++ [e]) n = field_vis lo n) /\
  (forall n, is_visible (lo ++ [e]) n = is_visible lo n) /\
  all_names (lo ++ [e]) = all_names lo /\
  visible_names (lo ++ [e]) = visible_names lo.
Proof.
  intros e lo He.
  assert (Hf : forall from n, from <= lenN lo -> find_field (lo ++ [e]) from n = find_field lo from n).
  { intros from n Hle. unfold find_field. rewrite dropN_app_le by exact Hle. rewrite find_field_in_app.
    destruct (find_field_in (dropN lo from) from n); [reflexivity|]. apply find_field_in_nofields. exact He. }
  assert (Hv : forall n, field_vis (lo ++ [e]) n = field_vis lo n).
  { intros n. unfold field_vis. rewrite field_vis_in_app. simpl. rewrite He. simpl.
    destruct (field_vis_in lo n false) as [[| |]|]; reflexivity. }
  assert (Hi : forall n, is_visible (lo ++ [e]) n = is_visible lo n) by (intros n; unfold is_visible; rewrite Hv; reflexivity).
  assert (Ha : all_names (lo ++ [e]) = all_names lo).
  { unfold all_names. rewrite flat_map_app. simpl. rewrite He. simpl. rewrite app_nil_r. reflexivity. }
  repeat split; auto.
  - intros from n Hle. unfold has_field. rewrite Hf by exact Hle. reflexivity.
  - unfold visible_names. rewrite Ha. apply filter_ext. exact Hi.
Qed.

(* o + {} : the empty layer sits on top.  Same names, visibilities and membership; every field is
   found one layer further down; no corner (the empty layer has no body that could say super). *)
Theorem plus_empty_r : forall e lo, l_fields e = [] ->
  (forall n, find_field (e :: lo) 0 n = option_map (shift 1) (find_field lo 0 n)) /\
  (forall n, has_field (e :: lo) 0 n = has_field lo 0 n) /\
  (forall n, field_vis (e :: lo) n = field_vis lo n) /\
  (forall n, is_visible (e :: lo) n = is_visible lo n) /\
  all_names (e :: lo) = all_names lo /\
  visible_names (e :: lo) = visible_names lo.
Proof.
  intros e lo He.
  assert (Hf : forall n, find_field (e :: lo) 0 n = option_map (shift 1) (find_field lo 0 n)).
  { intros n. rewrite !find_field_0. simpl. rewrite He. simpl. apply (find_field_in_shift lo 0 1 n). }
  assert (Hv : forall n, field_vis (e :: lo) n = field_vis lo n) by (intros n; unfold field_vis; simpl; rewrite He; reflexivity).
  assert (Hi : forall n, is_visible (e :: lo) n = is_visible lo n) by (intros n; unfold is_visible; rewrite Hv; reflexivity).
  assert (Ha : all_names (e :: lo) = all_names lo) by (unfold all_names; simpl; rewrite He; reflexivity).
  repeat split; auto.
  - intros n. unfold has_field. rewrite Hf. destruct (find_field lo 0 n); reflexivity.
  - unfold visible_names. rewrite Ha. apply filter_ext. exact Hi.
Qed.

(* ---- self is late bound ---- *)
Lemma do_eval_field en e name d :
  do_eval en (CField e name) d =
  (let* v := eval en e d in match v with VObj ls chk => get_field ls chk name d | _ => kind "FieldOfNonObject" end).
Proof. reflexivity. Qed.

Lemma self_value f c en ls i chk d :
  lookup_obj en = Some (ls, i, chk) -> run_task (S f) c (TEval en CSelf) d = ([], Ok (AVal (VObj ls chk))).
Proof. intros H. rewrite step_eval. unfold do_eval, bind. rewrite H. reflexivity. Qed.

(* In every environment whose innermost object frame is (ls, i) — the body of any field, assert or
   object local of ANY layer i of the object ls — `self.g` is the lookup of g from the top of the
   WHOLE layer list ls (not from layer i): same trace, same value or error. *)
Theorem self_field_is_top_lookup : forall f c en ls i g d t o,
  lookup_obj en = Some (ls, i, true) -> fits c d -> has_field ls 0 g = true ->
  run_task (S f) c (TField ls 0 g) (d + 1) = (t, o) ->
  (forall v, o = Ok (AVal v) -> run_task (S (S f)) c (TEval en (CField CSelf g)) d = (t, Ok (AVal v))) /\
  (forall e, o = Err e -> run_task (S (S f)) c (TEval en (CField CSelf g)) d = (t, Err e)).
Proof.
  intros f c en ls i g d t o Hl Hfit Hh Hr. unfold fits in Hfit.
  pose proof (self_value f c en ls i true d Hl) as Hs.
  split; intros x ->; rewrite step_eval, do_eval_field; remember (run_task (S f) c) as rec;
    unfold eval, call, bind; cbv beta; rewrite Hs; simpl; unfold get_field; rewrite Hh;
    unfold field_at, enter, run_asserts, call, bind, ret; cbv beta; rewrite Hfit; simpl; rewrite Hr; simpl;
    rewrite ?app_nil_r; reflexivity.
Qed.

Lemma field_env_self ls i l f : lookup_obj (field_env ls i l f) = Some (ls, i, true).
Proof. reflexivity. Qed.

(* self is final: in  a + b  (layers lb ++ la), a field body of a's layer that says self.g gets b's
   g whenever b defines g — the lookup starts at the most derived layer and stops at the first
   definition *)
Theorem self_is_final : forall f c la lb i l fld g d t o,
  fits c d -> has_field lb 0 g = true ->
  run_task (S f) c (TField (lb ++ la) 0 g) (d + 1) = (t, o) ->
  find_field (lb ++ la) 0 g = find_field lb 0 g /\
  (forall v, o = Ok (AVal v) ->
     run_task (S (S f)) c (TEval (field_env (lb ++ la) i l fld) (CField CSelf g)) d = (t, Ok (AVal v))) /\
  (forall e, o = Err e ->
     run_task (S (S f)) c (TEval (field_env (lb ++ la) i l fld) (CField CSelf g)) d = (t, Err e)).
Proof.
  intros f c la lb i l fld g d t o Hfit Hh Hr. split; [apply override_wins; exact Hh|].
  apply (self_field_is_top_lookup f c _ (lb ++ la) i g d t o (field_env_self _ _ _ _) Hfit); [|exact Hr].
  unfold has_field. rewrite override_wins by exact Hh. exact Hh.
Qed.
