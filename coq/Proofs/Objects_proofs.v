(* Proofs/Objects_proofs.v — lemmas about Model/Objects.v (first stage: the
   model of the tree as found, before the repair of get_fields_order). *)
From RJ Require Import Base.Outcome Model.Objects.
From Coq Require Import Lia.
Local Open Scope N_scope.

Lemma extend_assoc : forall a b c, extend (extend a b) c = extend a (extend b c).
Proof.
  intros a b c. unfold extend; cbn [self_layer super_layers]. f_equal.
  repeat rewrite <- app_assoc. reflexivity.
Qed.

(* std.objectRemoveKey({a:: 1}, "a") + {a: 2} *)
Definition nm_a : name := [97].
Definition witness_obj : obj :=
  extend (remove_key {| self_layer := [(nm_a, Normal {| f_vis := Hidden; f_plus := false; f_body := BNum 1 |})];
                        super_layers := [] |} nm_a)
         {| self_layer := [(nm_a, Normal {| f_vis := Default; f_plus := false; f_body := BNum 2 |})];
            super_layers := [] |}.

Lemma fields_order_agree_visible_refuted :
  exists o n, has_visible_field o n = Ok true /\ ~ In n (get_visible_fields_order o).
Proof.
  exists witness_obj, nm_a. split; [vm_compute; reflexivity | vm_compute; tauto].
Qed.
