(* Proofs/Objects_proofs.v — lemmas about Model/Objects.v.

   Plan: every lookup function of the model (find_field, has_visible_field,
   get_fields_order) is shown equal to a function of one structural object, the
   *effective chain* of a name: the Normal fields of that name met when walking
   the layers from a start layer downwards and jumping over [depth] layers after
   each Removed marker.  The algebraic laws (extension, removal) are then laws of
   effective chains. *)
From RJ Require Import Base.Outcome Model.Objects.
From Coq Require Import Lia Sorted.
Local Open Scope N_scope.

(* ------------------------------------------------------------------ names *)

Lemma name_compare_eq : forall a b, name_compare a b = Eq <-> a = b.
Proof.
  induction a as [|x a IH]; destruct b as [|y b]; cbn; split; intros H; try discriminate; auto.
  - destruct (x ?= y) eqn:E; try discriminate.
    apply N.compare_eq in E. apply IH in H. subst. reflexivity.
  - injection H as -> ->. rewrite N.compare_refl. apply IH. reflexivity.
Qed.

Lemma name_compare_refl : forall a, name_compare a a = Eq.
Proof. intros a. apply name_compare_eq. reflexivity. Qed.

Lemma name_compare_antisym : forall a b, name_compare b a = CompOpp (name_compare a b).
Proof.
  induction a as [|x a IH]; destruct b as [|y b]; cbn; auto.
  rewrite (N.compare_antisym x y). destruct (x ?= y); cbn; auto.
Qed.

Definition name_lt (a b : name) : Prop := name_compare a b = Lt.

Lemma name_lt_trans : forall a b c, name_lt a b -> name_lt b c -> name_lt a c.
Proof.
  unfold name_lt. induction a as [|x a IH]; destruct b as [|y b]; destruct c as [|z c]; cbn; intros H1 H2;
    try discriminate; auto.
  destruct (x ?= y) eqn:E1; try discriminate; destruct (y ?= z) eqn:E2; try discriminate.
  - apply N.compare_eq in E1, E2. subst. rewrite N.compare_refl. eauto.
  - apply N.compare_eq in E1. subst. rewrite E2. reflexivity.
  - apply N.compare_eq in E2. subst. rewrite E1. reflexivity.
  - rewrite N.compare_lt_iff in E1, E2. assert (E : x < z) by lia.
    rewrite <- N.compare_lt_iff in E. rewrite E. reflexivity.
Qed.

Lemma name_lt_irrefl : forall a, ~ name_lt a a.
Proof. unfold name_lt. intros a H. rewrite name_compare_refl in H. discriminate. Qed.

Lemma name_eqb_eq : forall a b, name_eqb a b = true <-> a = b.
Proof.
  intros a b. unfold name_eqb. rewrite <- name_compare_eq.
  destruct (name_compare a b); split; intros H; auto; discriminate.
Qed.

Lemma name_eqb_refl : forall a, name_eqb a a = true.
Proof. intros a. apply name_eqb_eq. reflexivity. Qed.

Lemma name_eqb_neq : forall a b, name_eqb a b = false <-> a <> b.
Proof.
  intros a b. split.
  - intros H E. apply name_eqb_eq in E. congruence.
  - intros H. destruct (name_eqb a b) eqn:E; auto. apply name_eqb_eq in E. contradiction.
Qed.

(* ------------------------------------------------------------------ layers *)

Definition wf_layer (l : layer) : Prop := NoDup (map fst l).
Definition wf_obj (o : obj) : Prop := Forall wf_layer (layers o).

Lemma layer_get_none : forall l n, ~ In n (map fst l) -> layer_get l n = None.
Proof.
  induction l as [|[k f] r IH]; cbn; intros n H; auto.
  destruct (name_eqb k n) eqn:E.
  - apply name_eqb_eq in E. subst. exfalso. apply H. left. reflexivity.
  - apply IH. intros HI. apply H. right. exact HI.
Qed.

Lemma layer_get_in : forall l n f, layer_get l n = Some f -> In (n, f) l.
Proof.
  induction l as [|[k g] r IH]; cbn; intros n f H; try discriminate.
  destruct (name_eqb k n) eqn:E.
  - apply name_eqb_eq in E. injection H as ->. subst. left. reflexivity.
  - right. apply IH. exact H.
Qed.

Lemma layers_extend : forall a b, layers (extend a b) = layers b ++ layers a.
Proof. intros a b. unfold layers, extend. cbn. reflexivity. Qed.

Lemma layers_length : forall o, length (layers o) = S (length (super_layers o)).
Proof. reflexivity. Qed.

Definition marker (o : obj) (n : name) : layer := [(n, Removed (N.of_nat (length (layers o))))].

Lemma layers_remove_key : forall o n, layers (remove_key o n) = marker o n :: layers o.
Proof.
  intros o n. unfold layers, remove_key, marker. cbn [self_layer super_layers].
  replace (N.of_nat (length (super_layers o)) + 1) with (N.of_nat (length (self_layer o :: super_layers o)))
    by (cbn [length]; lia).
  reflexivity.
Qed.

Lemma extend_assoc : forall a b c, extend (extend a b) c = extend a (extend b c).
Proof.
  intros a b c. unfold extend; cbn [self_layer super_layers asserts]. f_equal.
  - repeat rewrite <- app_assoc. reflexivity.
  - rewrite app_assoc. reflexivity.
Qed.

Lemma wf_extend : forall a b, wf_obj a -> wf_obj b -> wf_obj (extend a b).
Proof.
  unfold wf_obj. intros a b Ha Hb. rewrite layers_extend. apply Forall_app. split; assumption.
Qed.

Lemma wf_remove_key : forall o n, wf_obj o -> wf_obj (remove_key o n).
Proof.
  unfold wf_obj. intros o n H. rewrite layers_remove_key. constructor; auto.
  unfold wf_layer, marker. cbn. constructor; [intros [] | constructor].
Qed.

Lemma wf_empty : wf_obj empty_obj.
Proof. unfold wf_obj, layers, empty_obj. cbn. constructor; [constructor | constructor]. Qed.

(* ------------------------------------------------------------------ effective chains *)

(* the Normal fields of [n] met from the head of [ls] (whose index is [idx]) downwards,
   the first [skip] layers being hidden by a Removed marker above *)
Fixpoint eff_chain (ls : list layer) (idx skip : N) (n : name) : list (N * fdata) :=
  match ls with
  | [] => []
  | l :: r =>
      if skip =? 0 then
        match layer_get l n with
        | Some (Normal d) => (idx, d) :: eff_chain r (idx + 1) 0 n
        | Some (Removed depth) => eff_chain r (idx + 1) depth n
        | None => eff_chain r (idx + 1) 0 n
        end
      else eff_chain r (idx + 1) (skip - 1) n
  end.

Definition chain (o : obj) (n : name) : list (N * fdata) := eff_chain (layers o) 0 0 n.

Definition shift (k : N) (p : N * fdata) : N * fdata := (fst p + k, snd p).

Lemma skipn_skipn' : forall A (l : list A) x y, skipn x (skipn y l) = skipn (y + x) l.
Proof.
  intros A l x y. revert l. induction y as [|y IH]; intros l; cbn [skipn plus]; auto.
  destruct l; [rewrite skipn_nil; reflexivity | apply IH].
Qed.

Lemma nth_error_skipn' : forall A (l : list A) k i, nth_error (skipn k l) i = nth_error l (k + i).
Proof.
  intros A l k. revert l. induction k as [|k IH]; intros l i; cbn [skipn plus]; auto.
  destruct l; [destruct i; reflexivity | apply IH].
Qed.

Lemma skipn_to_nat_succ : forall A (x : A) r s, s <> 0 ->
  skipn (N.to_nat s) (x :: r) = skipn (N.to_nat (s - 1)) r.
Proof.
  intros A x r s H. replace (N.to_nat s) with (S (N.to_nat (s - 1))) by lia. reflexivity.
Qed.

Lemma eff_chain_skip : forall ls idx skip n,
  eff_chain ls idx skip n = eff_chain (skipn (N.to_nat skip) ls) (idx + skip) 0 n.
Proof.
  induction ls as [|l r IH]; intros idx skip n.
  - rewrite skipn_nil. reflexivity.
  - destruct (N.eq_dec skip 0) as [->|Hs].
    + cbn [N.to_nat skipn]. rewrite N.add_0_r. reflexivity.
    + cbn [eff_chain]. apply N.eqb_neq in Hs as Hb. rewrite Hb.
      rewrite skipn_to_nat_succ by exact Hs. rewrite IH. f_equal. lia.
Qed.

Lemma eff_chain_shift : forall ls idx skip k n,
  eff_chain ls (idx + k) skip n = map (shift k) (eff_chain ls idx skip n).
Proof.
  induction ls as [|l r IH]; intros idx skip k n; cbn [eff_chain map]; auto.
  replace (idx + k + 1) with (idx + 1 + k) by lia.
  destruct (skip =? 0); [|apply IH].
  destruct (layer_get l n) as [[d|depth]|]; cbn [map]; try apply IH.
  f_equal. apply IH.
Qed.

Lemma eff_chain_index_ge : forall ls idx skip n p, In p (eff_chain ls idx skip n) -> idx <= fst p.
Proof.
  induction ls as [|l r IH]; intros idx skip n p H; cbn [eff_chain] in H; [contradiction|].
  destruct (skip =? 0).
  - destruct (layer_get l n) as [[d|depth]|].
    + destruct H as [<-|H]; [cbn; lia | apply IH in H; lia].
    + apply IH in H; lia.
    + apply IH in H; lia.
  - apply IH in H; lia.
Qed.

(* the chain lists, in order, fields stored under that name in that layer *)
Lemma eff_chain_sound : forall ls idx skip n j d,
  In (j, d) (eff_chain ls idx skip n) ->
  exists l, nth_error ls (N.to_nat (j - idx)) = Some l /\ layer_get l n = Some (Normal d) /\ idx <= j.
Proof.
  induction ls as [|l r IH]; intros idx skip n j d H; cbn [eff_chain] in H; [contradiction|].
  assert (step : In (j, d) (eff_chain r (idx + 1) (if skip =? 0 then match layer_get l n with Some (Removed depth) => depth | _ => 0 end else skip - 1) n) ->
                 exists l0, nth_error (l :: r) (N.to_nat (j - idx)) = Some l0 /\ layer_get l0 n = Some (Normal d) /\ idx <= j).
  { intros H'. apply IH in H'. destruct H' as (l0 & Hn & Hg & Hle). exists l0. repeat split; auto; try lia.
    replace (N.to_nat (j - idx)) with (S (N.to_nat (j - (idx + 1)))) by lia. exact Hn. }
  destruct (skip =? 0).
  - destruct (layer_get l n) as [[d0|depth]|] eqn:G.
    + destruct H as [E|H]; [|apply step; exact H].
      injection E as <- <-. exists l. rewrite N.sub_diag. cbn. repeat split; auto. lia.
    + apply step; exact H.
    + apply step; exact H.
  - apply step; exact H.
Qed.

Lemma eff_chain_app_closed : forall ls idx skip n,
  eff_chain (ls ++ [[]]) idx skip n = eff_chain ls idx skip n.
Proof.
  induction ls as [|l r IH]; intros idx skip n; cbn [app eff_chain].
  - cbn. destruct (skip =? 0); reflexivity.
  - destruct (skip =? 0); [|apply IH].
    destruct (layer_get l n) as [[d|depth]|]; try apply IH. f_equal. apply IH.
Qed.

Lemma eff_chain_skip_prefix : forall ls1 ls2 idx n,
  eff_chain (ls1 ++ ls2) idx (N.of_nat (length ls1)) n = eff_chain ls2 (idx + N.of_nat (length ls1)) 0 n.
Proof.
  intros ls1 ls2 idx n. rewrite eff_chain_skip. rewrite Nat2N.id.
  rewrite skipn_app, skipn_all, Nat.sub_diag. cbn [app skipn]. reflexivity.
Qed.

(* ------------------------------------------------------------------ find_field *)

Lemma nthN_spec : forall A (l : list A) i,
  nthN l i = nth_error l (N.to_nat i).
Proof.
  intros A l i. unfold nthN. destruct (N.of_nat (length l) <=? i) eqn:E; auto.
  apply N.leb_le in E. symmetry. apply nth_error_None. lia.
Qed.

Lemma skipn_nth_error_cons : forall A (l : list A) k x,
  nth_error l k = Some x -> skipn k l = x :: skipn (S k) l.
Proof.
  induction l as [|y r IH]; intros k x H; destruct k; cbn in *; try discriminate.
  - injection H as ->. reflexivity.
  - apply IH. exact H.
Qed.

Lemma find_loop_spec : forall fuel supers i n,
  1 <= i -> (1 <= fuel)%nat -> (S (length supers) <= fuel + N.to_nat (i - 1))%nat ->
  find_loop fuel supers i n = Ok (hd_error (eff_chain (skipn (N.to_nat (i - 1)) supers) i 0 n)).
Proof.
  induction fuel as [|fuel IH]; intros supers i n Hi Hf1 Hf; [lia|].
  assert (Hlen : forall k x, nth_error supers k = Some x -> (k < length supers)%nat)
    by (intros k x Hk; apply nth_error_Some; congruence).
  - cbn [find_loop]. assert (Hz : (i =? 0) = false) by (apply N.eqb_neq; lia). rewrite Hz.
    rewrite nthN_spec. destruct (nth_error supers (N.to_nat (i - 1))) as [layer|] eqn:Hn.
    + rewrite (skipn_nth_error_cons _ _ _ _ Hn). cbn [eff_chain N.eqb].
      destruct (layer_get layer n) as [[d|depth]|] eqn:G; cbn [hd_error]; auto.
      * apply Hlen in Hn. rewrite IH by lia. f_equal. f_equal.
        rewrite (eff_chain_skip _ (i + 1) depth). rewrite skipn_skipn'. f_equal; [|lia].
        f_equal. lia.
      * apply Hlen in Hn. rewrite IH by lia. f_equal. f_equal. f_equal. f_equal. lia.
    + apply nth_error_None in Hn. rewrite skipn_all2 by lia. reflexivity.
Qed.

Theorem find_field_spec : forall o i n,
  find_field o i n = Ok (hd_error (eff_chain (skipn (N.to_nat i) (layers o)) i 0 n)).
Proof.
  intros o i n. unfold find_field, loop_fuel, layers.
  destruct (i =? 0) eqn:Hz.
  - apply N.eqb_eq in Hz. subst i. cbn [N.to_nat skipn eff_chain N.eqb].
    destruct (layer_get (self_layer o) n) as [[d|depth]|]; cbn [hd_error]; auto.
    + rewrite find_loop_spec by lia. f_equal. f_equal.
      rewrite (eff_chain_skip _ (0 + 1) depth). f_equal; [|lia]. f_equal. lia.
    + rewrite find_loop_spec by lia. f_equal.
  - apply N.eqb_neq in Hz. rewrite find_loop_spec by lia.
    rewrite skipn_to_nat_succ by exact Hz. reflexivity.
Qed.

Corollary find_field_chain : forall o n, find_field o 0 n = Ok (hd_error (chain o n)).
Proof. intros o n. rewrite find_field_spec. reflexivity. Qed.

Corollary has_field_spec : forall o i n,
  has_field o i n = Ok (match eff_chain (skipn (N.to_nat i) (layers o)) i 0 n with [] => false | _ => true end).
Proof.
  intros o i n. unfold has_field. rewrite find_field_spec. cbn [obind].
  destruct (eff_chain _ _ _ _); reflexivity.
Qed.

(* what a successful lookup returns *)
Theorem find_field_found : forall o i n j d,
  find_field o i n = Ok (Some (j, d)) ->
  i <= j /\ exists l, nth_error (layers o) (N.to_nat j) = Some l /\ layer_get l n = Some (Normal d).
Proof.
  intros o i n j d H. rewrite find_field_spec in H. injection H as H.
  destruct (eff_chain (skipn (N.to_nat i) (layers o)) i 0 n) as [|p c] eqn:E; cbn in H; try discriminate.
  injection H as ->. assert (HI : In (j, d) (eff_chain (skipn (N.to_nat i) (layers o)) i 0 n)) by (rewrite E; left; reflexivity).
  apply eff_chain_sound in HI. destruct HI as (l & Hn & Hg & Hle). split; auto.
  exists l. split; auto. rewrite nth_error_skipn' in Hn. rewrite <- Hn. f_equal. lia.
Qed.

(* a lookup started at layer i+1 (super, seen from layer i) never consults layers <= i *)
Theorem super_starts_left : forall o o' i n,
  skipn (S (N.to_nat i)) (layers o) = skipn (S (N.to_nat i)) (layers o') ->
  find_field o (i + 1) n = find_field o' (i + 1) n.
Proof.
  intros o o' i n H. rewrite !find_field_spec.
  replace (N.to_nat (i + 1)) with (S (N.to_nat i)) by lia. rewrite H. reflexivity.
Qed.

(* ------------------------------------------------------------------ visibility *)

(* the `:` `::` `:::` rule, from base to derived: a derived field of default
   visibility keeps the visibility it inherits *)
Definition inherit (base derived : vis) : vis :=
  match derived with Default => base | v => v end.

(* [top_down]: visibilities of the effective chain, most derived first *)
Definition resolve (top_down : list vis) : option vis :=
  match rev top_down with
  | [] => None
  | b :: r => Some (fold_left inherit r b)
  end.

Definition visible_of (r : option vis) : bool :=
  match r with
  | None => false
  | Some Hidden => false
  | Some _ => true
  end.

Definition chain_vis (c : list (N * fdata)) : list vis := map (fun p => f_vis (snd p)) c.

Lemma resolve_cons : forall v c,
  resolve (v :: c) = Some (match v with
                           | Default => match resolve c with Some x => x | None => Default end
                           | _ => v
                           end).
Proof.
  intros v c. unfold resolve. cbn [rev]. destruct (rev c) as [|b r]; cbn [app].
  - cbn. destruct v; reflexivity.
  - rewrite fold_left_app. cbn [fold_left]. unfold inherit at 1. destruct v; reflexivity.
Qed.

Lemma resolve_nil : resolve [] = None.
Proof. reflexivity. Qed.

Lemma resolve_none : forall c, resolve c = None <-> c = [].
Proof.
  intros c. split; [|intros ->; reflexivity].
  destruct c; auto. rewrite resolve_cons. discriminate.
Qed.

(* has_visible_field's walk: most derived first, with the [found] flag *)
Fixpoint vis_walk (c : list vis) (found : bool) : bool :=
  match c with
  | [] => found
  | Default :: r => vis_walk r true
  | Hidden :: _ => false
  | ForceVisible :: _ => true
  end.

Lemma vis_walk_resolve : forall c found,
  vis_walk c found = match resolve c with None => found | Some v => visible_of (Some v) end.
Proof.
  induction c as [|v c IH]; intros found; auto.
  rewrite resolve_cons. destruct v; cbn [vis_walk]; auto.
  rewrite IH. destruct (resolve c) as [x|]; reflexivity.
Qed.

Lemma hv_loop_spec : forall fuel supers i n found,
  1 <= i -> (1 <= fuel)%nat -> (S (length supers) <= fuel + N.to_nat (i - 1))%nat ->
  hv_loop fuel supers i n found =
  Ok (vis_walk (chain_vis (eff_chain (skipn (N.to_nat (i - 1)) supers) i 0 n)) found).
Proof.
  induction fuel as [|fuel IH]; intros supers i n found Hi Hf1 Hf; [lia|].
  assert (Hlen : forall k x, nth_error supers k = Some x -> (k < length supers)%nat)
    by (intros k x Hk; apply nth_error_Some; congruence).
  cbn [hv_loop]. assert (Hz : (i =? 0) = false) by (apply N.eqb_neq; lia). rewrite Hz.
  rewrite nthN_spec. destruct (nth_error supers (N.to_nat (i - 1))) as [layer|] eqn:Hn.
  - rewrite (skipn_nth_error_cons _ _ _ _ Hn). cbn [eff_chain N.eqb]. apply Hlen in Hn.
    destruct (layer_get layer n) as [[d|depth]|] eqn:G.
    + cbn [chain_vis map snd vis_walk]. destruct (f_vis d); auto.
      rewrite IH by lia. replace (N.to_nat (i + 1 - 1)) with (S (N.to_nat (i - 1))) by lia. reflexivity.
    + rewrite IH by lia.
      rewrite (eff_chain_skip _ (i + 1) depth). rewrite skipn_skipn'.
      replace (N.to_nat (i + depth + 1 - 1)) with (S (N.to_nat (i - 1)) + N.to_nat depth)%nat by lia.
      replace (i + 1 + depth) with (i + depth + 1) by lia. reflexivity.
    + rewrite IH by lia. replace (N.to_nat (i + 1 - 1)) with (S (N.to_nat (i - 1))) by lia. reflexivity.
  - apply nth_error_None in Hn. rewrite skipn_all2 by lia. reflexivity.
Qed.

Lemma has_visible_field_walk : forall o n,
  has_visible_field o n = Ok (vis_walk (chain_vis (chain o n)) false).
Proof.
  intros o n. unfold has_visible_field, chain, layers, loop_fuel. cbn [eff_chain N.eqb].
  destruct (layer_get (self_layer o) n) as [[d|depth]|].
  - cbn [chain_vis map snd vis_walk]. destruct (f_vis d); auto.
    rewrite hv_loop_spec by lia. reflexivity.
  - rewrite hv_loop_spec by lia.
    rewrite (eff_chain_skip _ (0 + 1) depth).
    replace (N.to_nat (0 + depth + 1 - 1)) with (N.to_nat depth) by lia.
    replace (0 + 1 + depth) with (0 + depth + 1) by lia. reflexivity.
  - rewrite hv_loop_spec by lia. reflexivity.
Qed.

Theorem visibility_rule : forall o n,
  has_visible_field o n = Ok (visible_of (resolve (chain_vis (chain o n)))).
Proof.
  intros o n. rewrite has_visible_field_walk, vis_walk_resolve.
  destruct (resolve (chain_vis (chain o n))); reflexivity.
Qed.

(* ------------------------------------------------------------------ the BTreeMap *)

Lemma bt_get_set_same : forall m n s, bt_get (bt_set m n s) n = Some s.
Proof.
  induction m as [|[k v] r IH]; intros n s; cbn [bt_set bt_get].
  - rewrite name_eqb_refl. reflexivity.
  - destruct (name_compare n k) eqn:C; cbn [bt_get].
    + rewrite name_eqb_refl. reflexivity.
    + rewrite name_eqb_refl. reflexivity.
    + assert (name_eqb k n = false).
      { apply name_eqb_neq. intros ->. rewrite name_compare_refl in C. discriminate. }
      rewrite H. apply IH.
Qed.

Lemma bt_get_set_other : forall m n s k, k <> n -> bt_get (bt_set m n s) k = bt_get m k.
Proof.
  induction m as [|[k0 v] r IH]; intros n s k Hk; cbn [bt_set bt_get].
  - assert (name_eqb n k = false) by (apply name_eqb_neq; congruence). rewrite H. reflexivity.
  - destruct (name_compare n k0) eqn:C; cbn [bt_get].
    + apply name_compare_eq in C. subst k0.
      assert (name_eqb n k = false) by (apply name_eqb_neq; congruence). rewrite H. reflexivity.
    + assert (name_eqb n k = false) by (apply name_eqb_neq; congruence). rewrite H. reflexivity.
    + destruct (name_eqb k0 k); auto.
Qed.

Definition bt_sorted (m : btmap) : Prop := StronglySorted name_lt (map fst m).

Lemma bt_set_keys : forall m n s k, In k (map fst (bt_set m n s)) -> k = n \/ In k (map fst m).
Proof.
  induction m as [|[k0 v] r IH]; intros n s k H; cbn [bt_set] in H.
  - destruct H as [<-|[]]. left. reflexivity.
  - destruct (name_compare n k0) eqn:C; cbn [map fst In] in *.
    + destruct H as [<-|H]; auto.
    + destruct H as [<-|H]; auto.
    + destruct H as [<-|H]; auto. apply IH in H. destruct H; auto.
Qed.

Lemma bt_set_sorted : forall m n s, bt_sorted m -> bt_sorted (bt_set m n s).
Proof.
  unfold bt_sorted. induction m as [|[k v] r IH]; intros n s H; cbn [bt_set map fst].
  - constructor; constructor.
  - cbn [map fst] in H. apply StronglySorted_inv in H. destruct H as [Hr Hk].
    destruct (name_compare n k) eqn:C; cbn [map fst].
    + apply name_compare_eq in C. subst k. constructor; assumption.
    + constructor; [constructor; assumption|]. constructor; [exact C|].
      rewrite Forall_forall in *. intros x Hx. eapply name_lt_trans; [exact C | apply Hk; exact Hx].
    + constructor; [apply IH; exact Hr|]. rewrite Forall_forall in *. intros x Hx.
      apply bt_set_keys in Hx. destruct Hx as [->|Hx]; [|apply Hk; exact Hx].
      unfold name_lt. rewrite name_compare_antisym, C. reflexivity.
Qed.

Lemma sorted_nodup : forall l, StronglySorted name_lt l -> NoDup l.
Proof.
  induction l as [|x r IH]; intros H; constructor.
  - apply StronglySorted_inv in H. destruct H as [_ Hk]. intros HI.
    rewrite Forall_forall in Hk. apply Hk in HI. exact (name_lt_irrefl _ HI).
  - apply IH. apply StronglySorted_inv in H. tauto.
Qed.

Lemma bt_get_in : forall m n s, bt_get m n = Some s -> In (n, s) m.
Proof.
  induction m as [|[k v] r IH]; cbn [bt_get]; intros n s H; try discriminate.
  destruct (name_eqb k n) eqn:E.
  - apply name_eqb_eq in E. injection H as ->. subst. left. reflexivity.
  - right. apply IH. exact H.
Qed.

Lemma bt_in_get : forall m n s, NoDup (map fst m) -> In (n, s) m -> bt_get m n = Some s.
Proof.
  induction m as [|[k v] r IH]; cbn [bt_get map fst]; intros n s Hd HI; [contradiction|].
  apply NoDup_cons_iff in Hd. destruct Hd as [Hk Hd]. destruct HI as [E|HI].
  - injection E as -> ->. rewrite name_eqb_refl. reflexivity.
  - destruct (name_eqb k n) eqn:E.
    + apply name_eqb_eq in E. subst k. exfalso. apply Hk. apply (in_map fst) in HI. exact HI.
    + apply IH; assumption.
Qed.

(* ------------------------------------------------------------------ get_fields_order, per name *)

(* the Vacant / Occupied arms as a transition of one name's state *)
Definition step (st : option fstate) (layer_i : N) (f : field) : option fstate :=
  match st with
  | None => Some (field_to_state f layer_i)
  | Some (SNormal Default sk) =>
      if sk <? layer_i then
        match f with
        | Normal d => Some (SNormal (f_vis d) 0)
        | Removed depth => Some (SNormal Default (layer_i + depth))
        end
      else st
  | Some (SNormal _ _) => st
  | Some (SRemoved r) => if r <? layer_i then Some (field_to_state f layer_i) else st
  end.

Fixpoint name_state (ls : list layer) (i : N) (st : option fstate) (n : name) : option fstate :=
  match ls with
  | [] => st
  | l :: r => name_state r (i + 1) (match layer_get l n with Some f => step st i f | None => st end) n
  end.

Lemma merge_entry_same : forall i m n f, bt_get (merge_entry i m (n, f)) n = step (bt_get m n) i f.
Proof.
  intros i m n f. unfold merge_entry, step.
  destruct (bt_get m n) as [[v sk|r]|] eqn:G.
  - destruct v; try (rewrite G; reflexivity).
    destruct (sk <? i); [|rewrite G; reflexivity].
    destruct f; apply bt_get_set_same.
  - destruct (r <? i); [apply bt_get_set_same | rewrite G; reflexivity].
  - apply bt_get_set_same.
Qed.

Lemma merge_entry_other : forall i m n f k, k <> n -> bt_get (merge_entry i m (n, f)) k = bt_get m k.
Proof.
  intros i m n f k Hk. unfold merge_entry.
  destruct (bt_get m n) as [[v sk|r]|].
  - destruct v; auto. destruct (sk <? i); auto. destruct f; apply bt_get_set_other; exact Hk.
  - destruct (r <? i); auto. apply bt_get_set_other; exact Hk.
  - apply bt_get_set_other; exact Hk.
Qed.

Lemma merge_entry_sorted : forall i m nf, bt_sorted m -> bt_sorted (merge_entry i m nf).
Proof.
  intros i m [n f] H. unfold merge_entry.
  destruct (bt_get m n) as [[v sk|r]|].
  - destruct v; auto. destruct (sk <? i); auto. destruct f; apply bt_set_sorted; exact H.
  - destruct (r <? i); auto. apply bt_set_sorted; exact H.
  - apply bt_set_sorted; exact H.
Qed.

(* iteration over a hash map with unique keys: only the entry of [n] matters for [n] *)
Lemma fold_layer_get : forall i l m n, wf_layer l ->
  bt_get (fold_left (merge_entry i) l m) n =
  match layer_get l n with Some f => step (bt_get m n) i f | None => bt_get m n end.
Proof.
  induction l as [|[k f] r IH]; intros m n Hwf; cbn [fold_left layer_get]; auto.
  unfold wf_layer in Hwf. cbn [map fst] in Hwf. apply NoDup_cons_iff in Hwf. destruct Hwf as [Hk Hr].
  rewrite IH by exact Hr. destruct (name_eqb k n) eqn:E.
  - apply name_eqb_eq in E. subst k. rewrite (layer_get_none r n Hk). apply merge_entry_same.
  - apply name_eqb_neq in E. rewrite merge_entry_other by congruence. reflexivity.
Qed.

Lemma fold_layer_sorted : forall i l m, bt_sorted m -> bt_sorted (fold_left (merge_entry i) l m).
Proof.
  induction l as [|nf r IH]; intros m H; cbn [fold_left]; auto. apply IH. apply merge_entry_sorted. exact H.
Qed.

Lemma merge_layers_get : forall ls i m n, Forall wf_layer ls ->
  bt_get (merge_layers m i ls) n = name_state ls i (bt_get m n) n.
Proof.
  induction ls as [|l r IH]; intros i m n H; cbn [merge_layers name_state]; auto.
  apply Forall_cons_iff in H. destruct H as [Hl Hr].
  rewrite IH by exact Hr. rewrite fold_layer_get by exact Hl. reflexivity.
Qed.

Lemma merge_layers_sorted : forall ls i m, bt_sorted m -> bt_sorted (merge_layers m i ls).
Proof.
  induction ls as [|l r IH]; intros i m H; cbn [merge_layers]; auto. apply IH. apply fold_layer_sorted. exact H.
Qed.

Definition self_entry (m : btmap) (nf : name * field) : btmap := bt_set m (fst nf) (field_to_state (snd nf) 0).

Lemma fold_self_get : forall l m n, wf_layer l ->
  bt_get (fold_left self_entry l m) n =
  match layer_get l n with Some f => Some (field_to_state f 0) | None => bt_get m n end.
Proof.
  induction l as [|[k f] r IH]; intros m n Hwf; cbn [fold_left layer_get]; auto.
  unfold wf_layer in Hwf. cbn [map fst] in Hwf. apply NoDup_cons_iff in Hwf. destruct Hwf as [Hk Hr].
  rewrite IH by exact Hr. destruct (name_eqb k n) eqn:E.
  - apply name_eqb_eq in E. subst k. rewrite (layer_get_none r n Hk). unfold self_entry. cbn [fst snd].
    apply bt_get_set_same.
  - apply name_eqb_neq in E. unfold self_entry. cbn [fst snd]. rewrite bt_get_set_other by congruence. reflexivity.
Qed.

Lemma fold_self_sorted : forall l m, bt_sorted m -> bt_sorted (fold_left self_entry l m).
Proof.
  induction l as [|nf r IH]; intros m H; cbn [fold_left]; auto. apply IH. apply bt_set_sorted. exact H.
Qed.

Lemma all_fields_sorted : forall o, bt_sorted (all_fields o).
Proof.
  intros o. unfold all_fields. apply merge_layers_sorted. apply fold_self_sorted. constructor.
Qed.

Lemma all_fields_get : forall o n, wf_obj o -> bt_get (all_fields o) n = name_state (layers o) 0 None n.
Proof.
  intros o n H. unfold wf_obj, layers in H. apply Forall_cons_iff in H. destruct H as [Hs Hr].
  unfold all_fields. rewrite merge_layers_get by exact Hr.
  change (fun (m : btmap) (nf : name * field) => bt_set m (fst nf) (field_to_state (snd nf) 0)) with self_entry.
  rewrite fold_self_get by exact Hs. unfold layers. cbn [name_state bt_get].
  destruct (layer_get (self_layer o) n); reflexivity.
Qed.

(* the state of a name against its effective chain *)
Definition final_vis (st : option fstate) : option vis :=
  match st with Some (SNormal v _) => Some v | _ => None end.

Definition st_res (st : option fstate) (c : list vis) : option vis :=
  match st with
  | None | Some (SRemoved _) => resolve c
  | Some (SNormal Default _) => resolve (Default :: c)
  | Some (SNormal v _) => Some v
  end.

Definition st_skip (st : option fstate) (i : N) : N :=
  match st with
  | None => 0
  | Some (SRemoved r) => r + 1 - i
  | Some (SNormal _ sk) => sk + 1 - i
  end.

Ltac norm_skip i :=
  repeat match goal with
  | |- context [0 + 1 - (i + 1)] => replace (0 + 1 - (i + 1)) with 0 by lia
  | |- context [i + ?d + 1 - (i + 1)] => replace (i + d + 1 - (i + 1)) with d by lia
  end.

Lemma name_state_chain : forall ls i st n,
  final_vis (name_state ls i st n) = st_res st (chain_vis (eff_chain ls i (st_skip st i) n)).
Proof.
  induction ls as [|l r IH]; intros i st n.
  - cbn [name_state eff_chain chain_vis map]. destruct st as [[v sk|rr]|]; cbn; auto. destruct v; reflexivity.
  - cbn [name_state]. rewrite IH. cbn [eff_chain].
    destruct st as [[v sk|rr]|]; cbn [st_skip].
    + (* SNormal *)
      destruct (sk + 1 - i =? 0) eqn:Z.
      * apply N.eqb_eq in Z. assert (Hlt : (sk <? i) = true) by (apply N.ltb_lt; lia).
        destruct (layer_get l n) as [[d|depth]|] eqn:G; cbn [step].
        -- destruct v; try reflexivity.
           rewrite Hlt. cbn [st_res st_skip]. norm_skip i. unfold chain_vis. cbn [map snd].
           rewrite ?resolve_cons. destruct (f_vis d); rewrite ?resolve_cons; reflexivity.
        -- destruct v; try reflexivity.
           rewrite Hlt. cbn [st_res st_skip]. norm_skip i. reflexivity.
        -- destruct v; try reflexivity. cbn [st_res st_skip].
           replace (sk + 1 - (i + 1)) with 0 by lia. reflexivity.
      * apply N.eqb_neq in Z. assert (Hlt : (sk <? i) = false) by (apply N.ltb_ge; lia).
        assert (Hst : match layer_get l n with Some f => step (Some (SNormal v sk)) i f | None => Some (SNormal v sk) end
                      = Some (SNormal v sk)).
        { destruct (layer_get l n); auto. cbn [step]. destruct v; auto. rewrite Hlt. reflexivity. }
        rewrite Hst. cbn [st_skip]. replace (sk + 1 - (i + 1)) with (sk + 1 - i - 1) by lia. reflexivity.
    + (* SRemoved *)
      destruct (rr + 1 - i =? 0) eqn:Z.
      * apply N.eqb_eq in Z. assert (Hlt : (rr <? i) = true) by (apply N.ltb_lt; lia).
        destruct (layer_get l n) as [[d|depth]|] eqn:G; cbn [step].
        -- rewrite Hlt. cbn [field_to_state st_res st_skip]. norm_skip i. unfold chain_vis. cbn [map snd].
           rewrite ?resolve_cons. destruct (f_vis d); rewrite ?resolve_cons; reflexivity.
        -- rewrite Hlt. cbn [field_to_state st_res st_skip]. norm_skip i. reflexivity.
        -- cbn [st_res st_skip]. replace (rr + 1 - (i + 1)) with 0 by lia. reflexivity.
      * apply N.eqb_neq in Z. assert (Hlt : (rr <? i) = false) by (apply N.ltb_ge; lia).
        assert (Hst : match layer_get l n with Some f => step (Some (SRemoved rr)) i f | None => Some (SRemoved rr) end
                      = Some (SRemoved rr)).
        { destruct (layer_get l n); auto. cbn [step]. rewrite Hlt. reflexivity. }
        rewrite Hst. cbn [st_res st_skip]. replace (rr + 1 - (i + 1)) with (rr + 1 - i - 1) by lia. reflexivity.
    + (* nothing yet *)
      cbn [N.eqb]. destruct (layer_get l n) as [[d|depth]|] eqn:G; cbn [step field_to_state].
      * cbn [st_res st_skip]. norm_skip i. unfold chain_vis. cbn [map snd].
        rewrite ?resolve_cons. destruct (f_vis d); rewrite ?resolve_cons; reflexivity.
      * cbn [st_res st_skip]. norm_skip i. reflexivity.
      * reflexivity.
Qed.

(* the recorded visibility of a name is the `:` `::` `:::` rule over its effective chain *)
Theorem fields_order_entry : forall o n v, wf_obj o ->
  (In (n, v) (get_fields_order o) <-> resolve (chain_vis (chain o n)) = Some v).
Proof.
  intros o n v Hwf.
  pose proof (all_fields_sorted o) as Hs. pose proof (sorted_nodup _ Hs) as Hd.
  pose proof (all_fields_get o n Hwf) as Hg.
  pose proof (name_state_chain (layers o) 0 None n) as Hc. cbn [st_skip st_res] in Hc.
  fold (chain o n) in Hc. rewrite <- Hg in Hc. rewrite <- Hc. clear Hc Hg.
  unfold get_fields_order. generalize dependent (all_fields o). intros m _ Hd.
  split.
  - intros HI. assert (exists sk, In (n, SNormal v sk) m) as [sk Hm].
    { clear Hd. induction m as [|[k s] r IH]; cbn [filter_map] in HI; [contradiction|].
      destruct s as [v0 sk0|rr]; cbn [state_entry] in HI.
      - destruct HI as [E|HI]; [injection E as -> ->; exists sk0; left; reflexivity|].
        destruct (IH HI) as [sk Hx]. exists sk. right. exact Hx.
      - destruct (IH HI) as [sk Hx]. exists sk. right. exact Hx. }
    rewrite (bt_in_get _ _ _ Hd Hm). reflexivity.
  - intros Hf. destruct (bt_get m n) as [[v0 sk|rr]|] eqn:G; cbn [final_vis] in Hf; try discriminate.
    injection Hf as ->. apply bt_get_in in G. clear Hd.
    induction m as [|[k s] r IH]; [contradiction|]. cbn [filter_map]. destruct G as [E|G].
    + injection E as -> ->. cbn [state_entry]. left. reflexivity.
    + destruct (state_entry (k, s)); [right|]; apply IH; exact G.
Qed.

Lemma filter_map_keys_sorted : forall (m : btmap),
  StronglySorted name_lt (map fst m) -> StronglySorted name_lt (map fst (filter_map state_entry m)).
Proof.
  induction m as [|[k s] r IH]; intros H; cbn [filter_map map]; [constructor|].
  cbn [map fst] in H. apply StronglySorted_inv in H. destruct H as [Hr Hk].
  destruct s as [v sk|rr]; cbn [state_entry]; [|apply IH; exact Hr].
  cbn [map fst]. constructor; [apply IH; exact Hr|].
  rewrite Forall_forall in *. intros x Hx. apply Hk.
  clear -Hx. induction r as [|[k' s'] r IH]; cbn [filter_map map] in Hx; [contradiction|].
  destruct s'; cbn [state_entry map fst] in Hx.
  - destruct Hx as [<-|Hx]; [left; reflexivity | right; apply IH; exact Hx].
  - right. apply IH. exact Hx.
Qed.

Theorem fields_order_sorted : forall o, StronglySorted name_lt (map fst (get_fields_order o)).
Proof. intros o. apply filter_map_keys_sorted. apply all_fields_sorted. Qed.

Lemma visible_sublist_sorted : forall (l : list (name * vis)),
  StronglySorted name_lt (map fst l) ->
  StronglySorted name_lt
    (filter_map (fun nv : name * vis => match snd nv with Hidden => None | _ => Some (fst nv) end) l).
Proof.
  induction l as [|[k v] r IH]; intros H; cbn [filter_map]; [constructor|].
  cbn [map fst] in H. apply StronglySorted_inv in H. destruct H as [Hr Hk].
  assert (Hsub : forall x, In x (filter_map (fun nv : name * vis => match snd nv with Hidden => None | _ => Some (fst nv) end) r) -> In x (map fst r)).
  { clear. induction r as [|[k' v'] r IH]; cbn [filter_map]; intros x Hx; [contradiction|].
    destruct v'; cbn [snd fst] in Hx; cbn [map fst].
    - destruct Hx as [<-|Hx]; [left; reflexivity | right; apply IH; exact Hx].
    - right. apply IH. exact Hx.
    - destruct Hx as [<-|Hx]; [left; reflexivity | right; apply IH; exact Hx]. }
  destruct v; cbn [snd fst]; try (apply IH; exact Hr);
    (constructor; [apply IH; exact Hr|]; rewrite Forall_forall in *; intros x Hx; apply Hk; apply Hsub; exact Hx).
Qed.

Theorem visible_fields_order_sorted : forall o, StronglySorted name_lt (get_visible_fields_order o).
Proof. intros o. apply visible_sublist_sorted. apply fields_order_sorted. Qed.

Lemma in_visible_iff : forall (l : list (name * vis)) n,
  In n (filter_map (fun nv : name * vis => match snd nv with Hidden => None | _ => Some (fst nv) end) l) <->
  exists v, In (n, v) l /\ v <> Hidden.
Proof.
  induction l as [|[k v] r IH]; intros n; cbn [filter_map].
  - split; [contradiction | intros (v & [] & _)].
  - destruct v; cbn [snd fst].
    + split.
      * intros [<-|H]; [exists Default; split; [left; reflexivity | discriminate]|].
        apply IH in H. destruct H as (v & H & Hv). exists v. split; [right; exact H | exact Hv].
      * intros (v & [E|H] & Hv); [injection E as -> <-; left; reflexivity|]. right. apply IH. exists v. tauto.
    + rewrite IH. split.
      * intros (v & H & Hv). exists v. split; [right; exact H | exact Hv].
      * intros (v & [E|H] & Hv); [injection E as -> <-; contradiction|]. exists v. tauto.
    + split.
      * intros [<-|H]; [exists ForceVisible; split; [left; reflexivity | discriminate]|].
        apply IH in H. destruct H as (v & H & Hv). exists v. split; [right; exact H | exact Hv].
      * intros (v & [E|H] & Hv); [injection E as -> <-; left; reflexivity|]. right. apply IH. exists v. tauto.
Qed.

(* get_fields_order lists exactly the names find_field finds ... *)
Theorem fields_order_agree : forall o n, wf_obj o ->
  (In n (map fst (get_fields_order o)) <-> exists j d, find_field o 0 n = Ok (Some (j, d))).
Proof.
  intros o n Hwf. rewrite find_field_chain. split.
  - intros H. apply in_map_iff in H. destruct H as ([k v] & <- & H). cbn [fst].
    apply fields_order_entry in H; [|exact Hwf].
    destruct (chain o k) as [|[j d] c]; [discriminate|]. exists j, d. reflexivity.
  - intros (j & d & H). injection H as H.
    destruct (resolve (chain_vis (chain o n))) as [v|] eqn:R.
    + apply fields_order_entry in R; [|exact Hwf]. apply (in_map fst) in R. exact R.
    + apply resolve_none in R. destruct (chain o n); [discriminate|]. discriminate.
Qed.

(* ... and the visible ones are exactly those has_visible_field accepts *)
Theorem fields_order_agree_visible : forall o n, wf_obj o ->
  (In n (get_visible_fields_order o) <-> has_visible_field o n = Ok true).
Proof.
  intros o n Hwf. unfold get_visible_fields_order. rewrite in_visible_iff, visibility_rule. split.
  - intros (v & H & Hv). apply fields_order_entry in H; [|exact Hwf]. rewrite H.
    destruct v; try contradiction; reflexivity.
  - intros H. injection H as H. destruct (resolve (chain_vis (chain o n))) as [v|] eqn:R; [|discriminate].
    exists v. split; [apply fields_order_entry; assumption|]. intros ->. discriminate.
Qed.

(* ------------------------------------------------------------------ sorted lists are determined by their entries *)

Lemma sorted_keys_ext : forall (l1 l2 : list (name * vis)),
  StronglySorted name_lt (map fst l1) -> StronglySorted name_lt (map fst l2) ->
  (forall n v, In (n, v) l1 <-> In (n, v) l2) -> l1 = l2.
Proof.
  induction l1 as [|[k1 v1] t1 IH]; intros l2 H1 H2 Hiff.
  - destruct l2 as [|[k2 v2] t2]; auto. exfalso. apply (Hiff k2 v2). left. reflexivity.
  - destruct l2 as [|[k2 v2] t2]; [exfalso; apply (Hiff k1 v1); left; reflexivity|].
    cbn [map fst] in H1, H2. apply StronglySorted_inv in H1, H2.
    destruct H1 as [S1 F1], H2 as [S2 F2]. rewrite Forall_forall in F1, F2.
    assert (Hk : k1 = k2).
    { destruct (proj1 (Hiff k1 v1) (or_introl eq_refl)) as [E|HI]; [injection E; auto|].
      destruct (proj2 (Hiff k2 v2) (or_introl eq_refl)) as [E|HJ]; [injection E; auto|].
      apply (in_map fst) in HI, HJ. cbn [fst] in HI, HJ. apply F2 in HI. apply F1 in HJ.
      exfalso. exact (name_lt_irrefl _ (name_lt_trans _ _ _ HI HJ)). }
    subst k2.
    assert (Hv : v1 = v2).
    { destruct (proj1 (Hiff k1 v1) (or_introl eq_refl)) as [E|HI]; [injection E; auto|].
      apply (in_map fst) in HI. cbn [fst] in HI. apply F2 in HI. exfalso. exact (name_lt_irrefl _ HI). }
    subst v2. f_equal. apply IH; auto. intros n v. split; intros HI.
    + destruct (proj1 (Hiff n v) (or_intror HI)) as [E|HJ]; auto.
      injection E as -> ->. apply (in_map fst) in HI. cbn [fst] in HI. apply F1 in HI.
      exfalso. exact (name_lt_irrefl _ HI).
    + destruct (proj2 (Hiff n v) (or_intror HI)) as [E|HJ]; auto.
      injection E as -> ->. apply (in_map fst) in HI. cbn [fst] in HI. apply F2 in HI.
      exfalso. exact (name_lt_irrefl _ HI).
Qed.

(* equal chains (up to layer numbering) give equal orders *)
Lemma fields_order_ext : forall o e k, wf_obj o -> wf_obj e ->
  (forall n, chain e n = map (shift k) (chain o n)) ->
  get_fields_order e = get_fields_order o.
Proof.
  intros o e k Ho He H. apply sorted_keys_ext; try apply fields_order_sorted.
  intros n v. rewrite !fields_order_entry by assumption. rewrite H.
  unfold chain_vis. rewrite map_map. cbn [shift snd]. reflexivity.
Qed.

(* ------------------------------------------------------------------ results under renumbering of layers *)

Definition res_shift (k : N) (r : res (option (N * fdata))) : res (option (N * fdata)) :=
  match r with
  | Ok x => Ok (option_map (shift k) x)
  | Err e => Err e
  | Panic s => Panic s
  | OutOfFuel => OutOfFuel
  end.

Lemma hd_error_map : forall A B (f : A -> B) l, hd_error (map f l) = option_map f (hd_error l).
Proof. intros A B f [|x l]; reflexivity. Qed.

Lemma chain_vis_shift : forall k c, chain_vis (map (shift k) c) = chain_vis c.
Proof. intros k c. unfold chain_vis. rewrite map_map. reflexivity. Qed.

(* a new layer on top: every lookup that starts below it is the old lookup, renumbered *)
Lemma find_field_under_top : forall o e t, layers e = t :: layers o ->
  forall i m, find_field e (i + 1) m = res_shift 1 (find_field o i m).
Proof.
  intros o e t H i m. rewrite !find_field_spec. rewrite H.
  replace (N.to_nat (i + 1)) with (S (N.to_nat i)) by lia. cbn [skipn res_shift].
  rewrite eff_chain_shift, hd_error_map. reflexivity.
Qed.

(* layers added below: every lookup is unchanged as long as it ends above them *)
Lemma find_field_chain_shift : forall o e k,
  (forall n, chain e n = map (shift k) (chain o n)) ->
  forall n, find_field e 0 n = res_shift k (find_field o 0 n).
Proof.
  intros o e k H n. rewrite !find_field_chain, H, hd_error_map. reflexivity.
Qed.

Lemma has_visible_chain_shift : forall o e k,
  (forall n, chain e n = map (shift k) (chain o n)) ->
  forall n, has_visible_field e n = has_visible_field o n.
Proof.
  intros o e k H n. rewrite !visibility_rule, H, chain_vis_shift. reflexivity.
Qed.

(* ------------------------------------------------------------------ {} is an identity *)

Lemma chain_extend_empty_r : forall o n, chain (extend o empty_obj) n = map (shift 1) (chain o n).
Proof.
  intros o n. unfold chain. rewrite layers_extend. cbn [layers empty_obj self_layer super_layers app].
  cbn [eff_chain N.eqb layer_get]. rewrite <- eff_chain_shift. reflexivity.
Qed.

Lemma chain_extend_empty_l : forall o n, chain (extend empty_obj o) n = chain o n.
Proof.
  intros o n. unfold chain. rewrite layers_extend. cbn [layers empty_obj self_layer super_layers].
  apply eff_chain_app_closed.
Qed.

Lemma map_shift_0 : forall c, map (shift 0) c = c.
Proof.
  induction c as [|[j d] c IH]; cbn [map]; auto. rewrite IH. unfold shift. cbn [fst snd].
  rewrite N.add_0_r. reflexivity.
Qed.

Theorem extend_empty_r : forall o, wf_obj o ->
  let e := extend o empty_obj in
  (forall n, find_field e 0 n = res_shift 1 (find_field o 0 n)) /\
  (forall i n, find_field e (i + 1) n = res_shift 1 (find_field o i n)) /\
  (forall n, has_visible_field e n = has_visible_field o n) /\
  get_fields_order e = get_fields_order o /\
  get_visible_fields_order e = get_visible_fields_order o /\
  obj_length e = obj_length o.
Proof.
  intros o Hwf e. pose proof (chain_extend_empty_r o) as Hc. fold e in Hc.
  assert (He : wf_obj e) by (apply wf_extend; [exact Hwf | apply wf_empty]).
  assert (Hord : get_fields_order e = get_fields_order o) by (eapply fields_order_ext; eauto).
  repeat split.
  - apply find_field_chain_shift. exact Hc.
  - apply (find_field_under_top o e []). unfold e. rewrite layers_extend. reflexivity.
  - eapply has_visible_chain_shift. exact Hc.
  - exact Hord.
  - unfold get_visible_fields_order. rewrite Hord. reflexivity.
  - unfold obj_length, get_visible_fields_order. rewrite Hord. reflexivity.
Qed.

Theorem extend_empty_l : forall o, wf_obj o ->
  let e := extend empty_obj o in
  (forall i n, find_field e i n = find_field o i n) /\
  (forall n, has_visible_field e n = has_visible_field o n) /\
  get_fields_order e = get_fields_order o /\
  get_visible_fields_order e = get_visible_fields_order o /\
  obj_length e = obj_length o.
Proof.
  intros o Hwf e. pose proof (chain_extend_empty_l o) as Hc. fold e in Hc.
  assert (Hc0 : forall n, chain e n = map (shift 0) (chain o n)) by (intros n; rewrite map_shift_0; apply Hc).
  assert (He : wf_obj e) by (apply wf_extend; [apply wf_empty | exact Hwf]).
  assert (Hord : get_fields_order e = get_fields_order o) by (eapply fields_order_ext; eauto).
  repeat split.
  - intros i n. rewrite !find_field_spec. unfold e. rewrite layers_extend.
    change (layers empty_obj) with [[] : layer]. f_equal. f_equal.
    generalize (layers o). intros ls.
    destruct (Nat.le_gt_cases (N.to_nat i) (length ls)) as [Hle|Hgt].
    + rewrite skipn_app. replace (N.to_nat i - length ls)%nat with 0%nat by lia.
      cbn [skipn]. apply eff_chain_app_closed.
    + rewrite !skipn_all2; auto; [lia | rewrite app_length; cbn [length]; lia].
  - eapply has_visible_chain_shift. exact Hc0.
  - exact Hord.
  - unfold get_visible_fields_order. rewrite Hord. reflexivity.
  - unfold obj_length, get_visible_fields_order. rewrite Hord. reflexivity.
Qed.

(* ------------------------------------------------------------------ std.objectRemoveKey *)

Lemma chain_remove_same : forall o n, chain (remove_key o n) n = [].
Proof.
  intros o n. unfold chain. rewrite layers_remove_key. unfold marker.
  cbn [eff_chain N.eqb layer_get]. rewrite name_eqb_refl.
  rewrite eff_chain_skip, Nat2N.id, skipn_all. reflexivity.
Qed.

Lemma chain_remove_other : forall o n m, m <> n ->
  chain (remove_key o n) m = map (shift 1) (chain o m).
Proof.
  intros o n m H. unfold chain. rewrite layers_remove_key. unfold marker.
  cbn [eff_chain N.eqb layer_get]. assert (E : name_eqb n m = false) by (apply name_eqb_neq; congruence).
  rewrite E. rewrite <- eff_chain_shift. reflexivity.
Qed.

Theorem remove_key_exact : forall o n,
  let e := remove_key o n in
  find_field e 0 n = Ok None /\
  has_visible_field e n = Ok false /\
  (forall m, m <> n -> find_field e 0 m = res_shift 1 (find_field o 0 m)) /\
  (forall m, m <> n -> has_visible_field e m = has_visible_field o m) /\
  (forall i m, find_field e (i + 1) m = res_shift 1 (find_field o i m)).
Proof.
  intros o n e. repeat split.
  - rewrite find_field_chain. unfold e. rewrite chain_remove_same. reflexivity.
  - rewrite visibility_rule. unfold e. rewrite chain_remove_same. reflexivity.
  - intros m H. rewrite !find_field_chain. unfold e. rewrite chain_remove_other by exact H.
    rewrite hd_error_map. reflexivity.
  - intros m H. rewrite !visibility_rule. unfold e. rewrite chain_remove_other by exact H.
    rewrite chain_vis_shift. reflexivity.
  - apply (find_field_under_top o e (marker o n)). apply layers_remove_key.
Qed.

Theorem remove_key_order : forall o n m v, wf_obj o ->
  (In (m, v) (get_fields_order (remove_key o n)) <-> m <> n /\ In (m, v) (get_fields_order o)).
Proof.
  intros o n m v Hwf. rewrite !fields_order_entry by (auto using wf_remove_key).
  destruct (name_eqb m n) eqn:E.
  - apply name_eqb_eq in E. subst m. rewrite chain_remove_same. cbn. split; [discriminate | intros [H _]; congruence].
  - apply name_eqb_neq in E. rewrite chain_remove_other by exact E. rewrite chain_vis_shift. tauto.
Qed.

(* base + std.objectRemoveKey(o, n): the marker hides exactly the layers of o *)
Lemma chain_extend_remove_same : forall base o n,
  chain (extend base (remove_key o n)) n =
  map (shift (1 + N.of_nat (length (layers o)))) (chain base n).
Proof.
  intros base o n. unfold chain. rewrite layers_extend, layers_remove_key. unfold marker.
  cbn [app eff_chain N.eqb layer_get]. rewrite name_eqb_refl.
  rewrite eff_chain_skip_prefix. rewrite <- eff_chain_shift. f_equal; lia.
Qed.

Lemma chain_extend_remove_other : forall base o n m, m <> n ->
  chain (extend base (remove_key o n)) m = map (shift 1) (chain (extend base o) m).
Proof.
  intros base o n m H. unfold chain. rewrite !layers_extend, layers_remove_key. unfold marker.
  cbn [app eff_chain N.eqb layer_get]. assert (E : name_eqb n m = false) by (apply name_eqb_neq; congruence).
  rewrite E. rewrite <- eff_chain_shift. reflexivity.
Qed.

Theorem extend_then_remove_hides_only_inner : forall base o n,
  let e := extend base (remove_key o n) in
  find_field e 0 n = res_shift (1 + N.of_nat (length (layers o))) (find_field base 0 n) /\
  has_visible_field e n = has_visible_field base n /\
  (forall m, m <> n -> find_field e 0 m = res_shift 1 (find_field (extend base o) 0 m)) /\
  (forall m, m <> n -> has_visible_field e m = has_visible_field (extend base o) m).
Proof.
  intros base o n e. repeat split.
  - rewrite !find_field_chain. unfold e. rewrite chain_extend_remove_same, hd_error_map. reflexivity.
  - rewrite !visibility_rule. unfold e. rewrite chain_extend_remove_same, chain_vis_shift. reflexivity.
  - intros m H. rewrite !find_field_chain. unfold e. rewrite chain_extend_remove_other by exact H.
    rewrite hd_error_map. reflexivity.
  - intros m H. rewrite !visibility_rule. unfold e. rewrite chain_extend_remove_other by exact H.
    rewrite chain_vis_shift. reflexivity.
Qed.

(* std.objectRemoveKey(o, n) + { n: ... }: the re-added field stands alone; nothing of
   the removed object's field (in particular not its visibility) shows through *)
Definition lit (l : layer) : obj := {| self_layer := l; super_layers := []; asserts := [[]] |}.

Lemma chain_remove_then_extend : forall o n l d, layer_get l n = Some (Normal d) ->
  chain (extend (remove_key o n) (lit l)) n = [(0, d)].
Proof.
  intros o n l d H. unfold chain. rewrite layers_extend, layers_remove_key. unfold marker.
  change (layers (lit l)) with [l]. generalize (layers o). intros ls.
  cbn [app eff_chain N.eqb]. rewrite H.
  cbn [layer_get]. rewrite name_eqb_refl. f_equal.
  rewrite eff_chain_skip, Nat2N.id, skipn_all. reflexivity.
Qed.

Theorem remove_then_extend : forall o n l d, wf_obj o -> wf_layer l ->
  layer_get l n = Some (Normal d) ->
  let e := extend (remove_key o n) (lit l) in
  find_field e 0 n = Ok (Some (0, d)) /\
  has_visible_field e n = Ok (negb (vis_eqb (f_vis d) Hidden)) /\
  In (n, f_vis d) (get_fields_order e) /\
  (In n (get_visible_fields_order e) <-> f_vis d <> Hidden).
Proof.
  intros o n l d Ho Hl H e.
  assert (Hc : chain e n = [(0, d)]) by (apply chain_remove_then_extend; exact H).
  assert (He : wf_obj e).
  { apply wf_extend; [apply wf_remove_key; exact Ho|]. unfold wf_obj, lit, layers. cbn. constructor; auto. }
  repeat split.
  - rewrite find_field_chain, Hc. reflexivity.
  - rewrite visibility_rule, Hc. cbn. destruct (f_vis d); reflexivity.
  - apply fields_order_entry; [exact He|]. rewrite Hc. cbn. destruct (f_vis d); reflexivity.
  - intros HI. apply fields_order_agree_visible in HI; [|exact He].
    rewrite visibility_rule, Hc in HI. cbn in HI. intros E. rewrite E in HI. discriminate.
  - intros Hv. apply fields_order_agree_visible; [exact He|]. rewrite visibility_rule, Hc. cbn.
    destruct (f_vis d); try reflexivity. contradiction.
Qed.

(* ------------------------------------------------------------------ extension: what each side sees *)

(* a + b: lookups that start inside a (super, seen from a's layers) are a's own lookups *)
Theorem extend_super_of_left : forall a b i n,
  find_field (extend a b) (i + N.of_nat (length (layers b))) n =
  res_shift (N.of_nat (length (layers b))) (find_field a i n).
Proof.
  intros a b i n. rewrite !find_field_spec, layers_extend.
  replace (N.to_nat (i + N.of_nat (length (layers b)))) with (length (layers b) + N.to_nat i)%nat by lia.
  rewrite <- skipn_skipn'. rewrite skipn_app, skipn_all, Nat.sub_diag. cbn [app skipn res_shift].
  rewrite eff_chain_shift, hd_error_map. reflexivity.
Qed.

(* self inside any layer of a + b is the whole object: a field defined by b's top
   layer is what every self.g finds, whatever a defines *)
Theorem self_sees_override : forall a b g d,
  layer_get (self_layer b) g = Some (Normal d) ->
  find_field (extend a b) 0 g = Ok (Some (0, d)).
Proof.
  intros a b g d H. unfold find_field. cbn [N.eqb extend self_layer]. rewrite H. reflexivity.
Qed.

Theorem self_is_final : forall fuel o vs i j g,
  eval_body fuel o vs i (BSelf g) = eval_body fuel o vs j (BSelf g).
Proof. intros [|fuel] o vs i j g; reflexivity. Qed.

(* default-visibility override keeps the inherited visibility *)
Theorem default_override_keeps_inherited : forall o l n d,
  layer_get l n = Some (Normal d) -> f_vis d = Default ->
  has_visible_field (extend o (lit l)) n =
  match find_field o 0 n with
  | Ok (Some _) => has_visible_field o n
  | _ => Ok true
  end.
Proof.
  intros o l n d H Hd. rewrite find_field_chain, !visibility_rule.
  unfold chain at 1. rewrite layers_extend. change (layers (lit l)) with [l].
  cbn [app eff_chain N.eqb]. rewrite H. cbn [chain_vis map snd]. rewrite Hd, resolve_cons.
  rewrite (eff_chain_shift (layers o) 0 0 1 n). fold (chain o n).
  change (map (fun p : N * fdata => f_vis (snd p)) (map (shift 1) (chain o n))) with (chain_vis (map (shift 1) (chain o n))).
  rewrite chain_vis_shift.
  destruct (chain o n) as [|p c] eqn:E; cbn [hd_error].
  - reflexivity.
  - destruct (resolve (chain_vis (p :: c))) eqn:R; auto.
    apply resolve_none in R. discriminate.
Qed.

(* ------------------------------------------------------------------ no panic, no fuel exhaustion *)

Theorem no_panic_no_fuel : forall o i n,
  (exists r, find_field o i n = Ok r) /\ (exists b, has_field o i n = Ok b) /\
  (exists b, has_visible_field o n = Ok b).
Proof.
  intros o i n. repeat split.
  - rewrite find_field_spec. eexists. reflexivity.
  - rewrite has_field_spec. eexists. reflexivity.
  - rewrite visibility_rule. eexists. reflexivity.
Qed.

(* ------------------------------------------------------------------ observers agree *)

Lemma eval_fields_keys : forall o ns l, eval_fields o ns = Ok l -> map fst l = ns.
Proof.
  induction ns as [|n r IH]; intros l H; cbn [eval_fields] in H.
  - injection H as <-. reflexivity.
  - destruct (eval_field o n) as [v| | |]; cbn [obind] in H; try discriminate.
    destruct (eval_fields o r) as [rest| | |]; cbn [obind] in H; try discriminate.
    injection H as <-. cbn [map fst]. f_equal. apply IH. reflexivity.
Qed.

Theorem observers_agree : forall o n, wf_obj o ->
  (In n (map fst (get_fields_order o)) <-> has_field o 0 n = Ok true) /\
  (In n (get_visible_fields_order o) <-> has_visible_field o n = Ok true) /\
  (In n (get_visible_fields_order o) -> In n (map fst (get_fields_order o))) /\
  obj_length o = N.of_nat (length (get_visible_fields_order o)) /\
  (forall l, manifest o = Ok l -> map fst l = get_visible_fields_order o) /\
  (has_field o 0 n = Ok false -> eval_field o n = Err EUnknownField).
Proof.
  intros o n Hwf. repeat split.
  - intros H. apply fields_order_agree in H; [|exact Hwf]. destruct H as (j & d & H).
    unfold has_field. rewrite H. reflexivity.
  - intros H. apply fields_order_agree; [exact Hwf|]. unfold has_field in H.
    destruct (find_field o 0 n) as [[[j d]|]| | |]; cbn [obind] in H; try discriminate. eauto.
  - apply fields_order_agree_visible. exact Hwf.
  - apply fields_order_agree_visible. exact Hwf.
  - unfold get_visible_fields_order. intros H. apply in_visible_iff in H. destruct H as (v & H & _).
    apply (in_map fst) in H. exact H.
  - unfold manifest. apply eval_fields_keys.
  - intros H. unfold has_field in H. unfold eval_field.
    destruct (find_field o 0 n) as [[[j d]|]| | |]; cbn [obind] in *; try discriminate. reflexivity.
Qed.

(* ------------------------------------------------------------------ values under a new top layer *)

Section TopPush.
  (* [e] is [o] with one more layer on top; the names selected by [hid] are not found from
     the top of [e], every other lookup is the one of [o], renumbered *)
  Variables (o e : obj) (hid : name -> bool).
  Hypothesis Hin : forall i m, find_field e (i + 1) m = res_shift 1 (find_field o i m).
  Hypothesis Htop : forall m, hid m = false -> find_field e 0 m = res_shift 1 (find_field o 0 m).
  Hypothesis Hhid : forall m, hid m = true -> find_field e 0 m = Ok None.
  Hypothesis Hlen : length (super_layers e) = S (length (super_layers o)).

  (* same outcome, or the evaluation in [e] stopped at a read of a hidden name *)
  Definition top_rel (re ro : res value) : Prop :=
    re = ro \/ ((exists g, hid g = true) /\ re = Err EUnknownField).

  Lemma top_rel_bind : forall (a b : res value) (f g : value -> res value),
    top_rel a b -> (forall v, top_rel (f v) (g v)) -> top_rel (obind a f) (obind b g).
  Proof.
    intros a b f g [->|[Hg ->]] H.
    - destruct b; cbn [obind]; try (left; reflexivity). apply H.
    - right. split; auto.
  Qed.

  Lemma top_rel_refl : forall r, top_rel r r.
  Proof. intros r. left. reflexivity. Qed.

  Definition sh (t : thunk_id) : thunk_id := (fst t + 1, snd t).

  Lemma in_progress_sh : forall vs j m, in_progress (map sh vs) (j + 1) m = in_progress vs j m.
  Proof.
    induction vs as [|[k x] r IH]; intros j m; cbn [map in_progress sh fst snd]; auto.
    rewrite IH. f_equal. f_equal.
    destruct (k =? j) eqn:E.
    - apply N.eqb_eq in E. subst. apply N.eqb_refl.
    - apply N.eqb_neq in E. apply N.eqb_neq. lia.
  Qed.

  Lemma find_ok : forall i m, exists x, find_field o i m = Ok x.
  Proof. intros i m. apply no_panic_no_fuel. Qed.

  Lemma sim_top : forall fuel,
    (forall vs i b, top_rel (eval_body fuel e (map sh vs) (i + 1) b) (eval_body fuel o vs i b)) /\
    (forall vs j m d, top_rel (eval_thunk fuel e (map sh vs) (j + 1) m d) (eval_thunk fuel o vs j m d)).
  Proof.
    induction fuel as [|fuel [IHb IHt]]; [split; intros; apply top_rel_refl|].
    split.
    - intros vs i b. destruct b as [z| |g|g|g|x y|r]; cbn [eval_body]; try apply top_rel_refl.
      + (* BSelf *)
        destruct (hid g) eqn:Hg.
        * rewrite (Hhid g Hg). cbn [obind]. right. split; eauto.
        * rewrite (Htop g Hg). destruct (find_ok 0 g) as [x ->]. cbn [res_shift obind].
          destruct x as [[j d]|]; cbn [option_map shift fst snd]; [apply IHt | apply top_rel_refl].
      + (* BSuper *)
        rewrite Hlen.
        assert (Hc : (i + 1 =? N.of_nat (S (length (super_layers o)))) = (i =? N.of_nat (length (super_layers o)))).
        { destruct (i =? N.of_nat (length (super_layers o))) eqn:E.
          - apply N.eqb_eq in E. apply N.eqb_eq. lia.
          - apply N.eqb_neq in E. apply N.eqb_neq. lia. }
        rewrite Hc. destruct (i =? N.of_nat (length (super_layers o))); [apply top_rel_refl|].
        rewrite Hin. destruct (find_ok (i + 1) g) as [x ->]. cbn [res_shift obind].
        destruct x as [[j d]|]; cbn [option_map shift fst snd]; [apply IHt | apply top_rel_refl].
      + (* BInSuper *)
        unfold has_field. rewrite Hin. destruct (find_ok (i + 1) g) as [x ->]. cbn [res_shift obind].
        destruct x as [[j d]|]; apply top_rel_refl.
      + (* BAdd *)
        apply top_rel_bind; [apply IHb|]. intros vx. apply top_rel_bind; [apply IHb|]. intros vy. apply top_rel_refl.
    - intros vs j m d. cbn [eval_thunk]. rewrite in_progress_sh.
      destruct (in_progress vs j m); [apply top_rel_refl|].
      change ((j + 1, m) :: map sh vs) with (map sh ((j, m) :: vs)).
      destruct (f_plus d); [|apply IHb].
      rewrite Hin. destruct (find_ok (j + 1) m) as [x ->]. cbn [res_shift obind].
      destruct x as [[j2 d2]|]; cbn [option_map shift fst snd]; [|apply IHb].
      apply top_rel_bind; [apply IHt|]. intros vx. apply top_rel_bind; [apply IHb|]. intros vy. apply top_rel_refl.
  Qed.

  Lemma eval_field_top : forall m, hid m = false -> top_rel (eval_field e m) (eval_field o m).
  Proof.
    intros m Hm. unfold eval_field. rewrite (Htop m Hm). destruct (find_ok 0 m) as [x ->]. cbn [res_shift obind].
    destruct x as [[j d]|]; cbn [option_map shift fst snd]; [|apply top_rel_refl].
    apply (proj2 (sim_top eval_fuel) [] j m d).
  Qed.
End TopPush.

(* std.objectRemoveKey(o, n): a field other than n evaluates as before, unless its
   evaluation reads self.n (then it stops with "unknown field") *)
Theorem remove_key_values : forall o n m, m <> n ->
  eval_field (remove_key o n) m = eval_field o m \/
  eval_field (remove_key o n) m = Err EUnknownField.
Proof.
  intros o n m Hm.
  destruct (remove_key_exact o n) as (H0 & _ & Hoth & _ & Hin). cbn zeta in *.
  assert (R : top_rel (fun g => name_eqb g n) (eval_field (remove_key o n) m) (eval_field o m)).
  { apply eval_field_top.
    - exact Hin.
    - intros g Hg. apply Hoth. apply name_eqb_neq. exact Hg.
    - intros g Hg. apply name_eqb_eq in Hg. subst g. exact H0.
    - reflexivity.
    - apply name_eqb_neq. exact Hm. }
  destruct R as [R|[_ R]]; auto.
Qed.

(* o + {}: values and manifestation too *)
Theorem extend_empty_r_values : forall o, wf_obj o ->
  (forall m, eval_field (extend o empty_obj) m = eval_field o m) /\
  manifest (extend o empty_obj) = manifest o.
Proof.
  intros o Hwf. destruct (extend_empty_r o Hwf) as (Htop & Hin & _ & _ & Hvis & _). cbn zeta in *.
  assert (Hv : forall m, eval_field (extend o empty_obj) m = eval_field o m).
  { intros m.
    assert (R : top_rel (fun _ => false) (eval_field (extend o empty_obj) m) (eval_field o m)).
    { apply eval_field_top.
      - exact Hin.
      - intros g _. apply Htop.
      - intros g Hg. discriminate.
      - unfold extend, empty_obj. cbn [super_layers self_layer app length]. reflexivity.
      - reflexivity. }
    destruct R as [R|[[g Hg] _]]; [exact R | discriminate Hg]. }
  split; [exact Hv|]. unfold manifest. rewrite Hvis.
  generalize (get_visible_fields_order o). intros ns.
  induction ns as [|k r IH]; cbn [eval_fields]; [reflexivity|].
  rewrite Hv, IH. reflexivity.
Qed.

(* ------------------------------------------------------------------ values over a new empty base layer *)

Lemma find_field_beyond : forall o i n, N.of_nat (length (layers o)) <= i -> find_field o i n = Ok None.
Proof.
  intros o i n H. rewrite find_field_spec. rewrite skipn_all2 by lia. reflexivity.
Qed.

Lemma find_field_index_lt : forall o i n j d,
  find_field o i n = Ok (Some (j, d)) -> j <= N.of_nat (length (super_layers o)).
Proof.
  intros o i n j d H. apply find_field_found in H. destruct H as (_ & l & Hn & _).
  assert (Hl : (N.to_nat j < length (layers o))%nat) by (apply nth_error_Some; congruence).
  rewrite layers_length in Hl. lia.
Qed.

Local Opaque eval_fuel.

Section BottomPush.
  (* [e] is [o] over one more, empty, base layer: every lookup is the one of [o] *)
  Variables (o e : obj).
  Hypothesis Hf : forall i m, find_field e i m = find_field o i m.
  Hypothesis Hlen : length (super_layers e) = S (length (super_layers o)).

  (* same outcome, except that `super` in the old base layer, which had no super object,
     now finds an (empty) one and reports the field as unknown *)
  Definition bot_rel (re ro : res value) : Prop :=
    re = ro \/ (re = Err EUnknownField /\ ro = Err ENoSuper).

  Lemma bot_rel_bind : forall (a b : res value) (f g : value -> res value),
    bot_rel a b -> (forall v, bot_rel (f v) (g v)) -> bot_rel (obind a f) (obind b g).
  Proof.
    intros a b f g [->|[-> ->]] H.
    - destruct b; cbn [obind]; try (left; reflexivity). apply H.
    - right. split; reflexivity.
  Qed.

  Lemma bot_rel_refl : forall r, bot_rel r r.
  Proof. intros r. left. reflexivity. Qed.

  Notation len_o := (N.of_nat (length (super_layers o))).

  Lemma sim_bot : forall fuel,
    (forall vs i b, i <= len_o -> bot_rel (eval_body fuel e vs i b) (eval_body fuel o vs i b)) /\
    (forall vs j m d, j <= len_o -> bot_rel (eval_thunk fuel e vs j m d) (eval_thunk fuel o vs j m d)).
  Proof.
    induction fuel as [|fuel [IHb IHt]]; [split; intros; apply bot_rel_refl|].
    split.
    - intros vs i b Hi. destruct b as [z| |g|g|g|x y|r]; cbn [eval_body]; try apply bot_rel_refl.
      + (* BSelf *)
        rewrite Hf. destruct (find_field o 0 g) as [[[j d]|]| | |] eqn:F; cbn [obind]; try apply bot_rel_refl.
        apply IHt. eapply find_field_index_lt. exact F.
      + (* BSuper *)
        rewrite Hlen.
        assert (Hc : (i =? N.of_nat (S (length (super_layers o)))) = false) by (apply N.eqb_neq; lia).
        rewrite Hc. rewrite Hf. destruct (i =? N.of_nat (length (super_layers o))) eqn:E.
        * apply N.eqb_eq in E. rewrite find_field_beyond by (rewrite layers_length; lia).
          cbn [obind]. right. split; reflexivity.
        * destruct (find_field o (i + 1) g) as [[[j d]|]| | |] eqn:F; cbn [obind]; try apply bot_rel_refl.
          apply IHt. eapply find_field_index_lt. exact F.
      + (* BInSuper *)
        unfold has_field. rewrite Hf. apply bot_rel_refl.
      + (* BAdd *)
        apply bot_rel_bind; [apply IHb; exact Hi|]. intros vx.
        apply bot_rel_bind; [apply IHb; exact Hi|]. intros vy. apply bot_rel_refl.
    - intros vs j m d Hj. cbn [eval_thunk].
      destruct (in_progress vs j m); [apply bot_rel_refl|].
      destruct (f_plus d); [|apply IHb; exact Hj].
      rewrite Hf. destruct (find_field o (j + 1) m) as [[[j2 d2]|]| | |] eqn:F; cbn [obind]; try apply bot_rel_refl.
      * apply bot_rel_bind; [apply IHt; eapply find_field_index_lt; exact F|]. intros vx.
        apply bot_rel_bind; [apply IHb; exact Hj|]. intros vy. apply bot_rel_refl.
      * apply IHb. exact Hj.
  Qed.

  Lemma eval_field_bot : forall m, bot_rel (eval_field e m) (eval_field o m).
  Proof.
    intros m. unfold eval_field. rewrite Hf.
    destruct (find_field o 0 m) as [[[j d]|]| | |] eqn:F; cbn [obind];
      [|left; reflexivity|left; reflexivity|left; reflexivity|left; reflexivity].
    apply (proj2 (sim_bot eval_fuel) [] j m d). eapply find_field_index_lt. exact F.
  Qed.
End BottomPush.

(* {} + o: values too, up to the one error kind that tells a missing super object from a missing field *)
Theorem extend_empty_l_values : forall o m, wf_obj o ->
  eval_field (extend empty_obj o) m = eval_field o m \/
  (eval_field (extend empty_obj o) m = Err EUnknownField /\ eval_field o m = Err ENoSuper).
Proof.
  intros o m Hwf. destruct (extend_empty_l o Hwf) as (Hf & _). cbn zeta in Hf.
  assert (Hlen : length (super_layers (extend empty_obj o)) = S (length (super_layers o))).
  { unfold extend, empty_obj. cbn [super_layers self_layer]. rewrite app_length. cbn [length app]. lia. }
  exact (eval_field_bot o (extend empty_obj o) Hf Hlen m).
Qed.

(* ------------------------------------------------------------------ what generated programs denote *)

(* every literal of the expression has distinct field names (the evaluator rejects others) *)
Fixpoint wf_oexpr (e : oexpr) : Prop :=
  match e with
  | OLit l _ => wf_layer l
  | OPlus a b => wf_oexpr a /\ wf_oexpr b
  | OMergePatch a b => wf_oexpr a /\ wf_oexpr b
  | ORemove a _ => wf_oexpr a
  | OMapKey _ a => wf_oexpr a
  | OPrune a => wf_oexpr a
  end.

Lemma simple_obj_keys : forall fs, map fst (self_layer (simple_obj fs)) = map fst fs.
Proof. intros fs. unfold simple_obj. cbn [self_layer]. rewrite map_map. reflexivity. Qed.

Lemma wf_simple_obj : forall fs, NoDup (map fst fs) -> wf_obj (simple_obj fs).
Proof.
  intros fs H. unfold wf_obj, layers. change (super_layers (simple_obj fs)) with (@nil layer).
  constructor; [|constructor]. unfold wf_layer. rewrite simple_obj_keys. exact H.
Qed.

Lemma visible_nodup : forall o, NoDup (get_visible_fields_order o).
Proof. intros o. apply sorted_nodup. apply visible_fields_order_sorted. Qed.

Lemma prune_fields_keys : forall o ns fs, prune_fields o ns = Ok fs ->
  (forall k, In k (map fst fs) -> In k ns) /\ (NoDup ns -> NoDup (map fst fs)).
Proof.
  induction ns as [|n r IH]; intros fs H; cbn [prune_fields] in H.
  - injection H as <-. split; [intros k [] | intros _; constructor].
  - destruct (eval_field o n) as [v| | |]; cbn [obind] in H; try discriminate.
    destruct (prune_fields o r) as [rest| | |]; cbn [obind] in H; try discriminate.
    destruct (IH rest eq_refl) as [Hin Hnd]. injection H as <-.
    destruct v; cbn [map fst].
    + split.
      * intros k [<-|Hk]; [left; reflexivity | right; apply Hin; exact Hk].
      * intros Hd. apply NoDup_cons_iff in Hd. destruct Hd as [Hn Hd]. constructor; auto.
    + split.
      * intros k Hk. right. apply Hin. exact Hk.
      * intros Hd. apply NoDup_cons_iff in Hd. apply Hnd. tauto.
Qed.

Lemma merge_patch_fields_keys : forall t p tf ns fs, merge_patch_fields t p tf ns = Ok fs ->
  (forall k, In k (map fst fs) -> In k ns) /\ (NoDup ns -> NoDup (map fst fs)).
Proof.
  induction ns as [|n r IH]; intros fs H; cbn [merge_patch_fields] in H.
  - injection H as <-. split; [intros k [] | intros _; constructor].
  - destruct (if name_in n tf then eval_field t n else Ok VNull) as [tv| | |]; cbn [obind] in H; try discriminate.
    destruct (eval_field p n) as [v| | |]; cbn [obind] in H; try discriminate.
    destruct (merge_patch_fields t p tf r) as [rest| | |]; cbn [obind] in H; try discriminate.
    destruct (IH rest eq_refl) as [Hin Hnd]. injection H as <-.
    destruct v; cbn [map fst].
    + split.
      * intros k [<-|Hk]; [left; reflexivity | right; apply Hin; exact Hk].
      * intros Hd. apply NoDup_cons_iff in Hd. destruct Hd as [Hn Hd]. constructor; auto.
    + split.
      * intros k Hk. right. apply Hin. exact Hk.
      * intros Hd. apply NoDup_cons_iff in Hd. apply Hnd. tauto.
Qed.

Lemma name_in_spec : forall n l, name_in n l = true <-> In n l.
Proof.
  induction l as [|k r IH]; cbn [name_in In]; [split; [discriminate | intros []]|].
  rewrite Bool.orb_true_iff, IH, name_eqb_eq. tauto.
Qed.

Lemma nodup_app : forall (l1 l2 : list name), NoDup l1 -> NoDup l2 ->
  (forall x, In x l1 -> ~ In x l2) -> NoDup (l1 ++ l2).
Proof.
  induction l1 as [|x r IH]; intros l2 H1 H2 Hd; cbn [app]; auto.
  apply NoDup_cons_iff in H1. destruct H1 as [Hx Hr]. constructor.
  - rewrite in_app_iff. intros [H|H]; [contradiction | exact (Hd x (or_introl eq_refl) H)].
  - apply IH; auto. intros y Hy. apply Hd. right. exact Hy.
Qed.

Theorem build_wf : forall e o, wf_oexpr e -> build e = Ok o -> wf_obj o.
Proof.
  induction e as [l asr|a IHa b IHb|a IHa n|c a IHa|a IHa|a IHa b IHb]; intros o Hwf H; cbn [build wf_oexpr] in *.
  - injection H as <-. unfold wf_obj, layers. cbn. constructor; [exact Hwf | constructor].
  - destruct Hwf as [Ha Hb].
    destruct (build a) as [x| | |]; cbn [obind] in H; try discriminate.
    destruct (build b) as [y| | |]; cbn [obind] in H; try discriminate.
    injection H as <-. apply wf_extend; auto.
  - destruct (build a) as [x| | |]; cbn [obind] in H; try discriminate.
    injection H as <-. apply wf_remove_key; auto.
  - destruct (build a) as [x| | |]; cbn [obind] in H; try discriminate.
    injection H as <-. unfold map_with_key. apply wf_simple_obj. rewrite map_map. cbn [fst].
    rewrite map_id. apply visible_nodup.
  - destruct (build a) as [x| | |]; cbn [obind] in H; try discriminate.
    unfold prune in H. destruct (check_asserts x) as [u1| | |]; cbn [obind] in H; try discriminate H.
    destruct (prune_fields x (get_visible_fields_order x)) as [fs| | |] eqn:P; cbn [obind] in H; try discriminate.
    injection H as <-. apply wf_simple_obj. apply (prune_fields_keys _ _ _ P). apply visible_nodup.
  - destruct Hwf as [Ha Hb].
    destruct (build a) as [x| | |]; cbn [obind] in H; try discriminate.
    destruct (build b) as [y| | |]; cbn [obind] in H; try discriminate.
    unfold merge_patch in H.
    destruct (check_asserts x) as [u1| | |]; cbn [obind] in H; try discriminate H.
    destruct (check_asserts y) as [u2| | |]; cbn [obind] in H; try discriminate H.
    destruct (merge_patch_fields x y (get_visible_fields_order x) (get_visible_fields_order y)) as [fs| | |] eqn:P;
      cbn [obind] in H; try discriminate.
    injection H as <-. apply wf_simple_obj. rewrite map_app, map_map. cbn [fst]. rewrite map_id.
    destruct (merge_patch_fields_keys _ _ _ _ _ P) as [Hin Hnd].
    apply nodup_app.
    + apply NoDup_filter. apply visible_nodup.
    + apply Hnd. apply visible_nodup.
    + intros k Hk Hk2. apply filter_In in Hk. destruct Hk as [_ Hk]. apply Hin in Hk2.
      apply name_in_spec in Hk2. rewrite Hk2 in Hk. discriminate.
Qed.

(* a + b + c denotes the same object (or the same failure) in both bracketings *)
Theorem build_assoc : forall a b c, build (OPlus (OPlus a b) c) = build (OPlus a (OPlus b c)).
Proof.
  intros a b c. cbn [build].
  destruct (build a) as [x| | |]; cbn [obind]; try reflexivity.
  destruct (build b) as [y| | |]; cbn [obind]; try reflexivity.
  destruct (build c) as [z| | |]; cbn [obind]; try reflexivity.
  rewrite extend_assoc. reflexivity.
Qed.

(* ------------------------------------------------------------------ the state machine as first found *)

Module Old.
  (* enum FieldState { Normal(Visibility), Removed(usize) } with the Occupied arm
       Normal(Default) => if let ObjectField::Normal(f) = f { *entry = Normal(f.visibility) }
     i.e. a Removed marker met below a default-visibility field was ignored *)
  Definition merge_entry (layer_i : N) (m : btmap) (nf : name * field) : btmap :=
    let '(n, f) := nf in
    match bt_get m n with
    | None => bt_set m n (field_to_state f layer_i)
    | Some (SNormal Default _) =>
        match f with
        | Normal d => bt_set m n (SNormal (f_vis d) 0)
        | Removed _ => m
        end
    | Some (SNormal _ _) => m
    | Some (SRemoved removed_layer_i) =>
        if removed_layer_i <? layer_i then bt_set m n (field_to_state f layer_i) else m
    end.

  Fixpoint merge_layers (m : btmap) (layer_i : N) (ls : list layer) : btmap :=
    match ls with
    | [] => m
    | l :: r => merge_layers (fold_left (merge_entry layer_i) l m) (layer_i + 1) r
    end.

  Definition get_fields_order (o : obj) : list (name * vis) :=
    filter_map state_entry
      (merge_layers (fold_left self_entry (self_layer o) []) 1 (super_layers o)).

  Definition get_visible_fields_order (o : obj) : list name :=
    filter_map (fun nv : name * vis => match snd nv with Hidden => None | _ => Some (fst nv) end)
               (get_fields_order o).
End Old.

(* std.objectRemoveKey({a:: 1}, "a") + {a: 2} *)
Definition nm_a : name := [97].
Definition witness_obj : obj :=
  extend (remove_key (lit [(nm_a, Normal {| f_vis := Hidden; f_plus := false; f_body := BNum 1 |})]) nm_a)
         (lit [(nm_a, Normal {| f_vis := Default; f_plus := false; f_body := BNum 2 |})]).

Lemma witness_wf : wf_obj witness_obj.
Proof.
  unfold wf_obj, wf_layer. vm_compute. repeat constructor; intros H; cbn in H; tauto.
Qed.

Lemma prefix_defect_witness :
  has_visible_field witness_obj nm_a = Ok true /\
  ~ In nm_a (Old.get_visible_fields_order witness_obj) /\
  In nm_a (get_visible_fields_order witness_obj) /\
  manifest witness_obj = Ok [(nm_a, VNum 2)].
Proof.
  split; [vm_compute; reflexivity|]. split; [vm_compute; intros []|].
  split; [vm_compute; left; reflexivity | vm_compute; reflexivity].
Qed.

Theorem fields_order_sorted_nodup : forall o,
  StronglySorted name_lt (map fst (get_fields_order o)) /\
  NoDup (map fst (get_fields_order o)) /\
  StronglySorted name_lt (get_visible_fields_order o) /\
  NoDup (get_visible_fields_order o).
Proof.
  intros o. pose proof (fields_order_sorted o). pose proof (visible_fields_order_sorted o).
  repeat split; auto using sorted_nodup.
Qed.

(* a worked object: {a:: 1, b: 2} + std.objectRemoveKey({a::: 3, c::: self.a}, "a") + {a+: 4, b:: super.b} *)
Definition na : name := [97].
Definition nb : name := [98].
Definition nc : name := [99].
Definition mkf (v : vis) (p : bool) (b : body) : field := Normal {| f_vis := v; f_plus := p; f_body := b |}.
Definition example_obj : obj :=
  extend (extend (lit [(na, mkf Hidden false (BNum 1)); (nb, mkf Default false (BNum 2))])
                 (remove_key (lit [(na, mkf ForceVisible false (BNum 3)); (nc, mkf ForceVisible false (BSelf na))]) na))
         (lit [(na, mkf Default true (BNum 4)); (nb, mkf Hidden false (BSuper nb))]).

Lemma example_wf : wf_obj example_obj.
Proof.
  unfold wf_obj, wf_layer. vm_compute.
  repeat constructor; intros H; cbn in H; repeat (destruct H as [H|H]; try discriminate); auto.
Qed.

(* ------------------------------------------------------------------ asserts *)

(* a + b keeps the asserts of every layer, aligned with the layers *)
Lemma asserts_extend : forall a b, asserts (extend a b) = asserts b ++ asserts a.
Proof. reflexivity. Qed.

Lemma asserts_remove_key : forall o n, asserts (remove_key o n) = [] :: asserts o.
Proof. reflexivity. Qed.

Lemma index_field_unknown : forall o n, has_field o 0 n = Ok false -> index_field o n = Err EUnknownField.
Proof.
  intros o n H. unfold has_field in H. unfold index_field.
  destruct (find_field o 0 n) as [[[j d]|]| | |]; cbn [obind] in *; try discriminate H. reflexivity.
Qed.

(* {x: 0} + {assert self.x != 0 : "m1"}: a layer without fields that matters *)
Definition nx : name := [120].
Definition assert_only : obj :=
  {| self_layer := []; super_layers := [];
     asserts := [[{| a_cond := BSelf nx; a_msg := Some 1 |}]] |}.
Definition zero_x : obj := lit [(nx, mkf Default false (BNum 0))].

Lemma assert_only_layer_matters :
  layers assert_only = [[]] /\
  index_field zero_x nx = Ok (VNum 0) /\
  index_field (extend zero_x assert_only) nx = Err (EAssert (Some 1)) /\
  manifest_checked (extend zero_x assert_only) = Err (EAssert (Some 1)) /\
  get_fields_order (extend zero_x assert_only) = get_fields_order zero_x.
Proof. vm_compute. repeat split. Qed.
