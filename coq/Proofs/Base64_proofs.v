(* Proofs/Base64_proofs.v — facts about Model/Base64.v *)
From RJ Require Import Base.Outcome Base.F64 Model.Base64 Proofs.Base64_arith_proofs.
From Coq Require Import Lia.
Local Open Scope N_scope.

Ltac split_andb H :=
  repeat match type of H with
  | (_ && _ = true) => let H1 := fresh H in apply andb_prop in H; destruct H as [H H1]
  end.

(* a full group of three bytes decodes to itself *)
Lemma dec_chunk_enc b0 b1 b2 : b0 < 256 -> b1 < 256 -> b2 < 256 ->
  dec_chunk (encmap (b0 / 4)) (encmap ((b0 mod 4) * 16 + b1 / 16))
            (encmap ((b1 mod 16) * 4 + b2 / 64)) (encmap (b2 mod 64)) = Ok [b0; b1; b2].
Proof.
  intros H0 H1 H2.
  pose proof (byte0_all b0 b1 H0 H1) as A. unfold byte0_ok in A. split_andb A.
  assert (Hm4 : b0 mod 4 < 4) by (apply N.mod_lt; discriminate).
  assert (Hd64 : b2 / 64 < 4) by (apply N.div_lt_upper_bound; lia).
  pose proof (byte1_all (b0 mod 4) b1 (b2 / 64) Hm4 H1 Hd64) as B. unfold byte1_ok in B. split_andb B.
  assert (Hm16 : b1 mod 16 < 16) by (apply N.mod_lt; discriminate).
  pose proof (byte2_all (b1 mod 16) b2 Hm16 H2) as C. unfold byte2_ok in C. split_andb C.
  apply N.ltb_lt in A0, A1, B0, C0. apply N.eqb_eq in A, B, C.
  unfold dec_chunk.
  rewrite (chr_encmap _ A1), (chr_encmap _ A0), (chr_encmap _ B0), (chr_encmap _ C0).
  cbn [obind]. now rewrite A, B, C.
Qed.

Lemma dec_last_enc3 b0 b1 b2 : b0 < 256 -> b1 < 256 -> b2 < 256 ->
  dec_last (encmap (b0 / 4)) (encmap ((b0 mod 4) * 16 + b1 / 16))
           (encmap ((b1 mod 16) * 4 + b2 / 64)) (encmap (b2 mod 64)) = Ok [b0; b1; b2].
Proof.
  intros H0 H1 H2.
  pose proof (byte0_all b0 b1 H0 H1) as A. unfold byte0_ok in A. split_andb A.
  assert (Hm4 : b0 mod 4 < 4) by (apply N.mod_lt; discriminate).
  assert (Hd64 : b2 / 64 < 4) by (apply N.div_lt_upper_bound; lia).
  pose proof (byte1_all (b0 mod 4) b1 (b2 / 64) Hm4 H1 Hd64) as B. unfold byte1_ok in B. split_andb B.
  assert (Hm16 : b1 mod 16 < 16) by (apply N.mod_lt; discriminate).
  pose proof (byte2_all (b1 mod 16) b2 Hm16 H2) as C. unfold byte2_ok in C. split_andb C.
  apply N.ltb_lt in A0, A1, B0, C0. apply N.eqb_eq in A, B, C.
  unfold dec_last.
  rewrite (chr_encmap _ A1), (chr_encmap _ A0). cbn [obind].
  rewrite (encmap_not_pad _ B0), (encmap_not_pad _ C0). cbn [andb].
  rewrite (chr_encmap _ B0), (chr_encmap _ C0). cbn [obind]. now rewrite A, B, C.
Qed.

Lemma dec_last_enc2 b0 b1 : b0 < 256 -> b1 < 256 ->
  dec_last (encmap (b0 / 4)) (encmap ((b0 mod 4) * 16 + b1 / 16)) (encmap ((b1 mod 16) * 4)) pad = Ok [b0; b1].
Proof.
  intros H0 H1.
  pose proof (byte0_all b0 b1 H0 H1) as A. unfold byte0_ok in A. split_andb A.
  assert (Hm4 : b0 mod 4 < 4) by (apply N.mod_lt; discriminate).
  pose proof (byte1_all (b0 mod 4) b1 0 Hm4 H1 eq_refl) as B. unfold byte1_ok in B. split_andb B.
  rewrite N.add_0_r in B, B0.
  apply N.ltb_lt in A0, A1, B0. apply N.eqb_eq in A, B.
  unfold dec_last.
  rewrite (chr_encmap _ A1), (chr_encmap _ A0). cbn [obind].
  rewrite (encmap_not_pad _ B0). cbn [andb]. rewrite N.eqb_refl.
  rewrite (chr_encmap _ B0). cbn [obind]. now rewrite A, B.
Qed.

Lemma dec_last_enc1 b0 : b0 < 256 ->
  dec_last (encmap (b0 / 4)) (encmap ((b0 mod 4) * 16)) pad pad = Ok [b0].
Proof.
  intros H0.
  pose proof (byte0_all1 b0 H0) as A. unfold byte0_ok1 in A. split_andb A.
  assert (A1 : b0 / 4 < 64) by (apply N.div_lt_upper_bound; lia).
  apply N.ltb_lt in A0. apply N.eqb_eq in A.
  unfold dec_last.
  rewrite (chr_encmap _ A1), (chr_encmap _ A0). cbn [obind].
  rewrite N.eqb_refl. cbn [andb]. now rewrite A.
Qed.

(* ---- induction in steps of three ------------------------------------------- *)

Lemma list_ind3 {A} (P : list A -> Prop) :
  P [] -> (forall a, P [a]) -> (forall a b, P [a; b]) ->
  (forall a b c r, P r -> P (a :: b :: c :: r)) -> forall l, P l.
Proof.
  intros H0 H1 H2 H3.
  fix IH 1. intros [|a [|b [|c r]]]; [apply H0 | apply H1 | apply H2 | apply H3, IH].
Qed.

Lemma list_ind4 {A} (P : list A -> Prop) :
  P [] -> (forall a, P [a]) -> (forall a b, P [a; b]) -> (forall a b c, P [a; b; c]) ->
  (forall a b c d r, P r -> P (a :: b :: c :: d :: r)) -> forall l, P l.
Proof.
  intros H0 H1 H2 H3 H4.
  fix IH 1. intros [|a [|b [|c [|d r]]]]; [apply H0 | apply H1 | apply H2 | apply H3 | apply H4, IH].
Qed.

Definition bytes (bs : list N) : Prop := Forall (fun b => b < 256) bs.

(* encoding never produces the empty string on a non-empty input, and its chunk list exists *)
Lemma encode_nil_iff bs : b64_encode bs = [] <-> bs = [].
Proof. destruct bs as [|a [|b [|c r]]]; cbn; split; intros H; try discriminate; reflexivity. Qed.

Lemma dec_chunks_cons2 c0 c1 c2 c3 ch l :
  dec_chunks ((c0, c1, c2, c3) :: ch :: l) =
  obind (dec_chunk c0 c1 c2 c3) (fun a => obind (dec_chunks (ch :: l)) (fun b => Ok (a ++ b))).
Proof. reflexivity. Qed.

(* ---- decode o encode -------------------------------------------------------- *)

Theorem decode_encode : forall bs, bytes bs -> b64_decode (b64_encode bs) = Ok bs.
Proof.
  unfold b64_decode.
  induction bs as [|a|a b|a b c r IH] using list_ind3; intros Hb.
  - reflexivity.
  - inversion Hb as [|? ? Ha _]; subst. cbn [b64_encode chunks4 dec_chunks]. now apply dec_last_enc1.
  - inversion Hb as [|? ? Ha Hb']; subst. inversion Hb' as [|? ? Hb2 _]; subst.
    cbn [b64_encode chunks4 dec_chunks]. now apply dec_last_enc2.
  - inversion Hb as [|? ? Ha Hb1]; subst. inversion Hb1 as [|? ? Hb2 Hb3]; subst.
    inversion Hb3 as [|? ? Hc Hr]; subst.
    specialize (IH Hr).
    cbn [b64_encode chunks4].
    destruct (chunks4 (b64_encode r)) as [l|] eqn:El; [|discriminate].
    destruct l as [|ch l'].
    + (* r = [] *)
      assert (r = []) as ->.
      { destruct r as [|x [|y [|z r']]]; [reflexivity| | |]; cbn in El;
          try discriminate; try (destruct (chunks4 (b64_encode r')); discriminate). }
      cbn [dec_chunks]. now apply dec_last_enc3.
    + rewrite dec_chunks_cons2. rewrite (dec_chunk_enc a b c Ha Hb2 Hc). cbn [obind].
      rewrite IH. reflexivity.
Qed.

(* std.base64Decode(std.base64(s)) = s for strings of code points below 256 *)
Theorem decode_encode_string : forall s r, base64_string s = Ok r -> base64_decode r = Ok s.
Proof.
  unfold base64_string, base64_decode. intros s r H.
  destruct (forallb (fun c => c <? 256) s) eqn:E; [|discriminate].
  injection H as <-. apply decode_encode.
  apply Forall_forall. intros x Hx. rewrite forallb_forall in E. apply N.ltb_lt. now apply E.
Qed.

(* ---- shape of the encoding -------------------------------------------------- *)

(* well-formed base64 text: groups of four alphabet characters; the last group may
   end in one or two '=' *)
Fixpoint wf_b64 (s : str) : bool :=
  match s with
  | [] => true
  | c0 :: c1 :: c2 :: c3 :: r =>
      match r with
      | [] => in_alpha c0 && in_alpha c1 &&
              (((c2 =? pad) && (c3 =? pad)) || (in_alpha c2 && ((c3 =? pad) || in_alpha c3)))
      | _ => in_alpha c0 && in_alpha c1 && in_alpha c2 && in_alpha c3 && wf_b64 r
      end
  | _ => false
  end.

Lemma lt64_a b : b < 256 -> b / 4 < 64.
Proof. intros. apply N.div_lt_upper_bound; lia. Qed.
Lemma lt64_b b0 b1 : b1 < 256 -> (b0 mod 4) * 16 + b1 / 16 < 64.
Proof.
  intros. assert (b0 mod 4 < 4) by (apply N.mod_lt; discriminate).
  assert (b1 / 16 < 16) by (apply N.div_lt_upper_bound; lia). lia.
Qed.
Lemma lt64_b0 b0 : (b0 mod 4) * 16 < 64.
Proof. assert (b0 mod 4 < 4) by (apply N.mod_lt; discriminate). lia. Qed.
Lemma lt64_c b1 b2 : b2 < 256 -> (b1 mod 16) * 4 + b2 / 64 < 64.
Proof.
  intros. assert (b1 mod 16 < 16) by (apply N.mod_lt; discriminate).
  assert (b2 / 64 < 4) by (apply N.div_lt_upper_bound; lia). lia.
Qed.
Lemma lt64_c0 b1 : (b1 mod 16) * 4 < 64.
Proof. assert (b1 mod 16 < 16) by (apply N.mod_lt; discriminate). lia. Qed.
Lemma lt64_d b2 : b2 mod 64 < 64.
Proof. apply N.mod_lt; discriminate. Qed.

Theorem encode_wf : forall bs, bytes bs -> wf_b64 (b64_encode bs) = true.
Proof.
  induction bs as [|a|a b|a b c r IH] using list_ind3; intros Hb.
  - reflexivity.
  - inversion Hb as [|? ? Ha _]; subst. cbn [b64_encode wf_b64].
    rewrite (encmap_alpha _ (lt64_a a Ha)), (encmap_alpha _ (lt64_b0 a)), N.eqb_refl. reflexivity.
  - inversion Hb as [|? ? Ha Hb']; subst. inversion Hb' as [|? ? Hb2 _]; subst.
    cbn [b64_encode wf_b64].
    rewrite (encmap_alpha _ (lt64_a a Ha)), (encmap_alpha _ (lt64_b a b Hb2)),
      (encmap_alpha _ (lt64_c0 b)), (encmap_not_pad _ (lt64_c0 b)), N.eqb_refl. reflexivity.
  - inversion Hb as [|? ? Ha Hb1]; subst. inversion Hb1 as [|? ? Hb2 Hb3]; subst.
    inversion Hb3 as [|? ? Hc Hr]; subst. specialize (IH Hr).
    cbn [b64_encode]. cbn [wf_b64].
    rewrite (encmap_alpha _ (lt64_a a Ha)), (encmap_alpha _ (lt64_b a b Hb2)),
      (encmap_alpha _ (lt64_c b c Hc)), (encmap_alpha _ (lt64_d c)),
      (encmap_not_pad _ (lt64_c b c Hc)), (encmap_not_pad _ (lt64_d c)).
    destruct (b64_encode r) eqn:E; [reflexivity|]. rewrite IH. reflexivity.
Qed.

Theorem encode_length : forall bs,
  N.of_nat (length (b64_encode bs)) = 4 * ((N.of_nat (length bs) + 2) / 3).
Proof.
  induction bs as [|a|a b|a b c r IH] using list_ind3.
  - reflexivity.
  - reflexivity.
  - reflexivity.
  - cbn [b64_encode length]. rewrite !Nat2N.inj_succ, IH.
    replace (N.succ (N.succ (N.succ (N.of_nat (length r)))) + 2) with ((N.of_nat (length r) + 2) + 1 * 3) by lia.
    rewrite N.div_add by discriminate. lia.
Qed.

(* ---- exactly what the decoder rejects -------------------------------------- *)

Lemma is_ok_bind {A B E} (x : outcome A E) (f : A -> outcome B E) :
  is_ok (obind x f) = match x with Ok a => is_ok (f a) | _ => false end.
Proof. destruct x; reflexivity. Qed.

Lemma dec_chunk_ok c0 c1 c2 c3 :
  is_ok (dec_chunk c0 c1 c2 c3) = in_alpha c0 && in_alpha c1 && in_alpha c2 && in_alpha c3.
Proof.
  unfold dec_chunk. rewrite <- !chr_to_index_alpha.
  destruct (chr_to_index c0); cbn; try reflexivity.
  destruct (chr_to_index c1); cbn; try reflexivity.
  destruct (chr_to_index c2); cbn; try reflexivity.
  destruct (chr_to_index c3); cbn; reflexivity.
Qed.

Lemma dec_last_ok c0 c1 c2 c3 :
  is_ok (dec_last c0 c1 c2 c3) =
  in_alpha c0 && in_alpha c1 && (((c2 =? pad) && (c3 =? pad)) || (in_alpha c2 && ((c3 =? pad) || in_alpha c3))).
Proof.
  unfold dec_last. rewrite <- !chr_to_index_alpha.
  destruct (chr_to_index c0); cbn; try reflexivity.
  destruct (chr_to_index c1); cbn; try reflexivity.
  destruct (c2 =? pad) eqn:E2.
  - apply N.eqb_eq in E2. subst c2.
    destruct (c3 =? pad) eqn:E3; cbn; [reflexivity|].
    (* '=' followed by a non-'=' : chr_to_index '=' fails *)
    reflexivity.
  - cbn. destruct (c3 =? pad) eqn:E3.
    + destruct (chr_to_index c2); cbn; reflexivity.
    + destruct (chr_to_index c2); cbn; try reflexivity.
      destruct (chr_to_index c3); cbn; reflexivity.
Qed.

Lemma chunks4_some_iff s : (exists l, chunks4 s = Some l) <-> (N.of_nat (length s)) mod 4 = 0.
Proof.
  induction s as [|a|a b|a b c|a b c d r IH] using list_ind4.
  - split; [reflexivity|]. intros _. now exists [].
  - split; [intros [l H]; discriminate| intros H; discriminate].
  - split; [intros [l H]; discriminate| intros H; discriminate].
  - split; [intros [l H]; discriminate| intros H; discriminate].
  - cbn [chunks4 length]. rewrite !Nat2N.inj_succ.
    replace (N.succ (N.succ (N.succ (N.succ (N.of_nat (length r)))))) with (N.of_nat (length r) + 1 * 4) by lia.
    rewrite N.mod_add by discriminate. rewrite <- IH. split.
    + intros [l H]. destruct (chunks4 r) as [l'|]; [now exists l' | discriminate].
    + intros [l' H]. rewrite H. now eexists.
Qed.

Theorem decode_ok_iff_wf : forall s, is_ok (b64_decode s) = wf_b64 s.
Proof.
  unfold b64_decode.
  induction s as [|a|a b|a b c|a b c d r IH] using list_ind4; try reflexivity.
  cbn [chunks4 wf_b64].
  destruct r as [|x r'].
  - cbn [chunks4 dec_chunks]. apply dec_last_ok.
  - remember (x :: r') as r eqn:Er.
    destruct (chunks4 r) as [l|] eqn:El.
    + assert (Hl : l <> []).
      { subst r. destruct r' as [|y [|z [|w r'']]]; cbn in El; try discriminate.
        destruct (chunks4 r''); [injection El as <-|]; discriminate. }
      destruct l as [|ch l']; [contradiction|].
      rewrite dec_chunks_cons2. rewrite is_ok_bind.
      pose proof (dec_chunk_ok a b c d) as Hc.
      destruct (dec_chunk a b c d) as [v| | |]; cbn [is_ok] in Hc; rewrite <- Hc; cbn [andb]; try reflexivity.
      rewrite is_ok_bind. rewrite <- IH.
      destruct (dec_chunks (ch :: l')); reflexivity.
    + rewrite <- IH. cbn [is_ok].
      destruct (in_alpha a && in_alpha b && in_alpha c && in_alpha d); reflexivity.
Qed.

Theorem decode_bad_length_iff : forall s,
  b64_decode s = Err BBadLength <-> (N.of_nat (length s)) mod 4 <> 0.
Proof.
  intros s. unfold b64_decode. split.
  - intros H Hm. apply chunks4_some_iff in Hm. destruct Hm as [l Hl]. rewrite Hl in H.
    (* dec_chunks never answers BBadLength *)
    clear Hl. revert H. induction l as [|[[[c0 c1] c2] c3] l IH]; [discriminate|].
    destruct l as [|ch l'].
    + cbn [dec_chunks]. unfold dec_last, chr_to_index.
      repeat match goal with |- context [if ?b then _ else _] => destruct b; cbn [obind] end; discriminate.
    + rewrite dec_chunks_cons2. unfold dec_chunk at 1, chr_to_index.
      repeat match goal with |- context [if ?b then _ else _] => destruct b; cbn [obind] end; try discriminate;
        (destruct (dec_chunks (ch :: l')) eqn:E; cbn [obind]; try discriminate; intros H; apply IH; exact H).
  - intros H. destruct (chunks4 s) as [l|] eqn:E; [|reflexivity].
    exfalso. apply H. apply chunks4_some_iff. now exists l.
Qed.

(* every decoded byte is a byte *)
Lemma lor_u8_lt a b : b < 256 -> N.lor (u8 a) b < 256.
Proof.
  intros Hb. unfold u8.
  assert (Ha : a mod 256 < 256) by (apply N.mod_lt; discriminate).
  set (x := a mod 256) in *. clearbody x.
  change 256 with (2 ^ 8) in *.
  destruct (N.eq_dec (N.lor x b) 0) as [E|E]; [rewrite E; reflexivity|].
  apply N.log2_lt_pow2; [lia|]. rewrite N.log2_lor. apply N.max_lub_lt.
  - destruct (N.eq_dec x 0) as [->|Hx]; [reflexivity|]. apply N.log2_lt_pow2; lia.
  - destruct (N.eq_dec b 0) as [->|Hx]; [reflexivity|]. apply N.log2_lt_pow2; lia.
Qed.
