(* Proofs/RefCoin_proofs.v — C02/C04: coincidence for an unused extra frame, and
   `local x = e; x`  ==  `e` (bare), one evaluation frame deeper. *)
From RJ Require Import Base.Outcome Base.F64 Model.Token Model.Ast Model.RefCore Model.RefValue Model.RefEval.
From RJ Require Import Proofs.RefSem_proofs Proofs.RefSem_laws Proofs.RefSem_params Proofs.RefInherit_proofs Proofs.RefNeed_proofs.
From RJ Require Import Model.Analyze Proofs.RefScope_defs Proofs.RefScope_static Proofs.RefDead_defs Proofs.RefDead_proofs Proofs.RefDead_main Proofs.RefDead_builtins Proofs.RefDead_thm.
From Coq Require Import Lia.
Local Open Scope N_scope.

Lemma dead_pair_extra x e : dead_pair x (dframe x e) [].
Proof. split; [apply dead_ok_local | apply dead_ok_nil]. Qed.

(* an extra frame binding only x is invisible to an expression that cannot mention x:
   same trace, same error, related values (equal up to that frame inside closures and thunks) *)
Theorem extra_frame_invisible : forall x e body fuel c d,
  closed (rm x [s_std]) false body ->
  rrel (ans_rel x (dframe x e) [])
       (run_task fuel c (TEval (FVars [] [(x, e)] :: init_env) body) d)
       (run_task fuel c (TEval init_env body) d).
Proof.
  intros x e body fuel c d Hc.
  apply (run_task_rel x (dframe x e) [] (dead_pair_extra x e) (builtin_sim x (dframe x e) [])).
  simpl. split; [reflexivity|]. exists (rm x [s_std]), false. split; [|exact Hc].
  change (FVars [] [(x, e)] :: init_env) with (dframe x e ++ init_env). change init_env with ([] ++ init_env) at 2.
  apply ER_dead. apply init_env_rel.
Qed.

(* ---- local x = e; x  is  e ---- *)
Definition finish (v : value) : M json :=
  let* j := manifest false v 0 in if has_func j then kind "ManifestFunction" else ret j.
Definition run_top_at (d : N) (x : cexpr) : M json := let* v := eval init_env x d in finish v.

Lemma run_top_at_0 x : run_top x = run_top_at 0 x.
Proof. reflexivity. Qed.

Definition settled {A} (o : outcome A err) : Prop := match o with Ok _ | Err _ => True | _ => False end.

Lemma bind_ok {A B} (m : M A) (k : A -> M B) c r t a : m c r = (t, Ok a) -> bind m k c r = (let (t2, o) := k a c r in (t ++ t2, o)).
Proof. intros H. unfold bind. rewrite H. reflexivity. Qed.
Lemma bind_err {A B} (m : M A) (k : A -> M B) c r t e : m c r = (t, Err e) -> bind m k c r = (t, Err e).
Proof. intros H. unfold bind. rewrite H. reflexivity. Qed.
Lemma eval_ok en x d c (r : recfn) t v : r (TEval en x) d = (t, Ok (AVal v)) -> eval en x d c r = (t, Ok v).
Proof. intros H. unfold eval, bind, call. rewrite H. simpl. rewrite app_nil_r. reflexivity. Qed.
Lemma eval_err en x d c (r : recfn) t e : r (TEval en x) d = (t, Err e) -> eval en x d c r = (t, Err e).
Proof. intros H. unfold eval, bind, call. rewrite H. reflexivity. Qed.

Lemma mono_finish v : mono (finish v).
Proof. unfold finish. mono_tac. Qed.

Lemma finish_rel x e1 e2 (Hd : dead_pair x e1 e2) v v' fuel c :
  vrel x e1 e2 v v' -> finish v c (run_task fuel c) = finish v' c (run_task fuel c).
Proof.
  intros Hv. apply rrel_eq. unfold finish.
  apply (rel2_bind x e1 e2 eq eq (manifest false v 0) (manifest false v' 0)); [apply rel2_manifest; exact Hv | | apply run_task_rel; [exact Hd | apply builtin_sim]].
  intros j j' ->. destruct (has_func j'); [apply rel2_kind | apply rel2_ret; reflexivity].
Qed.

(* the whole program `local x = e; x` runs exactly like `e` evaluated one frame deeper — value, error
   and trace — whenever e cannot mention x (three more units of fuel for the three extra nodes) *)
Theorem rw_local_name_bare : forall x e f c,
  closed (rm x [s_std]) false e -> fits c 0 ->
  settled (snd (run_top_at 1 e c (run_task f c))) ->
  run_core (S (S (S f))) c (CLocal [(x, e)] (CVar x)) = run_top_at 1 e c (run_task f c).
Proof.
  intros x e f c Hc Hfit Hs. unfold run_core. rewrite run_top_at_0. unfold run_top_at in *.
  pose proof (extra_frame_invisible x e e f c (0 + 1) Hc) as [Ht Ho].
  destruct (run_task f c (TEval (FVars [] [(x, e)] :: init_env) e) (0 + 1)) as [t o] eqn:E1.
  destruct (run_task f c (TEval init_env e) (0 + 1)) as [t' o'] eqn:E2. simpl in Ht, Ho. subst t'.
  change (0 + 1) with 1 in *.
  destruct o' as [a' | er' | s' |].
  - destruct o as [a | | |]; simpl in Ho; try contradiction.
    destruct a' as [v' | | |]; destruct a as [v | | |]; simpl in Ho; try contradiction.
    + (* values *)
      assert (Hp : passes (Ok (AVal v))) by (left; eexists; reflexivity).
      pose proof (rw_local_name f c init_env x e 0 t _ Hfit E1 Hp) as HL.
      rewrite (bind_ok _ _ _ _ _ _ (eval_ok _ _ _ _ _ _ _ HL)).
      rewrite (bind_ok _ _ _ _ _ _ (eval_ok _ _ _ _ _ _ _ E2)) in Hs |- *.
      assert (Hfin : finish v c (run_task (S (S (S f))) c) = finish v' c (run_task f c)).
      { rewrite (finish_rel x _ _ (dead_pair_extra x e) v v' _ c Ho).
        apply (mono_finish v' MFuel c c _ _ (cfg_le_refl _ _) (run_task_fuel_le c f (S (S (S f))) ltac:(lia))).
        destruct (finish v' c (run_task f c)) as [t2 o2]. simpl in *. destruct o2; simpl in *; try reflexivity; contradiction. }
      rewrite Hfin. reflexivity.
    + exfalso. unfold eval, bind, call in Hs. rewrite E2 in Hs. simpl in Hs. exact Hs.
    + exfalso. unfold eval, bind, call in Hs. rewrite E2 in Hs. simpl in Hs. exact Hs.
    + exfalso. unfold eval, bind, call in Hs. rewrite E2 in Hs. simpl in Hs. exact Hs.
  - destruct o as [| er | |]; simpl in Ho; try contradiction. subst er'.
    assert (Hp : passes (Err er)) by (right; eexists; reflexivity).
    pose proof (rw_local_name f c init_env x e 0 t _ Hfit E1 Hp) as HL.
    rewrite (bind_err _ _ _ _ _ _ (eval_err _ _ _ _ _ _ _ HL)).
    rewrite (bind_err _ _ _ _ _ _ (eval_err _ _ _ _ _ _ _ E2)). reflexivity.
  - exfalso. unfold eval, bind, call in Hs. rewrite E2 in Hs. simpl in Hs. exact Hs.
  - exfalso. unfold eval, bind, call in Hs. rewrite E2 in Hs. simpl in Hs. exact Hs.
Qed.

Theorem rw_local_name_source : forall sp sp2 xid e f c,
  id_value xid <> s_std -> StaticOK [s_std] false e -> fits c 0 ->
  settled (snd (run_top_at 1 (desugar e) c (run_task f c))) ->
  run (S (S (S f))) c (ELocal sp [MkBind xid None e] (EIdent sp2 xid)) = run_top_at 1 (desugar e) c (run_task f c).
Proof.
  intros sp sp2 xid e f c Hne Hok Hfit Hs. unfold run.
  change (desugar (ELocal sp [MkBind xid None e] (EIdent sp2 xid))) with (CLocal [(id_value xid, desugar e)] (CVar (id_value xid))).
  apply rw_local_name_bare; [|exact Hfit | exact Hs].
  replace (rm (id_value xid) [s_std]) with [s_std].
  - apply RefScope_static.static_ok_closed. exact Hok.
  - unfold rm. cbn [filter]. destruct (str_eqb s_std (id_value xid)) eqn:E; [apply str_eqb_eq in E; congruence | reflexivity].
Qed.
