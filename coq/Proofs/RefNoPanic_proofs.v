(* Proofs/RefNoPanic_proofs.v — C01: the reference interpreter never answers Panic, part 2.

   Hoare-style reading of the monad [M], after RefScope_proofs.v (C02): [safe P m] — whenever the
   recursive knot maps tasks over NaN-free structures to answers of the right kind over NaN-free
   structures and never panics, [m] does not panic either and its value satisfies P.  One lemma per
   definition of RefEval.v (helpers here; builtins, calls, the evaluator proper in RefNoPanic_main.v). *)
From RJ Require Import Base.Outcome Base.F64 Model.Token Model.Ast Model.RefCore Model.RefValue Model.RefEval.
From RJ Require Import Proofs.RefScope_defs Proofs.RefNoPanic_defs.
From Coq Require Import Lia.
Local Open Scope N_scope.

Definition okres {A} (P : A -> Prop) (r : res A) : Prop :=
  match snd r with
  | Ok a => P a
  | Panic _ => False
  | _ => True
  end.

Definition nv_task (t : task) : Prop :=
  match t with
  | TEval en x => nv_env en
  | TForce th => nv_thunk th
  | TApply f pos named _ => nv_value f /\ Forall nv_thunk pos /\ nv_vars named
  | TField ls _ _ => nv_layers ls
  | TEquals a b => nv_value a /\ nv_value b
  | TCompare a b => nv_value a /\ nv_value b
  | TManifest _ v => nv_value v
  end.

(* the answer has the kind its task asks for *)
Definition kind_ok (t : task) (a : answer) : Prop :=
  match t, a with
  | (TEval _ _ | TForce _ | TApply _ _ _ _ | TField _ _ _), AVal v => nv_value v
  | TEquals _ _, ABool _ => True
  | TCompare _ _, ACmp _ => True
  | TManifest _ _, AJson _ => True
  | _, _ => False
  end.

Definition rec_ok (r : recfn) : Prop := forall t d, nv_task t -> okres (kind_ok t) (r t d).
Definition safe {A} (P : A -> Prop) (m : M A) : Prop := forall c r, rec_ok r -> okres P (m c r).
Definition any {A} : A -> Prop := fun _ => True.

Lemma safe_ret {A} (P : A -> Prop) a : P a -> safe P (ret a).
Proof. intros H c r _. exact H. Qed.

Lemma safe_kind {A} (P : A -> Prop) s : safe P (kind s).
Proof. intros c r _. exact I. Qed.
Lemma safe_unsupported {A} (P : A -> Prop) s : safe P (unsupported s).
Proof. intros c r _. exact I. Qed.
Lemma safe_argtype {A} (P : A -> Prop) : safe P argtype.
Proof. intros c r _. exact I. Qed.
Lemma safe_fail {A} (P : A -> Prop) e : safe P (fail e).
Proof. intros c r _. exact I. Qed.
Lemma safe_check_num f : safe nv_value (lift (check_num f)).
Proof. intros c r _. unfold okres, lift, check_num. destruct f; simpl; try exact I; constructor; discriminate. Qed.
Lemma safe_emit s : safe any (emit s).
Proof. intros c r _. exact I. Qed.
Lemma safe_ask_bfs : safe any ask_bfs.
Proof. intros c r _. exact I. Qed.
Lemma safe_ask_ts_tail : safe any ask_ts_tail.
Proof. intros c r _. exact I. Qed.
Lemma safe_enter d : safe any (enter d).
Proof. intros c r _. unfold okres, enter. destruct (c_limit c <? d + 1); exact I. Qed.
Lemma safe_call t d : nv_task t -> safe (kind_ok t) (call t d).
Proof. intros H c r Hr. apply Hr. exact H. Qed.

Lemma safe_bind {A B} (Q : A -> Prop) (P : B -> Prop) (m : M A) (k : A -> M B) :
  safe Q m -> (forall a, Q a -> safe P (k a)) -> safe P (bind m k).
Proof.
  intros Hm Hk c r Hr. specialize (Hm c r Hr). unfold okres, bind in *.
  destruct (m c r) as [t o]. simpl in Hm. destruct o as [a | e | s |]; simpl; try exact I.
  - specialize (Hk a Hm c r Hr). unfold okres in Hk. destruct (k a c r) as [t2 o2]. exact Hk.
  - exact Hm.
Qed.

Lemma safe_weaken {A} (Q P : A -> Prop) (m : M A) : safe Q m -> (forall a, Q a -> P a) -> safe P m.
Proof.
  intros Hm HQP c r Hr. specialize (Hm c r Hr). unfold okres in *.
  destruct (snd (m c r)) as [a | e | s |]; auto.
Qed.

Lemma safe_mapM {A B} (P : B -> Prop) (f : A -> M B) l :
  (forall a, In a l -> safe P (f a)) -> safe (Forall P) (mapM f l).
Proof.
  induction l as [|x r IH]; intros H; simpl.
  - apply safe_ret. constructor.
  - eapply safe_bind; [apply H; left; reflexivity|]. intros y Hy.
    eapply safe_bind; [apply IH; intros a Ha; apply H; right; exact Ha|]. intros ys Hys.
    apply safe_ret. constructor; assumption.
Qed.

Lemma safe_iterM {A} (f : A -> M unit) l : (forall a, In a l -> safe any (f a)) -> safe any (iterM f l).
Proof.
  induction l as [|x r IH]; intros H; simpl.
  - apply safe_ret. exact I.
  - eapply safe_bind; [apply H; left; reflexivity|]. intros _ _. apply IH. intros a Ha. apply H. right. exact Ha.
Qed.

Create HintDb safe discriminated.
Create HintDb nv discriminated.
#[export] Hint Constructors nv_value nv_thunk nv_env : nv.
#[export] Hint Resolve nn_f_of_Z nn_f_of_N nn_f_zero nn_f_neg : nv.
#[export] Hint Resolve safe_kind safe_unsupported safe_argtype safe_fail
  safe_check_num safe_emit safe_ask_bfs safe_ask_ts_tail safe_enter : safe.
#[export] Hint Extern 1 (any _) => exact I : nv.
#[export] Hint Extern 1 (any _) => exact I : safe.

Ltac nv_inv :=
  repeat match goal with
  | H : nv_value (VNum _) |- _ => inversion H; clear H; subst
  | H : nv_value (VArr _) |- _ => inversion H; clear H; subst
  | H : nv_value (VObj _ _) |- _ => inversion H; clear H; subst
  | H : nv_value (VFun _ _ _) |- _ => inversion H; clear H; subst
  | H : nv_thunk (Th _ _) |- _ => inversion H; clear H; subst
  | H : nv_thunk (Tv _) |- _ => inversion H; clear H; subst
  | H : nv_thunk (TCall _ _) |- _ => inversion H; clear H; subst
  | H : Forall _ (_ :: _) |- _ => inversion H; clear H; subst
  | H : Forall _ [] |- _ => clear H
  | H : _ /\ _ |- _ => destruct H
  end.

Ltac safe_step :=
  match goal with
  | |- safe _ (ret _) => apply safe_ret; try solve [eauto with nv]
  | |- safe _ (bind _ _) => eapply safe_bind; [ solve [eauto with safe nv] | intros ]
  | |- safe _ (match ?x with _ => _ end) => first [ is_var x; destruct x | destruct x eqn:? ]; nv_inv
  | |- safe _ (if ?b then _ else _) => destruct b eqn:?
  | |- safe _ _ => solve [eauto with safe nv]
  | |- safe _ _ => eapply safe_weaken; [ solve [eauto with safe nv] | solve [intros; eauto with nv] ]
  end.
Ltac safe_tac := repeat safe_step.

(* ---- typed views of the knot: the four RefEval:answer:* sites are unreachable ---- *)
Lemma safe_eval en x d : nv_env en -> safe nv_value (eval en x d).
Proof.
  intros He. unfold eval. eapply safe_bind; [apply (safe_call (TEval en x)); exact He|].
  intros a Ha. destruct a; cbn in Ha; try contradiction. apply safe_ret. exact Ha.
Qed.
Lemma safe_forceT t d : nv_thunk t -> safe nv_value (forceT t d).
Proof.
  intros Ht. unfold forceT. eapply safe_bind; [apply (safe_call (TForce t)); exact Ht|].
  intros a Ha. destruct a; cbn in Ha; try contradiction. apply safe_ret. exact Ha.
Qed.
Lemma safe_apply f pos named force d :
  nv_value f -> Forall nv_thunk pos -> nv_vars named -> safe nv_value (apply f pos named force d).
Proof.
  intros. unfold apply. eapply safe_bind; [apply (safe_call (TApply f pos named force)); simpl; auto|].
  intros a Ha. destruct a; cbn in Ha; try contradiction. apply safe_ret. exact Ha.
Qed.
Lemma safe_applyf f pos d : nv_value f -> Forall nv_thunk pos -> safe nv_value (applyf f pos d).
Proof. intros. unfold applyf. apply safe_apply; auto. constructor. Qed.
Lemma safe_field_at ls from name d : nv_layers ls -> safe nv_value (field_at ls from name d).
Proof.
  intros. unfold field_at. eapply safe_bind; [apply (safe_call (TField ls from name)); simpl; auto|].
  intros a Ha. destruct a; cbn in Ha; try contradiction. apply safe_ret. exact Ha.
Qed.
Lemma safe_equals a b d : nv_value a -> nv_value b -> safe any (equals a b d).
Proof.
  intros. unfold equals. eapply safe_bind; [apply (safe_call (TEquals a b)); simpl; auto|].
  intros x Hx. destruct x; cbn in Hx; try contradiction. apply safe_ret. exact I.
Qed.
Lemma safe_compare a b d : nv_value a -> nv_value b -> safe any (compare a b d).
Proof.
  intros. unfold compare. eapply safe_bind; [apply (safe_call (TCompare a b)); simpl; auto|].
  intros x Hx. destruct x; cbn in Hx; try contradiction. apply safe_ret. exact I.
Qed.
Lemma safe_manifest s v d : nv_value v -> safe any (manifest s v d).
Proof.
  intros. unfold manifest. eapply safe_bind; [apply (safe_call (TManifest s v)); simpl; auto|].
  intros x Hx. destruct x; cbn in Hx; try contradiction. apply safe_ret. exact I.
Qed.
#[export] Hint Resolve safe_eval safe_forceT safe_apply safe_applyf safe_field_at safe_equals safe_compare safe_manifest : safe.

Lemma safe_render_m j : safe any (render_m j).
Proof. unfold render_m. safe_tac. Qed.
#[export] Hint Resolve safe_render_m : safe.
Lemma safe_to_string v d : nv_value v -> safe any (to_string v d).
Proof. intros H. unfold to_string. destruct v; safe_tac. Qed.
#[export] Hint Resolve safe_to_string : safe.

Lemma safe_un_op op v : nv_value v -> safe nv_value (un_op op v).
Proof. intros Hv. unfold un_op. destruct op, v; nv_inv; safe_tac. Qed.
Lemma safe_int2 P a b k : (forall x y, safe P (k x y)) -> safe P (int2 a b k).
Proof. intros H. unfold int2. safe_tac; apply H. Qed.
Lemma safe_num_bin op a b : safe nv_value (num_bin op a b).
Proof. unfold num_bin. destruct op; safe_tac; apply safe_int2; intros; safe_tac. Qed.
#[export] Hint Resolve safe_un_op safe_num_bin : safe.

Lemma Forall_app_intro {A} (P : A -> Prop) l1 l2 : Forall P l1 -> Forall P l2 -> Forall P (l1 ++ l2).
Proof. intros. apply Forall_app. split; assumption. Qed.
#[export] Hint Resolve Forall_app_intro : nv.

Lemma safe_add_vals l r d : nv_value l -> nv_value r -> safe nv_value (add_vals l r d).
Proof. intros Hl Hr. unfold add_vals. destruct l, r; nv_inv; safe_tac. Qed.
#[export] Hint Resolve safe_add_vals : safe.
Lemma safe_bin_op op l r d : nv_value l -> nv_value r -> safe nv_value (bin_op op l r d).
Proof. intros Hl Hr. unfold bin_op. destruct l, r; try solve [safe_tac]; destruct op; safe_tac. Qed.
#[export] Hint Resolve safe_bin_op : safe.

(* ---- asserts and fields ---- *)
Lemma safe_run_assert en a d : nv_env en -> safe any (run_assert en a d).
Proof. intros He. unfold run_assert. safe_tac. Qed.

Lemma safe_run_layer_asserts ls : nv_layers ls -> forall rest i d, nv_layers rest -> safe any (run_layer_asserts ls rest i d).
Proof.
  intros Hls. induction rest as [|l r IH]; intros i d Hrest; simpl.
  - apply safe_ret. exact I.
  - inversion Hrest as [|? ? Hl Hr]; subst. eapply safe_bind; [|intros; apply IH; exact Hr].
    apply safe_iterM. intros a Ha. apply safe_run_assert. apply layer_env_nv; [exact Hls|].
    inversion Hl; subst. assumption.
Qed.

Lemma safe_run_asserts ls c d : nv_layers ls -> safe any (run_asserts ls c d).
Proof. intros H. unfold run_asserts. destruct c; [apply safe_ret; exact I | apply safe_run_layer_asserts; assumption]. Qed.
#[export] Hint Resolve safe_run_asserts : safe.

Lemma safe_missing_field {A} (P : A -> Prop) ls n : safe P (missing_field ls n).
Proof. unfold missing_field. safe_tac. Qed.
#[export] Hint Resolve safe_missing_field : safe.

Lemma safe_get_field ls c n d : nv_layers ls -> safe nv_value (get_field ls c n d).
Proof. intros H. unfold get_field. safe_tac. Qed.
#[export] Hint Resolve safe_get_field : safe.

(* the RefEval:do_field:layer site is unreachable (find_field_nth) *)
Lemma safe_do_field ls from name d : nv_layers ls -> safe nv_value (do_field ls from name d).
Proof.
  intros Hls. unfold do_field.
  destruct (find_field ls from name) as [[i f]|] eqn:Ef; [|safe_tac].
  destruct (find_field_nth _ _ _ _ _ Ef) as [l En]. rewrite En.
  destruct (find_field_sound _ _ _ _ _ _ Ef En) as [Hl Hf].
  pose proof (field_env_nv ls i l (name, f) Hls En Hf) as Hen. cbn [snd] in Hen.
  safe_tac.
Qed.
#[export] Hint Resolve safe_do_field : safe.

Lemma safe_with_super {P} en k :
  nv_env en -> (forall ls i, nv_layers ls -> safe P (k ls i)) -> safe P (with_super en k).
Proof.
  intros He Hk. unfold with_super. destruct (lookup_obj en) as [[[ls i] c]|] eqn:E; [|apply safe_fail].
  apply Hk. eapply lookup_obj_nv; eassumption.
Qed.

Lemma safe_super_field en name d : nv_env en -> safe nv_value (super_field en name d).
Proof. intros He. unfold super_field. apply safe_with_super; auto. intros. safe_tac. Qed.
#[export] Hint Resolve safe_super_field : safe.

(* ---- object construction ---- *)
Definition field_ok (nf : str * field) : Prop := forall fe, f_fenv (snd nf) = Some fe -> nv_env fe.

Lemma safe_field_name_of v : safe any (field_name_of v).
Proof. unfold field_name_of. destruct v; safe_tac. Qed.
#[export] Hint Resolve safe_field_name_of : safe.

Lemma safe_add_field acc on f :
  Forall field_ok acc -> (forall s, field_ok (s, f)) -> safe (Forall field_ok) (add_field acc on f).
Proof.
  intros Ha Hf. unfold add_field. destruct on as [s|]; [|apply safe_ret; exact Ha].
  destruct (assoc s acc); [apply safe_kind|]. apply safe_ret. apply Forall_app_intro; [exact Ha|]. constructor; [apply Hf | constructor].
Qed.

Lemma safe_build_fields en d : nv_env en ->
  forall fs acc, Forall field_ok acc -> safe (Forall field_ok) (build_fields en fs acc d).
Proof.
  intros He. induction fs as [|f r IH]; intros acc Hacc; simpl.
  - apply safe_ret. exact Hacc.
  - destruct f as [nm plus vis body].
    assert (Hbody : forall s, field_ok (s, MkField vis plus body None)) by (intros s fe H; discriminate H).
    destruct nm as [s | e].
    + eapply safe_bind with (Q := any); [apply safe_ret; exact I|]. intros on _.
      eapply safe_bind; [apply safe_add_field; eauto|]. intros acc' Hacc'. apply IH; assumption.
    + eapply safe_bind; [eapply safe_bind; [apply safe_eval; eassumption | intros; apply safe_field_name_of]|]. intros on _.
      eapply safe_bind; [apply safe_add_field; eauto|]. intros acc' Hacc'. apply IH; assumption.
Qed.

(* ---- comprehensions ---- *)
Lemma safe_expand_for x : forall vs vals,
  Forall nv_vars vs -> Forall nv_value vals -> safe (Forall nv_vars) (expand_for x vs vals).
Proof.
  induction vs as [|v vr IH]; intros vals Hvs Hvals; simpl.
  - destruct vals; apply safe_ret; constructor.
  - destruct vals as [|a valr]; [apply safe_ret; constructor|].
    inversion Hvs as [|? ? Hv Hvr]; subst. inversion Hvals as [|? ? Ha Hvalr]; subst.
    destruct a; try apply safe_kind.
    eapply safe_bind; [apply IH; assumption|]. intros rest Hrest. apply safe_ret.
    apply Forall_app_intro; [|exact Hrest]. inversion Ha; subst.
    rewrite Forall_forall. intros v' Hin. apply in_map_iff in Hin. destruct Hin as (it & <- & Hit).
    constructor; [|exact Hv]. simpl. rewrite Forall_forall in H0. apply H0. exact Hit.
Qed.

Lemma safe_filter_if : forall vs vals, Forall nv_vars vs -> safe (Forall nv_vars) (filter_if vs vals).
Proof.
  induction vs as [|v vr IH]; intros vals Hvs; simpl.
  - destruct vals; apply safe_ret; constructor.
  - destruct vals as [|a valr]; [apply safe_ret; constructor|].
    inversion Hvs as [|? ? Hv Hvr]; subst.
    destruct a; try apply safe_kind.
    eapply safe_bind; [apply IH; assumption|]. intros rest Hrest. apply safe_ret.
    destruct b; [constructor; assumption | assumption].
Qed.

Lemma nv_env_vars v en : nv_vars v -> nv_env en -> nv_env (FVars v [] :: en).
Proof. intros Hv He. constructor; [exact Hv | exact He]. Qed.

Lemma safe_comp_bfs en d : nv_env en -> forall specs vs,
  Forall nv_vars vs -> safe (Forall nv_vars) (comp_bfs en specs vs d).
Proof.
  intros He. induction specs as [|s r IH]; intros vs Hvs; simpl.
  - apply safe_ret. exact Hvs.
  - destruct s as [x e | c].
    + eapply safe_bind.
      { apply safe_mapM with (P := nv_value). intros v Hv. rewrite Forall_forall in Hvs.
        apply safe_eval. apply nv_env_vars; auto. }
      intros vals Hvals. destruct (first_non_array vals); [apply safe_kind|].
      eapply safe_bind; [apply safe_expand_for; eassumption|]. intros vs' Hvs'.
      apply IH; assumption.
    + eapply safe_bind.
      { apply safe_mapM with (P := nv_value). intros v Hv. rewrite Forall_forall in Hvs.
        apply safe_eval. apply nv_env_vars; auto. }
      intros vals Hvals. destruct (first_non_bool vals); [apply safe_kind|].
      eapply safe_bind; [apply safe_filter_if; eassumption|]. intros vs' Hvs'.
      apply IH; assumption.
Qed.

Lemma Forall_concat {A} (P : A -> Prop) (ll : list (list A)) : Forall (Forall P) ll -> Forall P (concat ll).
Proof. induction 1; simpl; [constructor | apply Forall_app_intro; assumption]. Qed.

Lemma safe_comp_dfs en d : nv_env en -> forall specs v,
  nv_vars v -> safe (Forall nv_vars) (comp_dfs en specs v d).
Proof.
  intros He. induction specs as [|s r IH]; intros v Hv; simpl.
  - apply safe_ret. constructor; [exact Hv | constructor].
  - destruct s as [x e | c].
    + eapply safe_bind; [apply safe_eval; apply nv_env_vars; assumption|].
      intros a Ha. destruct a; try apply safe_kind. inversion Ha; subst.
      eapply safe_bind.
      { apply safe_mapM with (P := Forall nv_vars).
        intros it Hit. apply IH. constructor; [|exact Hv]. simpl. rewrite Forall_forall in H0. apply H0. exact Hit. }
      intros ll Hll. apply safe_ret. apply Forall_concat. exact Hll.
    + eapply safe_bind; [apply safe_eval; apply nv_env_vars; assumption|].
      intros b Hb. destruct b; try apply safe_kind. destruct b; [apply IH; assumption | apply safe_ret; constructor].
Qed.

Lemma safe_comp_envs en specs d : nv_env en -> safe (Forall nv_env) (comp_envs en specs d).
Proof.
  intros He. unfold comp_envs. eapply safe_bind; [apply safe_ask_bfs|]. intros bfs _.
  eapply safe_bind with (Q := Forall nv_vars).
  - destruct bfs.
    + apply (safe_comp_bfs en d He specs [[]]). constructor; [constructor | constructor].
    + apply (safe_comp_dfs en d He specs []). constructor.
  - intros vs Hvs. apply safe_ret. rewrite Forall_forall in *. intros e' Hin. apply in_map_iff in Hin.
    destruct Hin as (v & <- & Hv). apply nv_env_vars; auto.
Qed.

Lemma safe_build_comp_fields name plus body d :
  forall envs acc, Forall nv_env envs -> Forall field_ok acc ->
  safe (Forall field_ok) (build_comp_fields envs name plus body acc d).
Proof.
  induction envs as [|e r IH]; intros acc Henvs Hacc; simpl.
  - apply safe_ret. exact Hacc.
  - inversion Henvs as [|? ? He Hr]; subst.
    eapply safe_bind; [apply safe_eval; exact He|]. intros v Hv.
    eapply safe_bind; [apply safe_field_name_of|]. intros on _.
    eapply safe_bind; [apply safe_add_field; [exact Hacc|]|].
    { intros s fe H. cbn in H. injection H as <-. exact He. }
    intros acc' Hacc'. apply IH; assumption.
Qed.

(* ---- indexing and slices ---- *)
Lemma safe_index_value v i d : nv_value v -> nv_value i -> safe nv_value (index_value v i d).
Proof.
  intros Hv Hi. unfold index_value. destruct v; try solve [safe_tac]; try solve [destruct i; safe_tac].
  - inversion Hv; subst. destruct i; try solve [safe_tac]. destruct (to_index f); [|safe_tac].
    destruct (nthN items n) as [t|] eqn:En; [|safe_tac]. apply nthN_in in En.
    rewrite Forall_forall in H0. specialize (H0 _ En). safe_tac.
Qed.
#[export] Hint Resolve safe_index_value : safe.

Lemma safe_opt_num v s : safe any (opt_num v s).
Proof. unfold opt_num. destruct v; safe_tac. Qed.
Lemma safe_slice_pos l f : safe any (slice_pos l f).
Proof. unfold slice_pos. safe_tac. Qed.
#[export] Hint Resolve safe_opt_num safe_slice_pos : safe.
Lemma safe_ret_any {A} (a : A) : safe any (ret a).
Proof. apply safe_ret. exact I. Qed.
#[export] Hint Resolve safe_ret_any : safe.
Ltac safe_any :=
  repeat first [ apply safe_ret_any
               | solve [eauto with safe nv]
               | (eapply safe_bind with (Q := any); [| intros])
               | match goal with
                 | |- safe _ (match ?x with _ => _ end) => destruct x
                 | |- safe _ (if ?b then _ else _) => destruct b
                 end ].
Lemma safe_slice_range l a b c : safe any (slice_range l a b c).
Proof. unfold slice_range. destruct a, b, c; safe_any. Qed.
#[export] Hint Resolve safe_slice_range : safe.

Lemma take_step_incl {A} : forall (l : list A) n step k x, In x (take_step l n step k) -> In x l.
Proof.
  induction l as [|y r IH]; intros n step k x H; simpl in H; [tauto|].
  destruct (n =? 0); [destruct H|]. destruct (k =? 0).
  - destruct H as [-> | H]; [left; reflexivity | right; eapply IH; eassumption].
  - right. eapply IH; eassumption.
Qed.

Lemma slice_list_forall {A} (P : A -> Prop) l a b c : Forall P l -> Forall P (slice_list l a b c).
Proof.
  intros H. rewrite Forall_forall in *. intros x Hx. apply H. unfold slice_list in Hx.
  apply take_step_incl in Hx. eapply dropN_incl. exact Hx.
Qed.

Lemma safe_do_slice v a b c f : nv_value v -> safe nv_value (do_slice v a b c f).
Proof.
  intros Hv. unfold do_slice. destruct v; try solve [safe_tac].
  inversion Hv; subst. eapply safe_bind; [apply safe_slice_range|]. intros [[s0 st] sp] _. apply safe_ret.
    constructor. apply slice_list_forall. assumption.
Qed.
#[export] Hint Resolve safe_do_slice : safe.

Lemma safe_eval_opt en o d : nv_env en -> safe nv_value (eval_opt en o d).
Proof. intros He. unfold eval_opt. destruct o; safe_tac. Qed.
#[export] Hint Resolve safe_eval_opt : safe.

(* ---- builtins ---- *)
Lemma safe_filter_m fv d : nv_value fv -> forall items, Forall nv_thunk items -> safe (Forall nv_thunk) (filter_m fv items d).
Proof.
  intros Hf. induction items as [|it r IH]; intros Hi; simpl.
  - apply safe_ret. constructor.
  - inversion Hi; subst. eapply safe_bind; [apply safe_applyf; [exact Hf | constructor; [assumption | constructor]]|].
    intros b Hb. destruct b; try apply safe_kind. eapply safe_bind; [apply IH; assumption|]. intros rest Hrest.
    apply safe_ret. destruct b; [constructor; assumption | assumption].
Qed.

Lemma safe_foldl_m fv d : nv_value fv -> forall items acc, Forall nv_thunk items -> nv_thunk acc -> safe nv_value (foldl_m fv items acc d).
Proof.
  intros Hf. induction items as [|it r IH]; intros acc Hi Ha; simpl.
  - apply safe_forceT. exact Ha.
  - inversion Hi; subst. eapply safe_bind; [apply safe_applyf; [exact Hf | repeat constructor; assumption]|].
    intros v Hv. apply IH; [assumption | constructor; exact Hv].
Qed.

Lemma safe_foldr_m fv d : nv_value fv -> forall items acc, Forall nv_thunk items -> nv_thunk acc -> safe nv_value (foldr_m fv items acc d).
Proof.
  intros Hf. induction items as [|it r IH]; intros acc Hi Ha; simpl.
  - apply safe_forceT. exact Ha.
  - inversion Hi; subst. eapply safe_bind; [apply safe_applyf; [exact Hf | repeat constructor; assumption]|].
    intros v Hv. apply IH; [assumption | constructor; exact Hv].
Qed.

Lemma safe_join_str_m sep d : forall items first acc, Forall nv_thunk items -> safe nv_value (join_str_m sep items first acc d).
Proof.
  induction items as [|it r IH]; intros first acc Hi; simpl.
  - apply safe_ret. constructor.
  - inversion Hi; subst. eapply safe_bind; [apply safe_forceT; assumption|]. intros v Hv.
    destruct v; try apply safe_kind; apply IH; assumption.
Qed.

Lemma safe_join_arr_m sep d : Forall nv_thunk sep -> forall items first acc,
  Forall nv_thunk items -> Forall nv_thunk acc -> safe nv_value (join_arr_m sep items first acc d).
Proof.
  intros Hs. induction items as [|it r IH]; intros first acc Hi Ha; simpl.
  - apply safe_ret. constructor. exact Ha.
  - inversion Hi; subst. eapply safe_bind; [apply safe_forceT; assumption|]. intros v Hv.
    destruct v; try apply safe_kind; [apply IH; assumption|]. inversion Hv; subst.
    apply IH; [assumption|]. destruct first; auto with nv.
Qed.
#[export] Hint Resolve safe_filter_m safe_foldl_m safe_foldr_m safe_join_str_m safe_join_arr_m : safe.

Lemma Forall_map_intro {A B} (P : B -> Prop) (f : A -> B) l : (forall a, In a l -> P (f a)) -> Forall P (map f l).
Proof. intros H. rewrite Forall_forall. intros b Hb. apply in_map_iff in Hb. destruct Hb as (a & <- & Ha). auto. Qed.

Lemma safe_object_has o f h : safe nv_value (object_has o f h).
Proof. unfold object_has. destruct o, f, h; safe_tac. Qed.
Lemma safe_object_fields o h : safe nv_value (object_fields o h).
Proof.
  unfold object_fields. destruct o; try solve [safe_tac]. destruct h; try solve [safe_tac].
  apply safe_ret. constructor. apply Forall_map_intro. intros. repeat constructor.
Qed.
Lemma safe_prim_equals a b : safe nv_value (prim_equals a b).
Proof. unfold prim_equals. destruct a, b; safe_tac. Qed.
Lemma safe_mod_num a b : safe nv_value (mod_num a b).
Proof. unfold mod_num. destruct a, b; safe_tac. Qed.
#[export] Hint Resolve safe_object_has safe_object_fields safe_prim_equals safe_mod_num : safe.
