(* Proofs/Compare_proofs.v — all lemmas about Model/Compare.v (property C08).

   1. an abstract comparison algebra ([ord_laws], general transitivity [ctrans]) with two
      instances: lexicographic comparison of byte lists (strings) and finite doubles
      (SFcompare is the lexicographic order of the key (class/sign, exponent, mantissa);
      proved directly over Z — no real numbers, no axioms);
   2. value trees: induction principle, the model's loops as top-level functions, objects seen
      through their visible fields;
   3. [wf] (the invariants of implementation values), [to_json], and: == decides equality of
      JSON values (hence reflexive, symmetric, transitive);
   4. the order: antisymmetry, agreement with ==, general transitivity (all without any
      fail-freeness hypothesis: an answer of the model is enough), totality per ordered type,
      unordered types error, no panic;
   5. laziness: early exit of == and <, hidden fields, length test first, lexicographic arrays;
   6. the six operators and std.equals / std.__compare / std.__compare_array / std.primitiveEquals;
   7. == is transitive on all trees (answers suffice); SFcompare on the doubles produced by
      f_of_bits is the order of their exact values (integers after scaling by 2^1074). *)
From Coq Require Import List NArith ZArith Lia Bool Floats.SpecFloat.
From RJ Require Import Base.Outcome Base.F64 Model.Utf8Order Model.Compare Proofs.Utf8Order_proofs.
Import ListNotations.

(* ---------------------------------------------------------------- comparison algebra *)
Definition ctrans (c1 c2 : comparison) : option comparison :=
  match c1, c2 with
  | Eq, c => Some c
  | c, Eq => Some c
  | Lt, Lt => Some Lt
  | Gt, Gt => Some Gt
  | _, _ => None
  end.

Section AbstractOrder.
  Variable A : Type.
  Variable cmp : A -> A -> comparison.
  Record ord_laws : Prop := {
    ol_refl : forall x, cmp x x = Eq;
    ol_opp : forall x y, cmp y x = CompOpp (cmp x y);
    ol_trans : forall x y z, cmp x y = Lt -> cmp y z = Lt -> cmp x z = Lt;
    ol_eq : forall x y z, cmp x y = Eq -> cmp x z = cmp y z }.

  Hypothesis L : ord_laws.

  Lemma ol_eq_r x y z : cmp y z = Eq -> cmp x y = cmp x z.
  Proof.
    intros H. rewrite (ol_opp L y x), (ol_opp L z x). f_equal. apply (ol_eq L).
    exact H.
  Qed.

  Lemma ol_gtrans x y z c1 c2 c3 :
    cmp x y = c1 -> cmp y z = c2 -> ctrans c1 c2 = Some c3 -> cmp x z = c3.
  Proof.
    intros H1 H2 H3. destruct c1, c2; cbn in H3; inversion H3; subst; clear H3.
    - rewrite (ol_eq L x y z H1). exact H2.
    - rewrite (ol_eq L x y z H1). exact H2.
    - rewrite (ol_eq L x y z H1). exact H2.
    - rewrite <- (ol_eq_r x y z H2). exact H1.
    - eapply (ol_trans L); eauto.
    - rewrite <- (ol_eq_r x y z H2). exact H1.
    - (* Gt Gt *)
      rewrite (ol_opp L z x). 
      assert (E1 : cmp y x = Lt) by (rewrite (ol_opp L x y), H1; reflexivity).
      assert (E2 : cmp z y = Lt) by (rewrite (ol_opp L y z), H2; reflexivity).
      rewrite (ol_trans L z y x E2 E1). reflexivity.
  Qed.

  Lemma ol_trichotomy x y : (cmp x y = Eq <-> cmp y x = Eq) /\ (cmp x y = Lt <-> cmp y x = Gt).
  Proof. rewrite (ol_opp L x y). destruct (cmp x y); cbn; intuition congruence. Qed.
End AbstractOrder.

(* instance: lexicographic comparison of byte / code-point lists *)
Lemma lex_ord_laws : ord_laws (list N) lex_compare.
Proof.
  split.
  - apply lex_refl.
  - intros x y. apply lex_opp.
  - intros x y z. apply lex_trans_lt.
  - intros x y z. apply lex_eq_compat.
Qed.

(* ---------------------------------------------------------------- doubles *)
Local Open Scope Z_scope.
Definition fkey (x : f64) : Z * Z * Z :=
  match x with
  | S754_zero _ => (0, 0, 0)
  | S754_finite false m e => (1, e, Z.pos m)
  | S754_finite true m e => (-1, - e, Z.neg m)
  | S754_infinity false => (2, 0, 0)
  | S754_infinity true => (-2, 0, 0)
  | S754_nan => (3, 0, 0)
  end.

Definition cmp3 (k k' : Z * Z * Z) : comparison :=
  let '(a, b, c) := k in let '(a', b', c') := k' in
  match a ?= a' with
  | Eq => match b ?= b' with Eq => c ?= c' | r => r end
  | r => r
  end.

Definition lt3 (k k' : Z * Z * Z) : Prop :=
  let '(a, b, c) := k in let '(a', b', c') := k' in
  a < a' \/ (a = a' /\ (b < b' \/ (b = b' /\ c < c'))).

Lemma cmp3_spec k k' : CompareSpec (k = k') (lt3 k k') (lt3 k' k) (cmp3 k k').
Proof.
  destruct k as [[a b] c], k' as [[a' b'] c']. unfold cmp3, lt3.
  destruct (Z.compare_spec a a'), (Z.compare_spec b b'), (Z.compare_spec c c'); constructor;
    solve [subst; reflexivity | lia].
Qed.

Ltac c3 := repeat match goal with
  | H : (_, _, _) = (_, _, _) |- _ => inversion H; clear H; subst
  end; unfold lt3 in *; try reflexivity; try discriminate; try lia.

Lemma cmp3_ord_laws : ord_laws _ cmp3.
Proof.
  split.
  - intros [[a b] c]. destruct (cmp3_spec (a, b, c) (a, b, c)); c3.
  - intros [[a b] c] [[a' b'] c'].
    destruct (cmp3_spec (a, b, c) (a', b', c')), (cmp3_spec (a', b', c') (a, b, c)); cbn [CompOpp]; c3.
  - intros [[a b] c] [[a' b'] c'] [[a'' b''] c''] H1 H2.
    destruct (cmp3_spec (a, b, c) (a', b', c')); try discriminate.
    destruct (cmp3_spec (a', b', c') (a'', b'', c'')); try discriminate.
    destruct (cmp3_spec (a, b, c) (a'', b'', c'')); c3.
  - intros x y z H. destruct (cmp3_spec x y) as [E|?|?]; try discriminate. now subst.
Qed.

Definition fnn (x : f64) : Prop := f_is_nan x = false.

Lemma f_compare_key x y : fnn x -> fnn y -> f_compare x y = Some (cmp3 (fkey x) (fkey y)).
Proof.
  unfold fnn, f_compare. intros Hx Hy.
  destruct x as [sx|sx| |sx mx ex], y as [sy|sy| |sy my ey]; try discriminate;
    try destruct sx; try destruct sy; try reflexivity.
cbn. rewrite Z.compare_opp, (Z.compare_antisym ex ey).
  destruct (ex ?= ey); reflexivity.
Qed.

Lemma f_compare_some_nn x y c : f_compare x y = Some c -> fnn x /\ fnn y.
Proof. unfold fnn. destruct x, y; cbn; intros H; try discriminate; auto. Qed.

Lemma f_compare_total x y : fnn x -> fnn y -> exists c, f_compare x y = Some c.
Proof. intros Hx Hy. rewrite f_compare_key by assumption. eauto. Qed.

Lemma f_compare_refl x : fnn x -> f_compare x x = Some Eq.
Proof. intros Hx. rewrite f_compare_key by assumption. now rewrite (ol_refl _ _ cmp3_ord_laws). Qed.

Lemma f_compare_opp x y c : f_compare x y = Some c -> f_compare y x = Some (CompOpp c).
Proof.
  intros H. destruct (f_compare_some_nn _ _ _ H) as [Hx Hy].
  rewrite f_compare_key in * by assumption. injection H as <-.
  now rewrite (ol_opp _ _ cmp3_ord_laws (fkey x) (fkey y)).
Qed.

Lemma f_compare_gtrans x y z c1 c2 c3 :
  f_compare x y = Some c1 -> f_compare y z = Some c2 -> ctrans c1 c2 = Some c3 -> f_compare x z = Some c3.
Proof.
  intros H1 H2 H3. destruct (f_compare_some_nn _ _ _ H1) as [Hx Hy]. destruct (f_compare_some_nn _ _ _ H2) as [_ Hz].
  rewrite f_compare_key in * by assumption. injection H1 as H1. injection H2 as H2.
  f_equal. eapply (ol_gtrans _ _ cmp3_ord_laws); eauto.
Qed.

(* the JSON number denoted by a double: the sign of zero is not observable *)
Definition fnorm (x : f64) : f64 := match x with S754_zero _ => S754_zero false | _ => x end.

Lemma fkey_inj x y : fnn x -> fnn y -> (fkey x = fkey y <-> fnorm x = fnorm y).
Proof.
  unfold fnn. intros Hx Hy.
  destruct x as [sx|sx| |sx mx ex], y as [sy|sy| |sy my ey]; try discriminate;
    try destruct sx; try destruct sy; cbn; split; intros H; try discriminate; try reflexivity;
    try (inversion H; subst; reflexivity).
  inversion H. assert (ex = ey) by lia. subst. reflexivity.
Qed.

Lemma f_eqb_compare x y : f_eqb x y = match f_compare x y with Some Eq => true | _ => false end.
Proof. reflexivity. Qed.

Lemma f_compare_eq_iff x y : fnn x -> fnn y -> (f_compare x y = Some Eq <-> fnorm x = fnorm y).
Proof.
  intros Hx Hy. rewrite f_compare_key by assumption. rewrite <- fkey_inj by assumption.
  destruct (cmp3_spec (fkey x) (fkey y)) as [E|H|H]; split; intros H'; try discriminate; try reflexivity; try assumption;
    rewrite H' in H; destruct (fkey y) as [[a b] c]; unfold lt3 in H; lia.
Qed.

Lemma f_eqb_iff x y : fnn x -> fnn y -> (f_eqb x y = true <-> fnorm x = fnorm y).
Proof.
  intros Hx Hy. rewrite <- f_compare_eq_iff by assumption. rewrite f_eqb_compare.
  destruct (f_compare x y) as [[]|]; split; intros H; try discriminate; try reflexivity.
Qed.

Lemma finite_nn x : f_is_finite x = true -> fnn x.
Proof. unfold fnn. destruct x; cbn; intros H; try discriminate; reflexivity. Qed.

(* ---------------------------------------------------------------- value trees *)
Local Open Scope nat_scope.
Local Open Scope outcome_scope.

Section LvalInd.
  Variable P : lval -> Prop.
  Hypothesis Hnull : P LNull.
  Hypothesis Hbool : forall b, P (LBool b).
  Hypothesis Hnum : forall x, P (LNum x).
  Hypothesis Hstr : forall s, P (LStr s).
  Hypothesis Harr : forall xs, Forall P xs -> P (LArr xs).
  Hypothesis Hobj : forall a fs, Forall (fun f => P (fval f)) fs -> P (LObj a fs).
  Hypothesis Hfun : P LFun.
  Hypothesis Hfail : forall e, P (LFail e).

  Fixpoint lval_ind2 (v : lval) : P v :=
    match v with
    | LNull => Hnull
    | LBool b => Hbool b
    | LNum x => Hnum x
    | LStr s => Hstr s
    | LArr xs => Harr xs ((fix go (l : list lval) : Forall P l :=
                             match l with [] => Forall_nil _ | x :: r => Forall_cons _ (lval_ind2 x) (go r) end) xs)
    | LObj a fs => Hobj a fs ((fix go (l : list field) : Forall (fun f => P (fval f)) l :=
                             match l with [] => Forall_nil _ | f :: r => Forall_cons _ (lval_ind2 (fval f)) (go r) end) fs)
    | LFun => Hfun
    | LFail e => Hfail e
    end.
End LvalInd.

(* the loops of the model as top-level functions *)
Fixpoint eq_items (xs ys : list lval) {struct xs} : outcome bool err :=
  match xs, ys with
  | x :: xs', y :: ys' =>
      do r <- equals x y;
      if r then eq_items xs' ys' else Ok false
  | _, _ => Ok true
  end.

Definition eq_fields (fb : list field) : list field -> outcome bool err :=
  fix eq_fields (fa : list field) {struct fa} : outcome bool err :=
  match fa with
  | [] => Ok true
  | (n, v, x) :: fa' =>
      if visible v then
        match lookup n fb with
        | None => Panic site_unwrap_field
        | Some y =>
            do r <- equals x y;
            if r then eq_fields fa' else Ok false
        end
      else eq_fields fa'
  end.

Fixpoint cmp_items (xs ys : list lval) {struct xs} : outcome comparison err :=
  match xs, ys with
  | [], [] => Ok Eq
  | [], _ :: _ => Ok Lt
  | _ :: _, [] => Ok Gt
  | x :: xs', y :: ys' =>
      do c <- compare x y;
      match c with Eq => cmp_items xs' ys' | _ => Ok c end
  end.

Lemma equals_arr xs ys :
  equals (LArr xs) (LArr ys) = if Nat.eqb (length xs) (length ys) then eq_items xs ys else Ok false.
Proof. reflexivity. Qed.

Lemma equals_obj aa fa ab fb :
  equals (LObj aa fa) (LObj ab fb) =
  if names_eqb (vis_names fa) (vis_names fb) then
    match vis_names fa with
    | [] => Ok true
    | _ :: _ => do _ <- run_asserts aa; do _ <- run_asserts ab; eq_fields fb fa
    end
  else Ok false.
Proof. reflexivity. Qed.

Lemma compare_arr xs ys : compare (LArr xs) (LArr ys) = cmp_items xs ys.
Proof. reflexivity. Qed.

(* ---- objects seen through their visible fields ---- *)
Fixpoint vfields (fs : list field) : list field :=
  match fs with
  | [] => []
  | f :: r => if visible (fvis f) then f :: vfields r else vfields r
  end.
Definition vvals (fs : list field) : list lval := map fval (vfields fs).

Lemma vis_names_vfields fs : vis_names fs = map fname (vfields fs).
Proof. induction fs as [|f r IH]; cbn; [reflexivity|]. destruct (visible (fvis f)); cbn; now rewrite IH. Qed.

Lemma vfields_incl fs : incl (vfields fs) fs.
Proof.
  induction fs as [|f r IH]; cbn; [apply incl_refl|].
  destruct (visible (fvis f)); [apply incl_cons; [now left | now apply incl_tl] | now apply incl_tl].
Qed.

Lemma names_eqb_iff a : forall b, names_eqb a b = true <-> a = b.
Proof.
  induction a as [|x a IH]; intros [|y b]; cbn [names_eqb]; split; intros H; try discriminate; try reflexivity.
  - apply andb_true_iff in H as [H1 H2]. apply list_eqb_iff in H1. apply IH in H2. congruence.
  - injection H as -> ->. apply andb_true_iff. split; [now apply list_eqb_iff | now apply IH].
Qed.

Lemma lookup_in fb : NoDup (map fname fb) -> forall g, In g fb -> lookup (fname g) fb = Some (fval g).
Proof.
  induction fb as [|f r IH]; intros ND g Hin; [contradiction|].
  cbn [map] in ND. inversion ND as [|? ? Hnotin ND']; subst. cbn [lookup].
  destruct Hin as [->|Hin].
  - assert (E : list_eqb (fname g) (fname g) = true) by now apply list_eqb_iff. now rewrite E.
  - destruct (list_eqb (fname f) (fname g)) eqn:E.
    + apply list_eqb_iff in E. exfalso. apply Hnotin. rewrite E. now apply in_map.
    + now apply IH.
Qed.

Lemma eq_fields_cons fb n v x fa' :
  eq_fields fb ((n, v, x) :: fa') =
  if visible v then
    match lookup n fb with
    | None => Panic site_unwrap_field
    | Some y => do r <- equals x y; if r then eq_fields fb fa' else Ok false
    end
  else eq_fields fb fa'.
Proof. reflexivity. Qed.

Lemma eq_fields_view fb : NoDup (map fname fb) -> forall fa sub,
  incl sub fb -> map fname sub = vis_names fa -> eq_fields fb fa = eq_items (vvals fa) (map fval sub).
Proof.
  intros ND. induction fa as [|[[n v] x] fa' IH]; intros sub Hincl Hnames.
  - reflexivity.
  - rewrite eq_fields_cons. unfold vvals in *. cbn [vis_names vfields fvis fname fst snd] in *.
    destruct (visible v).
    + destruct sub as [|g sub']; [discriminate|]. cbn [map] in Hnames. injection Hnames as Hg Hrest.
      assert (Hl : lookup n fb = Some (fval g)).
      { rewrite <- Hg. apply lookup_in; [assumption|]. apply Hincl. now left. }
      rewrite Hl. cbn [map eq_items fval snd].
      rewrite (IH sub'); [reflexivity | | assumption].
      intros z Hz. apply Hincl. now right.
    + now apply IH.
Qed.

Lemma equals_obj_view aa fa ab fb : NoDup (map fname fb) ->
  equals (LObj aa fa) (LObj ab fb) =
  if names_eqb (vis_names fa) (vis_names fb) then
    match vis_names fa with
    | [] => Ok true
    | _ :: _ => do _ <- run_asserts aa; do _ <- run_asserts ab; eq_items (vvals fa) (vvals fb)
    end
  else Ok false.
Proof.
  intros ND. rewrite equals_obj. destruct (names_eqb (vis_names fa) (vis_names fb)) eqn:E; [|reflexivity].
  apply names_eqb_iff in E.
  rewrite (eq_fields_view fb ND fa (vfields fb)); [reflexivity | apply vfields_incl |].
  now rewrite <- vis_names_vfields.
Qed.

(* ---------------------------------------------------------------- well-formed values, JSON values *)
Inductive wf : lval -> Prop :=
| wf_null : wf LNull
| wf_bool b : wf (LBool b)
| wf_num x : f_is_finite x = true -> wf (LNum x)
| wf_str s : str_ok s -> wf (LStr s)
| wf_arr xs : Forall wf xs -> wf (LArr xs)
| wf_obj a fs : NoDup (map fname fs) -> Forall (fun f => wf (fval f)) fs -> wf (LObj a fs)
| wf_fun : wf LFun
| wf_fail e : wf (LFail e).

Inductive json :=
| JNull | JBool (b : bool) | JNum (x : f64) | JStr (s : list N)
| JArr (l : list json) | JObj (fs : list (list N * json)).

(* the JSON value of a tree: visible fields only, -0 = 0; None when a visible part fails, is a
   function, or an object's asserts fail (manifestation would fail) *)
Fixpoint to_json (a : lval) : option json :=
  match a with
  | LNull => Some JNull
  | LBool b => Some (JBool b)
  | LNum x => Some (JNum (fnorm x))
  | LStr s => Some (JStr s)
  | LArr xs => option_map JArr
      ((fix go (l : list lval) : option (list json) :=
          match l with
          | [] => Some []
          | x :: r => match to_json x, go r with Some j, Some js => Some (j :: js) | _, _ => None end
          end) xs)
  | LObj (Some _) _ => None
  | LObj None fs => option_map JObj
      ((fix go (l : list field) : option (list (list N * json)) :=
          match l with
          | [] => Some []
          | (n, v, x) :: r =>
              if visible v
              then match to_json x, go r with Some j, Some js => Some ((n, j) :: js) | _, _ => None end
              else go r
          end) fs)
  | LFun => None
  | LFail _ => None
  end.

Fixpoint jsons (l : list lval) : option (list json) :=
  match l with
  | [] => Some []
  | x :: r => match to_json x, jsons r with Some j, Some js => Some (j :: js) | _, _ => None end
  end.

Fixpoint fjsons (l : list field) : option (list (list N * json)) :=
  match l with
  | [] => Some []
  | (n, v, x) :: r =>
      if visible v
      then match to_json x, fjsons r with Some j, Some js => Some ((n, j) :: js) | _, _ => None end
      else fjsons r
  end.

Lemma to_json_arr xs : to_json (LArr xs) = option_map JArr (jsons xs).
Proof. reflexivity. Qed.

Lemma fjsons_view fs : fjsons fs = option_map (combine (vis_names fs)) (jsons (vvals fs)).
Proof.
  induction fs as [|[[n v] x] r IH]; [reflexivity|].
  unfold vvals in *. cbn [fjsons vis_names vfields fvis fname fst snd]. destruct (visible v); [|exact IH].
  cbn [map jsons fval snd]. rewrite IH. destruct (to_json x); [|reflexivity].
  destruct (jsons (map fval (vfields r))); reflexivity.
Qed.

Lemma to_json_obj fs :
  to_json (LObj None fs) = option_map JObj (option_map (combine (vis_names fs)) (jsons (vvals fs))).
Proof. rewrite <- fjsons_view. reflexivity. Qed.

Lemma jsons_length xs : forall js, jsons xs = Some js -> length js = length xs.
Proof.
  induction xs as [|x r IH]; cbn [jsons]; intros js H.
  - now injection H as <-.
  - destruct (to_json x); [|discriminate]. destruct (jsons r) eqn:E; [|discriminate].
    injection H as <-. cbn. f_equal. now apply IH.
Qed.

Lemma vvals_length fs : length (vvals fs) = length (vis_names fs).
Proof. unfold vvals. now rewrite vis_names_vfields, !map_length. Qed.

Lemma to_json_shape b jb : to_json b = Some jb ->
  match b with
  | LNull => jb = JNull
  | LBool x => jb = JBool x
  | LNum x => jb = JNum (fnorm x)
  | LStr s => jb = JStr s
  | LArr ys => exists js, jsons ys = Some js /\ jb = JArr js
  | LObj o fs => o = None /\ exists js, jsons (vvals fs) = Some js /\ jb = JObj (combine (vis_names fs) js)
  | LFun | LFail _ => False
  end.
Proof.
  destruct b as [| | | |ys|o fs| |]; try (cbn; intros H; congruence).
  - rewrite to_json_arr. destruct (jsons ys); cbn; intros H; [|discriminate]. injection H as <-. eauto.
  - destruct o; [cbn; discriminate|]. rewrite to_json_obj.
    destruct (jsons (vvals fs)); cbn; intros H; [|discriminate]. injection H as <-. eauto.
Qed.

Lemma combine_fst {A B} (n : list A) : forall (js : list B), length js = length n -> map fst (combine n js) = n.
Proof. induction n as [|a n IH]; intros [|j js] H; cbn in *; try discriminate; try reflexivity. f_equal. apply IH. lia. Qed.

Lemma combine_inj_r {A B} (n : list A) : forall (a b : list B),
  length a = length n -> length b = length n -> combine n a = combine n b -> a = b.
Proof.
  induction n as [|x n IH]; intros [|p a] [|q b] Ha Hb H; cbn in *; try discriminate; try reflexivity.
  injection H as -> H. f_equal. apply IH; auto.
Qed.

(* == decides equality of the JSON values *)
Definition eq_json_at (a : lval) : Prop :=
  forall b ja jb, wf a -> wf b -> to_json a = Some ja -> to_json b = Some jb ->
    exists r, equals a b = Ok r /\ (r = true <-> ja = jb).

Lemma items_json xs : Forall eq_json_at xs -> forall ys js js',
  Forall wf xs -> Forall wf ys -> jsons xs = Some js -> jsons ys = Some js' -> length xs = length ys ->
  exists r, eq_items xs ys = Ok r /\ (r = true <-> js = js').
Proof.
  induction 1 as [|x xs Hx _ IH]; intros [|y ys] js js' Wx Wy Jx Jy Hlen; try discriminate.
  - cbn in *. injection Jx as <-. injection Jy as <-. exists true. split; [reflexivity | tauto].
  - cbn [jsons] in Jx, Jy.
    destruct (to_json x) as [j|] eqn:Ex; [|discriminate]. destruct (jsons xs) as [js0|] eqn:Exs; [|discriminate].
    destruct (to_json y) as [j'|] eqn:Ey; [|discriminate]. destruct (jsons ys) as [js0'|] eqn:Eys; [|discriminate].
    injection Jx as <-. injection Jy as <-.
    inversion Wx as [|? ? Wx1 Wx2]; inversion Wy as [|? ? Wy1 Wy2]; subst.
    destruct (Hx y j j' Wx1 Wy1 Ex Ey) as (r1 & E1 & I1).
    cbn [eq_items]. rewrite E1. cbn [obind].
    destruct r1.
    + destruct (IH ys js0 js0' Wx2 Wy2 eq_refl Eys) as (r2 & E2 & I2); [cbn in Hlen; lia|].
      exists r2. split; [assumption|]. rewrite I2. assert (j = j') by now apply I1. subst.
      split; [now intros -> | now intros [= ->]].
    + exists false. split; [reflexivity|]. split; [discriminate|]. intros [= -> _]. now apply I1.
Qed.

Lemma vvals_forall (Q : lval -> Prop) fs : Forall (fun f => Q (fval f)) fs -> Forall Q (vvals fs).
Proof.
  unfold vvals. induction 1 as [|f r Hf _ IH]; cbn; [constructor|].
  destruct (visible (fvis f)); cbn; [constructor|]; assumption.
Qed.

Lemma run_asserts_none {R} (k : outcome R err) : (do _ <- run_asserts None; k) = k.
Proof. reflexivity. Qed.

Lemma equals_json a : eq_json_at a.
Proof.
  induction a as [|x|x|s|xs IH|aa fa IH| |e] using lval_ind2; intros b ja jb Wa Wb Ja Jb;
    apply to_json_shape in Ja; try contradiction; pose proof (to_json_shape _ _ Jb) as Sb;
    destruct b as [|y|y|t|ys|ab fb| |e']; try contradiction;
    try (subst; exists false; split; [reflexivity | split; [discriminate |]];
         try (destruct Sb as (? & ? & ->)); try (destruct Sb as (? & ? & ? & ->));
         try (destruct Ja as (? & ? & ->)); try (destruct Ja as (? & ? & ? & ->)); discriminate).
  - subst. exists true. split; [reflexivity | tauto].
  - subst. exists (Bool.eqb x y). split; [reflexivity|]. rewrite Bool.eqb_true_iff. split; [now intros -> | now intros [= ->]].
  - subst. exists (f_eqb x y). split; [reflexivity|].
    inversion Wa; inversion Wb; subst. rewrite f_eqb_iff by now apply finite_nn.
    split; [now intros -> | now intros [= ->]].
  - subst. exists (str_eqb s t). split; [reflexivity|].
    inversion Wa; inversion Wb; subst. rewrite str_eqb_is_eq by assumption.
    split; [now intros -> | now intros [= ->]].
  - destruct Ja as (js & Jx & ->). destruct Sb as (js' & Jy & ->).
    inversion Wa; inversion Wb; subst. rewrite equals_arr.
    destruct (Nat.eqb (length xs) (length ys)) eqn:El.
    + apply Nat.eqb_eq in El. destruct (items_json xs IH ys js js') as (r & E & I); auto.
      exists r. split; [assumption|]. rewrite I. split; [now intros -> | now intros [= ->]].
    + apply Nat.eqb_neq in El. exists false. split; [reflexivity|]. split; [discriminate|].
      intros [= ->]. apply jsons_length in Jx, Jy. congruence.
  - destruct Ja as (-> & js & Jx & ->). destruct Sb as (-> & js' & Jy & ->).
    inversion Wa as [| | | | |? ? NDa Wfa| |]; inversion Wb as [| | | | |? ? NDb Wfb| |]; subst.
    rewrite (equals_obj_view _ _ _ _ NDb).
    pose proof (jsons_length _ _ Jx) as Lx. pose proof (jsons_length _ _ Jy) as Ly. rewrite vvals_length in Lx, Ly.
    destruct (names_eqb (vis_names fa) (vis_names fb)) eqn:En.
    + apply names_eqb_iff in En.
      assert (Eq : match vis_names fa with
                   | [] => Ok true
                   | _ :: _ => do _ <- run_asserts None; do _ <- run_asserts None; eq_items (vvals fa) (vvals fb)
                   end = eq_items (vvals fa) (vvals fb)).
      { destruct (vis_names fa) eqn:Ev; [|reflexivity].
        pose proof (vvals_length fa) as Hl. rewrite Ev in Hl. destruct (vvals fa); [reflexivity | discriminate]. }
      rewrite Eq.
      destruct (items_json (vvals fa) (vvals_forall _ _ IH) (vvals fb) js js') as (r & E & I); auto using vvals_forall.
      { rewrite !vvals_length. congruence. }
      exists r. split; [assumption|]. rewrite I, <- En. split; [now intros -> |].
      intros [= H]. eapply combine_inj_r; eauto. congruence.
    + exists false. split; [reflexivity|]. split; [discriminate|]. intros [= H].
      assert (vis_names fa = vis_names fb).
      { rewrite <- (combine_fst (vis_names fa) js Lx), <- (combine_fst (vis_names fb) js' Ly). now rewrite H. }
      apply names_eqb_iff in H0. congruence.
Qed.

Theorem equals_total a b ja jb : wf a -> wf b -> to_json a = Some ja -> to_json b = Some jb ->
  exists r, equals a b = Ok r.
Proof. intros Wa Wb Ja Jb. destruct (equals_json a b ja jb Wa Wb Ja Jb) as (r & E & _). eauto. Qed.

Theorem equals_iff_same_json a b ja jb : wf a -> wf b -> to_json a = Some ja -> to_json b = Some jb ->
  (equals a b = Ok true <-> ja = jb).
Proof.
  intros Wa Wb Ja Jb. destruct (equals_json a b ja jb Wa Wb Ja Jb) as (r & E & I). rewrite E, <- I.
  split; [now intros [= ->] | now intros ->].
Qed.

Theorem equals_refl a ja : wf a -> to_json a = Some ja -> equals a a = Ok true.
Proof. intros Wa Ja. now apply (equals_iff_same_json a a ja ja). Qed.

Theorem equals_sym a b ja jb : wf a -> wf b -> to_json a = Some ja -> to_json b = Some jb ->
  equals b a = equals a b.
Proof.
  intros Wa Wb Ja Jb.
  destruct (equals_json a b ja jb Wa Wb Ja Jb) as (r & E & I).
  destruct (equals_json b a jb ja Wb Wa Jb Ja) as (r' & E' & I').
  rewrite E, E'. f_equal. destruct r, r'; try reflexivity.
  - assert (ja = jb) by now apply I. assert (false = true) by (apply I'; congruence). discriminate.
  - assert (jb = ja) by now apply I'. assert (false = true) by (apply I; congruence). discriminate.
Qed.

Theorem equals_trans a b c ja jb jc :
  wf a -> wf b -> wf c -> to_json a = Some ja -> to_json b = Some jb -> to_json c = Some jc ->
  equals a b = Ok true -> equals b c = Ok true -> equals a c = Ok true.
Proof.
  intros Wa Wb Wc Ja Jb Jc H1 H2.
  apply (equals_iff_same_json a b ja jb) in H1; try assumption.
  apply (equals_iff_same_json b c jb jc) in H2; try assumption.
  apply (equals_iff_same_json a c ja jc); try assumption. congruence.
Qed.

(* ---------------------------------------------------------------- the order *)

Lemma obind_ok {A B} (x : outcome A err) (f : A -> outcome B err) b :
  obind x f = Ok b -> exists a, x = Ok a /\ f a = Ok b.
Proof. apply obind_ok_inv. Qed.

Definition is_eqc (c : comparison) : bool := match c with Eq => true | _ => false end.

(* -- antisymmetry -- *)
Definition opp_at (a : lval) : Prop := forall b c, compare a b = Ok c -> compare b a = Ok (CompOpp c).

Lemma cmp_items_opp xs : Forall opp_at xs -> forall ys c, cmp_items xs ys = Ok c -> cmp_items ys xs = Ok (CompOpp c).
Proof.
  induction 1 as [|x xs Hx _ IH]; intros [|y ys] c H; cbn [cmp_items] in *; try (injection H as <-; reflexivity).
  apply obind_ok in H as (c1 & E1 & H). rewrite (Hx _ _ E1). cbn [obind].
  destruct c1; cbn [CompOpp]; try (injection H as <-; reflexivity). now apply IH.
Qed.

Lemma compare_opp a : opp_at a.
Proof.
  induction a as [|x|x|s|xs IH|aa fa IH| |e] using lval_ind2; intros b c H;
    destruct b as [|y|y|t|ys|ab fb| |e']; try discriminate.
  - cbn [compare] in *. destruct (f_compare x y) as [c'|] eqn:E; [|discriminate]. injection H as <-.
    now rewrite (f_compare_opp _ _ _ E).
  - cbn [compare] in *. injection H as <-. unfold str_compare. now rewrite (lex_opp (utf8 s) (utf8 t)).
  - rewrite compare_arr in *. now apply cmp_items_opp.
Qed.

(* -- the order and the equality agree -- *)
Definition cmpeq_at (a : lval) : Prop := forall b c, compare a b = Ok c -> equals a b = Ok (is_eqc c).

Lemma cmp_items_eq xs : Forall cmpeq_at xs -> forall ys c, cmp_items xs ys = Ok c ->
  (if Nat.eqb (length xs) (length ys) then eq_items xs ys else Ok false) = Ok (is_eqc c).
Proof.
  induction 1 as [|x xs Hx _ IH]; intros [|y ys] c H; cbn [cmp_items] in *; try (injection H as <-; reflexivity).
  apply obind_ok in H as (c1 & E1 & H). cbn [length Nat.eqb eq_items]. rewrite (Hx _ _ E1). cbn [obind].
  destruct c1; cbn [is_eqc]; try (injection H as <-; cbn; now destruct (Nat.eqb _ _)). now apply IH.
Qed.

Lemma compare_eq a : cmpeq_at a.
Proof.
  induction a as [|x|x|s|xs IH|aa fa IH| |e] using lval_ind2; intros b c H;
    destruct b as [|y|y|t|ys|ab fb| |e']; try discriminate.
  - cbn [compare equals] in *. rewrite f_eqb_compare. destruct (f_compare x y) as [c'|]; [|discriminate].
    injection H as <-. now destruct c'.
  - cbn [compare equals] in *. injection H as <-. rewrite str_eqb_compare. now destruct (str_compare s t).
  - rewrite compare_arr in H. rewrite equals_arr. now apply cmp_items_eq.
Qed.

(* -- transitivity, in the general form (Eq composes with anything) -- *)
Definition trans_at (a : lval) : Prop := forall b c c1 c2 c3,
  compare a b = Ok c1 -> compare b c = Ok c2 -> ctrans c1 c2 = Some c3 -> compare a c = Ok c3.

Lemma ctrans_neq_r c1 c2 c3 : ctrans c1 c2 = Some c3 -> c2 <> Eq -> c3 = c2.
Proof. destruct c1, c2; cbn; intros H N; congruence. Qed.
Lemma ctrans_neq_l c1 c2 c3 : ctrans c1 c2 = Some c3 -> c1 <> Eq -> c3 = c1.
Proof. destruct c1, c2; cbn; intros H N; congruence. Qed.

Lemma cmp_items_trans xs : Forall trans_at xs -> forall ys zs c1 c2 c3,
  cmp_items xs ys = Ok c1 -> cmp_items ys zs = Ok c2 -> ctrans c1 c2 = Some c3 -> cmp_items xs zs = Ok c3.
Proof.
  induction 1 as [|x xs Hx _ IH]; intros [|y ys] [|z zs] c1 c2 c3 H1 H2 H3; cbn [cmp_items] in *;
    try (injection H1 as <-); try (injection H2 as <-); try (cbn in H3; congruence).
  - (* [] , y::ys, z::zs *)
    apply obind_ok in H2 as (d2 & E2 & H2). f_equal. symmetry. eapply ctrans_neq_l; eauto. discriminate.
  - (* x::xs, y::ys, [] *)
    apply obind_ok in H1 as (d1 & E1 & H1). f_equal. symmetry. eapply ctrans_neq_r; eauto. discriminate.
  - apply obind_ok in H1 as (d1 & E1 & H1). apply obind_ok in H2 as (d2 & E2 & H2).
    destruct d1, d2.
    + rewrite (Hx y z Eq Eq Eq E1 E2 eq_refl). cbn [obind]. eapply IH; eauto.
    + injection H2 as <-. rewrite (Hx y z Eq Lt Lt E1 E2 eq_refl). cbn [obind]. f_equal. symmetry. eapply ctrans_neq_r; eauto. discriminate.
    + injection H2 as <-. rewrite (Hx y z Eq Gt Gt E1 E2 eq_refl). cbn [obind]. f_equal. symmetry. eapply ctrans_neq_r; eauto. discriminate.
    + injection H1 as <-. rewrite (Hx y z Lt Eq Lt E1 E2 eq_refl). cbn [obind]. f_equal. symmetry. eapply ctrans_neq_l; eauto. discriminate.
    + injection H1 as <-. injection H2 as <-. cbn in H3. injection H3 as <-. now rewrite (Hx y z Lt Lt Lt E1 E2 eq_refl).
    + injection H1 as <-. injection H2 as <-. discriminate.
    + injection H1 as <-. rewrite (Hx y z Gt Eq Gt E1 E2 eq_refl). cbn [obind]. f_equal. symmetry. eapply ctrans_neq_l; eauto. discriminate.
    + injection H1 as <-. injection H2 as <-. discriminate.
    + injection H1 as <-. injection H2 as <-. cbn in H3. injection H3 as <-. now rewrite (Hx y z Gt Gt Gt E1 E2 eq_refl).
Qed.

Lemma compare_gtrans a : trans_at a.
Proof.
  induction a as [|x|x|s|xs IH|aa fa IH| |e] using lval_ind2; intros b c c1 c2 c3 H1 H2 H3;
    destruct b as [|y|y|t|ys|ab fb| |e']; try discriminate;
    destruct c as [|z|z|u|zs|ac fc| |e'']; try discriminate.
  - cbn [compare] in *.
    destruct (f_compare x y) as [d1|] eqn:E1; [|discriminate]. destruct (f_compare y z) as [d2|] eqn:E2; [|discriminate].
    injection H1 as <-. injection H2 as <-. now rewrite (f_compare_gtrans _ _ _ _ _ _ E1 E2 H3).
  - cbn [compare] in *. injection H1 as H1. injection H2 as H2. f_equal.
    unfold str_compare in *. eapply (ol_gtrans _ _ lex_ord_laws); eauto.
  - rewrite compare_arr in *. eapply cmp_items_trans; eauto.
Qed.

(* -- totality on values of one ordered type -- *)
Inductive oty := TNum | TStr | TArr (t : oty).
Inductive has_ty : oty -> lval -> Prop :=
| ht_num x : f_is_finite x = true -> has_ty TNum (LNum x)
| ht_str s : has_ty TStr (LStr s)
| ht_arr t xs : Forall (has_ty t) xs -> has_ty (TArr t) (LArr xs).

Lemma cmp_items_total (Q : lval -> Prop) :
  (forall a b, Q a -> Q b -> exists c, compare a b = Ok c) ->
  forall xs ys, Forall Q xs -> Forall Q ys -> exists c, cmp_items xs ys = Ok c.
Proof.
  intros HQ. induction xs as [|x xs IH]; intros [|y ys] Hx Hy; cbn [cmp_items]; eauto.
  inversion Hx; inversion Hy; subst. destruct (HQ x y) as (c & ->); auto. cbn [obind].
  destruct c; eauto.
Qed.

Theorem compare_total t : forall a b, has_ty t a -> has_ty t b -> exists c, compare a b = Ok c.
Proof.
  induction t as [| |t IH]; intros a b Ha Hb; inversion Ha; inversion Hb; subst.
  - cbn [compare]. destruct (f_compare_total x x0) as (c & ->); eauto using finite_nn.
  - cbn [compare]. eauto.
  - rewrite compare_arr. eapply cmp_items_total; eauto.
Qed.

(* -- values without an order: an error, never an answer -- *)
Definition is_fail (a : lval) : bool := match a with LFail _ => true | _ => false end.
Definition ordered_pair (a b : lval) : bool :=
  match a, b with
  | LNum _, LNum _ | LStr _, LStr _ | LArr _, LArr _ => true
  | _, _ => false
  end.
Definition unordered_err (a b : lval) : err :=
  match a, b with
  | LNull, LNull => ECompareNull
  | LBool _, LBool _ => ECompareBool
  | LObj _ _, LObj _ _ => ECompareObject
  | LFun, LFun => ECompareFunctions
  | _, _ => ECompareDifferentTypes (ty_of a) (ty_of b)
  end.

Theorem compare_unordered_errors a b :
  is_fail a = false -> is_fail b = false -> ordered_pair a b = false ->
  compare a b = Err (unordered_err a b).
Proof. destruct a, b; cbn; intros; try discriminate; reflexivity. Qed.

(* -- no panic, no fuel -- *)
Definition no_panic {A} (o : outcome A err) : Prop :=
  match o with Panic _ | OutOfFuel => False | _ => True end.

Lemma no_panic_bind {A B} (x : outcome A err) (f : A -> outcome B err) :
  no_panic x -> (forall a, x = Ok a -> no_panic (f a)) -> no_panic (obind x f).
Proof. destruct x; cbn; auto. Qed.

Definition cmp_np_at (a : lval) : Prop := forall b, wf a -> wf b -> no_panic (compare a b).

Lemma cmp_items_np xs : Forall cmp_np_at xs -> forall ys, Forall wf xs -> Forall wf ys -> no_panic (cmp_items xs ys).
Proof.
  induction 1 as [|x xs Hx _ IH]; intros [|y ys] Wx Wy; cbn [cmp_items]; try exact I.
  inversion Wx; inversion Wy; subst. apply no_panic_bind; [now apply Hx|].
  intros c _. destruct c; try exact I. now apply IH.
Qed.

Theorem compare_no_panic a : cmp_np_at a.
Proof.
  induction a as [|x|x|s|xs IH|aa fa IH| |e] using lval_ind2; intros b Wa Wb;
    destruct b as [|y|y|t|ys|ab fb| |e']; try exact I.
  - cbn [compare]. inversion Wa; inversion Wb; subst.
    destruct (f_compare_total x y) as (c & ->); eauto using finite_nn. exact I.
  - rewrite compare_arr. inversion Wa; inversion Wb; subst. now apply cmp_items_np.
Qed.

Definition eq_np_at (a : lval) : Prop := forall b, wf a -> wf b -> no_panic (equals a b).

Lemma eq_items_np xs : Forall eq_np_at xs -> forall ys, Forall wf xs -> Forall wf ys -> no_panic (eq_items xs ys).
Proof.
  induction 1 as [|x xs Hx _ IH]; intros [|y ys] Wx Wy; cbn [eq_items]; try exact I.
  inversion Wx; inversion Wy; subst. apply no_panic_bind; [now apply Hx|].
  intros r _. destruct r; try exact I. now apply IH.
Qed.

Theorem equals_no_panic a : eq_np_at a.
Proof.
  induction a as [|x|x|s|xs IH|aa fa IH| |e] using lval_ind2; intros b Wa Wb;
    destruct b as [|y|y|t|ys|ab fb| |e']; try exact I.
  - rewrite equals_arr. inversion Wa; inversion Wb; subst.
    destruct (Nat.eqb _ _); [|exact I]. now apply eq_items_np.
  - inversion Wa as [| | | | |? ? NDa Wfa| |]; inversion Wb as [| | | | |? ? NDb Wfb| |]; subst.
    rewrite (equals_obj_view _ _ _ _ NDb). destruct (names_eqb _ _); [|exact I].
    destruct (vis_names fa); [exact I|].
    destruct aa; [exact I|]. destruct ab; [exact I|]. cbn [run_asserts obind].
    apply eq_items_np; auto using vvals_forall.
Qed.

(* ---------------------------------------------------------------- laziness *)
Lemma Forall2_len {A B} (R : A -> B -> Prop) l l' : Forall2 R l l' -> length l = length l'.
Proof. induction 1; cbn; congruence. Qed.

Definition eq_true (u v : lval) : Prop := equals u v = Ok true.
Definition cmp_Eq (u v : lval) : Prop := compare u v = Ok Eq.

Lemma eq_items_decided pa pb : Forall2 eq_true pa pb -> forall x y qa qb,
  equals x y <> Ok true -> eq_items (pa ++ x :: qa) (pb ++ y :: qb) = equals x y.
Proof.
  induction 1 as [|u v pa pb Huv _ IH]; intros x y qa qb Hne; cbn [app eq_items].
  - destruct (equals x y) as [[]| | |]; try reflexivity. congruence.
  - unfold eq_true in Huv. rewrite Huv. cbn [obind]. now apply IH.
Qed.

Theorem equals_early_exit pa pb x y qa qb : Forall2 eq_true pa pb -> equals x y <> Ok true ->
  length qa = length qb -> equals (LArr (pa ++ x :: qa)) (LArr (pb ++ y :: qb)) = equals x y.
Proof.
  intros Hp Hne Hq. rewrite equals_arr.
  assert (El : Nat.eqb (length (pa ++ x :: qa)) (length (pb ++ y :: qb)) = true).
  { apply Nat.eqb_eq. rewrite !app_length. cbn. apply Forall2_len in Hp. lia. }
  rewrite El. now apply eq_items_decided.
Qed.

Theorem equals_length_first xs ys : length xs <> length ys -> equals (LArr xs) (LArr ys) = Ok false.
Proof. intros H. rewrite equals_arr. apply Nat.eqb_neq in H. now rewrite H. Qed.

(* objects: after the first visible field that differs (or fails) nothing is forced *)
Theorem equals_object_early_exit fa fb pa pb x y qa qb :
  NoDup (map fname fb) -> vis_names fa = vis_names fb ->
  vvals fa = pa ++ x :: qa -> vvals fb = pb ++ y :: qb ->
  Forall2 eq_true pa pb -> equals x y <> Ok true ->
  equals (LObj None fa) (LObj None fb) = equals x y.
Proof.
  intros ND En Ea Eb Hp Hne. rewrite (equals_obj_view _ _ _ _ ND).
  apply names_eqb_iff in En. rewrite En.
  pose proof (vvals_length fa) as Hl. rewrite Ea, app_length in Hl. cbn in Hl.
  destruct (vis_names fa); [cbn in Hl; lia|]. cbn [run_asserts obind].
  rewrite Ea, Eb. now apply eq_items_decided.
Qed.

(* hidden fields are never forced: their values can be replaced by anything *)
Definition map_hidden (g : lval -> lval) (fs : list field) : list field :=
  map (fun f => if visible (fvis f) then f else (fname f, fvis f, g (fval f))) fs.

Lemma map_hidden_names g fs : map fname (map_hidden g fs) = map fname fs.
Proof. unfold map_hidden. rewrite map_map. apply map_ext. intros [[n v] x]. cbn. now destruct (visible v). Qed.
Lemma map_hidden_vfields g fs : vfields (map_hidden g fs) = vfields fs.
Proof.
  induction fs as [|[[n v] x] r IH]; [reflexivity|]. cbn [map_hidden map vfields fvis fst snd].
  destruct (visible v) eqn:E; cbn [fvis fst snd]; rewrite E; fold (map_hidden g r); now rewrite IH.
Qed.

Theorem equals_hidden_never_forced g h aa fa ab fb : NoDup (map fname fb) ->
  equals (LObj aa (map_hidden g fa)) (LObj ab (map_hidden h fb)) = equals (LObj aa fa) (LObj ab fb).
Proof.
  intros ND. rewrite !equals_obj_view by (try rewrite map_hidden_names; assumption).
  unfold vvals. now rewrite !vis_names_vfields, !map_hidden_vfields.
Qed.

Lemma cmp_items_decided pa pb : Forall2 cmp_Eq pa pb -> forall x y qa qb,
  compare x y <> Ok Eq -> cmp_items (pa ++ x :: qa) (pb ++ y :: qb) = compare x y.
Proof.
  induction 1 as [|u v pa pb Huv _ IH]; intros x y qa qb Hne; cbn [app cmp_items].
  - destruct (compare x y) as [[]| | |]; try reflexivity. congruence.
  - unfold cmp_Eq in Huv. rewrite Huv. cbn [obind]. now apply IH.
Qed.

Theorem compare_early_exit pa pb x y qa qb : Forall2 cmp_Eq pa pb -> compare x y <> Ok Eq ->
  compare (LArr (pa ++ x :: qa)) (LArr (pb ++ y :: qb)) = compare x y.
Proof. intros. rewrite compare_arr. now apply cmp_items_decided. Qed.

Lemma cmp_items_prefix pa pb : Forall2 cmp_Eq pa pb -> forall y qb x qa,
  cmp_items pa (pb ++ y :: qb) = Ok Lt /\ cmp_items (pa ++ x :: qa) pb = Ok Gt /\ cmp_items pa pb = Ok Eq.
Proof.
  induction 1 as [|u v pa pb Huv _ IH]; intros y qb x qa; cbn [app cmp_items]; [auto|].
  unfold cmp_Eq in Huv. rewrite Huv. cbn [obind]. apply IH.
Qed.

Theorem compare_prefix_early_exit pa pb y qb x qa : Forall2 cmp_Eq pa pb ->
  compare (LArr pa) (LArr (pb ++ y :: qb)) = Ok Lt /\ compare (LArr (pa ++ x :: qa)) (LArr pb) = Ok Gt.
Proof. intros H. rewrite !compare_arr. destruct (cmp_items_prefix pa pb H y qb x qa) as (? & ? & ?). auto. Qed.

(* arrays are ordered lexicographically *)
Definition lex_lt (xs ys : list lval) : Prop :=
  exists pa pb, Forall2 cmp_Eq pa pb /\
    ((xs = pa /\ exists y qb, ys = pb ++ y :: qb) \/
     (exists x y qa qb, xs = pa ++ x :: qa /\ ys = pb ++ y :: qb /\ compare x y = Ok Lt)).

Lemma cmp_items_lex xs : forall ys,
  (cmp_items xs ys = Ok Eq <-> Forall2 cmp_Eq xs ys) /\ (cmp_items xs ys = Ok Lt <-> lex_lt xs ys).
Proof.
  induction xs as [|x xs IH]; intros [|y ys]; cbn [cmp_items].
  - split; split; intros H; try reflexivity; try constructor; try discriminate.
    destruct H as (pa & pb & _ & [(_ & y & qb & E)|(x & y & qa & qb & _ & E & _)]); destruct pb; discriminate.
  - split; split; intros H; try reflexivity; try discriminate; try inversion H.
    exists [], []. split; [constructor|]. left. split; [reflexivity|]. exists y, ys. reflexivity.
  - split; split; intros H; try discriminate; try inversion H.
    destruct H as (pa & pb & _ & [(_ & y & qb & E)|(x' & y & qa & qb & _ & E & _)]); destruct pb; discriminate.
  - destruct (IH ys) as [IHe IHl]. split; split; intros H.
    + apply obind_ok in H as (c & E & H). destruct c; try discriminate. constructor; [exact E | now apply IHe].
    + inversion H as [|? ? ? ? Hxy Hrest]; subst. unfold cmp_Eq in Hxy. rewrite Hxy. cbn [obind]. now apply IHe.
    + apply obind_ok in H as (c & E & H). destruct c; try discriminate.
      * apply IHl in H. destruct H as (pa & pb & Hp & Hcase). exists (x :: pa), (y :: pb). split; [now constructor|].
        destruct Hcase as [(-> & y' & qb & ->)|(x' & y' & qa & qb & -> & -> & Hlt)].
        -- left. split; [reflexivity|]. exists y', qb. reflexivity.
        -- right. exists x', y', qa, qb. auto.
      * exists [], []. split; [constructor|]. right. exists x, y, xs, ys. auto.
    + destruct H as (pa & pb & Hp & Hcase).
      destruct Hp as [|u v pa pb Huv Hp].
      * destruct Hcase as [(E & _)|(x' & y' & qa & qb & E1 & E2 & Hlt)]; [discriminate|].
        cbn in E1, E2. injection E1 as <- <-. injection E2 as <- <-. now rewrite Hlt.
      * assert (x = u /\ y = v) as [-> ->].
        { destruct Hcase as [(E1 & y' & qb & E2)|(x' & y' & qa & qb & E1 & E2 & _)]; cbn in E1, E2; split; congruence. }
        unfold cmp_Eq in Huv. rewrite Huv. cbn [obind]. apply IHl. exists pa, pb. split; [assumption|].
        destruct Hcase as [(E1 & y' & qb & E2)|(x' & y' & qa & qb & E1 & E2 & Hlt)]; cbn in E1, E2.
        -- left. injection E1 as ->. injection E2 as ->. eauto.
        -- right. injection E1 as ->. injection E2 as ->. exists x', y', qa, qb. auto.
Qed.

Theorem compare_array_lex xs ys :
  (compare (LArr xs) (LArr ys) = Ok Eq <-> Forall2 cmp_Eq xs ys) /\
  (compare (LArr xs) (LArr ys) = Ok Lt <-> lex_lt xs ys).
Proof. rewrite compare_arr. apply cmp_items_lex. Qed.

(* ---------------------------------------------------------------- the operators *)
Lemma omap_ok {A B} (f : A -> B) (x : outcome A err) b : omap f x = Ok b -> exists a, x = Ok a /\ b = f a.
Proof. destruct x; cbn; intros H; try discriminate. injection H as <-. eauto. Qed.

Theorem ne_is_negb_eq a b : op_ne a b = omap negb (op_eq a b).
Proof. reflexivity. Qed.

Theorem std_equals_agrees a b : std_equals a b = op_eq a b.
Proof. reflexivity. Qed.

Definition is_prim (a : lval) : bool :=
  match a with LNull | LBool _ | LNum _ | LStr _ => true | _ => false end.

Theorem primitive_equals_agrees a b : is_prim a = true \/ is_prim b = true ->
  std_primitive_equals a b = op_eq a b.
Proof. destruct a, b; cbn; intros [H|H]; try discriminate; reflexivity. Qed.

Theorem primitive_equals_non_primitive :
  (forall xs ys, std_primitive_equals (LArr xs) (LArr ys) = Err (EPrimEqNonPrimitive TyArray)) /\
  (forall a fa b fb, std_primitive_equals (LObj a fa) (LObj b fb) = Err (EPrimEqNonPrimitive TyObject)) /\
  (forall a b, is_fail a = false -> is_fail b = false -> ty_of a <> ty_of b -> std_primitive_equals a b = Ok false).
Proof. repeat split; try reflexivity. intros a b; destruct a, b; cbn; intros; try discriminate; try reflexivity; congruence. Qed.

Definition exactly_one (l e g : bool) : Prop :=
  (l = true /\ e = false /\ g = false) \/ (l = false /\ e = true /\ g = false) \/ (l = false /\ e = false /\ g = true).

Theorem compare_trichotomy_gen a b c : compare a b = Ok c ->
  op_lt a b = Ok (is_lt c) /\ op_eq a b = Ok (is_eqc c) /\ op_gt a b = Ok (is_gt c) /\
  exactly_one (is_lt c) (is_eqc c) (is_gt c).
Proof.
  intros H. unfold op_lt, op_gt, op_eq. rewrite H, (compare_eq a b c H). cbn.
  repeat split; unfold exactly_one; destruct c; cbn; tauto.
Qed.

Theorem compare_trichotomy t a b : has_ty t a -> has_ty t b ->
  exists l e g, op_lt a b = Ok l /\ op_eq a b = Ok e /\ op_gt a b = Ok g /\ exactly_one l e g.
Proof.
  intros Ha Hb. destruct (compare_total t a b Ha Hb) as (c & H).
  destruct (compare_trichotomy_gen a b c H) as (? & ? & ? & ?). eauto 8.
Qed.

Theorem compare_eq_iff_equals a b c : compare a b = Ok c -> (c = Eq <-> equals a b = Ok true).
Proof. intros H. rewrite (compare_eq a b c H). destruct c; cbn; split; intros; congruence. Qed.

Theorem compare_antisym a b r :
  (op_lt a b = Ok r -> op_gt b a = Ok r) /\ (op_gt a b = Ok r -> op_lt b a = Ok r) /\
  (op_le a b = Ok r -> op_ge b a = Ok r) /\ (op_ge a b = Ok r -> op_le b a = Ok r).
Proof.
  unfold op_lt, op_gt, op_le, op_ge. repeat split; intros H; apply omap_ok in H as (c & E & ->);
    rewrite (compare_opp a b c E); destruct c; reflexivity.
Qed.

Theorem compare_trans a b c :
  op_lt a b = Ok true -> op_lt b c = Ok true -> op_lt a c = Ok true.
Proof.
  unfold op_lt. intros H1 H2. apply omap_ok in H1 as (c1 & E1 & H1). apply omap_ok in H2 as (c2 & E2 & H2).
  destruct c1; try discriminate. destruct c2; try discriminate.
  now rewrite (compare_gtrans a b c Lt Lt Lt E1 E2 eq_refl).
Qed.

Theorem compare_le_trans a b c :
  op_le a b = Ok true -> op_le b c = Ok true -> op_le a c = Ok true.
Proof.
  unfold op_le. intros H1 H2. apply omap_ok in H1 as (c1 & E1 & H1). apply omap_ok in H2 as (c2 & E2 & H2).
  destruct c1; try discriminate; destruct c2; try discriminate;
    match goal with
    | E1 : compare a b = Ok ?x, E2 : compare b c = Ok ?y |- _ =>
        let H := fresh in
        assert (H : exists c3, ctrans x y = Some c3 /\ is_le c3 = true) by (cbn; eauto);
        destruct H as (c3 & Hc & Hle); rewrite (compare_gtrans a b c x y c3 E1 E2 Hc); cbn; now rewrite Hle
    end.
Qed.

Theorem le_ge_consistent a b r : op_le a b = Ok r ->
  op_ge b a = Ok r /\ op_gt a b = Ok (negb r) /\
  exists l e, op_lt a b = Ok l /\ op_eq a b = Ok e /\ r = (l || e)%bool.
Proof.
  intros H. split; [now apply compare_antisym|].
  unfold op_le in H. apply omap_ok in H as (c & E & ->).
  destruct (compare_trichotomy_gen a b c E) as (Hl & He & Hg & _).
  split; [rewrite Hg; now destruct c|]. exists (is_lt c), (is_eqc c). repeat split; auto. now destruct c.
Qed.

Theorem std_compare_agrees a b :
  (forall z, std_compare a b = Ok z ->
     (z = (-1)%Z /\ op_lt a b = Ok true) \/ (z = 0%Z /\ op_eq a b = Ok true) \/ (z = 1%Z /\ op_gt a b = Ok true)) /\
  (forall e, op_lt a b = Err e -> std_compare a b = Err e) /\
  (forall r, op_lt a b = Ok r -> exists z, std_compare a b = Ok z).
Proof.
  unfold std_compare. repeat split.
  - intros z H. apply omap_ok in H as (c & E & ->).
    destruct (compare_trichotomy_gen a b c E) as (Hl & He & Hg & _). rewrite Hl, He, Hg. destruct c; cbn; auto.
  - unfold op_lt. destruct (compare a b); cbn; congruence.
  - unfold op_lt. destruct (compare a b); cbn; intros; try discriminate. eauto.
Qed.

Theorem std_compare_array_agrees :
  (forall xs ys, std_compare_array (LArr xs) (LArr ys) = std_compare (LArr xs) (LArr ys)) /\
  (forall a b, is_fail a = false -> is_fail b = false -> is_arr a = false ->
     std_compare_array a b = Err (EInvalidArg 0 (ty_of a))) /\
  (forall a b, is_fail a = false -> is_fail b = false -> is_arr a = true -> is_arr b = false ->
     std_compare_array a b = Err (EInvalidArg 1 (ty_of b))).
Proof.
  repeat split; try reflexivity; intros a b; destruct a, b; cbn; intros; try discriminate; reflexivity.
Qed.

(* the number laws in one statement (finite doubles; an abstract order instantiated through fkey) *)
Theorem f64_order_laws x y z : f_is_finite x = true -> f_is_finite y = true -> f_is_finite z = true ->
  f_compare x x = Some Eq /\
  (exists c, f_compare x y = Some c) /\
  (forall c, f_compare x y = Some c -> f_compare y x = Some (CompOpp c)) /\
  (forall c1 c2 c3, f_compare x y = Some c1 -> f_compare y z = Some c2 -> ctrans c1 c2 = Some c3 ->
                    f_compare x z = Some c3) /\
  (f_compare x y = Some Eq <-> fnorm x = fnorm y).
Proof.
  intros Hx Hy Hz. apply finite_nn in Hx, Hy, Hz. repeat split.
  - now apply f_compare_refl.
  - now apply f_compare_total.
  - apply f_compare_opp.
  - apply f_compare_gtrans.
  - now apply f_compare_eq_iff.
  - now apply f_compare_eq_iff.
Qed.

Theorem f64_eqb_iff x y : f_is_finite x = true -> f_is_finite y = true -> (f_eqb x y = true <-> fnorm x = fnorm y).
Proof. intros Hx Hy. apply f_eqb_iff; now apply finite_nn. Qed.

(* ---------------------------------------------------------------- == is transitive on all trees *)
(* no JSON-value hypothesis: two answers `true` are enough, whatever the hidden or unvisited parts are *)
Definition eq_trans_at (a : lval) : Prop := forall b c, wf a -> wf b -> wf c ->
  equals a b = Ok true -> equals b c = Ok true -> equals a c = Ok true.

Lemma f_eqb_trans x y z : f_eqb x y = true -> f_eqb y z = true -> f_eqb x z = true.
Proof.
  rewrite !f_eqb_compare. intros H1 H2.
  destruct (f_compare x y) as [[]|] eqn:E1; try discriminate.
  destruct (f_compare y z) as [[]|] eqn:E2; try discriminate.
  now rewrite (f_compare_gtrans x y z Eq Eq Eq E1 E2 eq_refl).
Qed.

Lemma str_eqb_trans s t u : str_eqb s t = true -> str_eqb t u = true -> str_eqb s u = true.
Proof. unfold str_eqb. rewrite !list_eqb_iff. congruence. Qed.

Lemma eq_items_true_inv x xs y ys : eq_items (x :: xs) (y :: ys) = Ok true ->
  equals x y = Ok true /\ eq_items xs ys = Ok true.
Proof.
  cbn [eq_items]. intros H. apply obind_ok in H as (r & E & H). destruct r; [auto | discriminate].
Qed.

Lemma eq_items_trans xs : Forall eq_trans_at xs -> forall ys zs,
  Forall wf xs -> Forall wf ys -> Forall wf zs -> length xs = length ys -> length ys = length zs ->
  eq_items xs ys = Ok true -> eq_items ys zs = Ok true -> eq_items xs zs = Ok true.
Proof.
  induction 1 as [|x xs Hx _ IH]; intros [|y ys] [|z zs] Wx Wy Wz L1 L2 H1 H2; try discriminate; try reflexivity.
  apply eq_items_true_inv in H1 as [E1 R1]. apply eq_items_true_inv in H2 as [E2 R2].
  inversion Wx; inversion Wy; inversion Wz; subst.
  cbn [eq_items]. rewrite (Hx y z) by assumption. cbn [obind]. cbn in L1, L2. injection L1 as L1. injection L2 as L2. apply (IH ys zs); auto.
Qed.

Lemma equals_obj_true aa fa ab fb : NoDup (map fname fb) -> equals (LObj aa fa) (LObj ab fb) = Ok true ->
  vis_names fa = vis_names fb /\
  (vis_names fa = [] \/ (aa = None /\ ab = None /\ eq_items (vvals fa) (vvals fb) = Ok true)).
Proof.
  intros ND. rewrite (equals_obj_view _ _ _ _ ND).
  destruct (names_eqb (vis_names fa) (vis_names fb)) eqn:En; [|discriminate].
  apply names_eqb_iff in En. split; [assumption|].
  destruct (vis_names fa); [now left|]. right.
  destruct aa; [discriminate|]. destruct ab; [discriminate|]. auto.
Qed.

Theorem equals_trans_lazy a : eq_trans_at a.
Proof.
  induction a as [|x|x|s|xs IH|aa fa IH| |e] using lval_ind2; intros b c Wa Wb Wc H1 H2;
    destruct b as [|y|y|t|ys|ab fb| |e']; try discriminate;
    destruct c as [|z|z|u|zs|ac fc| |e'']; try discriminate; try reflexivity.
  - cbn [equals] in *. injection H1 as H1. injection H2 as H2. f_equal.
    apply Bool.eqb_prop in H1, H2. subst. apply Bool.eqb_reflx.
  - cbn [equals] in *. injection H1 as H1. injection H2 as H2. f_equal. eapply f_eqb_trans; eauto.
  - cbn [equals] in *. injection H1 as H1. injection H2 as H2. f_equal. eapply str_eqb_trans; eauto.
  - rewrite equals_arr in *. inversion Wa; inversion Wb; inversion Wc; subst.
    destruct (Nat.eqb (length xs) (length ys)) eqn:L1; [|discriminate].
    destruct (Nat.eqb (length ys) (length zs)) eqn:L2; [|discriminate].
    apply Nat.eqb_eq in L1, L2.
    assert (L3 : Nat.eqb (length xs) (length zs) = true) by (apply Nat.eqb_eq; congruence). rewrite L3.
    apply (eq_items_trans xs IH ys zs); auto.
  - inversion Wa as [| | | | |? ? NDa Wfa| |]; inversion Wb as [| | | | |? ? NDb Wfb| |];
      inversion Wc as [| | | | |? ? NDc Wfc| |]; subst.
    apply (equals_obj_true _ _ _ _ NDb) in H1 as [N1 C1]. apply (equals_obj_true _ _ _ _ NDc) in H2 as [N2 C2].
    rewrite (equals_obj_view _ _ _ _ NDc).
    assert (En : names_eqb (vis_names fa) (vis_names fc) = true) by (apply names_eqb_iff; congruence). rewrite En.
    destruct C1 as [C1|(-> & -> & C1)]; [now rewrite C1|].
    destruct C2 as [C2|(_ & -> & C2)]; [rewrite N1, C2; reflexivity|].
    destruct (vis_names fa) eqn:Ev; [reflexivity|]. cbn [run_asserts obind].
    apply (eq_items_trans (vvals fa) (vvals_forall _ _ IH) (vvals fb) (vvals fc)); auto using vvals_forall;
      rewrite !vvals_length, ?Ev; congruence.
Qed.

(* ---------------------------------------------------------------- the order of doubles is the order of their values *)
Local Open Scope Z_scope.

(* canonical finite doubles: what [f_of_bits] produces (subnormal / first binade: exponent -1074; else 53-bit mantissa) *)
Definition canon (x : f64) : Prop :=
  match x with
  | S754_zero _ => True
  | S754_finite _ m e => (e = -1074 /\ Z.pos m < 2 ^ 53) \/ (-1074 < e /\ 2 ^ 52 <= Z.pos m < 2 ^ 53)
  | _ => False
  end.

(* the exact value, scaled by 2^1074 (an integer for every canonical double) *)
Definition zval (x : f64) : Z :=
  match x with
  | S754_finite s m e => (if s then -1 else 1) * (Z.pos m * 2 ^ (e + 1074))
  | _ => 0
  end.

Lemma pos_scaled m e : -1074 <= e -> 0 < Z.pos m * 2 ^ (e + 1074).
Proof. intros H. apply Z.mul_pos_pos; [lia|]. apply Z.pow_pos_nonneg; lia. Qed.

Lemma scaled_compare m1 e1 m2 e2 :
  ((e1 = -1074 /\ Z.pos m1 < 2 ^ 53) \/ (-1074 < e1 /\ 2 ^ 52 <= Z.pos m1 < 2 ^ 53)) ->
  ((e2 = -1074 /\ Z.pos m2 < 2 ^ 53) \/ (-1074 < e2 /\ 2 ^ 52 <= Z.pos m2 < 2 ^ 53)) ->
  (Z.pos m1 * 2 ^ (e1 + 1074) ?= Z.pos m2 * 2 ^ (e2 + 1074)) =
  match e1 ?= e2 with Lt => Lt | Gt => Gt | Eq => (m1 ?= m2)%positive end.
Proof.
  assert (Hlt : forall a ea b eb, -1074 <= ea -> ea < eb -> Z.pos a < 2 ^ 53 -> 2 ^ 52 <= Z.pos b ->
                 Z.pos a * 2 ^ (ea + 1074) < Z.pos b * 2 ^ (eb + 1074)).
  { intros a ea b eb Hea Hlt Ha Hb.
    replace (eb + 1074) with ((eb - ea) + (ea + 1074)) by lia.
    rewrite (Z.pow_add_r 2 (eb - ea) (ea + 1074)) by lia. rewrite Z.mul_assoc.
    apply Z.mul_lt_mono_pos_r; [apply Z.pow_pos_nonneg; lia|].
    assert (2 ^ 1 <= 2 ^ (eb - ea)) by (apply Z.pow_le_mono_r; lia).
    change (2 ^ 1) with 2 in *. change (2 ^ 53) with (2 * 2 ^ 52) in Ha. nia. }
  intros C1 C2. destruct (Z.compare_spec e1 e2) as [E|E|E].
  - subst. rewrite <- Zmult_compare_compat_r; [reflexivity|]. apply Z.lt_gt. apply Z.pow_pos_nonneg; lia.
  - apply Z.compare_lt_iff. apply Hlt; lia.
  - apply Z.compare_gt_iff. apply Hlt; lia.
Qed.

Theorem f_compare_value x y : canon x -> canon y -> f_compare x y = Some (zval x ?= zval y).
Proof.
  unfold f_compare.
  destruct x as [sx|sx| |sx mx ex], y as [sy|sy| |sy my ey]; cbn [canon]; intros Cx Cy; try contradiction.
  - reflexivity.
  - assert (P := pos_scaled my ey ltac:(lia)). cbn [SFcompare zval]. f_equal. symmetry.
    destruct sy; [apply Z.compare_gt_iff | apply Z.compare_lt_iff]; lia.
  - assert (P := pos_scaled mx ex ltac:(lia)). cbn [SFcompare zval]. f_equal. symmetry.
    destruct sx; [apply Z.compare_lt_iff | apply Z.compare_gt_iff]; lia.
  - assert (Px := pos_scaled mx ex ltac:(lia)). assert (Py := pos_scaled my ey ltac:(lia)).
    pose proof (scaled_compare mx ex my ey Cx Cy) as S.
    cbn [SFcompare zval]. f_equal. destruct sx, sy.
    + set (A := Z.pos mx * 2 ^ (ex + 1074)) in *. set (B := Z.pos my * 2 ^ (ey + 1074)) in *.
      replace (-1 * A) with (- A) by lia. replace (-1 * B) with (- B) by lia.
      rewrite Z.compare_opp, (Z.compare_antisym A B), S.
      destruct (ex ?= ey); reflexivity.
    + symmetry. apply Z.compare_lt_iff. lia.
    + symmetry. apply Z.compare_gt_iff. lia.
    + set (A := Z.pos mx * 2 ^ (ex + 1074)) in *. set (B := Z.pos my * 2 ^ (ey + 1074)) in *.
      replace (1 * A) with A by lia. replace (1 * B) with B by lia. rewrite S. reflexivity.
Qed.

Lemma f_of_bits_canon b : f_is_finite (f_of_bits b) = true -> canon (f_of_bits b).
Proof.
  unfold f_of_bits.
  set (ex := Z.land (Z.shiftr (Z.of_N b) 52) 2047). set (mant := Z.land (Z.of_N b) (2 ^ 52 - 1)).
  assert (Hm : 0 <= mant < 2 ^ 52).
  { unfold mant. change (2 ^ 52 - 1) with (Z.ones 52). rewrite Z.land_ones by lia. apply Z.mod_pos_bound. lia. }
  assert (He : 0 <= ex).
  { unfold ex. apply Z.land_nonneg. right. lia. }
  cbv zeta.
  destruct (ex =? 0) eqn:E0.
  - destruct mant as [|p|p] eqn:Em; cbn; auto. intros _. left. split; [reflexivity|]. lia.
  - destruct (ex =? 2047) eqn:E1.
    + destruct (mant =? 0); cbn; discriminate.
    + apply Z.eqb_neq in E0. destruct (mant + 2 ^ 52) as [|p|p] eqn:Ep; cbn; try discriminate.
      intros _. destruct (Z.eq_dec ex 1) as [->|N1].
      * left. split; [reflexivity|]. lia.
      * right. lia.
Qed.

Corollary f_compare_bits_value a b :
  f_is_finite (f_of_bits a) = true -> f_is_finite (f_of_bits b) = true ->
  f_compare (f_of_bits a) (f_of_bits b) = Some (zval (f_of_bits a) ?= zval (f_of_bits b)).
Proof. intros Ha Hb. apply f_compare_value; now apply f_of_bits_canon. Qed.
