(* Proofs/Esc_proofs.v — facts about Model/Esc.v *)
From RJ Require Import Base.Outcome Model.Esc.
From Coq Require Import Lia.
Local Open Scope N_scope.

(* ---- bash: a POSIX shell reads the quoted word back as the input ------------- *)

Lemma bash_body_unquote s : bash_unquote 1 (bash_body s ++ [39]) = Some s.
Proof.
  induction s as [|c r IH]; [reflexivity|].
  cbn [bash_body]. destruct (c =? 39) eqn:E.
  - apply N.eqb_eq in E. subst c.
    change ((39 :: 34 :: 39 :: 34 :: 39 :: bash_body r) ++ [39])
      with (39 :: 34 :: 39 :: 34 :: 39 :: (bash_body r ++ [39])).
    cbn [bash_unquote N.eqb Pos.eqb orb option_map]. rewrite IH. reflexivity.
  - change ((c :: bash_body r) ++ [39]) with (c :: (bash_body r ++ [39])).
    cbn [bash_unquote]. change (1 =? 0) with false. change (1 =? 1) with true. cbn iota.
    rewrite E, IH. reflexivity.
Qed.

Theorem bash_unescape_escape : forall s, bash_unquote 0 (escape_bash s) = Some s.
Proof. intros s. unfold escape_bash. cbn [bash_unquote N.eqb Pos.eqb]. apply bash_body_unquote. Qed.

(* the quoted word starts and ends with an apostrophe and never contains a NUL or
   unquoted text: every character of the input other than the apostrophe is kept *)
Theorem bash_length : forall s,
  N.of_nat (length (escape_bash s)) =
  N.of_nat (length s) + 2 + 4 * N.of_nat (length (filter (fun c => c =? 39) s)).
Proof.
  intros s. unfold escape_bash. cbn [length]. rewrite app_length. cbn [length].
  induction s as [|c r IH]; [reflexivity|].
  cbn [bash_body filter]. destruct (c =? 39); cbn [length]; lia.
Qed.

(* ---- dollars ---------------------------------------------------------------- *)

Fixpoint undouble (s : str) : str :=
  match s with
  | c :: r =>
      if c =? 36 then
        match r with
        | d :: r' => if d =? 36 then 36 :: undouble r' else c :: undouble r
        | [] => [c]
        end
      else c :: undouble r
  | [] => []
  end.

Definition count (x : N) (s : str) : nat := length (filter (fun c => c =? x) s).

Theorem dollars_undouble : forall s, undouble (escape_dollars s) = s.
Proof.
  induction s as [|c r IH]; [reflexivity|].
  cbn [escape_dollars]. destruct (c =? 36) eqn:E.
  - apply N.eqb_eq in E. subst c. cbn [undouble N.eqb Pos.eqb]. now rewrite IH.
  - cbn [undouble]. rewrite E. now rewrite IH.
Qed.

Lemma count_cons x c s : count x (c :: s) = Nat.add (if (c =? x)%N then 1%nat else 0%nat) (count x s).
Proof. unfold count. cbn [filter]. destruct (c =? x); reflexivity. Qed.

Theorem dollars_doubling : forall s,
  count 36 (escape_dollars s) = (2 * count 36 s)%nat /\
  length (escape_dollars s) = (length s + count 36 s)%nat /\
  (forall x, x <> 36 -> count x (escape_dollars s) = count x s).
Proof.
  induction s as [|c r [IH1 [IH2 IH3]]]; [repeat split; reflexivity|].
  cbn [escape_dollars]. destruct (c =? 36) eqn:E.
  - apply N.eqb_eq in E. subst c. repeat split.
    + rewrite !count_cons, IH1. change (36 =? 36) with true. lia.
    + rewrite count_cons. change (36 =? 36) with true. cbn [length]. lia.
    + intros x Hx. rewrite !count_cons.
      replace (36 =? x) with false by (symmetry; apply N.eqb_neq; congruence).
      now apply IH3.
  - repeat split.
    + rewrite !count_cons, E, IH1. lia.
    + rewrite count_cons, E. cbn [length]. lia.
    + intros x Hx. rewrite !count_cons. now rewrite IH3.
Qed.

(* ---- XML --------------------------------------------------------------------- *)

Definition xml_special (c : N) : bool := (c =? 60) || (c =? 62) || (c =? 34) || (c =? 39).

(* reference decoder of the five predefined entities *)
Fixpoint strip (p s : str) : option str :=
  match p with
  | [] => Some s
  | a :: p' => match s with
               | b :: s' => if a =? b then strip p' s' else None
               | [] => None
               end
  end.

Fixpoint xml_unescape (fuel : nat) (s : str) : str :=
  match fuel with
  | O => s
  | S f =>
      match s with
      | [] => []
      | c :: r =>
          match strip [38; 108; 116; 59] s with Some r' => 60 :: xml_unescape f r' | None =>
          match strip [38; 103; 116; 59] s with Some r' => 62 :: xml_unescape f r' | None =>
          match strip [38; 97; 109; 112; 59] s with Some r' => 38 :: xml_unescape f r' | None =>
          match strip [38; 113; 117; 111; 116; 59] s with Some r' => 34 :: xml_unescape f r' | None =>
          match strip [38; 97; 112; 111; 115; 59] s with Some r' => 39 :: xml_unescape f r' | None =>
          c :: xml_unescape f r
          end end end end end
      end
  end.

Theorem xml_escape_no_specials : forall s,
  forallb (fun c => negb (xml_special c)) (escape_xml s) = true.
Proof.
  induction s as [|c r IH]; [reflexivity|].
  cbn [escape_xml]. rewrite forallb_app, IH, andb_true_r.
  unfold xml_char.
  destruct (c =? 60) eqn:E1; [reflexivity|].
  destruct (c =? 62) eqn:E2; [reflexivity|].
  destruct (c =? 38) eqn:E3; [reflexivity|].
  destruct (c =? 34) eqn:E4; [reflexivity|].
  destruct (c =? 39) eqn:E5; [reflexivity|].
  cbn [forallb]. unfold xml_special. now rewrite E1, E2, E4, E5.
Qed.

Lemma xml_unescape_plain c r f : (c =? 38) = false -> xml_unescape (S f) (c :: r) = c :: xml_unescape f r.
Proof.
  intros E. rewrite N.eqb_sym in E. cbn [xml_unescape strip]. rewrite E. reflexivity.
Qed.

Theorem xml_unescape_escape : forall s f, (length (escape_xml s) <= f)%nat ->
  xml_unescape f (escape_xml s) = s.
Proof.
  induction s as [|c r IH]; intros f Hf.
  - destruct f; reflexivity.
  - cbn [escape_xml] in *. rewrite app_length in Hf. unfold xml_char in *.
    destruct (c =? 60) eqn:E1.
    { apply N.eqb_eq in E1. subst c. destruct f; [cbn in Hf; lia|]. cbn [app xml_unescape strip N.eqb Pos.eqb]. f_equal. apply IH. cbn in Hf. lia. }
    destruct (c =? 62) eqn:E2.
    { apply N.eqb_eq in E2. subst c. destruct f; [cbn in Hf; lia|]. cbn [app xml_unescape strip N.eqb Pos.eqb]. f_equal. apply IH. cbn in Hf. lia. }
    destruct (c =? 38) eqn:E3.
    { apply N.eqb_eq in E3. subst c. destruct f; [cbn in Hf; lia|]. cbn [app xml_unescape strip N.eqb Pos.eqb]. f_equal. apply IH. cbn in Hf. lia. }
    destruct (c =? 34) eqn:E4.
    { apply N.eqb_eq in E4. subst c. destruct f; [cbn in Hf; lia|]. cbn [app xml_unescape strip N.eqb Pos.eqb]. f_equal. apply IH. cbn in Hf. lia. }
    destruct (c =? 39) eqn:E5.
    { apply N.eqb_eq in E5. subst c. destruct f; [cbn in Hf; lia|]. cbn [app xml_unescape strip N.eqb Pos.eqb]. f_equal. apply IH. cbn in Hf. lia. }
    destruct f; [cbn in Hf; lia|]. cbn [app]. rewrite xml_unescape_plain by assumption.
    f_equal. apply IH. cbn in Hf. lia.
Qed.
