(* Proofs/Cli_proofs.v — lemmas about the command-line glue model (Model/Cli.v).
   Everything is proved for [run_gen flush], both for the code that only calls
   write_all ([flush = false]) and for the code that also flushes and checks
   ([flush = true]); Props/C12.v instantiates them at [run] (= what main.rs does). *)
From RJ Require Import Base.Outcome Model.Cli.
From Coq Require Import Lia Permutation.
Local Open Scope N_scope.

Ltac dm :=
  match goal with
  | |- context [match ?x with _ => _ end] => destruct x eqn:?
  end.
Ltac dmh H :=
  match type of H with
  | context [match ?x with _ => _ end] => destruct x eqn:?
  end.

(* ------------------------------------------------------------------ bytes *)

Lemma bytes_eqb_eq : forall a b, bytes_eqb a b = true <-> a = b.
Proof.
  induction a as [|x a IH]; intros [|y b]; cbn; split; intros H; try discriminate; try reflexivity.
  - destruct (N.eqb_spec x y); [|discriminate]. subst. f_equal. apply IH; exact H.
  - inversion H; subst. rewrite N.eqb_refl. apply IH; reflexivity.
Qed.

Lemma bytes_eqb_refl : forall a, bytes_eqb a a = true.
Proof. intros a. apply bytes_eqb_eq. reflexivity. Qed.

Lemma bytes_eqb_neq : forall a b, bytes_eqb a b = false <-> a <> b.
Proof.
  intros a b. split.
  - intros H E. apply bytes_eqb_eq in E. congruence.
  - intros H. destruct (bytes_eqb a b) eqn:E; [|reflexivity]. apply bytes_eqb_eq in E. contradiction.
Qed.

Lemma mem_bytes_In : forall x l, mem_bytes x l = true <-> In x l.
Proof.
  induction l as [|y r IH]; cbn; [split; [discriminate|tauto]|].
  destruct (bytes_eqb x y) eqn:E.
  - apply bytes_eqb_eq in E. subst. split; auto.
  - apply bytes_eqb_neq in E. rewrite IH. split; [auto|]. intros [H|H]; [congruence|exact H].
Qed.

(* ------------------------------------------------------------------ cli.rs parsers *)

Lemma split_once_eq_first : forall k v, ~ In EQ k -> split_once_eq (k ++ EQ :: v) = Some (k, v).
Proof.
  induction k as [|ch k IH]; intros v Hn; cbn.
  - reflexivity.
  - destruct (N.eqb_spec ch EQ) as [E|E]; [exfalso; apply Hn; left; exact E|].
    rewrite IH; [reflexivity|]. intros H; apply Hn; right; exact H.
Qed.

Lemma split_once_eq_none : forall s, ~ In EQ s -> split_once_eq s = None.
Proof.
  induction s as [|ch s IH]; intros Hn; cbn; [reflexivity|].
  destruct (N.eqb_spec ch EQ) as [E|E]; [exfalso; apply Hn; left; exact E|].
  rewrite IH; [reflexivity|]. intros H; apply Hn; right; exact H.
Qed.

Lemma var_split_at_first_eq : forall k v, ~ In EQ k ->
  parse_var_opt_val (k ++ EQ :: v) = {| vo_var := k; vo_val := Some v |} /\
  parse_var_file (k ++ EQ :: v) = Some {| vf_var := k; vf_file := v |}.
Proof.
  intros k v Hn. unfold parse_var_opt_val, parse_var_file. rewrite split_once_eq_first by exact Hn. split; reflexivity.
Qed.

Lemma var_without_eq : forall s, ~ In EQ s ->
  parse_var_opt_val s = {| vo_var := s; vo_val := None |} /\ parse_var_file s = None.
Proof.
  intros s Hn. unfold parse_var_opt_val, parse_var_file. rewrite split_once_eq_none by exact Hn. split; reflexivity.
Qed.

(* ------------------------------------------------------------------ top-level argument binding *)

Fixpoint lookup (n : bytes) (l : list (bytes * thunk)) : option thunk :=
  match l with
  | [] => None
  | (m, t) :: r => if bytes_eqb n m then Some t else lookup n r
  end.

Definition bind_spec (params : list (bytes * bool)) (named : list (bytes * thunk)) : list binding :=
  map (fun pd => match lookup (fst pd) named with Some t => BArg t | None => BDefault end) params.

Lemma lookup_None_iff : forall n l, lookup n l = None <-> ~ In n (map fst l).
Proof.
  induction l as [|[m t] r IH]; cbn; [tauto|].
  destruct (bytes_eqb n m) eqn:E.
  - apply bytes_eqb_eq in E. subst. split; [discriminate|]. intros H; exfalso; apply H; left; reflexivity.
  - apply bytes_eqb_neq in E. rewrite IH. split; intros H; [intros [X|X]; [congruence|auto]|auto].
Qed.

Lemma lookup_Some_In : forall n l t, lookup n l = Some t -> In (n, t) l.
Proof.
  induction l as [|[m u] r IH]; cbn; intros t H; [discriminate|].
  destruct (bytes_eqb n m) eqn:E.
  - apply bytes_eqb_eq in E. inversion H; subst. left; reflexivity.
  - right. apply IH; exact H.
Qed.

Lemma In_lookup_Some : forall n t l, NoDup (map fst l) -> In (n, t) l -> lookup n l = Some t.
Proof.
  induction l as [|[m u] r IH]; cbn; intros Hnd Hin; [contradiction|].
  inversion Hnd as [|? ? Hnotin Hnd']; subst.
  destruct Hin as [E|Hin].
  - inversion E; subst. rewrite bytes_eqb_refl. reflexivity.
  - destruct (bytes_eqb n m) eqn:E.
    + apply bytes_eqb_eq in E; subst. exfalso. apply Hnotin. apply in_map_iff. exists (m, t). split; [reflexivity|exact Hin].
    + apply IH; assumption.
Qed.

Lemma set_slot_length : forall i t s s', set_slot i t s = Some s' -> length s' = length s.
Proof.
  intros i t s; revert i; induction s as [|o r IH]; intros i s' H; destruct i; cbn in H; try discriminate.
  - destruct o; [discriminate|]. inversion H; reflexivity.
  - destruct o; destruct (set_slot i t r) eqn:E; try discriminate; inversion H; cbn; f_equal; eapply IH; eauto.
Qed.

(* slots as a function of the parameter name *)
Lemma set_slot_map : forall (f : bytes -> option thunk) n t params i,
  NoDup (map fst params) -> param_index n params = Some i ->
  set_slot i t (map (fun pd => f (fst pd)) params) =
  match f n with
  | Some _ => None
  | None => Some (map (fun pd => if bytes_eqb (fst pd) n then Some t else f (fst pd)) params)
  end.
Proof.
  intros f n t params; induction params as [|[p d] r IH]; intros i Hnd Hi; cbn in Hi; [discriminate|].
  inversion Hnd as [|? ? Hnotin Hnd']; subst. cbn [map fst].
  destruct (bytes_eqb n p) eqn:E.
  - apply bytes_eqb_eq in E; subst p. inversion Hi; subst i. cbn.
    destruct (f n) eqn:Ef; [reflexivity|]. rewrite bytes_eqb_refl. f_equal. f_equal.
    apply map_ext_in. intros [q dq] Hq. cbn.
    destruct (bytes_eqb q n) eqn:Eq; [|reflexivity].
    apply bytes_eqb_eq in Eq; subst q. exfalso. apply Hnotin. apply in_map_iff. exists (n, dq). split; [reflexivity|exact Hq].
  - destruct (param_index n r) as [j|] eqn:Ej; [|discriminate]. inversion Hi; subst i.
    specialize (IH j Hnd' eq_refl). cbn. rewrite IH.
    assert (Hpn : bytes_eqb p n = false).
    { apply bytes_eqb_neq. apply bytes_eqb_neq in E. congruence. }
    destruct (f p) eqn:Efp; destruct (f n) eqn:Efn; cbn; rewrite ?Hpn, ?Efp; reflexivity.
Qed.

Lemma param_index_In : forall n params i, param_index n params = Some i -> In n (map fst params).
Proof.
  induction params as [|[p d] r IH]; cbn; intros i H; [discriminate|].
  destruct (bytes_eqb n p) eqn:E.
  - apply bytes_eqb_eq in E. left; congruence.
  - destruct (param_index n r) eqn:Ej; [|discriminate]. right. eapply IH; reflexivity.
Qed.

Lemma In_param_index : forall n params, In n (map fst params) -> exists i, param_index n params = Some i.
Proof.
  induction params as [|[p d] r IH]; cbn; intros H; [contradiction|].
  destruct (bytes_eqb n p) eqn:E; [eexists; reflexivity|].
  destruct H as [H|H]; [apply bytes_eqb_neq in E; congruence|].
  destruct (IH H) as [j Hj]. rewrite Hj. eexists; reflexivity.
Qed.

Lemma place_named_spec : forall params, NoDup (map fst params) ->
  forall named (f : bytes -> option thunk) slots',
  place_named params named (map (fun pd => f (fst pd)) params) = Ok slots' ->
  slots' = map (fun pd => match f (fst pd) with Some t => Some t | None => lookup (fst pd) named end) params /\
  NoDup (map fst named) /\
  (forall n, In n (map fst named) -> In n (map fst params) /\ f n = None).
Proof.
  intros params Hnd. induction named as [|[n t] r IH]; intros f slots' H; cbn in H.
  - inversion H; subst. split; [|split; [constructor|intros n []]].
    apply map_ext. intros pd. destruct (f (fst pd)); reflexivity.
  - destruct (param_index n params) as [i|] eqn:Ei; [|discriminate].
    rewrite (set_slot_map f n t params i Hnd Ei) in H.
    destruct (f n) eqn:Efn; [discriminate|].
    pose (f' := fun m => if bytes_eqb m n then Some t else f m).
    change (map (fun pd => if bytes_eqb (fst pd) n then Some t else f (fst pd)) params)
      with (map (fun pd => f' (fst pd)) params) in H.
    destruct (IH f' slots' H) as (Hs & Hnd' & Hin).
    split; [|split].
    + rewrite Hs. apply map_ext. intros pd. unfold f'. cbn [lookup].
      destruct (bytes_eqb (fst pd) n) eqn:E.
      * apply bytes_eqb_eq in E. rewrite E, Efn. reflexivity.
      * reflexivity.
    + cbn. constructor; [|exact Hnd'].
      intros Hc. destruct (Hin n Hc) as [_ Hf]. unfold f' in Hf. rewrite bytes_eqb_refl in Hf. discriminate.
    + intros m [E|Hm].
      * cbn in E; subst m. split; [eapply param_index_In; eauto|exact Efn].
      * destruct (Hin m Hm) as [Hp Hf]. split; [exact Hp|].
        unfold f' in Hf. destruct (bytes_eqb m n); [discriminate|exact Hf].
Qed.

Lemma place_named_complete : forall params, NoDup (map fst params) ->
  forall named (f : bytes -> option thunk),
  NoDup (map fst named) ->
  (forall n, In n (map fst named) -> In n (map fst params) /\ f n = None) ->
  exists slots', place_named params named (map (fun pd => f (fst pd)) params) = Ok slots'.
Proof.
  intros params Hnd. induction named as [|[n t] r IH]; intros f Hndn Hin; cbn.
  - eexists; reflexivity.
  - destruct (Hin n (or_introl eq_refl)) as [Hp Hf].
    destruct (In_param_index n params Hp) as [i Hi]. rewrite Hi.
    rewrite (set_slot_map f n t params i Hnd Hi), Hf.
    inversion Hndn as [|? ? Hnotin Hndr]; subst.
    apply (IH (fun m => if bytes_eqb m n then Some t else f m) Hndr).
    intros m Hm. destruct (Hin m (or_intror Hm)) as [Hpm Hfm]. split; [exact Hpm|].
    destruct (bytes_eqb m n) eqn:E; [|exact Hfm].
    apply bytes_eqb_eq in E; subst m. contradiction.
Qed.

Lemma fill_defaults_spec : forall (g : bytes * bool -> option thunk) params bs,
  fill_defaults params (map g params) = Ok bs ->
  bs = map (fun pd => match g pd with Some t => BArg t | None => BDefault end) params /\
  (forall pd, In pd params -> g pd = None -> snd pd = true).
Proof.
  intros g. induction params as [|[p d] r IH]; intros bs H; cbn in H.
  - inversion H; subst. split; [reflexivity|intros pd []].
  - destruct (g (p, d)) eqn:Eg.
    + destruct (fill_defaults r (map g r)) eqn:Ef; try discriminate. inversion H; subst.
      destruct (IH _ eq_refl) as [Hb Hd]. split.
      * cbn. rewrite Eg, Hb. reflexivity.
      * intros pd [E|Hin] Hg; [subst pd; congruence|auto].
    + destruct d; [|discriminate].
      destruct (fill_defaults r (map g r)) eqn:Ef; try discriminate. inversion H; subst.
      destruct (IH _ eq_refl) as [Hb Hd]. split.
      * cbn. rewrite Eg, Hb. reflexivity.
      * intros pd [E|Hin] Hg; [subst pd; reflexivity|auto].
Qed.

Lemma fill_defaults_complete : forall (g : bytes * bool -> option thunk) params,
  (forall pd, In pd params -> g pd = None -> snd pd = true) ->
  exists bs, fill_defaults params (map g params) = Ok bs.
Proof.
  intros g. induction params as [|[p d] r IH]; intros Hd; cbn.
  - eexists; reflexivity.
  - destruct IH as [bs Hbs]; [intros pd Hin; apply Hd; right; exact Hin|].
    rewrite Hbs. destruct (g (p, d)) eqn:Eg; [eexists; reflexivity|].
    rewrite (Hd (p, d) (or_introl eq_refl) Eg : d = true). eexists; reflexivity.
Qed.

Lemma fill_defaults_no_panic : forall params slots, length slots = length params ->
  match fill_defaults params slots with Panic _ => False | OutOfFuel => False | _ => True end.
Proof.
  induction params as [|[p d] r IH]; intros slots Hl; cbn; [exact I|].
  destruct slots as [|s sr]; [discriminate|]. cbn in Hl. specialize (IH sr ltac:(lia)).
  destruct s; [|destruct d]; destruct (fill_defaults r sr); auto.
Qed.

Lemma place_named_length : forall params named slots slots',
  place_named params named slots = Ok slots' -> length slots' = length slots.
Proof.
  intros params; induction named as [|[n t] r IH]; intros slots slots' H; cbn in H.
  - inversion H; reflexivity.
  - destruct (param_index n params); [|discriminate].
    destruct (set_slot n0 t slots) eqn:E; [|discriminate].
    rewrite (IH _ _ H). eapply set_slot_length; eauto.
Qed.

Lemma place_named_no_panic : forall params named slots,
  match place_named params named slots with Panic _ => False | OutOfFuel => False | _ => True end.
Proof.
  intros params; induction named as [|[n t] r IH]; intros slots; cbn; [exact I|].
  destruct (param_index n params); [|exact I]. destruct (set_slot n0 t slots); [apply IH|exact I].
Qed.

Lemma bind_tla_no_panic : forall params named,
  match bind_tla params named with Panic _ => False | OutOfFuel => False | _ => True end.
Proof.
  intros params named. unfold bind_tla.
  pose proof (place_named_no_panic params named (map (fun _ => None) params)) as Hp.
  destruct (place_named params named (map (fun _ => None) params)) eqn:E; try exact I; try contradiction.
  apply fill_defaults_no_panic. rewrite (place_named_length _ _ _ _ E). apply map_length.
Qed.

(* what a successful binding is: every parameter gets the argument of its own
   name, the others their default *)
Theorem bind_tla_sound : forall params named bs,
  NoDup (map fst params) -> bind_tla params named = Ok bs ->
  bs = bind_spec params named /\
  NoDup (map fst named) /\
  incl (map fst named) (map fst params) /\
  (forall p, In (p, false) params -> In p (map fst named)).
Proof.
  intros params named bs Hnd H. unfold bind_tla in H.
  destruct (place_named params named (map (fun _ => None) params)) as [slots| | |] eqn:E; try discriminate.
  change (map (fun _ : bytes * bool => @None thunk) params)
    with (map (fun pd : bytes * bool => (fun _ : bytes => @None thunk) (fst pd)) params) in E.
  destruct (place_named_spec params Hnd named _ slots E) as (Hs & Hndn & Hin).
  cbn in Hs. subst slots.
  destruct (fill_defaults_spec (fun pd => lookup (fst pd) named) params bs H) as [Hb Hd].
  split; [exact Hb|]. split; [exact Hndn|]. split.
  - intros n Hn. apply (Hin n Hn).
  - intros p Hp. destruct (lookup p named) eqn:El.
    + apply lookup_Some_In in El. apply in_map_iff. exists (p, t). split; [reflexivity|exact El].
    + specialize (Hd (p, false) Hp El). discriminate.
Qed.

Theorem bind_tla_complete : forall params named,
  NoDup (map fst params) -> NoDup (map fst named) ->
  incl (map fst named) (map fst params) ->
  (forall p, In (p, false) params -> In p (map fst named)) ->
  bind_tla params named = Ok (bind_spec params named).
Proof.
  intros params named Hnd Hndn Hincl Hreq. unfold bind_tla.
  destruct (place_named_complete params Hnd named (fun _ => None) Hndn) as [slots Hs].
  { intros n Hn. split; [apply Hincl; exact Hn|reflexivity]. }
  destruct (place_named_spec params Hnd named (fun _ => None) slots Hs) as (Hs' & _ & _).
  cbn beta in Hs. rewrite Hs. cbn in Hs'. subst slots.
  destruct (fill_defaults_complete (fun pd => lookup (fst pd) named) params) as [bs Hbs].
  { intros [p d] Hin Hl. cbn in *. destruct d; [reflexivity|].
    exfalso. apply lookup_None_iff in Hl. apply Hl. apply Hreq. exact Hin. }
  rewrite Hbs. destruct (fill_defaults_spec _ _ _ Hbs) as [Hb _]. rewrite Hb. reflexivity.
Qed.

Lemma lookup_perm : forall n l l', NoDup (map fst l) -> Permutation l l' -> lookup n l = lookup n l'.
Proof.
  intros n l l' Hnd Hp.
  assert (Hnd' : NoDup (map fst l')) by (eapply Permutation_NoDup; [apply Permutation_map; exact Hp|exact Hnd]).
  destruct (lookup n l) eqn:E.
  - symmetry. apply In_lookup_Some; [exact Hnd'|]. eapply Permutation_in; [exact Hp|]. apply lookup_Some_In; exact E.
  - symmetry. apply lookup_None_iff. apply lookup_None_iff in E. intros Hc. apply E.
    eapply Permutation_in; [apply Permutation_map; apply Permutation_sym; exact Hp|exact Hc].
Qed.

(* the order in which top-level arguments are given does not matter *)
Theorem bind_tla_permutation : forall params named named' bs,
  NoDup (map fst params) -> Permutation named named' ->
  bind_tla params named = Ok bs -> bind_tla params named' = Ok bs.
Proof.
  intros params named named' bs Hnd Hp H.
  destruct (bind_tla_sound params named bs Hnd H) as (Hb & Hndn & Hincl & Hreq).
  assert (Hpm : Permutation (map fst named) (map fst named')) by (apply Permutation_map; exact Hp).
  rewrite (bind_tla_complete params named' Hnd).
  - f_equal. rewrite Hb. unfold bind_spec. apply map_ext. intros pd.
    rewrite (lookup_perm (fst pd) named named' Hndn Hp). reflexivity.
  - eapply Permutation_NoDup; eauto.
  - intros n Hn. apply Hincl. eapply Permutation_in; [apply Permutation_sym; exact Hpm|exact Hn].
  - intros p Hin. eapply Permutation_in; [exact Hpm|]. apply Hreq; exact Hin.
Qed.

(* ------------------------------------------------------------------ devices *)

Lemma take_prefix : forall n l, exists rest, l = take n l ++ rest.
Proof.
  induction n as [|n IH]; intros l; cbn; [exists l; reflexivity|].
  destruct l as [|x r]; [exists []; reflexivity|].
  destruct (IH r) as [rest Hr]. exists rest. cbn. f_equal. exact Hr.
Qed.

Lemma take_length_lt : forall n l, (n < length l)%nat -> length (take n l) = n.
Proof.
  induction n as [|n IH]; intros l H; cbn; [reflexivity|].
  destruct l as [|x r]; cbn in *; [lia|]. f_equal. apply IH. lia.
Qed.

(* a device write takes a prefix; it reports success exactly when it took everything *)
Lemma dev_write_spec : forall limit data acc ok limit',
  dev_write limit data = (acc, ok, limit') ->
  exists rest, data = acc ++ rest /\ (ok = true -> rest = []) /\ (ok = false -> rest <> []).
Proof.
  intros limit data acc ok limit' H. unfold dev_write in H.
  destruct data as [|x r]; [inversion H; subst; exists []; repeat split; auto; discriminate|].
  destruct limit as [n|].
  - destruct (blen (x :: r) <=? n) eqn:E.
    + inversion H; subst. exists []. rewrite app_nil_r. repeat split; auto; discriminate.
    + inversion H; subst. destruct (take_prefix (N.to_nat n) (x :: r)) as [rest Hr].
      exists rest. split; [exact Hr|]. split; [discriminate|]. intros _ Hc. subst rest.
      rewrite app_nil_r in Hr. apply N.leb_gt in E. unfold blen in E.
      assert (Hl : (N.to_nat n < length (x :: r))%nat) by lia.
      pose proof (take_length_lt _ _ Hl) as Ht. rewrite <- Hr in Ht. lia.
  - inversion H; subst. exists []. rewrite app_nil_r. repeat split; auto; discriminate.
Qed.

Lemma fs_ok_inv : forall w path data, fs_ok (fs_write w path data) = true -> fs_write w path data = FsWrote data true.
Proof.
  intros w path data H. unfold fs_write in *. destruct (w_target w path); [discriminate|].
  destruct (dev_write limit data) as [[acc ok] l'] eqn:E. cbn in H. destruct ok; [|discriminate].
  destruct (dev_write_spec _ _ _ _ _ E) as (rest & Hd & Ht & _). rewrite (Ht eq_refl), app_nil_r in Hd. subst. reflexivity.
Qed.

(* what a failed fs::write leaves behind: nothing, or a proper prefix *)
Definition incomplete (data : bytes) (e : fs_effect) : Prop :=
  match e with
  | FsNotCreated => True
  | FsWrote acc ok => ok = false /\ exists rest, data = acc ++ rest /\ rest <> []
  end.

Lemma fs_not_ok_inv : forall w path data, fs_ok (fs_write w path data) = false -> incomplete data (fs_write w path data).
Proof.
  intros w path data H. unfold fs_write in *. destruct (w_target w path); [exact I|].
  destruct (dev_write limit data) as [[acc ok] l'] eqn:E. cbn in *. destruct ok; [discriminate|].
  destruct (dev_write_spec _ _ _ _ _ E) as (rest & Hd & _ & Hf). split; [reflexivity|]. exists rest. auto.
Qed.

(* the Stdout handle *)
Definition so_fresh (dev : stdout_dev) : so_state := {| so_out := []; so_buf := []; so_dev := dev |}.

Definition is_dev (d : stdout_dev) : Prop := match d with SoDev _ => True | SoClosed => False end.

Lemma so_raw_write_spec : forall st data ok st',
  is_dev (so_dev st) -> so_raw_write st data = (ok, st') ->
  is_dev (so_dev st') /\ so_buf st' = so_buf st /\
  exists acc rest, so_out st' = so_out st ++ acc /\ data = acc ++ rest /\ (ok = true -> rest = []) /\ (ok = false -> rest <> []).
Proof.
  intros st data ok st' Hd H. unfold so_raw_write in H. destruct (so_dev st) as [|limit] eqn:Ed; [contradiction|].
  destruct (dev_write limit data) as [[acc ok'] l'] eqn:E. inversion H; subst. cbn.
  destruct (dev_write_spec _ _ _ _ _ E) as (rest & Hr & Ht & Hf).
  split; [exact I|]. split; [reflexivity|]. exists acc, rest. auto.
Qed.

Lemma split_last_nl_app : forall s lines tail, split_last_nl s = Some (lines, tail) -> s = lines ++ tail.
Proof.
  induction s as [|ch r IH]; intros lines tail H; cbn in H; [discriminate|].
  destruct (split_last_nl r) as [[l t]|] eqn:E.
  - inversion H; subst. cbn. f_equal. apply IH; reflexivity.
  - destruct (ch =? NL); [|discriminate]. inversion H; subst. reflexivity.
Qed.

Lemma split_last_nl_lines_nonempty : forall s lines tail, split_last_nl s = Some (lines, tail) -> lines <> [].
Proof.
  intros [|ch r] lines tail H; cbn in H; [discriminate|].
  destruct (split_last_nl r) as [[l t]|]; [inversion H; discriminate|].
  destruct (ch =? NL); [inversion H; discriminate|discriminate].
Qed.

(* state after write_all on a fresh handle over a real device: what reached the
   device followed by what is buffered is a prefix of the data; on success it
   is all of the data, on failure a proper prefix and nothing is buffered *)
Lemma so_write_all_spec : forall cap dev data ok st,
  is_dev dev -> so_write_all cap (so_fresh dev) data = (ok, st) ->
  is_dev (so_dev st) /\
  exists rest, data = so_out st ++ so_buf st ++ rest /\
               (ok = true -> rest = []) /\ (ok = false -> rest <> [] /\ so_buf st = []).
Proof.
  intros cap dev data ok st Hdev H. unfold so_write_all in H.
  assert (Hbuf : forall st0 d ok1 st1, is_dev (so_dev st0) -> so_buf st0 = [] -> so_buf_write cap st0 d = (ok1, st1) ->
            is_dev (so_dev st1) /\ exists rest, so_out st0 ++ d = so_out st1 ++ so_buf st1 ++ rest /\
            (ok1 = true -> rest = []) /\ (ok1 = false -> rest <> [] /\ so_buf st1 = [])).
  { intros st0 d ok1 st1 Hd0 Hb0 Hw. unfold so_buf_write in Hw. destruct (blen d <? cap).
    - inversion Hw; subst. cbn. rewrite Hb0. split; [exact Hd0|]. exists []. cbn. rewrite app_nil_r.
      split; [reflexivity|]. split; [reflexivity|discriminate].
    - destruct (so_raw_write_spec _ _ _ _ Hd0 Hw) as (Hd1 & Hb1 & acc & rest & Ho & Hdata & Ht & Hf).
      split; [exact Hd1|]. exists rest. rewrite Hb1, Hb0, Ho, Hdata. cbn. rewrite app_assoc.
      split; [reflexivity|]. split; [exact Ht|]. intros E. split; [apply Hf; exact E|reflexivity]. }
  destruct (split_last_nl data) as [[lines tail]|] eqn:Es.
  - destruct (so_raw_write (so_fresh dev) lines) as [ok1 st1] eqn:E1.
    destruct (so_raw_write_spec (so_fresh dev) _ _ _ Hdev E1) as (Hd1 & Hb1 & acc & rest & Ho & Hdata & Ht & Hf).
    cbn in Ho, Hb1. apply split_last_nl_app in Es. destruct ok1.
    + rewrite (Ht eq_refl), app_nil_r in Hdata. rewrite <- Hdata in Ho. clear Hdata.
      destruct (Hbuf st1 tail ok st Hd1 Hb1 H) as (Hd2 & rest2 & He & Ht2 & Hf2).
      split; [exact Hd2|]. exists rest2. rewrite Es, <- He, Ho. auto.
    + inversion H; subst ok st. split; [exact Hd1|]. exists (rest ++ tail).
      rewrite Hb1, Ho, Es, Hdata. cbn. rewrite <- app_assoc.
      split; [reflexivity|]. split; [discriminate|]. intros _. split; [|reflexivity].
      specialize (Hf eq_refl). destruct rest; [contradiction|discriminate].
  - destruct (Hbuf (so_fresh dev) data ok st Hdev eq_refl H) as (Hd2 & rest2 & He & Ht2 & Hf2).
    split; [exact Hd2|]. exists rest2. cbn in He. auto.
Qed.

Lemma so_flush_spec : forall st ok st', is_dev (so_dev st) -> so_flush st = (ok, st') ->
  is_dev (so_dev st') /\ so_buf st' = [] /\
  exists acc rest, so_out st' = so_out st ++ acc /\ so_buf st = acc ++ rest /\ (ok = true -> rest = []) /\ (ok = false -> rest <> []).
Proof.
  intros st ok st' Hd H. unfold so_flush in H. destruct (so_raw_write st (so_buf st)) as [ok1 st1] eqn:E.
  destruct (so_raw_write_spec _ _ _ _ Hd E) as (Hd1 & Hb1 & acc & rest & Ho & Hdata & Ht & Hf).
  inversion H; subst. cbn. split; [exact Hd1|]. split; [reflexivity|]. exists acc, rest. auto.
Qed.

Lemma so_at_exit_nobuf : forall st, so_buf st = [] -> so_at_exit st = so_out st.
Proof.
  intros st Hb. unfold so_at_exit, so_flush, so_raw_write. rewrite Hb.
  destruct (so_dev st); cbn; [reflexivity|]. rewrite app_nil_r. reflexivity.
Qed.

Lemma so_at_exit_prefix : forall st, is_dev (so_dev st) ->
  exists acc rest, so_at_exit st = so_out st ++ acc /\ so_buf st = acc ++ rest.
Proof.
  intros st Hd. unfold so_at_exit. destruct (so_flush st) as [ok st'] eqn:E.
  destruct (so_flush_spec _ _ _ Hd E) as (_ & _ & acc & rest & Ho & Hb & _). cbn. exists acc, rest. auto.
Qed.

(* a closed descriptor swallows everything and reports success *)
Lemma so_closed_write_all : forall cap data, exists st,
  so_write_all cap (so_fresh SoClosed) data = (true, st) /\ so_out st = [] /\ so_dev st = SoClosed.
Proof.
  intros cap data. unfold so_write_all.
  assert (Hb : forall st d, so_dev st = SoClosed -> so_out st = [] ->
            exists st', so_buf_write cap st d = (true, st') /\ so_out st' = [] /\ so_dev st' = SoClosed).
  { intros st d Hd Ho. unfold so_buf_write. destruct (blen d <? cap).
    - eexists; split; [reflexivity|]. cbn. auto.
    - unfold so_raw_write. rewrite Hd. eexists; split; [reflexivity|]. auto. }
  destruct (split_last_nl data) as [[lines tail]|].
  - unfold so_raw_write at 1. cbn. apply Hb; reflexivity.
  - apply Hb; reflexivity.
Qed.

(* ------------------------------------------------------------------ prepare / compute *)

Lemma prepare_no_panic : forall c w site, prepare c w <> PPanic site.
Proof.
  intros c w site. unfold prepare.
  repeat (dm; try discriminate).
  all: match goal with
       | H : bind_tla ?p ?n = Panic _ |- _ => pose proof (bind_tla_no_panic p n) as Hb; rewrite H in Hb; contradiction
       | H : bind_tla ?p ?n = OutOfFuel |- _ => pose proof (bind_tla_no_panic p n) as Hb; rewrite H in Hb; contradiction
       end.
Qed.

Lemma compute_no_panic : forall c w site, compute c w <> CPanic site.
Proof.
  intros c w site. unfold compute. pose proof (prepare_no_panic c w) as Hp.
  destruct (prepare c w) eqn:E; try discriminate.
  - exfalso; eapply Hp; reflexivity.
  - repeat (dm; try discriminate).
Qed.

Lemma prepare_usage : forall c w,
  prepare c w = PUsage <-> (w_clap_ok w = false \/ (c_string c && c_yaml c) = true).
Proof.
  intros c w. unfold prepare. destruct (w_clap_ok w); cbn [negb].
  - destruct (c_string c && c_yaml c).
    + split; auto.
    + split; [|intros [H|H]; discriminate]. intros H. exfalso.
      repeat (dmh H; try discriminate).
  - split; auto.
Qed.

Lemma compute_usage : forall c w, compute c w = CUsage <-> prepare c w = PUsage.
Proof.
  intros c w. unfold compute. split; intros H.
  - destruct (prepare c w); try discriminate; [reflexivity|]. exfalso. repeat (dmh H; try discriminate).
  - rewrite H. reflexivity.
Qed.

(* case analysis of a run: usage / failed before writing / -o written / -o failed /
   stdout written and flushed / flush failed / stdout written, not flushed / write_all failed *)
Ltac run_cases f c w :=
  unfold run_gen, emit_gen;
  destruct (compute c w) as [|site|files|out files warned] eqn:Ecomp;
  [ | exfalso; eapply compute_no_panic; eassumption | |
    destruct (c_output c) as [path|] eqn:Eout;
    [ destruct (fs_ok (fs_write w path out)) eqn:Eok
    | destruct (so_write_all (w_bufcap w) {| so_out := []; so_buf := []; so_dev := w_stdout w |} out) as [ok st1] eqn:Ewr;
      destruct ok; [ destruct f; [ destruct (so_flush st1) as [ok2 st2] eqn:Efl; destruct ok2 | ] | ] ] ].

Theorem cli_exit_in_012 : forall f c w,
  r_exit (run_gen f c w) = 0 \/ r_exit (run_gen f c w) = 1 \/ r_exit (run_gen f c w) = 2.
Proof. intros f c w. run_cases f c w; cbn; auto. Qed.

Theorem no_panic : forall f c w, r_exit (run_gen f c w) <> 134.
Proof. intros f c w. destruct (cli_exit_in_012 f c w) as [H|[H|H]]; rewrite H; discriminate. Qed.

Theorem usage_is_2 : forall f c w,
  (r_exit (run_gen f c w) = 2 <-> (w_clap_ok w = false \/ (c_string c && c_yaml c) = true)) /\
  (r_exit (run_gen f c w) = 2 -> run_gen f c w = usage_result).
Proof.
  intros f c w. rewrite <- prepare_usage, <- compute_usage. split; [split|]; intros H.
  - revert H. run_cases f c w; cbn; intros H; try discriminate; reflexivity.
  - unfold run_gen. rewrite H. reflexivity.
  - revert H. run_cases f c w; cbn; intros H; try discriminate; reflexivity.
Qed.

Theorem usage_raw : forall rc w, parse_config rc = None -> run_raw rc w = usage_result.
Proof. intros rc w H. unfold run_raw. rewrite H. reflexivity. Qed.

Lemma parse_var_files_none : forall l, (exists s, In s l /\ ~ In EQ s) -> parse_var_files l = None.
Proof.
  induction l as [|x r IH]; intros (s & Hin & Hn); [contradiction|]. cbn.
  destruct Hin as [E|Hin].
  - subst x. destruct (var_without_eq s Hn) as [_ Hf]. rewrite Hf. reflexivity.
  - destruct (parse_var_file x); [|reflexivity]. rewrite IH; [reflexivity|]. exists s; auto.
Qed.

(* ---- modes ---- *)

Lemma manifest_items_spec : forall w s items texts,
  manifest_items w s items = Some texts -> Forall2 (fun i t => w_manifest w s i = Some t) items texts.
Proof.
  intros w s; induction items as [|v r IH]; intros texts H; cbn in H.
  - inversion H; constructor.
  - destruct (w_manifest w s v) eqn:Em; [|discriminate].
    destruct (manifest_items w s r) eqn:Er; [|discriminate]. inversion H; subst. constructor; auto.
Qed.

Lemma yaml_docs_concat : forall texts, yaml_docs texts = concat (map (fun t => s_dashes ++ t ++ [NL]) texts).
Proof.
  induction texts as [|t r IH]; [reflexivity|]. cbn [yaml_docs map concat]. rewrite IH.
  rewrite <- !app_assoc. reflexivity.
Qed.

Lemma compute_ready_inv : forall c w out files warned,
  compute c w = CReady out files warned ->
  exists s v, prepare c w = POk s v warned /\
    match c_multi c with
    | Some dir => exists fields, w_shape w v = ShObj fields /\ multi_loop c w s dir fields [] [] = (Some out, files)
    | None => value_to_repr c w s v = Some out /\ files = []
    end.
Proof.
  intros c w out files warned H. unfold compute in H.
  destruct (prepare c w) as [| | |s v wn] eqn:Ep; try discriminate.
  exists s, v. destruct (c_multi c) as [dir|].
  - destruct (w_shape w v) eqn:Es; try discriminate.
    destruct (multi_loop c w s dir fields [] []) as [[pl|] fl] eqn:Em; [|discriminate].
    inversion H; subst. split; [reflexivity|]. exists fields. auto.
  - destruct (value_to_repr c w s v) eqn:Ev; [|discriminate]. inversion H; subst. auto.
Qed.

Lemma compute_fail_nonmulti : forall c w files, c_multi c = None -> compute c w = CFail files -> files = [].
Proof.
  intros c w files Hm H. unfold compute in H. rewrite Hm in H.
  destruct (prepare c w); try discriminate; [inversion H; reflexivity|].
  destruct (value_to_repr c w s v); [discriminate|inversion H; reflexivity].
Qed.

Theorem string_mode_is_value : forall c w out files warned,
  c_string c = true -> c_multi c = None -> compute c w = CReady out files warned ->
  exists s v str, prepare c w = POk s v warned /\ w_shape w v = ShStr str /\
                  out = str ++ nl_unless_ntn c /\ files = [].
Proof.
  intros c w out files warned Hs Hm H. destruct (compute_ready_inv _ _ _ _ _ H) as (s & v & Hp & Hr).
  rewrite Hm in Hr. destruct Hr as [Hv Hf]. unfold value_to_repr in Hv. rewrite Hs in Hv.
  destruct (w_shape w v) eqn:Esh; try discriminate. inversion Hv; subst. exists s, v, s0. auto.
Qed.

Theorem yaml_stream_shape : forall c w out files warned,
  c_yaml c = true -> c_string c = false -> c_multi c = None -> compute c w = CReady out files warned ->
  exists s v items texts, prepare c w = POk s v warned /\ w_shape w v = ShArr items /\
    Forall2 (fun i t => w_manifest w s i = Some t) items texts /\
    out = match texts with
          | [] => []
          | _ => concat (map (fun t => s_dashes ++ t ++ [NL]) texts) ++ s_dots ++ nl_unless_ntn c
          end /\ files = [].
Proof.
  intros c w out files warned Hy Hs Hm H. destruct (compute_ready_inv _ _ _ _ _ H) as (s & v & Hp & Hr).
  rewrite Hm in Hr. destruct Hr as [Hv Hf]. unfold value_to_repr in Hv. rewrite Hs, Hy in Hv.
  destruct (w_shape w v) eqn:Esh; try discriminate.
  destruct (manifest_items w s items) as [texts|] eqn:Em; [|discriminate].
  exists s, v, items, texts. split; [exact Hp|]. split; [exact Esh|].
  split; [apply manifest_items_spec; exact Em|]. split; [|exact Hf].
  destruct texts as [|t r]; [congruence|].
  assert (E : out = yaml_docs (t :: r) ++ s_dots ++ nl_unless_ntn c) by congruence.
  rewrite E, yaml_docs_concat. reflexivity.
Qed.

Lemma multi_loop_spec : forall c w s dir fields pl files pl' files',
  multi_loop c w s dir fields pl files = (Some pl', files') ->
  exists reprs, Forall2 (fun fv r => value_to_repr c w s (snd fv) = Some r) fields reprs /\
    files' = files ++ map (fun fr => (path_join dir (fst (fst fr)), FsWrote (snd fr) true)) (combine fields reprs) /\
    pl' = pl ++ concat (map (fun fv => path_join dir (fst fv) ++ [NL]) fields).
Proof.
  intros c w s dir; induction fields as [|[name v] r IH]; intros pl files pl' files' H; cbn in H.
  - inversion H; subst. exists []. split; [constructor|]. cbn. rewrite !app_nil_r. auto.
  - destruct (value_to_repr c w s v) as [repr|] eqn:Ev; [|discriminate].
    destruct (fs_ok (fs_write w (path_join dir name) repr)) eqn:Eok; [|discriminate].
    apply fs_ok_inv in Eok. rewrite Eok in H.
    destruct (IH _ _ _ _ H) as (reprs & Hf2 & Hfiles & Hpl).
    exists (repr :: reprs). split; [constructor; [exact Ev|exact Hf2]|]. split.
    + rewrite Hfiles. cbn. rewrite <- app_assoc. reflexivity.
    + rewrite Hpl. cbn. rewrite <- !app_assoc. reflexivity.
Qed.

Theorem multi_files_are_visible_fields : forall c w dir out files warned,
  c_multi c = Some dir -> compute c w = CReady out files warned ->
  exists s v fields reprs, prepare c w = POk s v warned /\ w_shape w v = ShObj fields /\
    Forall2 (fun fv r => value_to_repr c w s (snd fv) = Some r) fields reprs /\
    files = map (fun fr => (path_join dir (fst (fst fr)), FsWrote (snd fr) true)) (combine fields reprs) /\
    out = concat (map (fun fv => path_join dir (fst fv) ++ [NL]) fields).
Proof.
  intros c w dir out files warned Hm H. destruct (compute_ready_inv _ _ _ _ _ H) as (s & v & Hp & Hr).
  rewrite Hm in Hr. destruct Hr as (fields & Hsh & Hl).
  destruct (multi_loop_spec _ _ _ _ _ _ _ _ _ Hl) as (reprs & Hf2 & Hfiles & Hpl).
  exists s, v, fields, reprs. cbn in Hfiles, Hpl. auto.
Qed.

Lemma compute_ready_files_ok : forall c w out files warned,
  compute c w = CReady out files warned -> Forall (fun pe => fs_ok (snd pe) = true) files.
Proof.
  intros c w out files warned H. destruct (c_multi c) as [dir|] eqn:Em.
  - destruct (multi_files_are_visible_fields _ _ _ _ _ _ Em H) as (s & v & fields & reprs & _ & _ & _ & Hf & _).
    subst files. apply Forall_forall. intros pe Hin. apply in_map_iff in Hin. destruct Hin as (fr & E & _). subst pe. reflexivity.
  - destruct (compute_ready_inv _ _ _ _ _ H) as (s & v & _ & Hr). rewrite Em in Hr. destruct Hr as [_ Hf]. subst. constructor.
Qed.

(* ---- --no-trailing-newline ---- *)

Definition with_ntn (b : bool) (c : config) : config :=
  {| c_input := c_input c; c_exec := c_exec c; c_jpath := c_jpath c; c_output := c_output c;
     c_multi := c_multi c; c_yaml := c_yaml c; c_string := c_string c; c_ntn := b;
     c_max_stack := c_max_stack c; c_max_trace := c_max_trace c;
     c_ext_str := c_ext_str c; c_ext_str_file := c_ext_str_file c;
     c_ext_code := c_ext_code c; c_ext_code_file := c_ext_code_file c;
     c_tla_str := c_tla_str c; c_tla_str_file := c_tla_str_file c;
     c_tla_code := c_tla_code c; c_tla_code_file := c_tla_code_file c |}.

Lemma prepare_with_ntn : forall b c w, prepare (with_ntn b c) w = prepare c w.
Proof. intros b c w. reflexivity. Qed.

Lemma manifest_items_nil : forall w s items, manifest_items w s items = Some [] -> items = [].
Proof.
  intros w s [|v r] H; [reflexivity|]. cbn in H. destruct (w_manifest w s v); [|discriminate].
  destruct (manifest_items w s r); discriminate.
Qed.

Theorem value_to_repr_ntn : forall c w s v out,
  value_to_repr (with_ntn false c) w s v = Some out ->
  exists out', value_to_repr (with_ntn true c) w s v = Some out' /\
    (out = out' ++ [NL] \/
     (out = [] /\ out' = [] /\ c_string c = false /\ c_yaml c = true /\ w_shape w v = ShArr [])).
Proof.
  intros c w s v out H. unfold value_to_repr, nl_unless_ntn in *. cbn [c_string c_yaml c_ntn with_ntn] in *.
  destruct (c_string c) eqn:Es.
  - destruct (w_shape w v); try discriminate. inversion H; subst. eexists; split; [reflexivity|]. left. rewrite app_nil_r. reflexivity.
  - destruct (c_yaml c) eqn:Ey.
    + destruct (w_shape w v) eqn:Esh; try discriminate.
      destruct (manifest_items w s items) as [[|t r]|] eqn:Em; try discriminate.
      * inversion H; subst. eexists; split; [reflexivity|]. right.
        apply manifest_items_nil in Em. subst. auto.
      * assert (E : out = yaml_docs (t :: r) ++ s_dots ++ [NL]) by congruence. subst out.
        eexists; split; [reflexivity|]. left. rewrite app_nil_r, <- app_assoc. reflexivity.
    + destruct (w_manifest w s v); [|discriminate]. inversion H; subst.
      eexists; split; [reflexivity|]. left. rewrite app_nil_r. reflexivity.
Qed.

Theorem no_trailing_newline_only_last : forall c w out files warned,
  c_multi c = None -> compute (with_ntn false c) w = CReady out files warned ->
  exists out', compute (with_ntn true c) w = CReady out' files warned /\
    (out = out' ++ [NL] \/ (out = [] /\ out' = [] /\ c_string c = false /\ c_yaml c = true)).
Proof.
  intros c w out files warned Hm H. unfold compute in *. rewrite prepare_with_ntn in *.
  cbn [c_multi with_ntn] in *. rewrite Hm in *.
  destruct (prepare c w) as [| | |s v wn]; try discriminate.
  destruct (value_to_repr (with_ntn false c) w s v) as [o|] eqn:Ev; [|discriminate]. inversion H; subst.
  destruct (value_to_repr_ntn _ _ _ _ _ Ev) as (out' & Hv' & Hrel). rewrite Hv'.
  exists out'. split; [reflexivity|]. destruct Hrel as [Hr|(A & B & C & D & _)]; auto.
Qed.

(* ---- failure leaves the sinks without a complete output ---- *)

Definition failure_shape_r (c : config) (w : world) (r : result) : Prop :=
  r_stderr r = true /\
  ( r = usage_result \/
    (exists files, compute c w = CFail files /\ r = fail_result files /\ (c_multi c = None -> files = [])) \/
    (exists out files warned path eff, compute c w = CReady out files warned /\ c_output c = Some path /\
        r_stdout r = [] /\ r_files r = files ++ [(path, eff)] /\ incomplete out eff) \/
    (exists out files warned rest, compute c w = CReady out files warned /\ c_output c = None /\
        r_files r = files /\ out = r_stdout r ++ rest /\ rest <> []) ).
Definition failure_shape (f : bool) (c : config) (w : world) : Prop := failure_shape_r c w (run_gen f c w).

Lemma closed_never_fails : forall f c w out files warned,
  w_stdout w = SoClosed -> c_output c = None -> compute c w = CReady out files warned ->
  r_exit (run_gen f c w) = 0 /\ r_stdout (run_gen f c w) = [].
Proof.
  intros f c w out files warned Hc Ho Hcomp. unfold run_gen, emit_gen. rewrite Hcomp, Ho, Hc.
  destruct (so_closed_write_all (w_bufcap w) out) as (st & Hw & Hout & Hdev).
  unfold so_fresh in Hw. rewrite Hw.
  assert (Hfl : forall st0, so_dev st0 = SoClosed -> so_out st0 = [] ->
            fst (so_flush st0) = true /\ so_out (snd (so_flush st0)) = [] /\ so_dev (snd (so_flush st0)) = SoClosed).
  { intros st0 Hd0 Ho0. unfold so_flush, so_raw_write. rewrite Hd0. cbn. auto. }
  destruct f.
  - destruct (Hfl st Hdev Hout) as (A & B & C). destruct (so_flush st) as [ok2 st2]. cbn in A, B, C. subst ok2.
    cbn. split; [reflexivity|]. unfold so_at_exit. apply (Hfl st2 C B).
  - cbn. split; [reflexivity|]. unfold so_at_exit. apply (Hfl st Hdev Hout).
Qed.

Theorem stdout_only_on_success : forall f c w, r_exit (run_gen f c w) <> 0 -> failure_shape f c w.
Proof.
  intros f c w. unfold failure_shape, failure_shape_r.
  destruct (w_stdout w) as [|limit] eqn:Edev.
  - (* closed stdout: failures can only come from before the write or from -o *)
    destruct (compute c w) as [|site|files|out files warned] eqn:Ecomp.
    + intros _. unfold run_gen, emit_gen. rewrite Ecomp. split; [reflexivity|]. left; reflexivity.
    + exfalso; eapply compute_no_panic; eassumption.
    + intros _. unfold run_gen, emit_gen. rewrite Ecomp. split; [reflexivity|]. right; left.
      exists files. split; [reflexivity|]. split; [reflexivity|]. intros Hm. eapply compute_fail_nonmulti; eauto.
    + destruct (c_output c) as [path|] eqn:Eout.
      * unfold run_gen, emit_gen. rewrite Ecomp, Eout.
        destruct (fs_ok (fs_write w path out)) eqn:Eok; cbn; intros H; [contradiction|].
        split; [reflexivity|]. right; right; left. exists out, files, warned, path, (fs_write w path out).
        repeat split; auto. apply fs_not_ok_inv; exact Eok.
      * intros H. destruct (closed_never_fails f c w out files warned Edev Eout Ecomp) as [E _]. contradiction.
  - assert (Hdev : is_dev (w_stdout w)) by (rewrite Edev; exact I).
    clear Edev.
    run_cases f c w; cbn; intros H; try contradiction.
    + split; [reflexivity|]. left; reflexivity.
    + split; [reflexivity|]. right; left. exists files. split; [reflexivity|]. split; [reflexivity|].
      intros Hm. eapply compute_fail_nonmulti; eauto.
    + split; [reflexivity|]. right; right; left. exists out, files, warned, path, (fs_write w path out).
      repeat split; auto. apply fs_not_ok_inv; exact Eok.
    + (* flush failed *)
      split; [reflexivity|]. right; right; right.
      destruct (so_write_all_spec _ _ _ _ _ Hdev Ewr) as (Hd1 & rest & Hdata & Ht & _).
      rewrite (Ht eq_refl), app_nil_r in Hdata.
      destruct (so_flush_spec _ _ _ Hd1 Efl) as (Hd2 & Hb2 & acc & rest2 & Ho2 & Hbuf & _ & Hf).
      exists out, files, warned, rest2. rewrite (so_at_exit_nobuf st2 Hb2), Ho2.
      repeat split; auto. rewrite Hdata, Hbuf, app_assoc. reflexivity.
    + (* write_all failed *)
      split; [reflexivity|]. right; right; right.
      destruct (so_write_all_spec _ _ _ _ _ Hdev Ewr) as (Hd1 & rest & Hdata & _ & Hf).
      destruct (Hf eq_refl) as [Hne Hb]. rewrite Hb in Hdata. cbn in Hdata.
      exists out, files, warned, rest. rewrite (so_at_exit_nobuf st1 Hb). repeat split; auto.
Qed.

(* ---- exit 0 means the complete output reached its sink (needs the flush) ---- *)

Definition delivered_r (c : config) (w : world) (r : result) : Prop :=
  exists out files warned, compute c w = CReady out files warned /\
    Forall (fun pe => fs_ok (snd pe) = true) (r_files r) /\
    match c_output c with
    | Some path => r_files r = files ++ [(path, FsWrote out true)] /\ r_stdout r = []
    | None => r_stdout r = out /\ r_files r = files
    end.
Definition delivered (f : bool) (c : config) (w : world) : Prop := delivered_r c w (run_gen f c w).

Lemma write_failure_is_exit1_gen : forall f c w, f = true ->
  is_dev (w_stdout w) -> r_exit (run_gen f c w) = 0 -> delivered f c w.
Proof.
  intros f c w Hf Hdev. unfold delivered, delivered_r.
  run_cases f c w; cbn; intros H; try discriminate.
  - exists out, files, warned. split; [reflexivity|]. apply fs_ok_inv in Eok. rewrite Eok.
    split; [|auto]. apply Forall_app. split; [eapply compute_ready_files_ok; eauto|]. constructor; [reflexivity|constructor].
  - exists out, files, warned. split; [reflexivity|]. split; [eapply compute_ready_files_ok; eauto|]. split; [|reflexivity].
    destruct (so_write_all_spec _ _ _ _ _ Hdev Ewr) as (Hd1 & rest & Hdata & Ht & _).
    rewrite (Ht eq_refl), app_nil_r in Hdata.
    destruct (so_flush_spec _ _ _ Hd1 Efl) as (Hd2 & Hb2 & acc & rest2 & Ho2 & Hbuf & Ht2 & _).
    rewrite (Ht2 eq_refl), app_nil_r in Hbuf.
    rewrite (so_at_exit_nobuf st2 Hb2), Ho2, Hdata, Hbuf. reflexivity.
Qed.

Theorem write_failure_is_exit1 : forall c w,
  is_dev (w_stdout w) -> r_exit (run_gen true c w) = 0 -> delivered true c w.
Proof. intros c w. apply write_failure_is_exit1_gen. reflexivity. Qed.

(* with a healthy sink every completed computation is delivered with exit 0 *)
Theorem healthy_run_succeeds : forall f c w out files warned,
  w_stdout w = SoDev None -> (forall p, c_output c = Some p -> w_target w p = TDev None) ->
  compute c w = CReady out files warned ->
  r_exit (run_gen f c w) = 0 /\ delivered f c w.
Proof.
  intros f c w out files warned Hso Htg Hcomp. unfold delivered, delivered_r. unfold run_gen, emit_gen. rewrite Hcomp.
  pose proof (compute_ready_files_ok _ _ _ _ _ Hcomp) as Hfok.
  destruct (c_output c) as [path|] eqn:Eout.
  - assert (Hw : fs_write w path out = FsWrote out true).
    { unfold fs_write. rewrite (Htg path eq_refl). unfold dev_write. destruct out; reflexivity. }
    rewrite Hw. cbn. split; [reflexivity|]. exists out, files, warned. split; [reflexivity|]. split; [|auto].
    apply Forall_app. split; [exact Hfok|]. constructor; [reflexivity|constructor].
  - rewrite Hso.
    assert (Hraw : forall st d, so_dev st = SoDev None ->
              so_raw_write st d = (true, {| so_out := so_out st ++ d; so_buf := so_buf st; so_dev := SoDev None |})).
    { intros st d Hd. unfold so_raw_write. rewrite Hd. unfold dev_write. destruct d; [rewrite app_nil_r|]; reflexivity. }
    assert (Hbw : forall st d, so_dev st = SoDev None -> so_buf st = [] ->
              exists st', so_buf_write (w_bufcap w) st d = (true, st') /\ so_dev st' = SoDev None /\
                          so_out st' ++ so_buf st' = so_out st ++ d).
    { intros st d Hd Hb. unfold so_buf_write. destruct (blen d <? w_bufcap w).
      - eexists; split; [reflexivity|]. cbn. rewrite Hb. auto.
      - rewrite (Hraw st d Hd). eexists; split; [reflexivity|]. cbn. rewrite Hb, app_nil_r. auto. }
    assert (Hwa : exists st1, so_write_all (w_bufcap w) {| so_out := []; so_buf := []; so_dev := SoDev None |} out = (true, st1) /\
                              so_dev st1 = SoDev None /\ so_out st1 ++ so_buf st1 = out).
    { unfold so_write_all. destruct (split_last_nl out) as [[lines tail]|] eqn:Es.
      - rewrite Hraw by reflexivity. cbn [so_out so_buf app].
        destruct (Hbw {| so_out := lines; so_buf := []; so_dev := SoDev None |} tail eq_refl eq_refl) as (st' & A & B & C).
        exists st'. rewrite A. cbn in C. apply split_last_nl_app in Es. subst out. auto.
      - destruct (Hbw {| so_out := []; so_buf := []; so_dev := SoDev None |} out eq_refl eq_refl) as (st' & A & B & C).
        exists st'. auto. }
    destruct Hwa as (st1 & Hw1 & Hd1 & Ho1). rewrite Hw1.
    assert (Hfl : forall st, so_dev st = SoDev None ->
              so_flush st = (true, {| so_out := so_out st ++ so_buf st; so_buf := []; so_dev := SoDev None |})).
    { intros st Hd. unfold so_flush. rewrite (Hraw st (so_buf st) Hd). reflexivity. }
    destruct f.
    + rewrite (Hfl st1 Hd1). cbn [r_exit r_stdout r_files]. split; [reflexivity|].
      exists out, files, warned. split; [reflexivity|]. split; [exact Hfok|].
      split; [|reflexivity]. rewrite so_at_exit_nobuf by reflexivity. cbn [so_out]. exact Ho1.
    + cbn [r_exit r_stdout r_files]. split; [reflexivity|].
      exists out, files, warned. split; [reflexivity|]. split; [exact Hfok|].
      split; [|reflexivity]. unfold so_at_exit. rewrite (Hfl st1 Hd1). cbn [snd so_out]. exact Ho1.
Qed.

(* ---- external code is loaded eagerly, evaluated only when the program asks ---- *)

Definition with_eval (e : session -> thunk -> option vid) (w : world) : world :=
  {| w_clap_ok := w_clap_ok w; w_colored := w_colored w; w_stdin := w_stdin w; w_env := w_env w;
     w_read := w_read w; w_load_virt := w_load_virt w; w_load_real := w_load_real w;
     w_eval := e; w_shape := w_shape w; w_call := w_call w; w_manifest := w_manifest w;
     w_target := w_target w; w_stdout := w_stdout w; w_bufcap := w_bufcap w |}.

Lemma manifest_items_with_eval : forall e w s items,
  manifest_items (with_eval e w) s items = manifest_items w s items.
Proof.
  intros e w s; induction items as [|v r IH]; [reflexivity|]. cbn [manifest_items]. rewrite IH. reflexivity.
Qed.

Lemma value_to_repr_with_eval : forall e c w s v,
  value_to_repr c (with_eval e w) s v = value_to_repr c w s v.
Proof.
  intros e c w s v. unfold value_to_repr. change (w_shape (with_eval e w)) with (w_shape w).
  change (w_manifest (with_eval e w)) with (w_manifest w).
  destruct (c_string c); [reflexivity|]. destruct (c_yaml c); [|reflexivity].
  destruct (w_shape w v); try reflexivity. rewrite manifest_items_with_eval. reflexivity.
Qed.

Lemma multi_loop_with_eval : forall e c w s dir fields pl files,
  multi_loop c (with_eval e w) s dir fields pl files = multi_loop c w s dir fields pl files.
Proof.
  intros e c w s dir; induction fields as [|[name v] r IH]; intros pl files; [reflexivity|].
  cbn [multi_loop]. rewrite value_to_repr_with_eval.
  destruct (value_to_repr c w s v); [|reflexivity].
  change (fs_write (with_eval e w)) with (fs_write w).
  destruct (fs_ok (fs_write w (path_join dir name) b)); [apply IH|reflexivity].
Qed.

(* the only thunk the glue ever evaluates is the root of the input *)
Theorem ext_code_lazy : forall f c w e,
  (forall s id, load_input c w = Some id -> e s (ThLoaded id) = w_eval w s (ThLoaded id)) ->
  run_gen f c (with_eval e w) = run_gen f c w.
Proof.
  intros f c w e H. unfold run_gen.
  assert (Hp : prepare c (with_eval e w) = prepare c w).
  { unfold prepare.
    change (w_clap_ok (with_eval e w)) with (w_clap_ok w).
    change (load_input c (with_eval e w)) with (load_input c w).
    change (all_ext c (with_eval e w)) with (all_ext c w).
    change (all_tla c (with_eval e w)) with (all_tla c w).
    destruct (negb (w_clap_ok w)); [reflexivity|]. destruct (c_string c && c_yaml c); [reflexivity|].
    destruct (load_input c w) as [root|] eqn:El; [|reflexivity].
    destruct (all_ext c w) as [ext|]; [|reflexivity]. destruct (all_tla c w) as [[tla wn]|]; [|reflexivity].
    change (mk_session c (with_eval e w) ext) with (mk_session c w ext).
    change (w_eval (with_eval e w)) with e. rewrite (H _ root eq_refl). reflexivity. }
  assert (Hc : compute c (with_eval e w) = compute c w).
  { unfold compute. rewrite Hp. destruct (prepare c w) as [| | |s v wn]; try reflexivity.
    change (w_shape (with_eval e w)) with (w_shape w).
    destruct (c_multi c); [|rewrite value_to_repr_with_eval; reflexivity].
    destruct (w_shape w v); try reflexivity. rewrite multi_loop_with_eval. reflexivity. }
  rewrite Hc. reflexivity.
Qed.

(* a variable whose source does not load ends the run with exit 1, used or not *)
Theorem ext_code_load_failure_is_exit1 : forall f c w a rest,
  w_clap_ok w = true -> (c_string c && c_yaml c) = false ->
  c_ext_str c = [] -> c_ext_str_file c = [] -> c_ext_code c = a :: rest ->
  ext_code_to_thunk w lit_ext a = None ->
  r_exit (run_gen f c w) = 1.
Proof.
  intros f c w a rest Hclap Hsy H1 H2 H3 Hload.
  assert (Hp : prepare c w = PFail).
  { unfold prepare. rewrite Hclap, Hsy. cbn [negb]. destruct (load_input c w); [|reflexivity].
    unfold all_ext. rewrite H1, H2, H3. cbn. rewrite Hload. reflexivity. }
  unfold run_gen, compute. rewrite Hp. reflexivity.
Qed.

(* ------------------------------------------------------------------ example worlds (for the
   non-vacuity Examples and the refutation witness of Props/C12.v) *)

Definition ex_code : bytes := [112].
Definition ex_cfg (S y ntn : bool) (m o : option bytes) : config :=
  {| c_input := ex_code; c_exec := true; c_jpath := []; c_output := o; c_multi := m; c_yaml := y;
     c_string := S; c_ntn := ntn; c_max_stack := None; c_max_trace := None;
     c_ext_str := []; c_ext_str_file := []; c_ext_code := []; c_ext_code_file := [];
     c_tla_str := []; c_tla_str_file := []; c_tla_code := []; c_tla_code_file := [] |}.
Definition ex_world (sh : list (vid * shape)) (man : list (vid * option bytes)) (so : stdout_dev) : world :=
  world_of_tables
    {| t_clap_ok := true; t_colored := false; t_stdin := None; t_env := []; t_read := [];
       t_load_virt := [((s_cmdline, ex_code), Some 1)]; t_load_real := [];
       t_eval := [(ThLoaded 1, Some 1)]; t_shape := sh; t_call := []; t_manifest := man;
       t_target := [([111], TDev None); ([100; 47; 97], TDev None); ([100; 47; 98], TDev None); ([102], TDev (Some 0))];
       t_stdout := so; t_bufcap := 1024 |}.
Definition ex_abc : bytes := [97; 98; 99].

(* ------------------------------------------------------------------ more exit-1 outcomes *)

(* an input that cannot be read or loaded: exit 1, nothing written anywhere *)
Theorem input_failure_is_exit1 : forall f c w,
  w_clap_ok w = true -> (c_string c && c_yaml c) = false -> load_input c w = None ->
  run_gen f c w = fail_result [].
Proof.
  intros f c w Hclap Hsy Hl. unfold run_gen, compute, prepare. rewrite Hclap, Hsy, Hl. reflexivity.
Qed.

Lemma stdin_failure_no_load : forall c w,
  c_exec c = false -> c_input c = s_minus -> w_stdin w = None -> load_input c w = None.
Proof. intros c w He Hi Hs. unfold load_input. rewrite He, Hi, Hs. reflexivity. Qed.

(* top-level arguments given twice, or given to a program that is not a function, never succeed *)
Theorem tla_misuse_never_succeeds : forall f c w tla warned,
  (forall v params, w_shape w v = ShFunc params -> NoDup (map fst params)) ->
  all_tla c w = Some (tla, warned) ->
  (~ NoDup (map fst tla) \/
   (tla <> [] /\ forall s id v, load_input c w = Some id -> w_eval w s (ThLoaded id) = Some v ->
                                forall params, w_shape w v <> ShFunc params)) ->
  r_exit (run_gen f c w) <> 0.
Proof.
  intros f c w tla warned Hfun Htla Hbad.
  assert (Hp : prepare c w = PUsage \/ prepare c w = PFail).
  { unfold prepare. destruct (negb (w_clap_ok w)); [left; reflexivity|].
    destruct (c_string c && c_yaml c); [left; reflexivity|]. right.
    destruct (load_input c w) as [root|] eqn:El; [|reflexivity].
    destruct (all_ext c w) as [ext|]; [|reflexivity]. rewrite Htla.
    destruct (w_eval w (mk_session c w ext) (ThLoaded root)) as [v0|] eqn:Ee; [|reflexivity].
    destruct (w_shape w v0) as [params| | | |] eqn:Es.
    - destruct Hbad as [Hdup|[_ Hnf]].
      + destruct (bind_tla params tla) as [bs| | |] eqn:Eb; try reflexivity.
        * exfalso. apply Hdup. destruct (bind_tla_sound params tla bs (Hfun _ _ Es) Eb) as (_ & Hnd & _). exact Hnd.
        * exfalso. pose proof (bind_tla_no_panic params tla) as Hn. rewrite Eb in Hn. exact Hn.
        * exfalso. pose proof (bind_tla_no_panic params tla) as Hn. rewrite Eb in Hn. exact Hn.
      + exfalso. apply (Hnf _ _ _ eq_refl Ee params). exact Es.
    - destruct tla; [|reflexivity]. exfalso. destruct Hbad as [Hdup|[Hne _]]; [apply Hdup; constructor|apply Hne; reflexivity].
    - destruct tla; [|reflexivity]. exfalso. destruct Hbad as [Hdup|[Hne _]]; [apply Hdup; constructor|apply Hne; reflexivity].
    - destruct tla; [|reflexivity]. exfalso. destruct Hbad as [Hdup|[Hne _]]; [apply Hdup; constructor|apply Hne; reflexivity].
    - destruct tla; [|reflexivity]. exfalso. destruct Hbad as [Hdup|[Hne _]]; [apply Hdup; constructor|apply Hne; reflexivity]. }
  unfold run_gen, compute. destruct Hp as [Hp|Hp]; rewrite Hp; cbn; discriminate.
Qed.

(* ------------------------------------------------------------------ what the session is told about external variables *)

Lemma ext_loop_spec : forall (A : Type) (name : A -> bytes) (mk : A -> option thunk) l names ext names' ext',
  ext_loop name mk l names ext = Some (names', ext') ->
  exists ts, Forall2 (fun a t => mk a = Some t) l ts /\
    ext' = ext ++ combine (map name l) ts /\
    names' = rev (map name l) ++ names /\
    (forall a, In a l -> ~ In (name a) names) /\ NoDup (map name l).
Proof.
  intros A name mk; induction l as [|a r IH]; intros names ext names' ext' H; cbn in H.
  - inversion H; subst. exists []. cbn. rewrite app_nil_r. repeat split; auto; constructor.
  - destruct (mem_bytes (name a) names) eqn:Em; [discriminate|].
    destruct (mk a) as [t|] eqn:Et; [|discriminate].
    destruct (IH _ _ _ _ H) as (ts & Hf2 & Hext & Hnames & Hfresh & Hnd).
    assert (Hna : ~ In (name a) names).
    { intros Hc. apply mem_bytes_In in Hc. congruence. }
    exists (t :: ts). split; [constructor; assumption|]. split; [|split; [|split]].
    + rewrite Hext. cbn. rewrite <- app_assoc. reflexivity.
    + rewrite Hnames. cbn. rewrite <- app_assoc. reflexivity.
    + intros b [E|Hb]; [subst b; exact Hna|]. intros Hc. apply (Hfresh b Hb). right; exact Hc.
    + cbn. constructor; [|exact Hnd]. intros Hc. apply in_map_iff in Hc. destruct Hc as (b & Eb & Hb).
      apply (Hfresh b Hb). left. symmetry; exact Eb.
Qed.

(* on success the session has been given, in this order, one binding per --ext-str,
   --ext-str-file, --ext-code, --ext-code-file argument, under the argument's own name,
   all names distinct; a string variable is bound to exactly the bytes supplied *)
Theorem ext_bindings_exact : forall c w ext,
  all_ext c w = Some ext ->
  exists t1 t2 t3 t4,
    Forall2 (fun a t => ext_str_to_thunk w a = Some t) (c_ext_str c) t1 /\
    Forall2 (fun a t => ext_str_file_to_thunk w a = Some t) (c_ext_str_file c) t2 /\
    Forall2 (fun a t => ext_code_to_thunk w lit_ext a = Some t) (c_ext_code c) t3 /\
    Forall2 (fun a t => ext_code_file_to_thunk w a = Some t) (c_ext_code_file c) t4 /\
    ext = combine (map vo_var (c_ext_str c)) t1 ++ combine (map vf_var (c_ext_str_file c)) t2 ++
          combine (map vo_var (c_ext_code c)) t3 ++ combine (map vf_var (c_ext_code_file c)) t4 /\
    NoDup (map vo_var (c_ext_str c) ++ map vf_var (c_ext_str_file c) ++
           map vo_var (c_ext_code c) ++ map vf_var (c_ext_code_file c)).
Proof.
  intros c w ext H. unfold all_ext in H.
  destruct (ext_loop vo_var (ext_str_to_thunk w) (c_ext_str c) [] []) as [[n1 e1]|] eqn:E1; [|discriminate].
  destruct (ext_loop vf_var (ext_str_file_to_thunk w) (c_ext_str_file c) n1 e1) as [[n2 e2]|] eqn:E2; [|discriminate].
  destruct (ext_loop vo_var (ext_code_to_thunk w lit_ext) (c_ext_code c) n2 e2) as [[n3 e3]|] eqn:E3; [|discriminate].
  destruct (ext_loop vf_var (ext_code_file_to_thunk w) (c_ext_code_file c) n3 e3) as [[n4 e4]|] eqn:E4; [|discriminate].
  inversion H; subst e4. clear H.
  destruct (ext_loop_spec _ _ _ _ _ _ _ _ E1) as (t1 & F1 & X1 & N1 & R1 & D1).
  destruct (ext_loop_spec _ _ _ _ _ _ _ _ E2) as (t2 & F2 & X2 & N2 & R2 & D2).
  destruct (ext_loop_spec _ _ _ _ _ _ _ _ E3) as (t3 & F3 & X3 & N3 & R3 & D3).
  destruct (ext_loop_spec _ _ _ _ _ _ _ _ E4) as (t4 & F4 & X4 & N4 & R4 & D4).
  exists t1, t2, t3, t4. repeat (split; [assumption|]). split.
  - rewrite X4, X3, X2, X1. cbn. rewrite <- !app_assoc. reflexivity.
  - rewrite app_nil_r in N1. subst n1 n2 n3.
    assert (Hdisj : forall (l1 l2 : list bytes), NoDup l1 -> NoDup l2 -> (forall x, In x l2 -> ~ In x l1) -> NoDup (l1 ++ l2)).
    { induction l1 as [|x r IHl]; intros l2 Hn1 Hn2 Hd; cbn; [exact Hn2|].
      inversion Hn1; subst. constructor.
      - intros Hc. apply in_app_or in Hc. destruct Hc as [Hc|Hc]; [contradiction|]. apply (Hd x Hc). left; reflexivity.
      - apply IHl; auto. intros y Hy Hc. apply (Hd y Hy). right; exact Hc. }
    apply Hdisj; [exact D1| |].
    + apply Hdisj; [exact D2| |].
      * apply Hdisj; [exact D3|exact D4|].
        intros x Hx Hc. apply in_map_iff in Hx. destruct Hx as (a & Ea & Ha). subst x.
        apply (R4 a Ha). apply in_or_app. left. apply in_rev in Hc. exact Hc.
      * intros x Hx Hc. apply in_app_or in Hx. destruct Hx as [Hx|Hx]; apply in_map_iff in Hx; destruct Hx as (a & Ea & Ha); subst x.
        -- apply (R3 a Ha). apply in_or_app. left. apply in_rev in Hc. exact Hc.
        -- apply (R4 a Ha). apply in_or_app. right. apply in_or_app. left. apply in_rev in Hc. exact Hc.
    + intros x Hx Hc. apply in_app_or in Hx. destruct Hx as [Hx|Hx].
      * apply in_map_iff in Hx; destruct Hx as (a & Ea & Ha); subst x.
        apply (R2 a Ha). apply in_rev in Hc. exact Hc.
      * apply in_app_or in Hx. destruct Hx as [Hx|Hx]; apply in_map_iff in Hx; destruct Hx as (a & Ea & Ha); subst x.
        -- apply (R3 a Ha). apply in_or_app. right. apply in_rev in Hc. exact Hc.
        -- apply (R4 a Ha). apply in_or_app. right. apply in_or_app. right. apply in_rev in Hc. exact Hc.
Qed.

Lemma ext_str_exact : forall w k v, ~ In EQ k ->
  ext_str_to_thunk w (parse_var_opt_val (k ++ EQ :: v)) = Some (ThStr v).
Proof.
  intros w k v Hn. destruct (var_split_at_first_eq k v Hn) as [Hp _]. rewrite Hp. reflexivity.
Qed.

(* the session the oracles see is the one configured from the flags *)
Lemma prepare_session : forall c w s v warned, prepare c w = POk s v warned ->
  exists ext, all_ext c w = Some ext /\ s = mk_session c w ext.
Proof.
  intros c w s v warned H. unfold prepare in H.
  destruct (negb (w_clap_ok w)); [discriminate|]. destruct (c_string c && c_yaml c); [discriminate|].
  destruct (load_input c w); [|discriminate]. destruct (all_ext c w) as [ext|]; [|discriminate].
  exists ext. split; [reflexivity|].
  destruct (all_tla c w) as [[tla wn]|]; [|discriminate].
  destruct (w_eval w (mk_session c w ext) (ThLoaded n)); [|discriminate].
  destruct (w_shape w v0).
  - destruct (bind_tla params tla); try discriminate. destruct (w_call w (mk_session c w ext) v0 a); [|discriminate]. inversion H; reflexivity.
  - destruct tla; [inversion H; reflexivity|discriminate].
  - destruct tla; [inversion H; reflexivity|discriminate].
  - destruct tla; [inversion H; reflexivity|discriminate].
  - destruct tla; [inversion H; reflexivity|discriminate].
Qed.
