(* Proofs/StrFns_proofs.v — lemmas about Model/StrFns.v *)
From RJ Require Import Base.Outcome Base.F64 Model.StrFns.
From Coq Require Import Lia.
Local Open Scope N_scope.

Lemma length_counts_cps : forall s, std_length (VStr s) = Ok (VNum (f_of_N (N.of_nat (length s)))).
Proof. reflexivity. Qed.
