(* Proofs/StrFns_proofs.v — lemmas about Model/StrFns.v (property C18). *)
From RJ Require Import Base.Outcome Base.F64 Model.StrFns.
From Coq Require Import Lia List Floats.SpecFloat.
Import ListNotations.

Arguments N.add : simpl never.
Arguments N.sub : simpl never.
Arguments N.mul : simpl never.
Arguments N.min : simpl never.
Arguments N.max : simpl never.
Arguments N.of_nat : simpl never.

(* ------------------------------------------------------------------ *)
(* prefixes and matches                                                 *)

Lemma is_prefix_app p r : is_prefix p (p ++ r) = true.
Proof. induction p as [|a p IH]; simpl; auto. rewrite N.eqb_refl. exact IH. Qed.

Lemma is_prefix_true p s : is_prefix p s = true -> s = p ++ skipn (length p) s.
Proof.
  revert s; induction p as [|a p IH]; intros [|b s] H; simpl in *; auto; try discriminate.
  apply andb_true_iff in H as [H1 H2]. apply N.eqb_eq in H1. subst. f_equal. auto.
Qed.

Lemma is_prefix_iff p s : is_prefix p s = true <-> exists r, s = p ++ r.
Proof.
  split.
  - intros H. eexists. apply is_prefix_true. exact H.
  - intros [r ->]. apply is_prefix_app.
Qed.

Lemma is_prefix_nil_r p : p <> [] -> is_prefix p [] = false.
Proof. destruct p; [congruence|reflexivity]. Qed.

(* p occurs in s at character index i *)
Definition occurs_at (p s : str) (i : nat) : bool := is_prefix p (skipn i s).

Lemma occurs_at_iff p s i : p <> [] ->
  occurs_at p s i = true <-> exists b a, s = b ++ p ++ a /\ length b = i.
Proof.
  intros Hp. unfold occurs_at. split.
  - intros H. apply is_prefix_iff in H as [r Hr].
    exists (firstn i s), r. split.
    + rewrite <- Hr. symmetry. apply firstn_skipn.
    + apply firstn_length_le.
      destruct (Nat.le_gt_cases i (length s)) as [Hle|Hgt]; auto.
      rewrite skipn_all2 in Hr by lia. destruct p; [congruence|discriminate].
  - intros (b & a & -> & <-).
    rewrite skipn_app, skipn_all, Nat.sub_diag. simpl. apply is_prefix_app.
Qed.

(* ------------------------------------------------------------------ *)
(* str::find and the first / last match                                *)

Lemma str_find_none p s : str_find p s = None -> forall i, occurs_at p s i = false.
Proof.
  unfold occurs_at. induction s as [|c r IH]; simpl; intros H i.
  - destruct (is_prefix p []) eqn:E; [discriminate|]. rewrite skipn_nil. exact E.
  - destruct (is_prefix p (c :: r)) eqn:E; [discriminate|].
    destruct (str_find p r) eqn:E2; [discriminate|].
    destruct i as [|j]; simpl; auto.
Qed.

Lemma str_find_none_intro p s :
  (forall i, (i <= length s)%nat -> occurs_at p s i = false) -> str_find p s = None.
Proof.
  unfold occurs_at. induction s as [|c r IH]; simpl; intros H.
  - specialize (H O (Nat.le_refl _)). simpl in H. rewrite H. reflexivity.
  - pose proof (H O (Nat.le_0_l _)) as H0. simpl in H0. rewrite H0.
    rewrite IH; auto. intros i Hi. apply (H (S i)). lia.
Qed.

Lemma str_find_some p s i : str_find p s = Some i ->
  occurs_at p s i = true /\ forall j, (j < i)%nat -> occurs_at p s j = false.
Proof.
  unfold occurs_at. revert i. induction s as [|c r IH]; simpl; intros i H.
  - destruct (is_prefix p []) eqn:E; [|discriminate]. inversion H; subst. simpl. split; auto. intros; lia.
  - destruct (is_prefix p (c :: r)) eqn:E.
    + inversion H; subst. simpl. split; auto. intros; lia.
    + destruct (str_find p r) as [k|] eqn:E2; [|discriminate]. inversion H; subst.
      destruct (IH k eq_refl) as [I1 I2]. split; simpl; auto.
      intros [|j] Hj; simpl; auto. apply I2. lia.
Qed.

Lemma split_first_none_iff p s : split_first p s = None <-> str_find p s = None.
Proof.
  induction s as [|c r IH]; simpl.
  - destruct (is_prefix p []); split; congruence.
  - destruct (is_prefix p (c :: r)); [split; congruence|].
    destruct (split_first p r) as [[b a]|], (str_find p r); split; try congruence.
    + intros _. destruct IH as [_ IH]. specialize (IH eq_refl). discriminate.
    + intros _. destruct IH as [IH _]. specialize (IH eq_refl). discriminate.
Qed.

Lemma split_first_sound p s b a : split_first p s = Some (b, a) -> s = b ++ p ++ a.
Proof.
  revert b a; induction s as [|c r IH]; intros b a H; simpl in H.
  - destruct (is_prefix p []) eqn:E; [|discriminate]. inversion H; subst.
    apply is_prefix_true in E. exact E.
  - destruct (is_prefix p (c :: r)) eqn:E.
    + inversion H; subst. apply is_prefix_true in E. exact E.
    + destruct (split_first p r) as [[b' a']|] eqn:E2; [|discriminate]. inversion H; subst.
      simpl. f_equal. apply IH. reflexivity.
Qed.

Lemma split_first_minimal p s b a : split_first p s = Some (b, a) ->
  forall i, (i < length b)%nat -> occurs_at p s i = false.
Proof.
  unfold occurs_at. revert b a; induction s as [|c r IH]; intros b a H i Hi; simpl in H.
  - destruct (is_prefix p []); [|discriminate]. inversion H; subst. simpl in Hi. lia.
  - destruct (is_prefix p (c :: r)) eqn:E.
    + inversion H; subst. simpl in Hi. lia.
    + destruct (split_first p r) as [[b' a']|] eqn:E2; [|discriminate]. inversion H; subst.
      destruct i as [|j]; simpl; auto. eapply IH; eauto. simpl in Hi. lia.
Qed.

(* the first match is THE decomposition with the shortest "before" *)
Lemma split_first_spec p s b a : p <> [] -> split_first p s = Some (b, a) ->
  s = b ++ p ++ a /\ forall b' a', s = b' ++ p ++ a' -> (length b <= length b')%nat.
Proof.
  intros Hp H. split; [apply split_first_sound; exact H|].
  intros b' a' Hs.
  destruct (Nat.le_gt_cases (length b) (length b')) as [|Hlt]; auto.
  pose proof (split_first_minimal _ _ _ _ H _ Hlt) as Hno.
  assert (occurs_at p s (length b') = true) as Hyes
    by (apply occurs_at_iff; auto; exists b', a'; auto).
  congruence.
Qed.

Lemma split_first_complete p s b' a' : s = b' ++ p ++ a' -> exists b a, split_first p s = Some (b, a).
Proof.
  intros Hs. destruct (split_first p s) as [[b a]|] eqn:E; eauto.
  apply split_first_none_iff in E. pose proof (str_find_none _ _ E (length b')) as H.
  unfold occurs_at in H. subst s. rewrite skipn_app, skipn_all, Nat.sub_diag in H. simpl in H.
  rewrite is_prefix_app in H. discriminate.
Qed.

Lemma split_first_shorter p s b a : p <> [] -> split_first p s = Some (b, a) ->
  (length a < length s)%nat.
Proof.
  intros Hp H. apply split_first_sound in H. subst s. rewrite !app_length.
  destruct p; [congruence|simpl; lia].
Qed.

(* no match lies inside the text before the first match *)
Lemma split_first_before_clean p s b a : p <> [] -> split_first p s = Some (b, a) ->
  str_find p b = None.
Proof.
  intros Hp H. apply str_find_none_intro. intros i Hi.
  destruct (occurs_at p b i) eqn:E; auto. exfalso.
  apply occurs_at_iff in E as (x & y & Hb & Hx); auto.
  pose proof (split_first_sound _ _ _ _ H) as Hs.
  assert (occurs_at p s i = true) as Hyes.
  { apply occurs_at_iff; auto. exists x, (y ++ p ++ a). split; auto.
    rewrite Hs, Hb, <- !app_assoc. reflexivity. }
  assert (i < length b)%nat as Hlt.
  { rewrite Hb, !app_length. destruct p; [congruence|simpl; lia]. }
  rewrite (split_first_minimal _ _ _ _ H _ Hlt) in Hyes. discriminate.
Qed.

(* ---- last match ---- *)

Lemma rsplit_first_sound p s b a : rsplit_first p s = Some (b, a) -> s = b ++ p ++ a.
Proof.
  revert b a; induction s as [|c r IH]; intros b a H; simpl in H.
  - destruct (is_prefix p []) eqn:E; [|discriminate]. inversion H; subst.
    apply is_prefix_true in E. simpl in *. rewrite skipn_nil in E. exact E.
  - destruct (rsplit_first p r) as [[b' a']|] eqn:E2.
    + inversion H; subst. simpl. f_equal. apply IH. reflexivity.
    + destruct (is_prefix p (c :: r)) eqn:E; [|discriminate]. inversion H; subst.
      apply is_prefix_true in E. exact E.
Qed.

Lemma rsplit_first_none p s : rsplit_first p s = None -> forall i, occurs_at p s i = false.
Proof.
  unfold occurs_at. induction s as [|c r IH]; simpl; intros H i.
  - destruct (is_prefix p []) eqn:E; [discriminate|]. rewrite skipn_nil. exact E.
  - destruct (rsplit_first p r) as [[b a]|] eqn:E2; [discriminate|].
    destruct (is_prefix p (c :: r)) eqn:E; [discriminate|].
    destruct i as [|j]; simpl; auto.
Qed.

Lemma rsplit_first_maximal p s b a : p <> [] -> rsplit_first p s = Some (b, a) ->
  forall i, (length b < i)%nat -> occurs_at p s i = false.
Proof.
  intros Hp. unfold occurs_at. revert b a; induction s as [|c r IH]; intros b a H i Hi; simpl in H.
  - rewrite skipn_nil. apply is_prefix_nil_r. exact Hp.
  - destruct (rsplit_first p r) as [[b' a']|] eqn:E2.
    + inversion H; subst. destruct i as [|j]; [lia|]. simpl. eapply IH; eauto. simpl in Hi. lia.
    + destruct (is_prefix p (c :: r)) eqn:E; [|discriminate]. inversion H; subst.
      destruct i as [|j]; [simpl in Hi; lia|]. simpl.
      apply (rsplit_first_none _ _ E2 j).
Qed.

(* the last match is THE decomposition with the longest "before" *)
Lemma rsplit_first_spec p s b a : p <> [] -> rsplit_first p s = Some (b, a) ->
  s = b ++ p ++ a /\ forall b' a', s = b' ++ p ++ a' -> (length b' <= length b)%nat.
Proof.
  intros Hp H. split; [apply rsplit_first_sound; exact H|].
  intros b' a' Hs.
  destruct (Nat.le_gt_cases (length b') (length b)) as [|Hlt]; auto.
  pose proof (rsplit_first_maximal _ _ _ _ Hp H _ Hlt) as Hno.
  assert (occurs_at p s (length b') = true) as Hyes
    by (apply occurs_at_iff; auto; exists b', a'; auto).
  congruence.
Qed.

Lemma rsplit_first_shorter p s b a : p <> [] -> rsplit_first p s = Some (b, a) ->
  (length b < length s)%nat.
Proof.
  intros Hp H. apply rsplit_first_sound in H. subst s. rewrite !app_length.
  destruct p; [congruence|simpl; lia].
Qed.

(* no match lies inside the text after the last match *)
Lemma rsplit_first_after_clean p s b a : p <> [] -> rsplit_first p s = Some (b, a) ->
  str_find p a = None.
Proof.
  intros Hp H. apply str_find_none_intro. intros i Hi.
  destruct (occurs_at p a i) eqn:E; auto. exfalso.
  apply occurs_at_iff in E as (x & y & Ha & Hx); auto.
  pose proof (rsplit_first_sound _ _ _ _ H) as Hs.
  assert (occurs_at p s (length b + length p + i) = true) as Hyes.
  { apply occurs_at_iff; auto. exists (b ++ p ++ x), y. split.
    - rewrite Hs, Ha, <- !app_assoc. reflexivity.
    - rewrite !app_length. lia. }
  rewrite (rsplit_first_maximal _ _ _ _ Hp H) in Hyes; [discriminate|].
  destruct p; [congruence|simpl; lia].
Qed.

Lemma rsplit_first_none_find p s : rsplit_first p s = None -> str_find p s = None.
Proof. intros H. apply str_find_none_intro. intros i _. apply rsplit_first_none. exact H. Qed.

(* ------------------------------------------------------------------ *)
(* join                                                                *)

Lemma join_cons sep a r : r <> [] -> join sep (a :: r) = a ++ sep ++ join sep r.
Proof. destruct r; [congruence|reflexivity]. Qed.

Lemma join_single sep a : join sep [a] = a.
Proof. reflexivity. Qed.

(* ------------------------------------------------------------------ *)
(* str::split as a derivation, independent of fuel                     *)

Inductive Split (p : str) : str -> list str -> Prop :=
| Split_last s : split_first p s = None -> Split p s [s]
| Split_cons s b a l : split_first p s = Some (b, a) -> Split p a l -> Split p s (b :: l).

Lemma split_fuel_Split p fuel s l : split_fuel fuel p s = Ok l -> Split p s l.
Proof.
  revert s l; induction fuel as [|f IH]; intros s l H; simpl in H; [discriminate|].
  destruct (split_first p s) as [[b a]|] eqn:E.
  - destruct (split_fuel f p a) as [rest| | |] eqn:R; simpl in H; try discriminate.
    inversion H; subst. eapply Split_cons; eauto.
  - inversion H; subst. apply Split_last. exact E.
Qed.

Lemma Split_split_fuel p : p <> [] -> forall s l, Split p s l ->
  forall fuel, (length s < fuel)%nat -> split_fuel fuel p s = Ok l.
Proof.
  intros Hp s l HS. induction HS as [s E|s b a l E HS IH]; intros fuel Hf;
    (destruct fuel as [|f]; [lia|]); simpl; rewrite E; auto.
  rewrite IH; auto. pose proof (split_first_shorter _ _ _ _ Hp E). lia.
Qed.

Lemma Split_exists p : p <> [] -> forall s, exists l, Split p s l.
Proof.
  intros Hp s. remember (length s) as n eqn:Hn. revert s Hn.
  induction n as [n IH] using lt_wf_ind. intros s Hn.
  destruct (split_first p s) as [[b a]|] eqn:E.
  - pose proof (split_first_shorter _ _ _ _ Hp E) as Hlt.
    destruct (IH (length a) ltac:(lia) a eq_refl) as [l Hl].
    exists (b :: l). eapply Split_cons; eauto.
  - exists [s]. apply Split_last. exact E.
Qed.

Lemma Split_det p s l1 l2 : Split p s l1 -> Split p s l2 -> l1 = l2.
Proof.
  intros H1. revert l2. induction H1 as [s E|s b a l E H1 IH]; intros l2 H2; inversion H2; subst; try congruence.
  rewrite E in H. inversion H; subst. f_equal. auto.
Qed.

Lemma Split_nonempty p s l : Split p s l -> l <> [].
Proof. intros H; inversion H; congruence. Qed.

Lemma Split_join p s l : Split p s l -> join p l = s.
Proof.
  induction 1 as [s E|s b a l E HS IH]; [reflexivity|].
  rewrite join_cons by (eapply Split_nonempty; eauto).
  rewrite IH. symmetry. apply split_first_sound. exact E.
Qed.

Lemma Split_clean p s l : p <> [] -> Split p s l -> Forall (fun piece => str_find p piece = None) l.
Proof.
  intros Hp. induction 1 as [s E|s b a l E HS IH].
  - constructor; [|constructor]. apply split_first_none_iff. exact E.
  - constructor; auto. eapply split_first_before_clean; eauto.
Qed.

Lemma split_total s p : p <> [] -> exists l, StrFns.split s p = Ok l /\ Split p s l.
Proof.
  intros Hp. destruct (Split_exists p Hp s) as [l Hl]. exists l. split; auto.
  unfold StrFns.split. apply Split_split_fuel; auto.
Qed.

Lemma join_split s p l : p <> [] -> StrFns.split s p = Ok l -> join p l = s.
Proof. intros _ H. apply Split_join. eapply split_fuel_Split. exact H. Qed.

Lemma split_no_sep_inside s p l : p <> [] -> StrFns.split s p = Ok l ->
  Forall (fun piece => forall i, occurs_at p piece i = false) l.
Proof.
  intros Hp H. apply split_fuel_Split in H. apply (Split_clean _ _ _ Hp) in H.
  eapply Forall_impl; [|exact H]. intros piece Hn. apply str_find_none. exact Hn.
Qed.

(* ------------------------------------------------------------------ *)
(* splitn = the first n pieces of split, the rest re-joined            *)

Lemma splitn_fuel_S f n p s : splitn_fuel (S f) n p s =
  if (n =? 0)%N then Ok [] else if (n =? 1)%N then Ok [s]
  else match split_first p s with
       | None => Ok [s]
       | Some (b, a) => obind (splitn_fuel f (n - 1) p a) (fun rest => Ok (b :: rest))
       end.
Proof. reflexivity. Qed.

Lemma rsplitn_fuel_S f n p s : rsplitn_fuel (S f) n p s =
  if (n =? 0)%N then Ok [] else if (n =? 1)%N then Ok [s]
  else match rsplit_first p s with
       | None => Ok [s]
       | Some (b, a) => obind (rsplitn_fuel f (n - 1) p b) (fun rest => Ok (a :: rest))
       end.
Proof. reflexivity. Qed.

Lemma N_of_nat_S_neq0 k : (N.of_nat (S k) =? 0)%N = false.
Proof. apply N.eqb_neq. lia. Qed.

Lemma splitn_Split p : p <> [] -> forall s ps, Split p s ps ->
  forall k fuel, (length s < fuel)%nat ->
  splitn_fuel fuel (N.of_nat (S k)) p s =
    Ok (if (length ps <=? S k)%nat then ps else firstn k ps ++ [join p (skipn k ps)]).
Proof.
  intros Hp s ps HS. induction HS as [s E|s b a l E HS IH]; intros k fuel Hf;
    (destruct fuel as [|f]; [lia|]); rewrite splitn_fuel_S, N_of_nat_S_neq0.
  - destruct (N.of_nat (S k) =? 1)%N; [reflexivity|]. rewrite E. reflexivity.
  - pose proof (Split_nonempty _ _ _ HS) as Hne.
    assert (length l <> 0)%nat as Hl by (destruct l; [congruence|simpl; lia]).
    destruct k as [|k'].
    + replace (N.of_nat 1 =? 1)%N with true by reflexivity.
      replace (length (b :: l) <=? 1)%nat with false by (symmetry; apply Nat.leb_gt; simpl; lia).
      simpl. f_equal. f_equal. symmetry. apply (Split_join p s (b :: l)). eapply Split_cons; eauto.
    + replace (N.of_nat (S (S k')) =? 1)%N with false by (symmetry; apply N.eqb_neq; lia).
      rewrite E. replace (N.of_nat (S (S k')) - 1)%N with (N.of_nat (S k')) by lia.
      rewrite IH by (pose proof (split_first_shorter _ _ _ _ Hp E); lia).
      simpl obind. f_equal.
      change (length (b :: l) <=? S (S k'))%nat with (length l <=? S k')%nat.
      destruct (length l <=? S k')%nat; reflexivity.
Qed.

(* ---- and from the right ---- *)

Inductive RSplit (p : str) : str -> list str -> Prop :=      (* pieces listed right to left *)
| RSplit_last s : rsplit_first p s = None -> RSplit p s [s]
| RSplit_cons s b a l : rsplit_first p s = Some (b, a) -> RSplit p b l -> RSplit p s (a :: l).

Lemma RSplit_exists p : p <> [] -> forall s, exists l, RSplit p s l.
Proof.
  intros Hp s. remember (length s) as n eqn:Hn. revert s Hn.
  induction n as [n IH] using lt_wf_ind. intros s Hn.
  destruct (rsplit_first p s) as [[b a]|] eqn:E.
  - pose proof (rsplit_first_shorter _ _ _ _ Hp E) as Hlt.
    destruct (IH (length b) ltac:(lia) b eq_refl) as [l Hl].
    exists (a :: l). eapply RSplit_cons; eauto.
  - exists [s]. apply RSplit_last. exact E.
Qed.

Lemma RSplit_det p s l1 l2 : RSplit p s l1 -> RSplit p s l2 -> l1 = l2.
Proof.
  intros H1. revert l2. induction H1 as [s E|s b a l E H1 IH]; intros l2 H2; inversion H2; subst; try congruence.
  rewrite E in H. inversion H; subst. f_equal. auto.
Qed.

Lemma RSplit_nonempty p s l : RSplit p s l -> l <> [].
Proof. intros H; inversion H; congruence. Qed.

Lemma join_snoc sep l a : l <> [] -> join sep (l ++ [a]) = join sep l ++ sep ++ a.
Proof.
  induction l as [|x l IH]; [congruence|]. intros _.
  destruct l as [|y l].
  - reflexivity.
  - change ((x :: y :: l) ++ [a]) with (x :: (y :: l) ++ [a]).
    rewrite join_cons by (destruct l; discriminate).
    rewrite IH by discriminate. rewrite (join_cons sep x (y :: l)) by discriminate.
    rewrite <- !app_assoc. reflexivity.
Qed.

Lemma RSplit_join p s l : RSplit p s l -> join p (rev l) = s.
Proof.
  induction 1 as [s E|s b a l E HS IH]; [reflexivity|].
  simpl rev. rewrite join_snoc.
  - rewrite IH. symmetry. apply rsplit_first_sound. exact E.
  - intros Hr. apply (RSplit_nonempty _ _ _ HS). destruct l; [reflexivity|].
    simpl in Hr. destruct (rev l); discriminate.
Qed.

Lemma RSplit_clean p s l : p <> [] -> RSplit p s l -> Forall (fun piece => str_find p piece = None) l.
Proof.
  intros Hp. induction 1 as [s E|s b a l E HS IH].
  - constructor; [|constructor]. apply rsplit_first_none_find. exact E.
  - constructor; auto. eapply rsplit_first_after_clean; eauto.
Qed.

Lemma rsplitn_RSplit p : p <> [] -> forall s qs, RSplit p s qs ->
  forall k fuel, (length s < fuel)%nat ->
  rsplitn_fuel fuel (N.of_nat (S k)) p s =
    Ok (if (length qs <=? S k)%nat then qs else firstn k qs ++ [join p (rev (skipn k qs))]).
Proof.
  intros Hp s qs HS. induction HS as [s E|s b a l E HS IH]; intros k fuel Hf;
    (destruct fuel as [|f]; [lia|]); rewrite rsplitn_fuel_S, N_of_nat_S_neq0.
  - destruct (N.of_nat (S k) =? 1)%N; [reflexivity|]. rewrite E. reflexivity.
  - pose proof (RSplit_nonempty _ _ _ HS) as Hne.
    assert (length l <> 0)%nat as Hl by (destruct l; [congruence|simpl; lia]).
    destruct k as [|k'].
    + replace (N.of_nat 1 =? 1)%N with true by reflexivity.
      replace (length (a :: l) <=? 1)%nat with false by (symmetry; apply Nat.leb_gt; simpl; lia).
      simpl firstn. simpl skipn. simpl app. f_equal. f_equal. symmetry.
      apply (RSplit_join p s (a :: l)). eapply RSplit_cons; eauto.
    + replace (N.of_nat (S (S k')) =? 1)%N with false by (symmetry; apply N.eqb_neq; lia).
      rewrite E. replace (N.of_nat (S (S k')) - 1)%N with (N.of_nat (S k')) by lia.
      rewrite IH by (pose proof (rsplit_first_shorter _ _ _ _ Hp E); lia).
      simpl obind. f_equal.
      change (length (a :: l) <=? S (S k'))%nat with (length l <=? S k')%nat.
      destruct (length l <=? S k')%nat; reflexivity.
Qed.

(* ------------------------------------------------------------------ *)
(* splitLimit / splitLimitR at the code-point level                    *)

(* all pieces from the right, listed left to right *)
Definition rsplit_all_spec (p s : str) (qs : list str) : Prop := RSplit p s (rev qs).

Lemma splitLimit_first_n s p ps k : p <> [] -> StrFns.split s p = Ok ps ->
  split_limit_cps s p (Some (N.of_nat (S k))) =
    Ok (if (length ps <=? S k)%nat then ps else firstn k ps ++ [join p (skipn k ps)]).
Proof.
  intros Hp H. apply split_fuel_Split in H. unfold split_limit_cps, splitn.
  apply splitn_Split; auto.
Qed.

Lemma splitLimitR_last_n s p rs k : p <> [] -> RSplit p s rs ->
  split_limit_r_cps s p (Some (N.of_nat (S k))) =
    Ok (rev (if (length rs <=? S k)%nat then rs else firstn k rs ++ [join p (rev (skipn k rs))])).
Proof.
  intros Hp H. unfold split_limit_r_cps, rsplitn.
  rewrite (rsplitn_RSplit p Hp s rs H k) by lia. reflexivity.
Qed.

(* whatever the limit (>= 1 piece), joining the pieces gives the string back *)
Lemma join_app sep l1 l2 : l1 <> [] -> l2 <> [] ->
  join sep (l1 ++ l2) = join sep l1 ++ sep ++ join sep l2.
Proof.
  intros H1 H2. induction l1 as [|x l1 IH]; [congruence|].
  destruct l1 as [|y l1].
  - simpl app. rewrite join_cons by exact H2. reflexivity.
  - change ((x :: y :: l1) ++ l2) with (x :: (y :: l1) ++ l2).
    rewrite join_cons by discriminate. rewrite IH by discriminate.
    rewrite (join_cons sep x (y :: l1)) by discriminate. rewrite <- !app_assoc. reflexivity.
Qed.

Lemma join_firstn_rest sep ps k : (k < length ps)%nat ->
  join sep (firstn k ps ++ [join sep (skipn k ps)]) = join sep ps.
Proof.
  intros Hk. destruct k as [|k]; [reflexivity|].
  assert (firstn (S k) ps <> []) as H1 by (destruct ps; simpl in *; [lia|discriminate]).
  assert (skipn (S k) ps <> []) as H2.
  { intros E. pose proof (skipn_length (S k) ps) as L. rewrite E in L. simpl in L. lia. }
  rewrite join_app by (auto; discriminate). simpl (join sep [_]).
  rewrite <- join_app by auto. rewrite firstn_skipn. reflexivity.
Qed.

Lemma N_as_succ n : (1 <= n)%N -> n = N.of_nat (S (N.to_nat (n - 1))).
Proof. lia. Qed.

Lemma splitLimit_join s p n l : p <> [] -> (1 <= n)%N ->
  split_limit_cps s p (Some n) = Ok l -> join p l = s.
Proof.
  intros Hp Hn H. destruct (split_total s p Hp) as (ps & Hps & HS).
  rewrite (N_as_succ n Hn) in H. rewrite (splitLimit_first_n s p ps _ Hp Hps) in H.
  inversion H; subst. clear H.
  destruct (length ps <=? S (N.to_nat (n - 1)))%nat eqn:E.
  - apply Split_join. exact HS.
  - apply Nat.leb_gt in E. rewrite join_firstn_rest by lia. apply Split_join. exact HS.
Qed.

Lemma splitLimitR_join s p n l : p <> [] -> (1 <= n)%N ->
  split_limit_r_cps s p (Some n) = Ok l -> join p l = s.
Proof.
  intros Hp Hn H. destruct (RSplit_exists p Hp s) as (rs & HS).
  rewrite (N_as_succ n Hn) in H. rewrite (splitLimitR_last_n s p rs _ Hp HS) in H.
  inversion H; subst. clear H.
  destruct (length rs <=? S (N.to_nat (n - 1)))%nat eqn:E.
  - apply RSplit_join. exact HS.
  - apply Nat.leb_gt in E. set (k := N.to_nat (n - 1)) in *.
    rewrite rev_app_distr. simpl rev. simpl app.
    destruct k as [|k].
    + simpl. apply RSplit_join. exact HS.
    + assert (rev (firstn (S k) rs) <> []) as H1.
      { destruct rs; simpl in *; [lia|]. intros E2. apply app_eq_nil in E2 as [_ E2]. discriminate. }
      assert (rev (skipn (S k) rs) <> []) as H2.
      { intros E2. apply (f_equal (@length _)) in E2. rewrite rev_length, skipn_length in E2. simpl in E2. lia. }
      change (join p (rev (skipn (S k) rs)) :: rev (firstn (S k) rs))
        with ([join p (rev (skipn (S k) rs))] ++ rev (firstn (S k) rs)).
      rewrite join_app by (auto; discriminate). simpl (join p [_]).
      rewrite <- join_app by auto. rewrite <- rev_app_distr, firstn_skipn.
      apply RSplit_join. exact HS.
Qed.

(* ------------------------------------------------------------------ *)
(* strReplace = join to (split from)                                   *)

Lemma replace_Split from to : from <> [] -> forall s l, Split from s l ->
  forall fuel, (length s < fuel)%nat -> replace_fuel fuel from to s = Ok (join to l).
Proof.
  intros Hp s l HS. induction HS as [s E|s b a l E HS IH]; intros fuel Hf;
    (destruct fuel as [|f]; [lia|]); cbn [replace_fuel]; rewrite E; auto.
  rewrite IH by (pose proof (split_first_shorter _ _ _ _ Hp E); lia). cbn [obind].
  rewrite join_cons by (eapply Split_nonempty; eauto). reflexivity.
Qed.

Lemma strReplace_is_join_split s from to l : from <> [] -> StrFns.split s from = Ok l ->
  str_replace s from to = Ok (join to l).
Proof.
  intros Hp H. apply split_fuel_Split in H. unfold str_replace.
  destruct from as [|c from']; [congruence|]. apply replace_Split; auto.
Qed.

(* ------------------------------------------------------------------ *)
(* findSubstr                                                          *)

Definition all_matches (p s : str) : list nat := filter (occurs_at p s) (seq 0 (length s)).

Lemma filter_map_comm {A B} (f : B -> bool) (g : A -> B) l :
  filter f (map g l) = map g (filter (fun x => f (g x)) l).
Proof. induction l as [|x l IH]; simpl; auto. destruct (f (g x)); simpl; rewrite IH; reflexivity. Qed.

Lemma filter_none {A} (f : A -> bool) l : (forall x, In x l -> f x = false) -> filter f l = [].
Proof.
  induction l as [|x l IH]; simpl; intros H; auto.
  rewrite (H x) by auto. apply IH. intros y Hy. apply H. auto.
Qed.

Lemma seq_as_map a m : seq a m = map (Nat.add a) (seq 0 m).
Proof.
  revert a; induction m as [|m IH]; intros a; simpl; auto.
  rewrite Nat.add_0_r. f_equal. rewrite (IH (S a)), (IH 1), map_map.
  apply map_ext. intros x. lia.
Qed.

Lemma skipn_add {A} a b (l : list A) : skipn (a + b) l = skipn b (skipn a l).
Proof.
  revert l; induction a as [|a IH]; intros l; simpl; auto.
  destruct l; simpl; auto. rewrite skipn_nil. reflexivity.
Qed.

Lemma all_matches_step p s i : (i < length s)%nat ->
  occurs_at p s i = true -> (forall j, (j < i)%nat -> occurs_at p s j = false) ->
  all_matches p s = i :: map (Nat.add (S i)) (all_matches p (skipn (S i) s)).
Proof.
  intros Hi Hyes Hno. unfold all_matches.
  assert (filter (occurs_at p s) (seq (S i) (length s - S i)) =
          map (Nat.add (S i)) (filter (occurs_at p (skipn (S i) s)) (seq 0 (length (skipn (S i) s))))) as Htail.
  { rewrite skipn_length. rewrite (seq_as_map (S i)), filter_map_comm. f_equal.
    apply filter_ext. intros j. unfold occurs_at. rewrite skipn_add. reflexivity. }
  rewrite <- Htail. clear Htail.
  replace (length s) with (i + S (length s - S i))%nat at 1 by lia.
  rewrite seq_app, filter_app. rewrite filter_none.
  2:{ intros x Hx. apply in_seq in Hx. apply Hno. lia. }
  rewrite Nat.add_0_l. cbn [seq filter app]. rewrite Hyes. reflexivity.
Qed.

Lemma byte_skip_0 s : byte_skip 0 s = Some s.
Proof. destruct s; reflexivity. Qed.

Lemma cp_utf8_len_pos c : (1 <= cp_utf8_len c)%N.
Proof. unfold cp_utf8_len. destruct (c <? 128)%N, (c <? 2048)%N, (c <? 65536)%N; lia. Qed.

Lemma byte_skip_first c r : byte_skip (cp_utf8_len c) (c :: r) = Some r.
Proof.
  simpl. pose proof (cp_utf8_len_pos c) as H.
  replace (cp_utf8_len c =? 0)%N with false by (symmetry; apply N.eqb_neq; lia).
  rewrite N.leb_refl, N.sub_diag. apply byte_skip_0.
Qed.

Lemma skipn_S_of {A} i (l : list A) d rest : skipn i l = d :: rest -> skipn (S i) l = rest.
Proof.
  intros H. replace (S i) with (i + 1)%nat by lia. rewrite skipn_add, H. reflexivity.
Qed.

Lemma find_loop_spec c0 pt : forall fuel rem idx, (length rem < fuel)%nat ->
  find_substr_loop fuel (c0 :: pt) c0 rem idx =
    Ok (map (fun i => (idx + N.of_nat i)%N) (all_matches (c0 :: pt) rem)).
Proof.
  set (pat := c0 :: pt).
  induction fuel as [|f IH]; intros rem idx Hf; [lia|].
  simpl find_substr_loop. destruct (str_find pat rem) as [i|] eqn:F.
  - destruct (str_find_some _ _ _ F) as [Hyes Hno].
    unfold occurs_at in Hyes. destruct (skipn i rem) as [|d rest] eqn:SK; [discriminate|].
    assert (d = c0) as ->.
    { simpl in Hyes. apply andb_true_iff in Hyes as [H1 _]. apply N.eqb_eq in H1. auto. }
    assert (i < length rem)%nat as Hi.
    { destruct (Nat.le_gt_cases (length rem) i); auto. rewrite skipn_all2 in SK by lia. discriminate. }
    rewrite byte_skip_first.
    pose proof (skipn_S_of _ _ _ _ SK) as SK'.
    assert (length rest < f)%nat as Hr.
    { rewrite <- SK', skipn_length. lia. }
    rewrite (IH rest _ Hr). simpl obind.
    rewrite (all_matches_step pat rem i Hi); [|unfold occurs_at; rewrite SK; exact Hyes|exact Hno].
    rewrite SK'. simpl map. f_equal. f_equal. rewrite map_map. apply map_ext. intros j. lia.
  - unfold all_matches. rewrite filter_none; [reflexivity|].
    intros x _. apply str_find_none. exact F.
Qed.

Lemma findSubstr_spec pat s : pat <> [] ->
  find_substr_cps pat s = Ok (map N.of_nat (all_matches pat s)).
Proof.
  intros Hp. destruct pat as [|c0 pt]; [congruence|]. unfold find_substr_cps.
  rewrite find_loop_spec by lia. f_equal.
Qed.

Lemma findSubstr_in pat s l : pat <> [] -> find_substr_cps pat s = Ok l ->
  forall k, In (N.of_nat k) l <-> ((k < length s)%nat /\ occurs_at pat s k = true).
Proof.
  intros Hp H k. rewrite (findSubstr_spec pat s Hp) in H. inversion H; subst. clear H.
  rewrite in_map_iff. unfold all_matches. split.
  - intros (x & Hx & Hin). apply Nat2N.inj in Hx. subst x. apply filter_In in Hin as [H1 H2].
    apply in_seq in H1. split; [lia|exact H2].
  - intros [H1 H2]. exists k. split; auto. apply filter_In. split; auto. apply in_seq. lia.
Qed.

(* ------------------------------------------------------------------ *)
(* strip                                                               *)

Definition listed (cs : str) (c : N) : Prop := memN c cs = true.

Lemma lstrip_spec cs s : exists a, s = a ++ lstrip cs s /\ Forall (listed cs) a /\ (lstrip cs s = [] \/ exists c t, lstrip cs s = c :: t /\ memN c cs = false).
Proof.
  induction s as [|c r IH]; simpl.
  - exists []. auto.
  - destruct (memN c cs) eqn:E.
    + destruct IH as (a & Ha & Hl & Hh). exists (c :: a). split; [simpl; f_equal; exact Ha|].
      split; [constructor; auto|exact Hh].
    + exists []. split; auto. split; auto. right. eauto.
Qed.

Lemma rstrip_spec cs s : exists b, s = rstrip cs s ++ b /\ Forall (listed cs) b /\ (rstrip cs s = [] \/ exists t c, rstrip cs s = t ++ [c] /\ memN c cs = false).
Proof.
  induction s as [|c r IH]; simpl.
  - exists []. auto.
  - destruct IH as (b & Hb & Hl & Hh). destruct (rstrip cs r) as [|x r'] eqn:R.
    + destruct (memN c cs) eqn:E.
      * exists (c :: b). simpl in Hb. subst r. split; [reflexivity|]. split; [constructor; auto|left; reflexivity].
      * exists b. simpl in Hb. subst r. split; [reflexivity|]. split; [exact Hl|]. right. exists [], c. split; [reflexivity|exact E].
    + exists b. split; [simpl; f_equal; exact Hb|]. split; auto. right.
      destruct Hh as [Hh|(t & c' & Ht & Hc')]; [discriminate|].
      exists (c :: t), c'. split; auto. simpl. f_equal. exact Ht.
Qed.

Lemma strip_decomposes cs s : exists a b, s = a ++ strip cs s ++ b /\
  Forall (listed cs) a /\ Forall (listed cs) b /\
  (strip cs s = [] \/
   (exists c t, strip cs s = c :: t /\ memN c cs = false) /\
   (exists t c, strip cs s = t ++ [c] /\ memN c cs = false)).
Proof.
  unfold strip. destruct (lstrip_spec cs s) as (a & Ha & Hla & Hha).
  destruct (rstrip_spec cs (lstrip cs s)) as (b & Hb & Hlb & Hhb).
  exists a, b. split; [rewrite <- Hb; exact Ha|]. split; auto. split; auto.
  destruct Hhb as [E|(t & c & Ht & Hc)]; [left; exact E|]. right. split; [|eauto].
  destruct Hha as [E|(c0 & t0 & Ht0 & Hc0)].
  - rewrite E in Ht. simpl in Ht. destruct t; discriminate.
  - rewrite Ht0 in *. destruct (rstrip cs (c0 :: t0)) as [|y r'] eqn:R.
    + destruct t; discriminate.
    + simpl in Hb. inversion Hb; subst. eauto.
Qed.

Lemma unlisted_after_listed cs a t a' x rest :
  a ++ t = a' ++ x :: rest -> Forall (listed cs) a -> memN x cs = false ->
  exists u, a' = a ++ u.
Proof.
  revert a'. induction a as [|c a IH]; intros a' H Hl Hx; [exists a'; reflexivity|].
  inversion Hl as [|? ? Hc Hl']; subst. destruct a' as [|c' a'].
  - simpl in H. inversion H; subst. unfold listed in Hc. congruence.
  - simpl in H. inversion H; subst. destruct (IH a' H2 Hl' Hx) as [u ->]. exists u. reflexivity.
Qed.

(* any infix of s delimited by unlisted characters lies inside the stripped result:
   the result is the longest such infix *)
Lemma strip_maximal cs s a' r' b' x m m' y :
  s = a' ++ r' ++ b' -> r' = x :: m -> r' = m' ++ [y] ->
  memN x cs = false -> memN y cs = false ->
  exists u v, strip cs s = u ++ r' ++ v.
Proof.
  intros Hs Hx Hy Ux Uy.
  destruct (strip_decomposes cs s) as (a & b & Hd & Hla & Hlb & _).
  (* left side *)
  assert (exists u, a' = a ++ u) as [u ->].
  { apply (unlisted_after_listed cs a (strip cs s ++ b) a' x (m ++ b')); auto.
    rewrite <- Hd, Hs, Hx. reflexivity. }
  (* right side, by reversal *)
  assert (exists w, rev b' = rev b ++ w) as [w Hw].
  { apply (unlisted_after_listed cs (rev b) (rev (a ++ strip cs s)) (rev b') y (rev ((a ++ u) ++ m'))).
    - rewrite <- !rev_app_distr. change (y :: rev ((a ++ u) ++ m')) with (rev [y] ++ rev ((a ++ u) ++ m')).
      rewrite <- !rev_app_distr. f_equal. rewrite <- !app_assoc. rewrite <- Hd, Hs, Hy.
      rewrite <- !app_assoc. reflexivity.
    - apply Forall_rev. exact Hlb.
    - exact Uy. }
  assert (b' = rev w ++ b) as ->.
  { rewrite <- (rev_involutive b'), Hw, rev_app_distr, rev_involutive. reflexivity. }
  exists u, (rev w). remember (strip cs s) as r eqn:Hr. clear Hr. rewrite Hs in Hd. rewrite <- !app_assoc in Hd.
  apply app_inv_head in Hd.
  replace (u ++ r' ++ rev w ++ b) with ((u ++ r' ++ rev w) ++ b) in Hd by (rewrite <- !app_assoc; reflexivity).
  apply app_inv_tail in Hd. symmetry. exact Hd.
Qed.

(* ------------------------------------------------------------------ *)
(* length, UTF-8 length                                                *)

Lemma length_counts_cps s : std_length (VStr s) = Ok (VNum (f_of_N (N.of_nat (length s)))).
Proof. reflexivity. Qed.

Lemma utf8_len_app a b : utf8_len (a ++ b) = (utf8_len a + utf8_len b)%N.
Proof. induction a as [|c a IH]; simpl; [reflexivity|]. rewrite IH. lia. Qed.

Lemma utf8_len_ge_length s : (N.of_nat (length s) <= utf8_len s)%N.
Proof.
  induction s as [|c r IH]; simpl; [lia|]. pose proof (cp_utf8_len_pos c). lia.
Qed.

Lemma utf8_len_eq_length_iff_ascii s :
  utf8_len s = N.of_nat (length s) <-> Forall (fun c => (c < 128)%N) s.
Proof.
  induction s as [|c r IH]; simpl.
  - split; auto.
  - pose proof (utf8_len_ge_length r) as Hr. pose proof (cp_utf8_len_pos c) as Hc. split.
    + intros H. assert (cp_utf8_len c = 1%N) as H1 by lia.
      constructor; [|apply IH; lia].
      unfold cp_utf8_len in H1. destruct (c <? 128)%N eqn:E; [apply N.ltb_lt; exact E|].
      destruct (c <? 2048)%N, (c <? 65536)%N; discriminate.
    + intros H. inversion H as [|? ? Hc1 Hr1]; subst. apply IH in Hr1.
      unfold cp_utf8_len. apply N.ltb_lt in Hc1. rewrite Hc1. lia.
Qed.

(* ------------------------------------------------------------------ *)
(* reverse, stringChars, map, flatMap                                  *)

Lemma reverse_involutive s l : std_reverse (VStr s) = Ok (VArr l) ->
  std_reverse (VArr l) = Ok (VArr (string_chars s)).
Proof.
  simpl. intros H. inversion H; subst. unfold string_chars.
  rewrite <- map_rev, rev_involutive. reflexivity.
Qed.

Lemma join_str_items_strs sep l first acc :
  join_str_items sep (map VStr l) first acc =
    Ok (match l with
        | [] => acc
        | _ => if first then acc ++ join sep l else acc ++ sep ++ join sep l
        end).
Proof.
  revert first acc. induction l as [|a l IH]; intros first acc; [reflexivity|].
  cbn [map join_str_items]. rewrite IH. destruct l as [|b l].
  - simpl. destruct first; reflexivity.
  - rewrite (join_cons sep a (b :: l)) by discriminate.
    destruct first; rewrite <- ?app_assoc; reflexivity.
Qed.

Lemma std_join_strs sep l : std_join (VStr sep) (strs l) = Ok (VStr (join sep l)).
Proof.
  unfold std_join, strs. simpl want_arr. cbn [obind]. rewrite join_str_items_strs.
  destruct l; reflexivity.
Qed.

(* std.join("", std.stringChars(s)) == s *)
Lemma stringChars_join s : std_join (VStr []) (VArr (string_chars s)) = Ok (VStr s).
Proof.
  unfold string_chars, char_val.
  replace (map (fun c => VStr [c]) s) with (map VStr (map (fun c => [c]) s)) by (rewrite map_map; reflexivity).
  change (VArr (map VStr (map (fun c => [c]) s))) with (strs (map (fun c => [c]) s)).
  rewrite std_join_strs. f_equal. f_equal.
  induction s as [|c r IH]; [reflexivity|]. cbn [map].
  destruct r as [|d r]; [reflexivity|].
  rewrite join_cons by discriminate. rewrite IH. reflexivity.
Qed.

Lemma map_res_length {A B} (f : A -> res B) l r : map_res f l = Ok r -> length r = length l.
Proof.
  revert r. induction l as [|x l IH]; intros r H; simpl in H.
  - inversion H. reflexivity.
  - destruct (f x); simpl in H; try discriminate.
    destruct (map_res f l); simpl in H; try discriminate. inversion H; subst. simpl. f_equal. auto.
Qed.

Lemma map_res_nth {A B} (f : A -> res B) l r : map_res f l = Ok r ->
  forall i x, nth_error l i = Some x -> exists y, nth_error r i = Some y /\ f x = Ok y.
Proof.
  revert r. induction l as [|a l IH]; intros r H i x Hx; simpl in H.
  - destruct i; discriminate.
  - destruct (f a) as [y0| | |] eqn:Fa; simpl in H; try discriminate.
    destruct (map_res f l) as [ys| | |] eqn:M; simpl in H; try discriminate. inversion H; subst.
    destruct i as [|i]; simpl in *.
    + inversion Hx; subst. eauto.
    + eapply IH; eauto.
Qed.

(* std.map over a string makes one call per code point *)
Lemma map_str_length f s l : map_str f s = Ok l ->
  length l = length s /\
  forall i c, nth_error s i = Some c -> exists v, nth_error l i = Some v /\ f [c] = Ok v.
Proof.
  unfold map_str. intros H. split; [eapply map_res_length; eauto|].
  intros i c Hc. eapply (map_res_nth (fun c => f [c])); eauto.
Qed.

Lemma flat_map_id_acc s acc : flat_map_str (fun c => Ok (VStr c)) s acc = Ok (acc ++ s).
Proof.
  revert acc. induction s as [|c r IH]; intros acc; simpl.
  - rewrite app_nil_r. reflexivity.
  - rewrite IH, <- app_assoc. reflexivity.
Qed.

Lemma flatMap_id s : std_flat_map (VFun 0) (VStr s) = Ok (VStr s).
Proof.
  unfold std_flat_map. simpl want_fun. cbn [obind].
  change (apply_fun 0) with (fun c : str => @Ok value err (VStr c)).
  rewrite flat_map_id_acc. reflexivity.
Qed.

(* ------------------------------------------------------------------ *)
(* skip / take / step_by                                               *)

Lemma step_by_aux_1 {A} (l : list A) : step_by_aux 1 0 l = l.
Proof. induction l as [|x l IH]; simpl; [reflexivity|]. f_equal. exact IH. Qed.

Lemma step_by_1 {A} (l : list A) : step_by 1 l = l.
Proof. apply step_by_aux_1. Qed.

Lemma skipN_spec {A} n (l : list A) : skipN n l = skipn (N.to_nat n) l.
Proof.
  unfold skipN, lenN. destruct (N.of_nat (length l) <=? n)%N eqn:E; [|reflexivity].
  apply N.leb_le in E. rewrite skipn_all2 by lia. reflexivity.
Qed.

Lemma takeN_spec {A} n (l : list A) : takeN n l = firstn (N.to_nat n) l.
Proof.
  unfold takeN, lenN. destruct (N.of_nat (length l) <=? n)%N eqn:E; [|reflexivity].
  apply N.leb_le in E. rewrite firstn_all2 by lia. reflexivity.
Qed.

Lemma nthN_spec {A} (l : list A) i : nthN l i = nth_error l (N.to_nat i).
Proof.
  unfold nthN, lenN. destruct (N.of_nat (length l) <=? i)%N eqn:E; [|reflexivity].
  apply N.leb_le in E. symmetry. apply nth_error_None. lia.
Qed.

(* substr(s, from, len) and the slice s[from : from+len] agree (code-point level) *)
Lemma substr_slice_cps s from len :
  slice_list s from (from + len) 1 = Ok (substr_cps s from len).
Proof.
  unfold slice_list, substr_cps.
  replace (from + len <? from)%N with false by (symmetry; apply N.ltb_ge; lia).
  replace (1 =? 0)%N with false by reflexivity.
  rewrite step_by_1. replace (from + len - from)%N with len by lia. reflexivity.
Qed.

(* ------------------------------------------------------------------ *)
(* index                                                               *)

(* for every double the code accepts as the index i, the answer is the i-th code point
   (one-character string) or "out of range" exactly when i >= length *)
Lemma index_is_nth s x i : try_to_usize_exact x = Some i ->
  index_value (VStr s) (VNum x) =
    match nth_error s (N.to_nat i) with
    | Some c => Ok (VStr [c])
    | None => Err ENumericIndexOutOfRange
    end.
Proof.
  intros H. unfold index_value. rewrite H, nthN_spec. destruct (nth_error s (N.to_nat i)); reflexivity.
Qed.

Lemma index_rejected s x : try_to_usize_exact x = None ->
  index_value (VStr s) (VNum x) = Err ENumericIndexIsNotValid.
Proof. intros H. unfold index_value. rewrite H. reflexivity. Qed.

(* the accepted index denotes the double: IEEE equality with the conversion back *)
Lemma try_to_usize_exact_sound x i : try_to_usize_exact x = Some i ->
  f_eqb (f_of_N i) x = true /\ (i <= usize_max)%N.
Proof.
  unfold try_to_usize_exact. destruct (f_eqb (f_of_N (sat_cast usize_max x)) x) eqn:E; [|discriminate].
  intros H. inversion H; subst. split; auto.
  unfold sat_cast. destruct x as [| [|] | |[|] m e]; try (unfold usize_max; lia).
  destruct (trunc_Z (S754_finite false m e)); [apply N.le_min_r|unfold usize_max; lia].
Qed.

(* ------------------------------------------------------------------ *)
(* slice: the range computation never lets the subtraction underflow    *)

Lemma trunc_Z_eq x : trunc_Z x = f_trunc_Z x.
Proof.
  destruct x as [s|s| |s m e]; try reflexivity. unfold trunc_Z, f_trunc_Z.
  destruct (0 <=? e)%Z eqn:E.
  - apply Z.leb_le in E. rewrite Z.shiftl_mul_pow2 by exact E. reflexivity.
  - apply Z.leb_gt in E. rewrite Z.shiftr_div_pow2 by lia. reflexivity.
Qed.

Lemma f_one_eq : f_one = S754_finite false 4503599627370496 (-52).
Proof. reflexivity. Qed.

Lemma sat_cast_le maxv x : (sat_cast maxv x <= maxv)%N.
Proof.
  unfold sat_cast. destruct x as [| [|] | |[|] m e]; try lia.
  destruct (trunc_Z (S754_finite false m e)); [apply N.le_min_r|lia].
Qed.

Lemma step_ok x : not_integer x = false -> f_ltb x f_one = false ->
  (1 <= sat_cast usize_max x)%N.
Proof.
  intros H1 H2. rewrite f_one_eq in H2. destruct x as [s|s| |s m e].
  - destruct s; discriminate H2.
  - discriminate H1.
  - discriminate H1.
  - destruct s; [discriminate H2|].
    unfold not_integer in H1. cbn [f_is_finite negb orb] in H1.
    unfold sat_cast, f_trunc in *. rewrite trunc_Z_eq in *. unfold f_trunc_Z in *.
    destruct (0 <=? e)%Z eqn:E.
    + apply Z.leb_le in E.
      assert (1 <= Z.pos m * 2 ^ e)%Z by (pose proof (Z.pow_pos_nonneg 2 e); nia).
      unfold usize_max. lia.
    + destruct (Z.pos m / 2 ^ (- e) =? 0)%Z eqn:Z0.
      * discriminate H1.
      * apply Z.eqb_neq in Z0.
        assert (0 <= Z.pos m / 2 ^ (- e))%Z by (apply Z.div_pos; [lia|apply Z.pow_pos_nonneg; lia]).
        unfold usize_max. lia.
Qed.

Ltac split_ifs_in H :=
  repeat (match type of H with
          | context [if ?c then _ else _] => destruct c eqn:?
          end; cbn [obind] in H; try discriminate H).

Lemma slice_range_ok len a b c st en sp :
  get_slice_range len a b c = Ok (st, en, sp) -> (len <= usize_max)%N ->
  (st <= en)%N /\ (1 <= sp)%N.
Proof.
  unfold get_slice_range. intros H Hlen.
  pose proof (sat_cast_le usize_max) as Hle.
  destruct a as [x|]; destruct b as [y|]; destruct c as [z|]; split_ifs_in H;
    inversion H; subst; clear H;
    repeat match goal with
           | E : (not_integer ?z || f_ltb ?z f_one)%bool = false |- _ =>
               apply orb_false_iff in E as [? ?]
           end;
    try (pose proof (step_ok z ltac:(assumption) ltac:(assumption)));
    try (pose proof (Hle x)); try (pose proof (Hle (f_neg x))); lia.
Qed.

Lemma slice_range_no_panic len a b c : is_panic (get_slice_range len a b c) = false.
Proof.
  unfold get_slice_range.
  destruct a as [x|]; destruct b as [y|]; destruct c as [z|];
    repeat (match goal with
            | |- context [if ?c then _ else _] => destruct c
            end; cbn [obind is_panic]); reflexivity.
Qed.

Lemma slice_no_panic s a b c isf : (lenN s <= usize_max)%N ->
  is_panic (do_slice (VStr s) a b c isf) = false.
Proof.
  intros Hlen. unfold do_slice.
  pose proof (slice_range_no_panic (lenN s) a b c) as Hnp.
  destruct (get_slice_range (lenN s) a b c) as [[[st en] sp]| | |] eqn:G; try reflexivity; [|discriminate Hnp].
  destruct (slice_range_ok _ _ _ _ _ _ _ G Hlen) as [H1 H2].
  cbn [obind]. unfold slice_list.
  replace (en <? st)%N with false by (symmetry; apply N.ltb_ge; exact H1).
  replace (sp =? 0)%N with false by (symmetry; apply N.eqb_neq; lia).
  reflexivity.
Qed.

(* what a successful string slice is: skip start, take end - start, every step-th *)
Lemma slice_is_skip_take_step s a b c isf v : (lenN s <= usize_max)%N ->
  do_slice (VStr s) a b c isf = Ok v ->
  exists st en sp, get_slice_range (lenN s) a b c = Ok (st, en, sp) /\ (st <= en)%N /\ (1 <= sp)%N /\
    v = VStr (step_by sp (firstn (N.to_nat (en - st)) (skipn (N.to_nat st) s))).
Proof.
  intros Hlen H. unfold do_slice in H.
  destruct (get_slice_range (lenN s) a b c) as [[[st en] sp]| | |] eqn:G; try discriminate H.
  destruct (slice_range_ok _ _ _ _ _ _ _ G Hlen) as [H1 H2].
  exists st, en, sp. split; [reflexivity|]. split; [exact H1|]. split; [exact H2|].
  cbn [obind] in H. unfold slice_list in H.
  replace (en <? st)%N with false in H by (symmetry; apply N.ltb_ge; exact H1).
  replace (sp =? 0)%N with false in H by (symmetry; apply N.eqb_neq; lia).
  cbn [obind] in H. inversion H. rewrite takeN_spec, skipN_spec. reflexivity.
Qed.

(* std.substr(s, a, l) == s[a : e] whenever the double e denotes a + l *)
Lemma substr_slice_agree s a l e v :
  not_integer e = false -> f_neg_p e = false ->
  sat_cast usize_max e = (sat_cast usize_max a + sat_cast usize_max l)%N ->
  std_substr (VStr s) (VNum a) (VNum l) = Ok v ->
  slice_expr (VStr s) (VNum a) (VNum e) VNull = Ok v.
Proof.
  intros He1 He2 Hsum H. unfold std_substr in H. cbn [want_str want_num obind] in H.
  destruct (not_integer a || f_neg_p a)%bool eqn:Ea; [discriminate H|].
  destruct (not_integer l || f_neg_p l)%bool eqn:El; [discriminate H|].
  apply orb_false_iff in Ea as [Ea1 Ea2]. inversion H; subst. clear H.
  unfold slice_expr. cbn [slice_part obind]. unfold do_slice, get_slice_range.
  rewrite Ea1, Ea2, He1, He2. cbn [obind]. rewrite Hsum.
  replace (N.max (sat_cast usize_max a + sat_cast usize_max l) (sat_cast usize_max a))
    with (sat_cast usize_max a + sat_cast usize_max l)%N by lia.
  rewrite substr_slice_cps. reflexivity.
Qed.

(* ------------------------------------------------------------------ *)
(* char / codepoint (the exhaustive part is in Proofs/StrFns_char_proofs.v) *)

(* whatever std.char returns, std.codepoint maps it back to an in-range scalar *)
Lemma codepoint_char_inverse x v : std_char (VNum x) = Ok v ->
  exists c, v = VStr [c] /\ is_scalar c = true /\ std_codepoint v = Ok (VNum (f_of_N c)).
Proof.
  unfold std_char. cbn [want_num obind]. intros H.
  destruct (try_to_u32 (f_trunc x)) as [c|]; [|discriminate H].
  destruct (is_scalar c) eqn:E; [|discriminate H]. inversion H; subst.
  exists c. split; [reflexivity|]. split; [exact E|reflexivity].
Qed.

(* ------------------------------------------------------------------ *)
(* value-level corollaries                                             *)

Lemma std_join_split s sep v : std_split (VStr s) (VStr sep) = Ok v ->
  std_join (VStr sep) v = Ok (VStr s).
Proof.
  unfold std_split. cbn [want_str obind]. destruct sep as [|c sep']; [discriminate|].
  intros H. destruct (StrFns.split s (c :: sep')) as [l| | |] eqn:E; cbn [obind] in H; try discriminate H.
  inversion H; subst. rewrite std_join_strs.
  rewrite (join_split s (c :: sep') l) by (auto; discriminate). reflexivity.
Qed.

Lemma rsplit_exists_clean s sep : sep <> [] ->
  exists rs, RSplit sep s rs /\ join sep (rev rs) = s /\
             Forall (fun piece => forall i, occurs_at sep piece i = false) rs.
Proof.
  intros Hp. destruct (RSplit_exists sep Hp s) as [rs H]. exists rs.
  split; [exact H|]. split; [apply RSplit_join; exact H|].
  pose proof (RSplit_clean _ _ _ Hp H) as Hc.
  eapply Forall_impl; [|exact Hc]. intros piece Hn. apply str_find_none. exact Hn.
Qed.

Lemma checked_limit_pos m n : checked_limit m = Some n -> (1 <= n)%N.
Proof.
  unfold checked_limit. destruct (try_to_usize m) as [v|]; [|discriminate].
  destruct (v =? usize_max)%N; [discriminate|]. intros H. inversion H. lia.
Qed.

Lemma decoded_limit_positive m n :
  (decode_maxsplits m = Ok (Some n) \/ decode_maxsplits_r m = Ok (Some n)) -> (1 <= n)%N.
Proof.
  unfold decode_maxsplits, decode_maxsplits_r.
  destruct (not_integer m); [intros [H|H]; discriminate H|].
  destruct (f_neg_p m).
  - destruct (f_ne m (f_of_Z (-1))); intros [H|H]; discriminate H.
  - intros [H|H]; inversion H as [H1].
    + apply (checked_limit_pos m). exact H1.
    + destruct (checked_limit m) as [k|] eqn:E.
      * apply (checked_limit_pos m). exact E.
      * unfold usize_max. lia.
Qed.

(* ------------------------------------------------------------------ *)
(* splitLimitR is upstream's definition: reverse, splitLimit, reverse back *)

Lemma app_eq_len {A} (a1 a2 b1 b2 : list A) :
  a1 ++ b1 = a2 ++ b2 -> length a1 = length a2 -> a1 = a2 /\ b1 = b2.
Proof.
  revert a2; induction a1 as [|x a1 IH]; intros [|y a2] H L; simpl in *; try discriminate; auto.
  inversion H; subst. destruct (IH a2 H2 ltac:(lia)) as [-> ->]. auto.
Qed.

Lemma rev_neq_nil {A} (p : list A) : p <> [] -> rev p <> [].
Proof. intros Hp E. apply Hp. rewrite <- (rev_involutive p), E. reflexivity. Qed.

Lemma rsplit_first_mirror p s b a : p <> [] -> rsplit_first p s = Some (b, a) ->
  split_first (rev p) (rev s) = Some (rev a, rev b).
Proof.
  intros Hp H. destruct (rsplit_first_spec p s b a Hp H) as [Hs Hmax].
  pose proof (rev_neq_nil p Hp) as Hrp.
  assert (rev s = rev a ++ rev p ++ rev b) as Hrs
    by (rewrite Hs, !rev_app_distr, <- app_assoc; reflexivity).
  destruct (split_first_complete (rev p) (rev s) (rev a) (rev b) Hrs) as (b' & a' & E).
  destruct (split_first_spec _ _ _ _ Hrp E) as [Hs' Hmin].
  specialize (Hmin _ _ Hrs).
  assert (s = rev a' ++ p ++ rev b') as Hs2.
  { rewrite <- (rev_involutive s), Hs', !rev_app_distr, rev_involutive, <- app_assoc. reflexivity. }
  specialize (Hmax _ _ Hs2).
  assert (length b' = length (rev a)) as Hlen.
  { pose proof (f_equal (@length _) Hs') as L1. pose proof (f_equal (@length _) Hrs) as L2.
    rewrite !app_length in L1, L2. rewrite !rev_length in *. lia. }
  rewrite Hs' in Hrs. destruct (app_eq_len _ _ _ _ Hrs Hlen) as [-> Hrest].
  apply app_inv_head in Hrest. subst a'. exact E.
Qed.

Lemma rsplit_first_mirror_none p s : rsplit_first p s = None -> split_first (rev p) (rev s) = None.
Proof.
  intros H. destruct (split_first (rev p) (rev s)) as [[b' a']|] eqn:E; [|reflexivity].
  exfalso. apply split_first_sound in E.
  assert (s = rev a' ++ p ++ rev b') as Hs2.
  { rewrite <- (rev_involutive s), E, !rev_app_distr, rev_involutive, <- app_assoc. reflexivity. }
  pose proof (rsplit_first_none _ _ H (length (rev a'))) as Hno. unfold occurs_at in Hno.
  rewrite Hs2, skipn_app, skipn_all, Nat.sub_diag in Hno. simpl in Hno.
  rewrite is_prefix_app in Hno. discriminate.
Qed.

Lemma RSplit_mirror p s l : p <> [] -> RSplit p s l -> Split (rev p) (rev s) (map (@rev N) l).
Proof.
  intros Hp. induction 1 as [s E|s b a l E HS IH]; simpl.
  - apply Split_last. apply rsplit_first_mirror_none. exact E.
  - eapply Split_cons; [apply rsplit_first_mirror; eauto|exact IH].
Qed.

Lemma rev_join sep l : rev (join sep l) = join (rev sep) (rev (map (@rev N) l)).
Proof.
  induction l as [|a l IH]; [reflexivity|].
  destruct l as [|b l]; [reflexivity|].
  rewrite join_cons by discriminate. rewrite !rev_app_distr, <- app_assoc.
  cbn [map rev] in *.
  rewrite join_snoc by (intros E; apply app_eq_nil in E as [_ E]; discriminate).
  rewrite <- IH. reflexivity.
Qed.

Lemma map_rev_rev l : map (@rev N) (map (@rev N) l) = l.
Proof. rewrite map_map. rewrite <- (map_id l) at 2. apply map_ext. intros x. apply rev_involutive. Qed.

Lemma splitLimitR_mirror s p k l' : p <> [] ->
  split_limit_cps (rev s) (rev p) (Some (N.of_nat (S k))) = Ok l' ->
  split_limit_r_cps s p (Some (N.of_nat (S k))) = Ok (rev (map (@rev N) l')).
Proof.
  intros Hp H. destruct (RSplit_exists p Hp s) as [rs HR].
  pose proof (RSplit_mirror p s rs Hp HR) as HS.
  pose proof (rev_neq_nil p Hp) as Hrp.
  assert (StrFns.split (rev s) (rev p) = Ok (map (@rev N) rs)) as Hsp
    by (unfold StrFns.split; apply Split_split_fuel; auto).
  rewrite (splitLimit_first_n _ _ _ k Hrp Hsp) in H. rewrite map_length in H.
  rewrite (splitLimitR_last_n s p rs k Hp HR).
  unfold str in *. revert H. destruct (length rs <=? S k)%nat; intros H; inversion H; subst; clear H; f_equal; f_equal.
  - rewrite map_rev_rev. reflexivity.
  - rewrite map_app, firstn_map, map_rev_rev. cbn [map]. f_equal. f_equal.
    rewrite skipn_map, rev_join, map_rev_rev, rev_involutive. reflexivity.
Qed.
