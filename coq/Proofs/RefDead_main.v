(* Proofs/RefDead_main.v — C02/C04: dead-binding irrelevance, part 3: slices, calls, equality,
   manifestation, the expression evaluator, the knot, and the theorem.
   The simulation of the builtins ([call_builtin]) is a premise ([builtin_sim]). *)
From RJ Require Import Base.Outcome Base.F64 Model.Token Model.Ast Model.RefCore Model.RefValue Model.RefEval.
From RJ Require Import Proofs.RefSem_params Proofs.RefScope_defs Proofs.RefScope_proofs Proofs.RefScope_main.
From RJ Require Import Proofs.RefDead_defs Proofs.RefDead_proofs.
From Coq Require Import Lia.
Local Open Scope N_scope.

Section DeadMain.
Variable x : str.
Variables e1 e2 : list frame.
Hypothesis Hdead : dead_pair x e1 e2.
Notation vr := (vrel x e1 e2).
Notation tr := (trel x e1 e2).
Notation er := (erel x e1 e2).
Notation lr := (lrel x e1 e2).
Notation lsr := (lsrel x e1 e2).
Notation tsr := (tsrel x e1 e2).
Notation bvr := (bvrel x e1 e2).
Notation fr := (frel x e1 e2).
Notation r2 := (@rel2 x e1 e2).
Notation rrl := (@rrel).

Definition builtin_sim_at : Prop := forall bi args args' d,
  tsr args args' -> rel2 x e1 e2 vr (call_builtin bi args d) (call_builtin bi args' d).
Hypothesis builtin_sim : builtin_sim_at.

Hint Constructors vrel trel : rel.
Hint Resolve rel2_err rel2_kind rel2_unsupported rel2_argtype rel2_panic rel2_check_num rel2_emit rel2_ask_bfs
  rel2_ask_ts_tail rel2_enter Forall2_app_intro rel2_eval rel2_forceT rel2_apply rel2_applyf rel2_field_at rel2_equals
  rel2_compare rel2_manifest rel2_render_m rel2_to_string rel2_un_op rel2_num_bin rel2_add_vals rel2_bin_op
  rel2_run_asserts rel2_missing_field rel2_get_field rel2_do_field rel2_super_field rel2_field_name_of : rel2.
Hint Resolve Forall2_app_intro : rel.
Hint Extern 1 (@eq _ _ _) => reflexivity : rel.

Ltac rel_inv :=
  repeat match goal with
  | H : vr (VArr _) _ |- _ => inversion H; clear H; subst
  | H : vr (VObj _ _) _ |- _ => inversion H; clear H; subst
  | H : vr (VFun _ _ _) _ |- _ => inversion H; clear H; subst
  | H : vr VNull _ |- _ => inversion H; clear H; subst
  | H : vr (VBool _) _ |- _ => inversion H; clear H; subst
  | H : vr (VNum _) _ |- _ => inversion H; clear H; subst
  | H : vr (VStr _) _ |- _ => inversion H; clear H; subst
  | H : vr (VBuiltin _) _ |- _ => inversion H; clear H; subst
  | H : tr (Th _ _) _ |- _ => inversion H; clear H; subst
  | H : tr (Tv _) _ |- _ => inversion H; clear H; subst
  | H : tr (TCall _ _) _ |- _ => inversion H; clear H; subst
  | H : Forall2 _ (_ :: _) _ |- _ => inversion H; clear H; subst
  | H : Forall2 _ [] _ |- _ => inversion H; clear H; subst
  | H : _ /\ _ |- _ => destruct H
  end.

Ltac r2_step :=
  match goal with
  | |- rel2 _ _ _ _ (ret _) (ret _) => apply rel2_ret; try solve [eauto with rel]
  | |- rel2 _ _ _ _ (bind _ _) (bind _ _) => eapply rel2_bind; [ solve [eauto with rel2 rel] | intros ? ? ?; subst ]
  | H : vr ?v ?v' |- rel2 _ _ _ _ (match ?v with _ => _ end) (match ?v' with _ => _ end) => destruct v; rel_inv
  | |- rel2 _ _ _ _ (match ?v with _ => _ end) (match ?v with _ => _ end) => first [ is_var v; destruct v | destruct v eqn:? ]
  | |- rel2 _ _ _ _ (if ?b then _ else _) (if ?b then _ else _) => destruct b eqn:?
  | |- rel2 _ _ _ _ _ _ => solve [eauto with rel2 rel]
  | |- rel2 _ _ _ _ _ _ => eapply rel2_weaken; [ solve [eauto with rel2 rel] | solve [intros; subst; eauto with rel] ]
  end.
Ltac r2_tac := repeat r2_step.

Lemma rel2_ret_eq {A} (a : A) : rel2 x e1 e2 eq (ret a) (ret a).
Proof. apply rel2_ret. reflexivity. Qed.
Hint Resolve rel2_ret_eq : rel2.

(* ---- indexing and slices ---- *)
Lemma Forall2_nthN {A} (R : A -> A -> Prop) : forall l l' i, Forall2 R l l' ->
  match nthN l i, nthN l' i with Some a, Some a' => R a a' | None, None => True | _, _ => False end.
Proof.
  intros l l' i H. revert i. induction H as [|a a' r r' Ha _ IH]; intros i; simpl; [exact I|].
  destruct (i =? 0); [exact Ha | apply IH].
Qed.

Lemma rel2_index_value v v' i i' d : vr v v' -> vr i i' -> rel2 x e1 e2 vr (index_value v i d) (index_value v' i' d).
Proof.
  intros Hv Hi. unfold index_value. destruct v; rel_inv; try solve [r2_tac]; try solve [destruct i; rel_inv; r2_tac].
  destruct i; rel_inv; try solve [r2_tac]. destruct (to_index f); [|r2_tac].
  match goal with H : Forall2 tr ?l ?l' |- _ => pose proof (Forall2_nthN _ l l' n H) as Hn end.
  destruct (nthN items n); destruct (nthN items' n); try contradiction; r2_tac.
Qed.
Hint Resolve rel2_index_value : rel2.

Lemma rel2_opt_num v v' s : vr v v' -> rel2 x e1 e2 eq (opt_num v s) (opt_num v' s).
Proof. intros H. unfold opt_num. destruct v; rel_inv; r2_tac. Qed.
Lemma rel2_slice_pos l f : rel2 x e1 e2 eq (slice_pos l f) (slice_pos l f).
Proof. unfold slice_pos. r2_tac. Qed.
Hint Resolve rel2_opt_num rel2_slice_pos : rel2.
Ltac r2_eq :=
  repeat first [ apply rel2_ret_eq
               | solve [eauto with rel2 rel]
               | (eapply rel2_bind with (Q := eq); [| intros ? ? ?; subst])
               | match goal with
                 | |- rel2 _ _ _ _ (match ?v with _ => _ end) _ => destruct v
                 | |- rel2 _ _ _ _ (if ?b then _ else _) _ => destruct b
                 end ].
Lemma rel2_slice_range l a b c : rel2 x e1 e2 eq (slice_range l a b c) (slice_range l a b c).
Proof. unfold slice_range. destruct a, b, c; r2_eq. Qed.
Hint Resolve rel2_slice_range : rel2.

Lemma Forall2_dropN {A} (R : A -> A -> Prop) : forall l l' i, Forall2 R l l' -> Forall2 R (dropN l i) (dropN l' i).
Proof.
  intros l l' i H. revert i. induction H; intros i; simpl; [constructor|]. destruct (i =? 0); [constructor; assumption | auto].
Qed.
Lemma Forall2_take_step {A} (R : A -> A -> Prop) : forall l l' n st k, Forall2 R l l' -> Forall2 R (take_step l n st k) (take_step l' n st k).
Proof.
  intros l l' n st k H. revert n k. induction H; intros n k; simpl; [constructor|].
  destruct (n =? 0); [constructor|]. destruct (k =? 0); [constructor; auto | auto].
Qed.
Lemma Forall2_slice {A} (R : A -> A -> Prop) l l' a b c : Forall2 R l l' -> Forall2 R (slice_list l a b c) (slice_list l' a b c).
Proof.
  intros H. unfold slice_list. rewrite <- (Forall2_len R l l' H). apply Forall2_take_step. apply Forall2_dropN. exact H.
Qed.

Lemma rel2_do_slice v v' a b c f : vr v v' -> rel2 x e1 e2 vr (do_slice v a b c f) (do_slice v' a b c f).
Proof.
  intros Hv. unfold do_slice. destruct v; rel_inv; try solve [r2_tac].
  match goal with H : Forall2 tr _ _ |- _ => rewrite <- (Forall2_len _ _ _ H) end.
  eapply rel2_bind; [apply rel2_slice_range|]. intros [[s0 st] sp] ? <-. apply rel2_ret. constructor. apply Forall2_slice. assumption.
Qed.
Hint Resolve rel2_do_slice : rel2.

Lemma rel2_eval_opt en en' vs io o d : er en en' vs io -> closed_opt vs io o -> rel2 x e1 e2 vr (eval_opt en o d) (eval_opt en' o d).
Proof. intros He Ho. unfold eval_opt. inversion Ho; subst; r2_tac. Qed.
Hint Resolve rel2_eval_opt : rel2.

(* ---- parameter binding ---- *)
Definition bres_rel (r r' : list (str * thunk) * list (str * cexpr)) : Prop := bvr (fst r) (fst r') /\ snd r = snd r'.

Lemma bind_positional_rel : forall ps pos pos', tsr pos pos' ->
  match bind_positional ps pos, bind_positional ps pos' with
  | Some (b, rest), Some (b', rest') => bvr b b' /\ rest = rest'
  | None, None => True
  | _, _ => False
  end.
Proof.
  intros ps pos pos' H. revert ps. induction H as [|t t' r r' Ht _ IH]; intros ps.
  - destruct ps; simpl; split; auto; constructor.
  - destruct ps as [|[y dflt] psr]; simpl; [exact I|]. specialize (IH psr).
    destruct (bind_positional psr r) as [[b rest]|]; destruct (bind_positional psr r') as [[b' rest']|]; try contradiction; [|exact I].
    destruct IH as [Hb ->]. split; [constructor; [split; [reflexivity | exact Ht] | exact Hb] | reflexivity].
Qed.

Lemma bvr_assoc_some b b' y : bvr b b' -> (assoc y b = None <-> assoc y b' = None).
Proof.
  intros H. pose proof (bvrel_assoc x e1 e2 b b' y H) as Ha.
  destruct (assoc y b); destruct (assoc y b'); try contradiction; split; congruence.
Qed.

Lemma check_named_rel rest bpos bpos' : bvr bpos bpos' -> forall named named' seen, bvr named named' ->
  check_named rest bpos named seen = check_named rest bpos' named' seen.
Proof.
  intros Hb named named' seen Hn. revert seen. induction Hn as [|[y t] [y' t'] r r' [Hy _] _ IH]; intros seen; simpl; [reflexivity|].
  simpl in Hy. subst y'. destruct (assoc y rest).
  - destruct (mem_str y seen); [reflexivity | apply IH].
  - pose proof (bvr_assoc_some bpos bpos' y Hb) as Hs. destruct (assoc y bpos); destruct (assoc y bpos'); try reflexivity.
    + destruct Hs as [_ Hs]. discriminate (Hs eq_refl).
    + destruct Hs as [Hs _]. discriminate (Hs eq_refl).
Qed.

Lemma fill_rest_rel : forall rest named named', bvr named named' ->
  orel (fun r r' => bres_rel r r') (fill_rest rest named) (fill_rest rest named').
Proof.
  induction rest as [|[y dflt] r IH]; intros named named' Hn; simpl.
  - split; [constructor | reflexivity].
  - specialize (IH named named' Hn).
    destruct (fill_rest r named) as [[b ds] | e | s |]; destruct (fill_rest r named') as [[b' ds'] | e' | s' |]; simpl in IH; try contradiction; auto.
    destruct IH as [Hb Hd]. simpl in Hb, Hd. subst ds'.
    pose proof (bvrel_assoc x e1 e2 named named' y Hn) as Ha.
    destruct (assoc y named) as [t|]; destruct (assoc y named') as [t'|]; try contradiction.
    + simpl. split; [constructor; [split; [reflexivity | exact Ha] | exact Hb] | reflexivity].
    + destruct dflt; simpl; [split; [exact Hb | reflexivity] | reflexivity].
Qed.

Lemma bind_args_rel ps pos pos' named named' : tsr pos pos' -> bvr named named' ->
  orel bres_rel (bind_args ps pos named) (bind_args ps pos' named').
Proof.
  intros Hp Hn. unfold bind_args. pose proof (bind_positional_rel ps pos pos' Hp) as Hbp.
  destruct (bind_positional ps pos) as [[bpos rest]|]; destruct (bind_positional ps pos') as [[bpos' rest']|]; try contradiction; [|reflexivity].
  destruct Hbp as [Hb ->]. rewrite (check_named_rel rest' bpos bpos' Hb named named' [] Hn).
  destruct (check_named rest' bpos' named' []); [reflexivity|].
  pose proof (fill_rest_rel rest' named named' Hn) as Hf.
  destruct (fill_rest rest' named) as [[b ds] | e | s |]; destruct (fill_rest rest' named') as [[b' ds'] | e' | s' |]; simpl in Hf; try contradiction; auto.
  destruct Hf as [Hb2 Hd]. simpl in *. subst. split; [apply Forall2_app_intro; assumption | reflexivity].
Qed.

Lemma rel2_bind_args ps pos pos' named named' : tsr pos pos' -> bvr named named' ->
  rel2 x e1 e2 (fun r r' => bres_rel r r' /\ bind_args ps pos named = Ok r) (lift (bind_args ps pos named)) (lift (bind_args ps pos' named')).
Proof.
  intros Hp Hn c r r' _. split; [reflexivity|]. unfold lift. simpl. pose proof (bind_args_rel ps pos pos' named named' Hp Hn) as H.
  destruct (bind_args ps pos named) as [a | e | s |]; destruct (bind_args ps pos' named') as [a' | e' | s' |]; simpl in *; try contradiction; auto.
Qed.

Lemma arg_thunks_rel ps fr0 fr0' vs io : er fr0 fr0' vs io -> (forall p, In p ps -> In (fst p) vs) -> tsr (arg_thunks ps fr0) (arg_thunks ps fr0').
Proof.
  intros He. unfold arg_thunks. induction ps as [|p r IH]; intros Hin; simpl; [constructor|].
  apply Forall2_app_intro; [|apply IH; intros; apply Hin; right; assumption].
  destruct (erel_lookup_var x e1 e2 Hdead _ _ _ _ He (fst p) (Hin p (or_introl eq_refl))) as (t & t' & -> & -> & Ht).
  constructor; [exact Ht | constructor].
Qed.

Lemma rel2_force_args ts ts' d : tsr ts ts' -> rel2 x e1 e2 eq (force_args ts d) (force_args ts' d).
Proof.
  intros H. unfold force_args. apply rel2_iterM. eapply Forall2_imp; [|exact H]. intros t t' Ht.
  eapply rel2_bind; [apply rel2_enter|]. intros d1 d2 ->. eapply rel2_bind; [apply rel2_forceT; exact Ht|]. intros. apply rel2_ret. reflexivity.
Qed.

Lemma rel2_do_apply fv fv' pos pos' named named' force d :
  vr fv fv' -> tsr pos pos' -> bvr named named' -> rel2 x e1 e2 vr (do_apply fv pos named force d) (do_apply fv' pos' named' force d).
Proof.
  intros Hf Hp Hn. unfold do_apply. destruct fv; rel_inv; try solve [r2_tac].
  - eapply rel2_bind; [apply rel2_bind_args; eassumption|]. intros [b ds] [b' ds'] [[Hb Hd] Hok]. simpl in Hb, Hd. subst ds'.
    assert (Hp0 : Forall wf_thunk pos -> True) by auto.
    match goal with H : closed _ _ (CFunc _ _) |- _ => inversion H; subst end.
    match goal with H : forall vs', incl _ vs' -> _ |- _ => rename H into Hbody end.
    (* names bound by the frame *)
    assert (Hincl : incl (map fst params) (map fst b ++ map fst ds)).
    { pose proof (defaults_see_all_params params pos named b ds [] Hok) as [Hsee _].
      intros y Hy. specialize (Hsee y Hy). simpl in Hsee. apply in_or_app.
      destruct (assoc y b) eqn:E1; [left; eapply assoc_some_in; eassumption|].
      destruct (assoc y ds) eqn:E2; [right; eapply assoc_some_in; eassumption | congruence]. }
    assert (Hds : forall y de, In (y, de) ds -> In (y, Some de) params).
    { unfold bind_args in Hok. destruct (bind_positional params pos) as [[bpos rest]|] eqn:Ep; [|discriminate].
      destruct (check_named rest bpos named []); [discriminate|].
      destruct (fill_rest rest named) as [[b2 ds2] | | |] eqn:Ef; try discriminate. injection Hok as <- <-.
      intros y de Hin.
      assert (Hr : forall p, In p rest -> In p params).
      { clear -Ep. revert params bpos rest Ep. induction pos as [|t pr IH]; intros ps bpos rest Ep p Hp.
        - destruct ps; simpl in Ep; injection Ep as <- <-; exact Hp.
        - destruct ps as [|[y0 d0] psr]; simpl in Ep; [discriminate|].
          destruct (bind_positional psr pr) as [[b3 rest3]|] eqn:E3; [|discriminate]. injection Ep as <- <-. right. eapply IH; eassumption. }
      apply Hr. clear -Ef Hin. revert b2 ds2 Ef Hin. induction rest as [|[y0 d0] r IH]; intros b2 ds2 Ef Hin; simpl in Ef.
      - injection Ef as <- <-. destruct Hin.
      - destruct (fill_rest r named) as [[b3 ds3] | | |] eqn:E3; try discriminate.
        destruct (assoc y0 named); [injection Ef as <- <-; right; eapply IH; eauto|].
        destruct d0; [|discriminate]. injection Ef as <- <-. destruct Hin as [Hin | Hin]; [injection Hin as <- <-; left; reflexivity | right; eapply IH; eauto]. }
    set (sc := map fst b ++ map fst ds ++ vs).
    assert (Hi1 : incl vs sc) by (unfold sc; intros y Hy; apply in_or_app; right; apply in_or_app; right; exact Hy).
    assert (Hi2 : incl (map fst params) sc).
    { unfold sc. intros y Hy. apply Hincl in Hy. apply in_app_or in Hy. apply in_or_app. destruct Hy; [left; assumption | right; apply in_or_app; left; assumption]. }
    destruct (Hbody sc Hi1 Hi2) as [Hps Hbd].
    assert (Hfr : er (FVars b ds :: env) (FVars b' ds :: en') sc io).
    { unfold sc. constructor; [exact Hb | | assumption]. rewrite Forall_forall. intros [y de] Hin. simpl.
      rewrite Forall_forall in Hps. specialize (Hps _ (Hds _ _ Hin)). simpl in Hps. inversion Hps; subst. assumption. }
    eapply rel2_bind with (Q := eq).
    { destruct force; [|apply rel2_ret; reflexivity]. apply rel2_force_args. eapply arg_thunks_rel; [exact Hfr|].
      intros p Hp1. apply Hi2. apply in_map. exact Hp1. }
    intros ? ? _. eapply rel2_bind; [apply rel2_enter|]. intros d1 d2 ->. eapply rel2_eval; eassumption.
  - eapply rel2_bind; [apply rel2_bind_args; eassumption|]. intros [bb ds] [bb' ds'] [[Hb Hd] Hok]. simpl in Hb, Hd.
    eapply rel2_bind; [apply rel2_enter|]. intros d1 d2 ->. apply builtin_sim.
    assert (Hfr : er [FVars bb []] [FVars bb' []] (map fst bb ++ []) false).
    { change (map fst bb ++ []) with (map fst bb ++ map fst (@nil (str * cexpr)) ++ []). constructor; [exact Hb | constructor | constructor]. }
    eapply arg_thunks_rel; [exact Hfr|]. intros p Hp1.
    pose proof (defaults_see_all_params (builtin_params b) pos named bb ds [] Hok) as [Hsee _].
    specialize (Hsee (fst p) (in_map fst _ _ Hp1)). simpl in Hsee. rewrite app_nil_r.
    destruct (assoc (fst p) bb) eqn:E1; [eapply assoc_some_in; eassumption|].
    exfalso. destruct (assoc (fst p) ds) eqn:E2; [|congruence].
    (* builtins have no defaults *)
    unfold bind_args in Hok. destruct (bind_positional (builtin_params b) pos) as [[bpos rest]|] eqn:Ep; [|discriminate].
    destruct (check_named rest bpos named []); [discriminate|].
    destruct (fill_rest rest named) as [[b2 ds2] | | |] eqn:Ef; try discriminate. injection Hok as <- <-.
    assert (Hnd : forall p0, In p0 rest -> snd p0 = None).
    { assert (Hr : forall p0, In p0 rest -> In p0 (builtin_params b)).
      { clear -Ep. revert bpos rest Ep. generalize (builtin_params b). intros ps. revert ps. induction pos as [|t pr IH]; intros ps bpos rest Ep p0 Hp0.
        - destruct ps; simpl in Ep; injection Ep as <- <-; exact Hp0.
        - destruct ps as [|[y0 d0] psr]; simpl in Ep; [discriminate|].
          destruct (bind_positional psr pr) as [[b3 rest3]|] eqn:E3; [|discriminate]. injection Ep as <- <-. right. eapply IH; eassumption. }
      intros p0 Hp0. apply Hr in Hp0. unfold builtin_params in Hp0. destruct (find _ builtin_table); [|destruct Hp0].
      apply in_map_iff in Hp0. destruct Hp0 as (q & <- & _). reflexivity. }
    clear -Ef E2 Hnd. revert b2 ds2 Ef E2. induction rest as [|[y0 d0] r IH]; intros b2 ds2 Ef E2; simpl in Ef.
    + injection Ef as <- <-. discriminate.
    + destruct (fill_rest r named) as [[b3 ds3] | | |] eqn:E3; try discriminate.
      destruct (assoc y0 named); [injection Ef as <- <-; eapply IH; eauto; intros; apply Hnd; right; assumption|].
      pose proof (Hnd (y0, d0) (or_introl eq_refl)) as Hd0. simpl in Hd0. subst d0. discriminate.
Qed.
Hint Resolve rel2_do_apply : rel2.

(* ---- equality, ordering, manifestation ---- *)
Lemma rel2_eq_items d : forall a a' b b', tsr a a' -> tsr b b' -> rel2 x e1 e2 eq (eq_items a b d) (eq_items a' b' d).
Proof.
  intros a a' b b' Ha. revert b b'. induction Ha as [|t t' ra ra' Ht _ IH]; intros b b' Hb; simpl; [apply rel2_ret_eq|].
  inversion Hb as [|u u' rb rb' Hu Hrb]; subst; [apply rel2_ret_eq|].
  eapply rel2_bind; [apply rel2_enter|]. intros d1 d2 ->.
  eapply rel2_bind; [apply rel2_forceT; exact Ht|]. intros vx vx' Hvx.
  eapply rel2_bind; [apply rel2_forceT; exact Hu|]. intros vy vy' Hvy.
  eapply rel2_bind; [apply rel2_equals; eassumption|]. intros b0 b1 ->. destruct b1; [apply IH; assumption | apply rel2_ret_eq].
Qed.

Lemma rel2_eq_fields la la' lb lb' d : lsr la la' -> lsr lb lb' -> forall names,
  rel2 x e1 e2 eq (eq_fields la lb names d) (eq_fields la' lb' names d).
Proof.
  intros Ha Hb. induction names as [|n r IH]; simpl; [apply rel2_ret_eq|].
  eapply rel2_bind; [apply rel2_enter|]. intros d1 d2 ->.
  eapply rel2_bind; [apply rel2_field_at; exact Ha|]. intros vx vx' Hvx.
  eapply rel2_bind; [apply rel2_field_at; exact Hb|]. intros vy vy' Hvy.
  eapply rel2_bind; [apply rel2_equals; eassumption|]. intros b0 b1 ->. destruct b1; [apply IH | apply rel2_ret_eq].
Qed.

Lemma rel2_cmp_items d : forall a a' b b', tsr a a' -> tsr b b' -> rel2 x e1 e2 eq (cmp_items a b d) (cmp_items a' b' d).
Proof.
  intros a a' b b' Ha. revert b b'. induction Ha as [|t t' ra ra' Ht _ IH]; intros b b' Hb; simpl.
  - inversion Hb; subst; apply rel2_ret_eq.
  - inversion Hb as [|u u' rb rb' Hu Hrb]; subst; [apply rel2_ret_eq|].
    eapply rel2_bind; [apply rel2_enter|]. intros d1 d2 ->.
    eapply rel2_bind; [apply rel2_forceT; exact Ht|]. intros vx vx' Hvx.
    eapply rel2_bind; [apply rel2_forceT; exact Hu|]. intros vy vy' Hvy.
    eapply rel2_bind; [apply rel2_compare; eassumption|]. intros c0 c1 ->. destruct c1; [apply IH; assumption | apply rel2_ret_eq | apply rel2_ret_eq].
Qed.

Lemma rel2_do_equals a a' b b' d : vr a a' -> vr b b' -> rel2 x e1 e2 eq (do_equals a b d) (do_equals a' b' d).
Proof.
  intros Ha Hb. unfold do_equals. destruct a; rel_inv; destruct b; rel_inv; try solve [r2_eq].
  - match goal with H1 : Forall2 tr items _, H2 : Forall2 tr items0 _ |- _ =>
      rewrite <- (Forall2_len _ _ _ H1), <- (Forall2_len _ _ _ H2); destruct (lenN items =? lenN items0); [apply rel2_eq_items; assumption | apply rel2_ret_eq] end.
  - match goal with H1 : Forall2 lr layers ?l1, H2 : Forall2 lr layers0 ?l2 |- _ =>
      rewrite <- (lsrel_visible_names x e1 e2 _ _ H1), <- (lsrel_visible_names x e1 e2 _ _ H2);
      destruct (list_str_eqb (visible_names layers) (visible_names layers0)); [|apply rel2_ret_eq];
      destruct (visible_names layers); [apply rel2_ret_eq|];
      eapply rel2_bind; [apply rel2_run_asserts; exact H1|]; intros ? ? _;
      eapply rel2_bind; [apply rel2_run_asserts; exact H2|]; intros ? ? _;
      apply rel2_eq_fields; assumption end.
Qed.

Lemma rel2_do_compare a a' b b' d : vr a a' -> vr b b' -> rel2 x e1 e2 eq (do_compare a b d) (do_compare a' b' d).
Proof.
  intros Ha Hb. unfold do_compare. destruct a; rel_inv; destruct b; rel_inv; try solve [r2_eq].
  apply rel2_cmp_items; assumption.
Qed.

Lemma rel2_do_manifest s v v' d : vr v v' -> rel2 x e1 e2 eq (do_manifest s v d) (do_manifest s v' d).
Proof.
  intros Hv. unfold do_manifest. destruct v; rel_inv; try solve [r2_eq].
  - eapply rel2_bind with (Q := Forall2 eq).
    + apply rel2_mapM. eapply Forall2_imp; [|eassumption]. intros t t' Ht.
      eapply rel2_bind; [apply rel2_enter|]. intros d1 d2 ->.
      eapply rel2_bind; [apply rel2_forceT; exact Ht|]. intros y y' Hy. apply rel2_manifest. exact Hy.
    + intros js js' Hjs. apply rel2_ret. f_equal. induction Hjs; [reflexivity | congruence].
  - match goal with H1 : Forall2 lr layers ?l1 |- _ =>
      rewrite <- (lsrel_visible_names x e1 e2 _ _ H1);
      eapply rel2_bind; [apply rel2_run_asserts; exact H1|]; intros ? ? _;
      eapply rel2_bind with (Q := Forall2 eq);
      [ apply rel2_mapM; apply Forall2_refl; intros n _;
        eapply rel2_bind; [apply rel2_enter|]; intros d1 d2 ->;
        eapply rel2_bind; [apply rel2_field_at; exact H1|]; intros y y' Hy;
        eapply rel2_bind; [apply rel2_manifest; exact Hy|]; intros j j' ->; apply rel2_ret_eq
      | intros js js' Hjs; apply rel2_ret; f_equal; induction Hjs; [reflexivity | congruence] ] end.
Qed.

Lemma rel2_cond_bool v v' : vr v v' -> rel2 x e1 e2 eq (cond_bool v) (cond_bool v').
Proof. intros H. unfold cond_bool. destruct v; rel_inv; r2_eq. Qed.
Hint Resolve rel2_do_equals rel2_do_compare rel2_do_manifest rel2_cond_bool : rel2.

(* ---- expressions ---- *)
Lemma lr_object locals asserts fs fs' en en' std vs io :
  er en en' vs io ->
  Forall (fun p => closed (map fst locals ++ vs) true (snd p)) locals ->
  Forall (fun a => closed (map fst locals ++ vs) true (fst a) /\ closed_opt (map fst locals ++ vs) true (snd a)) asserts ->
  Forall2 (fr locals vs) fs fs' ->
  lr (MkLayer locals asserts fs en std) (MkLayer locals asserts fs' en' std).
Proof.
  intros He Hl Ha Hf. econstructor; [exact He | | exact Hf].
  eapply Forall_impl; [|exact Ha]. intros a [Hc Hm]. split; [split; assumption|].
  intros m Em. rewrite Em in Hm. inversion Hm; subst. split; assumption.
Qed.

Lemma Forall2_diag {A} (P : A -> Prop) l : Forall P l -> Forall2 (fun a a' => a = a' /\ P a) l l.
Proof. induction 1; constructor; auto. Qed.

Lemma rel2_un_op_rel op v v' : vr v v' -> rel2 x e1 e2 vr (un_op op v) (un_op op v').
Proof. intros H. destruct v; rel_inv; try apply rel2_un_op; unfold un_op; destruct op; r2_tac. Qed.

Lemma is_fun_rel v v' : vr v v' -> is_fun v = is_fun v'.
Proof. intros H. destruct v; rel_inv; reflexivity. Qed.

Lemma rel2_do_eval en en' vs io e d : er en en' vs io -> closed vs io e -> rel2 x e1 e2 vr (do_eval en e d) (do_eval en' e d).
Proof.
  intros He Hc. unfold do_eval. destruct e; inversion Hc; subst; try solve [r2_tac].
  - (* CSelf *)
    destruct (erel_lookup_obj x e1 e2 Hdead _ _ _ _ He eq_refl) as (ls & ls' & i & c & E & E' & Hls). rewrite E, E'.
    apply rel2_ret. constructor. exact Hls.
  - (* CVar *)
    destruct (erel_lookup_var x e1 e2 Hdead _ _ _ _ He _ ltac:(eassumption)) as (t & t' & -> & -> & Ht). r2_tac.
  - (* CObject *)
    eapply rel2_bind; [eapply rel2_build_fields; try eassumption; constructor|]. intros fs fs' Hfs.
    apply rel2_ret. constructor. constructor; [|constructor]. eapply lr_object; eassumption.
  - (* CObjComp *)
    eapply rel2_bind; [eapply rel2_comp_envs; eassumption|]. intros envs envs' Henvs.
    eapply rel2_bind; [eapply (rel2_build_comp_fields x e1 e2 locals vs); try eassumption; constructor|]. intros fs fs' Hfs.
    apply rel2_ret. constructor. constructor; [|constructor]. econstructor; [exact He | constructor | exact Hfs].
  - (* CArray *)
    apply rel2_ret. constructor. eapply Forall2_map_intro; [apply Forall2_diag; eassumption|].
    intros a a' [<- Ha]. econstructor; eassumption.
  - (* CArrComp *)
    eapply rel2_bind; [eapply rel2_comp_envs; eassumption|]. intros envs envs' Henvs.
    apply rel2_ret. constructor. eapply Forall2_map_intro; [exact Henvs|]. intros a a' Ha. econstructor; [exact Ha | assumption].
  - (* CInSuper *)
    eapply rel2_bind; [eapply rel2_eval; eassumption|]. intros v v' Hv. destruct v; rel_inv; try solve [r2_tac].
    eapply (rel2_with_super x e1 e2 Hdead); [exact He|]. intros ls ls' i Hls. apply rel2_ret. rewrite (lsrel_has_field x e1 e2 ls ls' (i + 1) s Hls). constructor.
  - (* CCall *)
    eapply rel2_bind; [eapply rel2_eval; eassumption|]. intros fv fv' Hfv. rewrite <- (is_fun_rel _ _ Hfv). destruct (is_fun fv); [|r2_tac].
    eapply rel2_bind; [apply rel2_ask_ts_tail|]. intros ot ot' ->. apply rel2_apply; [exact Hfv | |].
    + eapply Forall2_map_intro; [apply Forall2_diag; eassumption|]. intros a a' [<- Ha]. econstructor; eassumption.
    + eapply Forall2_map_intro; [apply Forall2_diag; eassumption|]. intros p p' [<- Hp]. split; [reflexivity|]. simpl. econstructor; eassumption.
  - (* CLocal *)
    eapply rel2_eval; [|eassumption].
    change (map fst binds ++ vs) with (map fst (@nil (str * thunk)) ++ map fst binds ++ vs). constructor; [constructor | assumption | exact He].
  - (* CUn *)
    eapply rel2_bind; [eapply rel2_eval; eassumption|]. intros v v' Hv. apply rel2_un_op_rel. exact Hv.
  - (* CAssert *)
    eapply rel2_bind; [eapply rel2_run_assert; simpl; eassumption|]. intros ? ? _. eapply rel2_eval; eassumption.
Qed.
Hint Resolve rel2_do_eval : rel2.

Lemma rel2_do_force t t' d : tr t t' -> rel2 x e1 e2 vr (do_force t d) (do_force t' d).
Proof. intros H. unfold do_force. destruct t; rel_inv; r2_tac. Qed.

Lemma rel2_step_fn t t' d : task_rel x e1 e2 t t' -> rel2 x e1 e2 (ans_rel x e1 e2) (step t d) (step t' d).
Proof.
  intros H. unfold step. destruct t, t'; simpl in H; try contradiction.
  - destruct H as (<- & vs & io & He & Hc). eapply rel2_bind; [eapply rel2_do_eval; eassumption|]. intros r r' Hr. apply rel2_ret. exact Hr.
  - eapply rel2_bind; [apply rel2_do_force; exact H|]. intros r r' Hr. apply rel2_ret. exact Hr.
  - destruct H as (Hf & Hp & Hn & <-). eapply rel2_bind; [apply rel2_do_apply; assumption|]. intros r r' Hr. apply rel2_ret. exact Hr.
  - destruct H as (Hl & <- & <-). eapply rel2_bind; [apply rel2_do_field; assumption|]. intros r r' Hr. apply rel2_ret. exact Hr.
  - destruct H as (Ha & Hb). eapply rel2_bind; [apply rel2_do_equals; assumption|]. intros r r' ->. apply rel2_ret. reflexivity.
  - destruct H as (Ha & Hb). eapply rel2_bind; [apply rel2_do_compare; assumption|]. intros r r' ->. apply rel2_ret. reflexivity.
  - destruct H as (<- & Hv). eapply rel2_bind; [apply rel2_do_manifest; assumption|]. intros r r' ->. apply rel2_ret. reflexivity.
Qed.

Lemma run_task_rel : forall fuel c, rec_rel x e1 e2 (run_task fuel c) (run_task fuel c).
Proof.
  induction fuel as [|n IH]; intros c t t' d Ht.
  - split; reflexivity.
  - simpl. apply rel2_step_fn; [exact Ht | apply IH].
Qed.
End DeadMain.
