(* Proofs/Utf8_proofs.v — the lexer's UTF-8 decoder against the Table 3-7
   specification. *)
From RJ Require Import Base.Outcome Model.Utf8.
From Coq Require Import Lia.
Local Open Scope N_scope.

(* The decoder as written accepts the overlong lead bytes C0 / C1. *)
Lemma decode_is_lossy_refuted :
  exists bs, @decode_all unit bs <> Ok (lossy bs).
Proof. exists [0xC1; 0x81]. vm_compute. discriminate. Qed.
