(* Proofs/Utf8_proofs.v — the lexer's UTF-8 decoder (Model/Utf8.v, bit
   operations as in the source) against the Table 3-7 automaton [lossy], and
   the automaton against the textbook encoder.

   Method: facts about single bytes are established by enumeration of the 256
   byte values inside the kernel (vm_compute); the multi-byte structure is
   handled symbolically through an intermediate arithmetic decoder
   [decode_arith]. *)
From RJ Require Import Base.Outcome Model.Utf8.
From Coq Require Import Lia.
Local Open Scope N_scope.

Definition bytes_ok (bs : list N) : Prop := Forall (fun b => b < 256) bs.

Lemma bytes_ok_skipn k bs : bytes_ok bs -> bytes_ok (skipn k bs).
Proof.
  revert bs. induction k as [|k IH]; intros bs H; [exact H|].
  destruct bs as [|b r]; [exact H|]. apply IH. inversion H; assumption.
Qed.

(* ---- enumeration of bytes ---- *)
Definition all_bytes : list N := map N.of_nat (seq 0 256).

Lemma in_all_bytes b : b < 256 -> In b all_bytes.
Proof.
  intros H. unfold all_bytes. apply in_map_iff. exists (N.to_nat b).
  split; [lia|]. apply in_seq. lia.
Qed.

Lemma byte_forall (P : N -> bool) :
  forallb P all_bytes = true -> forall b, b < 256 -> P b = true.
Proof. intros H b Hb. rewrite forallb_forall in H. apply H, in_all_bytes, Hb. Qed.

Lemma byte_forall2 (P : N -> N -> bool) :
  forallb (fun a => forallb (P a) all_bytes) all_bytes = true ->
  forall a b, a < 256 -> b < 256 -> P a b = true.
Proof.
  intros H a b Ha Hb. rewrite forallb_forall in H.
  exact (byte_forall (P a) (H a (in_all_bytes a Ha)) b Hb).
Qed.

Lemma in_range_iff lo hi b : in_range lo hi b = true <-> lo <= b <= hi.
Proof. unfold in_range. rewrite andb_true_iff, !N.leb_le. tauto. Qed.

Lemma in_range_false_iff lo hi b : in_range lo hi b = false <-> (b < lo \/ hi < b).
Proof.
  unfold in_range. rewrite andb_false_iff, !N.leb_gt. tauto.
Qed.

(* ---- single-byte facts (by enumeration) ---- *)
Lemma is_cont_range b : b < 256 -> is_cont b = in_range 0x80 0xBF b.
Proof.
  intros H. apply Bool.eqb_prop.
  exact (byte_forall (fun b => Bool.eqb (is_cont b) (in_range 0x80 0xBF b)) eq_refl b H).
Qed.

Lemma land63 b : b < 256 -> in_range 0x80 0xBF b = true -> N.land b 63 = b - 0x80.
Proof.
  intros H R. apply N.eqb_eq.
  pose proof (byte_forall (fun b => implb (in_range 0x80 0xBF b) (N.land b 63 =? b - 0x80)) eq_refl b H) as P.
  cbv beta in P. rewrite R in P. exact P.
Qed.

Lemma land31 b : b < 256 -> in_range 0xC0 0xDF b = true -> N.land b 31 = b - 0xC0.
Proof.
  intros H R. apply N.eqb_eq.
  pose proof (byte_forall (fun b => implb (in_range 0xC0 0xDF b) (N.land b 31 =? b - 0xC0)) eq_refl b H) as P.
  cbv beta in P. rewrite R in P. exact P.
Qed.

Lemma land15 b : b < 256 -> in_range 0xE0 0xEF b = true -> N.land b 15 = b - 0xE0.
Proof.
  intros H R. apply N.eqb_eq.
  pose proof (byte_forall (fun b => implb (in_range 0xE0 0xEF b) (N.land b 15 =? b - 0xE0)) eq_refl b H) as P.
  cbv beta in P. rewrite R in P. exact P.
Qed.

Lemma land7 b : b < 256 -> in_range 0xF0 0xF7 b = true -> N.land b 7 = b - 0xF0.
Proof.
  intros H R. apply N.eqb_eq.
  pose proof (byte_forall (fun b => implb (in_range 0xF0 0xF7 b) (N.land b 7 =? b - 0xF0)) eq_refl b H) as P.
  cbv beta in P. rewrite R in P. exact P.
Qed.

(* the second-byte range as a function of the lead byte *)
Definition lo3 (b0 : N) : N := if b0 =? 0xE0 then 0xA0 else 0x80.
Definition hi3 (b0 : N) : N := if b0 =? 0xED then 0x9F else 0xBF.
Definition lo4 (b0 : N) : N := if b0 =? 0xF0 then 0x90 else 0x80.
Definition hi4 (b0 : N) : N := if b0 =? 0xF4 then 0x8F else 0xBF.

Lemma second3_range b0 b1 : b0 < 256 -> b1 < 256 -> in_range 0xE0 0xEF b0 = true ->
  second3_ok b0 b1 = in_range (lo3 b0) (hi3 b0) b1.
Proof.
  intros H0 H1 R. apply Bool.eqb_prop.
  pose proof (byte_forall2 (fun b0 b1 => implb (in_range 0xE0 0xEF b0)
                (Bool.eqb (second3_ok b0 b1) (in_range (lo3 b0) (hi3 b0) b1))) eq_refl b0 b1 H0 H1) as P.
  cbv beta in P. rewrite R in P. exact P.
Qed.

Lemma second4_range b0 b1 : b0 < 256 -> b1 < 256 -> in_range 0xF0 0xF7 b0 = true ->
  second4_ok b0 b1 = in_range 0xF0 0xF4 b0 && in_range (lo4 b0) (hi4 b0) b1.
Proof.
  intros H0 H1 R. apply Bool.eqb_prop.
  pose proof (byte_forall2 (fun b0 b1 => implb (in_range 0xF0 0xF7 b0)
                (Bool.eqb (second4_ok b0 b1) (in_range 0xF0 0xF4 b0 && in_range (lo4 b0) (hi4 b0) b1)))
                eq_refl b0 b1 H0 H1) as P.
  cbv beta in P. rewrite R in P. exact P.
Qed.

(* ---- the row of Table 3-7 as a function of the lead byte ---- *)
Definition row_of (b0 : N) : option (N * list (N * N)) :=
  if b0 <=? 0x7F then Some (0, [])
  else if in_range lead2_lo lead2_hi b0 then Some (0xC0, [cont_range])
  else if in_range 0xE0 0xEF b0 then Some (0xE0, [(lo3 b0, hi3 b0); cont_range])
  else if in_range 0xF0 0xF7 b0 then
    if in_range 0xF0 0xF4 b0 then Some (0xF0, [(lo4 b0, hi4 b0); cont_range; cont_range]) else None
  else None.

Definition pair_eqb (a b : N * N) : bool := (fst a =? fst b) && (snd a =? snd b).
Fixpoint trail_eqb (a b : list (N * N)) : bool :=
  match a, b with
  | [], [] => true
  | x :: a', y :: b' => pair_eqb x y && trail_eqb a' b'
  | _, _ => false
  end.
Lemma trail_eqb_eq a b : trail_eqb a b = true -> a = b.
Proof.
  revert b. induction a as [|[x1 x2] a IH]; destruct b as [|[y1 y2] b]; simpl; intros H; try discriminate; auto.
  apply andb_true_iff in H as [H1 H2]. unfold pair_eqb in H1. simpl in H1.
  apply andb_true_iff in H1 as [Ha Hb]. apply N.eqb_eq in Ha, Hb. subst. f_equal. apply IH, H2.
Qed.

Definition row_eqb (a : option row) (b : option (N * list (N * N))) : bool :=
  match a, b with
  | None, None => true
  | Some r, Some (base, tr) => (r_base r =? base) && trail_eqb (r_trail r) tr
  | _, _ => false
  end.

Lemma find_row_of b0 : b0 < 256 -> row_eqb (find_row b0) (row_of b0) = true.
Proof. exact (byte_forall (fun b0 => row_eqb (find_row b0) (row_of b0)) eq_refl b0). Qed.

(* ---- bit operations as arithmetic ---- *)
Lemma testbit_small y k n : y < 2 ^ k -> k <= n -> N.testbit y n = false.
Proof.
  intros Hy Hn. destruct (N.eq_dec y 0) as [->|Hy0]; [apply N.bits_0|].
  apply N.bits_above_log2. apply N.log2_lt_pow2; [lia|].
  eapply N.lt_le_trans; [exact Hy|]. apply N.pow_le_mono_r; lia.
Qed.

Lemma land_shift_small x y k : y < 2 ^ k -> N.land (x * 2 ^ k) y = 0.
Proof.
  intros Hy. apply N.bits_inj; intros n; rewrite N.land_spec, N.bits_0.
  destruct (N.lt_ge_cases n k) as [Hn|Hn].
  - rewrite N.mul_pow2_bits_low by exact Hn; reflexivity.
  - rewrite (testbit_small y k n Hy Hn). apply andb_false_r.
Qed.

Lemma lor_shiftl_add x y k : y < 2 ^ k -> N.lor (N.shiftl x k) y = x * 2 ^ k + y.
Proof.
  intros Hy. rewrite N.shiftl_mul_pow2.
  rewrite <- N.lxor_lor by (apply land_shift_small; exact Hy).
  symmetry. apply N.add_nocarry_lxor. apply land_shift_small; exact Hy.
Qed.

Lemma lor6 x y : y < 64 -> N.lor (N.shiftl x 6) y = x * 64 + y.
Proof. intros H. rewrite (lor_shiftl_add x y 6) by exact H. reflexivity. Qed.

Lemma lor6_12 x y z : y < 64 -> z < 64 ->
  N.lor (N.lor (N.shiftl x 12) (N.shiftl y 6)) z = (x * 64 + y) * 64 + z.
Proof.
  intros Hy Hz.
  replace (N.shiftl x 12) with (N.shiftl (N.shiftl x 6) 6) by (rewrite N.shiftl_shiftl; reflexivity).
  rewrite <- N.shiftl_lor, (lor6 x y Hy). apply lor6, Hz.
Qed.

Lemma lor6_12_18 x y z w : y < 64 -> z < 64 -> w < 64 ->
  N.lor (N.lor (N.lor (N.shiftl x 18) (N.shiftl y 12)) (N.shiftl z 6)) w = ((x * 64 + y) * 64 + z) * 64 + w.
Proof.
  intros Hy Hz Hw.
  replace (N.shiftl x 18) with (N.shiftl (N.shiftl x 12) 6) by (rewrite N.shiftl_shiftl; reflexivity).
  replace (N.shiftl y 12) with (N.shiftl (N.shiftl y 6) 6) by (rewrite N.shiftl_shiftl; reflexivity).
  rewrite <- !N.shiftl_lor, (lor6_12 x y z Hy Hz). apply lor6, Hw.
Qed.

Lemma from_u32_ok {E} cp : is_scalar cp = true -> @from_u32_unwrap E cp = Ok cp.
Proof. intros H. unfold from_u32_unwrap. rewrite H. reflexivity. Qed.

Lemma is_scalar_iff cp : is_scalar cp = true <-> (cp < 0xD800 \/ 0xDFFF < cp <= 0x10FFFF).
Proof. unfold is_scalar. rewrite orb_true_iff, andb_true_iff, !N.ltb_lt, N.leb_le. tauto. Qed.

(* ---- the intermediate arithmetic decoder ---- *)
Fixpoint match_trail (trail : list (N * N)) (acc : N) (rest : list N) : nat * option N :=
  match trail with
  | [] => (0%nat, Some acc)
  | (lo, hi) :: tr =>
      match rest with
      | [] => (0%nat, None)
      | b :: r =>
          if in_range lo hi b then
            let '(k, oc) := match_trail tr (acc * 64 + (b - 0x80)) r in (S k, oc)
          else (0%nat, None)
      end
  end.

Definition decode_arith (b0 : N) (rest : list N) : nat * option N :=
  match row_of b0 with
  | None => (0%nat, None)
  | Some (base, trail) => match_trail trail (b0 - base) rest
  end.

Lemma match_trail_le trail : forall acc rest, (fst (match_trail trail acc rest) <= length rest)%nat.
Proof.
  induction trail as [|[lo hi] tr IH]; intros acc rest; cbn [match_trail fst]; [lia|].
  destruct rest as [|b r]; cbn [fst length]; [lia|].
  destruct (in_range lo hi b); cbn [fst]; [|lia].
  specialize (IH (acc * 64 + (b - 0x80)) r).
  destruct (match_trail tr (acc * 64 + (b - 128)) r) as [k oc]. cbn [fst] in *. lia.
Qed.

Lemma decode_arith_le b0 rest : (fst (decode_arith b0 rest) <= length rest)%nat.
Proof.
  unfold decode_arith. destruct (row_of b0) as [[base tr]|]; [apply match_trail_le|cbn; lia].
Qed.

(* ---- the code's bit-level decoder is the arithmetic decoder ---- *)
Lemma decode_eq {E} b0 rest : b0 < 256 -> bytes_ok rest ->
  @decode_cont_char E b0 rest = Ok (decode_arith b0 rest).
Proof.
  intros H0 Hr. unfold decode_cont_char, decode_arith, row_of.
  destruct (b0 <=? 0x7F) eqn:HA.
  { cbn [match_trail]. rewrite N.sub_0_r. reflexivity. }
  destruct (in_range lead2_lo lead2_hi b0) eqn:H2.
  { assert (R0 : in_range 0xC0 0xDF b0 = true).
    { apply in_range_iff in H2. apply in_range_iff. unfold lead2_lo, lead2_hi in H2. lia. }
    destruct rest as [|b1 r1]; [reflexivity|].
    inversion Hr as [|? ? H1 Hr1]; subst.
    cbn [safe_get nth match_trail]. unfold cont_range. rewrite (is_cont_range b1 H1).
    destruct (in_range 0x80 0xBF b1) eqn:R1; cbn [negb]; [|reflexivity].
    rewrite (land31 b0 H0 R0), (land63 b1 H1 R1).
    apply in_range_iff in R0, R1.
    rewrite lor6 by lia. rewrite from_u32_ok by (apply is_scalar_iff; lia). reflexivity. }
  destruct (in_range 0xE0 0xEF b0) eqn:H3.
  { destruct rest as [|b1 r1].
    { cbn [safe_get nth match_trail]. rewrite (second3_range b0 0 H0 ltac:(lia) H3).
      replace (in_range (lo3 b0) (hi3 b0) 0) with false; [reflexivity|].
      symmetry. apply in_range_false_iff. unfold lo3. destruct (b0 =? 224); lia. }
    inversion Hr as [|? ? H1 Hr1]; subst.
    cbn [safe_get nth match_trail]. rewrite (second3_range b0 b1 H0 H1 H3).
    destruct (in_range (lo3 b0) (hi3 b0) b1) eqn:R1; cbn [negb]; [|reflexivity].
    assert (R1' : in_range 0x80 0xBF b1 = true).
    { apply in_range_iff in R1. apply in_range_iff. unfold lo3, hi3 in R1.
      destruct (b0 =? 224); destruct (b0 =? 237); lia. }
    destruct r1 as [|b2 r2]; [reflexivity|].
    inversion Hr1 as [|? ? H2' Hr2]; subst.
    cbn [nth]. unfold cont_range. rewrite (is_cont_range b2 H2').
    destruct (in_range 0x80 0xBF b2) eqn:R2; cbn [negb]; [|reflexivity].
    rewrite (land15 b0 H0 H3), (land63 b1 H1 R1'), (land63 b2 H2' R2).
    cbn [match_trail].
    pose proof R1 as R1k. apply in_range_iff in H3, R1', R2, R1k.
    rewrite lor6_12 by lia.
    rewrite from_u32_ok; [reflexivity|].
    apply is_scalar_iff. unfold lo3, hi3 in R1k.
    destruct (N.eqb_spec b0 224) as [E1|E1]; destruct (N.eqb_spec b0 237) as [E2|E2]; lia. }
  destruct (in_range 0xF0 0xF7 b0) eqn:H4; [|reflexivity].
  destruct rest as [|b1 r1].
  { cbn [safe_get nth]. rewrite (second4_range b0 0 H0 ltac:(lia) H4).
    destruct (in_range 0xF0 0xF4 b0); [|reflexivity].
    replace (in_range (lo4 b0) (hi4 b0) 0) with false; [reflexivity|].
    symmetry. apply in_range_false_iff. unfold lo4. destruct (b0 =? 240); lia. }
  inversion Hr as [|? ? H1 Hr1]; subst.
  cbn [safe_get nth]. rewrite (second4_range b0 b1 H0 H1 H4).
  destruct (in_range 0xF0 0xF4 b0) eqn:H4'; cbn [andb negb]; [|reflexivity].
  cbn [match_trail].
  destruct (in_range (lo4 b0) (hi4 b0) b1) eqn:R1; cbn [negb]; [|reflexivity].
  assert (R1' : in_range 0x80 0xBF b1 = true).
  { apply in_range_iff in R1. apply in_range_iff. unfold lo4, hi4 in R1.
    destruct (b0 =? 240); destruct (b0 =? 244); lia. }
  destruct r1 as [|b2 r2]; [reflexivity|].
  inversion Hr1 as [|? ? H2' Hr2]; subst.
  cbn [nth]. unfold cont_range. rewrite (is_cont_range b2 H2').
  destruct (in_range 0x80 0xBF b2) eqn:R2; cbn [negb]; [|reflexivity].
  destruct r2 as [|b3 r3]; [reflexivity|].
  inversion Hr2 as [|? ? H3' Hr3]; subst.
  cbn [nth]. rewrite (is_cont_range b3 H3').
  destruct (in_range 0x80 0xBF b3) eqn:R3; cbn [negb]; [|reflexivity].
  rewrite (land7 b0 H0 H4), (land63 b1 H1 R1'), (land63 b2 H2' R2), (land63 b3 H3' R3).
  pose proof R1 as R1k. apply in_range_iff in H4', R1', R2, R3, R1k.
  rewrite lor6_12_18 by lia.
  rewrite from_u32_ok; [reflexivity|].
  apply is_scalar_iff. unfold lo4, hi4 in R1k.
  destruct (N.eqb_spec b0 240) as [E1|E1]; destruct (N.eqb_spec b0 244) as [E2|E2]; lia.
Qed.

(* ---- the Table 3-7 automaton is the arithmetic decoder ---- *)
Definition or_repl (oc : option N) : N := match oc with Some c => c | None => replacement end.

Lemma lossy_idle_step b r :
  lossy_from LIdle (b :: r) = let '(out, st') := lossy_idle b in out ++ lossy_from st' r.
Proof. reflexivity. Qed.

Lemma lossy_seq trail : forall acc rest, trail <> [] ->
  lossy_from (LSeq trail acc) rest =
  let '(k, oc) := match_trail trail acc rest in or_repl oc :: lossy_from LIdle (skipn k rest).
Proof.
  induction trail as [|[lo hi] tr IH]; intros acc rest Hne; [congruence|].
  destruct rest as [|b r]; [reflexivity|].
  cbn [lossy_from lossy_step match_trail].
  destruct (in_range lo hi b) eqn:R.
  - destruct tr as [|p tr'].
    + reflexivity.
    + cbn [app]. rewrite IH by congruence.
      destruct (match_trail (p :: tr') (acc * 64 + (b - 128)) r) as [k oc]. reflexivity.
  - cbn [skipn or_repl]. rewrite lossy_idle_step.
    destruct (lossy_idle b) as [out st']. reflexivity.
Qed.

Lemma lossy_lead b0 rest : b0 < 256 ->
  lossy_from LIdle (b0 :: rest) =
  let '(k, oc) := decode_arith b0 rest in or_repl oc :: lossy_from LIdle (skipn k rest).
Proof.
  intros H0. rewrite lossy_idle_step. unfold lossy_idle, decode_arith.
  pose proof (find_row_of b0 H0) as HR. unfold row_eqb in HR.
  destruct (find_row b0) as [r|]; destruct (row_of b0) as [[base tr]|] eqn:Hrow; try discriminate.
  2:{ reflexivity. }
  apply andb_true_iff in HR as [Hb Ht]. apply N.eqb_eq in Hb. apply trail_eqb_eq in Ht. subst base tr.
  destruct (r_trail r) as [|p tr] eqn:Htr.
  - cbn [match_trail app skipn or_repl].
    replace (b0 - r_base r) with b0; [reflexivity|].
    unfold row_of in Hrow.
    repeat match type of Hrow with (if ?c then _ else _) = _ => destruct c end; try discriminate.
    injection Hrow as <-. lia.
  - cbn [app]. apply lossy_seq. congruence.
Qed.

Theorem decode_all_fuel_lossy {E} : forall fuel bs, (length bs < fuel)%nat -> bytes_ok bs ->
  @decode_all_fuel E fuel bs = Ok (lossy bs).
Proof.
  induction fuel as [|f IH]; intros bs Hl Hb; [lia|].
  destruct bs as [|b0 rest]; [reflexivity|].
  inversion Hb as [|? ? H0 Hr]; subst.
  cbn [decode_all_fuel]. rewrite (decode_eq b0 rest H0 Hr). cbn [obind].
  unfold lossy. rewrite (lossy_lead b0 rest H0).
  pose proof (decode_arith_le b0 rest) as Hk.
  destruct (decode_arith b0 rest) as [k oc]. cbn [fst] in Hk.
  rewrite IH.
  - reflexivity.
  - rewrite skipn_length. cbn [length] in Hl. lia.
  - apply bytes_ok_skipn, Hr.
Qed.

Theorem decode_is_lossy {E} bs : bytes_ok bs -> @decode_all E bs = Ok (lossy bs).
Proof. intros H. apply decode_all_fuel_lossy; [lia|exact H]. Qed.

Lemma from_u32_inv {E} cp c : @from_u32_unwrap E cp = Ok c -> c = cp /\ is_scalar cp = true.
Proof. unfold from_u32_unwrap. destruct (is_scalar cp); intros H; inversion H; auto. Qed.

(* whatever the decoder returns as a character is a Unicode scalar value *)
Lemma decode_scalar {E} b0 rest k c : @decode_cont_char E b0 rest = Ok (k, Some c) -> is_scalar c = true.
Proof.
  unfold decode_cont_char.
  repeat match goal with
  | |- (if ?c then _ else _) = _ -> _ => destruct c eqn:?
  | |- obind ?x _ = _ -> _ => let Hx := fresh "Hx" in destruct x eqn:Hx; cbn [obind]
  end; intros H; inversion H; subst;
  try (match goal with Hx : from_u32_unwrap _ = Ok _ |- _ => apply from_u32_inv in Hx as [-> Hs]; exact Hs end).
  apply is_scalar_iff. apply N.leb_le in Heqb. lia.
Qed.

Theorem decode_no_panic {E} b0 rest : b0 < 256 -> bytes_ok rest ->
  exists k oc, @decode_cont_char E b0 rest = Ok (k, oc) /\ (k <= length rest)%nat.
Proof.
  intros H0 Hr. rewrite (decode_eq b0 rest H0 Hr).
  pose proof (decode_arith_le b0 rest) as Hk. destruct (decode_arith b0 rest) as [k oc].
  exists k, oc. split; [reflexivity|exact Hk].
Qed.

(* ---- the specification inverts the textbook encoder ---- *)
Lemma in_range_true lo hi b : lo <= b <= hi -> in_range lo hi b = true.
Proof. apply in_range_iff. Qed.
Lemma in_range_false lo hi b : b < lo \/ hi < b -> in_range lo hi b = false.
Proof. apply in_range_false_iff. Qed.

Lemma lossy_encode cp bs : is_scalar cp = true ->
  lossy (utf8_encode cp ++ bs) = cp :: lossy bs.
Proof.
  intros Hs. apply is_scalar_iff in Hs. unfold lossy, utf8_encode.
  pose proof (N.div_mod cp 64 ltac:(lia)) as E1. pose proof (N.mod_lt cp 64 ltac:(lia)) as L1.
  pose proof (N.div_mod (cp / 64) 64 ltac:(lia)) as E2. pose proof (N.mod_lt (cp / 64) 64 ltac:(lia)) as L2.
  pose proof (N.div_mod (cp / 64 / 64) 64 ltac:(lia)) as E3. pose proof (N.mod_lt (cp / 64 / 64) 64 ltac:(lia)) as L3.
  replace (cp / 4096) with (cp / 64 / 64) by (rewrite N.div_div by lia; reflexivity).
  replace (cp / 262144) with (cp / 64 / 64 / 64) by (rewrite !N.div_div by lia; reflexivity).
  set (a1 := cp / 64) in *. set (r0 := cp mod 64) in *.
  set (a2 := a1 / 64) in *. set (r1 := a1 mod 64) in *.
  set (a3 := a2 / 64) in *. set (r2 := a2 mod 64) in *.
  destruct (cp <? 0x80) eqn:C1.
  { apply N.ltb_lt in C1. cbn [app]. rewrite lossy_lead by lia.
    unfold decode_arith, row_of. replace (cp <=? 127) with true by (symmetry; apply N.leb_le; lia).
    cbn [match_trail skipn or_repl]. f_equal. lia. }
  apply N.ltb_ge in C1.
  destruct (cp <? 0x800) eqn:C2.
  { apply N.ltb_lt in C2. cbn [app]. rewrite lossy_lead by lia.
    unfold decode_arith, row_of, lead2_lo, lead2_hi.
    replace (192 + a1 <=? 127) with false by (symmetry; apply N.leb_gt; lia).
    rewrite (in_range_true 0xC2 0xDF) by lia.
    cbn [match_trail]. unfold cont_range. rewrite (in_range_true 0x80 0xBF) by lia.
    cbn [skipn or_repl]. f_equal. lia. }
  apply N.ltb_ge in C2.
  destruct (cp <? 0x10000) eqn:C3.
  { apply N.ltb_lt in C3. cbn [app]. rewrite lossy_lead by lia.
    unfold decode_arith, row_of, lead2_lo, lead2_hi.
    replace (224 + a2 <=? 127) with false by (symmetry; apply N.leb_gt; lia).
    rewrite (in_range_false 0xC2 0xDF) by lia.
    rewrite (in_range_true 0xE0 0xEF) by lia.
    cbn [match_trail]. unfold cont_range, lo3, hi3.
    destruct (N.eqb_spec (224 + a2) 224) as [Q1|Q1]; destruct (N.eqb_spec (224 + a2) 237) as [Q2|Q2];
      try (exfalso; lia).
    all: rewrite (in_range_true _ _ (128 + r1)) by lia.
    all: rewrite (in_range_true 0x80 0xBF) by lia.
    all: cbn [skipn or_repl]; f_equal; lia. }
  apply N.ltb_ge in C3.
  cbn [app]. rewrite lossy_lead by lia.
  unfold decode_arith, row_of, lead2_lo, lead2_hi.
  replace (240 + a3 <=? 127) with false by (symmetry; apply N.leb_gt; lia).
  rewrite (in_range_false 0xC2 0xDF) by lia.
  rewrite (in_range_false 0xE0 0xEF) by lia.
  rewrite (in_range_true 0xF0 0xF7) by lia.
  rewrite (in_range_true 0xF0 0xF4) by lia.
  cbn [match_trail]. unfold cont_range, lo4, hi4.
  destruct (N.eqb_spec (240 + a3) 240) as [Q1|Q1]; destruct (N.eqb_spec (240 + a3) 244) as [Q2|Q2];
    try (exfalso; lia).
  all: rewrite (in_range_true _ _ (128 + r2)) by lia.
  all: rewrite (in_range_true 0x80 0xBF (128 + r1)) by lia.
  all: rewrite (in_range_true 0x80 0xBF (128 + r0)) by lia.
  all: cbn [skipn or_repl]; f_equal; lia.
Qed.

Theorem lossy_encode_all s : Forall (fun c => is_scalar c = true) s ->
  lossy (utf8_encode_all s) = s.
Proof.
  induction 1 as [|c s Hc Hs IH]; [reflexivity|].
  unfold utf8_encode_all in *. cbn [flat_map]. rewrite lossy_encode by exact Hc. rewrite IH. reflexivity.
Qed.

(* encoded scalars are bytes *)
Lemma utf8_encode_bytes cp : is_scalar cp = true -> bytes_ok (utf8_encode cp).
Proof.
  intros Hs. apply is_scalar_iff in Hs. unfold utf8_encode, bytes_ok.
  pose proof (N.mod_lt cp 64 ltac:(lia)). pose proof (N.mod_lt (cp / 64) 64 ltac:(lia)).
  pose proof (N.mod_lt (cp / 4096) 64 ltac:(lia)).
  assert (cp / 64 <= cp) by (apply N.div_le_upper_bound; lia).
  repeat match goal with |- context[if ?c then _ else _] => destruct c eqn:? end;
  repeat match goal with H : (_ <? _) = true |- _ => apply N.ltb_lt in H | H : (_ <? _) = false |- _ => apply N.ltb_ge in H end;
  repeat constructor; try lia.
  all: try (assert (cp / 64 < 32) by (apply N.div_lt_upper_bound; lia); lia).
  all: try (assert (cp / 4096 < 16) by (apply N.div_lt_upper_bound; lia); lia).
  all: try (assert (cp / 262144 < 5) by (apply N.div_lt_upper_bound; lia); lia).
Qed.
