(* Proofs/Memo_proofs.v — properties of the thunk state machine (Model/Memo.v). *)
From RJ Require Import Base.Outcome Model.Memo.
From Coq Require Import Lia.

Section MemoProofs.
Variable V : Type.
Notation cell := (cell V).
Notation mstate := (mstate V).
Notation event := (event V).
Notation obs := (obs V).

(* ---------------------------------------------------------------- set_cell *)

Lemma nth_set_cell_same : forall (cs : list cell) id c x,
  nth_error cs id = Some x -> nth_error (set_cell V cs id c) id = Some c.
Proof.
  induction cs as [|y cs IH]; intros id c x H; destruct id; simpl in *; try discriminate; auto.
  eauto.
Qed.

Lemma nth_set_cell_other : forall (cs : list cell) id j c,
  id <> j -> nth_error (set_cell V cs id c) j = nth_error cs j.
Proof.
  induction cs as [|y cs IH]; intros id j c Hne; destruct id, j; simpl; auto; try congruence.
Qed.

Lemma length_set_cell : forall (cs : list cell) id c, length (set_cell V cs id c) = length cs.
Proof. induction cs; intros [|id] c; simpl; auto. Qed.

(* ---------------------------------------------------------------- rank: Pending < InProgress < Done *)

Definition rank (o : option cell) : nat :=
  match o with
  | None => 0
  | Some Pending => 0
  | Some InProgress => 1
  | Some (Done _) => 2
  end.

Definition cell_at (m : mstate) (id : nat) : option cell := nth_error (cells V m) id.

Lemma step_rank_monotone : forall m e id,
  rank (cell_at m id) <= rank (cell_at (fst (step V m e)) id).
Proof.
  intros m e id. unfold step, cell_at.
  destruct (halted V m); simpl; [lia|].
  destruct e as [c|j|v|]; simpl.
  - destruct c; simpl; try lia.
    + destruct (nth_error (cells V m) id) eqn:E.
      * rewrite nth_error_app1 by (apply nth_error_Some; congruence). rewrite E. lia.
      * simpl. lia.
    + destruct (nth_error (cells V m) id) eqn:E.
      * rewrite nth_error_app1 by (apply nth_error_Some; congruence). rewrite E. lia.
      * simpl. lia.
  - destruct (nth_error (cells V m) j) as [[| |w]|] eqn:E; simpl; try lia.
    destruct (Nat.eq_dec j id) as [->|Hne].
    + rewrite (nth_set_cell_same _ _ _ _ E). rewrite E. simpl. lia.
    + rewrite nth_set_cell_other by exact Hne. lia.
  - destruct (running V m) as [|j rest]; simpl; [lia|].
    destruct (nth_error (cells V m) j) as [[| |w]|] eqn:E; simpl; try lia.
    destruct (Nat.eq_dec j id) as [->|Hne].
    + rewrite (nth_set_cell_same _ _ _ _ E). rewrite E. simpl. lia.
    + rewrite nth_set_cell_other by exact Hne. lia.
  - lia.
Qed.

Lemma exec_cons : forall m e es,
  exec V m (e :: es) =
  (fst (exec V (fst (step V m e)) es), snd (step V m e) :: snd (exec V (fst (step V m e)) es)).
Proof.
  intros. simpl. destruct (step V m e) as [m1 o]. simpl. destruct (exec V m1 es) as [m2 os]. reflexivity.
Qed.

Lemma exec_rank_monotone : forall es m id,
  rank (cell_at m id) <= rank (cell_at (fst (exec V m es)) id).
Proof.
  induction es as [|e es IH]; intros m id; [simpl; lia|].
  rewrite exec_cons. simpl.
  pose proof (step_rank_monotone m e id). pose proof (IH (fst (step V m e)) id). lia.
Qed.

(* no transition leads back to Pending *)
Lemma never_back_to_pending : forall es m id,
  cell_at m id = Some InProgress \/ (exists v, cell_at m id = Some (Done v)) ->
  cell_at (fst (exec V m es)) id <> Some Pending /\ cell_at (fst (exec V m es)) id <> None.
Proof.
  intros es m id H. pose proof (exec_rank_monotone es m id) as R.
  destruct H as [H|[v H]]; rewrite H in R; simpl in R;
    destruct (cell_at (fst (exec V m es)) id) as [[| |w]|]; simpl in R; split; try congruence; lia.
Qed.

(* ---------------------------------------------------------------- Done is stable *)

Lemma step_done_stable : forall m e id v,
  cell_at m id = Some (Done v) -> cell_at (fst (step V m e)) id = Some (Done v).
Proof.
  intros m e id v H. unfold step, cell_at in *.
  destruct (halted V m); simpl; auto.
  destruct e as [c|j|w|]; simpl; auto.
  - destruct c; simpl; auto; rewrite nth_error_app1 by (apply nth_error_Some; congruence); auto.
  - destruct (nth_error (cells V m) j) as [[| |u]|] eqn:E; simpl; auto.
    destruct (Nat.eq_dec j id) as [->|Hne]; [congruence|].
    rewrite nth_set_cell_other by exact Hne. auto.
  - destruct (running V m) as [|j rest]; simpl; auto.
    destruct (nth_error (cells V m) j) as [[| |u]|] eqn:E; simpl; auto.
    destruct (Nat.eq_dec j id) as [->|Hne]; [congruence|].
    rewrite nth_set_cell_other by exact Hne. auto.
Qed.

Theorem done_is_stable : forall es m id v,
  cell_at m id = Some (Done v) ->
  cell_at (fst (exec V m es)) id = Some (Done v).
Proof.
  induction es as [|e es IH]; intros m id v H; [exact H|].
  rewrite exec_cons. simpl. apply IH. apply step_done_stable. exact H.
Qed.

(* a Done cell answers without running anything, and the machine is unchanged *)
Theorem done_answers_without_run : forall m id v,
  halted V m = false -> cell_at m id = Some (Done v) ->
  step V m (EvForce id) = (m, OHit id v).
Proof.
  intros m id v Hh H. unfold step, cell_at in *. rewrite Hh, H. reflexivity.
Qed.

(* ---------------------------------------------------------------- each thunk runs at most once *)

Definition runs_left (m : mstate) (id : nat) : nat :=
  match cell_at m id with
  | None | Some Pending => 1
  | _ => 0
  end.

Lemma step_runs_left : forall m e id,
  (if is_run V id (snd (step V m e)) then 1 else 0) + runs_left (fst (step V m e)) id <= runs_left m id.
Proof.
  intros m e id. unfold runs_left.
  pose proof (step_rank_monotone m e id) as R.
  assert (Hnr : is_run V id (snd (step V m e)) = false ->
          (if is_run V id (snd (step V m e)) then 1 else 0) +
          match cell_at (fst (step V m e)) id with None | Some Pending => 1 | _ => 0 end
          <= match cell_at m id with None | Some Pending => 1 | _ => 0 end).
  { intros ->. simpl.
    destruct (cell_at m id) as [[| |w]|] eqn:E; simpl in R;
      destruct (cell_at (fst (step V m e)) id) as [[| |u]|]; simpl in R; lia. }
  destruct (is_run V id (snd (step V m e))) eqn:Hr; [|apply Hnr; reflexivity].
  clear Hnr. unfold step, cell_at in *.
  destruct (halted V m); simpl in *; [discriminate|].
  destruct e as [c|j|w|]; simpl in *.
  - destruct c; simpl in *; discriminate.
  - destruct (nth_error (cells V m) j) as [[| |u]|] eqn:E; simpl in *; try discriminate.
    apply Nat.eqb_eq in Hr. subst j. rewrite E.
    rewrite (nth_set_cell_same _ _ _ _ E). lia.
  - destruct (running V m) as [|j rest]; simpl in *; [discriminate|].
    destruct (nth_error (cells V m) j) as [[| |u]|]; simpl in *; discriminate.
  - discriminate.
Qed.

Lemma count_run_bound : forall es m id,
  count_run V id (snd (exec V m es)) <= runs_left m id.
Proof.
  induction es as [|e es IH]; intros m id; [unfold count_run; simpl; unfold runs_left; destruct (cell_at m id) as [[| |w]|]; lia|].
  rewrite exec_cons. unfold count_run in *. cbn [snd filter].
  pose proof (step_runs_left m e id) as S1. pose proof (IH (fst (step V m e)) id) as S2.
  destruct (is_run V id (snd (step V m e))); simpl; lia.
Qed.

(* in every trace of the machine, from every state, each thunk id is Run at most once *)
Theorem run_once : forall (m : mstate) (es : list event) (id : nat),
  count_run V id (snd (exec V m es)) <= 1.
Proof.
  intros m es id. pose proof (count_run_bound es m id) as H.
  unfold runs_left in H. destruct (cell_at m id) as [[| |w]|]; lia.
Qed.

(* ... and a thunk that is InProgress or Done is never run again *)
Theorem started_never_reruns : forall (m : mstate) es id,
  cell_at m id = Some InProgress \/ (exists v, cell_at m id = Some (Done v)) ->
  count_run V id (snd (exec V m es)) = 0.
Proof.
  intros m es id H. pose proof (count_run_bound es m id) as B. unfold runs_left in B.
  destruct H as [H|[v H]]; rewrite H in B; lia.
Qed.

(* ---------------------------------------------------------------- the assert in set_done never fires *)

(* while a run is live, the GotThunk stack is exactly the set of InProgress cells *)
Definition inv (m : mstate) : Prop :=
  halted V m = false ->
  NoDup (running V m) /\
  forall id, In id (running V m) <-> cell_at m id = Some InProgress.

Lemma inv_init : inv (@init V).
Proof.
  intros _. split; [constructor|]. intros id. unfold cell_at. simpl. split; [tauto|].
  destruct id; simpl; discriminate.
Qed.

Lemma step_inv : forall m e, inv m -> inv (fst (step V m e)) /\ snd (step V m e) <> OPanic.
Proof.
  intros m e I. unfold step.
  destruct (halted V m) eqn:Hh; simpl; [split; [exact I|discriminate]|].
  specialize (I Hh). destruct I as [ND I].
  destruct e as [c|j|w|]; simpl.
  - assert (A : forall c0 : cell, c0 <> InProgress -> forall id,
               nth_error (cells V m ++ [c0]) id = Some InProgress <-> nth_error (cells V m) id = Some InProgress).
    { intros c0 Hc id. destruct (Nat.lt_ge_cases id (length (cells V m))) as [L|G].
      - rewrite nth_error_app1 by exact L. tauto.
      - rewrite nth_error_app2 by exact G.
        assert (N : nth_error (cells V m) id = None) by (apply nth_error_None; exact G).
        rewrite N. destruct (id - length (cells V m)) as [|k]; simpl.
        + split; [intros H; inversion H; congruence|discriminate].
        + destruct k; split; discriminate. }
    destruct c as [| |v]; simpl.
    + split; [|discriminate]. intros _. simpl. split; [exact ND|].
      intros id. rewrite I. unfold cell_at. simpl. symmetry. apply A. discriminate.
    + split; [|discriminate]. intros _. split; [exact ND|exact I].
    + split; [|discriminate]. intros _. simpl. split; [exact ND|].
      intros id. rewrite I. unfold cell_at. simpl. symmetry. apply A. discriminate.
  - destruct (nth_error (cells V m) j) as [[| |u]|] eqn:E; simpl; (split; [|discriminate]); intros Hh'; simpl in *; try discriminate;
      try (split; [exact ND|exact I]).
    split.
    + constructor; [|exact ND]. intros Hin. apply I in Hin. unfold cell_at in Hin. congruence.
    + intros id. unfold cell_at. simpl. destruct (Nat.eq_dec j id) as [->|Hne].
      * rewrite (nth_set_cell_same _ _ _ _ E). split; auto.
      * rewrite nth_set_cell_other by exact Hne. fold (cell_at m id). rewrite <- I. split; [intros [H|H]; [congruence|exact H]|auto].
  - destruct (running V m) as [|j rest] eqn:R; simpl; [split; [|discriminate]; intros _; rewrite R; split; [exact ND|exact I]|].
    assert (Hj : cell_at m j = Some InProgress) by (apply I; left; reflexivity).
    unfold cell_at in Hj. rewrite Hj. simpl. split; [|discriminate]. intros _. simpl.
    inversion ND as [|? ? Hnin ND']; subst. split; [exact ND'|].
    intros id. unfold cell_at. simpl. destruct (Nat.eq_dec j id) as [->|Hne].
    + rewrite (nth_set_cell_same _ _ _ _ Hj). split; [intros H; contradiction|discriminate].
    + rewrite nth_set_cell_other by exact Hne. fold (cell_at m id). rewrite <- I. split; [intros H; right; exact H|intros [H|H]; [congruence|exact H]].
  - split; [intros H; discriminate|discriminate].
Qed.

Theorem set_done_assert_never_fires : forall es m,
  inv m -> ~ In OPanic (snd (exec V m es)).
Proof.
  induction es as [|e es IH]; intros m I; [simpl; tauto|].
  rewrite exec_cons. simpl. destruct (step_inv m e I) as [I' Hn].
  intros [H|H]; [exact (Hn H)|exact (IH _ I' H)].
Qed.

(* re-entering a thunk that is being evaluated is reported as InfiniteRecursion
   and ends the run *)
Theorem inprogress_reentry_fails : forall m id,
  halted V m = false -> cell_at m id = Some InProgress ->
  snd (step V m (EvForce id)) = OCycle id /\ halted V (fst (step V m (EvForce id))) = true.
Proof.
  intros m id Hh H. unfold step, cell_at in *. rewrite Hh, H. simpl. auto.
Qed.

(* as the code is written: an evaluation error does not reset the cells that were
   being evaluated; a later request on the same program finds them InProgress *)
Theorem error_leaves_inprogress : forall m id,
  halted V m = false -> cell_at m id = Some InProgress ->
  cell_at (restart V (fst (step V m EvError))) id = Some InProgress.
Proof.
  intros m id Hh H. unfold step, restart, cell_at in *. rewrite Hh. simpl. exact H.
Qed.

(* what a Hit returns is what was stored (or what the cell was created with) *)
Theorem hit_returns_stored : forall m id v,
  snd (step V m (EvForce id)) = OHit id v -> cell_at m id = Some (Done v).
Proof.
  intros m id v. unfold step, cell_at. destruct (halted V m); simpl; [discriminate|].
  destruct (nth_error (cells V m) id) as [[| |u]|]; simpl; try discriminate.
  intros H. inversion H. reflexivity.
Qed.

End MemoProofs.

(* ---------------------------------------------------------------- a worked trace *)

(* thunk 0 = `local a = <thunk 1> + <thunk 1>`: forcing 0 runs 1 once, the second use hits *)
Example memo_trace :
  snd (exec nat init [EvAlloc Pending; EvAlloc Pending;
                      EvForce 0; EvForce 1; EvReturn 21; EvForce 1; EvReturn 42; EvForce 0; EvForce 1])
  = [OAlloc 0; OAlloc 1; ORun 0; ORun 1; OStored 1 21; OHit 1 21; OStored 0 42; OHit 0 42; OHit 1 21].
Proof. reflexivity. Qed.

(* `local x = x; x` *)
Example memo_cycle :
  snd (exec nat init [EvAlloc Pending; EvForce 0; EvForce 0; EvReturn 1])
  = [OAlloc 0; ORun 0; OCycle 0; OIgnored].
Proof. reflexivity. Qed.
