(* Proofs/Radix_round_proofs.v — closed form of SpecFloat.binary_round_aux (prec 53,
   emax 1024) on mantissas of at least 54 bits, through Flocq's [shr_truncate]; used to show
   that the sticky bit of parse_num_radix gives the correctly rounded double. *)
From Coq Require Import ZArith Lia Floats.SpecFloat.
From Flocq Require Import Core.Core Core.Digits Calc.Bracket Calc.Round IEEE754.BinarySingleNaN.
From RJ Require Import Base.F64 Proofs.Radix_float_proofs.
Local Open Scope Z_scope.

Notation fexp64 := (SpecFloat.fexp 53 1024).

Lemma fexp64_val x : fexp64 x = Z.max (x - 53) (-1074).
Proof. reflexivity. Qed.

Local Instance fexp64_valid : Valid_exp fexp64 := fexp_correct 53 1024 Hprec.

(* location of m inside its k low bits *)
Definition loc_low (m k : Z) : location :=
  let r := m mod 2 ^ k in
  if r =? 0 then loc_Exact else loc_Inexact (Z.compare (2 * r) (2 ^ k)).

Lemma pow2_even k : 0 < k -> Z.even (2 ^ k) = true.
Proof.
  intros H. replace k with (Z.succ (k - 1)) by lia. rewrite Z.pow_succ_r by lia.
  now rewrite Z.even_mul.
Qed.

Lemma new_location_pow2 k r : 0 < k -> new_location (2 ^ k) r loc_Exact =
  if r =? 0 then loc_Exact else loc_Inexact (Z.compare (2 * r) (2 ^ k)).
Proof.
  intros H. unfold new_location. rewrite pow2_even by assumption. unfold new_location_even.
  unfold Zeq_bool. destruct (Z.eqb_spec r 0) as [->|Hr].
  - reflexivity.
  - destruct (r ?= 0) eqn:E; [apply Z.compare_eq in E; contradiction| |];
      (destruct (2 * r ?= 2 ^ k); reflexivity).
Qed.

(* first truncation: D digits -> 53 digits *)
Lemma shr_fexp_big m e : 0 < m -> 54 <= Zdigits2 m -> -1074 <= Zdigits2 m + e - 53 ->
  let k := Zdigits2 m - 53 in
  shr_fexp 53 1024 m e loc_Exact = (shr_record_of_loc (m / 2 ^ k) (loc_low m k), e + k).
Proof.
  intros Hm Hd He k. unfold shr_fexp.
  rewrite (shr_truncate fexp64 m e loc_Exact fexp64_valid) by lia.
  unfold truncate. rewrite <- Zdigits2_Zdigits. rewrite fexp64_val.
  replace (Z.max (Zdigits2 m + e - 53) (-1074) - e) with k by (unfold k; lia).
  replace (Zlt_bool 0 k) with true by (symmetry; apply Z.ltb_lt; unfold k; lia).
  unfold truncate_aux. cbn [Zpower radix_val radix2]. 
  change (Zpower radix2 k) with (2 ^ k).
  rewrite new_location_pow2 by (unfold k; lia). reflexivity.
Qed.

Lemma zdigits2_bounds m : 0 < m -> 2 ^ (Zdigits2 m - 1) <= m < 2 ^ Zdigits2 m.
Proof.
  intros Hm. rewrite Zdigits2_Zdigits. pose proof (Zdigits_correct radix2 m) as H.
  rewrite Z.abs_eq in H by lia. exact H.
Qed.

Lemma zdigits2_unique m d : 1 <= d -> 2 ^ (d - 1) <= m < 2 ^ d -> Zdigits2 m = d.
Proof.
  intros Hd H. rewrite Zdigits2_Zdigits. apply Zdigits_unique.
  assert (0 < 2 ^ (d - 1)) by (apply Z.pow_pos_nonneg; lia).
  rewrite Z.abs_eq by lia. exact H.
Qed.

Lemma shr_fexp_53 q e : 2 ^ 52 <= q < 2 ^ 53 -> -1074 <= e ->
  shr_fexp 53 1024 q e loc_Exact = (shr_record_of_loc q loc_Exact, e).
Proof.
  intros Hq He. unfold shr_fexp.
  rewrite (shr_truncate fexp64 q e loc_Exact fexp64_valid) by lia.
  unfold truncate. rewrite <- Zdigits2_Zdigits. rewrite (zdigits2_unique q 53) by (try exact Hq; lia).
  rewrite fexp64_val. replace (Z.max (53 + e - 53) (-1074) - e) with 0 by lia. reflexivity.
Qed.

Lemma shr_fexp_2p53 e : -1074 <= e ->
  shr_fexp 53 1024 (2 ^ 53) e loc_Exact = (shr_record_of_loc (2 ^ 52) loc_Exact, e + 1).
Proof.
  intros He. unfold shr_fexp.
  rewrite (shr_truncate fexp64 (2 ^ 53) e loc_Exact fexp64_valid) by lia.
  unfold truncate. rewrite <- Zdigits2_Zdigits. rewrite (zdigits2_unique (2 ^ 53) 54) by lia.
  rewrite fexp64_val. replace (Z.max (54 + e - 53) (-1074) - e) with 1 by lia.
  reflexivity.
Qed.

Lemma round_ne_bounds q l : q <= round_nearest_even q l <= q + 1.
Proof. destruct l as [|[| |]]; cbn [round_nearest_even]; try lia. destruct (Z.even q); lia. Qed.

Definition big_result (sx : bool) (m e : Z) : spec_float :=
  let k := Zdigits2 m - 53 in
  let q1 := round_nearest_even (m / 2 ^ k) (loc_low m k) in
  if q1 =? 2 ^ 53 then
    (if e + k + 1 <=? 971 then S754_finite sx (Z.to_pos (2 ^ 52)) (e + k + 1) else S754_infinity sx)
  else
    (if e + k <=? 971 then S754_finite sx (Z.to_pos q1) (e + k) else S754_infinity sx).

Lemma quot_53 m : 0 < m -> 54 <= Zdigits2 m ->
  2 ^ 52 <= m / 2 ^ (Zdigits2 m - 53) < 2 ^ 53.
Proof.
  intros Hm Hd. pose proof (zdigits2_bounds m Hm) as [Hlo Hhi].
  set (D := Zdigits2 m) in *. set (k := D - 53).
  assert (Hk : 0 < 2 ^ k) by (apply Z.pow_pos_nonneg; unfold k; lia).
  replace (D - 1) with (52 + k) in Hlo by (unfold k; lia). rewrite Z.pow_add_r in Hlo by (unfold k; lia).
  replace D with (53 + k) in Hhi by (unfold k; lia). rewrite Z.pow_add_r in Hhi by (unfold k; lia).
  split.
  - apply Z.div_le_lower_bound; lia.
  - apply Z.div_lt_upper_bound; lia.
Qed.

Theorem binary_round_aux_big sx m e : 0 < m -> 54 <= Zdigits2 m -> -1074 <= Zdigits2 m + e - 53 ->
  SpecFloat.binary_round_aux 53 1024 sx m e loc_Exact = big_result sx m e.
Proof.
  intros Hm Hd He. unfold SpecFloat.binary_round_aux, big_result.
  rewrite (shr_fexp_big m e Hm Hd He). cbv zeta.
  set (k := Zdigits2 m - 53). rewrite shr_m_shr_record_of_loc, loc_of_shr_record_of_loc.
  pose proof (quot_53 m Hm Hd) as Hq. fold k in Hq.
  pose proof (round_ne_bounds (m / 2 ^ k) (loc_low m k)) as Hr.
  set (q1 := round_nearest_even (m / 2 ^ k) (loc_low m k)) in *.
  destruct (Z.eqb_spec q1 (2 ^ 53)) as [E|E].
  - rewrite E, shr_fexp_2p53 by (unfold k; lia). rewrite shr_m_shr_record_of_loc.
    change (2 ^ 52) with (Z.pos (Z.to_pos (2 ^ 52))) at 1. cbv iota.
    replace (1024 - 53) with 971 by reflexivity. unfold Zle_bool. reflexivity.
  - rewrite shr_fexp_53 by (unfold k; lia). rewrite shr_m_shr_record_of_loc.
    destruct q1 as [|p|p] eqn:Eq; try lia. replace (1024 - 53) with 971 by reflexivity. reflexivity.
Qed.

(* ---- the sticky bit -------------------------------------------------------------- *)

(* n with its lowest bit forced to one *)
Definition set_low (n : Z) : Z := if Z.odd n then n else n + 1.

Lemma compare_scale a b c : 0 < c -> (a * c ?= b * c) = (a ?= b).
Proof. intros Hc. destruct (Z.compare_spec a b) as [->|H|H]; [apply Z.compare_refl|apply Z.compare_lt_iff; nia|apply Z.compare_gt_iff; nia]. Qed.

Lemma mod_parity n k : 1 <= k -> Z.odd (n mod 2 ^ k) = Z.odd n.
Proof.
  intros Hk. replace k with (Z.succ (k - 1)) by lia. rewrite Z.pow_succ_r by lia.
  rewrite (Z.div_mod n (2 * 2 ^ (k - 1))) at 2 by (assert (0 < 2 ^ (k - 1)) by (apply Z.pow_pos_nonneg; lia); lia).
  rewrite Z.odd_add, <- Z.mul_assoc, Z.odd_mul. cbn [Z.odd andb xorb]. now destruct (Z.odd (n mod (2 * 2 ^ (k - 1)))).
Qed.

(* the k low bits of N = n * 2^j + t (0 <= t < 2^j) against those of n' *)
Lemma sticky_core n t j k : 0 <= n -> 0 <= j -> 2 <= k -> 0 <= t < 2 ^ j ->
  let n' := if t =? 0 then n else set_low n in
  let N := n * 2 ^ j + t in
  N / 2 ^ (k + j) = n' / 2 ^ k /\ loc_low N (k + j) = loc_low n' k.
Proof.
  intros Hn Hj Hk Ht n' N.
  assert (P2j : 0 < 2 ^ j) by (apply Z.pow_pos_nonneg; lia).
  assert (P2k : 0 < 2 ^ k) by (apply Z.pow_pos_nonneg; lia).
  set (h' := 2 ^ (k - 2)). assert (Ph : 0 < h') by (apply Z.pow_pos_nonneg; lia).
  assert (E2k : 2 ^ k = 4 * h').
  { unfold h'. replace k with (2 + (k - 2)) at 1 by lia. rewrite Z.pow_add_r by lia. reflexivity. }
  set (qn := n / 2 ^ k). set (a := n mod 2 ^ k).
  assert (En : n = qn * 2 ^ k + a) by (unfold qn, a; rewrite Z.mul_comm; apply Z.div_mod; lia).
  assert (Ha : 0 <= a < 2 ^ k) by (apply Z.mod_pos_bound; lia).
  assert (Hqn : 0 <= qn) by (apply Z.div_pos; lia).
  assert (Hodd : Z.odd a = Z.odd n) by (apply mod_parity; lia).
  rewrite Z.pow_add_r by lia.
  (* the two decompositions *)
  set (b := if t =? 0 then 0 else if Z.odd n then 0 else 1).
  assert (En' : n' = qn * 2 ^ k + (a + b)).
  { unfold n', b, set_low. destruct (t =? 0); [lia|]. destruct (Z.odd n); lia. }
  assert (Hab : 0 <= a + b < 2 ^ k).
  { unfold b. destruct (t =? 0); [lia|]. destruct (Z.odd n) eqn:Eo; [lia|].
    (* a is even and below 4 h' *)
    rewrite (Zodd_mod a) in Hodd.
    assert (a mod 2 = 0).
    { destruct (Z.eqb_spec (a mod 2) 1) as [E|E]; [rewrite E in Hodd; discriminate|].
      pose proof (Z.mod_pos_bound a 2 ltac:(lia)). lia. }
    assert (Ea : a = 2 * (a / 2)) by (rewrite (Z.div_mod a 2) at 1 by lia; lia).
    lia. }
  assert (EN : N = qn * (2 ^ k * 2 ^ j) + (a * 2 ^ j + t)) by (unfold N; rewrite En; ring).
  assert (HN : 0 <= a * 2 ^ j + t < 2 ^ k * 2 ^ j) by nia.
  assert (Q1 : N / (2 ^ k * 2 ^ j) = qn) by (symmetry; apply (Z.div_unique N _ qn (a * 2 ^ j + t)); [lia|lia]).
  assert (R1 : N mod (2 ^ k * 2 ^ j) = a * 2 ^ j + t) by (symmetry; apply (Z.mod_unique N _ qn (a * 2 ^ j + t)); [lia|lia]).
  assert (Q2 : n' / 2 ^ k = qn) by (symmetry; apply (Z.div_unique n' _ qn (a + b)); [lia|lia]).
  assert (R2 : n' mod 2 ^ k = a + b) by (symmetry; apply (Z.mod_unique n' _ qn (a + b)); [lia|lia]).
  split; [now rewrite Q1, Q2|].
  unfold loc_low. rewrite Z.pow_add_r by lia. rewrite R1, R2. clear Q1 Q2 R1 R2 EN En'.
  unfold b. destruct (Z.eqb_spec t 0) as [Et|Et].
  - subst t. rewrite !Z.add_0_r. destruct (Z.eqb_spec a 0) as [Ea|Ea].
    + rewrite Ea. reflexivity.
    + replace (a * 2 ^ j =? 0) with false by (symmetry; apply Z.eqb_neq; nia).
      f_equal. rewrite Z.mul_assoc. apply compare_scale. lia.
  - replace (a * 2 ^ j + t =? 0) with false by (symmetry; apply Z.eqb_neq; nia).
    assert (Hbpos : a + (if Z.odd n then 0 else 1) <> 0).
    { destruct (Z.odd n) eqn:Eo; [|lia]. intros E. rewrite Z.add_0_r in E. rewrite E in Hodd. discriminate. }
    replace (a + (if Z.odd n then 0 else 1) =? 0) with false by (symmetry; now apply Z.eqb_neq).
    f_equal.
    (* half = 2 h' * 2^j resp. 2 h' ; a against 2 h' *)
    assert (Heven_h : forall x, x = 2 * h' -> Z.odd x = false).
    { intros x ->. rewrite Z.odd_mul. reflexivity. }
    destruct (Z_lt_le_dec a (2 * h')) as [Hlt|Hge].
    + (* below the half on both sides *)
      assert (C1 : (2 * (a * 2 ^ j + t) ?= 2 ^ k * 2 ^ j) = Lt) by (apply Z.compare_lt_iff; nia).
      assert (C2 : (2 * (a + (if Z.odd n then 0 else 1)) ?= 2 ^ k) = Lt).
      { apply Z.compare_lt_iff. destruct (Z.odd n) eqn:Eo; [lia|].
        assert (a + 1 <> 2 * h').
        { intros E. assert (Ho : Z.odd (a + 1) = false) by (apply Heven_h; exact E).
          rewrite Z.odd_add, Hodd in Ho. discriminate. }
        lia. }
      now rewrite C1, C2.
    + assert (C1 : (2 * (a * 2 ^ j + t) ?= 2 ^ k * 2 ^ j) = Gt) by (apply Z.compare_gt_iff; nia).
      assert (C2 : (2 * (a + (if Z.odd n then 0 else 1)) ?= 2 ^ k) = Gt).
      { apply Z.compare_gt_iff. destruct (Z.odd n) eqn:Eo; [|lia].
        assert (a <> 2 * h').
        { intros E. assert (Ho : Z.odd a = false) by (apply Heven_h; exact E). rewrite Hodd in Ho. discriminate. }
        lia. }
      now rewrite C1, C2.
Qed.

Lemma digits_scale n t j : 0 < n -> 0 <= j -> 0 <= t < 2 ^ j -> Zdigits2 (n * 2 ^ j + t) = Zdigits2 n + j.
Proof.
  intros Hn Hj Ht. pose proof (zdigits2_bounds n Hn) as [Hlo Hhi].
  assert (HD : 1 <= Zdigits2 n).
  { destruct (Z_lt_le_dec (Zdigits2 n) 1) as [H|H]; [|exact H]. exfalso.
    assert (2 ^ Zdigits2 n <= 1).
    { destruct (Z_lt_le_dec (Zdigits2 n) 0); [rewrite Z.pow_neg_r by lia; lia|].
      replace (Zdigits2 n) with 0 by lia. reflexivity. }
    lia. }
  assert (P2j : 0 < 2 ^ j) by (apply Z.pow_pos_nonneg; lia).
  apply zdigits2_unique; [lia|].
  replace (Zdigits2 n + j - 1) with ((Zdigits2 n - 1) + j) by lia.
  rewrite !Z.pow_add_r by lia. nia.
Qed.

Lemma set_low_bounds n : 0 <= n -> n <= set_low n <= n + 1.
Proof. intros. unfold set_low. destruct (Z.odd n); lia. Qed.

Lemma digits_set_low n : 0 < n -> 2 <= Zdigits2 n -> Zdigits2 (set_low n) = Zdigits2 n.
Proof.
  intros Hn HD. pose proof (zdigits2_bounds n Hn) as [Hlo Hhi].
  apply zdigits2_unique; [lia|]. unfold set_low. destruct (Z.odd n) eqn:Eo; [lia|].
  split; [lia|].
  (* n is even and 2^D is even, so n + 1 < 2^D *)
  assert (Hne : n + 1 <> 2 ^ Zdigits2 n).
  { intros E. assert (Ho : Z.odd (n + 1) = false).
    { rewrite E. replace (Zdigits2 n) with (Z.succ (Zdigits2 n - 1)) by lia.
      rewrite Z.pow_succ_r by lia. rewrite Z.odd_mul. reflexivity. }
    rewrite Z.odd_add, Eo in Ho. discriminate. }
  lia.
Qed.

Theorem big_result_sticky sx n t j e : 0 < n -> 55 <= Zdigits2 n -> 0 <= j -> 0 <= t < 2 ^ j ->
  big_result sx (n * 2 ^ j + t) e = big_result sx (if t =? 0 then n else set_low n) (e + j).
Proof.
  intros Hn HD Hj Ht. unfold big_result.
  rewrite (digits_scale n t j Hn Hj Ht).
  assert (HD' : Zdigits2 (if t =? 0 then n else set_low n) = Zdigits2 n).
  { destruct (t =? 0); [reflexivity|]. apply digits_set_low; lia. }
  rewrite HD'. set (k := Zdigits2 n - 53).
  replace (Zdigits2 n + j - 53) with (k + j) by (unfold k; lia).
  destruct (sticky_core n t j k ltac:(lia) Hj ltac:(unfold k; lia) Ht) as [Q L].
  cbv zeta in Q, L. rewrite Q, L.
  replace (e + (k + j) + 1) with (e + j + k + 1) by lia.
  replace (e + (k + j)) with (e + j + k) by lia. reflexivity.
Qed.

(* f_of_Z on a big positive integer *)
Lemma f_of_Z_big m : 0 < m -> 54 <= Zdigits2 m -> f_of_Z m = big_result false m 0.
Proof.
  intros Hm HD. unfold f_of_Z, f_of_Z_exp, prec, emax. destruct m as [|p|p]; try lia.
  unfold SpecFloat.binary_normalize, SpecFloat.binary_round.
  replace (Z.pos (digits2_pos p)) with (Zdigits2 (Z.pos p)) by reflexivity.
  rewrite Z.add_0_r. rewrite fexp64_val.
  unfold SpecFloat.shl_align. replace (Z.max (Zdigits2 (Z.pos p) - 53) (-1074) - 0) with (Zdigits2 (Z.pos p) - 53) by lia.
  destruct (Zdigits2 (Z.pos p) - 53) eqn:E; try lia;
    apply binary_round_aux_big; lia.
Qed.

(* multiplying a normal double by 2^b, given as the double (2^52, b - 52) *)
Lemma f_mul_pow2 mx ex c : 2 ^ 52 <= Z.pos mx < 2 ^ 53 -> 0 <= ex -> -60 <= c ->
  f_mul (S754_finite false mx ex) (S754_finite false (Z.to_pos (2 ^ 52)) c) =
  if ex + c + 52 <=? 971 then S754_finite false mx (ex + c + 52) else S754_infinity false.
Proof.
  intros Hm He Hc. unfold f_mul, SFmul, prec, emax. cbn [xorb].
  set (P := Z.pos (mx * Z.to_pos (2 ^ 52))).
  assert (EP : P = Z.pos mx * 2 ^ 52 + 0) by (unfold P; rewrite Pos2Z.inj_mul; rewrite Z.add_0_r; reflexivity).
  assert (HDm : Zdigits2 (Z.pos mx) = 53) by (apply zdigits2_unique; lia).
  assert (HDP : Zdigits2 P = 105) by (rewrite EP, digits_scale; lia).
  rewrite binary_round_aux_big by (try lia; rewrite HDP; lia).
  unfold big_result. rewrite HDP. replace (105 - 53) with 52 by reflexivity.
  assert (Q : P / 2 ^ 52 = Z.pos mx) by (rewrite EP, Z.add_0_r; apply Z.div_mul; lia).
  assert (L : loc_low P 52 = loc_Exact).
  { unfold loc_low. rewrite EP, Z.add_0_r, Z.mod_mul by lia. reflexivity. }
  rewrite Q, L. cbn [round_nearest_even].
  replace (Z.pos mx =? 2 ^ 53) with false by (symmetry; apply Z.eqb_neq; lia).
  reflexivity.
Qed.
