(* Proofs/AnalyzeLoc_proofs.v — every span carried by a diagnostic of the analyzer
   is a span carried by a node of the analysed tree (continues Analyze_proofs.v). *)
From Coq Require Import Lia.
From RJ Require Import Base.Outcome Model.Token Model.Ast Model.Ir Model.Analyze Proofs.Analyze_proofs.
Local Open Scope outcome_scope.

Definition LocIn (S : list span) (N : list expr) (x : analyze_error) : Prop :=
  forall sp, In sp (error_spans x) -> In sp S \/ exists n, In n N /\ In sp (node_spans n).

Lemma LocIn_mono S S' N N' x : incl S S' -> incl N N' -> LocIn S N x -> LocIn S' N' x.
Proof.
  intros HS HN H sp Hsp. destruct (H sp Hsp) as [H1|(n & H1 & H2)]; [left; auto | right; exists n; auto].
Qed.

Definition LocE (e : expr) : Prop :=
  forall en ts x, analyze_expr e en ts = Err x -> LocIn [] (nodes e) x.

Lemma obind_err {A B} (x : res A) (f : A -> res B) e :
  obind x f = Err e -> x = Err e \/ exists a, x = Ok a /\ f a = Err e.
Proof. destruct x; simpl; intros H; try discriminate; [right; exists a; auto | left; injection H as ->; reflexivity]. Qed.

Lemma mapM_err {A B} (f : A -> res B) l x : mapM f l = Err x -> exists a, In a l /\ f a = Err x.
Proof.
  induction l as [|y t IH]; simpl; intros H; [discriminate|].
  apply obind_err in H. destruct H as [H|(b & Hb & H)]; [exists y; auto|].
  apply obind_err in H. destruct H as [H|(c & Hc & H)]; [| discriminate].
  destruct (IH H) as (a & Ha & Hf). exists a; auto.
Qed.

Lemma optM_err {A B} (f : A -> res B) o x : optM f o = Err x -> exists a, o = Some a /\ f a = Err x.
Proof.
  destruct o; simpl; intros H; [| discriminate].
  apply obind_err in H. destruct H as [H|(b & Hb & H)]; [eauto | discriminate].
Qed.

Lemma in_flat {A B} (g : A -> list B) l y a : In a l -> In y (g a) -> In y (flat g l).
Proof.
  induction l as [|z t IH]; simpl; intros Ha Hy; [contradiction|].
  apply in_app_iff. destruct Ha as [->|Ha]; auto.
Qed.

Lemma incl_flat {A B} (g : A -> list B) l a : In a l -> incl (g a) (flat g l).
Proof. intros Ha y Hy. eapply in_flat; eauto. Qed.

Lemma node_self e : In e (nodes e).
Proof. destruct e; simpl; auto. Qed.

Lemma span_self e : In (expr_span e) (node_spans e).
Proof. unfold node_spans. simpl. auto. Qed.

(* the names loop: both spans of a repeat are spans of names of the group (or of [seen]) *)
Lemma declare_names_err mk ids : forall seen e x,
  (forall o r n, error_spans (mk o r n) = [r; o]) ->
  declare_names mk ids seen e = Err x ->
  forall sp, In sp (error_spans x) -> In sp (map id_span ids) \/ In sp (map snd seen).
Proof.
  intros seen e x Hmk. revert seen e. induction ids as [|i rest IH]; intros seen e; simpl; [discriminate|].
  destruct (assoc (id_value i) seen) as [orig|] eqn:E.
  - intros H sp Hsp. injection H as <-. rewrite Hmk in Hsp. destruct Hsp as [<-|[<-|[]]]; auto.
    right. apply assoc_Some_In in E. apply in_map_iff. exists (id_value i, orig); auto.
  - intros H sp Hsp. destruct (IH _ _ H sp Hsp) as [H1|H1]; auto.
    simpl in H1. destruct H1 as [<-|H1]; auto.
Qed.

Lemma declare_top_err mk ids e x :
  (forall o r n, error_spans (mk o r n) = [r; o]) ->
  declare_names mk ids [] e = Err x -> LocIn (map id_span ids) [] x.
Proof.
  intros Hmk H sp Hsp. destruct (declare_names_err mk ids [] e x Hmk H sp Hsp) as [H1|[]]; auto.
Qed.

Lemma optM_loc o en ts x : opt_all LocE o ->
  optM (fun y => analyze_expr y en ts) o = Err x -> LocIn [] (opt_list nodes o) x.
Proof.
  intros Hq H. apply optM_err in H. destruct H as (a & -> & H). simpl in *. eapply Hq; eauto.
Qed.

Lemma param_loc p en x : param_all LocE p ->
  analyze_param_with analyze_expr en p = Err x -> LocIn [] (param_nodes nodes p) x.
Proof.
  destruct p as [n d]; simpl; intros Hq H. apply obind_err in H.
  destruct H as [H|(b & Hb & H)]; [| discriminate]. eapply optM_loc; eauto.
Qed.

Lemma param_ident_spans ps : map id_span (map param_ident ps) = params_spans ps.
Proof. unfold params_spans. rewrite map_map. reflexivity. Qed.

Lemma function_loc ps body en x : Forall (param_all LocE) ps -> LocE body ->
  analyze_function_with analyze_expr ps body en = Err x ->
  LocIn (params_spans ps) (flat (param_nodes nodes) ps ++ nodes body) x.
Proof.
  intros Hps Hb H. unfold analyze_function_with in H.
  apply obind_err in H. destruct H as [H|(inner & _ & H)].
  - apply declare_top_err in H; [| reflexivity]. rewrite param_ident_spans in H.
    eapply LocIn_mono; [apply incl_refl | | exact H]. intros ? [].
  - apply obind_err in H. destruct H as [H|(r & _ & H)].
    + apply mapM_err in H. destruct H as (p & Hin & H). rewrite Forall_forall in Hps.
      apply param_loc in H; auto. eapply LocIn_mono; [| | exact H]; [intros ? [] |].
      apply incl_appl. apply incl_flat; auto.
    + apply obind_err in H. destruct H as [H|(b & _ & H)]; [| discriminate].
      apply Hb in H. eapply LocIn_mono; [| | exact H]; [intros ? [] | apply incl_appr, incl_refl].
Qed.

Lemma bind_loc b en x : bind_all LocE b ->
  analyze_bind_with analyze_expr en b = Err x -> LocIn (bind_spans b) (bind_nodes nodes b) x.
Proof.
  destruct b as [n ps v]; simpl; intros [Hps Hv] H.
  apply obind_err in H. destruct H as [H|(b & _ & H)]; [| discriminate].
  destruct ps as [[l sp]|]; simpl in *.
  - apply function_loc in H; auto. eapply LocIn_mono; [| | exact H].
    + apply incl_tl, incl_refl.
    + apply incl_refl.
  - apply Hv in H. eapply LocIn_mono; [| | exact H]; [intros ? [] | apply incl_refl].
Qed.

Lemma binds_loc bs en x : Forall (bind_all LocE) bs ->
  mapM (analyze_bind_with analyze_expr en) bs = Err x ->
  LocIn (flat bind_spans bs) (flat (bind_nodes nodes) bs) x.
Proof.
  intros Hq H. apply mapM_err in H. destruct H as (b & Hin & H). rewrite Forall_forall in Hq.
  apply bind_loc in H; auto. eapply LocIn_mono; [| | exact H]; apply incl_flat; auto.
Qed.

Lemma assert_loc a en x : assert_all LocE a ->
  analyze_assert_with analyze_expr a en = Err x -> LocIn [] (assert_nodes nodes a) x.
Proof.
  destruct a as [sp c m]; simpl; intros [Hc Hm] H.
  apply obind_err in H. destruct H as [H|(c' & _ & H)].
  - apply Hc in H. eapply LocIn_mono; [| | exact H]; [apply incl_refl | apply incl_appl, incl_refl].
  - apply obind_err in H. destruct H as [H|(m' & _ & H)]; [| discriminate].
    apply optM_loc in H; auto. eapply LocIn_mono; [| | exact H]; [apply incl_refl | apply incl_appr, incl_refl].
Qed.

Lemma specs_loc cs : Forall (spec_all LocE) cs -> forall en x,
  analyze_comp_spec_with analyze_expr cs en = Err x -> LocIn [] (flat (spec_nodes nodes) cs) x.
Proof.
  induction 1 as [|c rest Hc Hrest IH]; intros en x H; simpl in H; [discriminate|].
  destruct c as [v e|e]; simpl in Hc; apply obind_err in H; destruct H as [H|(i & _ & H)];
    try (apply Hc in H; eapply LocIn_mono; [| | exact H]; [apply incl_refl | simpl; apply incl_appl, incl_refl]);
    (apply obind_err in H; destruct H as [H|(r & _ & H)]; [| discriminate]);
    apply IH in H; (eapply LocIn_mono; [| | exact H]; [apply incl_refl | simpl; apply incl_appr, incl_refl]).
Qed.

Lemma args_loc args en : Forall (arg_all LocE) args -> forall pos named x,
  analyze_args_with analyze_expr en args pos named = Err x -> LocIn [] (flat (arg_nodes nodes) args) x.
Proof.
  induction 1 as [|a rest Ha Hrest IH]; intros pos named x H; simpl in H; [discriminate|].
  destruct a as [e|n e]; simpl in Ha.
  - destruct named.
    + apply obind_err in H. destruct H as [H|(y & _ & H)].
      * apply Ha in H. eapply LocIn_mono; [| | exact H]; [apply incl_refl | simpl; apply incl_appl, incl_refl].
      * apply IH in H. eapply LocIn_mono; [| | exact H]; [apply incl_refl | simpl; apply incl_appr, incl_refl].
    + injection H as <-. intros sp [<-|[]]. right. exists e. split; [| apply span_self].
      simpl. apply in_app_iff. left. apply node_self.
  - apply obind_err in H. destruct H as [H|(y & _ & H)].
    + apply Ha in H. eapply LocIn_mono; [| | exact H]; [apply incl_refl | simpl; apply incl_appl, incl_refl].
    + apply IH in H. eapply LocIn_mono; [| | exact H]; [apply incl_refl | simpl; apply incl_appr, incl_refl].
Qed.

Lemma flat_app {A B} (g : A -> list B) a b : flat g (a ++ b) = flat g a ++ flat g b.
Proof. induction a as [|x t IH]; simpl; auto. rewrite IH, app_assoc. reflexivity. Qed.

Lemma fix_field_name_err fields fixf name sp x :
  fix_field_name fields fixf name sp = Err x ->
  exists f, In f fields /\ error_spans x = [sp; irf_name_span f].
Proof.
  unfold fix_field_name. destruct (assoc name fixf) as [idx|]; [| discriminate].
  destruct (nth_error fields idx) as [f|] eqn:En; [| discriminate].
  intros H; injection H as <-. exists f. split; [eapply nth_error_In; eauto | reflexivity].
Qed.

Lemma fix_field_name_ok_span fields fixf name sp r :
  fix_field_name fields fixf name sp = Ok r -> snd (fst r) = sp.
Proof.
  unfold fix_field_name. destruct (assoc name fixf) as [idx|].
  - destruct (nth_error fields idx); discriminate.
  - intros H; injection H as <-; reflexivity.
Qed.

Lemma field_name_ok_span n en fields fixf r :
  analyze_field_name_with analyze_expr en fields fixf n = Ok r -> In (snd (fst r)) (fname_spans n).
Proof.
  destruct n as [i|s sp|e sp]; simpl; intros H.
  - apply fix_field_name_ok_span in H. auto.
  - apply fix_field_name_ok_span in H. auto.
  - destruct (analyze_expr e en false); simpl in H; try discriminate. injection H as <-; simpl; auto.
Qed.

Lemma field_name_loc n en fields fixf Sacc x : fname_all LocE n ->
  analyze_field_name_with analyze_expr en fields fixf n = Err x ->
  Forall (fun f => In (irf_name_span f) Sacc) fields ->
  LocIn (fname_spans n ++ Sacc) (fname_nodes nodes n) x.
Proof.
  intros Hq H Hacc. rewrite Forall_forall in Hacc. destruct n as [i|s sp|e sp]; simpl in *.
  - apply fix_field_name_err in H. destruct H as (f & Hf & Heq). intros sp Hsp. rewrite Heq in Hsp.
    destruct Hsp as [<-|[<-|[]]]; left; simpl; auto.
  - apply fix_field_name_err in H. destruct H as (f & Hf & Heq). intros sp' Hsp. rewrite Heq in Hsp.
    destruct Hsp as [<-|[<-|[]]]; left; simpl; auto.
  - apply obind_err in H. destruct H as [H|(y & _ & H)]; [| discriminate].
    apply Hq in H. eapply LocIn_mono; [| | exact H]; [intros ? [] | apply incl_refl].
Qed.

Lemma members_loc ms outer inner : Forall (member_all LocE) ms ->
  forall locals asserts fields fixf Sacc x,
  analyze_members_with analyze_expr outer inner ms locals asserts fields fixf = Err x ->
  Forall (fun f => In (irf_name_span f) Sacc) fields ->
  LocIn (Sacc ++ flat member_spans ms) (flat (member_nodes nodes) ms) x.
Proof.
  induction 1 as [|m rest Hm Hrest IH]; intros locals asserts fields fixf Sacc x H Hacc; simpl in H; [discriminate|].
  destruct m as [b|a|f]; simpl in Hm.
  - apply obind_err in H. destruct H as [H|(l & _ & H)].
    + apply bind_loc in H; auto. eapply LocIn_mono; [| | exact H]; simpl.
      * apply incl_appr, incl_appl, incl_refl.
      * apply incl_appl, incl_refl.
    + apply IH with (Sacc := Sacc) in H; auto. eapply LocIn_mono; [| | exact H]; simpl.
      * apply incl_app; [apply incl_appl, incl_refl | apply incl_appr, incl_appr, incl_refl].
      * apply incl_appr, incl_refl.
  - apply obind_err in H. destruct H as [H|(l & _ & H)].
    + apply assert_loc in H; auto. eapply LocIn_mono; [| | exact H]; simpl.
      * intros ? [].
      * apply incl_appl, incl_refl.
    + apply IH with (Sacc := Sacc) in H; auto. eapply LocIn_mono; [| | exact H]; simpl.
      * apply incl_refl.
      * apply incl_appr, incl_refl.
  - assert (Hfn : fname_all LocE (field_fname f)) by (destruct f; simpl in *; tauto).
    apply obind_err in H. destruct H as [H|(value & _ & H)].
    + (* the value *)
      destruct f as [n plus vis v | n ps psp vis v]; simpl in *.
      * apply (proj2 Hm) in H. eapply LocIn_mono; [| | exact H]; [intros ? [] |].
        apply incl_appl, incl_appr, incl_refl.
      * apply function_loc in H; try tauto. eapply LocIn_mono; [| | exact H].
        -- apply incl_appr, incl_appl, incl_appr, incl_refl.
        -- apply incl_appl, incl_appr, incl_refl.
    + apply obind_err in H. destruct H as [H|(nm & Hnm & H)].
      * (* the name *)
        apply field_name_loc with (Sacc := Sacc) in H; auto. eapply LocIn_mono; [| | exact H].
        -- apply incl_app; [| apply incl_appl, incl_refl]. apply incl_appr. simpl. apply incl_appl.
           destruct f; simpl; [apply incl_refl | apply incl_appl, incl_refl].
        -- simpl. apply incl_appl. destruct f; simpl; apply incl_appl, incl_refl.
      * (* the rest *)
        apply field_name_ok_span in Hnm.
        apply IH with (Sacc := Sacc ++ member_spans (MField f)) in H.
        -- eapply LocIn_mono; [| | exact H]; simpl; [rewrite <- app_assoc; apply incl_refl | apply incl_appr, incl_refl].
        -- apply Forall_app. split.
           ++ revert Hacc. apply Forall_impl. intros g Hg. apply in_app_iff; auto.
           ++ constructor; [| constructor]. simpl. apply in_app_iff. right.
              destruct f; simpl in *; [auto | apply in_app_iff; auto].
Qed.

Lemma member_locals_spans ms :
  incl (map id_span (map bind_ident (member_locals ms))) (flat member_spans ms).
Proof.
  induction ms as [|m rest IH]; simpl; [apply incl_refl|].
  destruct m as [b|a|f]; simpl.
  - destruct b as [n ps v]; simpl. intros sp [<-|Hsp]; [left; auto|]. right. apply in_app_iff. right. auto.
  - exact IH.
  - apply incl_appr. exact IH.
Qed.

Lemma binds_ident_spans bs : incl (map id_span (map bind_ident bs)) (flat bind_spans bs).
Proof.
  induction bs as [|b rest IH]; simpl; [apply incl_refl|].
  destruct b as [n ps v]; simpl. intros sp [<-|Hsp]; [left; auto|]. right. apply in_app_iff. right. auto.
Qed.

Lemma objinside_loc o en x : obj_all LocE o ->
  analyze_objinside_with analyze_expr o en = Err x -> LocIn (obj_spans o) (obj_nodes nodes o) x.
Proof.
  destruct o as [ms | l1 name plus body l2 cs]; simpl; intros Hq H.
  - apply obind_err in H. destruct H as [H|(inner & _ & H)].
    + apply declare_top_err in H; [| reflexivity].
      eapply LocIn_mono; [apply member_locals_spans | | exact H]. intros ? [].
    + apply obind_err in H. destruct H as [H|([[ls as_] fs] & _ & H)]; [| discriminate].
      apply members_loc with (Sacc := []) in H; auto.
  - destruct Hq as (Hl1 & Hn & Hb & Hl2 & Hcs).
    apply obind_err in H. destruct H as [H|([parts e'] & _ & H)].
    + apply specs_loc in H; auto. eapply LocIn_mono; [| | exact H]; [intros ? [] |].
      repeat apply incl_appr. apply incl_refl.
    + apply obind_err in H. destruct H as [H|(inner & _ & H)].
      * apply declare_top_err in H; [| reflexivity].
        eapply LocIn_mono; [apply binds_ident_spans | | exact H]. intros ? [].
      * apply obind_err in H. destruct H as [H|(ls1 & _ & H)].
        { apply binds_loc in H; auto. eapply LocIn_mono; [| | exact H].
          - rewrite flat_app. apply incl_appl, incl_refl.
          - apply incl_appl, incl_refl. }
        apply obind_err in H. destruct H as [H|(ls2 & _ & H)].
        { apply binds_loc in H; auto. eapply LocIn_mono; [| | exact H].
          - rewrite flat_app. apply incl_appr, incl_refl.
          - apply incl_appr, incl_appr, incl_appr, incl_appl, incl_refl. }
        apply obind_err in H. destruct H as [H|(fn & _ & H)].
        { apply Hn in H. eapply LocIn_mono; [| | exact H]; [intros ? [] |].
          apply incl_appr, incl_appl, incl_refl. }
        apply obind_err in H. destruct H as [H|(fv & _ & H)]; [| discriminate].
        apply Hb in H. eapply LocIn_mono; [| | exact H]; [intros ? [] |].
        apply incl_appr, incl_appr, incl_appl, incl_refl.
Qed.

Lemma import_loc mk sp path x : analyze_import mk sp path = Err x -> LocIn [] (nodes path) x.
Proof.
  intros H sp' Hsp. right. exists path. split; [apply node_self|].
  assert (sp' = expr_span path); [| subst; apply span_self].
  destruct path; simpl in H; try discriminate; injection H as <-; simpl in Hsp; destruct Hsp as [<-|[]]; reflexivity.
Qed.

Lemma LocIn_node e S N x :
  incl S (node_spans e) -> incl N (nodes e) -> LocIn S N x -> LocIn [] (nodes e) x.
Proof.
  intros HS HN H sp Hsp. right. destruct (H sp Hsp) as [H1|(n & H1 & H2)];
    [exists e; split; [apply node_self | auto] | exists n; auto].
Qed.

Ltac split_err H := apply obind_err in H; destruct H as [H|(? & _ & H)].
Ltac sub_nodes := let n := fresh "n" in let Hn := fresh "Hn" in
  intros n Hn; simpl; right; rewrite ?in_app_iff in Hn; rewrite ?in_app_iff; tauto.
Ltac child H :=
  match type of H with
  | analyze_expr ?c _ _ = Err _ =>
      match goal with Hq : LocE c |- _ =>
        apply Hq in H; eapply LocIn_node; [ | | exact H]; [intros ? [] | sub_nodes] end
  | optM _ ?o = Err _ =>
      apply optM_loc in H; [| assumption]; eapply LocIn_node; [ | | exact H]; [intros ? [] | sub_nodes]
  end.
Ltac own_span H :=
  injection H as <-; eapply LocIn_node with (N := []);
  [apply incl_refl | intros ? [] | let sp := fresh in let Hsp := fresh in
     intros sp Hsp; left; simpl in *; tauto].

Theorem analyze_LocE : forall e, LocE e.
Proof.
  induction e using expr_ind'. rename H into Hc. intros en ts x H.
  destruct e; simpl in Hc; simpl in H;
    repeat match goal with Hx : _ /\ _ |- _ => destruct Hx end;
    try discriminate.
  - destruct (is_obj en); [discriminate | own_span H].
  - destruct (is_obj en); [discriminate | own_span H].
  - destruct (number_parses n); discriminate.
  - child H.
  - apply objinside_loc in H; auto. eapply LocIn_node; [ | | exact H]; [simpl; apply incl_tl, incl_refl | sub_nodes].
  - split_err H; [| discriminate]. apply mapM_err in H. destruct H as (a & Hin & H).
    rewrite Forall_forall in Hc. apply (Hc a Hin) in H.
    eapply LocIn_node; [ | | exact H]; [intros ? [] |].
    intros n Hn. simpl. right. eapply in_flat; eauto.
  - split_err H.
    + apply specs_loc in H; auto. eapply LocIn_node; [ | | exact H]; [intros ? [] | sub_nodes].
    + split_err H; [child H | discriminate].
  - split_err H; [child H | discriminate].
  - split_err H; [child H|]. split_err H; [child H | discriminate].
  - split_err H; [child H|]. split_err H; [child H|]. split_err H; [child H|]. split_err H; [child H | discriminate].
  - destruct (is_obj en); [discriminate | own_span H].
  - destruct (is_obj en); [| own_span H]. split_err H; [child H | discriminate].
  - split_err H; [child H|]. split_err H; [| discriminate].
    apply args_loc in H; auto. eapply LocIn_node; [ | | exact H]; [intros ? [] | sub_nodes].
  - destruct (env_contains en (id_value name)); [discriminate | own_span H].
  - split_err H.
    + apply declare_top_err in H; [| reflexivity].
      eapply LocIn_node; [ | | exact H]; [| intros ? []].
      simpl. apply incl_tl. apply binds_ident_spans.
    + split_err H.
      * apply binds_loc in H; auto. eapply LocIn_node; [ | | exact H]; [simpl; apply incl_tl, incl_refl | sub_nodes].
      * split_err H; [child H | discriminate].
  - split_err H; [child H|]. split_err H; [child H|]. split_err H; [child H | discriminate].
  - split_err H; [child H|]. split_err H; [child H | discriminate].
  - split_err H; [child H | discriminate].
  - split_err H; [child H|]. split_err H; [| discriminate].
    apply objinside_loc in H; auto. eapply LocIn_node; [ | | exact H]; [simpl; apply incl_tl, incl_refl | sub_nodes].
  - apply function_loc in H; auto. eapply LocIn_node; [ | | exact H]; [simpl; apply incl_tl, incl_refl | sub_nodes].
  - split_err H.
    + apply assert_loc in H; auto. eapply LocIn_node; [ | | exact H]; [intros ? [] | sub_nodes].
    + split_err H; [child H | discriminate].
  - apply import_loc in H. eapply LocIn_node; [ | | exact H]; [intros ? [] | sub_nodes].
  - apply import_loc in H. eapply LocIn_node; [ | | exact H]; [intros ? [] | sub_nodes].
  - apply import_loc in H. eapply LocIn_node; [ | | exact H]; [intros ? [] | sub_nodes].
  - split_err H; [child H | discriminate].
  - destruct (is_obj en); [| own_span H]. split_err H; [child H | discriminate].
Qed.

(* headline: a diagnostic only carries spans that some node of the program carries *)
Theorem analyze_error_located : forall e en ts x,
  analyze_expr e en ts = Err x ->
  forall sp, In sp (error_spans x) -> exists n, In n (nodes e) /\ In sp (node_spans n).
Proof.
  intros e en ts x H sp Hsp. destruct (analyze_LocE e en ts x H sp Hsp) as [[]|H1]; exact H1.
Qed.
