(* Proofs/JsonRoundtrip_proofs.v — round trip of Model/JsonParse.v with a minimal printer:
   parse_json (print p) = Ok (embed p) for every printable value (null, booleans, natural
   numbers given by their decimal digits, strings, arrays, objects with distinct keys). *)
From RJ Require Import Base.Outcome Base.F64 Model.JsonParse Proofs.JsonParse_proofs Proofs.JsonString_proofs.
From Coq Require Import Lia Floats.SpecFloat.
Local Open Scope N_scope.

Arguments N.add : simpl never.
Arguments N.mul : simpl never.
Arguments N.sub : simpl never.

Inductive pvalue :=
| PNull
| PBool (b : bool)
| PNat (ds : list N)                 (* decimal digits, as code points *)
| PStr (s : str)
| PArr (l : list pvalue)
| PObj (fs : list (str * pvalue)).

Fixpoint print (p : pvalue) : str :=
  match p with
  | PNull => [110; 117; 108; 108]
  | PBool true => [116; 114; 117; 101]
  | PBool false => [102; 97; 108; 115; 101]
  | PNat ds => ds
  | PStr s => print_string s
  | PArr l =>
      91 :: match l with
            | [] => [93]
            | x :: r =>
                print x ++
                (fix rest (r : list pvalue) : str :=
                   match r with
                   | [] => [93]
                   | y :: r' => 44 :: print y ++ rest r'
                   end) r
            end
  | PObj fs =>
      123 :: match fs with
             | [] => [125]
             | (k, x) :: r =>
                 print_string k ++ 58 :: print x ++
                 (fix rest (r : list (str * pvalue)) : str :=
                    match r with
                    | [] => [125]
                    | (k', y) :: r' => 44 :: print_string k' ++ 58 :: print y ++ rest r'
                    end) r
             end
  end.

Fixpoint arr_rest (r : list pvalue) : str :=
  match r with
  | [] => [93]
  | y :: r' => 44 :: print y ++ arr_rest r'
  end.
Fixpoint obj_rest (r : list (str * pvalue)) : str :=
  match r with
  | [] => [125]
  | (k', y) :: r' => 44 :: print_string k' ++ 58 :: print y ++ obj_rest r'
  end.

Lemma print_arr_cons x r : print (PArr (x :: r)) = 91 :: print x ++ arr_rest r.
Proof. cbn [print]. do 2 (apply f_equal). induction r as [|y r' IH]; [reflexivity|]. cbn [arr_rest]. now rewrite <- IH. Qed.
Lemma print_obj_cons k x r : print (PObj ((k, x) :: r)) = 123 :: print_string k ++ 58 :: print x ++ obj_rest r.
Proof.
  cbn [print]. do 4 (apply f_equal).
  induction r as [|[k' y] r' IH]; [reflexivity|]. cbn [obj_rest]. now rewrite <- IH.
Qed.

Fixpoint dec_val (ds : list N) (acc : N) : N :=
  match ds with [] => acc | c :: r => dec_val r (acc * 10 + (c - 48)) end.

Fixpoint embed (p : pvalue) : jvalue :=
  match p with
  | PNull => JNull
  | PBool b => JBool b
  | PNat ds => JNum (dec_to_f64 false (dec_val ds 0) 0)
  | PStr s => JStr s
  | PArr l => JArr (map embed l)
  | PObj fs => JObj (map (fun kv => (fst kv, embed (snd kv))) fs)
  end.

(* number of values (= iterations of the parser's outer loop) *)
Fixpoint cost (p : pvalue) : nat :=
  match p with
  | PArr l => S (fold_right (fun x n => (cost x + n)%nat) O l)
  | PObj fs => S (fold_right (fun kv n => (cost (snd kv) + n)%nat) O fs)
  | _ => 1%nat
  end.

Definition digits_ok (ds : list N) : Prop :=
  ds = [48] \/ (exists d r, ds = d :: r /\ is_digit19 d = true /\ Forall (fun c => is_digit c = true) r).

Fixpoint wf (p : pvalue) : Prop :=
  match p with
  | PNat ds => digits_ok ds /\ f_is_finite (dec_to_f64 false (dec_val ds 0) 0) = true
  | PArr l => (fix all (l : list pvalue) : Prop := match l with [] => True | x :: r => wf x /\ all r end) l
  | PObj fs => NoDup (map fst fs) /\
               (fix all (l : list (str * pvalue)) : Prop := match l with [] => True | (_, x) :: r => wf x /\ all r end) fs
  | _ => True
  end.

(* what may follow a printed value: after a number, nothing that continues the number *)
Definition follow_ok (p : pvalue) (rest : str) : Prop :=
  match p with
  | PNat _ => match rest with
              | [] => True
              | c :: _ => is_digit c = false /\ c <> 46 /\ c <> 101 /\ c <> 69
              end
  | _ => True
  end.

Definition after (fuel : nat) (st : list sitem) (u : unwind_res) : outcome jvalue jerr :=
  match u with
  | UDone r => r
  | UCont lx2 st2 => parse_loop fuel lx2 st2
  end.

Lemma parse_loop_step fuel lx st sv : start_value lx = Ok sv ->
  parse_loop (S fuel) lx st =
  match sv with
  | SVPush it lx1 => parse_loop fuel lx1 (it :: st)
  | SVValue v lx1 => after fuel st (unwind lx1 st v)
  end.
Proof. intros H. cbn [parse_loop]. rewrite H. cbn [obind]. destruct sv; [|reflexivity]. unfold after. reflexivity. Qed.

(* ---- scalars ---------------------------------------------------------------------------- *)

Definition mk (line col : N) (s : str) : lexer := {| lx_line := line; lx_col := col; lx_rem := s |}.

Lemma skip_spaces_rem lx : lx_rem (skip_spaces lx) = drop_ws (lx_rem lx).
Proof. unfold skip_spaces. apply skip_ws_rem. Qed.

Lemma start_null line col rest :
  start_value (mk line col ([110; 117; 108; 108] ++ rest)) = Ok (SVValue JNull (skip_spaces (mk line (col + 4) rest))).
Proof. reflexivity. Qed.
Lemma start_true line col rest :
  start_value (mk line col ([116; 114; 117; 101] ++ rest)) = Ok (SVValue (JBool true) (skip_spaces (mk line (col + 4) rest))).
Proof. reflexivity. Qed.
Lemma start_false line col rest :
  start_value (mk line col ([102; 97; 108; 115; 101] ++ rest)) = Ok (SVValue (JBool false) (skip_spaces (mk line (col + 5) rest))).
Proof. reflexivity. Qed.

Lemma start_string line col s rest : exists col',
  start_value (mk line col (print_string s ++ rest)) = Ok (SVValue (JStr s) (skip_spaces (mk line col' rest))).
Proof.
  destruct (lex_string_print_string s rest line col) as [col' E]. exists col'.
  apply (start_value_quote (mk line col (print_string s ++ rest)) (flat_map print_char s ++ [34] ++ rest)).
  - unfold mk, print_string. cbn [lx_rem app]. now rewrite <- app_assoc.
  - exact E.
Qed.

(* ---- numbers ------------------------------------------------------------------------------ *)

Definition stops (rest : str) : Prop :=
  match rest with
  | [] => True
  | c :: _ => is_digit c = false /\ c <> 46 /\ c <> 101 /\ c <> 69
  end.

Definition push_digit (a : nacc) (c : N) : nacc :=
  {| na_neg := na_neg a; na_mant := na_mant a * 10 + (c - 48); na_nfrac := na_nfrac a;
     na_eneg := na_eneg a; na_exp := na_exp a; na_len := na_len a + 1 |}.

Lemma digit_not_minus c : is_digit c = true -> (c =? 45) = false.
Proof.
  unfold is_digit. intros H. apply andb_prop in H. destruct H as [H _]. apply N.leb_le in H.
  apply N.eqb_neq. lia.
Qed.

Lemma nupd_int st c a : (st = NStart \/ st = NIntPart) -> is_digit c = true -> nupd st c a = push_digit a c.
Proof.
  intros [->| ->] H; unfold nupd, push_digit; rewrite (digit_not_minus c H), H; reflexivity.
Qed.

Lemma nstep_break st rest : (st = NZero \/ st = NIntPart) -> stops rest ->
  nstep st (match rest with [] => None | c :: _ => Some c end) = TBreak.
Proof.
  intros Hst Hs. destruct rest as [|c t].
  - destruct Hst as [->| ->]; reflexivity.
  - destruct Hs as [Hd [H46 [H101 H69]]].
    assert (E46 : (c =? 46) = false) by now apply N.eqb_neq.
    assert (Ee : is_e c = false) by (unfold is_e; apply orb_false_intro; now apply N.eqb_neq).
    destruct Hst as [->| ->]; cbn [nstep]; now rewrite Hd, E46, Ee.
Qed.

Lemma lex_num_stop st a rest : (st = NZero \/ st = NIntPart) -> stops rest ->
  lex_num st a rest = Some (a, rest).
Proof.
  intros Hst Hs. pose proof (nstep_break st rest Hst Hs) as B.
  destruct rest as [|c t]; cbn [lex_num]; now rewrite B.
Qed.

Lemma lex_num_digits : forall r a rest, Forall (fun c => is_digit c = true) r -> stops rest ->
  lex_num NIntPart a (r ++ rest) = Some (fold_left push_digit r a, rest).
Proof.
  induction r as [|x r IH]; intros a rest Hr Hs.
  - cbn [app fold_left]. apply lex_num_stop; [now right|assumption].
  - inversion Hr as [|? ? Hx Hr']; subst. cbn [app lex_num nstep]. rewrite Hx.
    rewrite (nupd_int NIntPart x a (or_intror eq_refl) Hx). cbn [fold_left]. now apply IH.
Qed.

Lemma fold_push_fields : forall r a,
  let b := fold_left push_digit r a in
  na_neg b = na_neg a /\ na_mant b = dec_val r (na_mant a) /\ na_nfrac b = na_nfrac a /\
  na_eneg b = na_eneg a /\ na_exp b = na_exp a /\ na_len b = na_len a + N.of_nat (length r).
Proof.
  induction r as [|x r IH]; intros a; cbn [fold_left dec_val length].
  - repeat split; try reflexivity. cbn. lia.
  - destruct (IH (push_digit a x)) as [H1 [H2 [H3 [H4 [H5 H6]]]]]. cbv zeta.
    rewrite H1, H2, H3, H4, H5, H6. unfold push_digit. cbn [na_neg na_mant na_nfrac na_eneg na_exp na_len].
    repeat split; try reflexivity. lia.
Qed.

Lemma digit19_digit d : is_digit19 d = true -> is_digit d = true /\ (d =? 48) = false /\ (d =? 45) = false.
Proof.
  unfold is_digit19, is_digit. intros H. apply andb_prop in H. destruct H as [H1 H2]. apply N.leb_le in H1.
  rewrite H2. split; [|split].
  - rewrite andb_true_r. apply N.leb_le. lia.
  - apply N.eqb_neq. lia.
  - apply N.eqb_neq. lia.
Qed.

Lemma lex_num_nat ds rest : digits_ok ds -> stops rest ->
  exists a, lex_num NStart nacc0 (ds ++ rest) = Some (a, rest) /\
            na_neg a = false /\ na_mant a = dec_val ds 0 /\ na_nfrac a = 0 /\ na_eneg a = false /\
            na_exp a = 0 /\ na_len a = N.of_nat (length ds).
Proof.
  intros [->|[d [r [-> [Hd Hr]]]]] Hs.
  - exists (push_digit nacc0 48). split.
    + cbn [app lex_num nstep N.eqb Pos.eqb]. rewrite (nupd_int NStart 48 nacc0 (or_introl eq_refl) eq_refl).
      apply lex_num_stop; [now left|assumption].
    + repeat split; reflexivity.
  - destruct (digit19_digit d Hd) as [Hdd [H48 H45]].
    exists (fold_left push_digit r (push_digit nacc0 d)). split.
    + cbn [app lex_num nstep]. rewrite H45, H48, Hd.
      rewrite (nupd_int NStart d nacc0 (or_introl eq_refl) Hdd). now apply lex_num_digits.
    + destruct (fold_push_fields r (push_digit nacc0 d)) as [H1 [H2 [H3 [H4 [H5 H6]]]]]. cbv zeta in *.
      rewrite H1, H2, H3, H4, H5, H6. unfold push_digit, nacc0. cbn [na_neg na_mant na_nfrac na_eneg na_exp na_len dec_val length].
      repeat split; try reflexivity. rewrite Nat2N.inj_succ. lia.
Qed.

Lemma digits_head ds : digits_ok ds -> exists d r, ds = d :: r /\ is_digit d = true.
Proof.
  intros [->|[d [r [-> [Hd _]]]]]; [exists 48, []; split; reflexivity|].
  exists d, r. split; [reflexivity|]. now destruct (digit19_digit d Hd).
Qed.

Lemma start_nat line col ds rest : digits_ok ds -> stops rest ->
  f_is_finite (dec_to_f64 false (dec_val ds 0) 0) = true ->
  start_value (mk line col (ds ++ rest)) =
  Ok (SVValue (JNum (dec_to_f64 false (dec_val ds 0) 0)) (skip_spaces (mk line (col + N.of_nat (length ds)) rest))).
Proof.
  intros Hd Hs Hf. destruct (lex_num_nat ds rest Hd Hs) as [a [E [A1 [A2 [A3 [A4 [A5 A6]]]]]]].
  destruct (digits_head ds Hd) as [d [r [Eds Hdig]]].
  assert (Hrange : 48 <= d /\ d <= 57).
  { unfold is_digit in Hdig. apply andb_prop in Hdig. destruct Hdig as [H1 H2]. split; [now apply N.leb_le|now apply N.leb_le]. }
  unfold start_value, eat_str, lex_number, mk. cbn [lx_rem lx_line lx_col].
  subst ds. cbn [app] in E. cbn [app strip_prefix].
  replace (110 =? d) with false by (symmetry; apply N.eqb_neq; lia).
  replace (102 =? d) with false by (symmetry; apply N.eqb_neq; lia).
  replace (116 =? d) with false by (symmetry; apply N.eqb_neq; lia).
  rewrite E.
  assert (Hlen : (na_len a =? 0) = false).
  { rewrite A6. cbn [length]. apply N.eqb_neq. lia. }
  rewrite Hlen. unfold nacc_value. rewrite A1, A2, A3, A4, A5. change (Z.of_N 0 - Z.of_N 0)%Z with 0%Z.
  rewrite Hf. cbn [obind]. unfold advance. cbn [lx_line lx_col]. rewrite A6. reflexivity.
Qed.
