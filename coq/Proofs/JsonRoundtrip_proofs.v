(* Proofs/JsonRoundtrip_proofs.v — round trip of Model/JsonParse.v with a minimal printer:
   parse_json (print p) = Ok (embed p) for every printable value (null, booleans, natural
   numbers given by their decimal digits, strings, arrays, objects with distinct keys). *)
From RJ Require Import Base.Outcome Base.F64 Model.JsonParse Proofs.JsonParse_proofs Proofs.JsonString_proofs.
From Coq Require Import Lia Floats.SpecFloat.
Local Open Scope N_scope.

Arguments N.add : simpl never.
Arguments N.mul : simpl never.
Arguments N.sub : simpl never.

Inductive pvalue :=
| PNull
| PBool (b : bool)
| PNat (ds : list N)                 (* decimal digits, as code points *)
| PStr (s : str)
| PArr (l : list pvalue)
| PObj (fs : list (str * pvalue)).

Fixpoint print (p : pvalue) : str :=
  match p with
  | PNull => [110; 117; 108; 108]
  | PBool true => [116; 114; 117; 101]
  | PBool false => [102; 97; 108; 115; 101]
  | PNat ds => ds
  | PStr s => print_string s
  | PArr l =>
      91 :: match l with
            | [] => [93]
            | x :: r =>
                print x ++
                (fix rest (r : list pvalue) : str :=
                   match r with
                   | [] => [93]
                   | y :: r' => 44 :: print y ++ rest r'
                   end) r
            end
  | PObj fs =>
      123 :: match fs with
             | [] => [125]
             | (k, x) :: r =>
                 print_string k ++ 58 :: print x ++
                 (fix rest (r : list (str * pvalue)) : str :=
                    match r with
                    | [] => [125]
                    | (k', y) :: r' => 44 :: print_string k' ++ 58 :: print y ++ rest r'
                    end) r
             end
  end.

Fixpoint arr_rest (r : list pvalue) : str :=
  match r with
  | [] => [93]
  | y :: r' => 44 :: print y ++ arr_rest r'
  end.
Fixpoint obj_rest (r : list (str * pvalue)) : str :=
  match r with
  | [] => [125]
  | (k', y) :: r' => 44 :: print_string k' ++ 58 :: print y ++ obj_rest r'
  end.

Lemma print_arr_cons x r : print (PArr (x :: r)) = 91 :: print x ++ arr_rest r.
Proof. cbn [print]. do 2 (apply f_equal). induction r as [|y r' IH]; [reflexivity|]. cbn [arr_rest]. now rewrite <- IH. Qed.
Lemma print_obj_cons k x r : print (PObj ((k, x) :: r)) = 123 :: print_string k ++ 58 :: print x ++ obj_rest r.
Proof.
  cbn [print]. do 4 (apply f_equal).
  induction r as [|[k' y] r' IH]; [reflexivity|]. cbn [obj_rest]. now rewrite <- IH.
Qed.

Fixpoint dec_val (ds : list N) (acc : N) : N :=
  match ds with [] => acc | c :: r => dec_val r (acc * 10 + (c - 48)) end.

Fixpoint embed (p : pvalue) : jvalue :=
  match p with
  | PNull => JNull
  | PBool b => JBool b
  | PNat ds => JNum (dec_to_f64 false (dec_val ds 0) 0)
  | PStr s => JStr s
  | PArr l => JArr (map embed l)
  | PObj fs => JObj (map (fun kv => (fst kv, embed (snd kv))) fs)
  end.

(* number of values (= iterations of the parser's outer loop) *)
Fixpoint cost (p : pvalue) : nat :=
  match p with
  | PArr l => S (fold_right (fun x n => (cost x + n)%nat) O l)
  | PObj fs => S (fold_right (fun kv n => (cost (snd kv) + n)%nat) O fs)
  | _ => 1%nat
  end.

Definition digits_ok (ds : list N) : Prop :=
  ds = [48] \/ (exists d r, ds = d :: r /\ is_digit19 d = true /\ Forall (fun c => is_digit c = true) r).

Fixpoint wf (p : pvalue) : Prop :=
  match p with
  | PNat ds => digits_ok ds /\ f_is_finite (dec_to_f64 false (dec_val ds 0) 0) = true
  | PArr l => (fix all (l : list pvalue) : Prop := match l with [] => True | x :: r => wf x /\ all r end) l
  | PObj fs => NoDup (map fst fs) /\
               (fix all (l : list (str * pvalue)) : Prop := match l with [] => True | (_, x) :: r => wf x /\ all r end) fs
  | _ => True
  end.

(* what may follow a printed value: after a number, nothing that continues the number *)
Definition follow_ok (p : pvalue) (rest : str) : Prop :=
  match p with
  | PNat _ => match rest with
              | [] => True
              | c :: _ => is_digit c = false /\ c <> 46 /\ c <> 101 /\ c <> 69
              end
  | _ => True
  end.

Definition after (fuel : nat) (u : unwind_res) : outcome jvalue jerr :=
  match u with
  | UDone r => r
  | UCont lx2 st2 => parse_loop fuel lx2 st2
  end.

Lemma parse_loop_step fuel lx st sv : start_value lx = Ok sv ->
  parse_loop (S fuel) lx st =
  match sv with
  | SVPush it lx1 => parse_loop fuel lx1 (it :: st)
  | SVValue v lx1 => after fuel (unwind lx1 st v)
  end.
Proof. intros H. cbn [parse_loop]. rewrite H. cbn [obind]. destruct sv; [|reflexivity]. unfold after. reflexivity. Qed.

(* ---- scalars ---------------------------------------------------------------------------- *)

Definition mk (line col : N) (s : str) : lexer := {| lx_line := line; lx_col := col; lx_rem := s |}.

Lemma skip_spaces_rem lx : lx_rem (skip_spaces lx) = drop_ws (lx_rem lx).
Proof. unfold skip_spaces. apply skip_ws_rem. Qed.

Lemma start_null line col rest :
  start_value (mk line col ([110; 117; 108; 108] ++ rest)) = Ok (SVValue JNull (skip_spaces (mk line (col + 4) rest))).
Proof. reflexivity. Qed.
Lemma start_true line col rest :
  start_value (mk line col ([116; 114; 117; 101] ++ rest)) = Ok (SVValue (JBool true) (skip_spaces (mk line (col + 4) rest))).
Proof. reflexivity. Qed.
Lemma start_false line col rest :
  start_value (mk line col ([102; 97; 108; 115; 101] ++ rest)) = Ok (SVValue (JBool false) (skip_spaces (mk line (col + 5) rest))).
Proof. reflexivity. Qed.

Lemma start_string line col s rest : exists col',
  start_value (mk line col (print_string s ++ rest)) = Ok (SVValue (JStr s) (skip_spaces (mk line col' rest))).
Proof.
  destruct (lex_string_print_string s rest line col) as [col' E]. exists col'.
  apply (start_value_quote (mk line col (print_string s ++ rest)) (flat_map print_char s ++ [34] ++ rest)).
  - unfold mk, print_string. cbn [lx_rem app]. now rewrite <- app_assoc.
  - exact E.
Qed.

(* ---- numbers ------------------------------------------------------------------------------ *)

Definition stops (rest : str) : Prop :=
  match rest with
  | [] => True
  | c :: _ => is_digit c = false /\ c <> 46 /\ c <> 101 /\ c <> 69
  end.

Definition push_digit (a : nacc) (c : N) : nacc :=
  {| na_neg := na_neg a; na_mant := na_mant a * 10 + (c - 48); na_nfrac := na_nfrac a;
     na_eneg := na_eneg a; na_exp := na_exp a; na_len := na_len a + 1 |}.

Lemma digit_not_minus c : is_digit c = true -> (c =? 45) = false.
Proof.
  unfold is_digit. intros H. apply andb_prop in H. destruct H as [H _]. apply N.leb_le in H.
  apply N.eqb_neq. lia.
Qed.

Lemma nupd_int st c a : (st = NStart \/ st = NIntPart) -> is_digit c = true -> nupd st c a = push_digit a c.
Proof.
  intros [->| ->] H; unfold nupd, push_digit; rewrite (digit_not_minus c H), H; reflexivity.
Qed.

Lemma nstep_break st rest : (st = NZero \/ st = NIntPart) -> stops rest ->
  nstep st (match rest with [] => None | c :: _ => Some c end) = TBreak.
Proof.
  intros Hst Hs. destruct rest as [|c t].
  - destruct Hst as [->| ->]; reflexivity.
  - destruct Hs as [Hd [H46 [H101 H69]]].
    assert (E46 : (c =? 46) = false) by now apply N.eqb_neq.
    assert (Ee : is_e c = false) by (unfold is_e; apply orb_false_intro; now apply N.eqb_neq).
    destruct Hst as [->| ->]; cbn [nstep]; now rewrite Hd, E46, Ee.
Qed.

Lemma lex_num_stop st a rest : (st = NZero \/ st = NIntPart) -> stops rest ->
  lex_num st a rest = Some (a, rest).
Proof.
  intros Hst Hs. pose proof (nstep_break st rest Hst Hs) as B.
  destruct rest as [|c t]; cbn [lex_num]; now rewrite B.
Qed.

Lemma lex_num_digits : forall r a rest, Forall (fun c => is_digit c = true) r -> stops rest ->
  lex_num NIntPart a (r ++ rest) = Some (fold_left push_digit r a, rest).
Proof.
  induction r as [|x r IH]; intros a rest Hr Hs.
  - cbn [app fold_left]. apply lex_num_stop; [now right|assumption].
  - inversion Hr as [|? ? Hx Hr']; subst. cbn [app lex_num nstep]. rewrite Hx.
    rewrite (nupd_int NIntPart x a (or_intror eq_refl) Hx). cbn [fold_left]. now apply IH.
Qed.

Lemma fold_push_fields : forall r a,
  let b := fold_left push_digit r a in
  na_neg b = na_neg a /\ na_mant b = dec_val r (na_mant a) /\ na_nfrac b = na_nfrac a /\
  na_eneg b = na_eneg a /\ na_exp b = na_exp a /\ na_len b = na_len a + N.of_nat (length r).
Proof.
  induction r as [|x r IH]; intros a; cbn [fold_left dec_val length].
  - repeat split; try reflexivity. cbn. lia.
  - destruct (IH (push_digit a x)) as [H1 [H2 [H3 [H4 [H5 H6]]]]]. cbv zeta.
    rewrite H1, H2, H3, H4, H5, H6. unfold push_digit. cbn [na_neg na_mant na_nfrac na_eneg na_exp na_len].
    repeat split; try reflexivity. lia.
Qed.

Lemma digit19_digit d : is_digit19 d = true -> is_digit d = true /\ (d =? 48) = false /\ (d =? 45) = false.
Proof.
  unfold is_digit19, is_digit. intros H. apply andb_prop in H. destruct H as [H1 H2]. apply N.leb_le in H1.
  rewrite H2. split; [|split].
  - rewrite andb_true_r. apply N.leb_le. lia.
  - apply N.eqb_neq. lia.
  - apply N.eqb_neq. lia.
Qed.

Lemma lex_num_nat ds rest : digits_ok ds -> stops rest ->
  exists a, lex_num NStart nacc0 (ds ++ rest) = Some (a, rest) /\
            na_neg a = false /\ na_mant a = dec_val ds 0 /\ na_nfrac a = 0 /\ na_eneg a = false /\
            na_exp a = 0 /\ na_len a = N.of_nat (length ds).
Proof.
  intros [->|[d [r [-> [Hd Hr]]]]] Hs.
  - exists (push_digit nacc0 48). split.
    + cbn [app lex_num nstep N.eqb Pos.eqb]. rewrite (nupd_int NStart 48 nacc0 (or_introl eq_refl) eq_refl).
      apply lex_num_stop; [now left|assumption].
    + repeat split; reflexivity.
  - destruct (digit19_digit d Hd) as [Hdd [H48 H45]].
    exists (fold_left push_digit r (push_digit nacc0 d)). split.
    + cbn [app lex_num nstep]. rewrite H45, H48, Hd.
      rewrite (nupd_int NStart d nacc0 (or_introl eq_refl) Hdd). now apply lex_num_digits.
    + destruct (fold_push_fields r (push_digit nacc0 d)) as [H1 [H2 [H3 [H4 [H5 H6]]]]]. cbv zeta in *.
      rewrite H1, H2, H3, H4, H5, H6. unfold push_digit, nacc0. cbn [na_neg na_mant na_nfrac na_eneg na_exp na_len dec_val length].
      repeat split; try reflexivity. rewrite Nat2N.inj_succ. lia.
Qed.

Lemma digits_head ds : digits_ok ds -> exists d r, ds = d :: r /\ is_digit d = true.
Proof.
  intros [->|[d [r [-> [Hd _]]]]]; [exists 48, []; split; reflexivity|].
  exists d, r. split; [reflexivity|]. now destruct (digit19_digit d Hd).
Qed.

Lemma start_nat line col ds rest : digits_ok ds -> stops rest ->
  f_is_finite (dec_to_f64 false (dec_val ds 0) 0) = true ->
  start_value (mk line col (ds ++ rest)) =
  Ok (SVValue (JNum (dec_to_f64 false (dec_val ds 0) 0)) (skip_spaces (mk line (col + N.of_nat (length ds)) rest))).
Proof.
  intros Hd Hs Hf. destruct (lex_num_nat ds rest Hd Hs) as [a [E [A1 [A2 [A3 [A4 [A5 A6]]]]]]].
  destruct (digits_head ds Hd) as [d [r [Eds Hdig]]].
  assert (Hrange : 48 <= d /\ d <= 57).
  { unfold is_digit in Hdig. apply andb_prop in Hdig. destruct Hdig as [H1 H2]. split; [now apply N.leb_le|now apply N.leb_le]. }
  unfold start_value, eat_str, lex_number, mk. cbn [lx_rem lx_line lx_col].
  subst ds. cbn [app] in E. cbn [app strip_prefix].
  replace (110 =? d) with false by (symmetry; apply N.eqb_neq; lia).
  replace (102 =? d) with false by (symmetry; apply N.eqb_neq; lia).
  replace (116 =? d) with false by (symmetry; apply N.eqb_neq; lia).
  rewrite E.
  assert (Hlen : (na_len a =? 0) = false).
  { rewrite A6. cbn [length]. apply N.eqb_neq. lia. }
  rewrite Hlen. unfold nacc_value. rewrite A1, A2, A3, A4, A5. change (Z.of_N 0 - Z.of_N 0)%Z with 0%Z.
  rewrite Hf. cbn [obind]. unfold advance. cbn [lx_line lx_col]. rewrite A6. reflexivity.
Qed.

(* ---- containers ----------------------------------------------------------------------------- *)

Lemma eat_char_hit c lx r : lx_rem lx = c :: r -> eat_char c lx = Some (advance lx 1 r).
Proof. intros H. unfold eat_char. rewrite H, N.eqb_refl. reflexivity. Qed.
Lemma eat_char_miss c lx d r : lx_rem lx = d :: r -> d <> c -> eat_char c lx = None.
Proof. intros H Hd. unfold eat_char. rewrite H. replace (d =? c) with false by (symmetry; now apply N.eqb_neq). reflexivity. Qed.

Lemma skip_spaces_nonws lx c r : lx_rem lx = c :: r -> is_ws c = false -> skip_spaces lx = lx.
Proof.
  intros H Hw. unfold skip_spaces. rewrite H, (skip_ws_nonws c r _ _ Hw). destruct lx as [l k s]. cbn in *. now subst.
Qed.

Lemma skip_mk line col c r : is_ws c = false ->
  skip_spaces {| lx_line := line; lx_col := col; lx_rem := c :: r |} = {| lx_line := line; lx_col := col; lx_rem := c :: r |}.
Proof. intros H. unfold skip_spaces. cbn [lx_line lx_col lx_rem]. apply skip_ws_nonws, H. Qed.
Lemma eat_miss_mk x line col c r : c <> x ->
  eat_char x {| lx_line := line; lx_col := col; lx_rem := c :: r |} = None.
Proof. intros H. unfold eat_char. cbn [lx_rem]. replace (c =? x) with false by (symmetry; now apply N.eqb_neq). reflexivity. Qed.
Lemma eat_hit_mk line col c r :
  eat_char c {| lx_line := line; lx_col := col; lx_rem := c :: r |} = Some {| lx_line := line; lx_col := col + 1; lx_rem := r |}.
Proof. unfold eat_char. cbn [lx_rem]. rewrite N.eqb_refl. reflexivity. Qed.

(* the first character of a printed value *)
Definition head_ok (c : N) : Prop :=
  is_ws c = false /\ c <> 93 /\ c <> 125 /\ c <> 44 /\ c <> 58.

Lemma print_head p : wf p -> exists c r, print p = c :: r /\ head_ok c.
Proof.
  unfold head_ok. destruct p as [|[|]|ds|s|l|fs]; intros Hw.
  - exists 110, [117; 108; 108]. repeat split; try reflexivity; discriminate.
  - exists 116, [114; 117; 101]. repeat split; try reflexivity; discriminate.
  - exists 102, [97; 108; 115; 101]. repeat split; try reflexivity; discriminate.
  - destruct Hw as [Hd _]. destruct (digits_head ds Hd) as [d [r [-> Hdig]]]. exists d, r.
    unfold is_digit in Hdig. apply andb_prop in Hdig. destruct Hdig as [H1 H2].
    apply N.leb_le in H1, H2. split; [reflexivity|].
    unfold is_ws. repeat split; try lia.
    repeat (apply orb_false_intro); apply N.eqb_neq; lia.
  - exists 34, (flat_map print_char s ++ [34]). repeat split; try reflexivity; discriminate.
  - exists 91. destruct l as [|x r]; eexists; (split; [reflexivity|]); repeat split; try reflexivity; discriminate.
  - exists 123. destruct fs as [|[k x] r]; eexists; (split; [reflexivity|]); repeat split; try reflexivity; discriminate.
Qed.

Lemma start_arr_open line col c t : is_ws c = false -> c <> 93 ->
  start_value (mk line col (91 :: c :: t)) = Ok (SVPush (SArr []) (mk line (col + 1) (c :: t))).
Proof.
  intros Hw H93. unfold start_value, eat_str, lex_number, lex_string, mk. cbn [lx_rem strip_prefix N.eqb Pos.eqb].
  cbn [lex_num nstep N.eqb Pos.eqb is_digit19 N.leb N.compare Pos.compare Pos.compare_cont andb na_len nacc0 obind eat_char lx_rem].
  unfold advance. cbn [lx_line lx_col lx_rem].
  rewrite (skip_mk _ _ c t Hw).
  rewrite (eat_miss_mk 93 _ _ c t H93). reflexivity.
Qed.

Lemma lex_key_printed line col k c t : is_ws c = false -> exists col',
  lex_key (mk line col (print_string k ++ 58 :: c :: t)) = Ok (k, mk line col' (c :: t)).
Proof.
  intros Hw. destruct (lex_string_print_string k (58 :: c :: t) line col) as [col1 E].
  exists (col1 + 1). unfold lex_key, mk. rewrite E. cbn [obind].
  rewrite (skip_mk _ _ 58 (c :: t) eq_refl).
  rewrite eat_hit_mk.
  rewrite (skip_mk _ _ c t Hw). reflexivity.
Qed.

Lemma start_obj_open line col k c t : is_ws c = false -> exists col',
  start_value (mk line col (123 :: print_string k ++ 58 :: c :: t)) = Ok (SVPush (SObj [] k) (mk line col' (c :: t))).
Proof.
  intros Hw. destruct (lex_key_printed line (col + 1) k c t Hw) as [col' E]. exists col'.
  unfold start_value, eat_str, lex_number, lex_string, mk. cbn [lx_rem strip_prefix N.eqb Pos.eqb].
  cbn [lex_num nstep N.eqb Pos.eqb is_digit19 N.leb N.compare Pos.compare Pos.compare_cont andb na_len nacc0 obind eat_char lx_rem].
  unfold advance. cbn [lx_line lx_col lx_rem].
  assert (Eq : print_string k ++ 58 :: c :: t = 34 :: (flat_map print_char k ++ [34]) ++ 58 :: c :: t) by reflexivity.
  unfold mk in E. rewrite Eq in *.
  rewrite (skip_mk _ _ 34 _ eq_refl).
  rewrite (eat_miss_mk 125 _ _ 34 _ ltac:(discriminate)).
  rewrite E. reflexivity.
Qed.

Definition cost_list (l : list pvalue) : nat := fold_right (fun x n => (cost x + n)%nat) O l.
Definition cost_fields (fs : list (str * pvalue)) : nat := fold_right (fun kv n => (cost (snd kv) + n)%nat) O fs.

Fixpoint size (p : pvalue) : nat :=
  match p with
  | PArr l => S (fold_right (fun x n => (size x + n)%nat) O l)
  | PObj fs => S (fold_right (fun kv n => (size (snd kv) + n)%nat) O fs)
  | _ => 1%nat
  end.

(* the statement proved for every printable value *)
Definition roundtrip_at (p : pvalue) : Prop :=
  forall f line col st rest, follow_ok p rest ->
  exists lx', lx_rem lx' = drop_ws rest /\
    parse_loop (cost p + f) (mk line col (print p ++ rest)) st = after f (unwind lx' st (embed p)).

Lemma stops_sep c t : c = 93 \/ c = 125 \/ c = 44 -> stops (c :: t).
Proof. intros [->|[->| ->]]; cbn; repeat split; discriminate. Qed.

Lemma follow_sep p c t : c = 93 \/ c = 125 \/ c = 44 -> follow_ok p (c :: t).
Proof. intros H. destruct p; try exact I. now apply stops_sep. Qed.

Lemma arr_rest_head r rest : exists c t, arr_rest r ++ rest = c :: t /\ (c = 93 \/ c = 125 \/ c = 44).
Proof. destruct r as [|y r']; cbn [arr_rest app]; eexists; eexists; (split; [reflexivity|]); auto. Qed.
Lemma obj_rest_head r rest : exists c t, obj_rest r ++ rest = c :: t /\ (c = 93 \/ c = 125 \/ c = 44).
Proof. destruct r as [|[k y] r']; cbn [obj_rest app]; eexists; eexists; (split; [reflexivity|]); auto. Qed.

Lemma sep_nonws c : c = 93 \/ c = 125 \/ c = 44 -> is_ws c = false.
Proof. intros [->|[->| ->]]; reflexivity. Qed.

Lemma drop_ws_nonws c t : is_ws c = false -> drop_ws (c :: t) = c :: t.
Proof. intros H. cbn [drop_ws]. now rewrite H. Qed.

(* the remaining items of an array, sitting after one finished item *)
Lemma arr_tail : forall r, Forall (fun y => wf y /\ roundtrip_at y) r ->
  forall acc v f lx st rest, lx_rem lx = arr_rest r ++ rest ->
  exists lx', lx_rem lx' = drop_ws rest /\
    after (cost_list r + f) (unwind lx (SArr acc :: st) v) =
    after f (unwind lx' st (JArr (rev acc ++ v :: map embed r))).
Proof.
  induction r as [|y r IH]; intros Hr acc v f lx st rest Hlx.
  - cbn [arr_rest app] in Hlx. cbn [cost_list fold_right Nat.add map unwind].
    rewrite (eat_char_hit 93 lx rest Hlx).
    exists (skip_spaces (advance lx 1 rest)). split; [now rewrite skip_spaces_rem|].
    cbn [rev]. reflexivity.
  - inversion Hr as [|? ? [Hwy Hy] Hr']; subst.
    cbn [arr_rest] in Hlx. rewrite <- app_comm_cons, <- app_assoc in Hlx.
    destruct (print_head y Hwy) as [c [t [Ey [Hws _]]]].
    cbn [unwind]. rewrite (eat_char_miss 93 lx 44 _ Hlx) by discriminate.
    rewrite (eat_char_hit 44 lx _ Hlx).
    assert (Esk : skip_spaces (advance lx 1 (print y ++ arr_rest r ++ rest)) =
                  mk (lx_line lx) (lx_col lx + 1) (print y ++ (arr_rest r ++ rest))).
    { rewrite (skip_spaces_nonws _ c (t ++ arr_rest r ++ rest)); [reflexivity| |exact Hws].
      unfold advance. cbn [lx_rem]. now rewrite Ey. }
    rewrite Esk. cbn [after cost_list fold_right]. fold (cost_list r).
    destruct (arr_rest_head r rest) as [c2 [t2 [E2 Hc2]]].
    rewrite <- Nat.add_assoc.
    destruct (Hy (cost_list r + f)%nat (lx_line lx) (lx_col lx + 1) (SArr (v :: acc) :: st) (arr_rest r ++ rest))
      as [lx1 [Hlx1 E1]]; [rewrite E2; now apply follow_sep|].
    rewrite E1. rewrite E2, (drop_ws_nonws c2 t2 (sep_nonws c2 Hc2)), <- E2 in Hlx1.
    destruct (IH Hr' (v :: acc) (embed y) f lx1 st rest Hlx1) as [lx' [Hlx' E']].
    exists lx'. split; [exact Hlx'|]. rewrite E'. cbn [rev map]. rewrite <- app_assoc. reflexivity.
Qed.

Definition embed_field (kv : str * pvalue) : str * jvalue := (fst kv, embed (snd kv)).

(* the remaining fields of an object, sitting after one finished field value *)
Lemma obj_tail : forall r, Forall (fun kv => wf (snd kv) /\ roundtrip_at (snd kv)) r ->
  forall fields key v f lx st rest, lx_rem lx = obj_rest r ++ rest ->
  NoDup (map fst fields ++ key :: map fst r) ->
  exists lx', lx_rem lx' = drop_ws rest /\
    after (cost_fields r + f) (unwind lx (SObj fields key :: st) v) =
    after f (unwind lx' st (JObj (rev fields ++ (key, v) :: map embed_field r))).
Proof.
  induction r as [|[k' y] r IH]; intros Hr fields key v f lx st rest Hlx Hnd.
  - cbn [obj_rest app] in Hlx. cbn [cost_fields fold_right Nat.add map unwind].
    assert (Hk : has_key key fields = false).
    { destruct (has_key key fields) eqn:E; [|reflexivity]. apply has_key_in in E.
      apply NoDup_remove_2 in Hnd. exfalso. apply Hnd. apply in_or_app. now left. }
    rewrite Hk. rewrite (eat_char_hit 125 lx rest Hlx).
    exists (skip_spaces (advance lx 1 rest)). split; [now rewrite skip_spaces_rem|]. cbn [rev]. reflexivity.
  - inversion Hr as [|? ? [Hwy Hy] Hr']; subst. cbn [snd] in Hwy, Hy.
    cbn [obj_rest] in Hlx. rewrite <- app_comm_cons in Hlx.
    destruct (print_head y Hwy) as [c [t [Ey [Hws _]]]].
    assert (Hk : has_key key fields = false).
    { destruct (has_key key fields) eqn:E; [|reflexivity]. apply has_key_in in E.
      apply NoDup_remove_2 in Hnd. exfalso. apply Hnd. apply in_or_app. now left. }
    cbn [unwind]. rewrite Hk. rewrite (eat_char_miss 125 lx 44 _ Hlx) by discriminate.
    rewrite (eat_char_hit 44 lx _ Hlx).
    (* the key *)
    assert (Erem : (print_string k' ++ 58 :: print y ++ obj_rest r) ++ rest =
                   print_string k' ++ 58 :: c :: (t ++ obj_rest r ++ rest)).
    { rewrite <- app_assoc. cbn [app]. rewrite Ey. rewrite <- app_assoc. reflexivity. }
    rewrite Erem.
    assert (Esk : skip_spaces (advance lx 1 (print_string k' ++ 58 :: c :: t ++ obj_rest r ++ rest)) =
                  mk (lx_line lx) (lx_col lx + 1) (print_string k' ++ 58 :: c :: t ++ obj_rest r ++ rest)).
    { unfold advance, mk. change (print_string k' ++ 58 :: c :: t ++ obj_rest r ++ rest)
        with (34 :: (flat_map print_char k' ++ [34]) ++ 58 :: c :: t ++ obj_rest r ++ rest).
      apply skip_mk. reflexivity. }
    rewrite Esk.
    destruct (lex_key_printed (lx_line lx) (lx_col lx + 1) k' c (t ++ obj_rest r ++ rest) Hws) as [col' Ek].
    rewrite Ek. cbn [after cost_fields fold_right snd]. fold (cost_fields r).
    destruct (obj_rest_head r rest) as [c2 [t2 [E2 Hc2]]].
    rewrite <- Nat.add_assoc.
    assert (Eprint : c :: t ++ obj_rest r ++ rest = print y ++ (obj_rest r ++ rest)) by (now rewrite Ey).
    rewrite Eprint.
    destruct (Hy (cost_fields r + f)%nat (lx_line lx) col' (SObj ((key, v) :: fields) k' :: st) (obj_rest r ++ rest))
      as [lx1 [Hlx1 E1]]; [rewrite E2; now apply follow_sep|].
    rewrite E1. rewrite E2, (drop_ws_nonws c2 t2 (sep_nonws c2 Hc2)), <- E2 in Hlx1.
    destruct (IH Hr' ((key, v) :: fields) k' (embed y) f lx1 st rest Hlx1) as [lx' [Hlx' E']].
    { cbn [map fst]. cbn [map fst] in Hnd.
      apply (Permutation.Permutation_NoDup (l := map fst fields ++ key :: k' :: map fst r)); [|exact Hnd].
      change (key :: map fst fields ++ k' :: map fst r) with ((key :: map fst fields) ++ k' :: map fst r).
      etransitivity; [|apply Permutation.Permutation_app_tail; apply Permutation.Permutation_sym, Permutation.Permutation_cons_append].
      rewrite <- app_assoc. cbn [app]. reflexivity. }
    exists lx'. split; [exact Hlx'|]. rewrite E'. cbn [rev map]. rewrite <- app_assoc. reflexivity.
Qed.

(* ---- the induction --------------------------------------------------------------------------- *)

Lemma wf_arr l : wf (PArr l) <-> Forall wf l.
Proof.
  cbn [wf]. induction l as [|x r IH]; split; intros H.
  - constructor. - exact I.
  - destruct H as [H1 H2]. constructor; [assumption|now apply IH].
  - inversion H; subst. split; [assumption|now apply IH].
Qed.

Lemma wf_obj fs : wf (PObj fs) <-> NoDup (map fst fs) /\ Forall (fun kv => wf (snd kv)) fs.
Proof.
  cbn [wf]. split; intros [Hn H]; (split; [assumption|]); clear Hn.
  - induction fs as [|[k x] r IH]; [constructor|]. destruct H as [H1 H2]. constructor; [assumption|now apply IH].
  - induction fs as [|[k x] r IH]; [exact I|]. inversion H; subst. split; [assumption|now apply IH].
Qed.

Lemma start_arr_empty line col rest : exists col',
  start_value (mk line col (91 :: 93 :: rest)) = Ok (SVValue (JArr []) (skip_spaces (mk line col' rest))).
Proof. eexists. reflexivity. Qed.
Lemma start_obj_empty line col rest : exists col',
  start_value (mk line col (123 :: 125 :: rest)) = Ok (SVValue (JObj []) (skip_spaces (mk line col' rest))).
Proof. eexists. reflexivity. Qed.

Lemma size_pos p : (1 <= size p)%nat.
Proof. destruct p; cbn; lia. Qed.

Lemma arr_rest_length r : (cost_list r <= length (arr_rest r))%nat ->  True.
Proof. trivial. Qed.

Theorem roundtrip_all : forall n p, (size p <= n)%nat -> wf p ->
  roundtrip_at p /\ (cost p <= length (print p))%nat.
Proof.
  induction n as [|n IH]; intros p Hs Hw; [pose proof (size_pos p); lia|].
  destruct p as [|b|ds|s|l|fs].
  - split; [|cbn; lia]. intros f line col st rest _. cbn [cost print Nat.add].
    rewrite (parse_loop_step f _ st _ (start_null line col rest)).
    eexists. split; [|reflexivity]. now rewrite skip_spaces_rem.
  - split; [|destruct b; cbn; lia]. intros f line col st rest _. cbn [cost Nat.add]. destruct b; cbn [print embed].
    + rewrite (parse_loop_step f _ st _ (start_true line col rest)).
      eexists. split; [|reflexivity]. now rewrite skip_spaces_rem.
    + rewrite (parse_loop_step f _ st _ (start_false line col rest)).
      eexists. split; [|reflexivity]. now rewrite skip_spaces_rem.
  - destruct Hw as [Hd Hf]. split.
    + intros f line col st rest Hfo. cbn [cost print Nat.add embed].
      rewrite (parse_loop_step f _ st _ (start_nat line col ds rest Hd Hfo Hf)).
      eexists. split; [|reflexivity]. now rewrite skip_spaces_rem.
    + destruct (digits_head ds Hd) as [d [r [-> _]]]. cbn. lia.
  - split; [|cbn; lia]. intros f line col st rest _. cbn [cost print Nat.add embed].
    destruct (start_string line col s rest) as [col' E].
    rewrite (parse_loop_step f _ st _ E).
    eexists. split; [|reflexivity]. now rewrite skip_spaces_rem.
  - (* arrays *)
    apply wf_arr in Hw. destruct l as [|x r].
    { split; [|cbn; lia]. intros f line col st rest _. cbn [cost fold_right print Nat.add embed map app].
      destruct (start_arr_empty line col rest) as [col' E].
      rewrite (parse_loop_step f _ st _ E). eexists. split; [|reflexivity]. now rewrite skip_spaces_rem. }
    inversion Hw as [|? ? Hwx Hwr]; subst.
    cbn [size fold_right] in Hs.
    destruct (IH x ltac:(lia) Hwx) as [Hx Cx].
    assert (Hr : Forall (fun y => wf y /\ roundtrip_at y) r /\ (cost_list r < length (arr_rest r))%nat).
    { clear Hx Cx Hwx Hw. revert Hs Hwr. generalize (size x). induction r as [|y r IHr]; intros sx Hs Hwr.
      - split; [constructor|cbn; lia].
      - inversion Hwr as [|? ? Hwy Hwr']; subst. cbn [fold_right] in Hs.
        destruct (IH y ltac:(lia) Hwy) as [Hy Cy].
        destruct (IHr (sx + size y)%nat ltac:(lia) Hwr') as [F C].
        split; [constructor; [split; assumption|assumption]|].
        cbn [cost_list fold_right arr_rest length]. rewrite app_length. fold (cost_list r). lia. }
    destruct Hr as [Hr Cr]. split.
    + intros f line col st rest _. rewrite print_arr_cons.
      destruct (print_head x Hwx) as [c [t [Ex [Hws [H93 _]]]]].
      cbn [cost fold_right]. fold (cost_list r). cbn [Nat.add].
      assert (Erem : (91 :: print x ++ arr_rest r) ++ rest = 91 :: c :: (t ++ arr_rest r ++ rest)).
      { cbn [app]. rewrite <- app_assoc, Ex. reflexivity. }
      rewrite Erem. rewrite (parse_loop_step _ _ st _ (start_arr_open line col c _ Hws H93)).
      assert (Eprint : c :: t ++ arr_rest r ++ rest = print x ++ (arr_rest r ++ rest)) by (now rewrite Ex).
      rewrite Eprint. rewrite <- Nat.add_assoc.
      destruct (arr_rest_head r rest) as [c2 [t2 [E2 Hc2]]].
      destruct (Hx (cost_list r + f)%nat line (col + 1) (SArr [] :: st) (arr_rest r ++ rest)) as [lx1 [Hlx1 E1]];
        [rewrite E2; now apply follow_sep|].
      rewrite E1. rewrite E2, (drop_ws_nonws c2 t2 (sep_nonws c2 Hc2)), <- E2 in Hlx1.
      destruct (arr_tail r Hr [] (embed x) f lx1 st rest Hlx1) as [lx' [Hlx' E']].
      exists lx'. split; [exact Hlx'|]. rewrite E'. reflexivity.
    + rewrite print_arr_cons. cbn [cost fold_right length]. fold (cost_list r). rewrite app_length. lia.
  - (* objects *)
    apply wf_obj in Hw. destruct Hw as [Hnd Hw]. destruct fs as [|[k x] r].
    { split; [|cbn; lia]. intros f line col st rest _. cbn [cost fold_right print Nat.add embed map app].
      destruct (start_obj_empty line col rest) as [col' E].
      rewrite (parse_loop_step f _ st _ E). eexists. split; [|reflexivity]. now rewrite skip_spaces_rem. }
    inversion Hw as [|? ? Hwx Hwr]; subst. cbn [snd] in Hwx.
    cbn [size fold_right snd] in Hs.
    destruct (IH x ltac:(lia) Hwx) as [Hx Cx].
    assert (Hr : Forall (fun kv => wf (snd kv) /\ roundtrip_at (snd kv)) r /\ (cost_fields r < length (obj_rest r))%nat).
    { clear Hx Cx Hwx Hnd Hw. revert Hs Hwr. generalize (size x). induction r as [|[k' y] r IHr]; intros sx Hs Hwr.
      - split; [constructor|cbn; lia].
      - inversion Hwr as [|? ? Hwy Hwr']; subst. cbn [snd] in Hwy. cbn [fold_right snd] in Hs.
        destruct (IH y ltac:(lia) Hwy) as [Hy Cy].
        destruct (IHr (sx + size y)%nat ltac:(lia) Hwr') as [F C].
        split; [constructor; [split; assumption|assumption]|].
        cbn [cost_fields fold_right obj_rest length snd]. rewrite !app_length. cbn [length]. rewrite app_length.
        fold (cost_fields r). lia. }
    destruct Hr as [Hr Cr]. split.
    + intros f line col st rest _. rewrite print_obj_cons.
      destruct (print_head x Hwx) as [c [t [Ex [Hws _]]]].
      cbn [cost fold_right snd]. fold (cost_fields r). cbn [Nat.add].
      assert (Erem : (123 :: print_string k ++ 58 :: print x ++ obj_rest r) ++ rest =
                     123 :: print_string k ++ 58 :: c :: (t ++ obj_rest r ++ rest)).
      { cbn [app]. rewrite <- app_assoc. cbn [app]. rewrite <- app_assoc, Ex. reflexivity. }
      rewrite Erem. destruct (start_obj_open line col k c (t ++ obj_rest r ++ rest) Hws) as [col' Eo].
      rewrite (parse_loop_step _ _ st _ Eo).
      assert (Eprint : c :: t ++ obj_rest r ++ rest = print x ++ (obj_rest r ++ rest)) by (now rewrite Ex).
      rewrite Eprint. rewrite <- Nat.add_assoc.
      destruct (obj_rest_head r rest) as [c2 [t2 [E2 Hc2]]].
      destruct (Hx (cost_fields r + f)%nat line col' (SObj [] k :: st) (obj_rest r ++ rest)) as [lx1 [Hlx1 E1]];
        [rewrite E2; now apply follow_sep|].
      rewrite E1. rewrite E2, (drop_ws_nonws c2 t2 (sep_nonws c2 Hc2)), <- E2 in Hlx1.
      destruct (obj_tail r Hr [] k (embed x) f lx1 st rest Hlx1) as [lx' [Hlx' E']]; [exact Hnd|].
      exists lx'. split; [exact Hlx'|]. rewrite E'. reflexivity.
    + rewrite print_obj_cons. cbn [cost fold_right length snd]. fold (cost_fields r). rewrite !app_length. cbn [length].
      rewrite app_length. lia.
Qed.

(* parse_json inverts the printer *)
Theorem parse_print : forall p, wf p -> parse_json (print p) = Ok (embed p).
Proof.
  intros p Hw. destruct (roundtrip_all (size p) p (le_n _) Hw) as [Hr Hc].
  destruct (print_head p Hw) as [c [t [Ep [Hws _]]]].
  unfold parse_json. set (fuel := S (length (print p))).
  assert (Esk : skip_spaces {| lx_line := 0; lx_col := 0; lx_rem := print p |} = mk 0 0 (print p ++ [])).
  { rewrite app_nil_r, Ep. apply skip_mk, Hws. }
  rewrite Esk. replace fuel with (cost p + (fuel - cost p))%nat by (unfold fuel; lia).
  destruct (Hr (fuel - cost p)%nat 0 0 [] []) as [lx' [Hlx' E]]; [destruct p; exact I|].
  rewrite E. cbn [drop_ws] in Hlx'. cbn [unwind]. rewrite Hlx'. reflexivity.
Qed.

(* and trailing data after a printed value is rejected *)
Theorem parse_print_trailing : forall p c t, wf p -> is_ws c = false -> follow_ok p (c :: t) ->
  exists line col, parse_json (print p ++ c :: t) = Err {| je_line := line; je_col := col; je_kind := EExpectedEof |}.
Proof.
  intros p c t Hw Hc Hfo. destruct (roundtrip_all (size p) p (le_n _) Hw) as [Hr Hcost].
  destruct (print_head p Hw) as [c0 [t0 [Ep [Hws _]]]].
  unfold parse_json. set (fuel := S (length (print p ++ c :: t))).
  assert (Esk : skip_spaces {| lx_line := 0; lx_col := 0; lx_rem := print p ++ c :: t |} = mk 0 0 (print p ++ c :: t)).
  { rewrite Ep. cbn [app]. apply skip_mk, Hws. }
  rewrite Esk. replace fuel with (cost p + (fuel - cost p))%nat by (unfold fuel; rewrite app_length; lia).
  destruct (Hr (fuel - cost p)%nat 0 0 [] (c :: t) Hfo) as [lx' [Hlx' E]].
  rewrite E. rewrite (drop_ws_nonws c t Hc) in Hlx'. cbn [unwind]. rewrite Hlx'. cbn [after].
  eexists. eexists. reflexivity.
Qed.
