(* Proofs/RefDead_builtins.v — C02/C04: the two-run simulation through [call_builtin] (every builtin of
   the model's std), which makes the dead-binding theorem unconditional. *)
From RJ Require Import Base.Outcome Base.F64 Model.Token Model.Ast Model.RefCore Model.RefValue Model.RefEval.
From RJ Require Import Proofs.RefSem_params Proofs.RefScope_defs Proofs.RefScope_proofs Proofs.RefScope_main.
From RJ Require Import Proofs.RefDead_defs Proofs.RefDead_proofs Proofs.RefDead_main.
From Coq Require Import Lia.
Local Open Scope N_scope.

Section DeadBuiltins.
Variable x : str.
Variables e1 e2 : list frame.
Hypothesis Hd : dead_pair x e1 e2.
Notation vr := (vrel x e1 e2).
Notation tr := (trel x e1 e2).
Notation er := (erel x e1 e2).
Notation lr := (lrel x e1 e2).
Notation lsr := (lsrel x e1 e2).
Notation tsr := (tsrel x e1 e2).
Notation bvr := (bvrel x e1 e2).

Hint Constructors vrel trel : rel.
Hint Resolve rel2_err rel2_kind rel2_unsupported rel2_argtype rel2_panic rel2_check_num rel2_emit rel2_ask_bfs
  rel2_ask_ts_tail rel2_enter Forall2_app_intro rel2_eval rel2_forceT rel2_apply rel2_applyf rel2_field_at rel2_equals
  rel2_compare rel2_manifest rel2_render_m rel2_to_string rel2_un_op rel2_num_bin rel2_add_vals rel2_bin_op
  rel2_run_asserts rel2_missing_field rel2_get_field rel2_do_field rel2_super_field rel2_field_name_of
  rel2_index_value rel2_opt_num rel2_slice_pos rel2_slice_range rel2_do_slice rel2_eval_opt rel2_ret_eq : rel2.
Hint Resolve Forall2_app_intro : rel.
Hint Extern 1 (@eq _ _ _) => reflexivity : rel.

Ltac rel_inv :=
  repeat match goal with
  | H : vr (VArr _) _ |- _ => inversion H; clear H; subst
  | H : vr (VObj _ _) _ |- _ => inversion H; clear H; subst
  | H : vr (VFun _ _ _) _ |- _ => inversion H; clear H; subst
  | H : vr VNull _ |- _ => inversion H; clear H; subst
  | H : vr (VBool _) _ |- _ => inversion H; clear H; subst
  | H : vr (VNum _) _ |- _ => inversion H; clear H; subst
  | H : vr (VStr _) _ |- _ => inversion H; clear H; subst
  | H : vr (VBuiltin _) _ |- _ => inversion H; clear H; subst
  | H : tr (Th _ _) _ |- _ => inversion H; clear H; subst
  | H : tr (Tv _) _ |- _ => inversion H; clear H; subst
  | H : tr (TCall _ _) _ |- _ => inversion H; clear H; subst
  | H : Forall2 _ (_ :: _) _ |- _ => inversion H; clear H; subst
  | H : Forall2 _ [] _ |- _ => inversion H; clear H; subst
  | H : _ /\ _ |- _ => destruct H
  end.

Ltac r2_step :=
  match goal with
  | |- rel2 _ _ _ _ (ret _) (ret _) => apply rel2_ret; try solve [eauto with rel]
  | |- rel2 _ _ _ _ (bind _ _) (bind _ _) => eapply rel2_bind; [ solve [eauto with rel2 rel] | intros ? ? ?; subst ]
  | H : vr ?v ?v' |- rel2 _ _ _ _ (match ?v with _ => _ end) (match ?v' with _ => _ end) => destruct v; rel_inv
  | |- rel2 _ _ _ _ (match ?v with _ => _ end) (match ?v with _ => _ end) => first [ is_var v; destruct v | destruct v eqn:? ]
  | |- rel2 _ _ _ _ (if ?b then _ else _) (if ?b then _ else _) => destruct b eqn:?
  | |- rel2 _ _ _ _ _ _ => solve [eauto with rel2 rel]
  | |- rel2 _ _ _ _ _ _ => eapply rel2_weaken; [ solve [eauto with rel2 rel] | solve [intros; subst; eauto with rel] ]
  end.
Ltac r2_tac := repeat r2_step.

(* ---- list helpers ---- *)
Lemma Forall2_rev {A} (R : A -> A -> Prop) l l' : Forall2 R l l' -> Forall2 R (rev l) (rev l').
Proof. induction 1; simpl; [constructor | apply Forall2_app_intro; [assumption | constructor; [assumption | constructor]]]. Qed.

Lemma Forall2_combine {A B} (R : B -> B -> Prop) (ns : list A) : forall l l', Forall2 R l l' ->
  Forall2 (fun p p' => fst p = fst p' /\ R (snd p) (snd p')) (combine ns l) (combine ns l').
Proof.
  induction ns as [|n r IH]; intros l l' H; simpl; [constructor|]. inversion H; subst; [constructor|].
  constructor; [split; [reflexivity | assumption] | apply IH; assumption].
Qed.

Lemma char_thunks_rel s : tsr (char_thunks s) (char_thunks s).
Proof. unfold char_thunks. apply Forall2_refl. intros t Ht. apply in_map_iff in Ht. destruct Ht as (c & <- & _). repeat constructor. Qed.

Lemma type_name_rel v v' : vr v v' -> type_name v = type_name v'.
Proof. intros H. destruct v; rel_inv; reflexivity. Qed.

Lemma fun_params_rel v v' : vr v v' -> fun_params v = fun_params v'.
Proof. intros H. destruct v; rel_inv; reflexivity. Qed.

(* ---- the iterating builtins ---- *)
Lemma rel2_filter_m fv fv' d : vr fv fv' -> forall items items', tsr items items' ->
  rel2 x e1 e2 (Forall2 tr) (filter_m fv items d) (filter_m fv' items' d).
Proof.
  intros Hf items items' Hi. induction Hi as [|t t' r r' Ht _ IH]; simpl; [apply rel2_ret; constructor|].
  eapply rel2_bind; [apply rel2_applyf; [exact Hf | constructor; [exact Ht | constructor]]|]. intros b b' Hb.
  destruct b; rel_inv; try apply rel2_kind. eapply rel2_bind; [exact IH|]. intros rest rest' Hrest. apply rel2_ret.
  destruct b; [constructor; assumption | assumption].
Qed.

Lemma rel2_foldl_m fv fv' d : vr fv fv' -> forall items items', tsr items items' -> forall acc acc', tr acc acc' ->
  rel2 x e1 e2 vr (foldl_m fv items acc d) (foldl_m fv' items' acc' d).
Proof.
  intros Hf items items' Hi. induction Hi as [|t t' r r' Ht _ IH]; intros acc acc' Ha; simpl; [apply rel2_forceT; exact Ha|].
  eapply rel2_bind; [apply rel2_applyf; [exact Hf | repeat constructor; assumption]|]. intros v v' Hv. apply IH. constructor. exact Hv.
Qed.

Lemma rel2_foldr_m fv fv' d : vr fv fv' -> forall items items', tsr items items' -> forall acc acc', tr acc acc' ->
  rel2 x e1 e2 vr (foldr_m fv items acc d) (foldr_m fv' items' acc' d).
Proof.
  intros Hf items items' Hi. induction Hi as [|t t' r r' Ht _ IH]; intros acc acc' Ha; simpl; [apply rel2_forceT; exact Ha|].
  eapply rel2_bind; [apply rel2_applyf; [exact Hf | repeat constructor; assumption]|]. intros v v' Hv. apply IH. constructor. exact Hv.
Qed.

Lemma rel2_join_str_m sep d : forall items items', tsr items items' -> forall first acc,
  rel2 x e1 e2 vr (join_str_m sep items first acc d) (join_str_m sep items' first acc d).
Proof.
  intros items items' Hi. induction Hi as [|t t' r r' Ht _ IH]; intros first acc; simpl; [apply rel2_ret; constructor|].
  eapply rel2_bind; [apply rel2_forceT; exact Ht|]. intros v v' Hv. destruct v; rel_inv; try apply rel2_kind; apply IH.
Qed.

Lemma rel2_join_arr_m sep sep' d : tsr sep sep' -> forall items items', tsr items items' -> forall first acc acc', tsr acc acc' ->
  rel2 x e1 e2 vr (join_arr_m sep items first acc d) (join_arr_m sep' items' first acc' d).
Proof.
  intros Hs items items' Hi. induction Hi as [|t t' r r' Ht _ IH]; intros first acc acc' Ha; simpl; [apply rel2_ret; constructor; exact Ha|].
  eapply rel2_bind; [apply rel2_forceT; exact Ht|]. intros v v' Hv. destruct v; rel_inv; try apply rel2_kind; [apply IH; assumption|].
  apply IH. destruct first; [apply Forall2_app_intro; assumption | apply Forall2_app_intro; [assumption | apply Forall2_app_intro; assumption]].
Qed.

Lemma rel2_all_m d : forall items items', tsr items items' -> rel2 x e1 e2 vr (all_m items d) (all_m items' d).
Proof.
  intros items items' Hi. induction Hi as [|t t' r r' Ht _ IH]; simpl; [apply rel2_ret; constructor|].
  eapply rel2_bind; [apply rel2_forceT; exact Ht|]. intros v v' Hv. destruct v; rel_inv; try apply rel2_kind.
  destruct b; [exact IH | apply rel2_ret; constructor].
Qed.
Lemma rel2_any_m d : forall items items', tsr items items' -> rel2 x e1 e2 vr (any_m items d) (any_m items' d).
Proof.
  intros items items' Hi. induction Hi as [|t t' r r' Ht _ IH]; simpl; [apply rel2_ret; constructor|].
  eapply rel2_bind; [apply rel2_forceT; exact Ht|]. intros v v' Hv. destruct v; rel_inv; try apply rel2_kind.
  destruct b; [apply rel2_ret; constructor | exact IH].
Qed.
Lemma rel2_sum_m d : forall items items', tsr items items' -> forall acc, rel2 x e1 e2 vr (sum_m items acc d) (sum_m items' acc d).
Proof.
  intros items items' Hi. induction Hi as [|t t' r r' Ht _ IH]; intros acc; simpl; [apply rel2_check_num|].
  eapply rel2_bind; [apply rel2_forceT; exact Ht|]. intros v v' Hv. destruct v; rel_inv; try apply rel2_kind. apply IH.
Qed.
Lemma rel2_flatten_m d : forall items items', tsr items items' -> forall acc acc', tsr acc acc' ->
  rel2 x e1 e2 vr (flatten_m items acc d) (flatten_m items' acc' d).
Proof.
  intros items items' Hi. induction Hi as [|t t' r r' Ht _ IH]; intros acc acc' Ha; simpl; [apply rel2_ret; constructor; exact Ha|].
  eapply rel2_bind; [apply rel2_forceT; exact Ht|]. intros v v' Hv. destruct v; rel_inv; try apply rel2_kind. apply IH. apply Forall2_app_intro; assumption.
Qed.
Lemma rel2_contains_m y y' d : vr y y' -> forall items items', tsr items items' -> rel2 x e1 e2 vr (contains_m y items d) (contains_m y' items' d).
Proof.
  intros Hy items items' Hi. induction Hi as [|t t' r r' Ht _ IH]; simpl; [apply rel2_ret; constructor|].
  eapply rel2_bind; [apply rel2_forceT; exact Ht|]. intros v v' Hv.
  eapply rel2_bind; [apply rel2_equals; eassumption|]. intros b b' ->. destruct b'; [apply rel2_ret; constructor | exact IH].
Qed.
Lemma rel2_count_m y y' d : vr y y' -> forall items items', tsr items items' -> forall n, rel2 x e1 e2 vr (count_m y items n d) (count_m y' items' n d).
Proof.
  intros Hy items items' Hi. induction Hi as [|t t' r r' Ht _ IH]; intros n; simpl; [apply rel2_ret; constructor|].
  eapply rel2_bind; [apply rel2_forceT; exact Ht|]. intros v v' Hv.
  eapply rel2_bind; [apply rel2_equals; eassumption|]. intros b b' ->. apply IH.
Qed.

Lemma rel2_object_has o o' f f' h h' : vr o o' -> vr f f' -> vr h h' -> rel2 x e1 e2 vr (object_has o f h) (object_has o' f' h').
Proof.
  intros Ho Hf Hh. unfold object_has. destruct o; rel_inv; try solve [r2_tac]. destruct f; rel_inv; try solve [r2_tac].
  destruct h; rel_inv; try solve [r2_tac].
  match goal with H : Forall2 lr ?a ?b |- _ => rewrite <- (lsrel_has_field x e1 e2 a b 0 s H), <- (lsrel_is_visible x e1 e2 a b s H) end.
  destruct b; r2_tac.
Qed.
Lemma rel2_object_fields o o' h h' : vr o o' -> vr h h' -> rel2 x e1 e2 vr (object_fields o h) (object_fields o' h').
Proof.
  intros Ho Hh. unfold object_fields. destruct o; rel_inv; try solve [r2_tac]. destruct h; rel_inv; try solve [r2_tac].
  match goal with H : Forall2 lr ?a ?b |- _ => rewrite <- (lsrel_all_names x e1 e2 a b H), <- (lsrel_visible_names x e1 e2 a b H) end.
  apply rel2_ret. constructor. apply Forall2_refl. intros t Ht. apply in_map_iff in Ht. destruct Ht as (n & <- & _). repeat constructor.
Qed.
Lemma rel2_prim_equals a a' b b' : vr a a' -> vr b b' -> rel2 x e1 e2 vr (prim_equals a b) (prim_equals a' b').
Proof. intros Ha Hb. unfold prim_equals. destruct a; rel_inv; destruct b; rel_inv; r2_tac. Qed.
Lemma rel2_mod_num a a' b b' : vr a a' -> vr b b' -> rel2 x e1 e2 vr (mod_num a b) (mod_num a' b').
Proof. intros Ha Hb. unfold mod_num. destruct a; rel_inv; destruct b; rel_inv; r2_tac. Qed.
Hint Resolve rel2_filter_m rel2_foldl_m rel2_foldr_m rel2_join_str_m rel2_join_arr_m rel2_all_m rel2_any_m rel2_sum_m
  rel2_flatten_m rel2_contains_m rel2_count_m rel2_object_has rel2_object_fields rel2_prim_equals rel2_mod_num : rel2.

Ltac norm_rel :=
  repeat match goal with
  | H : vr ?a ?b |- context [is_fun ?b] => rewrite <- (is_fun_rel x e1 e2 a b H)
  | H : vr ?a ?b |- context [fun_params ?b] => rewrite <- (fun_params_rel a b H)
  | H : vr ?a ?b |- context [type_name ?b] => rewrite <- (type_name_rel a b H)
  | H : Forall2 tr ?a ?b |- context [lenN ?b] => rewrite <- (Forall2_len _ a b H)
  | H : Forall2 lr ?a ?b |- context [visible_names ?b] => rewrite <- (lsrel_visible_names x e1 e2 a b H)
  end.

Ltac down2 :=
  repeat (norm_rel; match goal with
  | H : vr ?v ?v' |- rel2 _ _ _ _ (match ?v with _ => _ end) (match ?v' with _ => _ end) => destruct v; rel_inv
  | |- rel2 _ _ _ _ (match ?v with _ => _ end) (match ?v with _ => _ end) => first [ is_var v; destruct v | destruct v eqn:? ]
  | |- rel2 _ _ _ _ (if ?b then _ else _) (if ?b then _ else _) => destruct b eqn:?
  end).

Ltac force_args_tac := repeat (eapply rel2_bind; [apply rel2_forceT; eassumption|]; intros ? ? ?).

Ltac fin2 :=
  norm_rel;
  try solve [r2_tac];
  try solve [match goal with H : vr ?a ?a' |- _ => destruct a; rel_inv; r2_tac end];
  try solve [apply rel2_ret; constructor;
             first [ apply char_thunks_rel | apply Forall2_rev; assumption
                   | apply Forall2_concat; apply Forall2_refl; intros; assumption
                   | eapply Forall2_map_intro; [apply Forall2_refl; intros; reflexivity|]; intros ? ? <-; repeat constructor; assumption
                   | eapply Forall2_map_intro; [eassumption|]; intros; repeat constructor; assumption
                   | eapply Forall2_map_intro; [apply Forall2_combine; first [eassumption | apply char_thunks_rel]|];
                     intros ? ? [<- ?]; constructor; [assumption|]; repeat constructor; assumption
                   | constructor ]];
  try solve [apply rel2_flatten_m; [assumption | constructor]];
  try solve [apply rel2_join_arr_m; [assumption | assumption | constructor]];
  try solve [apply rel2_foldr_m; [assumption | apply Forall2_rev; assumption | assumption]];
  try solve [apply rel2_ret; constructor; apply Forall2_concat; eapply Forall2_map_intro; [apply Forall2_refl; intros; reflexivity|]; intros; assumption];
  try solve [match goal with H : Forall2 tr ?i ?i' |- rel2 _ _ _ _ (match ?i with _ => _ end) _ =>
               inversion H; subst; [r2_tac | first [apply rel2_sum_m | eapply rel2_bind; [apply rel2_forceT; eassumption|]; intros; first [apply rel2_contains_m | apply rel2_count_m]; try assumption]; constructor; assumption] end].

Theorem builtin_sim : builtin_sim_at x e1 e2.
Proof.
  intros bi args args' d Ha. unfold call_builtin.
  destruct Ha as [|a0 a0' r0 r0' H0 Hr0]; [r2_tac|].
  destruct Hr0 as [|a1 a1' r1 r1' H1 Hr1].
  { destruct bi; try solve [r2_tac]; force_args_tac; try solve [r2_tac]; down2; fin2.
  }
  destruct Hr1 as [|a2 a2' r2 r2' H2 Hr2].
  { destruct bi; try solve [r2_tac]; force_args_tac; try solve [r2_tac]; down2; fin2.
  }
  destruct Hr2 as [|a3 a3' r3 r3' H3 Hr3].
  { destruct bi; try solve [r2_tac]; force_args_tac; try solve [r2_tac]; down2; fin2.
  }
  destruct Hr3 as [|a4 a4' r4 r4' H4 Hr4].
  { destruct bi; try solve [r2_tac]; force_args_tac; try solve [r2_tac]; down2; fin2.
  }
  r2_tac.
Qed.
End DeadBuiltins.
