(* Proofs/Utf8Codec_proofs.v — facts about Model/Utf8Codec.v *)
From RJ Require Import Base.Outcome Model.Utf8Codec.
From Coq Require Import Lia.
Local Open Scope N_scope.

Ltac nsolve := zify; Z.to_euclidean_division_equations; lia.

Ltac brk :=
  repeat match goal with
  | H : (_ && _) = true |- _ => apply andb_prop in H; destruct H
  | H : (_ || _) = true |- _ => apply orb_prop in H; destruct H
  | H : (_ && _) = false |- _ => apply andb_false_iff in H; destruct H
  | H : (_ <? _) = true |- _ => apply N.ltb_lt in H
  | H : (_ <? _) = false |- _ => apply N.ltb_ge in H
  | H : (_ <=? _) = true |- _ => apply N.leb_le in H
  | H : (_ <=? _) = false |- _ => apply N.leb_gt in H
  | H : (_ =? _) = true |- _ => apply N.eqb_eq in H
  | H : (_ =? _) = false |- _ => apply N.eqb_neq in H
  end.

Lemma in_range_true lo hi b : lo <= b -> b <= hi -> in_range lo hi b = true.
Proof. intros. unfold in_range. apply andb_true_intro. split; apply N.leb_le; assumption. Qed.
Lemma in_range_false lo hi b : b < lo \/ hi < b -> in_range lo hi b = false.
Proof.
  intros [H|H]; unfold in_range.
  - apply N.leb_gt in H. rewrite H. reflexivity.
  - apply N.leb_gt in H. rewrite H. apply andb_false_r.
Qed.
Lemma is_cont_true b : 128 <= b -> b < 192 -> is_cont b = true.
Proof. intros. unfold is_cont. apply andb_true_intro. split; [apply N.leb_le|apply N.ltb_lt]; assumption. Qed.

(* one scalar value: the lossy decoder reads back exactly that character and continues *)
Lemma decode_lossy_char c rest : is_scalar c = true ->
  decode_lossy (encode_char c ++ rest) = c :: decode_lossy rest.
Proof.
  intros Hs. unfold is_scalar in Hs. unfold encode_char.
  destruct (c <? 128) eqn:E1.
  { cbn [app decode_lossy]. rewrite E1. reflexivity. }
  destruct (c <? 2048) eqn:E2.
  { clear Hs. brk. cbn [app]. cbn [decode_lossy].
    replace (192 + c / 64 <? 128) with false by (symmetry; apply N.ltb_ge; nsolve).
    rewrite in_range_true by nsolve.
    rewrite is_cont_true by nsolve.
    replace ((192 + c / 64 - 192) * 64 + (128 + c mod 64 - 128)) with c by nsolve. reflexivity. }
  destruct (c <? 65536) eqn:E3.
  { cbn [app]. cbn [decode_lossy].
    replace (224 + c / 4096 <? 128) with false by (symmetry; apply N.ltb_ge; brk; nsolve).
    rewrite (in_range_false 194 223) by (brk; nsolve).
    rewrite (in_range_true 224 239) by (brk; nsolve).
    assert (Hok : ok2_of3 (224 + c / 4096) (128 + (c / 64) mod 64) = true).
    { unfold ok2_of3.
      destruct (224 + c / 4096 =? 224) eqn:A; [brk; apply in_range_true; nsolve|].
      destruct (in_range 225 236 (224 + c / 4096)) eqn:B; unfold in_range in B; [brk; apply in_range_true; nsolve|].
      destruct (224 + c / 4096 =? 237) eqn:C; brk; apply in_range_true; nsolve. }
    rewrite Hok. rewrite is_cont_true by (brk; nsolve).
    replace ((224 + c / 4096 - 224) * 4096 + (128 + (c / 64) mod 64 - 128) * 64 + (128 + c mod 64 - 128))
      with c by (brk; nsolve).
    reflexivity. }
  { cbn [app]. cbn [decode_lossy].
    replace (240 + c / 262144 <? 128) with false by (symmetry; apply N.ltb_ge; brk; nsolve).
    rewrite (in_range_false 194 223) by (brk; nsolve).
    rewrite (in_range_false 224 239) by (brk; nsolve).
    rewrite (in_range_true 240 244) by (brk; nsolve).
    assert (Hok : ok2_of4 (240 + c / 262144) (128 + (c / 4096) mod 64) = true).
    { unfold ok2_of4.
      destruct (240 + c / 262144 =? 240) eqn:A; [brk; apply in_range_true; nsolve|].
      destruct (in_range 241 243 (240 + c / 262144)) eqn:B; unfold in_range in B; brk; apply in_range_true; nsolve. }
    rewrite Hok. rewrite !is_cont_true by (brk; nsolve).
    replace ((240 + c / 262144 - 240) * 262144 + (128 + (c / 4096) mod 64 - 128) * 4096 +
             (128 + (c / 64) mod 64 - 128) * 64 + (128 + c mod 64 - 128)) with c by (brk; nsolve).
    reflexivity. }
Qed.

Definition scalars (s : str) : Prop := Forall (fun c => is_scalar c = true) s.

Theorem decode_encode : forall s, scalars s -> decode_lossy (encode_utf8 s) = s.
Proof.
  induction s as [|c r IH]; intros H; [reflexivity|].
  inversion H as [|? ? Hc Hr]; subst.
  cbn [encode_utf8]. rewrite decode_lossy_char by assumption. now rewrite IH.
Qed.

(* the same for the strict decoder: the encoder's output is well-formed UTF-8 *)
Lemma decode_strict_char c rest : is_scalar c = true ->
  decode_strict (encode_char c ++ rest) = option_map (cons c) (decode_strict rest).
Proof.
  intros Hs. unfold is_scalar in Hs. unfold encode_char.
  destruct (c <? 128) eqn:E1.
  { cbn [app decode_strict]. rewrite E1. reflexivity. }
  destruct (c <? 2048) eqn:E2.
  { clear Hs. brk. cbn [app]. cbn [decode_strict].
    replace (192 + c / 64 <? 128) with false by (symmetry; apply N.ltb_ge; nsolve).
    rewrite in_range_true by nsolve.
    rewrite is_cont_true by nsolve.
    replace ((192 + c / 64 - 192) * 64 + (128 + c mod 64 - 128)) with c by nsolve. reflexivity. }
  destruct (c <? 65536) eqn:E3.
  { cbn [app]. cbn [decode_strict].
    replace (224 + c / 4096 <? 128) with false by (symmetry; apply N.ltb_ge; brk; nsolve).
    rewrite (in_range_false 194 223) by (brk; nsolve).
    rewrite (in_range_true 224 239) by (brk; nsolve).
    assert (Hok : ok2_of3 (224 + c / 4096) (128 + (c / 64) mod 64) = true).
    { unfold ok2_of3.
      destruct (224 + c / 4096 =? 224) eqn:A; [brk; apply in_range_true; nsolve|].
      destruct (in_range 225 236 (224 + c / 4096)) eqn:B; unfold in_range in B; [brk; apply in_range_true; nsolve|].
      destruct (224 + c / 4096 =? 237) eqn:C; brk; apply in_range_true; nsolve. }
    rewrite Hok. rewrite is_cont_true by (brk; nsolve). cbn [andb].
    replace ((224 + c / 4096 - 224) * 4096 + (128 + (c / 64) mod 64 - 128) * 64 + (128 + c mod 64 - 128))
      with c by (brk; nsolve).
    reflexivity. }
  { cbn [app]. cbn [decode_strict].
    replace (240 + c / 262144 <? 128) with false by (symmetry; apply N.ltb_ge; brk; nsolve).
    rewrite (in_range_false 194 223) by (brk; nsolve).
    rewrite (in_range_false 224 239) by (brk; nsolve).
    rewrite (in_range_true 240 244) by (brk; nsolve).
    assert (Hok : ok2_of4 (240 + c / 262144) (128 + (c / 4096) mod 64) = true).
    { unfold ok2_of4.
      destruct (240 + c / 262144 =? 240) eqn:A; [brk; apply in_range_true; nsolve|].
      destruct (in_range 241 243 (240 + c / 262144)) eqn:B; unfold in_range in B; brk; apply in_range_true; nsolve. }
    rewrite Hok. rewrite !is_cont_true by (brk; nsolve). cbn [andb].
    replace ((240 + c / 262144 - 240) * 262144 + (128 + (c / 4096) mod 64 - 128) * 4096 +
             (128 + (c / 64) mod 64 - 128) * 64 + (128 + c mod 64 - 128)) with c by (brk; nsolve).
    reflexivity. }
Qed.

Theorem encode_valid : forall s, scalars s -> decode_strict (encode_utf8 s) = Some s.
Proof.
  induction s as [|c r IH]; intros H; [reflexivity|].
  inversion H as [|? ? Hc Hr]; subst.
  cbn [encode_utf8]. rewrite decode_strict_char by assumption. now rewrite IH.
Qed.

Lemma encode_char_bytes c : is_scalar c = true -> Forall (fun b => b < 256) (encode_char c).
Proof.
  intros Hs. unfold is_scalar in Hs. unfold encode_char.
  destruct (c <? 128) eqn:E1; [brk; repeat constructor; nsolve|].
  destruct (c <? 2048) eqn:E2; [brk; repeat constructor; nsolve|].
  destruct (c <? 65536) eqn:E3; brk; repeat constructor; nsolve.
Qed.

Theorem encode_bytes : forall s, scalars s -> Forall (fun b => b < 256) (encode_utf8 s).
Proof.
  induction s as [|c r IH]; intros H; [constructor|].
  inversion H as [|? ? Hc Hr]; subst. cbn [encode_utf8]. apply Forall_app. split.
  - now apply encode_char_bytes.
  - now apply IH.
Qed.

(* ---- lossy = strict wherever strict is defined ------------------------------ *)

Lemma lossy_extends_strict : forall n bs s, (length bs <= n)%nat ->
  decode_strict bs = Some s -> decode_lossy bs = s.
Proof.
  induction n as [|n IH]; intros bs s Hn H.
  { destruct bs; [cbn in H; now injection H as <- | cbn in Hn; lia]. }
  destruct bs as [|b0 r0]; [cbn in H; now injection H as <-|].
  cbn [decode_strict] in H. cbn [decode_lossy]. cbn [length] in Hn.
  destruct (b0 <? 128).
  { destruct (decode_strict r0) as [t|] eqn:E; [|discriminate]. cbn in H. injection H as <-.
    f_equal. apply IH; [lia|assumption]. }
  destruct (in_range 194 223 b0).
  { destruct r0 as [|b1 r1]; [discriminate|]. destruct (is_cont b1); [|discriminate].
    destruct (decode_strict r1) as [t|] eqn:E; [|discriminate]. cbn in H. injection H as <-.
    f_equal. apply IH; [cbn [length] in Hn; lia|assumption]. }
  destruct (in_range 224 239 b0).
  { destruct r0 as [|b1 [|b2 r2]]; try discriminate.
    destruct (ok2_of3 b0 b1); [|discriminate]. destruct (is_cont b2); [|discriminate]. cbn [andb] in H.
    destruct (decode_strict r2) as [t|] eqn:E; [|discriminate]. cbn in H. injection H as <-.
    f_equal. apply IH; [cbn [length] in Hn; lia|assumption]. }
  destruct (in_range 240 244 b0); [|discriminate].
  destruct r0 as [|b1 [|b2 [|b3 r3]]]; try discriminate.
  destruct (ok2_of4 b0 b1); [|discriminate]. destruct (is_cont b2); [|discriminate].
  destruct (is_cont b3); [|discriminate]. cbn [andb] in H.
  destruct (decode_strict r3) as [t|] eqn:E; [|discriminate]. cbn in H. injection H as <-.
  f_equal. apply IH; [cbn [length] in Hn; lia|assumption].
Qed.

Theorem decode_is_lossy : forall bs s, decode_strict bs = Some s -> decode_lossy bs = s.
Proof. intros bs s. apply (lossy_extends_strict (length bs)). lia. Qed.

(* every character produced by the lossy decoder is a scalar value: the replacement
   character, an ASCII byte, or a decoded well-formed sequence *)
Lemma lossy_scalars_n : forall n bs, (length bs <= n)%nat ->
  Forall (fun b => b < 256) bs -> scalars (decode_lossy bs).
Proof.
  assert (Hrepl : is_scalar repl = true) by reflexivity.
  induction n as [|n IH]; intros bs Hn Hb.
  { destruct bs; [constructor | cbn in Hn; lia]. }
  destruct bs as [|b0 r0]; [constructor|].
  inversion Hb as [|? ? Hb0 Hr0]; subst. cbn [length] in Hn.
  cbn [decode_lossy].
  destruct (b0 <? 128) eqn:E0.
  { constructor; [clear IH; brk; unfold is_scalar; apply orb_true_intro; left; apply N.ltb_lt; lia|]. apply IH; [lia|assumption]. }
  destruct (in_range 194 223 b0) eqn:E2.
  { destruct r0 as [|b1 r1]; [repeat constructor|].
    inversion Hr0 as [|? ? Hb1 Hr1]; subst. cbn [length] in Hn.
    destruct (is_cont b1) eqn:C1.
    - constructor; [|apply IH; [lia|assumption]].
      unfold in_range, is_cont in *; brk; unfold is_scalar; apply orb_true_intro; left; apply N.ltb_lt; nsolve.
    - constructor; [assumption|]. apply IH; [cbn [length]; lia|assumption]. }
  destruct (in_range 224 239 b0) eqn:E3.
  { destruct r0 as [|b1 r1]; [repeat constructor|].
    inversion Hr0 as [|? ? Hb1 Hr1]; subst. cbn [length] in Hn.
    destruct (ok2_of3 b0 b1) eqn:O.
    - destruct r1 as [|b2 r2]; [repeat constructor|].
      inversion Hr1 as [|? ? Hb2 Hr2]; subst. cbn [length] in Hn.
      destruct (is_cont b2) eqn:C2.
      + constructor; [|apply IH; [lia|assumption]].
        unfold ok2_of3 in O. unfold is_scalar.
        destruct (b0 =? 224) eqn:A.
        { unfold in_range, is_cont in *; brk; apply orb_true_intro; left; apply N.ltb_lt; nsolve. }
        destruct (in_range 225 236 b0) eqn:B.
        { unfold in_range, is_cont in *; brk; apply orb_true_intro; left; apply N.ltb_lt; nsolve. }
        destruct (b0 =? 237) eqn:C.
        { unfold in_range, is_cont in *; brk; apply orb_true_intro; left; apply N.ltb_lt; nsolve. }
        unfold in_range, is_cont in *; brk; apply orb_true_intro; right; apply andb_true_intro;
          (split; [apply N.leb_le|apply N.ltb_lt]); nsolve.
      + constructor; [assumption|]. apply IH; [cbn [length]; lia|assumption].
    - constructor; [assumption|]. apply IH; [cbn [length]; lia|assumption]. }
  destruct (in_range 240 244 b0) eqn:E4.
  { destruct r0 as [|b1 r1]; [repeat constructor|].
    inversion Hr0 as [|? ? Hb1 Hr1]; subst. cbn [length] in Hn.
    destruct (ok2_of4 b0 b1) eqn:O.
    - destruct r1 as [|b2 r2]; [repeat constructor|].
      inversion Hr1 as [|? ? Hb2 Hr2]; subst. cbn [length] in Hn.
      destruct (is_cont b2) eqn:C2.
      + destruct r2 as [|b3 r3]; [repeat constructor|].
        inversion Hr2 as [|? ? Hb3 Hr3]; subst. cbn [length] in Hn.
        destruct (is_cont b3) eqn:C3.
        * constructor; [|apply IH; [lia|assumption]].
          unfold ok2_of4 in O. unfold is_scalar.
          apply orb_true_intro; right; apply andb_true_intro.
          destruct (b0 =? 240) eqn:A.
          { unfold in_range, is_cont in *; brk; (split; [apply N.leb_le|apply N.ltb_lt]); nsolve. }
          destruct (in_range 241 243 b0) eqn:B.
          { unfold in_range, is_cont in *; brk; (split; [apply N.leb_le|apply N.ltb_lt]); nsolve. }
          unfold in_range, is_cont in *; brk; (split; [apply N.leb_le|apply N.ltb_lt]); nsolve.
        * constructor; [assumption|]. apply IH; [cbn [length]; lia|assumption].
      + constructor; [assumption|]. apply IH; [cbn [length]; lia|assumption].
    - constructor; [assumption|]. apply IH; [cbn [length]; lia|assumption]. }
  constructor; [assumption|]. apply IH; [lia|assumption].
Qed.

Theorem lossy_scalars : forall bs, Forall (fun b => b < 256) bs -> scalars (decode_lossy bs).
Proof. intros bs. apply (lossy_scalars_n (length bs)). lia. Qed.
