(* Proofs/DepthSem_proofs.v — limit monotonicity, depth bound, in-progress
   discipline and cycle detection for Model/DepthSem.v. *)
From RJ Require Import Base.Outcome Model.DepthSem.
From Coq Require Import Lia.
Local Open Scope N_scope.

Arguments N.add : simpl never.
Arguments N.sub : simpl never.
Arguments N.max : simpl never.
Arguments N.ltb : simpl never.
Arguments tostring_frames : simpl never.

Lemma enter_cases : forall L d st,
  (enter L d st = Err StackOverflow /\ L < d + 1) \/
  (enter L d st = Ok {| cells := cells st; peak := N.max (peak st) (d + 1) |} /\ d + 1 <= L).
Proof.
  intros L d st. unfold enter. destruct (L <? d + 1) eqn:E.
  - left. apply N.ltb_lt in E. auto.
  - right. apply N.ltb_ge in E. auto.
Qed.

Lemma enter_mono : forall L L' d st, L <= L' ->
  enter L d st <> Err StackOverflow -> enter L' d st = enter L d st.
Proof.
  intros L L' d st HL H.
  destruct (enter_cases L d st) as [[E _]|[E Hd]]; [contradiction|].
  destruct (enter_cases L' d st) as [[_ Hd']|[E' _]]; [lia|]. congruence.
Qed.

(* the shape shared by every clause of [run]: a chain of binds whose heads
   are recursive calls, [enter], or pure case distinctions *)
Ltac head_of t :=
  lazymatch t with
  | obind ?x _ => head_of x
  | match ?x with _ => _ end => head_of x
  | _ => t
  end.

Ltac so_absurd :=
  match goal with
  | H : ?x <> ?x |- _ => exfalso; apply H; reflexivity
  end.

Section Mono.
Variable P : list expr.
Variables L L' : N.
Hypothesis HL : L <= L'.

Ltac mono_step IH :=
  lazymatch goal with
  | H : ?F <> Err StackOverflow |- ?F' = ?F =>
    let h := head_of F in
    lazymatch h with
    | run P L ?f ?d ?st ?k =>
        let E := fresh "E" in
        let Hne := fresh "Hne" in
        assert (Hne : run P L f d st k <> Err StackOverflow)
          by (intro E; rewrite E in H; cbn [obind] in H; apply H; reflexivity);
        rewrite (IH d st k Hne);
        destruct (run P L f d st k) as [[? ?]|[]| |]; cbn [obind] in *; try reflexivity; try so_absurd
    | enter L ?d ?st =>
        let E := fresh "E" in
        let Hne := fresh "Hne" in
        assert (Hne : enter L d st <> Err StackOverflow)
          by (intro E; rewrite E in H; cbn [obind] in H; apply H; reflexivity);
        rewrite (enter_mono L L' d st HL Hne);
        destruct (enter L d st) as [?|[]| |]; cbn [obind] in *; try reflexivity; try so_absurd
    | _ => destruct h; cbn [obind as_val as_bool as_ord as_str] in *; try reflexivity; try so_absurd
    end
  end.

Lemma run_mono : forall fuel d st k,
  run P L fuel d st k <> Err StackOverflow ->
  run P L' fuel d st k = run P L fuel d st k.
Proof.
  induction fuel as [|fuel IH]; intros d st k H; [reflexivity|].
  destruct k as [env e|framed i|a b|xs ys|a b|xs ys|v|ts|v|ts]; cbn [run] in *.
  - destruct e; try reflexivity; repeat (mono_step IH).
  - repeat (mono_step IH).
  - repeat (mono_step IH).
  - repeat (mono_step IH).
  - repeat (mono_step IH).
  - repeat (mono_step IH).
  - repeat (mono_step IH).
  - repeat (mono_step IH).
  - repeat (mono_step IH).
  - repeat (mono_step IH).
Qed.
End Mono.

Theorem limit_monotone_outcome : forall P L L' fuel d st k,
  L <= L' -> run P L fuel d st k <> Err StackOverflow ->
  run P L' fuel d st k = run P L fuel d st k.
Proof. intros. apply run_mono; assumption. Qed.

Theorem limit_monotone : forall P L L' fuel d st k r,
  run P L fuel d st k = Ok r -> L <= L' -> run P L' fuel d st k = Ok r.
Proof.
  intros P L L' fuel d st k r E HL. rewrite <- E. apply run_mono; [exact HL|].
  rewrite E. discriminate.
Qed.

(* the whole pipeline (evaluate, force deeply, manifest) *)
Theorem top_monotone : forall p L L' fuel,
  L <= L' -> top p L fuel <> Err StackOverflow -> top p L' fuel = top p L fuel.
Proof.
  intros p L L' fuel HL H. unfold top in *.
  assert (H1 : run (funs p) L fuel 0 (init_store p) (KEval None (main p)) <> Err StackOverflow)
    by (intro E; rewrite E in H; apply H; reflexivity).
  rewrite (run_mono _ _ _ HL _ _ _ _ H1).
  destruct (run (funs p) L fuel 0 (init_store p) (KEval None (main p))) as [[r st1]| | |]; cbn [obind] in *; try reflexivity.
  destruct (as_val r) as [v| | |]; cbn [obind] in *; try reflexivity.
  assert (H2 : run (funs p) L fuel 0 st1 (KDeep v) <> Err StackOverflow)
    by (intro E; rewrite E in H; apply H; reflexivity).
  rewrite (run_mono _ _ _ HL _ _ _ _ H2).
  destruct (run (funs p) L fuel 0 st1 (KDeep v)) as [[r2 st2]| | |]; cbn [obind] in *; try reflexivity.
  assert (H3 : run (funs p) L fuel 0 st2 (KManifest v) <> Err StackOverflow)
    by (intro E; rewrite E in H; apply H; reflexivity).
  rewrite (run_mono _ _ _ HL _ _ _ _ H3). reflexivity.
Qed.

Theorem top_limit_monotone : forall p L L' fuel x,
  top p L fuel = Ok x -> L <= L' -> top p L' fuel = Ok x.
Proof.
  intros p L L' fuel x E HL. rewrite <- E. apply top_monotone; [exact HL|]. rewrite E. discriminate.
Qed.

(* ---- the depth bound: no frame is ever entered beyond the limit ---- *)

Lemma alloc_all_peak : forall es st env ts st',
  alloc_all st es env = (ts, st') -> peak st' = peak st.
Proof.
  induction es as [|e r IH]; intros st env ts st' E; cbn [alloc_all] in E.
  - injection E as <- <-. reflexivity.
  - unfold alloc in E. destruct (alloc_all _ r env) as [ts2 st2] eqn:E2.
    injection E as <- <-. apply IH in E2. exact E2.
Qed.

Section Peak.
Variable P : list expr.
Variable L : N.

Ltac peak_step IH H :=
  lazymatch type of H with
  | ?F = Ok _ =>
    let h := head_of F in
    lazymatch h with
    | run P L ?f ?d ?st ?k =>
        let E := fresh "E" in
        destruct (run P L f d st k) as [[? ?]| | |] eqn:E; cbn [obind] in H; try discriminate H;
        apply IH in E
    | enter L ?d ?st =>
        let E := fresh "E" in
        destruct (enter_cases L d st) as [[E _]|[E ?]]; rewrite E in H; clear E; cbn [obind] in H; try discriminate H
    | alloc_all ?st ?es ?env =>
        let E := fresh "E" in
        destruct (alloc_all st es env) as [? ?] eqn:E; apply alloc_all_peak in E
    | Ok _ => injection H as <- <-
    | (_, _) => fail 1 "pair head"
    | _ => destruct h; cbn [obind as_val as_bool as_ord as_str] in H; try discriminate H
    end
  end.

Lemma run_peak : forall fuel d st k r st',
  run P L fuel d st k = Ok (r, st') ->
  peak st <= peak st' /\ peak st' <= N.max (peak st) L.
Proof.
  induction fuel as [|fuel IH]; intros d st k r st' H; [discriminate|].
  destruct k as [env e|framed i|a b|xs ys|a b|xs ys|v|ts|v|ts]; cbn [run] in H.
  - destruct e; unfold alloc in H; cbv beta iota in H; repeat (peak_step IH H); cbn [peak set_cell] in *; lia.
  - repeat (peak_step IH H); cbn [peak set_cell] in *; lia.
  - repeat (peak_step IH H); cbn [peak set_cell] in *; lia.
  - repeat (peak_step IH H); cbn [peak set_cell] in *; lia.
  - repeat (peak_step IH H); cbn [peak set_cell] in *; lia.
  - repeat (peak_step IH H); cbn [peak set_cell] in *; lia.
  - repeat (peak_step IH H); cbn [peak set_cell] in *; lia.
  - repeat (peak_step IH H); cbn [peak set_cell] in *; lia.
  - repeat (peak_step IH H); cbn [peak set_cell] in *; lia.
  - repeat (peak_step IH H); cbn [peak set_cell] in *; lia.
Qed.
End Peak.

Theorem depth_never_exceeds : forall P L fuel d st k r st',
  run P L fuel d st k = Ok (r, st') -> peak st' <= N.max (peak st) L.
Proof. intros. eapply run_peak; eauto. Qed.

Theorem top_depth_never_exceeds : forall p L fuel s pk,
  top p L fuel = Ok (s, pk) -> pk <= L.
Proof.
  intros p L fuel s pk H. unfold top in H.
  destruct (run (funs p) L fuel 0 (init_store p) (KEval None (main p))) as [[r st1]| | |] eqn:E1; cbn [obind] in H; try discriminate.
  destruct (as_val r) as [v| | |]; cbn [obind] in H; try discriminate.
  destruct (run (funs p) L fuel 0 st1 (KDeep v)) as [[r2 st2]| | |] eqn:E2; cbn [obind] in H; try discriminate.
  destruct (run (funs p) L fuel 0 st2 (KManifest v)) as [[r3 st3]| | |] eqn:E3; cbn [obind] in H; try discriminate.
  destruct (as_str r3) as [s3| | |]; cbn [obind] in H; try discriminate.
  injection H as <- <-.
  apply run_peak in E1. apply run_peak in E2. apply run_peak in E3.
  cbn [init_store peak] in E1. lia.
Qed.

(* ---- cycles ---- *)

(* forcing a thunk that is being evaluated never yields a value *)
Theorem force_in_progress : forall P L fuel d st framed i,
  nthN (cells st) i = Some CInProgress ->
  run P L (S fuel) d st (KForce framed i) =
    if (framed && (L <? d + 1))%bool then Err StackOverflow else Err InfiniteRecursion.
Proof.
  intros P L fuel d st framed i H. cbn [run]. rewrite H. destruct framed; cbn [andb].
  - unfold enter. destruct (L <? d + 1); reflexivity.
  - reflexivity.
Qed.

(* ---- a cycle of local thunks, for every length and every limit ---- *)
Arguments N.leb : simpl never.
Arguments N.of_nat : simpl never.

(* the cells of the cycle program while thunks 0..i-1 are in progress *)
Definition cyc_cells (n i : nat) : list cell :=
  repeat CInProgress i ++ map (fun e => cell_of e None) (cycle_locs_from (N.of_nat i) (n - i)).

Lemma cycle_locs_length : forall m i, length (cycle_locs_from i m) = S m.
Proof. induction m as [|m IH]; intros i; cbn [cycle_locs_from length]; [reflexivity | rewrite IH; reflexivity]. Qed.

Lemma cyc_cells_length : forall n i, (i <= n)%nat -> length (cyc_cells n i) = S n.
Proof.
  intros n i H. unfold cyc_cells. rewrite app_length, repeat_length, map_length, cycle_locs_length. lia.
Qed.

Definition cyc_target (n i : nat) : N := if (i <? n)%nat then N.of_nat i + 1 else 0.

Lemma cyc_cells_nth : forall n i, (i <= n)%nat ->
  nth_error (cyc_cells n i) i = Some (CPending (ELoc (cyc_target n i)) None).
Proof.
  intros n i H. unfold cyc_cells, cyc_target.
  rewrite nth_error_app2 by (rewrite repeat_length; lia). rewrite repeat_length, Nat.sub_diag.
  destruct (n - i)%nat as [|m] eqn:E; cbn [cycle_locs_from map nth_error cell_of].
  - assert (i = n) by lia. subst. rewrite Nat.ltb_irrefl. reflexivity.
  - assert (Hlt : (i <? n)%nat = true) by (apply Nat.ltb_lt; lia). rewrite Hlt. reflexivity.
Qed.

Lemma set_nth_app_r : forall A (l1 l2 : list A) x, 
  set_nth (l1 ++ l2) (length l1) x = l1 ++ set_nth l2 0 x.
Proof.
  induction l1 as [|y l1 IH]; intros l2 x; cbn [app length set_nth].
  - reflexivity.
  - destruct (l1 ++ l2) eqn:E.
    + destruct l1; destruct l2; try discriminate. cbn. reflexivity.
    + rewrite <- E. rewrite IH. reflexivity.
Qed.

Lemma repeat_snoc : forall A (x : A) k, repeat x k ++ [x] = repeat x (S k).
Proof. induction k as [|k IH]; cbn [repeat app]; [reflexivity | rewrite IH; reflexivity]. Qed.

Lemma cyc_cells_set : forall n i, (i < n)%nat ->
  set_nth (cyc_cells n i) i CInProgress = cyc_cells n (S i).
Proof.
  intros n i H. unfold cyc_cells.
  pose proof (set_nth_app_r _ (repeat CInProgress i) (map (fun e => cell_of e None) (cycle_locs_from (N.of_nat i) (n - i))) CInProgress) as Hs.
  rewrite repeat_length in Hs. rewrite Hs. clear Hs.
  destruct (n - i)%nat as [|m] eqn:E; [lia|].
  cbn [cycle_locs_from map set_nth].
  replace (n - S i)%nat with m by lia.
  rewrite <- repeat_snoc, <- app_assoc. cbn [app].
  replace (N.of_nat (S i)) with (N.of_nat i + 1) by lia. reflexivity.
Qed.

Lemma nth_error_set_nth_other : forall A (l : list A) i j x, i <> j ->
  nth_error (set_nth l i x) j = nth_error l j.
Proof.
  induction l as [|y l IH]; intros i j x H; cbn [set_nth]; [destruct i; reflexivity|].
  destruct i as [|i]; destruct j as [|j]; cbn [nth_error]; try reflexivity; try contradiction.
  apply IH. lia.
Qed.

Lemma set_nth_length : forall A (l : list A) i x, length (set_nth l i x) = length l.
Proof.
  induction l as [|y l IH]; intros i x; cbn [set_nth]; [destruct i; reflexivity|].
  destruct i; cbn [length]; [reflexivity | rewrite IH; reflexivity].
Qed.

Lemma cyc_last_zero : forall n,
  nth_error (set_nth (cyc_cells n n) n CInProgress) 0 = Some CInProgress.
Proof.
  intros n. destruct n as [|n].
  - reflexivity.
  - rewrite nth_error_set_nth_other by lia. unfold cyc_cells. cbn [repeat app nth_error]. reflexivity.
Qed.

Lemma nthN_of_nat : forall A (l : list A) k, (k < length l)%nat ->
  nthN l (N.of_nat k) = nth_error l k.
Proof.
  intros A l k H. unfold nthN.
  destruct (N.of_nat (length l) <=? N.of_nat k) eqn:E.
  - apply N.leb_le in E. lia.
  - rewrite Nnat.Nat2N.id. reflexivity.
Qed.

Lemma cycle_force : forall n L m i fuel pk, (i + m = n)%nat -> (2 * m + 4 <= fuel)%nat ->
  run [] L fuel (N.of_nat i) {| cells := cyc_cells n i; peak := pk |} (KForce true (N.of_nat i)) =
    if N.of_nat n + 2 <=? L then Err InfiniteRecursion else Err StackOverflow.
Proof.
  intros n L. induction m as [|m IH]; intros i fuel pk Him Hf.
  - (* i = n: the last thunk refers back to thunk 0 *)
    assert (i = n) by lia. subst i.
    destruct fuel as [|[|[|f]]]; try lia. cbn [run cells].
    rewrite nthN_of_nat by (rewrite cyc_cells_length; lia).
    rewrite cyc_cells_nth by lia. unfold cyc_target. rewrite Nat.ltb_irrefl.
    destruct (enter_cases L (N.of_nat n) {| cells := cyc_cells n n; peak := pk |}) as [[E Hd]|[E Hd]]; rewrite E; cbn [obind].
    + destruct (N.of_nat n + 2 <=? L) eqn:E2; [apply N.leb_le in E2; lia | reflexivity].
    + unfold set_cell. cbn [cells peak]. rewrite Nnat.Nat2N.id.
      change 0 with (N.of_nat 0).
      rewrite nthN_of_nat by (rewrite set_nth_length, cyc_cells_length; lia).
      rewrite cyc_last_zero.
      unfold enter. cbn [cells peak].
      destruct (L <? N.of_nat n + 1 + 1) eqn:E3; cbn [obind].
      * apply N.ltb_lt in E3. destruct (N.of_nat n + 2 <=? L) eqn:E2; [apply N.leb_le in E2; lia | reflexivity].
      * apply N.ltb_ge in E3. destruct (N.of_nat n + 2 <=? L) eqn:E2; [reflexivity | apply N.leb_gt in E2; lia].
  - assert (Hlt : (i < n)%nat) by lia.
    destruct fuel as [|[|f]]; try lia. cbn [run cells].
    rewrite nthN_of_nat by (rewrite cyc_cells_length; lia).
    rewrite cyc_cells_nth by lia. unfold cyc_target.
    assert (Hb : (i <? n)%nat = true) by (apply Nat.ltb_lt; lia). rewrite Hb.
    destruct (enter_cases L (N.of_nat i) {| cells := cyc_cells n i; peak := pk |}) as [[E Hd]|[E Hd]]; rewrite E; cbn [obind].
    + destruct (N.of_nat n + 2 <=? L) eqn:E2; [apply N.leb_le in E2; lia | reflexivity].
    + unfold set_cell. cbn [cells peak]. rewrite Nnat.Nat2N.id. rewrite cyc_cells_set by lia.
      replace (N.of_nat i + 1) with (N.of_nat (S i)) by lia.
      rewrite (IH (S i) f) by lia. destruct (N.of_nat n + 2 <=? L); reflexivity.
Qed.

Theorem cycle_detected : forall n L fuel, (2 * n + 6 <= fuel)%nat ->
  top (cycle_program n) L fuel =
    if N.of_nat n + 2 <=? L then Err InfiniteRecursion else Err StackOverflow.
Proof.
  intros n L fuel Hf. unfold top, cycle_program, init_store. cbn [funs locs main].
  destruct fuel as [|f]; [lia|]. cbn [run].
  pose proof (cycle_force n L n 0 f 0 ltac:(lia) ltac:(lia)) as Hc.
  unfold cyc_cells in Hc. cbn [repeat app] in Hc. rewrite Nat.sub_0_r in Hc.
  change (N.of_nat 0) with 0 in Hc. rewrite Hc.
  destruct (N.of_nat n + 2 <=? L); reflexivity.
Qed.
