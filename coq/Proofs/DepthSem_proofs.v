(* Proofs/DepthSem_proofs.v — limit monotonicity, depth bound, in-progress
   discipline and cycle detection for Model/DepthSem.v. *)
From RJ Require Import Base.Outcome Model.DepthSem.
From Coq Require Import Lia.
Local Open Scope N_scope.

Arguments N.add : simpl never.
Arguments N.sub : simpl never.
Arguments N.max : simpl never.
Arguments N.ltb : simpl never.
Arguments tostring_frames : simpl never.

Lemma enter_cases : forall L d st,
  (enter L d st = Err StackOverflow /\ L < d + 1) \/
  (enter L d st = Ok {| cells := cells st; peak := N.max (peak st) (d + 1) |} /\ d + 1 <= L).
Proof.
  intros L d st. unfold enter. destruct (L <? d + 1) eqn:E.
  - left. apply N.ltb_lt in E. auto.
  - right. apply N.ltb_ge in E. auto.
Qed.

Lemma enter_mono : forall L L' d st, L <= L' ->
  enter L d st <> Err StackOverflow -> enter L' d st = enter L d st.
Proof.
  intros L L' d st HL H.
  destruct (enter_cases L d st) as [[E _]|[E Hd]]; [contradiction|].
  destruct (enter_cases L' d st) as [[_ Hd']|[E' _]]; [lia|]. congruence.
Qed.

(* the shape shared by every clause of [run]: a chain of binds whose heads
   are recursive calls, [enter], or pure case distinctions *)
Ltac head_of t :=
  lazymatch t with
  | obind ?x _ => head_of x
  | match ?x with _ => _ end => head_of x
  | _ => t
  end.

Ltac so_absurd :=
  match goal with
  | H : ?x <> ?x |- _ => exfalso; apply H; reflexivity
  end.

Section Mono.
Variable P : list expr.
Variables L L' : N.
Hypothesis HL : L <= L'.

Ltac mono_step IH :=
  lazymatch goal with
  | H : ?F <> Err StackOverflow |- ?F' = ?F =>
    let h := head_of F in
    lazymatch h with
    | run P L ?f ?d ?st ?k =>
        let E := fresh "E" in
        let Hne := fresh "Hne" in
        assert (Hne : run P L f d st k <> Err StackOverflow)
          by (intro E; rewrite E in H; cbn [obind] in H; apply H; reflexivity);
        rewrite (IH d st k Hne);
        destruct (run P L f d st k) as [[? ?]|[]| |]; cbn [obind] in *; try reflexivity; try so_absurd
    | enter L ?d ?st =>
        let E := fresh "E" in
        let Hne := fresh "Hne" in
        assert (Hne : enter L d st <> Err StackOverflow)
          by (intro E; rewrite E in H; cbn [obind] in H; apply H; reflexivity);
        rewrite (enter_mono L L' d st HL Hne);
        destruct (enter L d st) as [?|[]| |]; cbn [obind] in *; try reflexivity; try so_absurd
    | _ => destruct h; cbn [obind as_val as_bool as_ord as_str] in *; try reflexivity; try so_absurd
    end
  end.

Lemma run_mono : forall fuel d st k,
  run P L fuel d st k <> Err StackOverflow ->
  run P L' fuel d st k = run P L fuel d st k.
Proof.
  induction fuel as [|fuel IH]; intros d st k H; [reflexivity|].
  destruct k as [env e|framed i|a b|xs ys|a b|xs ys|v|ts|v|ts]; cbn [run] in *.
  - destruct e; try reflexivity; repeat (mono_step IH).
  - repeat (mono_step IH).
  - repeat (mono_step IH).
  - repeat (mono_step IH).
  - repeat (mono_step IH).
  - repeat (mono_step IH).
  - repeat (mono_step IH).
  - repeat (mono_step IH).
  - repeat (mono_step IH).
  - repeat (mono_step IH).
Qed.
End Mono.

Theorem limit_monotone_outcome : forall P L L' fuel d st k,
  L <= L' -> run P L fuel d st k <> Err StackOverflow ->
  run P L' fuel d st k = run P L fuel d st k.
Proof. intros. apply run_mono; assumption. Qed.

Theorem limit_monotone : forall P L L' fuel d st k r,
  run P L fuel d st k = Ok r -> L <= L' -> run P L' fuel d st k = Ok r.
Proof.
  intros P L L' fuel d st k r E HL. rewrite <- E. apply run_mono; [exact HL|].
  rewrite E. discriminate.
Qed.

(* the whole pipeline (evaluate, force deeply, manifest) *)
Theorem top_monotone : forall p L L' fuel,
  L <= L' -> top p L fuel <> Err StackOverflow -> top p L' fuel = top p L fuel.
Proof.
  intros p L L' fuel HL H. unfold top in *.
  assert (H1 : run (funs p) L fuel 0 (init_store p) (KEval None (main p)) <> Err StackOverflow)
    by (intro E; rewrite E in H; apply H; reflexivity).
  rewrite (run_mono _ _ _ HL _ _ _ _ H1).
  destruct (run (funs p) L fuel 0 (init_store p) (KEval None (main p))) as [[r st1]| | |]; cbn [obind] in *; try reflexivity.
  destruct (as_val r) as [v| | |]; cbn [obind] in *; try reflexivity.
  assert (H2 : run (funs p) L fuel 0 st1 (KDeep v) <> Err StackOverflow)
    by (intro E; rewrite E in H; apply H; reflexivity).
  rewrite (run_mono _ _ _ HL _ _ _ _ H2).
  destruct (run (funs p) L fuel 0 st1 (KDeep v)) as [[r2 st2]| | |]; cbn [obind] in *; try reflexivity.
  assert (H3 : run (funs p) L fuel 0 st2 (KManifest v) <> Err StackOverflow)
    by (intro E; rewrite E in H; apply H; reflexivity).
  rewrite (run_mono _ _ _ HL _ _ _ _ H3). reflexivity.
Qed.

Theorem top_limit_monotone : forall p L L' fuel x,
  top p L fuel = Ok x -> L <= L' -> top p L' fuel = Ok x.
Proof.
  intros p L L' fuel x E HL. rewrite <- E. apply top_monotone; [exact HL|]. rewrite E. discriminate.
Qed.

(* ---- the depth bound: no frame is ever entered beyond the limit ---- *)

Lemma alloc_all_peak : forall es st env ts st',
  alloc_all st es env = (ts, st') -> peak st' = peak st.
Proof.
  induction es as [|e r IH]; intros st env ts st' E; cbn [alloc_all] in E.
  - injection E as <- <-. reflexivity.
  - unfold alloc in E. destruct (alloc_all _ r env) as [ts2 st2] eqn:E2.
    injection E as <- <-. apply IH in E2. exact E2.
Qed.

Section Peak.
Variable P : list expr.
Variable L : N.

Ltac peak_step IH H :=
  lazymatch type of H with
  | ?F = Ok _ =>
    let h := head_of F in
    lazymatch h with
    | run P L ?f ?d ?st ?k =>
        let E := fresh "E" in
        destruct (run P L f d st k) as [[? ?]| | |] eqn:E; cbn [obind] in H; try discriminate H;
        apply IH in E
    | enter L ?d ?st =>
        let E := fresh "E" in
        destruct (enter_cases L d st) as [[E _]|[E ?]]; rewrite E in H; clear E; cbn [obind] in H; try discriminate H
    | alloc_all ?st ?es ?env =>
        let E := fresh "E" in
        destruct (alloc_all st es env) as [? ?] eqn:E; apply alloc_all_peak in E
    | Ok _ => injection H as <- <-
    | (_, _) => fail 1 "pair head"
    | _ => destruct h; cbn [obind as_val as_bool as_ord as_str] in H; try discriminate H
    end
  end.

Lemma run_peak : forall fuel d st k r st',
  run P L fuel d st k = Ok (r, st') ->
  peak st <= peak st' /\ peak st' <= N.max (peak st) L.
Proof.
  induction fuel as [|fuel IH]; intros d st k r st' H; [discriminate|].
  destruct k as [env e|framed i|a b|xs ys|a b|xs ys|v|ts|v|ts]; cbn [run] in H.
  - destruct e; unfold alloc in H; cbv beta iota in H; repeat (peak_step IH H); cbn [peak set_cell] in *; lia.
  - repeat (peak_step IH H); cbn [peak set_cell] in *; lia.
  - repeat (peak_step IH H); cbn [peak set_cell] in *; lia.
  - repeat (peak_step IH H); cbn [peak set_cell] in *; lia.
  - repeat (peak_step IH H); cbn [peak set_cell] in *; lia.
  - repeat (peak_step IH H); cbn [peak set_cell] in *; lia.
  - repeat (peak_step IH H); cbn [peak set_cell] in *; lia.
  - repeat (peak_step IH H); cbn [peak set_cell] in *; lia.
  - repeat (peak_step IH H); cbn [peak set_cell] in *; lia.
  - repeat (peak_step IH H); cbn [peak set_cell] in *; lia.
Qed.
End Peak.

Theorem depth_never_exceeds : forall P L fuel d st k r st',
  run P L fuel d st k = Ok (r, st') -> peak st' <= N.max (peak st) L.
Proof. intros. eapply run_peak; eauto. Qed.

Theorem top_depth_never_exceeds : forall p L fuel s pk,
  top p L fuel = Ok (s, pk) -> pk <= L.
Proof.
  intros p L fuel s pk H. unfold top in H.
  destruct (run (funs p) L fuel 0 (init_store p) (KEval None (main p))) as [[r st1]| | |] eqn:E1; cbn [obind] in H; try discriminate.
  destruct (as_val r) as [v| | |]; cbn [obind] in H; try discriminate.
  destruct (run (funs p) L fuel 0 st1 (KDeep v)) as [[r2 st2]| | |] eqn:E2; cbn [obind] in H; try discriminate.
  destruct (run (funs p) L fuel 0 st2 (KManifest v)) as [[r3 st3]| | |] eqn:E3; cbn [obind] in H; try discriminate.
  destruct (as_str r3) as [s3| | |]; cbn [obind] in H; try discriminate.
  injection H as <- <-.
  apply run_peak in E1. apply run_peak in E2. apply run_peak in E3.
  cbn [init_store peak] in E1. lia.
Qed.

(* ---- cycles ---- *)

(* forcing a thunk that is being evaluated never yields a value *)
Theorem force_in_progress : forall P L fuel d st framed i,
  nthN (cells st) i = Some CInProgress ->
  run P L (S fuel) d st (KForce framed i) =
    if (framed && (L <? d + 1))%bool then Err StackOverflow else Err InfiniteRecursion.
Proof.
  intros P L fuel d st framed i H. cbn [run]. rewrite H. destruct framed; cbn [andb].
  - unfold enter. destruct (L <? d + 1); reflexivity.
  - reflexivity.
Qed.
