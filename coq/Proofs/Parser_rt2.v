(* Proofs/Parser_rt2.v — round trip: machine transitions for operands and the main induction *)
From RJ Require Import Base.Outcome Model.Token Model.Ast Model.Parser Model.Print Proofs.Parser_rt.
From Coq Require Import Lia.
Local Open Scope list_scope.
Local Open Scope N_scope.

Lemma run_if_false {A} (b : pst -> bool) (m1 m2 : P A) t a t' :
  (forall s, toks_of s = t -> b s = false) -> run m2 t a t' -> run (fun s => if b s then m1 s else m2 s) t a t'.
Proof. intros Hb H s Hs. rewrite (Hb s Hs). exact (H s Hs). Qed.

Lemma run_if_true {A} (b : pst -> bool) (m1 m2 : P A) t a t' :
  (forall s, toks_of s = t -> b s = true) -> run m1 t a t' -> run (fun s => if b s then m1 s else m2 s) t a t'.
Proof. intros Hb H s Hs. rewrite (Hb s Hs). exact (H s Hs). Qed.

(* atoms *)
Definition atom_tok (e : expr) : option token :=
  match e with
  | ENull _ => Some (sim KNull)
  | EBool _ b => Some (sim (if b then KTrue else KFalse))
  | ESelf _ => Some (sim KSelf)
  | EDollar _ => Some (sim SDollar)
  | EString _ s => Some (tk (TString s))
  | ETextBlock _ s => Some (tk (TTextBlock s))
  | ENumber _ n => Some (tk (TNumber n))
  | EIdent _ i => Some (id_tok i)
  | _ => None
  end.

Lemma atom_print e c : atom_tok e = Some c -> print_expr e = [c].
Proof. destruct e; cbn; intros H; try discriminate; injection H as <-; reflexivity. Qed.

Section Machine2.
  Variable pexpr : P expr.
  Variable lf : nat.
  Notation T := spec_prec.
  Notation PL := (pe_loop spec_prec pexpr (S lf)).

  Lemma pl_unary_miss f stk c t (a : expr) t' :
    all_miss (pt_unary T) c = true ->
    run (PL f StPrimary (SiSuffix :: stk)) (c :: t) a t' -> run (PL (S f) StUnary stk) (c :: t) a t'.
  Proof.
    intros Hm H. cbn [pe_loop].
    eapply run_bind; [apply run_eat_first_miss; exact Hm|]. exact H.
  Qed.

  Lemma pl_unary_hit f stk u t (a : expr) t' : t <> [] ->
    run (PL f StUnary (SiUnary u sp0 :: stk)) t a t' -> run (PL (S f) StUnary stk) (sim (unop_tok u) :: t) a t'.
  Proof.
    intros Ht H. cbn [pe_loop].
    destruct u.
    - eapply run_bind; [apply (run_eat_first_hit [(SPlus, UPlus)] SMinus UMinus); [reflexivity|reflexivity|exact Ht]|exact H].
    - eapply run_bind; [apply (run_eat_first_hit [] SPlus UPlus); [reflexivity|reflexivity|exact Ht]|exact H].
    - eapply run_bind; [apply (run_eat_first_hit [(SPlus, UPlus); (SMinus, UMinus)] STilde UBitwiseNot); [reflexivity|reflexivity|exact Ht]|exact H].
    - eapply run_bind; [apply (run_eat_first_hit [(SPlus, UPlus); (SMinus, UMinus); (STilde, UBitwiseNot)] SExclam ULogicNot); [reflexivity|reflexivity|exact Ht]|exact H].
  Qed.

  Lemma pl_parsed_unary f u e stk t (a : expr) t' : expr_span e = sp0 ->
    run (PL f (StParsed (EUnary sp0 u e)) stk) t a t' ->
    run (PL (S f) (StParsed e) (SiUnary u sp0 :: stk)) t a t'.
  Proof.
    intros He H. cbn [pe_loop]. rewrite He.
    eapply run_bind; [apply run_mk_span0|]. exact H.
  Qed.

  Lemma pl_parsed_rhs f k lhs op e stk t (a : expr) t' : expr_span lhs = sp0 -> expr_span e = sp0 ->
    run (PL f (StBinaryRhs k (EBinary sp0 lhs op e)) stk) t a t' ->
    run (PL (S f) (StParsed e) (SiBinaryRhs k lhs op :: stk)) t a t'.
  Proof.
    intros Hl He H. cbn [pe_loop]. rewrite Hl, He.
    eapply run_bind; [apply run_mk_span0|]. exact H.
  Qed.

  Lemma nosfx_inv c : nosfx c = true ->
    is_simple SDot c = false /\ is_simple SLeftBracket c = false /\ is_simple SLeftParen c = false /\
    is_simple SLeftBrace c = false /\ is_simple KTailstrict c = false.
  Proof.
    unfold nosfx. intros H. repeat (apply andb_true_iff in H as [H ?]).
    repeat match goal with H : negb _ = true |- _ => apply negb_true_iff in H end. auto.
  Qed.

  Lemma suffix_none lf' e c t : nosfx c = true -> run (suffix_loop pexpr (S lf) (S lf') e) (c :: t) e (c :: t).
  Proof.
    intros H. destruct (nosfx_inv c H) as (H1 & H2 & H3 & H4 & _). cbn [suffix_loop].
    eapply run_orelse_miss; [apply run_eat_miss; exact H1|].
    eapply run_orelse_miss; [apply run_eat_miss; exact H2|].
    eapply run_orelse_miss; [apply run_eat_miss; exact H3|].
    eapply run_orelse_miss; [apply run_eat_miss; exact H4|].
    apply run_ret.
  Qed.

  Lemma pl_parsed_suffix_none f e stk c t (a : expr) t' : nosfx c = true ->
    run (PL f (StParsed e) stk) (c :: t) a t' -> run (PL (S f) (StParsed e) (SiSuffix :: stk)) (c :: t) a t'.
  Proof.
    intros Hn H. cbn [pe_loop].
    eapply run_bind; [unfold parse_suffix_expr; apply run_call; apply suffix_none; exact Hn|]. exact H.
  Qed.

  Lemma pl_primary_atom f e c stk t (a : expr) t' : atom_tok e = Some c -> t <> [] ->
    run (PL f (StParsed (strip_spans e)) stk) t a t' -> run (PL (S f) StPrimary stk) (c :: t) a t'.
  Proof.
    intros Ha Ht H. cbn [pe_loop]. destruct t as [|t1 r1]; [congruence|].
    eapply run_orelse_hit; [|exact H].
    destruct e; cbn in Ha; try discriminate; injection Ha as <-; try (destruct b); run_compute.
  Qed.

  Lemma pl_primary_paren f stk t (a : expr) t' : t <> [] ->
    run (PL f (init_state T) (SiParen sp0 :: stk)) t a t' -> run (PL (S f) StPrimary stk) (sim SLeftParen :: t) a t'.
  Proof.
    intros Ht H. cbn [pe_loop].
    do 12 (eapply run_orelse_miss; [run_compute|]).
    eapply run_orelse_hit; [apply run_eat_hit; [reflexivity|exact Ht]|]. exact H.
  Qed.

  Lemma pl_parsed_paren f e stk t (a : expr) t' : t <> [] ->
    run (PL f (StParsed (EParen sp0 e)) stk) t a t' ->
    run (PL (S f) (StParsed e) (SiParen sp0 :: stk)) (sim SRightParen :: t) a t'.
  Proof.
    intros Ht H. cbn [pe_loop].
    eapply run_bind; [apply run_expect_hit; [reflexivity|exact Ht]|].
    eapply run_bind; [apply run_mk_span0|]. exact H.
  Qed.

  (* open-ended primaries: the keyword is recognised after the earlier alternatives miss *)
  Lemma pl_primary_import f stk t (a : expr) t' : t <> [] ->
    run (x <- prefix_form pexpr sp0 EImport ;; PL f (StParsed x) stk) t a t' ->
    run (PL (S f) StPrimary stk) (sim KImport :: t) a t'.
  Proof.
    intros Ht H. cbn [pe_loop]. do 8 (eapply run_orelse_miss; [run_compute|]).
    eapply run_orelse_hit; [apply run_eat_hit; [reflexivity|exact Ht]|]. exact H.
  Qed.
  Lemma pl_primary_importstr f stk t (a : expr) t' : t <> [] ->
    run (x <- prefix_form pexpr sp0 EImportStr ;; PL f (StParsed x) stk) t a t' ->
    run (PL (S f) StPrimary stk) (sim KImportstr :: t) a t'.
  Proof.
    intros Ht H. cbn [pe_loop]. do 9 (eapply run_orelse_miss; [run_compute|]).
    eapply run_orelse_hit; [apply run_eat_hit; [reflexivity|exact Ht]|]. exact H.
  Qed.
  Lemma pl_primary_importbin f stk t (a : expr) t' : t <> [] ->
    run (x <- prefix_form pexpr sp0 EImportBin ;; PL f (StParsed x) stk) t a t' ->
    run (PL (S f) StPrimary stk) (sim KImportbin :: t) a t'.
  Proof.
    intros Ht H. cbn [pe_loop]. do 10 (eapply run_orelse_miss; [run_compute|]).
    eapply run_orelse_hit; [apply run_eat_hit; [reflexivity|exact Ht]|]. exact H.
  Qed.
  Lemma pl_primary_error f stk t (a : expr) t' : t <> [] ->
    run (x <- prefix_form pexpr sp0 EError ;; PL f (StParsed x) stk) t a t' ->
    run (PL (S f) StPrimary stk) (sim KError :: t) a t'.
  Proof.
    intros Ht H. cbn [pe_loop]. do 11 (eapply run_orelse_miss; [run_compute|]).
    eapply run_orelse_hit; [apply run_eat_hit; [reflexivity|exact Ht]|]. exact H.
  Qed.

  Lemma pl_primary_if f stk t (a : expr) t' : t <> [] ->
    run (cond <- pexpr ;;
         _ <- expect_simple KThen true ;;
         th <- pexpr ;;
         c <- eat_simple KElse true ;;
         el <- opt_expr pexpr c ;;
         sp <- mk_span sp0 (match el with Some x => expr_span x | None => expr_span th end) ;;
         PL f (StParsed (EIf sp cond th el)) stk) t a t' ->
    run (PL (S f) StPrimary stk) (sim KIf :: t) a t'.
  Proof.
    intros Ht H. cbn [pe_loop]. do 5 (eapply run_orelse_miss; [run_compute|]).
    eapply run_orelse_hit; [apply run_eat_hit; [reflexivity|exact Ht]|]. exact H.
  Qed.

  Lemma pl_primary_super f stk t (a : expr) t' : t <> [] ->
    run (IFLET _ <== eat_simple SDot true
         THEN (fn <- expect_ident true ;; sp <- mk_span sp0 (id_span fn) ;; PL f (StParsed (ESuperField sp sp0 fn)) stk)
         ELSE IFLET _ <== eat_simple SLeftBracket true
              THEN (ie <- pexpr ;; en <- expect_simple SRightBracket true ;; sp <- mk_span sp0 en ;;
                    PL f (StParsed (ESuperIndex sp sp0 ie)) stk)
              ELSE report_expected) t a t' ->
    run (PL (S f) StPrimary stk) (sim KSuper :: t) a t'.
  Proof.
    intros Ht H. cbn [pe_loop]. do 3 (eapply run_orelse_miss; [run_compute|]).
    eapply run_orelse_hit; [apply run_eat_hit; [reflexivity|exact Ht]|]. exact H.
  Qed.

  Lemma pl_primary_function f stk t (a : expr) t' : t <> [] ->
    run (_ <- expect_simple SLeftParen true ;;
         '(params, _) <- parse_params pexpr (S lf) ;;
         body <- pexpr ;;
         sp <- mk_span sp0 (expr_span body) ;;
         PL f (StParsed (EFunc sp params body)) stk) t a t' ->
    run (PL (S f) StPrimary stk) (sim KFunction :: t) a t'.
  Proof.
    intros Ht H. cbn [pe_loop]. do 6 (eapply run_orelse_miss; [run_compute|]).
    eapply run_orelse_hit; [apply run_eat_hit; [reflexivity|exact Ht]|]. exact H.
  Qed.

  Lemma pl_primary_local f stk t (a : expr) t' : t <> [] ->
    run (b0 <- parse_bind pexpr (S lf) ;;
         binds <- binds_loop pexpr (S lf) (S lf) [b0] ;;
         _ <- expect_simple SSemicolon true ;;
         inner <- pexpr ;;
         sp <- mk_span sp0 (expr_span inner) ;;
         PL f (StParsed (ELocal sp binds inner)) stk) t a t' ->
    run (PL (S f) StPrimary stk) (sim KLocal :: t) a t'.
  Proof.
    intros Ht H. cbn [pe_loop]. do 4 (eapply run_orelse_miss; [run_compute|]).
    eapply run_orelse_hit; [apply run_eat_hit; [reflexivity|exact Ht]|]. exact H.
  Qed.

  Lemma pl_primary_assert f stk t A t1 (a : expr) t' : t <> [] ->
    run (cond <- pexpr ;;
         c <- eat_simple SColon true ;;
         msg <- opt_expr pexpr c ;;
         sp <- mk_span sp0 (match msg with Some m => expr_span m | None => expr_span cond end) ;;
         ret (Some (sp0, MkAssert sp cond msg))) t (Some (sp0, A)) t1 ->
    run (_ <- expect_simple SSemicolon true ;;
         inner <- pexpr ;;
         sp <- mk_span sp0 (expr_span inner) ;;
         PL f (StParsed (EAssert sp A inner)) stk) t1 a t' ->
    run (PL (S f) StPrimary stk) (sim KAssert :: t) a t'.
  Proof.
    intros Ht H1 H2. cbn [pe_loop]. do 7 (eapply run_orelse_miss; [run_compute|]).
    eapply run_orelse_hit.
    - unfold maybe_parse_assert. apply run_call.
      eapply run_orelse_hit; [apply run_eat_hit; [reflexivity|exact Ht]|exact H1].
    - exact H2.
  Qed.

  (* from the unary level back to level k *)
  Definition steps_fin (k : nat) : nat := match (10 - k)%nat with O => O | S d => S (2 * d) end.

  Lemma finish k f e stk c t (a : expr) t' : (k <= 10)%nat -> noop_above k c = true ->
    run (PL f (exit_ k e) stk) (c :: t) a t' ->
    run (PL (steps_fin k + f) (StParsed e) (lhs_up k (10 - k) ++ stk)) (c :: t) a t'.
  Proof.
    intros Hk Hn H. unfold steps_fin. destruct (10 - k)%nat as [|d] eqn:Hd.
    - assert (k = 10)%nat by lia. subst k. exact H.
    - cbn [lhs_up app Nat.add]. apply pl_parsed_lhs.
      replace (k + d)%nat with 9%nat by lia.
      replace 9%nat with (k + d)%nat at 1 by lia.
      apply ascend; [lia|exact Hn|].
      unfold exit_ in H. replace (k <? 10)%nat with true in H by (symmetry; apply Nat.ltb_lt; lia). exact H.
  Qed.
End Machine2.
