(* Proofs/RefSem_params.v — C02: parameter binding lemmas over [bind_args] (check_call_args_generic). *)
From RJ Require Import Base.Outcome Base.F64 Model.Token Model.Ast Model.RefCore Model.RefValue.
From Coq Require Import Lia.
Local Open Scope N_scope.

Lemma str_eqb_refl x : str_eqb x x = true.
Proof. apply str_eqb_eq. reflexivity. Qed.

Lemma assoc_app {A} x (l1 l2 : list (str * A)) :
  assoc x (l1 ++ l2) = match assoc x l1 with Some a => Some a | None => assoc x l2 end.
Proof.
  induction l1 as [|[y a] r IH]; simpl; [reflexivity|].
  destruct (str_eqb x y); [reflexivity | apply IH].
Qed.

Lemma assoc_some_in {A} x (l : list (str * A)) a : assoc x l = Some a -> In x (map fst l).
Proof.
  induction l as [|[y b] r IH]; simpl; [discriminate|].
  destruct (str_eqb x y) eqn:E; intros H.
  - left. apply str_eqb_eq in E. auto.
  - right. auto.
Qed.

Lemma assoc_none_notin {A} x (l : list (str * A)) : ~ In x (map fst l) -> assoc x l = None.
Proof.
  intros H. destruct (assoc x l) eqn:E; [|reflexivity]. exfalso. apply H. eapply assoc_some_in. eassumption.
Qed.

Lemma in_assoc_some {A} x (l : list (str * A)) : In x (map fst l) -> assoc x l <> None.
Proof.
  induction l as [|[y b] r IH]; simpl; [tauto|].
  intros [H | H].
  - subst y. rewrite str_eqb_refl. discriminate.
  - destruct (str_eqb x y); [discriminate | auto].
Qed.

Lemma bind_positional_names : forall ps pos b rest,
  bind_positional ps pos = Some (b, rest) -> map fst ps = map fst b ++ map fst rest.
Proof.
  intros ps pos. revert ps. induction pos as [|t pr IH]; intros ps b rest H.
  - destruct ps; simpl in H; injection H as <- <-; reflexivity.
  - destruct ps as [|[x d] psr]; simpl in H; [discriminate|].
    destruct (bind_positional psr pr) as [[b' rest']|] eqn:E; [|discriminate].
    injection H as <- <-. simpl. f_equal. apply IH. exact E.
Qed.

Lemma fill_rest_covers : forall rest named b ds,
  fill_rest rest named = Ok (b, ds) ->
  forall x, In x (map fst rest) -> assoc x b <> None \/ assoc x ds <> None.
Proof.
  induction rest as [|[x0 d] r IH]; intros named b ds H x Hin; simpl in *; [tauto|].
  destruct (fill_rest r named) as [[b' ds'] | e | s |] eqn:E; try discriminate.
  specialize (IH named b' ds' E).
  destruct (assoc x0 named) as [t|] eqn:En.
  - injection H as <- <-. simpl. destruct (str_eqb x x0) eqn:Ex.
    + left. discriminate.
    + destruct Hin as [Hin | Hin]; [subst x0; rewrite str_eqb_refl in Ex; discriminate|]. apply IH. exact Hin.
  - destruct d as [de|]; [|discriminate]. injection H as <- <-. simpl. destruct (str_eqb x x0) eqn:Ex.
    + right. discriminate.
    + destruct Hin as [Hin | Hin]; [subst x0; rewrite str_eqb_refl in Ex; discriminate|]. apply IH. exact Hin.
Qed.

(* every parameter is visible in the frame in which the default arguments (and the body) are
   evaluated, and a default is closed over that very frame: defaults see all parameters *)
Theorem defaults_see_all_params : forall ps pos named b ds fenv,
  bind_args ps pos named = Ok (b, ds) ->
  (forall x, In x (map fst ps) -> lookup_var x (FVars b ds :: fenv) <> None) /\
  (forall x de, assoc x b = None -> assoc x ds = Some de ->
                lookup_var x (FVars b ds :: fenv) = Some (Th de (FVars b ds :: fenv))).
Proof.
  intros ps pos named b ds fenv H. unfold bind_args in H.
  destruct (bind_positional ps pos) as [[bpos rest]|] eqn:Ep; [|discriminate].
  destruct (check_named rest bpos named []) as [e|]; [discriminate|].
  destruct (fill_rest rest named) as [[b' ds'] | e | s |] eqn:Ef; try discriminate.
  injection H as <- <-. split.
  - intros x Hin. rewrite (bind_positional_names _ _ _ _ Ep) in Hin. apply in_app_or in Hin.
    simpl. rewrite assoc_app. destruct Hin as [Hin | Hin].
    + pose proof (in_assoc_some x bpos Hin) as Hs. destruct (assoc x bpos); [discriminate | congruence].
    + destruct (assoc x bpos); [discriminate|].
      destruct (fill_rest_covers _ _ _ _ Ef x Hin) as [Hs | Hs].
      * destruct (assoc x b'); [discriminate | congruence].
      * destruct (assoc x b'); [discriminate|]. destruct (assoc x ds'); [discriminate | congruence].
  - intros x de Hb Hd. simpl. rewrite Hb, Hd. reflexivity.
Qed.

Lemma check_named_hits : forall rest bpos named seen x t',
  assoc x rest = None -> In (x, t') named -> exists e, check_named rest bpos named seen = Some e.
Proof.
  intros rest bpos named. induction named as [|[y ty] r IH]; intros seen x t' Hx Hin; simpl in *; [tauto|].
  destruct (assoc y rest) eqn:Ey.
  - destruct (mem_str y seen); [eauto|].
    destruct Hin as [Hin | Hin]; [injection Hin as -> _; congruence|]. eapply IH; eassumption.
  - destruct (assoc y bpos); eauto.
Qed.

(* an argument passed both positionally and by name is rejected (RepeatedCallParam), never
   silently resolved: positional and named bindings are disjoint *)
Theorem named_positional_disjoint : forall ps pos named bpos rest x t t',
  NoDup (map fst ps) ->
  bind_positional ps pos = Some (bpos, rest) ->
  assoc x bpos = Some t -> In (x, t') named ->
  exists e, bind_args ps pos named = Err e.
Proof.
  intros ps pos named bpos rest x t t' Hnd Hp Hb Hin. unfold bind_args. rewrite Hp.
  assert (Hrest : assoc x rest = None).
  { apply assoc_none_notin. rewrite (bind_positional_names _ _ _ _ Hp) in Hnd.
    intros Hr. apply assoc_some_in in Hb.
    revert Hnd Hb Hr. generalize (map fst bpos) (map fst rest). intros l1 l2 Hnd H1 H2.
    induction l1 as [|a l1 IH]; simpl in *; [tauto|].
    inversion Hnd as [|? ? Hna Hnd']; subst. destruct H1 as [-> | H1].
    - apply Hna. apply in_or_app. right. exact H2.
    - apply IH; assumption. }
  destruct (check_named_hits rest bpos named [] x t' Hrest Hin) as [e He]. rewrite He. eauto.
Qed.
