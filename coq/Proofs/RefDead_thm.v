(* Proofs/RefDead_thm.v — C02/C04: a dead local binding is irrelevant (value, error AND trace),
   modulo the simulation of the builtins (premise [builtin_sim_at]). *)
From RJ Require Import Base.Outcome Base.F64 Model.Token Model.Ast Model.RefCore Model.RefValue Model.RefEval.
From RJ Require Import Model.Analyze.
From RJ Require Import Proofs.RefSem_params Proofs.RefScope_defs Proofs.RefScope_proofs Proofs.RefScope_main Proofs.RefScope_static.
From RJ Require Import Proofs.RefDead_defs Proofs.RefDead_proofs Proofs.RefDead_main.
From Coq Require Import Lia.
Local Open Scope N_scope.

Lemma std_layer_rel x e1 e2 : lrel x e1 e2 std_layer std_layer.
Proof.
  pose proof std_layer_wf as Hwf. unfold std_layer in *. inversion Hwf as [locals asserts fields en std Ha Hf]; subst.
  econstructor; [apply ER_nil | constructor |]. apply Forall2_refl. intros nf Hin.
  rewrite Forall_forall in Hf. specialize (Hf nf Hin).
  assert (Hshape : exists n body, nf = (n, MkField VisHidden false body None)).
  { apply in_app_or in Hin. destruct Hin as [Hin | Hin]; apply in_map_iff in Hin; destruct Hin as (r & <- & _); eauto. }
  destruct Hshape as (n & body & ->). simpl in Hf. constructor. inversion Hf; subst. split; [constructor | assumption].
Qed.

Lemma init_env_rel x e1 e2 : erel x e1 e2 init_env init_env [s_std] false.
Proof.
  unfold init_env. change [s_std] with (map fst [(s_std, Tv std_value)] ++ map fst (@nil (str * cexpr)) ++ []).
  constructor; [|constructor|constructor]. constructor; [|constructor]. split; [reflexivity|]. simpl.
  constructor. constructor. constructor; [apply std_layer_rel | constructor].
Qed.

Lemma rrel_bind {A B} (Q : A -> A -> Prop) (R : B -> B -> Prop) (m m' : M A) (k k' : A -> M B) c r r' :
  rrel Q (m c r) (m' c r') -> (forall a a', Q a a' -> rrel R (k a c r) (k' a' c r')) -> rrel R (bind m k c r) (bind m' k' c r').
Proof.
  intros Hm Hk. unfold rrel, bind in *.
  destruct (m c r) as [t o]. destruct (m' c r') as [t' o']. simpl in Hm. destruct Hm as [-> Ho].
  destruct o as [a | e | s |]; destruct o' as [a' | e' | s' |]; simpl in Ho; try contradiction.
  - specialize (Hk a a' Ho). destruct (k a c r) as [t2 o2]. destruct (k' a' c r') as [t2' o2'].
    simpl in *. destruct Hk as [-> Ho2]. split; [reflexivity | exact Ho2].
  - subst. split; reflexivity.
  - subst. split; reflexivity.
  - split; reflexivity.
Qed.

Lemma rrel_eq {A} (r r' : RefEval.res A) : rrel eq r r' -> r = r'.
Proof.
  destruct r as [t o], r' as [t' o']. unfold rrel. simpl. intros [-> Ho]. f_equal.
  destruct o, o'; simpl in Ho; try contradiction; congruence.
Qed.

Definition dframe (x : str) (e : cexpr) : list frame := [FVars [] [(x, e)]].

Lemma dead_pair_local x e1 e2 : dead_pair x (dframe x e1) (dframe x e2).
Proof. split; apply dead_ok_local. Qed.

(* the two programs differ only in the value of a binding the body cannot mention *)
Theorem dead_local_core : forall x e1 e2 body,
  builtin_sim_at x (dframe x e1) (dframe x e2) ->
  closed (rm x [s_std]) false body ->
  forall fuel c, run_core fuel c (CLocal [(x, e1)] body) = run_core fuel c (CLocal [(x, e2)] body).
Proof.
  intros x e1 e2 body Hbs Hc fuel c. apply rrel_eq. unfold run_core, run_top.
  set (d1 := dframe x e1). set (d2 := dframe x e2).
  pose proof (dead_pair_local x e1 e2) as Hdp. fold d1 d2 in Hdp, Hbs.
  pose proof (run_task_rel x d1 d2 Hdp Hbs fuel c) as Hrec.
  eapply rrel_bind with (Q := vrel x d1 d2).
  - unfold eval. eapply rrel_bind with (Q := ans_rel x d1 d2).
    + unfold call. destruct fuel as [|n]; [split; reflexivity|].
      change (run_task (S n) c (TEval init_env (CLocal [(x, e1)] body)) 0)
        with ((let* v := eval (d1 ++ init_env) body 0 in ret (AVal v)) c (run_task n c)).
      change (run_task (S n) c (TEval init_env (CLocal [(x, e2)] body)) 0)
        with ((let* v := eval (d2 ++ init_env) body 0 in ret (AVal v)) c (run_task n c)).
      apply (rel2_bind x d1 d2 (vrel x d1 d2) (ans_rel x d1 d2)); [|intros v v' Hv; apply rel2_ret; exact Hv | apply run_task_rel; assumption].
      eapply rel2_eval; [apply ER_dead; apply init_env_rel | exact Hc].
    + intros a a' Ha. apply rel2_as_val; assumption.
  - intros v v' Hv.
    apply (rel2_bind x d1 d2 eq eq (manifest false v 0) (manifest false v' 0)); [apply rel2_manifest; exact Hv | | exact Hrec].
    intros j j' ->. destruct (has_func j'); [apply rel2_kind | apply rel2_ret; reflexivity].
Qed.

(* source level: `local x = e1; body` and `local x = e2; body` run identically whenever body is
   statically fine WITHOUT x in scope (so x is not free in it) — e2 := error "..." included *)
Theorem dead_local_irrelevant : forall sp xid e1 e2 body,
  id_value xid <> s_std ->
  builtin_sim_at (id_value xid) (dframe (id_value xid) (ds_expr false false e1)) (dframe (id_value xid) (ds_expr false false e2)) ->
  StaticOK [s_std] false body ->
  forall fuel c, run fuel c (ELocal sp [MkBind xid None e1] body) = run fuel c (ELocal sp [MkBind xid None e2] body).
Proof.
  intros sp xid e1 e2 body Hne Hbs Hok fuel c. unfold run, desugar. cbn [ds_expr map ds_bind].
  apply dead_local_core; [exact Hbs|].
  replace (rm (id_value xid) [s_std]) with [s_std].
  - apply static_ok_closed. exact Hok.
  - unfold rm. cbn [filter]. destruct (str_eqb s_std (id_value xid)) eqn:E; [apply str_eqb_eq in E; congruence | reflexivity].
Qed.
