(* Proofs/Gc_proofs.v — the collector of Model/Gc.v keeps exactly the boxes
   reachable from the roots (boxes with a view or an external handle).

   Structure:
     §1 vector lemmas (swap, swap_remove, firstn)
     §2 heap vocabulary: skeleton, set_marks, in_count, closed, reachable
     §3 trace_mark / drain / mark_obj
     §4 count pass    (invariant Inv1; the subtle point is [V]: an unmarked box
                       has had every handle held by a processed box counted)
     §5 mark pass     (Inv2: for an unmarked box visits = in_count, hence
                       weak_count > visits  <->  an external handle exists)
     §6 sweep
     §7 gc_spec and its corollaries *)
From RJ Require Import Base.Outcome Model.Gc.
From Coq Require Import Lia Permutation.
Local Open Scope outcome_scope.

(* ------------------------------------------------------------------ §1 *)
Section Vec.
Context {A : Type}.

Lemma set_nth_length (i : nat) (x : A) l : length (set_nth i x l) = length l.
Proof. revert i; induction l as [|y t IH]; intros [|i]; simpl; auto. Qed.

Lemma set_nth_perm (l : list A) : forall j x y, nth_error l j = Some y ->
  Permutation (y :: set_nth j x l) (x :: l).
Proof.
  induction l as [|z t IH]; intros [|j] x y H; simpl in *; try discriminate.
  - inversion H; subst. apply perm_swap.
  - specialize (IH j x y H).
    eapply perm_trans; [apply perm_swap|].
    eapply perm_trans; [apply perm_skip, IH|]. apply perm_swap.
Qed.

Lemma swap_perm_aux (l : list A) : forall i j x y,
  nth_error l i = Some x -> nth_error l j = Some y ->
  Permutation (set_nth i y (set_nth j x l)) l.
Proof.
  induction l as [|z t IH]; intros [|i] [|j] x y Hi Hj; simpl in *; try discriminate.
  - inversion Hi; inversion Hj; subst. reflexivity.
  - inversion Hi; subst. apply set_nth_perm; assumption.
  - inversion Hj; subst. apply set_nth_perm; assumption.
  - apply perm_skip. eapply IH; eassumption.
Qed.

Lemma swap_perm (l : list A) i j : Permutation (swap l i j) l.
Proof.
  unfold swap. destruct (nth_error l i) as [x|] eqn:Hi; [|reflexivity].
  destruct (nth_error l j) as [y|] eqn:Hj; [|reflexivity].
  eapply swap_perm_aux; eassumption.
Qed.

Lemma nth_error_firstn_lt (l : list A) : forall n i, i < n ->
  nth_error (firstn n l) i = nth_error l i.
Proof.
  induction l as [|z t IH]; intros [|n] [|i] H; simpl; auto; try lia.
  apply IH; lia.
Qed.

Lemma firstn_set_nth (l : list A) : forall n i x, i < n ->
  firstn n (set_nth i x l) = set_nth i x (firstn n l).
Proof.
  induction l as [|z t IH]; intros [|n] [|i] x H; simpl; auto; try lia.
  f_equal. apply IH; lia.
Qed.

Lemma swap_firstn (l : list A) i j : j < i ->
  Permutation (firstn (S i) (swap l i j)) (firstn (S i) l).
Proof.
  intros Hji. unfold swap.
  destruct (nth_error l i) as [x|] eqn:Hi; [|reflexivity].
  destruct (nth_error l j) as [y|] eqn:Hj; [|reflexivity].
  rewrite firstn_set_nth by lia. rewrite firstn_set_nth by lia.
  apply swap_perm_aux; rewrite nth_error_firstn_lt by lia; assumption.
Qed.

Lemma swap_length (l : list A) i j : length (swap l i j) = length l.
Proof.
  unfold swap. destruct (nth_error l i); [|reflexivity].
  destruct (nth_error l j); [|reflexivity].
  now rewrite !set_nth_length.
Qed.

Lemma rot_last_perm (t : list A) : Permutation (rot_last t) t.
Proof.
  destruct t as [|x r]; [reflexivity|].
  unfold rot_last.
  assert (H : x :: r <> []) by discriminate.
  rewrite (app_removelast_last x H) at 3.
  apply Permutation_cons_append.
Qed.

Lemma nth_error_split_firstn (l : list A) : forall i b, nth_error l i = Some b ->
  l = firstn i l ++ b :: skipn (S i) l.
Proof.
  induction l as [|z t IH]; intros [|i] b H; simpl in *; try discriminate.
  - inversion H; reflexivity.
  - f_equal. apply IH; assumption.
Qed.

Lemma swap_remove_perm (l : list A) i b : nth_error l i = Some b ->
  Permutation (b :: swap_remove l i) l.
Proof.
  intros H. unfold swap_remove.
  rewrite (nth_error_split_firstn l i b H) at 3.
  eapply perm_trans; [apply Permutation_middle|].
  apply Permutation_app_head. apply perm_skip. apply rot_last_perm.
Qed.

Lemma firstn_skipn_prefix (l : list A) : forall i X, i <= length l ->
  firstn i (firstn i l ++ X) = firstn i l /\ skipn i (firstn i l ++ X) = X.
Proof.
  induction l as [|z t IH]; intros [|i] X H; simpl in *; auto; try lia.
  destruct (IH i X) as [E1 E2]; [lia|]. rewrite E1, E2. auto.
Qed.

Lemma swap_remove_firstn (l : list A) i : i <= length l ->
  firstn i (swap_remove l i) = firstn i l.
Proof. intros H. unfold swap_remove. now apply firstn_skipn_prefix. Qed.

Lemma swap_remove_skipn (l : list A) i : i <= length l ->
  skipn i (swap_remove l i) = rot_last (skipn (S i) l).
Proof. intros H. unfold swap_remove. now apply firstn_skipn_prefix. Qed.

Lemma firstn_S_nth (l : list A) : forall i b, nth_error l i = Some b ->
  firstn (S i) l = firstn i l ++ [b].
Proof.
  induction l as [|z t IH]; intros [|i] b H; simpl in *; try discriminate.
  - inversion H; reflexivity.
  - f_equal. apply IH; assumption.
Qed.

Lemma skipn_nth (l : list A) : forall i b, nth_error l i = Some b ->
  skipn i l = b :: skipn (S i) l.
Proof.
  induction l as [|z t IH]; intros [|i] b H; simpl in *; try discriminate.
  - inversion H; reflexivity.
  - apply IH; assumption.
Qed.

Lemma nth_error_len (l : list A) i : nth_error l i = None -> length l <= i.
Proof. apply nth_error_None. Qed.

Lemma nth_error_lt (l : list A) i b : nth_error l i = Some b -> i < length l.
Proof. intros H. apply nth_error_Some. congruence. Qed.

End Vec.

(* ------------------------------------------------------------------ §2 *)
Definition is_root (b : box) : bool := has_view b || Nat.ltb 0 (ext_weak b).
Definition roots (h : heap) : list N := ids (filter is_root h).

(* reachability through in-heap handles of boxes that are in the heap; a
   dangling handle (target not in the heap) leads nowhere *)
Inductive reachable (h : heap) (rs : list N) : N -> Prop :=
| reach_root : forall i, In i rs -> In i (ids h) -> reachable h rs i
| reach_step : forall b j, reachable h rs (bid b) -> In b h -> In j (edges b) -> In j (ids h) ->
    reachable h rs j.

(* between collections: identities distinct, both cells reset *)
Definition wf (h : heap) : Prop :=
  NoDup (ids h) /\ forall b, In b h -> visits b = 0 /\ mark b = false.

Definition skel (b : box) := (bid b, edges b, ext_weak b, has_view b).

Lemma skel_inv a b : skel a = skel b ->
  bid a = bid b /\ edges a = edges b /\ ext_weak a = ext_weak b /\ has_view a = has_view b.
Proof. unfold skel; intros H; inversion H; auto. Qed.

Lemma in_ids h i : In i (ids h) <-> exists b, In b h /\ bid b = i.
Proof.
  unfold ids. rewrite in_map_iff. split; intros [b [H1 H2]]; exists b; auto.
Qed.

Lemma NoDup_ids_inj h : NoDup (ids h) -> forall a b, In a h -> In b h -> bid a = bid b -> a = b.
Proof.
  induction h as [|c t IH]; intros ND a b Ha Hb E; [destruct Ha|].
  simpl in ND. inversion ND as [|? ? Hnot ND']; subst.
  destruct Ha as [->|Ha], Hb as [->|Hb]; auto.
  - exfalso. apply Hnot. apply in_ids. exists b; auto.
  - exfalso. apply Hnot. apply in_ids. exists a; auto.
Qed.

Lemma find_box_some i h b : find_box i h = Some b -> In b h /\ bid b = i.
Proof.
  induction h as [|c t IH]; simpl; [discriminate|].
  destruct (N.eqb (bid c) i) eqn:E.
  - intros H; inversion H; subst. apply N.eqb_eq in E. auto.
  - intros H. destruct (IH H). auto.
Qed.

Lemma find_box_none i h : find_box i h = None -> ~ In i (ids h).
Proof.
  induction h as [|c t IH]; simpl; [auto|].
  destruct (N.eqb (bid c) i) eqn:E; [discriminate|].
  intros H [H1|H1].
  - apply N.eqb_neq in E. auto.
  - apply (IH H H1).
Qed.

Lemma find_box_in h b : NoDup (ids h) -> In b h -> find_box (bid b) h = Some b.
Proof.
  intros ND Hb. destruct (find_box (bid b) h) as [c|] eqn:E.
  - destruct (find_box_some _ _ _ E) as [Hc Ec]. f_equal. eapply NoDup_ids_inj; eauto.
  - exfalso. apply (find_box_none _ _ E). apply in_ids. exists b; auto.
Qed.

(* marking a set of identities *)
Definition memN (x : N) (S : list N) : bool := existsb (N.eqb x) S.
Definition smb (S : list N) (b : box) : box := if memN (bid b) S then set_mark_b b else b.
Definition set_marks (S : list N) (h : heap) : heap := map (smb S) h.

Lemma memN_in x S : memN x S = true <-> In x S.
Proof.
  unfold memN. rewrite existsb_exists. split.
  - intros [y [H1 H2]]. apply N.eqb_eq in H2. subst; auto.
  - intros H. exists x. split; auto. apply N.eqb_refl.
Qed.

Lemma memN_app x S1 S2 : memN x (S1 ++ S2) = memN x S1 || memN x S2.
Proof. unfold memN. apply existsb_app. Qed.

Lemma smb_bid S b : bid (smb S b) = bid b.
Proof. unfold smb. destruct (memN (bid b) S); reflexivity. Qed.
Lemma smb_edges S b : edges (smb S b) = edges b.
Proof. unfold smb. destruct (memN (bid b) S); reflexivity. Qed.
Lemma smb_ext S b : ext_weak (smb S b) = ext_weak b.
Proof. unfold smb. destruct (memN (bid b) S); reflexivity. Qed.
Lemma smb_view S b : has_view (smb S b) = has_view b.
Proof. unfold smb. destruct (memN (bid b) S); reflexivity. Qed.
Lemma smb_visits S b : visits (smb S b) = visits b.
Proof. unfold smb. destruct (memN (bid b) S); reflexivity. Qed.
Lemma smb_mark S b : mark (smb S b) = mark b || memN (bid b) S.
Proof.
  unfold smb. destruct (memN (bid b) S); simpl.
  - now rewrite orb_true_r.
  - now rewrite orb_false_r.
Qed.
Lemma smb_skel S b : skel (smb S b) = skel b.
Proof. unfold skel. now rewrite smb_bid, smb_edges, smb_ext, smb_view. Qed.

Lemma set_mark_is i h : set_mark i h = set_marks [i] h.
Proof.
  unfold set_mark, upd, set_marks. apply map_ext. intros b.
  unfold smb, memN. simpl. now rewrite orb_false_r.
Qed.

Lemma smb_app S1 S2 b : smb S2 (smb S1 b) = smb (S1 ++ S2) b.
Proof.
  unfold smb at 1. rewrite smb_bid. unfold smb. rewrite memN_app.
  destruct (memN (bid b) S1), (memN (bid b) S2); reflexivity.
Qed.

Lemma set_marks_app S1 S2 h : set_marks S2 (set_marks S1 h) = set_marks (S1 ++ S2) h.
Proof. unfold set_marks. rewrite map_map. apply map_ext. intros; apply smb_app. Qed.

Lemma set_marks_nil h : set_marks [] h = h.
Proof. unfold set_marks. rewrite <- (map_id h) at 2. apply map_ext. reflexivity. Qed.

Lemma ids_set_marks S h : ids (set_marks S h) = ids h.
Proof. unfold ids, set_marks. rewrite map_map. apply map_ext. intros; apply smb_bid. Qed.

Lemma in_set_marks S h b' : In b' (set_marks S h) <-> exists b, In b h /\ b' = smb S b.
Proof.
  unfold set_marks. rewrite in_map_iff. split; intros [b [H1 H2]]; exists b; auto.
Qed.

Lemma length_set_marks S h : length (set_marks S h) = length h.
Proof. apply map_length. Qed.

(* in_count *)
Lemma in_count_app h1 h2 i : in_count (h1 ++ h2) i = in_count h1 i + in_count h2 i.
Proof.
  unfold in_count. rewrite map_app. induction (map (fun b => count_id i (edges b)) h1); simpl; lia.
Qed.

Lemma in_count_cons b h i : in_count (b :: h) i = count_id i (edges b) + in_count h i.
Proof. reflexivity. Qed.

Lemma in_count_perm h h' i : Permutation h h' -> in_count h i = in_count h' i.
Proof.
  induction 1; rewrite ?in_count_cons in *; try lia.
Qed.

Lemma in_count_map f h i : (forall b, edges (f b) = edges b) -> in_count (map f h) i = in_count h i.
Proof.
  intros Hf. unfold in_count. rewrite map_map. f_equal. apply map_ext. intros b. now rewrite Hf.
Qed.

Lemma in_count_set_marks S h i : in_count (set_marks S h) i = in_count h i.
Proof. apply in_count_map. intros; apply smb_edges. Qed.

Lemma count_id_pos i l : In i l -> 0 < count_id i l.
Proof.
  unfold count_id. induction l as [|x t IH]; intros H; [destruct H|]. simpl.
  destruct H as [->|H].
  - rewrite N.eqb_refl. simpl. lia.
  - destruct (N.eqb i x); simpl; auto with arith.
Qed.

Lemma count_id_zero i l : ~ In i l -> count_id i l = 0.
Proof.
  unfold count_id. induction l as [|x t IH]; intros H; [reflexivity|]. simpl.
  destruct (N.eqb i x) eqn:E.
  - apply N.eqb_eq in E. subst. exfalso. apply H. left; auto.
  - apply IH. intros H1. apply H. right; auto.
Qed.

Lemma in_count_pos h c i : In c h -> In i (edges c) -> 0 < in_count h i.
Proof.
  induction h as [|d t IH]; intros Hc Hi; [destruct Hc|]. rewrite in_count_cons.
  destruct Hc as [->|Hc].
  - pose proof (count_id_pos _ _ Hi). lia.
  - specialize (IH Hc Hi). lia.
Qed.

(* the marked set is closed under in-heap handles *)
Definition closed (h : heap) : Prop :=
  forall c e d, In c h -> mark c = true -> In e (edges c) -> In d h -> bid d = e -> mark d = true.

Lemma closed_count_zero h c d : closed h -> In c h -> mark c = true -> In d h -> mark d = false ->
  count_id (bid d) (edges c) = 0.
Proof.
  intros Hcl Hc Mc Hd Md. apply count_id_zero. intros Hin.
  rewrite (Hcl c (bid d) d Hc Mc Hin Hd eq_refl) in Md. discriminate.
Qed.

Definition unmarked (h : heap) : nat := length (filter (fun b => negb (mark b)) h).

Lemma unmarked_le h : unmarked h <= length h.
Proof. unfold unmarked. induction h as [|b t IH]; simpl; auto. destruct (negb (mark b)); simpl; lia. Qed.

Lemma set_marks_other S h : (forall b, In b h -> ~ In (bid b) S) -> set_marks S h = h.
Proof.
  intros H. unfold set_marks. rewrite <- (map_id h) at 2. apply map_ext_in. intros b Hb.
  unfold smb. destruct (memN (bid b) S) eqn:E; [|reflexivity].
  apply memN_in in E. exfalso. apply (H b Hb E).
Qed.

Lemma unmarked_set_mark1 h b : NoDup (ids h) -> In b h -> mark b = false ->
  S (unmarked (set_marks [bid b] h)) = unmarked h.
Proof.
  induction h as [|c t IH]; intros ND Hb Mb; [destruct Hb|].
  simpl in ND. inversion ND as [|? ? Hnot ND']; subst.
  destruct Hb as [->|Hb].
  - assert (E : set_marks [bid b] t = t).
    { apply set_marks_other. intros x Hx [Hi|[]]. apply Hnot. apply in_ids. exists x; auto. }
    unfold unmarked. simpl. fold (set_marks [bid b] t). rewrite E.
    rewrite smb_mark. rewrite Mb. simpl. unfold memN. simpl. rewrite N.eqb_refl. simpl. reflexivity.
  - assert (Hne : bid c <> bid b).
    { intros E. apply Hnot. apply in_ids. exists b; auto. }
    specialize (IH ND' Hb Mb).
    unfold unmarked in *. simpl. fold (set_marks [bid b] t).
    rewrite smb_mark. unfold memN at 1. simpl.
    apply N.eqb_neq in Hne. rewrite Hne. simpl. rewrite orb_false_r.
    destruct (negb (mark c)); simpl; lia.
Qed.

Lemma unmarked_set_marks : forall St h, NoDup (ids h) -> NoDup St ->
  (forall s, In s St -> exists b, In b h /\ bid b = s /\ mark b = false) ->
  unmarked (set_marks St h) + length St = unmarked h.
Proof.
  induction St as [|s St IH]; intros h ND NDS H.
  - rewrite set_marks_nil. simpl. lia.
  - inversion NDS as [|? ? Hs NDS']; subst.
    change (s :: St) with ([s] ++ St). rewrite <- set_marks_app.
    destruct (H s (or_introl eq_refl)) as [b [Hb [Eb Mb]]].
    assert (IH' : unmarked (set_marks St (set_marks [s] h)) + length St = unmarked (set_marks [s] h)).
    { apply IH.
      + now rewrite ids_set_marks.
      + exact NDS'.
      + intros s' Hs'. destruct (H s' (or_intror Hs')) as [b' [Hb' [Eb' Mb']]].
        exists (smb [s] b'). split; [apply in_set_marks; eauto|].
        rewrite smb_bid, smb_mark. split; [auto|]. rewrite Mb'. simpl.
        unfold memN. simpl. rewrite orb_false_r. apply N.eqb_neq. intros E. apply Hs. rewrite <- E, Eb'. exact Hs'. }
    subst s. pose proof (unmarked_set_mark1 h b ND Hb Mb). simpl. lia.
Qed.

(* ------------------------------------------------------------------ §3 *)
Lemma trace_mark_spec : forall es h q, NoDup (ids h) ->
  exists St, trace_mark es h q = (set_marks St h, rev St ++ q)
    /\ (forall s, In s St -> In s es /\ exists b, In b h /\ bid b = s /\ mark b = false)
    /\ NoDup St
    /\ (forall e d, In e es -> In d h -> bid d = e -> mark d = true \/ In e St).
Proof.
  induction es as [|e es IH]; intros h q ND.
  - exists []. simpl. rewrite set_marks_nil. split; [reflexivity|]. split; [intros s []|].
    split; [constructor|]. intros e d [].
  - simpl. destruct (find_box e h) as [b|] eqn:F.
    + destruct (find_box_some _ _ _ F) as [Hb Eb]. destruct (mark b) eqn:Mb.
      * destruct (IH h q ND) as [St [E [P1 [P2 P3]]]]. exists St. split; [exact E|]. split; [|split; auto].
        -- intros s Hs. destruct (P1 s Hs) as [A B]. split; [right; auto|auto].
        -- intros e0 d [->|He0] Hd Ed.
           ++ left. assert (d = b) by (eapply NoDup_ids_inj; eauto; congruence). subst; auto.
           ++ eapply P3; eauto.
      * rewrite set_mark_is.
        destruct (IH (set_marks [e] h) (e :: q)) as [St [E [P1 [P2 P3]]]].
        { now rewrite ids_set_marks. }
        exists (e :: St). split; [|split; [|split]].
        -- rewrite E. rewrite set_marks_app. simpl. rewrite <- app_assoc. reflexivity.
        -- intros s [<-|Hs].
           ++ split; [left; auto|]. exists b; auto.
           ++ destruct (P1 s Hs) as [A [b' [Hb' [Eb' Mb']]]]. split; [right; auto|].
              apply in_set_marks in Hb'. destruct Hb' as [b0 [Hb0 ->]].
              rewrite smb_bid in Eb'. rewrite smb_mark in Mb'. apply orb_false_iff in Mb'.
              exists b0. tauto.
        -- constructor; [|exact P2]. intros Hin.
           destruct (P1 e Hin) as [_ [b' [Hb' [Eb' Mb']]]].
           apply in_set_marks in Hb'. destruct Hb' as [b0 [Hb0 ->]].
           rewrite smb_bid in Eb'. rewrite smb_mark in Mb'. apply orb_false_iff in Mb'.
           destruct Mb' as [_ Mm]. rewrite Eb' in Mm. unfold memN in Mm. simpl in Mm.
           rewrite N.eqb_refl in Mm. discriminate.
        -- intros e0 d [<-|He0] Hd Ed; [right; left; auto|].
           destruct (P3 e0 (smb [e] d) He0) as [M|M].
           ++ apply in_set_marks. eauto.
           ++ now rewrite smb_bid.
           ++ rewrite smb_mark in M. apply orb_true_iff in M. destruct M as [M|M]; [left; auto|].
              apply memN_in in M. destruct M as [M|[]]. right. left. congruence.
           ++ right. right. auto.
    + destruct (IH h q ND) as [St [E [P1 [P2 P3]]]]. exists St. split; [exact E|]. split; [|split; auto].
      * intros s Hs. destruct (P1 s Hs) as [A B]. split; [right; auto|auto].
      * intros e0 d [->|He0] Hd Ed.
        -- exfalso. apply (find_box_none _ _ F). apply in_ids. exists d; auto.
        -- eapply P3; eauto.
Qed.

Definition closed_except (h : heap) (q : list N) : Prop :=
  forall c e d, In c h -> mark c = true -> ~ In (bid c) q -> In e (edges c) -> In d h -> bid d = e ->
    mark d = true.
Definition edge_closed (h : heap) (P : N -> Prop) : Prop :=
  forall c e, In c h -> P (bid c) -> In e (edges c) -> In e (ids h) -> P e.

Lemma edge_closed_set_marks St h P : edge_closed h P -> edge_closed (set_marks St h) P.
Proof.
  intros H c e Hc Pc He Hi. apply in_set_marks in Hc. destruct Hc as [c0 [Hc0 ->]].
  rewrite smb_bid in Pc. rewrite smb_edges in He. rewrite ids_set_marks in Hi. eapply H; eauto.
Qed.

Lemma drain_spec : forall fuel h q, NoDup (ids h) ->
  (forall x, In x q -> exists c, In c h /\ bid c = x /\ mark c = true) ->
  unmarked h + length q <= fuel ->
  exists St, drain fuel h q = Ok (set_marks St h)
    /\ (closed_except h q -> closed (set_marks St h))
    /\ (forall P : N -> Prop, edge_closed h P -> (forall c, In c h -> mark c = true -> P (bid c)) ->
          forall c, In c (set_marks St h) -> mark c = true -> P (bid c)).
Proof.
  induction fuel as [|f IH]; intros h q ND Hq Hf.
  - destruct q as [|x q]; [|simpl in Hf; lia].
    exists []. simpl. rewrite set_marks_nil. split; [reflexivity|]. split.
    + intros H c e d Hc Mc He Hd Ed. exact (H c e d Hc Mc (fun F => F) He Hd Ed).
    + intros P _ HP c Hc Mc. auto.
  - destruct q as [|x q].
    { exists []. simpl. rewrite set_marks_nil. split; [reflexivity|]. split.
      + intros H c e d Hc Mc He Hd Ed. exact (H c e d Hc Mc (fun F => F) He Hd Ed).
      + intros P _ HP c Hc Mc. auto. }
    destruct (Hq x (or_introl eq_refl)) as [c [Hc [Ec Mc]]].
    simpl. subst x. rewrite (find_box_in h c ND Hc). rewrite Mc.
    destruct (trace_mark_spec (edges c) h q ND) as [S1 [E1 [P1 [P2 P3]]]].
    rewrite E1.
    destruct (IH (set_marks S1 h) (rev S1 ++ q)) as [S2 [E2 [C2 Q2]]].
    { now rewrite ids_set_marks. }
    { intros y Hy. apply in_app_or in Hy. destruct Hy as [Hy|Hy].
      - apply in_rev in Hy. destruct (P1 y Hy) as [_ [b [Hb [Eb _]]]].
        exists (smb S1 b). split; [apply in_set_marks; eauto|]. rewrite smb_bid, smb_mark.
        split; auto. apply orb_true_iff. right. apply memN_in. congruence.
      - destruct (Hq y (or_intror Hy)) as [c' [Hc' [Ec' Mc']]].
        exists (smb S1 c'). split; [apply in_set_marks; eauto|]. rewrite smb_bid, smb_mark.
        split; auto. rewrite Mc'. reflexivity. }
    { pose proof (unmarked_set_marks S1 h ND P2) as U.
      rewrite app_length, rev_length. simpl in Hf.
      assert (unmarked (set_marks S1 h) + length S1 = unmarked h).
      { apply U. intros s Hs. destruct (P1 s Hs) as [_ B]. exact B. }
      lia. }
    exists (S1 ++ S2). rewrite <- set_marks_app. split; [exact E2|]. split.
    + intros CE. apply C2.
      intros c1 e d1 Hc1 Mc1 Nq He Hd1 Ed.
      apply in_set_marks in Hc1. destruct Hc1 as [c0 [Hc0 ->]].
      apply in_set_marks in Hd1. destruct Hd1 as [d0 [Hd0 ->]].
      rewrite smb_bid in *. rewrite smb_edges in He. rewrite smb_mark in Mc1. rewrite smb_mark.
      apply orb_true_iff in Mc1. destruct Mc1 as [Mc1|Mc1].
      2:{ exfalso. apply Nq. apply in_or_app. left. apply -> in_rev. now apply memN_in. }
      destruct (N.eq_dec (bid c0) (bid c)) as [Eq|Ne].
      * assert (c0 = c) by (eapply NoDup_ids_inj; eauto). subst c0.
        destruct (P3 e d0 He Hd0 Ed) as [M|M].
        -- rewrite M. reflexivity.
        -- apply orb_true_iff. right. apply memN_in. congruence.
      * assert (M : mark d0 = true).
        { eapply (CE c0 e d0); eauto. intros [Hx|Hx]; [congruence|].
          apply Nq. apply in_or_app. right. exact Hx. }
        rewrite M. reflexivity.
    + intros P EC HP c1 Hc1 Mc1.
      apply (Q2 P).
      * now apply edge_closed_set_marks.
      * intros c2 Hc2 Mc2. apply in_set_marks in Hc2. destruct Hc2 as [c0 [Hc0 ->]].
        rewrite smb_bid. rewrite smb_mark in Mc2. apply orb_true_iff in Mc2.
        destruct Mc2 as [Mc2|Mc2]; [auto|].
        apply memN_in in Mc2. destruct (P1 _ Mc2) as [A _].
        apply (EC c (bid c0)); auto. apply in_ids. exists c0; auto.
      * exact Hc1.
      * exact Mc1.
Qed.

Lemma mark_obj_spec : forall h b, NoDup (ids h) -> In b h -> mark b = false -> closed h ->
  exists St, mark_obj h b = Ok (set_marks St h)
    /\ In (bid b) St
    /\ closed (set_marks St h)
    /\ (forall P : N -> Prop, edge_closed h P -> (forall c, In c h -> mark c = true -> P (bid c)) ->
          P (bid b) -> forall c, In c (set_marks St h) -> mark c = true -> P (bid c)).
Proof.
  intros h b ND Hb Mb Hcl.
  set (h1 := set_marks [bid b] h).
  assert (ND1 : NoDup (ids h1)) by (unfold h1; now rewrite ids_set_marks).
  assert (Hb1 : In (smb [bid b] b) h1) by (apply in_set_marks; eauto).
  assert (Mb1 : mark (smb [bid b] b) = true).
  { rewrite smb_mark. unfold memN. simpl. rewrite N.eqb_refl. now rewrite orb_true_r. }
  assert (E : mark_obj h b = drain (S (S (length h))) h1 [bid b]).
  { pose proof (find_box_in h1 _ ND1 Hb1) as F. rewrite smb_bid in F.
    cbn [drain]. rewrite F, Mb1, smb_edges.
    unfold mark_obj. rewrite set_mark_is. reflexivity. }
  destruct (drain_spec (S (S (length h))) h1 [bid b] ND1) as [S2 [E2 [C2 Q2]]].
  { intros x [<-|[]]. exists (smb [bid b] b). rewrite smb_bid. auto. }
  { pose proof (unmarked_le h1). unfold h1 in *. rewrite length_set_marks in H. simpl. lia. }
  exists ([bid b] ++ S2). rewrite <- set_marks_app. fold h1. split; [congruence|]. split; [left; auto|]. split.
  - apply C2. intros c1 e d1 Hc1 Mc1 Nq He Hd1 Ed.
    apply in_set_marks in Hc1. destruct Hc1 as [c0 [Hc0 ->]].
    apply in_set_marks in Hd1. destruct Hd1 as [d0 [Hd0 ->]].
    rewrite smb_bid in *. rewrite smb_edges in He. rewrite smb_mark in Mc1. rewrite smb_mark.
    apply orb_true_iff in Mc1. destruct Mc1 as [Mc1|Mc1].
    + rewrite (Hcl c0 e d0 Hc0 Mc1 He Hd0 Ed). reflexivity.
    + exfalso. apply Nq. left. apply memN_in in Mc1. destruct Mc1 as [Mc1|[]]. auto.
  - intros P EC HP Pb c1 Hc1 Mc1. apply (Q2 P).
    + now apply edge_closed_set_marks.
    + intros c2 Hc2 Mc2. apply in_set_marks in Hc2. destruct Hc2 as [c0 [Hc0 ->]].
      rewrite smb_bid. rewrite smb_mark in Mc2. apply orb_true_iff in Mc2.
      destruct Mc2 as [Mc2|Mc2]; [auto|].
      apply memN_in in Mc2. destruct Mc2 as [Mc2|[]]. congruence.
    + exact Hc1.
    + exact Mc1.
Qed.
