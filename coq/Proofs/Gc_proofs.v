(* Proofs/Gc_proofs.v — the collector of Model/Gc.v keeps exactly the boxes
   reachable from the roots (boxes with a view or an external handle).

   Structure:
     §1 vector lemmas (swap, swap_remove, firstn)
     §2 heap vocabulary: skeleton, set_marks, in_count, closed, reachable
     §3 trace_mark / drain / mark_obj
     §4 count pass    (invariant Inv1; the subtle point is [V]: an unmarked box
                       has had every handle held by a processed box counted)
     §5 mark pass     (Inv2: for an unmarked box visits = in_count, hence
                       weak_count > visits  <->  an external handle exists)
     §6 sweep
     §7 gc_spec and its corollaries *)
From RJ Require Import Base.Outcome Model.Gc.
From Coq Require Import Lia Permutation.
Local Open Scope outcome_scope.

(* ------------------------------------------------------------------ §1 *)
Section Vec.
Context {A : Type}.

Lemma set_nth_length (i : nat) (x : A) l : length (set_nth i x l) = length l.
Proof. revert i; induction l as [|y t IH]; intros [|i]; simpl; auto. Qed.

Lemma set_nth_perm (l : list A) : forall j x y, nth_error l j = Some y ->
  Permutation (y :: set_nth j x l) (x :: l).
Proof.
  induction l as [|z t IH]; intros [|j] x y H; simpl in *; try discriminate.
  - inversion H; subst. apply perm_swap.
  - specialize (IH j x y H).
    eapply perm_trans; [apply perm_swap|].
    eapply perm_trans; [apply perm_skip, IH|]. apply perm_swap.
Qed.

Lemma swap_perm_aux (l : list A) : forall i j x y,
  nth_error l i = Some x -> nth_error l j = Some y ->
  Permutation (set_nth i y (set_nth j x l)) l.
Proof.
  induction l as [|z t IH]; intros [|i] [|j] x y Hi Hj; simpl in *; try discriminate.
  - inversion Hi; inversion Hj; subst. reflexivity.
  - inversion Hi; subst. apply set_nth_perm; assumption.
  - inversion Hj; subst. apply set_nth_perm; assumption.
  - apply perm_skip. eapply IH; eassumption.
Qed.

Lemma swap_perm (l : list A) i j : Permutation (swap l i j) l.
Proof.
  unfold swap. destruct (nth_error l i) as [x|] eqn:Hi; [|reflexivity].
  destruct (nth_error l j) as [y|] eqn:Hj; [|reflexivity].
  eapply swap_perm_aux; eassumption.
Qed.

Lemma nth_error_firstn_lt (l : list A) : forall n i, i < n ->
  nth_error (firstn n l) i = nth_error l i.
Proof.
  induction l as [|z t IH]; intros [|n] [|i] H; simpl; auto; try lia.
  apply IH; lia.
Qed.

Lemma firstn_set_nth (l : list A) : forall n i x, i < n ->
  firstn n (set_nth i x l) = set_nth i x (firstn n l).
Proof.
  induction l as [|z t IH]; intros [|n] [|i] x H; simpl; auto; try lia.
  f_equal. apply IH; lia.
Qed.

Lemma swap_firstn (l : list A) i j : j < i ->
  Permutation (firstn (S i) (swap l i j)) (firstn (S i) l).
Proof.
  intros Hji. unfold swap.
  destruct (nth_error l i) as [x|] eqn:Hi; [|reflexivity].
  destruct (nth_error l j) as [y|] eqn:Hj; [|reflexivity].
  rewrite firstn_set_nth by lia. rewrite firstn_set_nth by lia.
  apply swap_perm_aux; rewrite nth_error_firstn_lt by lia; assumption.
Qed.

Lemma swap_length (l : list A) i j : length (swap l i j) = length l.
Proof.
  unfold swap. destruct (nth_error l i); [|reflexivity].
  destruct (nth_error l j); [|reflexivity].
  now rewrite !set_nth_length.
Qed.

Lemma rot_last_perm (t : list A) : Permutation (rot_last t) t.
Proof.
  destruct t as [|x r]; [reflexivity|].
  unfold rot_last.
  assert (H : x :: r <> []) by discriminate.
  rewrite (app_removelast_last x H) at 3.
  apply Permutation_cons_append.
Qed.

Lemma nth_error_split_firstn (l : list A) : forall i b, nth_error l i = Some b ->
  l = firstn i l ++ b :: skipn (S i) l.
Proof.
  induction l as [|z t IH]; intros [|i] b H; simpl in *; try discriminate.
  - inversion H; reflexivity.
  - f_equal. apply IH; assumption.
Qed.

Lemma swap_remove_perm (l : list A) i b : nth_error l i = Some b ->
  Permutation (b :: swap_remove l i) l.
Proof.
  intros H. unfold swap_remove.
  rewrite (nth_error_split_firstn l i b H) at 3.
  eapply perm_trans; [apply Permutation_middle|].
  apply Permutation_app_head. apply perm_skip. apply rot_last_perm.
Qed.

Lemma firstn_skipn_prefix (l : list A) : forall i X, i <= length l ->
  firstn i (firstn i l ++ X) = firstn i l /\ skipn i (firstn i l ++ X) = X.
Proof.
  induction l as [|z t IH]; intros [|i] X H; simpl in *; auto; try lia.
  destruct (IH i X) as [E1 E2]; [lia|]. rewrite E1, E2. auto.
Qed.

Lemma swap_remove_firstn (l : list A) i : i <= length l ->
  firstn i (swap_remove l i) = firstn i l.
Proof. intros H. unfold swap_remove. now apply firstn_skipn_prefix. Qed.

Lemma swap_remove_skipn (l : list A) i : i <= length l ->
  skipn i (swap_remove l i) = rot_last (skipn (S i) l).
Proof. intros H. unfold swap_remove. now apply firstn_skipn_prefix. Qed.

Lemma firstn_S_nth (l : list A) : forall i b, nth_error l i = Some b ->
  firstn (S i) l = firstn i l ++ [b].
Proof.
  induction l as [|z t IH]; intros [|i] b H; simpl in *; try discriminate.
  - inversion H; reflexivity.
  - f_equal. apply IH; assumption.
Qed.

Lemma skipn_nth (l : list A) : forall i b, nth_error l i = Some b ->
  skipn i l = b :: skipn (S i) l.
Proof.
  induction l as [|z t IH]; intros [|i] b H; simpl in *; try discriminate.
  - inversion H; reflexivity.
  - apply IH; assumption.
Qed.

Lemma nth_error_len (l : list A) i : nth_error l i = None -> length l <= i.
Proof. apply nth_error_None. Qed.

Lemma nth_error_lt (l : list A) i b : nth_error l i = Some b -> i < length l.
Proof. intros H. apply nth_error_Some. congruence. Qed.

End Vec.

(* ------------------------------------------------------------------ §2 *)
Definition is_root (b : box) : bool := has_view b || Nat.ltb 0 (ext_weak b).
Definition roots (h : heap) : list N := ids (filter is_root h).

(* reachability through in-heap handles of boxes that are in the heap; a
   dangling handle (target not in the heap) leads nowhere *)
Inductive reachable (h : heap) (rs : list N) : N -> Prop :=
| reach_root : forall i, In i rs -> In i (ids h) -> reachable h rs i
| reach_step : forall b j, reachable h rs (bid b) -> In b h -> In j (edges b) -> In j (ids h) ->
    reachable h rs j.

(* between collections: identities distinct, both cells reset *)
Definition wf (h : heap) : Prop :=
  NoDup (ids h) /\ forall b, In b h -> visits b = 0 /\ mark b = false.

Definition skel (b : box) := (bid b, edges b, ext_weak b, has_view b).

Lemma skel_inv a b : skel a = skel b ->
  bid a = bid b /\ edges a = edges b /\ ext_weak a = ext_weak b /\ has_view a = has_view b.
Proof. unfold skel; intros H; inversion H; auto. Qed.

Lemma in_ids h i : In i (ids h) <-> exists b, In b h /\ bid b = i.
Proof.
  unfold ids. rewrite in_map_iff. split; intros [b [H1 H2]]; exists b; auto.
Qed.

Lemma NoDup_ids_inj h : NoDup (ids h) -> forall a b, In a h -> In b h -> bid a = bid b -> a = b.
Proof.
  induction h as [|c t IH]; intros ND a b Ha Hb E; [destruct Ha|].
  simpl in ND. inversion ND as [|? ? Hnot ND']; subst.
  destruct Ha as [->|Ha], Hb as [->|Hb]; auto.
  - exfalso. apply Hnot. apply in_ids. exists b; auto.
  - exfalso. apply Hnot. apply in_ids. exists a; auto.
Qed.

Lemma find_box_some i h b : find_box i h = Some b -> In b h /\ bid b = i.
Proof.
  induction h as [|c t IH]; simpl; [discriminate|].
  destruct (N.eqb (bid c) i) eqn:E.
  - intros H; inversion H; subst. apply N.eqb_eq in E. auto.
  - intros H. destruct (IH H). auto.
Qed.

Lemma find_box_none i h : find_box i h = None -> ~ In i (ids h).
Proof.
  induction h as [|c t IH]; simpl; [auto|].
  destruct (N.eqb (bid c) i) eqn:E; [discriminate|].
  intros H [H1|H1].
  - apply N.eqb_neq in E. auto.
  - apply (IH H H1).
Qed.

Lemma find_box_in h b : NoDup (ids h) -> In b h -> find_box (bid b) h = Some b.
Proof.
  intros ND Hb. destruct (find_box (bid b) h) as [c|] eqn:E.
  - destruct (find_box_some _ _ _ E) as [Hc Ec]. f_equal. eapply NoDup_ids_inj; eauto.
  - exfalso. apply (find_box_none _ _ E). apply in_ids. exists b; auto.
Qed.

(* marking a set of identities *)
Definition memN (x : N) (S : list N) : bool := existsb (N.eqb x) S.
Definition smb (S : list N) (b : box) : box := if memN (bid b) S then set_mark_b b else b.
Definition set_marks (S : list N) (h : heap) : heap := map (smb S) h.

Lemma memN_in x S : memN x S = true <-> In x S.
Proof.
  unfold memN. rewrite existsb_exists. split.
  - intros [y [H1 H2]]. apply N.eqb_eq in H2. subst; auto.
  - intros H. exists x. split; auto. apply N.eqb_refl.
Qed.

Lemma memN_app x S1 S2 : memN x (S1 ++ S2) = memN x S1 || memN x S2.
Proof. unfold memN. apply existsb_app. Qed.

Lemma smb_bid S b : bid (smb S b) = bid b.
Proof. unfold smb. destruct (memN (bid b) S); reflexivity. Qed.
Lemma smb_edges S b : edges (smb S b) = edges b.
Proof. unfold smb. destruct (memN (bid b) S); reflexivity. Qed.
Lemma smb_ext S b : ext_weak (smb S b) = ext_weak b.
Proof. unfold smb. destruct (memN (bid b) S); reflexivity. Qed.
Lemma smb_view S b : has_view (smb S b) = has_view b.
Proof. unfold smb. destruct (memN (bid b) S); reflexivity. Qed.
Lemma smb_visits S b : visits (smb S b) = visits b.
Proof. unfold smb. destruct (memN (bid b) S); reflexivity. Qed.
Lemma smb_mark S b : mark (smb S b) = mark b || memN (bid b) S.
Proof.
  unfold smb. destruct (memN (bid b) S); simpl.
  - now rewrite orb_true_r.
  - now rewrite orb_false_r.
Qed.
Lemma smb_skel S b : skel (smb S b) = skel b.
Proof. unfold skel. now rewrite smb_bid, smb_edges, smb_ext, smb_view. Qed.

Lemma set_mark_is i h : set_mark i h = set_marks [i] h.
Proof.
  unfold set_mark, upd, set_marks. apply map_ext. intros b.
  unfold smb, memN. simpl. now rewrite orb_false_r.
Qed.

Lemma smb_app S1 S2 b : smb S2 (smb S1 b) = smb (S1 ++ S2) b.
Proof.
  unfold smb at 1. rewrite smb_bid. unfold smb. rewrite memN_app.
  destruct (memN (bid b) S1), (memN (bid b) S2); reflexivity.
Qed.

Lemma set_marks_app S1 S2 h : set_marks S2 (set_marks S1 h) = set_marks (S1 ++ S2) h.
Proof. unfold set_marks. rewrite map_map. apply map_ext. intros; apply smb_app. Qed.

Lemma set_marks_nil h : set_marks [] h = h.
Proof. unfold set_marks. rewrite <- (map_id h) at 2. apply map_ext. reflexivity. Qed.

Lemma ids_set_marks S h : ids (set_marks S h) = ids h.
Proof. unfold ids, set_marks. rewrite map_map. apply map_ext. intros; apply smb_bid. Qed.

Lemma in_set_marks S h b' : In b' (set_marks S h) <-> exists b, In b h /\ b' = smb S b.
Proof.
  unfold set_marks. rewrite in_map_iff. split; intros [b [H1 H2]]; exists b; auto.
Qed.

Lemma length_set_marks S h : length (set_marks S h) = length h.
Proof. apply map_length. Qed.

(* in_count *)
Lemma in_count_app h1 h2 i : in_count (h1 ++ h2) i = in_count h1 i + in_count h2 i.
Proof.
  unfold in_count. rewrite map_app. induction (map (fun b => count_id i (edges b)) h1); simpl; lia.
Qed.

Lemma in_count_cons b h i : in_count (b :: h) i = count_id i (edges b) + in_count h i.
Proof. reflexivity. Qed.

Lemma in_count_perm h h' i : Permutation h h' -> in_count h i = in_count h' i.
Proof.
  induction 1; rewrite ?in_count_cons in *; try lia.
Qed.

Lemma in_count_map f h i : (forall b, edges (f b) = edges b) -> in_count (map f h) i = in_count h i.
Proof.
  intros Hf. unfold in_count. rewrite map_map. f_equal. apply map_ext. intros b. now rewrite Hf.
Qed.

Lemma in_count_set_marks S h i : in_count (set_marks S h) i = in_count h i.
Proof. apply in_count_map. intros; apply smb_edges. Qed.

Lemma count_id_pos i l : In i l -> 0 < count_id i l.
Proof.
  unfold count_id. induction l as [|x t IH]; intros H; [destruct H|]. simpl.
  destruct H as [->|H].
  - rewrite N.eqb_refl. simpl. lia.
  - destruct (N.eqb i x); simpl; auto with arith.
Qed.

Lemma count_id_zero i l : ~ In i l -> count_id i l = 0.
Proof.
  unfold count_id. induction l as [|x t IH]; intros H; [reflexivity|]. simpl.
  destruct (N.eqb i x) eqn:E.
  - apply N.eqb_eq in E. subst. exfalso. apply H. left; auto.
  - apply IH. intros H1. apply H. right; auto.
Qed.

Lemma in_count_pos h c i : In c h -> In i (edges c) -> 0 < in_count h i.
Proof.
  induction h as [|d t IH]; intros Hc Hi; [destruct Hc|]. rewrite in_count_cons.
  destruct Hc as [->|Hc].
  - pose proof (count_id_pos _ _ Hi). lia.
  - specialize (IH Hc Hi). lia.
Qed.

(* the marked set is closed under in-heap handles *)
Definition closed (h : heap) : Prop :=
  forall c e d, In c h -> mark c = true -> In e (edges c) -> In d h -> bid d = e -> mark d = true.

Lemma closed_count_zero h c d : closed h -> In c h -> mark c = true -> In d h -> mark d = false ->
  count_id (bid d) (edges c) = 0.
Proof.
  intros Hcl Hc Mc Hd Md. apply count_id_zero. intros Hin.
  rewrite (Hcl c (bid d) d Hc Mc Hin Hd eq_refl) in Md. discriminate.
Qed.

Definition unmarked (h : heap) : nat := length (filter (fun b => negb (mark b)) h).

Lemma unmarked_le h : unmarked h <= length h.
Proof. unfold unmarked. induction h as [|b t IH]; simpl; auto. destruct (negb (mark b)); simpl; lia. Qed.

Lemma set_marks_other S h : (forall b, In b h -> ~ In (bid b) S) -> set_marks S h = h.
Proof.
  intros H. unfold set_marks. rewrite <- (map_id h) at 2. apply map_ext_in. intros b Hb.
  unfold smb. destruct (memN (bid b) S) eqn:E; [|reflexivity].
  apply memN_in in E. exfalso. apply (H b Hb E).
Qed.

Lemma unmarked_set_mark1 h b : NoDup (ids h) -> In b h -> mark b = false ->
  S (unmarked (set_marks [bid b] h)) = unmarked h.
Proof.
  induction h as [|c t IH]; intros ND Hb Mb; [destruct Hb|].
  simpl in ND. inversion ND as [|? ? Hnot ND']; subst.
  destruct Hb as [->|Hb].
  - assert (E : set_marks [bid b] t = t).
    { apply set_marks_other. intros x Hx [Hi|[]]. apply Hnot. apply in_ids. exists x; auto. }
    unfold unmarked. simpl. fold (set_marks [bid b] t). rewrite E.
    rewrite smb_mark. rewrite Mb. simpl. unfold memN. simpl. rewrite N.eqb_refl. simpl. reflexivity.
  - assert (Hne : bid c <> bid b).
    { intros E. apply Hnot. apply in_ids. exists b; auto. }
    specialize (IH ND' Hb Mb).
    unfold unmarked in *. simpl. fold (set_marks [bid b] t).
    rewrite smb_mark. unfold memN at 1. simpl.
    apply N.eqb_neq in Hne. rewrite Hne. simpl. rewrite orb_false_r.
    destruct (negb (mark c)); simpl; lia.
Qed.

Lemma unmarked_set_marks : forall St h, NoDup (ids h) -> NoDup St ->
  (forall s, In s St -> exists b, In b h /\ bid b = s /\ mark b = false) ->
  unmarked (set_marks St h) + length St = unmarked h.
Proof.
  induction St as [|s St IH]; intros h ND NDS H.
  - rewrite set_marks_nil. simpl. lia.
  - inversion NDS as [|? ? Hs NDS']; subst.
    change (s :: St) with ([s] ++ St). rewrite <- set_marks_app.
    destruct (H s (or_introl eq_refl)) as [b [Hb [Eb Mb]]].
    assert (IH' : unmarked (set_marks St (set_marks [s] h)) + length St = unmarked (set_marks [s] h)).
    { apply IH.
      + now rewrite ids_set_marks.
      + exact NDS'.
      + intros s' Hs'. destruct (H s' (or_intror Hs')) as [b' [Hb' [Eb' Mb']]].
        exists (smb [s] b'). split; [apply in_set_marks; eauto|].
        rewrite smb_bid, smb_mark. split; [auto|]. rewrite Mb'. simpl.
        unfold memN. simpl. rewrite orb_false_r. apply N.eqb_neq. intros E. apply Hs. rewrite <- E, Eb'. exact Hs'. }
    subst s. pose proof (unmarked_set_mark1 h b ND Hb Mb). simpl. lia.
Qed.

(* ------------------------------------------------------------------ §3 *)
Lemma trace_mark_spec : forall es h q, NoDup (ids h) ->
  exists St, trace_mark es h q = (set_marks St h, rev St ++ q)
    /\ (forall s, In s St -> In s es /\ exists b, In b h /\ bid b = s /\ mark b = false)
    /\ NoDup St
    /\ (forall e d, In e es -> In d h -> bid d = e -> mark d = true \/ In e St).
Proof.
  induction es as [|e es IH]; intros h q ND.
  - exists []. simpl. rewrite set_marks_nil. split; [reflexivity|]. split; [intros s []|].
    split; [constructor|]. intros e d [].
  - simpl. destruct (find_box e h) as [b|] eqn:F.
    + destruct (find_box_some _ _ _ F) as [Hb Eb]. destruct (mark b) eqn:Mb.
      * destruct (IH h q ND) as [St [E [P1 [P2 P3]]]]. exists St. split; [exact E|]. split; [|split; auto].
        -- intros s Hs. destruct (P1 s Hs) as [A B]. split; [right; auto|auto].
        -- intros e0 d [->|He0] Hd Ed.
           ++ left. assert (d = b) by (eapply NoDup_ids_inj; eauto; congruence). subst; auto.
           ++ eapply P3; eauto.
      * rewrite set_mark_is.
        destruct (IH (set_marks [e] h) (e :: q)) as [St [E [P1 [P2 P3]]]].
        { now rewrite ids_set_marks. }
        exists (e :: St). split; [|split; [|split]].
        -- rewrite E. rewrite set_marks_app. simpl. rewrite <- app_assoc. reflexivity.
        -- intros s [<-|Hs].
           ++ split; [left; auto|]. exists b; auto.
           ++ destruct (P1 s Hs) as [A [b' [Hb' [Eb' Mb']]]]. split; [right; auto|].
              apply in_set_marks in Hb'. destruct Hb' as [b0 [Hb0 ->]].
              rewrite smb_bid in Eb'. rewrite smb_mark in Mb'. apply orb_false_iff in Mb'.
              exists b0. tauto.
        -- constructor; [|exact P2]. intros Hin.
           destruct (P1 e Hin) as [_ [b' [Hb' [Eb' Mb']]]].
           apply in_set_marks in Hb'. destruct Hb' as [b0 [Hb0 ->]].
           rewrite smb_bid in Eb'. rewrite smb_mark in Mb'. apply orb_false_iff in Mb'.
           destruct Mb' as [_ Mm]. rewrite Eb' in Mm. unfold memN in Mm. simpl in Mm.
           rewrite N.eqb_refl in Mm. discriminate.
        -- intros e0 d [<-|He0] Hd Ed; [right; left; auto|].
           destruct (P3 e0 (smb [e] d) He0) as [M|M].
           ++ apply in_set_marks. eauto.
           ++ now rewrite smb_bid.
           ++ rewrite smb_mark in M. apply orb_true_iff in M. destruct M as [M|M]; [left; auto|].
              apply memN_in in M. destruct M as [M|[]]. right. left. congruence.
           ++ right. right. auto.
    + destruct (IH h q ND) as [St [E [P1 [P2 P3]]]]. exists St. split; [exact E|]. split; [|split; auto].
      * intros s Hs. destruct (P1 s Hs) as [A B]. split; [right; auto|auto].
      * intros e0 d [->|He0] Hd Ed.
        -- exfalso. apply (find_box_none _ _ F). apply in_ids. exists d; auto.
        -- eapply P3; eauto.
Qed.

Definition closed_except (h : heap) (q : list N) : Prop :=
  forall c e d, In c h -> mark c = true -> ~ In (bid c) q -> In e (edges c) -> In d h -> bid d = e ->
    mark d = true.
Definition edge_closed (h : heap) (P : N -> Prop) : Prop :=
  forall c e, In c h -> P (bid c) -> In e (edges c) -> In e (ids h) -> P e.

Lemma edge_closed_set_marks St h P : edge_closed h P -> edge_closed (set_marks St h) P.
Proof.
  intros H c e Hc Pc He Hi. apply in_set_marks in Hc. destruct Hc as [c0 [Hc0 ->]].
  rewrite smb_bid in Pc. rewrite smb_edges in He. rewrite ids_set_marks in Hi. eapply H; eauto.
Qed.

Lemma drain_spec : forall fuel h q, NoDup (ids h) ->
  (forall x, In x q -> exists c, In c h /\ bid c = x /\ mark c = true) ->
  unmarked h + length q <= fuel ->
  exists St, drain fuel h q = Ok (set_marks St h)
    /\ (closed_except h q -> closed (set_marks St h))
    /\ (forall P : N -> Prop, edge_closed h P -> (forall c, In c h -> mark c = true -> P (bid c)) ->
          forall c, In c (set_marks St h) -> mark c = true -> P (bid c)).
Proof.
  induction fuel as [|f IH]; intros h q ND Hq Hf.
  - destruct q as [|x q]; [|simpl in Hf; lia].
    exists []. simpl. rewrite set_marks_nil. split; [reflexivity|]. split.
    + intros H c e d Hc Mc He Hd Ed. exact (H c e d Hc Mc (fun F => F) He Hd Ed).
    + intros P _ HP c Hc Mc. auto.
  - destruct q as [|x q].
    { exists []. simpl. rewrite set_marks_nil. split; [reflexivity|]. split.
      + intros H c e d Hc Mc He Hd Ed. exact (H c e d Hc Mc (fun F => F) He Hd Ed).
      + intros P _ HP c Hc Mc. auto. }
    destruct (Hq x (or_introl eq_refl)) as [c [Hc [Ec Mc]]].
    simpl. subst x. rewrite (find_box_in h c ND Hc). rewrite Mc.
    destruct (trace_mark_spec (edges c) h q ND) as [S1 [E1 [P1 [P2 P3]]]].
    rewrite E1.
    destruct (IH (set_marks S1 h) (rev S1 ++ q)) as [S2 [E2 [C2 Q2]]].
    { now rewrite ids_set_marks. }
    { intros y Hy. apply in_app_or in Hy. destruct Hy as [Hy|Hy].
      - apply in_rev in Hy. destruct (P1 y Hy) as [_ [b [Hb [Eb _]]]].
        exists (smb S1 b). split; [apply in_set_marks; eauto|]. rewrite smb_bid, smb_mark.
        split; auto. apply orb_true_iff. right. apply memN_in. congruence.
      - destruct (Hq y (or_intror Hy)) as [c' [Hc' [Ec' Mc']]].
        exists (smb S1 c'). split; [apply in_set_marks; eauto|]. rewrite smb_bid, smb_mark.
        split; auto. rewrite Mc'. reflexivity. }
    { pose proof (unmarked_set_marks S1 h ND P2) as U.
      rewrite app_length, rev_length. simpl in Hf.
      assert (unmarked (set_marks S1 h) + length S1 = unmarked h).
      { apply U. intros s Hs. destruct (P1 s Hs) as [_ B]. exact B. }
      lia. }
    exists (S1 ++ S2). rewrite <- set_marks_app. split; [exact E2|]. split.
    + intros CE. apply C2.
      intros c1 e d1 Hc1 Mc1 Nq He Hd1 Ed.
      apply in_set_marks in Hc1. destruct Hc1 as [c0 [Hc0 ->]].
      apply in_set_marks in Hd1. destruct Hd1 as [d0 [Hd0 ->]].
      rewrite smb_bid in *. rewrite smb_edges in He. rewrite smb_mark in Mc1. rewrite smb_mark.
      apply orb_true_iff in Mc1. destruct Mc1 as [Mc1|Mc1].
      2:{ exfalso. apply Nq. apply in_or_app. left. apply -> in_rev. now apply memN_in. }
      destruct (N.eq_dec (bid c0) (bid c)) as [Eq|Ne].
      * assert (c0 = c) by (eapply NoDup_ids_inj; eauto). subst c0.
        destruct (P3 e d0 He Hd0 Ed) as [M|M].
        -- rewrite M. reflexivity.
        -- apply orb_true_iff. right. apply memN_in. congruence.
      * assert (M : mark d0 = true).
        { eapply (CE c0 e d0); eauto. intros [Hx|Hx]; [congruence|].
          apply Nq. apply in_or_app. right. exact Hx. }
        rewrite M. reflexivity.
    + intros P EC HP c1 Hc1 Mc1.
      apply (Q2 P).
      * now apply edge_closed_set_marks.
      * intros c2 Hc2 Mc2. apply in_set_marks in Hc2. destruct Hc2 as [c0 [Hc0 ->]].
        rewrite smb_bid. rewrite smb_mark in Mc2. apply orb_true_iff in Mc2.
        destruct Mc2 as [Mc2|Mc2]; [auto|].
        apply memN_in in Mc2. destruct (P1 _ Mc2) as [A _].
        apply (EC c (bid c0)); auto. apply in_ids. exists c0; auto.
      * exact Hc1.
      * exact Mc1.
Qed.

Lemma mark_obj_spec : forall h b, NoDup (ids h) -> In b h -> mark b = false -> closed h ->
  exists St, mark_obj h b = Ok (set_marks St h)
    /\ In (bid b) St
    /\ closed (set_marks St h)
    /\ (forall P : N -> Prop, edge_closed h P -> (forall c, In c h -> mark c = true -> P (bid c)) ->
          P (bid b) -> forall c, In c (set_marks St h) -> mark c = true -> P (bid c)).
Proof.
  intros h b ND Hb Mb Hcl.
  set (h1 := set_marks [bid b] h).
  assert (ND1 : NoDup (ids h1)) by (unfold h1; now rewrite ids_set_marks).
  assert (Hb1 : In (smb [bid b] b) h1) by (apply in_set_marks; eauto).
  assert (Mb1 : mark (smb [bid b] b) = true).
  { rewrite smb_mark. unfold memN. simpl. rewrite N.eqb_refl. now rewrite orb_true_r. }
  assert (E : mark_obj h b = drain (S (S (length h))) h1 [bid b]).
  { pose proof (find_box_in h1 _ ND1 Hb1) as F. rewrite smb_bid in F.
    cbn [drain]. rewrite F, Mb1, smb_edges.
    unfold mark_obj. rewrite set_mark_is. reflexivity. }
  destruct (drain_spec (S (S (length h))) h1 [bid b] ND1) as [S2 [E2 [C2 Q2]]].
  { intros x [<-|[]]. exists (smb [bid b] b). rewrite smb_bid. auto. }
  { pose proof (unmarked_le h1). unfold h1 in *. rewrite length_set_marks in H. simpl. lia. }
  exists ([bid b] ++ S2). rewrite <- set_marks_app. fold h1. split; [congruence|]. split; [left; auto|]. split.
  - apply C2. intros c1 e d1 Hc1 Mc1 Nq He Hd1 Ed.
    apply in_set_marks in Hc1. destruct Hc1 as [c0 [Hc0 ->]].
    apply in_set_marks in Hd1. destruct Hd1 as [d0 [Hd0 ->]].
    rewrite smb_bid in *. rewrite smb_edges in He. rewrite smb_mark in Mc1. rewrite smb_mark.
    apply orb_true_iff in Mc1. destruct Mc1 as [Mc1|Mc1].
    + rewrite (Hcl c0 e d0 Hc0 Mc1 He Hd0 Ed). reflexivity.
    + exfalso. apply Nq. left. apply memN_in in Mc1. destruct Mc1 as [Mc1|[]]. auto.
  - intros P EC HP Pb c1 Hc1 Mc1. apply (Q2 P).
    + now apply edge_closed_set_marks.
    + intros c2 Hc2 Mc2. apply in_set_marks in Hc2. destruct Hc2 as [c0 [Hc0 ->]].
      rewrite smb_bid. rewrite smb_mark in Mc2. apply orb_true_iff in Mc2.
      destruct Mc2 as [Mc2|Mc2]; [auto|].
      apply memN_in in Mc2. destruct Mc2 as [Mc2|[]]. congruence.
    + exact Hc1.
    + exact Mc1.
Qed.

(* ------------------------------------------------------------------ §4 *)
Definition addv (es : list N) (x : box) : box :=
  mkbox (bid x) (edges x) (ext_weak x) (has_view x) (visits x + count_id (bid x) es) (mark x).

Lemma trace_count_is : forall es h, trace_count es h = map (addv es) h.
Proof.
  induction es as [|e es IH]; intros h.
  - simpl. rewrite <- (map_id h) at 1. apply map_ext. intros x. unfold addv, count_id. simpl.
    destruct x; simpl. f_equal. lia.
  - simpl. rewrite IH. unfold upd. rewrite map_map. apply map_ext. intros x.
    unfold addv, count_id. simpl. destruct (N.eqb (bid x) e); simpl; f_equal; lia.
Qed.

Section Phases.
Variable h0 : heap.
Hypothesis ND0 : NoDup (ids h0).

Definition Rch : N -> Prop := reachable h0 (roots h0).
Definition sub (objs : heap) : Prop := forall b, In b objs -> exists b0, In b0 h0 /\ skel b0 = skel b.
Definition keep (objs : heap) : Prop := forall x, Rch x -> In x (ids objs).
Definition sound (objs : heap) : Prop := forall b, In b objs -> mark b = true -> Rch (bid b).

Lemma sub_unique objs b b0 : sub objs -> In b objs -> In b0 h0 -> bid b0 = bid b -> skel b0 = skel b.
Proof.
  intros Hs Hb Hb0 E. destruct (Hs b Hb) as [b1 [H1 S1]].
  assert (b1 = b0).
  { eapply NoDup_ids_inj; eauto. destruct (skel_inv _ _ S1) as [E1 _]. congruence. }
  subst; auto.
Qed.

Lemma Rch_edge_closed objs : sub objs -> edge_closed objs Rch.
Proof.
  intros Hs c e Hc Pc He Hi.
  destruct (Hs c Hc) as [c0 [Hc0 Sc]]. destruct (skel_inv _ _ Sc) as [E1 [E2 _]].
  apply in_ids in Hi. destruct Hi as [d [Hd Ed]].
  destruct (Hs d Hd) as [d0 [Hd0 Sd]]. destruct (skel_inv _ _ Sd) as [E3 _].
  apply (reach_step h0 (roots h0) c0 e).
  - rewrite E1. exact Pc.
  - exact Hc0.
  - rewrite E2. exact He.
  - apply in_ids. exists d0. split; auto. congruence.
Qed.

Lemma is_root_skel a b : skel a = skel b -> is_root a = is_root b.
Proof. intros H. destruct (skel_inv _ _ H) as [_ [_ [E1 E2]]]. unfold is_root. now rewrite E1, E2. Qed.

Lemma root_Rch objs b : sub objs -> In b objs -> is_root b = true -> Rch (bid b).
Proof.
  intros Hs Hb Rb. destruct (Hs b Hb) as [b0 [Hb0 Sb]].
  destruct (skel_inv _ _ Sb) as [E1 _].
  apply reach_root.
  - unfold roots. apply in_ids. exists b0. split; auto. apply filter_In. split; auto.
    rewrite (is_root_skel _ _ Sb). exact Rb.
  - apply in_ids. exists b0; auto.
Qed.

Record Inv1 (objs : heap) (i : nat) : Prop := {
  i1_nd : NoDup (ids objs);
  i1_le : i <= length objs;
  i1_sub : sub objs;
  i1_keep : keep objs;
  i1_sound : sound objs;
  i1_closed : closed objs;
  i1_V : forall b, In b objs -> mark b = false -> visits b = in_count (firstn i objs) (bid b);
  i1_view : forall b, In b (firstn i objs) -> has_view b = true -> mark b = true;
}.

Lemma firstn_In {A} (l : list A) n x : In x (firstn n l) -> In x l.
Proof. intros H. rewrite <- (firstn_skipn n l). apply in_or_app. auto. Qed.

Lemma Inv1_perm objs objs' i : Inv1 objs i -> Permutation objs objs' ->
  Permutation (firstn i objs) (firstn i objs') -> Inv1 objs' i.
Proof.
  intros [nd le sb kp sd cl V vw] P Pf.
  assert (Hin : forall x, In x objs' -> In x objs) by (intros x; apply Permutation_in; now apply Permutation_sym).
  constructor.
  - eapply Permutation_NoDup; [|exact nd]. unfold ids. now apply Permutation_map.
  - rewrite <- (Permutation_length P). exact le.
  - intros b Hb. apply sb. auto.
  - intros x Hx. eapply Permutation_in; [|apply kp; exact Hx]. unfold ids. now apply Permutation_map.
  - intros b Hb. apply sd. auto.
  - intros c e d Hc Mc He Hd Ed. apply (cl c e d (Hin c Hc) Mc He (Hin d Hd) Ed).
  - intros b Hb Mb. rewrite (V b (Hin b Hb) Mb). now apply in_count_perm.
  - intros b Hb. apply vw. eapply Permutation_in; [apply Permutation_sym; exact Pf|exact Hb].
Qed.

Lemma Inv1_skip objs i b : Inv1 objs i -> nth_error objs i = Some b -> mark b = true ->
  Inv1 objs (S i).
Proof.
  intros [nd le sb kp sd cl V vw] Hn Mb.
  assert (Hb : In b objs) by (eapply nth_error_In; eauto).
  constructor; auto.
  - apply nth_error_lt in Hn. lia.
  - intros x Hx Mx. rewrite (firstn_S_nth _ _ _ Hn). rewrite in_count_app, in_count_cons.
    rewrite (closed_count_zero objs b x cl Hb Mb Hx Mx). rewrite (V x Hx Mx). unfold in_count. simpl. lia.
  - intros x Hx Vx. rewrite (firstn_S_nth _ _ _ Hn) in Hx. apply in_app_or in Hx.
    destruct Hx as [Hx|[<-|[]]]; auto.
Qed.

Lemma Inv1_marks objs i St : Inv1 objs i -> closed (set_marks St objs) -> sound (set_marks St objs) ->
  Inv1 (set_marks St objs) i.
Proof.
  intros [nd le sb kp sd cl V vw] cl' sd'.
  constructor; auto.
  - now rewrite ids_set_marks.
  - now rewrite length_set_marks.
  - intros b Hb. apply in_set_marks in Hb. destruct Hb as [b1 [Hb1 ->]]. rewrite smb_skel. auto.
  - intros x Hx. rewrite ids_set_marks. auto.
  - intros b Hb Mb. apply in_set_marks in Hb. destruct Hb as [b1 [Hb1 ->]].
    rewrite smb_mark in Mb. apply orb_false_iff in Mb. destruct Mb as [Mb _].
    rewrite smb_visits, smb_bid. unfold set_marks. rewrite firstn_map. fold (set_marks St (firstn i objs)).
    rewrite in_count_set_marks. auto.
  - intros b Hb Vb. unfold set_marks in Hb. rewrite firstn_map in Hb. apply in_map_iff in Hb.
    destruct Hb as [b1 [<- Hb1]]. rewrite smb_view in Vb. rewrite smb_mark. rewrite (vw b1 Hb1 Vb). reflexivity.
Qed.

Lemma mark_obj_inv objs b : NoDup (ids objs) -> sub objs -> sound objs -> closed objs ->
  In b objs -> mark b = false -> is_root b = true ->
  exists St, mark_obj objs b = Ok (set_marks St objs) /\ In (bid b) St
    /\ closed (set_marks St objs) /\ sound (set_marks St objs).
Proof.
  intros nd sb sd cl Hb Mb Rb.
  destruct (mark_obj_spec objs b nd Hb Mb cl) as [St [E [Hin [Cl Q]]]].
  exists St. split; [exact E|]. split; [exact Hin|]. split; [exact Cl|].
  intros c Hc Mc. apply (Q Rch); auto.
  - now apply Rch_edge_closed.
  - eapply root_Rch; eauto.
Qed.

Lemma Inv1_mark_root objs i b : Inv1 objs i -> nth_error objs i = Some b -> has_view b = true ->
  mark b = false ->
  exists objs1, mark_obj objs b = Ok objs1 /\ Inv1 objs1 (S i) /\ length objs1 = length objs.
Proof.
  intros I Hn Vb Mb. pose proof I as [nd le sb kp sd cl V vw].
  assert (Hb : In b objs) by (eapply nth_error_In; eauto).
  destruct (mark_obj_inv objs b nd sb sd cl Hb Mb) as [St [E [Hin [Cl Sd]]]].
  { unfold is_root. rewrite Vb. reflexivity. }
  exists (set_marks St objs). split; [exact E|]. split; [|apply length_set_marks].
  apply (Inv1_skip _ i (smb St b)).
  - now apply Inv1_marks.
  - unfold set_marks. rewrite nth_error_map, Hn. reflexivity.
  - rewrite smb_mark. apply orb_true_iff. right. now apply memN_in.
Qed.

Lemma not_root_weak0 objs b : has_view b = false -> weak_count objs b = 0 -> is_root b = false.
Proof.
  unfold weak_count, is_root. intros -> H. assert (ext_weak b = 0) by lia. rewrite H0. reflexivity.
Qed.

Lemma Inv1_remove objs i b : Inv1 objs i -> nth_error objs i = Some b -> has_view b = false ->
  weak_count objs b = 0 -> Inv1 (swap_remove objs i) i.
Proof.
  intros [nd le sb kp sd cl V vw] Hn Vb W0.
  assert (Hb : In b objs) by (eapply nth_error_In; eauto).
  pose proof (swap_remove_perm objs i b Hn) as P.
  assert (Hin : forall x, In x (swap_remove objs i) -> In x objs).
  { intros x Hx. eapply Permutation_in; [exact P|]. right; auto. }
  assert (NDc : NoDup (bid b :: ids (swap_remove objs i))).
  { eapply Permutation_NoDup; [|exact nd]. apply Permutation_sym.
    change (bid b :: ids (swap_remove objs i)) with (ids (b :: swap_remove objs i)).
    unfold ids. now apply Permutation_map. }
  assert (NR : ~ Rch (bid b)).
  { intros R. inversion R as [x Hx Hi Ex|c0 j Rc Hc0 Hj Hi Ej].
    - unfold roots in Hx. apply in_ids in Hx. destruct Hx as [r [Hr Er]].
      apply filter_In in Hr. destruct Hr as [Hr Rr].
      pose proof (sub_unique objs b r sb Hb Hr Er) as Sk.
      rewrite (is_root_skel _ _ Sk) in Rr. rewrite (not_root_weak0 objs b Vb W0) in Rr. discriminate.
    - pose proof (kp _ Rc) as Hc. apply in_ids in Hc. destruct Hc as [c [Hc Ec]].
      pose proof (sub_unique objs c c0 sb Hc Hc0 (eq_sym Ec)) as Sk.
      destruct (skel_inv _ _ Sk) as [_ [E2 _]]. rewrite E2 in Hj.
      pose proof (in_count_pos objs c (bid b) Hc Hj). unfold weak_count in W0. lia. }
  constructor.
  - now inversion NDc.
  - pose proof (Permutation_length P) as L. simpl in L. apply nth_error_lt in Hn. lia.
  - intros x Hx. auto.
  - intros x Hx. pose proof (kp x Hx) as H.
    assert (H' : In x (ids (b :: swap_remove objs i))).
    { eapply Permutation_in; [|exact H]. unfold ids. apply Permutation_map. now apply Permutation_sym. }
    destruct H' as [E|H']; [|exact H']. exfalso. apply NR. rewrite E. exact Hx.
  - intros x Hx. auto.
  - intros c e d Hc Mc He Hd Ed. apply (cl c e d (Hin c Hc) Mc He (Hin d Hd) Ed).
  - intros x Hx Mx. rewrite swap_remove_firstn by exact le. auto.
  - intros x Hx. rewrite swap_remove_firstn in Hx by exact le. auto.
Qed.

Lemma Inv1_count objs i b : Inv1 objs i -> nth_error objs i = Some b -> has_view b = false ->
  Inv1 (trace_count (edges b) objs) (S i).
Proof.
  intros [nd le sb kp sd cl V vw] Hn Vb. rewrite trace_count_is.
  set (f := addv (edges b)).
  assert (Hid : ids (map f objs) = ids objs).
  { unfold ids. rewrite map_map. apply map_ext. reflexivity. }
  constructor.
  - now rewrite Hid.
  - rewrite map_length. apply nth_error_lt in Hn. lia.
  - intros x Hx. apply in_map_iff in Hx. destruct Hx as [x1 [<- Hx1]]. apply (sb x1 Hx1).
  - intros x Hx. rewrite Hid. auto.
  - intros x Hx Mx. apply in_map_iff in Hx. destruct Hx as [x1 [<- Hx1]]. apply (sd x1 Hx1 Mx).
  - intros c e d Hc Mc He Hd Ed.
    apply in_map_iff in Hc. destruct Hc as [c1 [<- Hc1]].
    apply in_map_iff in Hd. destruct Hd as [d1 [<- Hd1]].
    apply (cl c1 e d1 Hc1 Mc He Hd1 Ed).
  - intros x Hx Mx. apply in_map_iff in Hx. destruct Hx as [x1 [<- Hx1]].
    rewrite firstn_map. rewrite in_count_map by reflexivity.
    rewrite (firstn_S_nth _ _ _ Hn). rewrite in_count_app, in_count_cons.
    unfold f, addv. simpl. simpl in Mx. rewrite (V x1 Hx1 Mx). unfold in_count at 3. simpl. lia.
  - intros x Hx Vx. rewrite firstn_map in Hx. apply in_map_iff in Hx. destruct Hx as [x1 [<- Hx1]].
    rewrite (firstn_S_nth _ _ _ Hn) in Hx1. apply in_app_or in Hx1.
    destruct Hx1 as [Hx1|[<-|[]]].
    + apply (vw x1 Hx1 Vx).
    + simpl in Vx. congruence.
Qed.

Lemma count_loop_spec : forall fuel objs i kwv, Inv1 objs i -> length objs - i <= fuel ->
  exists objs', count_loop fuel objs i kwv = Ok objs' /\ Inv1 objs' (length objs').
Proof.
  induction fuel as [|f IH]; intros objs i kwv I Hf.
  - simpl. destruct (nth_error objs i) as [b|] eqn:Hn.
    + apply nth_error_lt in Hn. lia.
    + exists objs. split; [reflexivity|]. apply nth_error_len in Hn.
      pose proof (i1_le _ _ I). assert (i = length objs) by lia. subst i. exact I.
  - simpl. destruct (nth_error objs i) as [b|] eqn:Hn.
    2:{ exists objs. split; [reflexivity|]. apply nth_error_len in Hn.
        pose proof (i1_le _ _ I). assert (i = length objs) by lia. subst i. exact I. }
    pose proof (nth_error_lt _ _ _ Hn) as Hlt.
    destruct (has_view b) eqn:Vb.
    + assert (H1 : exists objs1, (if mark b then Ok objs else mark_obj objs b) = Ok objs1
                     /\ Inv1 objs1 (S i) /\ length objs1 = length objs).
      { destruct (mark b) eqn:Mb.
        - exists objs. split; [reflexivity|]. split; [|reflexivity]. eapply Inv1_skip; eauto.
        - apply Inv1_mark_root; auto. }
      destruct H1 as [objs1 [E1 [I1 L1]]]. rewrite E1. simpl.
      destruct (Nat.ltb kwv i) eqn:Hk.
      * apply Nat.ltb_lt in Hk.
        destruct (IH (swap objs1 i kwv) (S i) (S kwv)) as [objs' [E' I']].
        { eapply Inv1_perm; [exact I1| |].
          - apply Permutation_sym. apply swap_perm.
          - apply Permutation_sym. now apply swap_firstn. }
        { rewrite swap_length. lia. }
        exists objs'. auto.
      * destruct (IH objs1 (S i) kwv I1) as [objs' [E' I']]; [lia|]. exists objs'. auto.
    + destruct (Nat.eqb (weak_count objs b) 0) eqn:W.
      * apply Nat.eqb_eq in W.
        destruct (IH (swap_remove objs i) i kwv) as [objs' [E' I']].
        { eapply Inv1_remove; eauto. }
        { pose proof (Permutation_length (swap_remove_perm objs i b Hn)) as L. simpl in L. lia. }
        exists objs'. auto.
      * destruct (mark b) eqn:Mb; simpl.
        -- destruct (IH objs (S i) kwv) as [objs' [E' I']]; [eapply Inv1_skip; eauto|lia|].
           exists objs'. auto.
        -- destruct (IH (trace_count (edges b) objs) (S i) kwv) as [objs' [E' I']].
           { eapply Inv1_count; eauto. }
           { rewrite trace_count_is, map_length. lia. }
           exists objs'. auto.
Qed.

(* ------------------------------------------------------------------ §5 *)
Record Inv2 (objs : heap) (i : nat) : Prop := {
  i2_nd : NoDup (ids objs);
  i2_le : i <= length objs;
  i2_sub : sub objs;
  i2_keep : keep objs;
  i2_sound : sound objs;
  i2_closed : closed objs;
  i2_V : forall b, In b objs -> mark b = false -> visits b = in_count objs (bid b);
  i2_view : forall b, In b objs -> has_view b = true -> mark b = true;
  i2_ext : forall b, In b (firstn i objs) -> 0 < ext_weak b -> mark b = true;
}.

Lemma Inv1_Inv2 objs : Inv1 objs (length objs) -> Inv2 objs 0.
Proof.
  intros [nd le sb kp sd cl V vw]. rewrite firstn_all in *.
  constructor; auto; try lia; try (simpl; intros b []).
Qed.

Lemma Inv2_next objs i b : Inv2 objs i -> nth_error objs i = Some b ->
  (0 < ext_weak b -> mark b = true) -> Inv2 objs (S i).
Proof.
  intros [nd le sb kp sd cl V vw ex] Hn Hb. constructor; auto.
  - apply nth_error_lt in Hn. lia.
  - intros x Hx Ex. rewrite (firstn_S_nth _ _ _ Hn) in Hx. apply in_app_or in Hx.
    destruct Hx as [Hx|[<-|[]]]; auto.
Qed.

Lemma Inv2_marks objs i St : Inv2 objs i -> closed (set_marks St objs) -> sound (set_marks St objs) ->
  Inv2 (set_marks St objs) i.
Proof.
  intros [nd le sb kp sd cl V vw ex] cl' sd'.
  constructor; auto.
  - now rewrite ids_set_marks.
  - now rewrite length_set_marks.
  - intros b Hb. apply in_set_marks in Hb. destruct Hb as [b1 [Hb1 ->]]. rewrite smb_skel. auto.
  - intros x Hx. rewrite ids_set_marks. auto.
  - intros b Hb Mb. apply in_set_marks in Hb. destruct Hb as [b1 [Hb1 ->]].
    rewrite smb_mark in Mb. apply orb_false_iff in Mb. destruct Mb as [Mb _].
    rewrite smb_visits, smb_bid, in_count_set_marks. auto.
  - intros b Hb Vb. apply in_set_marks in Hb. destruct Hb as [b1 [Hb1 ->]].
    rewrite smb_view in Vb. rewrite smb_mark. rewrite (vw b1 Hb1 Vb). reflexivity.
  - intros b Hb Eb. unfold set_marks in Hb. rewrite firstn_map in Hb. apply in_map_iff in Hb.
    destruct Hb as [b1 [<- Hb1]]. rewrite smb_ext in Eb. rewrite smb_mark. rewrite (ex b1 Hb1 Eb). reflexivity.
Qed.

Lemma mark_loop_spec : forall n objs i, Inv2 objs i -> length objs - i <= n ->
  exists objs', mark_loop n i objs = Ok objs' /\ Inv2 objs' (length objs').
Proof.
  induction n as [|n IH]; intros objs i I Hn.
  - simpl. exists objs. split; [reflexivity|]. pose proof (i2_le _ _ I).
    assert (i = length objs) by lia. subst i. exact I.
  - simpl. destruct (nth_error objs i) as [b|] eqn:Hb.
    2:{ exists objs. split; [reflexivity|]. apply nth_error_len in Hb. pose proof (i2_le _ _ I).
        assert (i = length objs) by lia. subst i. exact I. }
    pose proof (nth_error_lt _ _ _ Hb) as Hlt.
    assert (Hin : In b objs) by (eapply nth_error_In; eauto).
    destruct (negb (mark b) && Nat.ltb (visits b) (weak_count objs b)) eqn:C.
    + apply andb_true_iff in C. destruct C as [C1 C2]. apply negb_true_iff in C1. apply Nat.ltb_lt in C2.
      pose proof I as [nd le sb kp sd cl V vw ex].
      assert (Ex : 0 < ext_weak b).
      { unfold weak_count in C2. rewrite (V b Hin C1) in C2. lia. }
      destruct (mark_obj_inv objs b nd sb sd cl Hin C1) as [St [E [Hs [Cl Sd]]]].
      { unfold is_root. apply orb_true_iff. right. now apply Nat.ltb_lt. }
      rewrite E. simpl.
      destruct (IH (set_marks St objs) (S i)) as [objs' [E' I']].
      { apply (Inv2_next _ i (smb St b)).
        - now apply Inv2_marks.
        - unfold set_marks. rewrite nth_error_map, Hb. reflexivity.
        - intros _. rewrite smb_mark. apply orb_true_iff. right. now apply memN_in. }
      { rewrite length_set_marks. lia. }
      exists objs'. auto.
    + destruct (IH objs (S i)) as [objs' [E' I']].
      { apply (Inv2_next _ i b); auto. intros Ex.
        destruct (mark b) eqn:Mb; [reflexivity|]. exfalso.
        simpl in C. apply Nat.ltb_ge in C. unfold weak_count in C.
        rewrite (i2_V _ _ I b Hin Mb) in C. lia. }
      { lia. }
      exists objs'. auto.
Qed.

Lemma Inv2_complete objs : Inv2 objs (length objs) ->
  forall x, Rch x -> forall y, In y objs -> bid y = x -> mark y = true.
Proof.
  intros [nd le sb kp sd cl V vw ex]. rewrite firstn_all in ex.
  intros x R. induction R as [x Hx Hi|c0 j Rc IH Hc0 Hj Hi]; intros y Hy Ey.
  - unfold roots in Hx. apply in_ids in Hx. destruct Hx as [r [Hr Er]].
    apply filter_In in Hr. destruct Hr as [Hr Rr].
    assert (Sk : skel r = skel y) by (apply (sub_unique objs); auto; congruence).
    rewrite (is_root_skel _ _ Sk) in Rr. unfold is_root in Rr. apply orb_true_iff in Rr.
    destruct Rr as [Rr|Rr]; [apply vw; auto|]. apply ex; auto. now apply Nat.ltb_lt.
  - pose proof (kp _ Rc) as Hc. apply in_ids in Hc. destruct Hc as [c [Hc Ec]].
    pose proof (sub_unique objs c c0 sb Hc Hc0 (eq_sym Ec)) as Sk.
    destruct (skel_inv _ _ Sk) as [_ [E2 _]].
    apply (cl c j y Hc (IH c Hc Ec)); auto. now rewrite <- E2.
Qed.

End Phases.

(* ------------------------------------------------------------------ §6 *)
Definition kept (l : heap) : heap := map reset_b (filter mark l).

Lemma kept_perm l l' : Permutation l l' -> Permutation (kept l) (kept l').
Proof.
  intros P. unfold kept. apply Permutation_map.
  induction P; simpl.
  - constructor.
  - destruct (mark x); [apply perm_skip|]; auto.
  - destruct (mark x), (mark y); try apply perm_swap; try apply perm_skip; apply Permutation_refl.
  - eapply perm_trans; eauto.
Qed.

Lemma upd_other i f l : (forall x, In x l -> bid x <> i) -> upd i f l = l.
Proof.
  intros H. unfold upd. rewrite <- (map_id l) at 2. apply map_ext_in. intros x Hx.
  destruct (N.eqb (bid x) i) eqn:E; [|reflexivity]. apply N.eqb_eq in E. exfalso. apply (H x Hx E).
Qed.

Lemma ids_app l1 l2 : ids (l1 ++ l2) = ids l1 ++ ids l2.
Proof. apply map_app. Qed.

Lemma upd_middle pre b r f : NoDup (ids (pre ++ b :: r)) ->
  upd (bid b) f (pre ++ b :: r) = pre ++ f b :: r.
Proof.
  intros ND. rewrite ids_app in ND. simpl in ND.
  pose proof (NoDup_remove_2 _ _ _ ND) as Hnot.
  unfold upd. rewrite map_app. simpl. rewrite N.eqb_refl.
  fold (upd (bid b) f pre). fold (upd (bid b) f r).
  rewrite !upd_other; auto.
  - intros x Hx E. apply Hnot. apply in_or_app. right. apply in_ids. exists x; auto.
  - intros x Hx E. apply Hnot. apply in_or_app. left. apply in_ids. exists x; auto.
Qed.

Lemma firstn_app_len {A} (pre X : list A) : firstn (length pre) (pre ++ X) = pre.
Proof. induction pre; simpl; [destruct X; reflexivity|]. now rewrite IHpre. Qed.

Lemma skipn_app_len {A} (pre X : list A) : skipn (length pre) (pre ++ X) = X.
Proof. induction pre; simpl; auto. Qed.

Lemma nth_error_app_len {A} (pre X : list A) : nth_error (pre ++ X) (length pre) = nth_error X 0.
Proof. induction pre; simpl; auto. Qed.

Lemma sweep_loop_spec : forall fuel pre rest, NoDup (ids (pre ++ rest)) -> length rest <= fuel ->
  exists objs', sweep_loop fuel (pre ++ rest) (length pre) = Ok objs'
    /\ Permutation objs' (pre ++ kept rest).
Proof.
  induction fuel as [|f IH]; intros pre rest ND Hf.
  - destruct rest as [|b r]; [|simpl in Hf; lia]. simpl.
    rewrite nth_error_app_len. simpl. exists (pre ++ []). split; [reflexivity|]. apply Permutation_refl.
  - destruct rest as [|b r].
    { simpl. rewrite nth_error_app_len. simpl. exists (pre ++ []). split; [reflexivity|]. apply Permutation_refl. }
    simpl. rewrite nth_error_app_len. simpl. destruct (mark b) eqn:Mb.
    + rewrite (upd_middle pre b r reset_b ND).
      assert (E : pre ++ reset_b b :: r = (pre ++ [reset_b b]) ++ r) by (rewrite <- app_assoc; reflexivity).
      rewrite E. assert (L : S (length pre) = length (pre ++ [reset_b b])) by (rewrite app_length; simpl; lia).
      rewrite L.
      destruct (IH (pre ++ [reset_b b]) r) as [objs' [E' P']].
      { rewrite <- E. rewrite ids_app in *. simpl in *. exact ND. }
      { simpl in Hf. lia. }
      exists objs'. split; [exact E'|]. unfold kept. simpl. rewrite Mb. simpl.
      rewrite <- app_assoc in P'. exact P'.
    + assert (SR : swap_remove (pre ++ b :: r) (length pre) = pre ++ rot_last r).
      { unfold swap_remove. rewrite firstn_app_len. f_equal. f_equal.
        clear. induction pre; simpl; auto. }
      rewrite SR.
      destruct (IH pre (rot_last r)) as [objs' [E' P']].
      { rewrite ids_app in *. simpl in ND. apply NoDup_remove_1 in ND.
        eapply Permutation_NoDup; [|exact ND]. apply Permutation_app_head.
        unfold ids. apply Permutation_map. apply Permutation_sym. apply rot_last_perm. }
      { rewrite (Permutation_length (rot_last_perm r)). simpl in Hf. lia. }
      exists objs'. split; [exact E'|].
      eapply perm_trans; [exact P'|]. apply Permutation_app_head.
      unfold kept at 2. simpl. rewrite Mb. apply kept_perm. apply rot_last_perm.
Qed.

Lemma NoDup_ids_filter f h : NoDup (ids h) -> NoDup (ids (filter f h)).
Proof.
  induction h as [|b t IH]; simpl; intros ND; [constructor|].
  inversion ND as [|? ? Hn ND']; subst. destruct (f b); simpl; auto.
  constructor; auto. intros H. apply Hn. apply in_ids in H. destruct H as [x [Hx Ex]].
  apply filter_In in Hx. apply in_ids. exists x; tauto.
Qed.

Lemma ids_kept h : ids (kept h) = ids (filter mark h).
Proof. unfold ids, kept. rewrite map_map. apply map_ext. reflexivity. Qed.

(* ------------------------------------------------------------------ §7 *)
Lemma reset_same y y0 : skel y0 = skel y -> visits y0 = 0 -> mark y0 = false -> reset_b y = y0.
Proof.
  intros S V M. destruct (skel_inv _ _ S) as [E1 [E2 [E3 E4]]].
  destruct y0, y; simpl in *; subst. reflexivity.
Qed.

Lemma reachable_in_ids h rs i : reachable h rs i -> In i (ids h).
Proof. intros H; inversion H; auto. Qed.

(* the master statement: a collection succeeds and keeps exactly the boxes
   reachable from the roots, each of them unchanged *)
Theorem gc_spec : forall h, wf h ->
  exists h', gc h = Ok h' /\ NoDup (ids h')
    /\ forall b, In b h' <-> (In b h /\ reachable h (roots h) (bid b)).
Proof.
  intros h [ND W].
  assert (I0 : Inv1 h h 0).
  { constructor.
    - exact ND.
    - lia.
    - intros b Hb. exists b; auto.
    - intros x Hx. eapply reachable_in_ids; eauto.
    - intros b Hb Mb. destruct (W b Hb) as [_ M]. congruence.
    - intros c e d Hc Mc. destruct (W c Hc) as [_ M]. congruence.
    - intros b Hb _. destruct (W b Hb) as [V _]. rewrite V. reflexivity.
    - simpl. intros b []. }
  destruct (count_loop_spec h ND (length h) h 0 0 I0) as [h1 [E1 I1]]; [lia|].
  destruct (mark_loop_spec h (length h1) h1 0 (Inv1_Inv2 h h1 I1)) as [h2 [E2 I2]]; [lia|].
  destruct (sweep_loop_spec (length h2) [] h2) as [h3 [E3 P3]]; [exact (i2_nd _ _ _ I2)|lia|].
  simpl in E3, P3.
  exists h3. split; [|split].
  - unfold gc. rewrite E1. simpl. rewrite E2. simpl. exact E3.
  - eapply Permutation_NoDup.
    + unfold ids. apply Permutation_map. apply Permutation_sym. exact P3.
    + fold (ids (kept h2)). rewrite ids_kept. apply NoDup_ids_filter. exact (i2_nd _ _ _ I2).
  - pose proof I2 as [nd le sb kp sd cl V vw ex].
    intros b. split.
    + intros Hb. apply (Permutation_in _ P3) in Hb. unfold kept in Hb. apply in_map_iff in Hb.
      destruct Hb as [y [Ey Hy]]. apply filter_In in Hy. destruct Hy as [Hy My].
      destruct (sb y Hy) as [y0 [Hy0 Sk]]. destruct (W y0 Hy0) as [V0 M0].
      rewrite (reset_same y y0 Sk V0 M0) in Ey. subst y0. split; [exact Hy0|].
      destruct (skel_inv _ _ Sk) as [E _]. rewrite E. apply sd; auto.
    + intros [Hb Rb]. apply (Permutation_in _ (Permutation_sym P3)).
      pose proof (kp _ Rb) as Hi. apply in_ids in Hi. destruct Hi as [y [Hy Ey]].
      pose proof (Inv2_complete h ND h2 I2 _ Rb y Hy Ey) as My.
      pose proof (sub_unique h ND h2 y b sb Hy Hb (eq_sym Ey)) as Sk.
      destruct (W b Hb) as [V0 M0].
      unfold kept. apply in_map_iff. exists y. split; [apply reset_same; auto|].
      apply filter_In. auto.
Qed.

Theorem gc_no_panic : forall h, wf h -> exists h', gc h = Ok h'.
Proof. intros h H. destruct (gc_spec h H) as [h' [E _]]. eauto. Qed.

Theorem gc_exact : forall h, wf h ->
  exists h', gc h = Ok h' /\ forall i, In i (ids h') <-> reachable h (roots h) i.
Proof.
  intros h H. destruct (gc_spec h H) as [h' [E [_ S]]]. exists h'. split; [exact E|].
  intros i. split.
  - intros Hi. apply in_ids in Hi. destruct Hi as [b [Hb <-]]. apply S in Hb. tauto.
  - intros R. pose proof (reachable_in_ids _ _ _ R) as Hi. apply in_ids in Hi.
    destruct Hi as [b [Hb <-]]. apply in_ids. exists b. split; auto. apply S. auto.
Qed.

Theorem gc_keeps_reachable : forall h h', wf h -> gc h = Ok h' ->
  forall b, In b h -> reachable h (roots h) (bid b) -> In b h'.
Proof.
  intros h h' H E b Hb R. destruct (gc_spec h H) as [h2 [E2 [_ S]]].
  rewrite E in E2. inversion E2; subst. apply S. auto.
Qed.

Theorem gc_resets : forall h h', wf h -> gc h = Ok h' -> wf h'.
Proof.
  intros h h' H E. destruct (gc_spec h H) as [h2 [E2 [ND S]]].
  rewrite E in E2. inversion E2; subst. split; [exact ND|].
  intros b Hb. apply S in Hb. destruct Hb as [Hb _]. destruct H as [_ W]. auto.
Qed.

Lemma roots_iff h i : In i (roots h) <-> exists b, In b h /\ is_root b = true /\ bid b = i.
Proof.
  unfold roots. rewrite in_ids. split.
  - intros [b [Hb E]]. apply filter_In in Hb. exists b. tauto.
  - intros [b [Hb [R E]]]. exists b. split; auto. apply filter_In. auto.
Qed.

Lemma reachable_ext h h2 rs rs2 : (forall b, In b h -> In b h2) -> (forall i, In i rs -> In i rs2) ->
  forall i, reachable h rs i -> reachable h2 rs2 i.
Proof.
  intros Hh Hr i R. induction R as [i Hi Hd|b j Rb IH Hb Hj Hd].
  - apply reach_root; auto. apply in_ids in Hd. destruct Hd as [b [Hb E]]. apply in_ids. exists b; auto.
  - apply (reach_step h2 rs2 b j); auto. apply in_ids in Hd. destruct Hd as [d [Hd' E]].
    apply in_ids. exists d; auto.
Qed.

Lemma reachable_same h h2 : (forall b, In b h <-> In b h2) ->
  forall i, reachable h (roots h) i <-> reachable h2 (roots h2) i.
Proof.
  intros Hh i. split; apply reachable_ext.
  - intros b; apply Hh.
  - intros j Hj. apply roots_iff in Hj. destruct Hj as [b [Hb [R E]]]. apply roots_iff. exists b.
    split; [apply Hh; auto|auto].
  - intros b; apply Hh.
  - intros j Hj. apply roots_iff in Hj. destruct Hj as [b [Hb [R E]]]. apply roots_iff. exists b.
    split; [apply Hh; auto|auto].
Qed.

Lemma wf_perm h h2 : Permutation h h2 -> wf h -> wf h2.
Proof.
  intros P [ND W]. split.
  - eapply Permutation_NoDup; [|exact ND]. unfold ids. now apply Permutation_map.
  - intros b Hb. apply W. eapply Permutation_in; [apply Permutation_sym; exact P|exact Hb].
Qed.

Lemma NoDup_boxes h : NoDup (ids h) -> NoDup h.
Proof. unfold ids. apply NoDup_map_inv. Qed.

(* the survivor set does not depend on the order of the object vector *)
Theorem gc_order_irrelevant : forall h h2 h' h2', wf h -> Permutation h h2 ->
  gc h = Ok h' -> gc h2 = Ok h2' -> Permutation h' h2'.
Proof.
  intros h h2 h' h2' H P E E2.
  pose proof (wf_perm _ _ P H) as H2.
  destruct (gc_spec h H) as [x [Ex [NDx Sx]]]. rewrite E in Ex. inversion Ex; subst x.
  destruct (gc_spec h2 H2) as [y [Ey [NDy Sy]]]. rewrite E2 in Ey. inversion Ey; subst y.
  apply NoDup_Permutation; try (apply NoDup_boxes; assumption).
  assert (Hh : forall b, In b h <-> In b h2).
  { intros b. split; apply Permutation_in; [exact P|apply Permutation_sym; exact P]. }
  intros b. rewrite Sx, Sy. rewrite (Hh b). rewrite (reachable_same h h2 Hh). tauto.
Qed.

Lemma reach_transfer h h' : wf h -> (forall b, In b h' <-> In b h /\ reachable h (roots h) (bid b)) ->
  forall i, reachable h (roots h) i -> reachable h' (roots h') i.
Proof.
  intros H S i R. induction R as [i Hi Hd|b j Rb IH Hb Hj Hd].
  - apply roots_iff in Hi. destruct Hi as [r [Hr [Rr E]]]. subst i.
    assert (R : reachable h (roots h) (bid r)).
    { apply reach_root; auto. apply roots_iff. exists r; auto. }
    assert (Hr' : In r h') by (apply S; auto).
    apply reach_root.
    + apply roots_iff. exists r; auto.
    + apply in_ids. exists r; auto.
  - apply in_ids in Hd. destruct Hd as [d [Hd E]]. subst j.
    assert (Rd : reachable h (roots h) (bid d)).
    { apply (reach_step h (roots h) b (bid d)); auto. apply in_ids. exists d; auto. }
    apply (reach_step h' (roots h') b (bid d)); auto.
    + apply S; auto.
    + apply in_ids. exists d. split; auto. apply S; auto.
Qed.

(* a second collection right after the first keeps everything *)
Theorem gc_idempotent : forall h h', wf h -> gc h = Ok h' ->
  exists h'', gc h' = Ok h'' /\ Permutation h'' h'.
Proof.
  intros h h' H E.
  pose proof (gc_resets h h' H E) as H'.
  destruct (gc_spec h H) as [x [Ex [NDx Sx]]]. rewrite E in Ex. inversion Ex; subst x.
  destruct (gc_spec h' H') as [h'' [E'' [ND'' S'']]].
  exists h''. split; [exact E''|].
  apply NoDup_Permutation; try (apply NoDup_boxes; assumption).
  intros b. rewrite S''. split; [tauto|]. intros Hb. split; [exact Hb|].
  apply (reach_transfer h h' H Sx). apply Sx in Hb. tauto.
Qed.

(* once nothing outside the heap holds a handle or a view, a collection empties the heap *)
Theorem baseline_return : forall h, wf h -> roots h = [] -> gc h = Ok [].
Proof.
  intros h H R0. destruct (gc_spec h H) as [h' [E [_ S]]]. rewrite E. f_equal.
  destruct h' as [|b t]; [reflexivity|]. exfalso.
  destruct (proj1 (S b) (or_introl eq_refl)) as [_ R]. rewrite R0 in R.
  clear -R. induction R as [i Hi _|]; auto.
Qed.

(* with permanent roots P: if every remaining root is permanent, every survivor is
   reachable from P *)
Theorem baseline_return_perm : forall h h' P, wf h -> gc h = Ok h' ->
  (forall i, In i (roots h) -> In i P) ->
  forall i, In i (ids h') -> reachable h P i.
Proof.
  intros h h' P H E HP i Hi.
  destruct (gc_exact h H) as [x [Ex Sx]]. rewrite E in Ex. inversion Ex; subst x.
  apply Sx in Hi. eapply reachable_ext; [| |exact Hi]; auto.
Qed.

(* ------------------------------------------------------------------ decidable wf (for Examples) *)
Fixpoint nodupb (l : list N) : bool :=
  match l with
  | [] => true
  | x :: t => negb (memN x t) && nodupb t
  end.

Lemma nodupb_ok l : nodupb l = true -> NoDup l.
Proof.
  induction l as [|x t IH]; simpl; intros H; [constructor|].
  apply andb_true_iff in H. destruct H as [H1 H2]. constructor; auto.
  intros Hin. apply memN_in in Hin. rewrite Hin in H1. discriminate.
Qed.

Definition wf_check (h : heap) : bool :=
  nodupb (ids h) && forallb (fun b => Nat.eqb (visits b) 0 && negb (mark b)) h.

Lemma wf_check_ok h : wf_check h = true -> wf h.
Proof.
  unfold wf_check. intros H. apply andb_true_iff in H. destruct H as [H1 F].
  split; [now apply nodupb_ok|]. intros b Hb. rewrite forallb_forall in F. specialize (F b Hb).
  apply andb_true_iff in F. destruct F as [F1 F2]. apply Nat.eqb_eq in F1. apply negb_true_iff in F2. auto.
Qed.

(* ------------------------------------------------------------------ histories of the scripted driver *)
Definition exec (s : st) (os : list op) : st := fold_left (fun s o => fst (step s o)) os s.

Definition WS (s : st) : Prop :=
  wf (sheap s) /\ forall i, In i (ids (sheap s)) -> (i < snext s)%N.

Lemma ids_upd i f h : (forall b, bid (f b) = bid b) -> ids (upd i f h) = ids h.
Proof.
  intros Hf. unfold ids, upd. rewrite map_map. apply map_ext. intros b.
  destruct (N.eqb (bid b) i); auto.
Qed.

Lemma wf_upd i f h : (forall b, bid (f b) = bid b) -> (forall b, visits (f b) = visits b) ->
  (forall b, mark (f b) = mark b) -> wf h -> wf (upd i f h).
Proof.
  intros Hb Hv Hm [ND W]. split.
  - now rewrite ids_upd.
  - intros b Hin. unfold upd in Hin. apply in_map_iff in Hin. destruct Hin as [b0 [<- H0]].
    destruct (W b0 H0) as [V M]. destruct (N.eqb (bid b0) i); auto. rewrite Hv, Hm. auto.
Qed.

Lemma WS_upd s i f : (forall b, bid (f b) = bid b) -> (forall b, visits (f b) = visits b) ->
  (forall b, mark (f b) = mark b) -> WS s -> WS (mkst (upd i f (sheap s)) (snext s)).
Proof.
  intros Hb Hv Hm [W B]. split; simpl.
  - now apply wf_upd.
  - rewrite ids_upd by exact Hb. exact B.
Qed.

Lemma NoDup_snoc {A} (l : list A) x : NoDup l -> ~ In x l -> NoDup (l ++ [x]).
Proof.
  intros ND Hn. eapply Permutation_NoDup; [apply Permutation_cons_append|]. constructor; auto.
Qed.

Lemma WS_alloc s ext v : WS s -> WS (mkst (sheap s ++ [mkbox (snext s) [] ext v 0 false]) (N.succ (snext s))).
Proof.
  intros [[ND W] B]. split; simpl.
  - split.
    + rewrite ids_app. simpl. apply NoDup_snoc; auto.
      intros Hin. specialize (B _ Hin). lia.
    + intros b Hb. apply in_app_or in Hb. destruct Hb as [Hb|[<-|[]]]; auto.
  - intros i Hi. rewrite ids_app in Hi. apply in_app_or in Hi. simpl in Hi.
    destruct Hi as [Hi|[<-|[]]]; [specialize (B _ Hi)|]; lia.
Qed.

Lemma step_WS s o : WS s -> WS (fst (step s o)).
Proof.
  intros H. destruct o; simpl.
  - now apply WS_alloc.
  - now apply WS_alloc.
  - destruct (find_box a (sheap s)); [|exact H]. destruct (find_box b (sheap s)); [|exact H].
    destruct (accessible b0 && accessible b1); [|exact H]. simpl. apply WS_upd; auto.
  - destruct (find_box a (sheap s)); [|exact H].
    destruct (accessible b && N.ltb k (N.of_nat (length (edges b)))); [|exact H]. simpl. apply WS_upd; auto.
  - destruct (find_box a (sheap s)); [|exact H]. destruct (ext_weak b); [exact H|]. simpl. apply WS_upd; auto.
  - destruct (find_box a (sheap s)); [|exact H]. destruct (has_view b); [|exact H]. simpl. apply WS_upd; auto.
  - destruct (find_box a (sheap s)); [|exact H].
    destruct (negb (has_view b) && Nat.ltb 0 (ext_weak b)); [|exact H]. simpl. apply WS_upd; auto.
  - destruct (find_box a (sheap s)); [|exact H]. destruct (accessible b); [|exact H]. simpl. apply WS_upd; auto.
  - destruct H as [W B]. destruct (gc_spec _ W) as [h' [E [ND S]]]. rewrite E. simpl. split; simpl.
    + eapply gc_resets; eauto.
    + intros i Hi. apply in_ids in Hi. destruct Hi as [b [Hb <-]]. apply S in Hb. destruct Hb as [Hb _].
      apply B. apply in_ids. exists b; auto.
Qed.

Lemma exec_WS : forall os s, WS s -> WS (exec s os).
Proof.
  induction os as [|o os IH]; intros s H; simpl; auto. apply IH. now apply step_WS.
Qed.

Lemma init_WS : WS init_st.
Proof. split; simpl; [split; [constructor|intros b []]|intros i []]. Qed.

(* along every history of driver operations the heap is well formed, so every collection in
   it meets the hypothesis of gc_spec *)
Theorem history_wf : forall os, wf (sheap (exec init_st os)).
Proof. intros os. exact (proj1 (exec_WS os init_st init_WS)). Qed.

Theorem history_gc_exact : forall os,
  let h := sheap (exec init_st os) in
  exists h', gc h = Ok h' /\ forall i, In i (ids h') <-> reachable h (roots h) i.
Proof. intros os h. apply gc_exact. apply history_wf. Qed.

Lemma run_ops_never_fails_from : forall os s, WS s -> forall site, ~ In (ObsFail site) (run_ops s os).
Proof.
  induction os as [|o os IH]; intros s H site; simpl; [tauto|].
  pose proof (step_WS s o H) as H'.
  destruct (step s o) as [s' ob] eqn:E. simpl in H'. intros [Hf|Hf].
  - destruct H as [W _]. destruct (gc_spec _ W) as [h' [Eg _]].
    destruct o; simpl in E;
      repeat match type of E with
             | context [match ?x with _ => _ end] => destruct x; try discriminate
             end; inversion E; subst; discriminate.
  - exact (IH s' H' site Hf).
Qed.

(* the model driver never reports a collector failure (debug_assert / fuel) on any script *)
Theorem run_ops_never_fails : forall os site, ~ In (ObsFail site) (run_ops init_st os).
Proof. intros os. apply run_ops_never_fails_from. exact init_WS. Qed.
