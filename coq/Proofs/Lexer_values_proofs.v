(* Proofs/Lexer_values_proofs.v — literal values of text blocks and numbers. *)
From RJ Require Import Base.Outcome Model.Token Model.Utf8 Model.Lexer Proofs.Utf8_proofs Proofs.Lexer_proofs.
From Coq Require Import Lia.
Local Open Scope N_scope.
Local Open Scope outcome_scope.

(* ================================================================== *)
(* Text blocks, stage A: the byte scanner is a code-point scanner      *)
(* applied to the lossy decoding of the input                          *)

Notation tbres := (outcome (list N * list N) lex_error_kind).

Fixpoint span_while (p : N -> bool) (l : list N) : list N * list N :=
  match l with
  | [] => ([], [])
  | x :: r => if p x then let '(a, b) := span_while p r in (x :: a, b) else ([], l)
  end.

Fixpoint cp_blank_lines (cps : list N) : list N * list N :=
  match cps with
  | [] => ([], [])
  | c :: r =>
      if c =? 10 then let '(s, t) := cp_blank_lines r in (10 :: s, t)
      else if c =? 13 then
        match r with
        | c2 :: r2 => if c2 =? 10 then let '(s, t) := cp_blank_lines r2 in (13 :: 10 :: s, t)
                      else ([], cps)
        | [] => ([], cps)
        end
      else ([], cps)
  end.

Fixpoint cp_first_loop (fuel : nat) (cps : list N) : outcome (list N * list N * list N) lex_error_kind :=
  match fuel with
  | O => OutOfFuel
  | S f =>
      let '(prefix, r1) := span_while is_blank cps in
      let '(cr, r2) := match r1 with
                       | c :: r2 => if c =? 13 then ([13], r2) else ([], r1)
                       | [] => ([], r1)
                       end in
      match prefix with
      | [] =>
          match r2 with
          | c :: r3 =>
              if c =? 10 then
                do t <- cp_first_loop f r3;
                let '(s, p, r) := t in Ok (cr ++ 10 :: s, p, r)
              else Err EMissingWhitespaceTextBlockStart
          | [] => Err EMissingWhitespaceTextBlockStart
          end
      | _ => Ok (cr, prefix, r2)
      end
  end.

Fixpoint cp_body (fuel : nat) (prefix : list N) (cps : list N) : tbres :=
  match fuel with
  | O => OutOfFuel
  | S f =>
      match cps with
      | [] => Err EUnfinishedString
      | c :: r1 =>
          if c =? 10 then
            let '(blank, r2) := cp_blank_lines r1 in
            match strip_prefix prefix r2 with
            | Some r3 => do t <- cp_body f prefix r3; let '(s, u) := t in Ok (10 :: blank ++ s, u)
            | None =>
                match strip_prefix [124; 124; 124] (snd (span_while is_blank r2)) with
                | Some r4 => Ok (10 :: blank, r4)
                | None => Err EInvalidTextBlockTermination
                end
            end
          else do t <- cp_body f prefix r1; let '(s, u) := t in Ok (c :: s, u)
      end
  end.

Definition drop_last_lf (s : list N) : list N :=
  match rev s with
  | c :: r => if c =? 10 then rev r else s
  | [] => s
  end.

Definition cp_text_block (cps : list N) : tbres :=
  let '(strip, r1) := match cps with
                      | c :: r => if c =? 45 then (true, r) else (false, cps)
                      | [] => (false, cps)
                      end in
  match snd (span_while is_blank_cr r1) with
  | c :: r3 =>
      if c =? 10 then
        do t <- cp_first_loop (S (length r3)) r3;
        let '(s1, p, r4) := t in
        do u <- cp_body (S (length r4)) p r4;
        let '(s2, r5) := u in
        Ok (if strip then drop_last_lf (s1 ++ s2) else s1 ++ s2, r5)
      else Err EMissingLineBreakAfterTextBlockStart
  | [] => Err EMissingLineBreakAfterTextBlockStart
  end.

(* ---- byte-level helpers seen through lossy ---- *)
Definition ascii_class (p : N -> bool) : Prop :=
  (forall b, p b = true -> b < 128) /\ (forall cp, 128 <= cp -> p cp = false).

Lemma blank_class : ascii_class is_blank.
Proof.
  split; unfold is_blank; intros x H.
  - apply orb_true_iff in H as [H|H]; apply N.eqb_eq in H; lia.
  - apply orb_false_iff. split; apply N.eqb_neq; lia.
Qed.

Lemma blank_cr_class : ascii_class is_blank_cr.
Proof.
  split; unfold is_blank_cr; intros x H.
  - rewrite !orb_true_iff, !N.eqb_eq in H. lia.
  - rewrite !orb_false_iff, !N.eqb_neq. lia.
Qed.

Lemma lossy_nil : lossy [] = [].
Proof. reflexivity. Qed.

Lemma lossy_head_class p x r : ascii_class p -> bytes_ok (x :: r) -> p x = false ->
  exists cp t, lossy (x :: r) = cp :: t /\ p cp = false.
Proof.
  intros [C1 C2] B Hx. inversion B as [|? ? Hb Hr]; subst.
  destruct (lossy_head x r Hb Hr) as [k [oc [_ [_ [L [A NA]]]]]].
  exists (or_replacement oc), (lossy (skipn k r)). split; [exact L|].
  destruct (N.lt_ge_cases x 128) as [Lt|Ge].
  - destruct (A Lt) as [-> _]. exact Hx.
  - apply C2, NA, Ge.
Qed.

Lemma eat_while_from_lossy p : ascii_class p -> forall r ps, bytes_ok r ->
  exists l, r = l ++ rest (eat_while_from p ps r) /\
            span_while p (lossy r) = (l, lossy (rest (eat_while_from p ps r))) /\
            bytes_ok (rest (eat_while_from p ps r)) /\ Forall (fun b => p b = true) l.
Proof.
  intros C. induction r as [|b r IH]; intros ps B; cbn [eat_while_from].
  - exists []. cbn. repeat split; constructor.
  - destruct (p b) eqn:Hp.
    + pose proof (bytes_ok_tail _ _ B) as Br. destruct (IH (ps + 1) Br) as [l [E [S [B' F]]]].
      exists (b :: l). split; [cbn; f_equal; exact E|]. split; [|split; [exact B'|constructor; assumption]].
      rewrite (lossy_ascii b r (proj1 C b Hp) Br). cbn [span_while]. rewrite Hp, S. reflexivity.
    + exists []. cbn [app rest]. split; [reflexivity|]. split; [|split; [exact B|constructor]].
      destruct (lossy_head_class p b r C B Hp) as [cp [t [-> Hc]]]. cbn [span_while]. rewrite Hc. reflexivity.
Qed.

Lemma eat_while_lossy p c : ascii_class p -> bytes_ok (rest c) ->
  exists l, rest c = l ++ rest (eat_while p c) /\
            span_while p (lossy (rest c)) = (l, lossy (rest (eat_while p c))) /\
            bytes_ok (rest (eat_while p c)) /\ Forall (fun b => p b = true) l.
Proof. intros C B. destruct c as [ps r]. apply eat_while_from_lossy; assumption. Qed.

Lemma strip_prefix_lossy s : Forall (fun b => b < 128) s -> forall r, bytes_ok r ->
  strip_prefix s (lossy r) = match strip_prefix s r with Some r' => Some (lossy r') | None => None end /\
  (forall r', strip_prefix s r = Some r' -> bytes_ok r').
Proof.
  induction 1 as [|x s Hx Hs IH]; intros r B; cbn [strip_prefix].
  - split; [reflexivity|]. intros r' E. inversion E; subst. exact B.
  - destruct r as [|y r]; [rewrite lossy_nil; split; [reflexivity|discriminate]|].
    pose proof (bytes_ok_tail _ _ B) as Br.
    destruct (N.eqb_spec x y) as [->|Ne].
    + rewrite (lossy_ascii y r Hx Br), N.eqb_refl. apply IH, Br.
    + split; [|discriminate].
      destruct (lossy_head_neq y r x B Hx ltac:(congruence)) as [cp [t [-> Hc]]].
      destruct (N.eqb_spec x cp); [congruence|reflexivity].
Qed.

Lemma eat_byte_lossy b c : b < 128 -> bytes_ok (rest c) ->
  match eat_byte b c with
  | Some c1 => lossy (rest c) = b :: lossy (rest c1) /\ bytes_ok (rest c1)
  | None => match lossy (rest c) with cp :: _ => cp <> b | [] => rest c = [] end
  end.
Proof.
  intros Hb B. destruct (eat_byte b c) as [c1|] eqn:E.
  - pose proof (eat_byte_inv _ _ _ E) as R. rewrite R in B |- *. pose proof (bytes_ok_tail _ _ B) as B1.
    split; [apply lossy_ascii; assumption|exact B1].
  - destruct (eat_byte_none _ _ E) as [R|[x [r [R Hx]]]]; rewrite R; [reflexivity|].
    rewrite R in B. destruct (lossy_head_neq x r b B Hb Hx) as [cp [t [-> Hc]]]. exact Hc.
Qed.

(* tb_blank_lines in test form (the model matches on numerals) *)
Ltac case_N b :=
  destruct b as [|b]; [try reflexivity|];
  destruct b as [b|b|]; try reflexivity;
  destruct b as [b|b|]; try reflexivity;
  destruct b as [b|b|]; try reflexivity;
  destruct b as [b|b|]; try reflexivity.

Lemma tb_blank_lines_eq ps r :
  tb_blank_lines ps r =
  match r with
  | [] => ([], {| pos := ps; rest := r |})
  | b :: r' =>
      if b =? 10 then let '(s, c) := tb_blank_lines (ps + 1) r' in (10 :: s, c)
      else if b =? 13 then
        match r' with
        | b' :: r'' => if b' =? 10 then let '(s, c) := tb_blank_lines (ps + 2) r'' in (13 :: 10 :: s, c)
                       else ([], {| pos := ps; rest := r |})
        | [] => ([], {| pos := ps; rest := r |})
        end
      else ([], {| pos := ps; rest := r |})
  end.
Proof.
  destruct r as [|b r']; [reflexivity|].
  case_N b.
  destruct r' as [|b' r'']; [reflexivity|]. case_N b'.
Qed.

Lemma tb_blank_lines_lossy : forall r ps, bytes_ok r ->
  cp_blank_lines (lossy r) = (fst (tb_blank_lines ps r), lossy (rest (snd (tb_blank_lines ps r)))) /\
  bytes_ok (rest (snd (tb_blank_lines ps r))).
Proof.
  fix IH 1. intros r ps B. rewrite tb_blank_lines_eq. destruct r as [|b r'].
  - cbn. split; [reflexivity|constructor].
  - pose proof (bytes_ok_tail _ _ B) as B'.
    destruct (N.eqb_spec b 10) as [->|N10].
    + rewrite (lossy_ascii 10 r' ltac:(lia) B'). cbn [cp_blank_lines]. rewrite N.eqb_refl.
      destruct (IH r' (ps + 1) B') as [E1 E2].
      destruct (tb_blank_lines (ps + 1) r') as [s c]. cbn [fst snd] in *. rewrite E1. split; [reflexivity|exact E2].
    + destruct (N.eqb_spec b 13) as [->|N13].
      * rewrite (lossy_ascii 13 r' ltac:(lia) B'). cbn [cp_blank_lines]. change (13 =? 10) with false. cbn iota.
        rewrite N.eqb_refl.
        destruct r' as [|b' r'']; [rewrite lossy_nil; cbn; split; [reflexivity|exact B]|].
        pose proof (bytes_ok_tail _ _ B') as B''.
        destruct (N.eqb_spec b' 10) as [->|N10'].
        -- rewrite (lossy_ascii 10 r'' ltac:(lia) B''). rewrite N.eqb_refl.
           destruct (IH r'' (ps + 2) B'') as [E1 E2].
           destruct (tb_blank_lines (ps + 2) r'') as [s c]. cbn [fst snd] in *. rewrite E1. split; [reflexivity|exact E2].
        -- destruct (lossy_head_neq b' r'' 10 B' ltac:(lia) N10') as [cp [t [E Hc]]]. rewrite E.
           destruct (N.eqb_spec cp 10); [congruence|]. cbn [fst snd rest]. rewrite <- E.
           rewrite (lossy_ascii 13 (b' :: r'') ltac:(lia) B'). split; [reflexivity|exact B].
      * cbn [fst snd rest].
        assert (exists cp t, lossy (b :: r') = cp :: t /\ cp <> 10 /\ cp <> 13) as [cp [t [E [H1 H2]]]].
        { inversion B as [|? ? Hb Hr]; subst.
          destruct (lossy_head b r' Hb Hr) as [k [oc [_ [_ [L [A NA]]]]]].
          exists (or_replacement oc), (lossy (skipn k r')). split; [exact L|].
          destruct (N.lt_ge_cases b 128) as [Lt|Ge]; [destruct (A Lt) as [-> _]; cbn; split; assumption|].
          specialize (NA Ge). lia. }
        rewrite E. cbn [cp_blank_lines].
        destruct (N.eqb_spec cp 10); [congruence|]. destruct (N.eqb_spec cp 13); [congruence|].
        split; [reflexivity|exact B].
Qed.

Lemma fail_inv {A} len k s e (x : res A) : fail len k s e = x ->
  match x with Ok _ => False | Err er => err_kind er = k | _ => True end.
Proof.
  unfold fail, make_span. destruct (negb (s <=? e)); [intros <-; exact I|].
  destruct (len <? s); [intros <-; exact I|]. destruct (len <? e); intros <-; [exact I|reflexivity].
Qed.

Definition tb_rel {A B} (conv : A -> B -> Prop) (r : res A) (q : outcome B lex_error_kind) : Prop :=
  match r with
  | Ok a => exists b, q = Ok b /\ conv a b
  | Err e => q = Err (err_kind e)
  | _ => True
  end.

Lemma tb_rel_fail {A B} (conv : A -> B -> Prop) len k s e : tb_rel conv (fail len k s e) (Err k).
Proof.
  pose proof (fail_inv (A := A) len k s e _ eq_refl) as H. unfold tb_rel.
  destruct (fail len k s e); auto; [contradiction|congruence].
Qed.

Lemma span_while_snd_len p : forall l, (length (snd (span_while p l)) <= length l)%nat.
Proof.
  induction l as [|x r IH]; cbn [span_while]; [cbn; lia|].
  destruct (p x); [destruct (span_while p r); cbn [snd length] in *; lia|cbn; lia].
Qed.

Lemma first_loop_value len : forall fuel c fs, bytes_ok (rest c) -> (length (lossy (rest c)) < fs)%nat ->
  tb_rel (fun (a : list N * list N * cur) (b : list N * list N * list N) =>
            let '(s, p, c') := a in b = (s, p, lossy (rest c')) /\ bytes_ok (rest c') /\
                                    Forall (fun x => is_blank x = true) p)
         (tb_first_loop len fuel c) (cp_first_loop fs (lossy (rest c))).
Proof.
  induction fuel as [|f IH]; intros c fs B FS; [exact I|]. destruct fs as [|fs]; [lia|].
  cbn [tb_first_loop cp_first_loop].
  destruct (eat_while_lossy is_blank c blank_class B) as [l [E [S [B1 F]]]].
  destruct (eat_while_ext is_blank c) as [l' [_ X]]. rewrite (bytes_between_ext l' _ _ X).
  assert (l' = l).
  { destruct X as [X _]. rewrite X in E. apply app_inv_tail in E. exact E. }
  subst l'. clear X. rewrite S. set (c1 := eat_while is_blank c) in *.
  pose proof (eat_byte_lossy 13 c1 ltac:(lia) B1) as CR.
  assert (L1 : (length (lossy (rest c1)) <= length (lossy (rest c)))%nat).
  { pose proof (span_while_snd_len is_blank (lossy (rest c))) as Q. rewrite S in Q. exact Q. }
  destruct (eat_byte 13 c1) as [c2|] eqn:E13.
  - destruct CR as [LC B2]. rewrite LC. rewrite N.eqb_refl.
    destruct l as [|x l].
    + pose proof (eat_byte_lossy 10 c2 ltac:(lia) B2) as LF.
      destruct (eat_byte 10 c2) as [c3|] eqn:E10.
      * destruct LF as [L3 B3]. rewrite L3, N.eqb_refl.
        assert (FS3 : (length (lossy (rest c3)) < fs)%nat) by (rewrite LC, L3 in L1; cbn [length] in L1; lia).
        specialize (IH c3 fs B3 FS3). unfold tb_rel in *.
        destruct (tb_first_loop len f c3) as [[[s p] c4]|e| |]; cbn [obind]; auto.
        -- destruct IH as [b [-> [-> [B4 F4]]]]. cbn [obind]. eexists. split; [reflexivity|]. repeat split; assumption.
        -- rewrite IH. reflexivity.
      * destruct (lossy (rest c2)) as [|cp t] eqn:L2.
        -- apply tb_rel_fail.
        -- destruct (N.eqb_spec cp 10); [congruence|]. apply tb_rel_fail.
    + cbn [tb_rel]. eexists. split; [reflexivity|]. repeat split; assumption.
  - assert (CRn : (match lossy (rest c1) with c0 :: r2 => if c0 =? 13 then ([13], r2) else ([], lossy (rest c1)) | [] => ([], lossy (rest c1)) end) = (@nil N, lossy (rest c1))).
    { destruct (lossy (rest c1)) as [|cp t]; [reflexivity|]. destruct (N.eqb_spec cp 13); [congruence|reflexivity]. }
    rewrite CRn. clear CRn.
    destruct l as [|x l].
    + pose proof (eat_byte_lossy 10 c1 ltac:(lia) B1) as LF.
      destruct (eat_byte 10 c1) as [c3|] eqn:E10.
      * destruct LF as [L3 B3]. rewrite L3, N.eqb_refl.
        assert (FS3 : (length (lossy (rest c3)) < fs)%nat) by (rewrite L3 in L1; cbn [length] in L1; lia).
        specialize (IH c3 fs B3 FS3). unfold tb_rel in *.
        destruct (tb_first_loop len f c3) as [[[s p] c4]|e| |]; cbn [obind]; auto.
        -- destruct IH as [b [-> [-> [B4 F4]]]]. cbn [obind app]. eexists. split; [reflexivity|]. repeat split; assumption.
        -- rewrite IH. reflexivity.
      * destruct (lossy (rest c1)) as [|cp t] eqn:L2.
        -- apply tb_rel_fail.
        -- destruct (N.eqb_spec cp 10); [congruence|]. apply tb_rel_fail.
    + cbn [tb_rel]. eexists. split; [reflexivity|]. repeat split; assumption.
Qed.

Lemma blank_ascii_prefix p : Forall (fun x => is_blank x = true) p -> Forall (fun b => b < 128) p.
Proof. intros H. eapply Forall_impl; [|exact H]. intros a Ha. apply (proj1 blank_class a Ha). Qed.

Lemma body_value len start prefix : Forall (fun x => is_blank x = true) prefix ->
  forall fuel c fs, bytes_ok (rest c) -> (length (lossy (rest c)) < fs)%nat ->
  tb_rel (fun (a : list N * cur) (b : list N * list N) =>
            b = (fst a, lossy (rest (snd a))) /\ bytes_ok (rest (snd a)))
         (tb_body_loop len fuel start prefix c) (cp_body fs prefix (lossy (rest c))).
Proof.
  intros HP. induction fuel as [|f IH]; intros c fs B FS; [exact I|]. destruct fs as [|fs]; [lia|].
  cbn [tb_body_loop cp_body].
  pose proof (eat_byte_lossy 10 c ltac:(lia) B) as LF.
  destruct (eat_byte 10 c) as [c1|] eqn:E10.
  - destruct LF as [L1 B1]. rewrite L1, N.eqb_refl.
    destruct (tb_blank_lines_lossy (rest c1) (pos c1) B1) as [BL B2].
    destruct (tb_blank_lines (pos c1) (rest c1)) as [blank c2]. cbn [fst snd] in BL, B2. rewrite BL.
    assert (L2 : (length (lossy (rest c2)) <= length (lossy (rest c1)))%nat).
    { clear - BL. revert blank BL. generalize (lossy (rest c2)) as t. generalize (lossy (rest c1)) as l.
      fix G 1. intros l t blank H. destruct l as [|x l]; cbn [cp_blank_lines] in H; [inversion H; cbn; lia|].
      destruct (x =? 10).
      - destruct (cp_blank_lines l) as [s u] eqn:E. inversion H; subst. specialize (G l t s E). cbn. lia.
      - destruct (x =? 13); [|inversion H; subst; lia].
        destruct l as [|y l]; [inversion H; subst; lia|].
        destruct (y =? 10); [|inversion H; subst; lia].
        destruct (cp_blank_lines l) as [s u] eqn:E. inversion H; subst. specialize (G l t s E). cbn. lia. }
    destruct (strip_prefix_lossy prefix (blank_ascii_prefix _ HP) (rest c2) B2) as [SP SPB]. rewrite SP.
    unfold eat_slice at 1.
    destruct (strip_prefix prefix (rest c2)) as [r3|] eqn:PF.
    + specialize (SPB r3 eq_refl).
      assert (FS3 : (length (lossy r3) < fs)%nat).
      { rewrite L1 in FS. cbn [length] in FS.
        assert ((length (lossy r3) <= length (lossy (rest c2)))%nat); [|lia].
        clear - SP HP. revert SP. generalize (lossy (rest c2)) as l. generalize (lossy r3) as t.
        induction prefix as [|x p IHp]; intros t l H; cbn [strip_prefix] in H; [inversion H; lia|].
        destruct l as [|y l]; [discriminate|]. destruct (x =? y); [|discriminate].
        inversion HP; subst. specialize (IHp H3 t l H). cbn. lia. }
      specialize (IH {| pos := pos c2 + N.of_nat (length prefix); rest := r3 |} fs SPB FS3). cbn [rest] in IH.
      unfold tb_rel in *.
      destruct (tb_body_loop len f start prefix _) as [[s c4]|e| |]; cbn [obind]; auto.
      * destruct IH as [b [-> [-> B4]]]. cbn [obind fst snd]. eexists. split; [reflexivity|]. split; [reflexivity|exact B4].
      * rewrite IH. reflexivity.
    + destruct (eat_while_lossy is_blank c2 blank_class B2) as [l [E [S [B3 F]]]]. rewrite S. cbn [snd].
      set (c3 := eat_while is_blank c2) in *.
      destruct (strip_prefix_lossy [124; 124; 124] ltac:(repeat constructor; lia) (rest c3) B3) as [ST STB].
      rewrite ST. unfold eat_slice.
      destruct (strip_prefix [124; 124; 124] (rest c3)) as [r4|] eqn:T.
      * cbn [tb_rel]. eexists. split; [reflexivity|]. cbn [fst snd rest]. split; [reflexivity|apply STB; reflexivity].
      * apply tb_rel_fail.
  - pose proof (good_eat_any_char len c B) as GE.
    destruct (eat_any_char c) as [[[c1 oc]|]|e| |] eqn:EA; cbn [good] in GE; try contradiction; cbn [obind].
    + destruct (eat_any_char_inv _ _ _ B EA) as [b0 [r [R [L [B1 [A NA]]]]]].
      rewrite L. 
      assert (Hne : or_replacement oc <> 10).
      { rewrite L in LF. exact LF. }
      destruct (N.eqb_spec (or_replacement oc) 10); [congruence|].
      assert (FS1 : (length (lossy (rest c1)) < fs)%nat) by (rewrite L in FS; cbn [length] in FS; lia).
      specialize (IH c1 fs B1 FS1). unfold tb_rel in *.
      destruct (tb_body_loop len f start prefix c1) as [[s c4]|e| |]; cbn [obind]; auto.
      * destruct IH as [b [-> [-> B4]]]. cbn [obind fst snd]. eexists. split; [reflexivity|]. split; [reflexivity|exact B4].
      * rewrite IH. reflexivity.
    + rewrite GE, lossy_nil. apply tb_rel_fail.
    + (* eat_any_char never fails with a lexical error *)
      exfalso. unfold eat_any_char in EA. destruct (eat_any_byte c) as [[b0 c1]|]; [|discriminate].
      unfold eat_cont_any_char in EA. destruct (decode_cont_char b0 (rest c1)) as [[k o]|x| |] eqn:D; cbn [obind] in EA; try discriminate.
      unfold decode_cont_char in D.
      repeat match type of D with
      | (if ?c then _ else _) = _ => destruct c
      | obind (from_u32_unwrap ?x) _ = _ => unfold from_u32_unwrap in D; destruct (is_scalar x); cbn [obind] in D
      end; discriminate.
Qed.

Lemma strip_last_lf_eq s :
  strip_last_lf s = match rev s with
                    | x :: r => if x =? 10 then Ok (rev r) else Panic "lexer/mod.rs:lex_text_block:strip_suffix('\n').unwrap()"
                    | [] => Panic "lexer/mod.rs:lex_text_block:strip_suffix('\n').unwrap()"
                    end.
Proof. unfold strip_last_lf. destruct (rev s) as [|x r]; [reflexivity|]. case_N x. Qed.

Lemma strip_last_lf_drop s s' : strip_last_lf s = Ok s' -> drop_last_lf s = s'.
Proof.
  rewrite strip_last_lf_eq. unfold drop_last_lf. destruct (rev s) as [|x r]; [discriminate|].
  destruct (x =? 10); [intros H; inversion H; reflexivity|discriminate].
Qed.

Theorem text_block_cp len start c : bytes_ok (rest c) ->
  match lex_text_block len start c with
  | Ok (t, c') => exists s, tok_kind t = TTextBlock s /\
                            cp_text_block (lossy (rest c)) = Ok (s, lossy (rest c')) /\ bytes_ok (rest c')
  | Err e => cp_text_block (lossy (rest c)) = Err (err_kind e)
  | _ => True
  end.
Proof.
  intros B. unfold lex_text_block, cp_text_block.
  pose proof (eat_byte_lossy 45 c ltac:(lia) B) as DS.
  (* the optional dash *)
  assert (exists strip c1, (match eat_byte 45 c with Some c1 => (true, c1) | None => (false, c) end) = (strip, c1) /\
            (match lossy (rest c) with c0 :: r => if c0 =? 45 then (true, r) else (false, lossy (rest c)) | [] => (false, lossy (rest c)) end)
            = (strip, lossy (rest c1)) /\ bytes_ok (rest c1)) as [strip [c1 [E1 [E2 B1]]]].
  { destruct (eat_byte 45 c) as [c1|].
    - destruct DS as [L B1]. exists true, c1. rewrite L, N.eqb_refl. repeat split; assumption.
    - exists false, c. split; [reflexivity|]. split; [|exact B].
      destruct (lossy (rest c)) as [|cp t]; [reflexivity|]. destruct (N.eqb_spec cp 45); [congruence|reflexivity]. }
  rewrite E1, E2. clear E1 E2 DS.
  destruct (eat_while_lossy is_blank_cr c1 blank_cr_class B1) as [l [_ [SPN [B2 _]]]]. rewrite SPN. cbn [snd].
  set (c2 := eat_while is_blank_cr c1) in *.
  pose proof (eat_byte_lossy 10 c2 ltac:(lia) B2) as LF.
  destruct (eat_byte 10 c2) as [c3|] eqn:E10.
  2:{ pose proof (fail_inv (A := token * cur) len EMissingLineBreakAfterTextBlockStart start (pos c2) _ eq_refl) as FI.
      destruct (fail len EMissingLineBreakAfterTextBlockStart start (pos c2)) as [x|e| |]; auto; [contradiction|].
      rewrite FI. destruct (lossy (rest c2)) as [|cp t]; [reflexivity|].
      destruct (N.eqb_spec cp 10); [congruence|reflexivity]. }
  destruct LF as [L3 B3]. rewrite L3, N.eqb_refl.
  pose proof (first_loop_value len (S (length (rest c3))) c3 (S (length (lossy (rest c3)))) B3 ltac:(lia)) as FL.
  unfold tb_rel in FL.
  destruct (tb_first_loop len (S (length (rest c3))) c3) as [[[s1 p] c4]|e| |]; cbn [obind]; auto.
  2:{ rewrite FL. reflexivity. }
  destruct FL as [b [-> [-> [B4 FP]]]]. cbn [obind].
  pose proof (body_value len start p FP (S (length (rest c4))) c4 (S (length (lossy (rest c4)))) B4 ltac:(lia)) as BV.
  unfold tb_rel in BV.
  destruct (tb_body_loop len (S (length (rest c4))) start p c4) as [[s2 c5]|e| |]; cbn [obind]; auto.
  2:{ rewrite BV. reflexivity. }
  destruct BV as [b [-> [-> B5]]]. cbn [obind fst snd] in *.
  destruct strip.
  - destruct (strip_last_lf (s1 ++ s2)) as [actual|e| |] eqn:SL; cbn [obind]; auto.
    + unfold commit. destruct (make_span len start (pos c5)) as [sp|e| |] eqn:MS; cbn [obind]; auto.
      * eexists. split; [reflexivity|]. rewrite (strip_last_lf_drop _ _ SL). split; [reflexivity|exact B5].
      * exfalso. unfold make_span in MS. repeat match type of MS with (if ?c then _ else _) = _ => destruct c end; discriminate.
    + exfalso. rewrite strip_last_lf_eq in SL. destruct (rev (s1 ++ s2)) as [|x r]; [discriminate|].
      destruct (x =? 10); discriminate.
  - cbn [obind]. unfold commit. destruct (make_span len start (pos c5)) as [sp|e| |] eqn:MS; cbn [obind]; auto.
    + eexists. split; [reflexivity|]. split; [reflexivity|exact B5].
    + exfalso. unfold make_span in MS. repeat match type of MS with (if ?c then _ else _) = _ => destruct c end; discriminate.
Qed.

(* ================================================================== *)
(* Text blocks, stage B: the line-based transcription of the grammar   *)

Fixpoint split_lines (cps : list N) : list N * list (list N) :=
  match cps with
  | [] => ([], [])
  | c :: r => let '(l, ls) := split_lines r in if c =? 10 then ([], l :: ls) else (c :: l, ls)
  end.

(* first line, then the lines that each follow a newline *)
Definition join_lines (l : list N) (ls : list (list N)) : list N :=
  l ++ flat_map (fun x => 10 :: x) ls.

Definition no_nl (l : list N) : Prop := Forall (fun c => c <> 10) l.

Lemma join_split cps :
  join_lines (fst (split_lines cps)) (snd (split_lines cps)) = cps /\
  no_nl (fst (split_lines cps)) /\ Forall no_nl (snd (split_lines cps)).
Proof.
  induction cps as [|c r IH]; cbn [split_lines]; [cbn; repeat split; constructor|].
  destruct (split_lines r) as [l ls]. cbn [fst snd] in *. destruct IH as [J [N1 N2]].
  destruct (N.eqb_spec c 10) as [->|Ne]; cbn [fst snd].
  - unfold join_lines in *. cbn [app flat_map]. rewrite J. repeat split; constructor; assumption.
  - unfold join_lines in *. cbn [app]. rewrite J. repeat split; try assumption. constructor; assumption.
Qed.

(* a line that is empty up to a carriage return *)
Definition is_blank_line (l : list N) : bool :=
  match l with
  | [] => true
  | [c] => c =? 13
  | _ => false
  end.

Definition cons_str (pre : list N) (r : tbres) : tbres :=
  do t <- r; let '(s, u) := t in Ok (pre ++ s, u).

(* the terminator line: optional blanks, three pipes; the rest of the line and
   the following lines remain to be lexed *)
Definition tbl_terminator (l : list N) (more : list (list N)) : tbres :=
  match strip_prefix [124; 124; 124] (snd (span_while is_blank l)) with
  | Some tail => Ok ([], join_lines tail more)
  | None => Err EInvalidTextBlockTermination
  end.

(* at the start of line [l] (followed by the lines [more]), indentation [prefix]:
   - a blank line ("" or CR) that is followed by a newline contributes itself and the newline;
   - a line starting with the prefix contributes the rest of the line and its newline
     (unfinished if the input ends inside it);
   - any other line must be the terminator *)
Fixpoint tbl_at_line (prefix l : list N) (more : list (list N)) : tbres :=
  match more with
  | [] =>
      match strip_prefix prefix l with
      | Some _ => Err EUnfinishedString
      | None => tbl_terminator l []
      end
  | l2 :: more2 =>
      if is_blank_line l then cons_str (l ++ [10]) (tbl_at_line prefix l2 more2)
      else
        match strip_prefix prefix l with
        | Some content => cons_str (content ++ [10]) (tbl_at_line prefix l2 more2)
        | None => tbl_terminator l more
        end
  end.

(* looking for the first non-blank line: its leading blanks are the prefix *)
Fixpoint tbl_leading (l : list N) (more : list (list N)) : tbres :=
  let '(p, content) := span_while is_blank l in
  match p with
  | [] =>
      match more with
      | l2 :: more2 =>
          if is_blank_line l then cons_str (l ++ [10]) (tbl_leading l2 more2)
          else Err EMissingWhitespaceTextBlockStart
      | [] => Err EMissingWhitespaceTextBlockStart
      end
  | _ =>
      match more with
      | [] => Err EUnfinishedString
      | l2 :: more2 => cons_str (content ++ [10]) (tbl_at_line p l2 more2)
      end
  end.

(* the whole text block, [cps] = what follows the three opening pipes *)
Definition textblock_lines (l0 : list N) (more : list (list N)) : tbres :=
  let '(strip, h) := match l0 with
                     | c :: h => if c =? 45 then (true, h) else (false, l0)
                     | [] => (false, l0)
                     end in
  if forallb is_blank_cr h then
    match more with
    | [] => Err EMissingLineBreakAfterTextBlockStart
    | l1 :: more1 =>
        do t <- tbl_leading l1 more1;
        let '(s, u) := t in Ok (if strip then drop_last_lf s else s, u)
    end
  else Err EMissingLineBreakAfterTextBlockStart.

Definition textblock_spec (cps : list N) : tbres :=
  textblock_lines (fst (split_lines cps)) (snd (split_lines cps)).

(* ---- list lemmas ---- *)
Definition stops (p : N -> bool) (R : list N) : Prop :=
  R = [] \/ exists x r, R = x :: r /\ p x = false.

Lemma span_while_app p l R : stops p R ->
  span_while p (l ++ R) = (fst (span_while p l), snd (span_while p l) ++ R).
Proof.
  intros HR. induction l as [|x l IH]; cbn [app span_while].
  - destruct HR as [->|[x [r [-> Hx]]]]; cbn [span_while]; [reflexivity|]. rewrite Hx. reflexivity.
  - destruct (p x); [|reflexivity]. rewrite IH. destruct (span_while p l). reflexivity.
Qed.

Lemma strip_prefix_app_line s l R : Forall (fun c => c <> 10) s -> (R = [] \/ exists r, R = 10 :: r) ->
  strip_prefix s (l ++ R) = match strip_prefix s l with Some t => Some (t ++ R) | None => None end.
Proof.
  intros Hs HR. revert l. induction Hs as [|x s Hx Hs IH]; intros l; cbn [strip_prefix]; [reflexivity|].
  destruct l as [|y l]; cbn [app].
  - destruct HR as [->|[r ->]]; [reflexivity|]. destruct (N.eqb_spec x 10); [congruence|reflexivity].
  - destruct (x =? y); [apply IH|reflexivity].
Qed.

Lemma nl_stops_blank R : (R = [] \/ exists r, R = 10 :: r) -> stops is_blank R.
Proof. intros [->|[r ->]]; [left; reflexivity|right; exists 10, r; split; reflexivity]. Qed.

Lemma nl_stops_blank_cr R : (R = [] \/ exists r, R = 10 :: r) -> stops is_blank_cr R.
Proof. intros [->|[r ->]]; [left; reflexivity|right; exists 10, r; split; reflexivity]. Qed.

Lemma cons_str_cons_str a b r : cons_str a (cons_str b r) = cons_str (a ++ b) r.
Proof. unfold cons_str. destruct r as [[s u]| | |]; cbn [obind]; try reflexivity. rewrite app_assoc. reflexivity. Qed.

Lemma cons_str_nil r : cons_str [] r = r.
Proof. unfold cons_str. destruct r as [[s u]| | |]; reflexivity. Qed.

(* cp_body over the rest of a line *)
Lemma cp_body_content prefix : forall content f X, no_nl content ->
  cp_body (length content + f) prefix (content ++ X) = cons_str content (cp_body f prefix X).
Proof.
  induction content as [|c content IH]; intros f X Hn; cbn [length app plus].
  - rewrite cons_str_nil. reflexivity.
  - inversion Hn as [|? ? Hc Hr]; subst. cbn [cp_body].
    destruct (N.eqb_spec c 10); [congruence|]. rewrite (IH f X Hr).
    unfold cons_str. destruct (cp_body f prefix X) as [[s u]| | |]; reflexivity.
Qed.

Lemma cp_body_eof prefix f : cp_body (S f) prefix [] = Err EUnfinishedString.
Proof. reflexivity. Qed.

Definition cp_line_start (f : nat) (prefix r1 : list N) : tbres :=
  let '(blank, r2) := cp_blank_lines r1 in
  match strip_prefix prefix r2 with
  | Some r3 => do t <- cp_body f prefix r3; let '(s, u) := t in Ok (blank ++ s, u)
  | None =>
      match strip_prefix [124; 124; 124] (snd (span_while is_blank r2)) with
      | Some r4 => Ok (blank, r4)
      | None => Err EInvalidTextBlockTermination
      end
  end.

Lemma cp_body_nl prefix f r1 : cp_body (S f) prefix (10 :: r1) = cons_str [10] (cp_line_start f prefix r1).
Proof.
  cbn [cp_body]. rewrite N.eqb_refl. unfold cp_line_start.
  destruct (cp_blank_lines r1) as [blank r2].
  destruct (strip_prefix prefix r2) as [r3|].
  - unfold cons_str. destruct (cp_body f prefix r3) as [[s u]| | |]; reflexivity.
  - destruct (strip_prefix [124; 124; 124] (snd (span_while is_blank r2))); reflexivity.
Qed.

Lemma cp_blank_lines_line l R : no_nl l -> is_blank_line l = false -> (R = [] \/ exists r, R = 10 :: r) ->
  cp_blank_lines (l ++ R) = ([], l ++ R).
Proof.
  intros Hn Hb HR. destruct l as [|x l]; [discriminate|]. inversion Hn as [|? ? Hx Hl]; subst.
  cbn [app cp_blank_lines]. destruct (N.eqb_spec x 10); [congruence|].
  destruct (N.eqb_spec x 13) as [->|]; [|reflexivity].
  destruct l as [|y l]; [discriminate|]. inversion Hl as [|? ? Hy _]; subst. cbn [app].
  destruct (N.eqb_spec y 10); [congruence|reflexivity].
Qed.

Lemma cp_blank_lines_last l : no_nl l -> cp_blank_lines l = ([], l).
Proof.
  intros Hn. destruct l as [|x l]; [reflexivity|]. inversion Hn as [|? ? Hx Hl]; subst.
  cbn [cp_blank_lines]. destruct (N.eqb_spec x 10); [congruence|].
  destruct (x =? 13); [|reflexivity]. destruct l as [|y l]; [reflexivity|].
  inversion Hl as [|? ? Hy _]; subst. destruct (N.eqb_spec y 10); [congruence|reflexivity].
Qed.

Lemma strip_prefix_no_nl s : forall l t, strip_prefix s l = Some t -> no_nl l -> no_nl t /\ (length t <= length l)%nat.
Proof.
  induction s as [|x s IH]; intros l t H Hn; cbn [strip_prefix] in H; [inversion H; subst; split; [exact Hn|lia]|].
  destruct l as [|y l]; [discriminate|]. destruct (x =? y); [|discriminate].
  inversion Hn; subst. destruct (IH _ _ H H3) as [A B]. split; [exact A|cbn; lia].
Qed.

Lemma join_cons l l2 more2 : join_lines l (l2 :: more2) = l ++ 10 :: join_lines l2 more2.
Proof. reflexivity. Qed.

Lemma join_nil l : join_lines l [] = l.
Proof. unfold join_lines. cbn. apply app_nil_r. Qed.

Lemma no_nl_blank p : Forall (fun x => is_blank x = true) p -> Forall (fun c => c <> 10) p.
Proof.
  intros H. eapply Forall_impl; [|exact H]. intros a Ha E. subst. discriminate.
Qed.

Lemma cp_body_last_line prefix r f : no_nl r -> (length r < f)%nat ->
  cp_body f prefix r = Err EUnfinishedString.
Proof.
  intros Hn Hf. replace f with (length r + S (f - length r - 1))%nat by lia.
  pose proof (cp_body_content prefix r (S (f - length r - 1)) [] Hn) as E. rewrite app_nil_r in E.
  rewrite E, cp_body_eof. reflexivity.
Qed.

Lemma line_start_lines prefix : Forall (fun x => is_blank x = true) prefix ->
  forall more l f, no_nl l -> Forall no_nl more -> (length (join_lines l more) < f)%nat ->
  cp_line_start f prefix (join_lines l more) = tbl_at_line prefix l more.
Proof.
  intros HP. pose proof (no_nl_blank _ HP) as HPn.
  induction more as [|l2 more2 IH]; intros l f Hl Hm FS.
  - rewrite join_nil in *. cbn [tbl_at_line]. unfold cp_line_start. rewrite (cp_blank_lines_last l Hl).
    destruct (strip_prefix prefix l) as [r3|] eqn:SP.
    + destruct (strip_prefix_no_nl _ _ _ SP Hl) as [N3 L3].
      rewrite (cp_body_last_line prefix r3 f N3 ltac:(lia)). reflexivity.
    + unfold tbl_terminator. destruct (strip_prefix [124; 124; 124] (snd (span_while is_blank l))) as [t|]; [|reflexivity].
      rewrite join_nil. reflexivity.
  - rewrite join_cons in *. inversion Hm as [|? ? Hl2 Hm2]; subst. cbn [tbl_at_line].
    set (J := join_lines l2 more2) in *.
    assert (HR : 10 :: J = [] \/ exists r, 10 :: J = 10 :: r) by (right; eexists; reflexivity).
    destruct (is_blank_line l) eqn:BL.
    + (* blank line *)
      assert (LJ : (length J < f)%nat) by (rewrite app_length in FS; cbn [length] in FS; lia).
      specialize (IH l2 f Hl2 Hm2 LJ). rewrite <- IH. unfold cp_line_start. fold J.
      destruct l as [|x [|y l]]; try discriminate.
      * cbn [app cp_blank_lines]. rewrite N.eqb_refl.
        destruct (cp_blank_lines J) as [s t].
        destruct (strip_prefix prefix t) as [r3|].
        -- unfold cons_str. destruct (cp_body f prefix r3) as [[s' u]| | |]; reflexivity.
        -- destruct (strip_prefix [124; 124; 124] (snd (span_while is_blank t))); reflexivity.
      * cbn in BL. apply N.eqb_eq in BL. subst x. cbn [app cp_blank_lines].
        change (13 =? 10) with false. cbn iota. rewrite !N.eqb_refl.
        destruct (cp_blank_lines J) as [s t].
        destruct (strip_prefix prefix t) as [r3|].
        -- unfold cons_str. destruct (cp_body f prefix r3) as [[s' u]| | |]; reflexivity.
        -- destruct (strip_prefix [124; 124; 124] (snd (span_while is_blank t))); reflexivity.
    + unfold cp_line_start. rewrite (cp_blank_lines_line l (10 :: J) Hl BL HR).
      rewrite (strip_prefix_app_line prefix l (10 :: J) HPn HR).
      destruct (strip_prefix prefix l) as [content|] eqn:SP.
      * destruct (strip_prefix_no_nl _ _ _ SP Hl) as [N3 L3].
        rewrite app_length in FS. cbn [length] in FS.
        replace f with (length content + S (f - length content - 1))%nat by lia.
        rewrite (cp_body_content prefix content _ (10 :: J) N3). rewrite cp_body_nl.
        subst J. rewrite (IH l2 (f - length content - 1)%nat Hl2 Hm2 ltac:(lia)). rewrite cons_str_cons_str.
        unfold cons_str. destruct (tbl_at_line prefix l2 more2) as [[s u]| | |]; reflexivity.
      * rewrite (span_while_app is_blank l (10 :: J) (nl_stops_blank _ HR)). cbn [snd].
        rewrite (strip_prefix_app_line [124; 124; 124] _ (10 :: J) ltac:(repeat constructor; lia) HR).
        unfold tbl_terminator.
        destruct (strip_prefix [124; 124; 124] (snd (span_while is_blank l))) as [t|]; [|reflexivity].
        rewrite join_cons. reflexivity.
Qed.

Definition cp_first_then_body (fs : nat) (cps : list N) : tbres :=
  do t <- cp_first_loop fs cps;
  let '(s1, p, r4) := t in
  do u <- cp_body (S (length r4)) p r4;
  let '(s2, r5) := u in Ok (s1 ++ s2, r5).

Lemma span_while_all p l : Forall (fun x => p x = true) (fst (span_while p l)).
Proof.
  induction l as [|x l IH]; cbn [span_while]; [constructor|].
  destruct (p x) eqn:Hx; [|constructor]. destruct (span_while p l). cbn [fst] in *. constructor; assumption.
Qed.

Lemma span_while_join p l : fst (span_while p l) ++ snd (span_while p l) = l.
Proof.
  induction l as [|x l IH]; cbn [span_while]; [reflexivity|].
  destruct (p x); [|reflexivity]. destruct (span_while p l). cbn [fst snd app] in *. f_equal. exact IH.
Qed.

Lemma no_nl_app_r a b : no_nl (a ++ b) -> no_nl b.
Proof. intros H. apply Forall_app in H. tauto. Qed.

Lemma first_lines : forall more l fs, no_nl l -> Forall no_nl more -> (length (join_lines l more) < fs)%nat ->
  cp_first_then_body fs (join_lines l more) = tbl_leading l more.
Proof.
  induction more as [|l2 more2 IH]; intros l fs Hl Hm FS; (destruct fs as [|fs]; [lia|]).
  - rewrite join_nil in *. unfold cp_first_then_body. cbn [cp_first_loop tbl_leading].
    pose proof (span_while_all is_blank l) as PA. pose proof (span_while_join is_blank l) as PJ.
    destruct (span_while is_blank l) as [p content]. cbn [fst snd] in *.
    destruct p as [|x p].
    + cbn [app] in PJ. subst content.
      destruct l as [|c l']; [reflexivity|]. inversion Hl as [|? ? Hc Hl']; subst.
      destruct (N.eqb_spec c 13) as [->|N13].
      * destruct l' as [|c2 l'']; [reflexivity|]. inversion Hl' as [|? ? Hc2 _]; subst.
        destruct (N.eqb_spec c2 10); [congruence|reflexivity].
      * destruct (N.eqb_spec c 10); [congruence|reflexivity].
    + assert (Nc : no_nl content) by (rewrite <- PJ in Hl; apply (no_nl_app_r _ _ Hl)).
      assert (BODY : forall cr r2, cr ++ r2 = content -> no_nl r2 ->
                (do u <- cp_body (S (length r2)) (x :: p) r2; (let '(s2, r5) := u in Ok (cr ++ s2, r5))) = Err EUnfinishedString).
      { intros cr r2 _ N2. rewrite (cp_body_last_line (x :: p) r2 (S (length r2)) N2 ltac:(lia)). reflexivity. }
      destruct content as [|c content']; [exact (BODY [] [] eq_refl Nc)|].
      destruct (N.eqb_spec c 13) as [->|N13].
      * cbn [obind]. apply (BODY [13] content' eq_refl). inversion Nc; assumption.
      * cbn [obind]. exact (BODY [] (c :: content') eq_refl Nc).
  - rewrite join_cons in *. inversion Hm as [|? ? Hl2 Hm2]; subst.
    assert (HR : 10 :: (join_lines l2 more2) = [] \/ exists r, 10 :: (join_lines l2 more2) = 10 :: r) by (right; eexists; reflexivity).
    unfold cp_first_then_body. cbn [cp_first_loop tbl_leading].
    rewrite (span_while_app is_blank l (10 :: (join_lines l2 more2)) (nl_stops_blank _ HR)).
    pose proof (span_while_all is_blank l) as PA. pose proof (span_while_join is_blank l) as PJ.
    destruct (span_while is_blank l) as [p content]. cbn [fst snd] in *.
    rewrite app_length in FS. cbn [length] in FS.
    destruct p as [|x p].
    + cbn [app] in PJ. subst content.
      destruct l as [|c l'].
      * (* empty line *)
        cbn [app is_blank_line]. change (10 =? 13) with false. cbn iota. rewrite N.eqb_refl.
        specialize (IH l2 fs Hl2 Hm2 ltac:(cbn [length] in FS; lia)). unfold cp_first_then_body in IH.
        rewrite <- IH. destruct (cp_first_loop fs (join_lines l2 more2)) as [[[s pp] r]| | |]; cbn [obind]; try reflexivity.
        destruct (cp_body (S (length r)) pp r) as [[s2 r5]| | |]; reflexivity.
      * inversion Hl as [|? ? Hc Hl']; subst. cbn [app].
        destruct (N.eqb_spec c 13) as [->|N13].
        -- destruct l' as [|c2 l''].
           ++ (* CR line *)
              cbn [app is_blank_line]. rewrite !N.eqb_refl.
              specialize (IH l2 fs Hl2 Hm2 ltac:(cbn [length] in FS; lia)). unfold cp_first_then_body in IH.
              rewrite <- IH. destruct (cp_first_loop fs (join_lines l2 more2)) as [[[s pp] r]| | |]; cbn [obind]; try reflexivity.
              destruct (cp_body (S (length r)) pp r) as [[s2 r5]| | |]; reflexivity.
           ++ inversion Hl' as [|? ? Hc2 _]; subst. cbn [app is_blank_line].
              destruct (N.eqb_spec c2 10); [congruence|reflexivity].
        -- destruct (N.eqb_spec c 10); [congruence|].
           replace (is_blank_line (c :: l')) with false; [reflexivity|].
           destruct l'; cbn; [symmetry; apply N.eqb_neq; exact N13|reflexivity].
    + assert (Nc : no_nl content) by (rewrite <- PJ in Hl; apply (no_nl_app_r _ _ Hl)).
      assert (HPx : Forall (fun y => is_blank y = true) (x :: p)) by exact PA.
      assert (BODY : forall cr r2, cr ++ r2 = content -> no_nl r2 ->
                (do u <- cp_body (S (length (r2 ++ 10 :: (join_lines l2 more2)))) (x :: p) (r2 ++ 10 :: (join_lines l2 more2)); (let '(s2, r5) := u in Ok (cr ++ s2, r5)))
                = cons_str (content ++ [10]) (tbl_at_line (x :: p) l2 more2)).
      { intros cr r2 E2 N2. rewrite app_length. cbn [length].
        replace (S (length r2 + S (length (join_lines l2 more2)))) with (length r2 + S (S (length (join_lines l2 more2))))%nat by lia.
        rewrite (cp_body_content (x :: p) r2 _ (10 :: (join_lines l2 more2)) N2). rewrite cp_body_nl.
        rewrite (line_start_lines (x :: p) HPx more2 l2 (S (length (join_lines l2 more2))) Hl2 Hm2 ltac:(lia)).
        rewrite cons_str_cons_str. subst content.
        unfold cons_str. destruct (tbl_at_line (x :: p) l2 more2) as [[s u]| | |]; cbn [obind]; try reflexivity.
        rewrite <- !app_assoc. reflexivity. }
      destruct content as [|c content'].
      * cbn [app]. change (10 =? 13) with false. cbn iota. cbn [obind]. exact (BODY [] [] eq_refl Nc).
      * cbn [app]. destruct (N.eqb_spec c 13) as [->|N13].
        -- cbn [obind]. apply (BODY [13] content' eq_refl). inversion Nc; assumption.
        -- cbn [obind]. exact (BODY [] (c :: content') eq_refl Nc).
Qed.

Lemma forallb_span p l : forallb p l = true <-> snd (span_while p l) = [].
Proof.
  induction l as [|x l IH]; cbn [forallb span_while]; [tauto|].
  destruct (p x); cbn [andb]; [|split; discriminate].
  destruct (span_while p l). cbn [snd] in *. exact IH.
Qed.

Lemma span_while_no_nl p l : no_nl l -> no_nl (snd (span_while p l)).
Proof.
  intros H. pose proof (span_while_join p l) as J. rewrite <- J in H. apply (no_nl_app_r _ _ H).
Qed.

Theorem cp_text_block_lines l0 more : no_nl l0 -> Forall no_nl more ->
  cp_text_block (join_lines l0 more) = textblock_lines l0 more.
Proof.
  intros H0 Hm. unfold cp_text_block, textblock_lines.
  assert (HR : flat_map (fun x => 10 :: x) more = [] \/ exists r, flat_map (fun x => 10 :: x) more = 10 :: r).
  { destruct more as [|l1 more1]; [left; reflexivity|right; eexists; reflexivity]. }
  (* the optional dash *)
  assert (exists strip h, (match l0 with c :: h => if c =? 45 then (true, h) else (false, l0) | [] => (false, l0) end) = (strip, h) /\
           (match join_lines l0 more with c :: r => if c =? 45 then (true, r) else (false, join_lines l0 more) | [] => (false, join_lines l0 more) end)
           = (strip, join_lines h more) /\ no_nl h) as [strip [h [E1 [E2 Hh]]]].
  { destruct l0 as [|c h].
    - exists false, []. split; [reflexivity|]. split; [|constructor].
      unfold join_lines. cbn [app]. destruct HR as [->|[r ->]]; [reflexivity|]. reflexivity.
    - unfold join_lines. cbn [app]. destruct (c =? 45).
      + exists true, h. repeat split. inversion H0; assumption.
      + exists false, (c :: h). repeat split. exact H0. }
  rewrite E1, E2. clear E1 E2. unfold join_lines at 1.
  rewrite (span_while_app is_blank_cr h _ (nl_stops_blank_cr _ HR)). cbn [snd].
  pose proof (span_while_no_nl is_blank_cr h Hh) as Nb.
  destruct (forallb is_blank_cr h) eqn:FB.
  - apply forallb_span in FB. rewrite FB. cbn [app].
    destruct more as [|l1 more1]; [reflexivity|]. cbn [flat_map app]. rewrite N.eqb_refl.
    inversion Hm as [|? ? Hl1 Hm1]; subst.
    pose proof (first_lines more1 l1 (S (length (join_lines l1 more1))) Hl1 Hm1 ltac:(lia)) as FL.
    unfold cp_first_then_body in FL. unfold join_lines in FL |- *. rewrite <- FL.
    destruct (cp_first_loop _ _) as [[[s1 p] r4]| | |]; cbn [obind]; try reflexivity.
    destruct (cp_body _ p r4) as [[s2 r5]| | |]; cbn [obind]; reflexivity.
  - assert (snd (span_while is_blank_cr h) <> []) by (intros E; apply forallb_span in E; congruence).
    destruct (snd (span_while is_blank_cr h)) as [|x t]; [congruence|]. cbn [app].
    inversion Nb; subst. destruct (N.eqb_spec x 10); [congruence|reflexivity].
Qed.

(* ---- the value theorem ---- *)
Theorem textblock_value len start c : bytes_ok (rest c) ->
  match lex_text_block len start c with
  | Ok (t, c') => exists s, tok_kind t = TTextBlock s /\
                            textblock_spec (lossy (rest c)) = Ok (s, lossy (rest c'))
  | Err e => textblock_spec (lossy (rest c)) = Err (err_kind e)
  | _ => True
  end.
Proof.
  intros B. pose proof (text_block_cp len start c B) as A.
  unfold textblock_spec. destruct (join_split (lossy (rest c))) as [J [N0 Nm]].
  rewrite <- (cp_text_block_lines _ _ N0 Nm), J.
  destruct (lex_text_block len start c) as [[t c']|e| |]; auto.
  destruct A as [s [K [V _]]]. exists s. split; assumption.
Qed.

(* ================================================================== *)
(* Numbers: the state machine against a segment-level grammar          *)

(* a digit group as the scanner reads it: digits, a single underscore allowed
   between digits — and, as written, also after the last digit.  Returns the
   digits, whether the group ended right after an underscore, and the rest. *)
Fixpoint scan_group (us : bool) (r : list N) : list N * bool * list N :=
  match r with
  | [] => ([], us, r)
  | b :: r' =>
      if is_digit b then let '(d, u, t) := scan_group false r' in (b :: d, u, t)
      else if negb us && (b =? 95) then scan_group true r'
      else ([], us, r)
  end.

Definition dec_value (ds : list N) : N := fold_left (fun a d => a * 10 + (d - 48)) ds 0.

Definition in_i64 (z : Z) : bool := negb ((z <? i64_min)%Z || (i64_max <? z)%Z).

Notation numres := (outcome (list N * Z * list N) lex_error_kind).

Section NumSpec.
(* strict = true: the upstream grammar, an underscore must be followed by a digit;
   strict = false: what lexer/mod.rs does ('.' and 'e' are accepted after '_') *)
Variable strict : bool.

Definition after_us (us : bool) (k : numres) : numres :=
  if strict && us then Err EMissingDigitAfterUnderscore else k.

(* no further part: [X] is the explicit exponent's magnitude *)
Definition num_finish (di df : list N) (sign : bool) (X : N) (t : list N) : numres :=
  if (i64_max <? Z.of_N X)%Z then Err EExpOverflow
  else
    let e := ((if sign then - Z.of_N X else Z.of_N X) - Z.of_nat (length df))%Z in
    if in_i64 e then Ok (di ++ df, e, t) else Err EExpOverflow.

(* after e / E: optional sign, a digit group *)
Definition spec_exp (di df : list N) (r : list N) : numres :=
  let '(sign, r1) := match r with
                     | b :: r' => if b =? 43 then (false, r') else if b =? 45 then (true, r') else (false, r)
                     | [] => (false, r)
                     end in
  match r1 with
  | b :: r2 =>
      if is_digit b then
        let '(dx, us, t) := scan_group false r2 in
        if us then Err EMissingDigitAfterUnderscore else num_finish di df sign (dec_value (b :: dx)) t
      else Err EMissingExpDigits
  | [] => Err EMissingExpDigits
  end.

Definition spec_tail (di df : list N) (us : bool) (t : list N) : numres :=
  if us then Err EMissingDigitAfterUnderscore else num_finish di df false 0 t.

(* integer part [chr0 :: group], then optionally '.' group, then optionally e-part *)
Definition number_spec (chr0 : N) (r : list N) : numres :=
  let '(di, us1, r1) := scan_group false r in
  if (chr0 =? 48) && negb (match di with [] => true | _ => false end) then Err ELeadingZeroInNumber
  else
    let int_ds := chr0 :: di in
    match r1 with
    | b :: r2 =>
        if b =? 46 then
          after_us us1
            match r2 with
            | d :: r3 =>
                if is_digit d then
                  let '(df, us2, r4) := scan_group false r3 in
                  match r4 with
                  | b2 :: r5 => if is_e b2 then after_us us2 (spec_exp int_ds (d :: df) r5)
                                else spec_tail int_ds (d :: df) us2 r4
                  | [] => spec_tail int_ds (d :: df) us2 r4
                  end
                else Err EMissingFracDigits
            | [] => Err EMissingFracDigits
            end
        else if is_e b then after_us us1 (spec_exp int_ds [] r2)
        else spec_tail int_ds [] us1 r1
    | [] => spec_tail int_ds [] us1 r1
    end.
End NumSpec.

(* ---- the loop runs through a digit group ---- *)
Definition stopped (u : bool) (t : list N) : Prop :=
  match t with
  | [] => True
  | b :: _ => is_digit b = false /\ (u = false -> b <> 95)
  end.

Lemma scan_group_stopped : forall r us, let '(d, u, t) := scan_group us r in stopped u t.
Proof.
  induction r as [|b r IH]; intros us; cbn [scan_group]; [exact I|].
  destruct (is_digit b) eqn:D.
  - specialize (IH false). destruct (scan_group false r) as [[d u] t]. exact IH.
  - destruct us; cbn [negb andb].
    + split; [exact D|discriminate].
    + destruct (N.eqb_spec b 95) as [->|Ne].
      * specialize (IH true). destruct (scan_group true r) as [[d u] t]. exact IH.
      * split; [exact D|intros _; exact Ne].
Qed.

Section Group.
Variables (len : N) (lz : bool).
Variable G : bool -> nstate.
Variable upd : nacc -> N -> nacc.
Variable Inv : nacc -> Prop.
Hypothesis step_digit : forall us a b, Inv a -> is_digit b = true ->
  num_step lz (G us) a b = NGo (G false) (upd a b) /\ Inv (upd a b).
Hypothesis step_us : forall a b, is_digit b = false -> b = 95 -> num_step lz (G false) a b = NGo (G true) a.

Lemma group_loop : forall r ps us a, Inv a ->
  let '(d, u, t) := scan_group us r in
  exists ps', num_loop len lz r ps (G us) a = num_loop len lz t ps' (G u) (fold_left upd d a) /\
              Inv (fold_left upd d a).
Proof.
  induction r as [|b r IH]; intros ps us a HI; cbn [scan_group].
  - exists ps. split; [reflexivity|exact HI].
  - destruct (is_digit b) eqn:D.
    + destruct (step_digit us a b HI D) as [ST HI'].
      specialize (IH (ps + 1) false (upd a b) HI'). destruct (scan_group false r) as [[d u] t].
      destruct IH as [ps' [E I2]]. exists ps'. cbn [num_loop fold_left]. rewrite ST. split; assumption.
    + destruct us; cbn [negb andb].
      * exists ps. split; [reflexivity|exact HI].
      * destruct (N.eqb_spec b 95) as [->|Ne].
        -- specialize (IH (ps + 1) true a HI). destruct (scan_group true r) as [[d u] t].
           destruct IH as [ps' [E I2]]. exists ps'. cbn [num_loop]. rewrite (step_us a 95 D eq_refl). split; assumption.
        -- exists ps. split; [reflexivity|exact HI].
Qed.
End Group.

(* ---- accumulators ---- *)
Definition exp_opt (v : N) : option N := if u64_max <? v then None else Some v.
Definition dec_step (a d : N) : N := a * 10 + (d - 48).

Lemma exp_push_opt v d : exp_push (exp_opt v) d = exp_opt (v * 10 + d).
Proof.
  unfold exp_opt, exp_push.
  destruct (N.ltb_spec u64_max v) as [H|H].
  - destruct (N.ltb_spec u64_max (v * 10 + d)); [reflexivity|lia].
  - destruct (N.ltb_spec u64_max (v * 10)) as [H1|H1].
    + destruct (N.ltb_spec u64_max (v * 10 + d)); [reflexivity|lia].
    + reflexivity.
Qed.

Definition upd_int (a : nacc) (b : N) : nacc := push_digit a b false.
Definition upd_frac (a : nacc) (b : N) : nacc := push_digit a b true.
Definition upd_exp (a : nacc) (b : N) : nacc := set_expl a (exp_push (n_expl a) (b - 48)).

Lemma fold_int d : forall a, n_digits (fold_left upd_int d a) = rev d ++ n_digits a /\
  n_impl (fold_left upd_int d a) = n_impl a /\ n_expl (fold_left upd_int d a) = n_expl a /\
  n_sign (fold_left upd_int d a) = n_sign a.
Proof.
  induction d as [|b d IH]; intros a; cbn [fold_left rev app]; [repeat split|].
  destruct (IH (upd_int a b)) as [A [B [C D]]]. rewrite A, B, C, D. cbn. rewrite <- app_assoc. repeat split.
Qed.

Lemma fold_frac d : forall a, n_digits (fold_left upd_frac d a) = rev d ++ n_digits a /\
  n_impl (fold_left upd_frac d a) = (n_impl a - Z.of_nat (length d))%Z /\
  n_expl (fold_left upd_frac d a) = n_expl a /\ n_sign (fold_left upd_frac d a) = n_sign a.
Proof.
  induction d as [|b d IH]; intros a; cbn [fold_left rev app length]; [repeat split; lia|].
  destruct (IH (upd_frac a b)) as [A [B [C D]]]. rewrite A, B, C, D. cbn [upd_frac push_digit n_digits n_impl n_expl n_sign].
  rewrite <- app_assoc. repeat split. lia.
Qed.

Lemma fold_exp d : forall a v, n_expl a = exp_opt v ->
  n_digits (fold_left upd_exp d a) = n_digits a /\ n_impl (fold_left upd_exp d a) = n_impl a /\
  n_expl (fold_left upd_exp d a) = exp_opt (fold_left dec_step d v) /\
  n_sign (fold_left upd_exp d a) = n_sign a.
Proof.
  induction d as [|b d IH]; intros a v H; cbn [fold_left]; [repeat split; exact H|].
  assert (H' : n_expl (upd_exp a b) = exp_opt (dec_step v b)).
  { unfold upd_exp. cbn [set_expl n_expl]. rewrite H. apply exp_push_opt. }
  destruct (IH (upd_exp a b) (dec_step v b) H') as [A [B [C D]]]. rewrite A, B, C, D. repeat split.
Qed.

(* ---- how a finished accumulator answers ---- *)
Definition acc_is (a : nacc) (ds : list N) (k : nat) (sign : bool) (X : N) : Prop :=
  n_digits a = rev ds /\ n_impl a = (- Z.of_nat k)%Z /\ n_sign a = sign /\ n_expl a = exp_opt X.

Lemma eff_exp_finish a di df sign X t : acc_is a (di ++ df) (length df) sign X ->
  match eff_exp a with
  | Some e => num_finish di df sign X t = Ok (rev (n_digits a), e, t)
  | None => num_finish di df sign X t = Err EExpOverflow
  end.
Proof.
  intros [A [B [C D]]]. unfold eff_exp, num_finish. rewrite D, B, C, A, rev_involutive. unfold exp_opt.
  destruct (N.ltb_spec u64_max X) as [H|H].
  - replace (i64_max <? Z.of_N X)%Z with true; [reflexivity|].
    symmetry. apply Z.ltb_lt. unfold i64_max, u64_max in *. lia.
  - destruct (i64_max <? Z.of_N X)%Z; [reflexivity|].
    assert (E : (if sign then (- Z.of_nat (length df) - Z.of_N X)%Z else (- Z.of_nat (length df) + Z.of_N X)%Z)
                = ((if sign then (- Z.of_N X)%Z else Z.of_N X) - Z.of_nat (length df))%Z) by (destruct sign; lia).
    rewrite E. unfold in_i64. destruct (_ || _); reflexivity.
Qed.

(* results of the number loop, up to positions and spans *)
Definition finish_rel (r : res (nacc * cur)) (q : numres) : Prop :=
  match r with
  | Ok (a, c') =>
      match eff_exp a with
      | Some e => q = Ok (rev (n_digits a), e, rest c')
      | None => q = Err EExpOverflow
      end
  | Err e => q = Err (err_kind e)
  | _ => True
  end.

Lemma finish_rel_fail len k s e : finish_rel (fail len k s e) (Err k).
Proof.
  pose proof (fail_inv (A := nacc * cur) len k s e _ eq_refl) as H. unfold finish_rel.
  destruct (fail len k s e) as [[a c]| | |]; auto; [contradiction|congruence].
Qed.

Lemma finish_rel_usub_fail len k a b : forall f : N -> N * N,
  finish_rel (do s <- usub a b; fail len k (fst (f s)) (snd (f s))) (Err k).
Proof. intros f. unfold usub. destruct (a <? b); [exact I|]. cbn [obind]. apply finish_rel_fail. Qed.

Lemma stop_err_us len st a c : (st = NInt true \/ st = NFrac true \/ st = NExpDigits true) ->
  finish_rel (num_stop len st a c) (Err EMissingDigitAfterUnderscore).
Proof.
  intros [ -> | [ -> | -> ] ]; unfold num_stop; unfold usub; destruct (pos c <? 1); try exact I; cbn [obind]; apply finish_rel_fail.
Qed.

Lemma stop_err len st a c k : (st = NDot /\ k = EMissingFracDigits) \/ ((st = NExp \/ st = NExpSign) /\ k = EMissingExpDigits) ->
  finish_rel (num_stop len st a c) (Err k).
Proof.
  intros [[E1 E2]|[[E1|E1] E2]]; subst st k; unfold num_stop; unfold usub;
    match goal with |- context[if ?x then _ else _] => destruct x end; try exact I; cbn [obind]; apply finish_rel_fail.
Qed.

Lemma stop_ok len st a c di df sign X : (st = NInt false \/ st = NFrac false \/ st = NExpDigits false) ->
  acc_is a (di ++ df) (length df) sign X ->
  finish_rel (num_stop len st a c) (num_finish di df sign X (rest c)).
Proof.
  intros H HA. pose proof (eff_exp_finish a di df sign X (rest c) HA) as E.
  destruct H as [ -> | [ -> | -> ] ]; cbn [num_stop finish_rel]; destruct (eff_exp a); exact E.
Qed.

Lemma usb_false u b : (u = false -> b <> 95) -> negb u && (b =? 95) = false.
Proof. destruct u; [reflexivity|]. intros H. cbn. apply N.eqb_neq, H, eq_refl. Qed.

Section Chain.
Variables (len : N) (lz : bool).

(* ---- exponent digits ---- *)
Lemma expdigits_group r ps a :
  let '(d, u, t) := scan_group false r in
  exists ps', num_loop len lz r ps (NExpDigits false) a = num_loop len lz t ps' (NExpDigits u) (fold_left upd_exp d a).
Proof.
  pose proof (group_loop len lz NExpDigits upd_exp (fun _ => True)) as GL.
  specialize (GL ltac:(intros us a0 b _ D; cbn [num_step]; rewrite D; split; [reflexivity|exact I])).
  specialize (GL ltac:(intros a0 b D ->; reflexivity)).
  specialize (GL r ps false a I). destruct (scan_group false r) as [[d u] t].
  destruct GL as [ps' [E _]]. exists ps'. exact E.
Qed.

Lemma expdigits_stopped u t ps a : stopped u t ->
  num_loop len lz t ps (NExpDigits u) a = num_stop len (NExpDigits u) a {| pos := ps; rest := t |}.
Proof.
  destruct t as [|b t]; [reflexivity|]. intros [D U]. cbn [num_loop num_step]. rewrite D, (usb_false u b U). reflexivity.
Qed.

Lemma expdigits_rel r ps a di df sign v : acc_is a (di ++ df) (length df) sign v ->
  finish_rel (num_loop len lz r ps (NExpDigits false) a)
    (let '(dx, us, t) := scan_group false r in
     if us then Err EMissingDigitAfterUnderscore else num_finish di df sign (fold_left dec_step dx v) t).
Proof.
  intros HA. pose proof (expdigits_group r ps a) as G. pose proof (scan_group_stopped r false) as ST.
  destruct (scan_group false r) as [[dx u] t]. destruct G as [ps' ->].
  rewrite (expdigits_stopped u t ps' _ ST).
  destruct u.
  - apply stop_err_us. tauto.
  - apply (stop_ok len (NExpDigits false) _ {| pos := ps'; rest := t |} di df sign); [tauto|].
    destruct HA as [A [B [C D]]]. destruct (fold_exp dx a v D) as [A' [B' [D' C']]].
    split; [rewrite A'; exact A|]. split; [rewrite B'; exact B|]. split; [rewrite C'; exact C|exact D'].
Qed.

Lemma dec_value_cons b dx : dec_value (b :: dx) = fold_left dec_step dx (b - 48).
Proof. unfold dec_value. cbn [fold_left]. rewrite N.mul_0_l, N.add_0_l. reflexivity. Qed.

(* after e / E *)
Lemma digit_exp_opt b : is_digit b = true -> Some (b - 48) = exp_opt (b - 48).
Proof.
  intros D. unfold is_digit in D. apply in_range_iff in D. unfold exp_opt.
  replace (u64_max <? b - 48) with false; [reflexivity|]. symmetry. apply N.ltb_ge. unfold u64_max. lia.
Qed.

Lemma exp_rel r ps a di df X0 : acc_is a (di ++ df) (length df) false X0 ->
  finish_rel (num_loop len lz r ps NExp a) (spec_exp di df r).
Proof.
  intros HA. unfold spec_exp.
  assert (FIRST : forall sign b r2 ps' a', acc_is a' (di ++ df) (length df) sign X0 -> is_digit b = true ->
            finish_rel (num_loop len lz r2 ps' (NExpDigits false) (set_expl a' (Some (b - 48))))
              (let '(dx, us, t) := scan_group false r2 in
               if us then Err EMissingDigitAfterUnderscore else num_finish di df sign (dec_value (b :: dx)) t)).
  { intros sign b r2 ps' a' [A [B [C _]]] D.
    assert (HA2 : acc_is (set_expl a' (Some (b - 48))) (di ++ df) (length df) sign (b - 48)).
    { split; [exact A|]. split; [exact B|]. split; [exact C|]. cbn [set_expl n_expl]. apply digit_exp_opt, D. }
    pose proof (expdigits_rel r2 ps' (set_expl a' (Some (b - 48))) di df sign (b - 48) HA2) as R.
    destruct (scan_group false r2) as [[dx us] t]. rewrite dec_value_cons. exact R. }
  assert (SIGN : forall sign r1 ps' a', acc_is a' (di ++ df) (length df) sign X0 ->
            finish_rel (num_loop len lz r1 ps' NExpSign a')
              match r1 with
              | b :: r2 => if is_digit b then
                   let '(dx, us, t) := scan_group false r2 in
                   if us then Err EMissingDigitAfterUnderscore else num_finish di df sign (dec_value (b :: dx)) t
                 else Err EMissingExpDigits
              | [] => Err EMissingExpDigits
              end).
  { intros sign r1 ps' a' HA'. destruct r1 as [|b r2].
    - cbn [num_loop]. apply stop_err. right. split; [right; reflexivity|reflexivity].
    - cbn [num_loop num_step]. destruct (is_digit b) eqn:D.
      + apply FIRST; assumption.
      + apply stop_err. right. split; [right; reflexivity|reflexivity]. }
  destruct r as [|b r'].
  - cbn [num_loop]. apply stop_err. right. split; [left; reflexivity|reflexivity].
  - cbn [num_loop num_step].
    destruct (N.eqb_spec b 43) as [->|N43].
    + apply (SIGN false r' (ps + 1) a HA).
    + destruct (N.eqb_spec b 45) as [->|N45].
      * apply (SIGN true r' (ps + 1) (set_sign a)).
        destruct HA as [A [B [C D]]]. repeat split; assumption.
      * destruct (is_digit b) eqn:D.
        -- apply FIRST; assumption.
        -- apply stop_err. right. split; [left; reflexivity|reflexivity].
Qed.
End Chain.

Section Chain2.
Variables (len : N) (lz : bool).

Lemma exp_opt_0 : Some 0 = exp_opt 0.
Proof. reflexivity. Qed.

(* ---- fraction ---- *)
Lemma frac_group r ps a :
  let '(d, u, t) := scan_group false r in
  exists ps', num_loop len lz r ps (NFrac false) a = num_loop len lz t ps' (NFrac u) (fold_left upd_frac d a).
Proof.
  pose proof (group_loop len lz NFrac upd_frac (fun _ => True)) as GL.
  specialize (GL ltac:(intros us a0 b _ D; cbn [num_step]; rewrite D; split; [reflexivity|exact I])).
  specialize (GL ltac:(intros a0 b D ->; reflexivity)).
  specialize (GL r ps false a I). destruct (scan_group false r) as [[d u] t].
  destruct GL as [ps' [E _]]. exists ps'. exact E.
Qed.

Lemma frac_rel r2 ps a int_ds : acc_is a int_ds 0 false 0 ->
  finish_rel (num_loop len lz r2 ps NDot a)
    match r2 with
    | d :: r3 =>
        if is_digit d then
          let '(df, us2, r4) := scan_group false r3 in
          match r4 with
          | b2 :: r5 => if is_e b2 then spec_exp int_ds (d :: df) r5 else spec_tail int_ds (d :: df) us2 r4
          | [] => spec_tail int_ds (d :: df) us2 r4
          end
        else Err EMissingFracDigits
    | [] => Err EMissingFracDigits
    end.
Proof.
  intros [A [B [C D]]]. destruct r2 as [|d r3].
  - cbn [num_loop]. apply stop_err. left. split; reflexivity.
  - cbn [num_loop num_step]. destruct (is_digit d) eqn:DD.
    2:{ apply stop_err. left. split; reflexivity. }
    pose proof (frac_group r3 (ps + 1) (push_digit a d true)) as G.
    pose proof (scan_group_stopped r3 false) as ST.
    destruct (scan_group false r3) as [[df u] t]. destruct G as [ps' ->].
    destruct (fold_frac df (push_digit a d true)) as [A' [B' [D' C']]].
    cbn [push_digit n_digits n_impl n_expl n_sign] in A', B', C', D'.
    assert (HA : acc_is (fold_left upd_frac df (push_digit a d true)) (int_ds ++ d :: df) (length (d :: df)) false 0).
    { split; [rewrite A', A, rev_app_distr; cbn [rev]; rewrite <- app_assoc; reflexivity|].
      split; [rewrite B', B; cbn [length]; lia|]. split; [rewrite C'; exact C|rewrite D'; exact D]. }
    assert (STOP : finish_rel (num_stop len (NFrac u) (fold_left upd_frac df (push_digit a d true)) {| pos := ps'; rest := t |})
                     (spec_tail int_ds (d :: df) u t)).
    { unfold spec_tail. destruct u.
      - apply stop_err_us. tauto.
      - apply (stop_ok len (NFrac false) _ {| pos := ps'; rest := t |} int_ds (d :: df) false 0); [tauto|exact HA]. }
    destruct t as [|b2 r5]; [exact STOP|].
    destruct ST as [ND U]. cbn [num_loop num_step]. rewrite ND, (usb_false u b2 U).
    destruct (is_e b2); [|exact STOP].
    apply (exp_rel len lz r5 (ps' + 1) _ int_ds (d :: df) 0 HA).
Qed.

(* ---- integer part, after its digit group ---- *)
Lemma int_after u t ps a int_ds : stopped u t -> acc_is a int_ds 0 false 0 ->
  finish_rel (num_loop len lz t ps (NInt u) a)
    match t with
    | b :: r2 =>
        if b =? 46 then
          match r2 with
          | d :: r3 =>
              if is_digit d then
                let '(df, us2, r4) := scan_group false r3 in
                match r4 with
                | b2 :: r5 => if is_e b2 then spec_exp int_ds (d :: df) r5 else spec_tail int_ds (d :: df) us2 r4
                | [] => spec_tail int_ds (d :: df) us2 r4
                end
              else Err EMissingFracDigits
          | [] => Err EMissingFracDigits
          end
        else if is_e b then spec_exp int_ds [] r2
        else spec_tail int_ds [] u t
    | [] => spec_tail int_ds [] u t
    end.
Proof.
  intros ST HA.
  assert (HA0 : acc_is a (int_ds ++ []) (length (@nil N)) false 0) by (rewrite app_nil_r; exact HA).
  assert (STOP : finish_rel (num_stop len (NInt u) a {| pos := ps; rest := t |}) (spec_tail int_ds [] u t)).
  { unfold spec_tail. destruct u.
    - apply stop_err_us. tauto.
    - apply (stop_ok len (NInt false) a {| pos := ps; rest := t |} int_ds [] false 0); [tauto|exact HA0]. }
  destruct t as [|b r2]; [exact STOP|].
  destruct ST as [ND U]. cbn [num_loop num_step]. rewrite ND, (usb_false u b U).
  destruct (b =? 46).
  - apply frac_rel, HA.
  - destruct (is_e b); [|exact STOP]. apply (exp_rel len lz r2 (ps + 1) a int_ds [] 0 HA0).
Qed.
End Chain2.

Lemma int_group_nolz len r ps a :
  let '(d, u, t) := scan_group false r in
  exists ps', num_loop len false r ps (NInt false) a = num_loop len false t ps' (NInt u) (fold_left upd_int d a).
Proof.
  pose proof (group_loop len false NInt upd_int (fun _ => True)) as GL.
  specialize (GL ltac:(intros us a0 b _ D; cbn [num_step]; rewrite D, andb_false_r; split; [reflexivity|exact I])).
  specialize (GL ltac:(intros a0 b D ->; reflexivity)).
  specialize (GL r ps false a I). destruct (scan_group false r) as [[d u] t].
  destruct GL as [ps' [E _]]. exists ps'. exact E.
Qed.

Definition acc0 (chr0 : N) : nacc := {| n_digits := [chr0]; n_impl := 0%Z; n_expl := Some 0; n_sign := false |}.

Lemma num_loop_spec len chr0 r ps :
  finish_rel (num_loop len (chr0 =? 48) r ps (NInt false) (acc0 chr0)) (number_spec false chr0 r).
Proof.
  unfold number_spec, after_us. cbn [andb].
  destruct (chr0 =? 48) eqn:LZ; cbn [andb].
  - (* leading zero: the first digit met in the integer part is an error *)
    assert (HA : acc_is (acc0 chr0) [chr0] 0 false 0) by (repeat split).
    assert (LZE : forall b r' ps' us, is_digit b = true ->
              finish_rel (num_loop len true (b :: r') ps' (NInt us) (acc0 chr0)) (Err ELeadingZeroInNumber)).
    { intros b r' ps' us D. cbn [num_loop num_step acc0 n_digits length Nat.eqb andb]. rewrite D.
      unfold usub. destruct (ps' + 1 <? 2); [exact I|]. cbn [obind]. destruct (ps' + 1 <? 1); [exact I|]. cbn [obind].
      apply finish_rel_fail. }
    destruct r as [|b r']; [apply (int_after len true false [] ps (acc0 chr0) [chr0] I HA)|].
    cbn [scan_group]. destruct (is_digit b) eqn:D.
    + destruct (scan_group false r') as [[d u] t]. apply LZE, D.
    + cbn [negb andb]. destruct (N.eqb_spec b 95) as [->|N95].
      * destruct r' as [|b' r''].
        -- cbn [scan_group]. cbn [num_loop num_step is_digit]. 
           change (is_digit 95) with false. cbn iota. cbn [negb andb]. rewrite N.eqb_refl. cbn iota.
           apply (int_after len true true [] (ps + 1) (acc0 chr0) [chr0] I HA).
        -- cbn [scan_group]. destruct (is_digit b') eqn:D'.
           ++ destruct (scan_group false r'') as [[d u] t].
              cbn [num_loop num_step]. change (is_digit 95) with false. cbn iota. cbn [negb andb]. rewrite N.eqb_refl. cbn iota.
              apply LZE, D'.
           ++ cbn [negb andb].
              cbn [num_loop num_step]. change (is_digit 95) with false. cbn iota. cbn [negb andb]. rewrite N.eqb_refl. cbn iota.
              apply (int_after len true true (b' :: r'') (ps + 1) (acc0 chr0) [chr0]); [split; [exact D'|discriminate]|exact HA].
      * apply (int_after len true false (b :: r') ps (acc0 chr0) [chr0]); [split; [exact D|intros _; exact N95]|exact HA].
  - pose proof (int_group_nolz len r ps (acc0 chr0)) as G. pose proof (scan_group_stopped r false) as ST.
    destruct (scan_group false r) as [[di u] t]. destruct G as [ps' ->].
    apply (int_after len false u t ps' _ (chr0 :: di) ST).
    destruct (fold_int di (acc0 chr0)) as [A [B [C D]]]. cbn [acc0 n_digits n_impl n_expl n_sign] in *.
    split; [rewrite A; cbn [rev]; reflexivity|]. split; [exact B|]. split; [exact D|exact C].
Qed.

(* ---- the value theorem ---- *)
Theorem number_value len start chr0 c : is_digit chr0 = true ->
  match lex_number len start chr0 c with
  | Ok (t, c') => exists digits e, tok_kind t = TNumber {| num_digits := digits; num_exp := e |} /\
                                   number_spec false chr0 (rest c) = Ok (digits, e, rest c')
  | Err er => number_spec false chr0 (rest c) = Err (err_kind er)
  | _ => True
  end.
Proof.
  intros D. unfold lex_number. rewrite D. cbn [negb].
  pose proof (num_loop_spec len chr0 (rest c) (pos c)) as R. fold (acc0 chr0).
  unfold finish_rel in R.
  destruct (num_loop len (chr0 =? 48) (rest c) (pos c) (NInt false) (acc0 chr0)) as [[a c1]|er| |]; cbn [obind]; auto.
  destruct (eff_exp a) as [e|].
  - unfold commit. destruct (make_span len start (pos c1)) as [sp|er| |] eqn:MS; cbn [obind]; auto.
    + exists (rev (n_digits a)), e. split; [reflexivity|exact R].
    + exfalso. unfold make_span in MS. repeat match type of MS with (if ?x then _ else _) = _ => destruct x end; discriminate.
  - pose proof (fail_inv (A := token * cur) len EExpOverflow start (pos c1) _ eq_refl) as FI.
    destruct (fail len EExpOverflow start (pos c1)) as [x|er| |]; auto; [contradiction|]. rewrite FI. exact R.
Qed.

(* ---- what the digits/exponent pair denotes ---- *)
Lemma dec_fold_app a b v : fold_left dec_step (a ++ b) v = fold_left dec_step b (fold_left dec_step a v).
Proof. apply fold_left_app. Qed.

Lemma dec_fold_shift b : forall v, fold_left dec_step b v = v * 10 ^ N.of_nat (length b) + fold_left dec_step b 0.
Proof.
  induction b as [|x b IH]; intros v; cbn [fold_left length].
  - cbn. lia.
  - rewrite (IH (dec_step v x)), (IH (dec_step 0 x)). unfold dec_step.
    rewrite Nat2N.inj_succ, N.pow_succ_r'. lia.
Qed.

(* underscores are ignored, the fraction digits follow the integer digits:
   value(int ++ frac) = value(int) * 10^|frac| + value(frac) *)
Lemma dec_value_app a b : dec_value (a ++ b) = dec_value a * 10 ^ N.of_nat (length b) + dec_value b.
Proof. unfold dec_value. change (fun a0 d => a0 * 10 + (d - 48)) with dec_step. rewrite dec_fold_app. apply dec_fold_shift. Qed.

(* the upstream grammar is contained in what the code accepts *)
Lemma number_spec_strict_sub chr0 r x : number_spec true chr0 r = Ok x -> number_spec false chr0 r = Ok x.
Proof.
  unfold number_spec, after_us. cbn [andb].
  destruct (scan_group false r) as [[di us1] r1].
  destruct ((chr0 =? 48) && negb match di with [] => true | _ => false end); [discriminate|].
  destruct r1 as [|b r2]; [exact (fun H => H)|].
  destruct (b =? 46).
  - destruct us1; [discriminate|]. destruct r2 as [|d r3]; [exact (fun H => H)|].
    destruct (is_digit d); [|exact (fun H => H)].
    destruct (scan_group false r3) as [[df us2] r4]. destruct r4 as [|b2 r5]; [exact (fun H => H)|].
    destruct (is_e b2); [|exact (fun H => H)]. destruct us2; [discriminate|exact (fun H => H)].
  - destruct (is_e b); [|exact (fun H => H)]. destruct us1; [discriminate|exact (fun H => H)].
Qed.

(* THE DEVIATION, as facts about the code: after an underscore the state machine
   still accepts '.' and 'e' (the upstream grammar requires a digit) *)
Lemma number_underscore_deviation :
  (forall lz a, num_step lz (NInt true) a 46 = NGo NDot a) /\
  (forall lz a, num_step lz (NInt true) a 101 = NGo NExp a) /\
  (forall lz a, num_step lz (NFrac true) a 101 = NGo NExp a) /\
  (* 1_.5  1_e5  1.0_e1 : accepted by the code, rejected by the strict grammar *)
  number_spec false 49 [95; 46; 53] = Ok ([49; 53], (-1)%Z, []) /\
  number_spec true 49 [95; 46; 53] = Err EMissingDigitAfterUnderscore /\
  number_spec false 49 [95; 101; 53] = Ok ([49], 5%Z, []) /\
  number_spec true 49 [95; 101; 53] = Err EMissingDigitAfterUnderscore /\
  number_spec false 49 [46; 48; 95; 101; 49] = Ok ([49; 48], 0%Z, []) /\
  number_spec true 49 [46; 48; 95; 101; 49] = Err EMissingDigitAfterUnderscore /\
  (* 1_  and  1__0  are rejected by both *)
  number_spec false 49 [95] = Err EMissingDigitAfterUnderscore /\
  number_spec false 49 [95; 95; 48] = Err EMissingDigitAfterUnderscore.
Proof. repeat split; vm_compute; reflexivity. Qed.
