(* Proofs/FrontParse_proofs.v — the two facts about the parser model that the composed
   front end (Model/Front.v) needs and that Proofs/Parser_inv.v does not give:

   (a) FUEL: with fuel [default_fuel 64 toks] the parser never answers OutOfFuel, for
       every precedence table whose chain is acyclic ([ranked]); measure = number of
       tokens not yet consumed; potential function for parse_expr's machine.
   (b) NUMBERS: every number literal of the tree is the payload of a number token of
       the input (stated as: number tokens satisfying [number_parses] give a tree
       with [nums_ok]).

   Both are proved in ONE pass over the productions, with a weakest-precondition
   calculus in the style of Parser_inv.v (there OutOfFuel is "True"; here it is
   "False" and panics are "True").  Nothing in Model/ or in the other Proofs files
   is modified. *)
From Coq Require Import Lia.
From RJ Require Import Base.Outcome Model.Token Model.Ast Model.Parser Model.Analyze.
Local Open Scope list_scope.

(* ---------------------------------------------------------------- predicates *)

Definition tok_num_ok (t : token) : Prop :=
  match tok_kind t with TNumber n => number_parses n = true | _ => True end.

Definition TN (s : pst) : Prop := Forall tok_num_ok (cur s :: rest s).
Definition rl (s : pst) : nat := length (rest s).

Definition okn (e : expr) : Prop := node_num_ok e = true.
Definition eok (e : expr) : Prop := Forall okn (nodes e).
Definition oeok (o : option expr) : Prop := Forall okn (opt_list nodes o).
Definition pok (p : param) : Prop := Forall okn (param_nodes nodes p).
Definition bok (b : bind) : Prop := Forall okn (bind_nodes nodes b).
Definition aok (a : assert_) : Prop := Forall okn (assert_nodes nodes a).
Definition cok (c : comp_spec) : Prop := Forall okn (spec_nodes nodes c).
Definition fnok (n : field_name) : Prop := Forall okn (fname_nodes nodes n).
Definition fok (f : field) : Prop := Forall okn (field_nodes nodes f).
Definition mok (m : member) : Prop := Forall okn (member_nodes nodes m).
Definition argok (a : arg) : Prop := Forall okn (arg_nodes nodes a).
Definition ook (o : obj_inside) : Prop := Forall okn (obj_nodes nodes o).

Lemma eok_nums_ok e : eok e -> nums_ok e = true.
Proof. intros H. unfold nums_ok. apply forallb_forall. apply Forall_forall. exact H. Qed.

Lemma Forall_flat {A B} (Q : B -> Prop) (f : A -> list B) l :
  Forall Q (flat f l) <-> Forall (fun x => Forall Q (f x)) l.
Proof.
  induction l as [|x t IH]; cbn [flat].
  - split; constructor.
  - rewrite Forall_app, IH. split.
    + intros [H1 H2]. constructor; assumption.
    + intros H. inversion H; subst. split; assumption.
Qed.

Lemma Forall_snoc {A} (Q : A -> Prop) l x : Forall Q l -> Q x -> Forall Q (l ++ [x]).
Proof. intros H1 H2. apply Forall_app. split; [exact H1|constructor; [exact H2|constructor]]. Qed.

(* solves "the node built here is ok because its parts are" *)
Ltac oks :=
  unfold eok, oeok, pok, bok, aok, cok, fnok, fok, mok, argok, ook in *;
  cbn [nodes obj_nodes member_nodes field_nodes fname_nodes spec_nodes assert_nodes bind_nodes
       param_nodes arg_nodes opt_list fst snd] in *;
  repeat match goal with
         | H : _ /\ _ |- _ => destruct H
         end;
  repeat first [ rewrite Forall_app | rewrite Forall_flat | rewrite Forall_cons_iff ];
  repeat match goal with
         | |- _ /\ _ => split
         | |- okn _ => reflexivity
         | |- True => exact I
         | |- Forall _ [] => constructor
         end;
  try assumption.

(* ---------------------------------------------------------------- make_comp *)

Definition fldok (f : option (expr * bool * expr)) : Prop :=
  match f with Some (n, _, b) => eok n /\ eok b | None => True end.

Lemma make_comp_go_ok ms : forall l1 l2 fld l1' l2' fld',
  Forall mok ms -> Forall bok l1 -> Forall bok l2 -> fldok fld ->
  make_comp_go ms l1 l2 fld = Ok (l1', l2', fld') ->
  Forall bok l1' /\ Forall bok l2' /\ fldok fld'.
Proof.
  induction ms as [|m r IH]; intros l1 l2 fld l1' l2' fld' Hms H1 H2 Hf Hg; cbn [make_comp_go] in Hg.
  - injection Hg as <- <- <-. auto.
  - inversion Hms as [|? ? Hm Hr]; subst.
    destruct m as [b|a|f].
    + destruct fld as [x|].
      * eapply IH; [exact Hr|exact H1| |exact Hf|exact Hg]. apply Forall_snoc; [exact H2|exact Hm].
      * eapply IH; [exact Hr| |exact H2|exact Hf|exact Hg]. apply Forall_snoc; [exact H1|exact Hm].
    + discriminate.
    + destruct f as [nm plus vis body|]; [|discriminate].
      destruct nm as [| |name nsp]; try discriminate.
      destruct vis; try discriminate.
      destruct fld as [x|]; [discriminate|].
      eapply IH; [exact Hr|exact H1|exact H2| |exact Hg].
      cbn [fldok]. unfold mok in Hm. cbn [member_nodes field_nodes fname_nodes] in Hm.
      apply Forall_app in Hm. exact Hm.
Qed.

Lemma make_comp_go_fuel ms : forall l1 l2 fld, make_comp_go ms l1 l2 fld <> OutOfFuel.
Proof.
  induction ms as [|m r IH]; intros l1 l2 fld; cbn [make_comp_go]; [discriminate|].
  destruct m as [b|a|f].
  - destruct fld; apply IH.
  - discriminate.
  - destruct f as [nm plus vis body|]; [|discriminate].
    destruct nm; try discriminate. destruct vis; try discriminate.
    destruct fld; [discriminate|apply IH].
Qed.

Lemma make_comp_ook ms cs oi :
  Forall mok ms -> Forall cok cs -> make_comp ms cs = Ok oi -> ook oi.
Proof.
  intros Hms Hcs H. unfold make_comp in H.
  destruct (make_comp_go ms [] [] None) as [[[l1 l2] fld]| | |] eqn:Hg; try discriminate.
  destruct (make_comp_go_ok ms [] [] None l1 l2 fld Hms (Forall_nil _) (Forall_nil _) I Hg) as (H1 & H2 & Hf).
  destruct fld as [[[n p] b]|]; [|discriminate]. injection H as <-.
  cbn [fldok] in Hf. destruct Hf as [Hn Hb].
  unfold ook. cbn [obj_nodes]. unfold eok in Hn, Hb.
  rewrite !Forall_app, !Forall_flat. repeat split; assumption.
Qed.

Lemma make_comp_fuel ms cs : make_comp ms cs <> OutOfFuel.
Proof.
  unfold make_comp. pose proof (make_comp_go_fuel ms [] [] None) as H.
  destruct (make_comp_go ms [] [] None) as [[[l1 l2] [[[n p] b]|]]| | |]; try discriminate. congruence.
Qed.

(* ---------------------------------------------------------------- the calculus *)

Definition wpf {A} (o : outcome (A * pst) parse_error) (Post : A -> pst -> Prop) : Prop :=
  match o with Ok (a, s') => Post a s' | OutOfFuel => False | _ => True end.

(* [tr R m Q]: from a state whose number tokens are fine and whose remaining-token
   count satisfies R, [m] does not run out of fuel, consumes tokens only, keeps the
   number tokens fine, and relates the counts and the value by Q *)
Definition tr {A} (R : nat -> Prop) (m : P A) (Q : nat -> A -> nat -> Prop) : Prop :=
  forall s, TN s -> R (rl s) ->
    wpf (m s) (fun a s' => TN s' /\ rl s' <= rl s /\ Q (rl s) a (rl s')).

Notation TT := (fun _ : nat => True).

Definition optQ {A} (K : A -> Prop) : nat -> option A -> nat -> Prop :=
  fun r o r' => match o with Some a => K a /\ r' < r | None => r' = r end.
Definition ltQ {A} (K : A -> Prop) : nat -> A -> nat -> Prop := fun r a r' => K a /\ r' < r.
Definition leQ {A} (K : A -> Prop) : nat -> A -> nat -> Prop := fun _ a _ => K a.
Notation any := (fun _ => True).

Lemma wpf_conseq A (o : outcome (A * pst) parse_error) (Q1 Q2 : A -> pst -> Prop) :
  wpf o Q1 -> (forall a s', Q1 a s' -> Q2 a s') -> wpf o Q2.
Proof. unfold wpf. destruct o as [[a s']|e|site|]; auto. Qed.

Lemma wpf_ret A (a : A) s (Post : A -> pst -> Prop) : Post a s -> wpf (ret a s) Post.
Proof. intros H. exact H. Qed.

Lemma wpf_bind A B (m : P A) (f : A -> P B) s (Post : B -> pst -> Prop) :
  wpf (m s) (fun a s' => wpf (f a s') Post) -> wpf (bindP m f s) Post.
Proof. unfold bindP, wpf. destruct (m s) as [[a s']|e|site|]; auto. Qed.

Lemma wpf_orelse A B (m : P (option A)) (f : A -> P B) (k : unit -> P B) s (Post : B -> pst -> Prop) :
  wpf (m s) (fun o s' => match o with Some a => wpf (f a s') Post | None => wpf (k tt s') Post end) ->
  wpf (orelse m f k s) Post.
Proof. unfold orelse, wpf. destruct (m s) as [[[a|] s']|e|site|]; auto. Qed.

Lemma wpf_mk_span a b s (Post : span -> pst -> Prop) :
  (forall sp, Post sp s) -> wpf (mk_span a b s) Post.
Proof. intros HP. unfold mk_span. destruct (N.leb (fst a) (snd b)); [apply HP|exact I]. Qed.

Lemma wpf_report A s (Post : A -> pst -> Prop) : wpf (@report_expected A s) Post.
Proof. unfold report_expected. destruct (actual_of (tok_kind (cur s))); exact I. Qed.

Lemma wpf_panic A site s (Post : A -> pst -> Prop) : wpf (@panic A site s) Post.
Proof. exact I. Qed.

Lemma wpf_make_comp ms cs s (Post : obj_inside -> pst -> Prop) :
  (forall oi, make_comp ms cs = Ok oi -> Post oi s) -> wpf (lift (make_comp ms cs) s) Post.
Proof.
  intros H. unfold lift. pose proof (make_comp_fuel ms cs) as Hf.
  destruct (make_comp ms cs) as [oi| | |]; [apply H; reflexivity|exact I|exact I|congruence].
Qed.

Lemma wpf_use A (R : nat -> Prop) (m : P A) (Q : nat -> A -> nat -> Prop) s (Post : A -> pst -> Prop) :
  tr R m Q -> TN s -> R (rl s) ->
  (forall a s', TN s' -> rl s' <= rl s -> Q (rl s) a (rl s') -> Post a s') ->
  wpf (m s) Post.
Proof.
  intros Hm HT HR HP. eapply wpf_conseq; [exact (Hm s HT HR)|].
  intros a s' (HT' & Hle & HQ). exact (HP a s' HT' Hle HQ).
Qed.

Lemma tr_call A (R : nat -> Prop) (m : P A) Q : tr R m Q -> tr R (call m) Q.
Proof.
  intros Hm s HT HR. unfold call. cbv zeta.
  pose proof (Hm {| cur := cur s; rest := rest s; exps := exps s; dcur := N.succ (dcur s);
                    dmax := N.max (dmax s) (N.succ (dcur s)) |} HT HR) as H.
  destruct (m _) as [[a s']|e|site|]; [exact H|exact I|exact I|exact H].
Qed.

Lemma tr_weaken A (R R' : nat -> Prop) (m : P A) (Q Q' : nat -> A -> nat -> Prop) :
  tr R m Q -> (forall r, R' r -> R r) -> (forall r a r', r' <= r -> R' r -> Q r a r' -> Q' r a r') ->
  tr R' m Q'.
Proof.
  intros Hm HR HQ s HT HR'. eapply wpf_conseq; [exact (Hm s HT (HR _ HR'))|].
  intros a s' (HT' & Hle & HQ1). split; [exact HT'|]. split; [exact Hle|]. apply HQ; assumption.
Qed.

(* ---------------------------------------------------------------- primitives *)

Lemma wpf_nt_ret B (f : token -> B) s (Post : B -> pst -> Prop) :
  TN s -> (forall s', TN s' -> S (rl s') = rl s -> Post (f (cur s)) s') ->
  wpf ((t <- next_token ;; ret (f t)) s) Post.
Proof.
  intros HT HP. unfold bindP, next_token. destruct (rest s) as [|t r] eqn:Hr; [exact I|].
  cbn [wpf ret]. apply HP.
  - unfold TN in *. cbn [cur rest]. rewrite Hr in HT. inversion HT; assumption.
  - unfold rl. cbn [rest]. rewrite Hr. reflexivity.
Qed.

Lemma wpf_miss B x add s (Post : option B -> pst -> Prop) :
  (forall s', (TN s -> TN s') -> rl s' = rl s -> Post None s') -> wpf (@miss B x add s) Post.
Proof. intros HP. unfold miss. cbn [wpf]. apply HP; [|destruct add; reflexivity]. destruct add; auto. Qed.

Lemma tr_eat_simple k add : tr TT (eat_simple k add) (optQ any).
Proof.
  intros s HT _. unfold eat_simple. destruct (is_simple k (cur s)).
  - apply wpf_nt_ret; [exact HT|]. intros s' HT' Hr. cbn [optQ]. repeat split; [exact HT'|lia|lia].
  - apply wpf_miss. intros s' HT' Hr. cbn [optQ]. repeat split; [auto|lia|lia].
Qed.

Lemma tr_eat_ident add : tr TT (eat_ident add) (optQ any).
Proof.
  intros s HT _. unfold eat_ident. destruct (tok_kind (cur s)) eqn:Hk;
    try (apply wpf_miss; intros s' HT' Hr; cbn [optQ]; repeat split; [auto|lia|lia]).
  apply (wpf_nt_ret _ (fun t => Some {| id_value := name; id_span := tok_span t |})); [exact HT|].
  intros s' HT' Hr. cbn [optQ]. repeat split; [exact HT'|lia|lia].
Qed.

Lemma tr_eat_number add :
  tr TT (eat_number add) (optQ (fun p : number * span => number_parses (fst p) = true)).
Proof.
  intros s HT _. unfold eat_number. destruct (tok_kind (cur s)) eqn:Hk;
    try (apply wpf_miss; intros s' HT' Hr; cbn [optQ]; repeat split; [auto|lia|lia]).
  apply (wpf_nt_ret _ (fun t => Some (n, tok_span t))); [exact HT|].
  intros s' HT' Hr. cbn [optQ fst]. repeat split; [exact HT'|lia| |lia].
  unfold TN in HT. inversion HT as [|? ? Hc _]; subst. unfold tok_num_ok in Hc. rewrite Hk in Hc. exact Hc.
Qed.

Lemma tr_eat_string add : tr TT (eat_string add) (optQ any).
Proof.
  intros s HT _. unfold eat_string. destruct (tok_kind (cur s)) eqn:Hk;
    try (apply wpf_miss; intros s' HT' Hr; cbn [optQ]; repeat split; [auto|lia|lia]).
  apply (wpf_nt_ret _ (fun t => Some (s0, tok_span t))); [exact HT|].
  intros s' HT' Hr. cbn [optQ]. repeat split; [exact HT'|lia|lia].
Qed.

Lemma tr_eat_text_block add : tr TT (eat_text_block add) (optQ any).
Proof.
  intros s HT _. unfold eat_text_block. destruct (tok_kind (cur s)) eqn:Hk;
    try (apply wpf_miss; intros s' HT' Hr; cbn [optQ]; repeat split; [auto|lia|lia]).
  apply (wpf_nt_ret _ (fun t => Some (s0, tok_span t))); [exact HT|].
  intros s' HT' Hr. cbn [optQ]. repeat split; [exact HT'|lia|lia].
Qed.

Lemma tr_push_expected x : tr TT (push_expected x) (fun r _ r' => r' = r).
Proof. intros s HT _. unfold push_expected. cbn [wpf]. repeat split; [exact HT|reflexivity]. Qed.

Create HintDb trdb.
#[export] Hint Resolve tr_eat_simple tr_eat_ident tr_eat_number tr_eat_string tr_eat_text_block
  tr_push_expected : trdb.

(* ---------------------------------------------------------------- tactics *)

Ltac clean_hyps :=
  repeat match goal with
         | H : _ /\ _ |- _ => destruct H
         | H : optQ _ _ (Some _) _ |- _ => cbn [optQ] in H
         | H : optQ _ _ None _ |- _ => cbn [optQ] in H
         | H : ltQ _ _ _ _ |- _ => unfold ltQ in H
         | H : leQ _ _ _ _ |- _ => unfold leQ in H
         | H : True |- _ => clear H
         end.

Ltac wpf_intros :=
  let a := fresh "a" in let s' := fresh "s" in let HT' := fresh "HT" in
  let Hle := fresh "Hle" in let HQ := fresh "HQ" in
  intros a s' HT' Hle HQ; cbv beta in HQ; clean_hyps.

Ltac fin :=
  cbv beta iota zeta; unfold ltQ, leQ; cbn [optQ fst snd];
  try match goal with
      | H : optQ _ _ ?a _ |- context [optQ _ _ ?a _] => destruct a; cbn [optQ] in *; clean_hyps
      end;
  repeat match goal with
         | |- _ /\ _ => split
         | |- True => exact I
         | |- TN _ => assumption
         end;
  try lia; try solve [oks]; try solve [oks; oks].

Ltac step :=
  lazymatch goal with
  | |- wpf (bindP _ _ _) _ => apply wpf_bind
  | |- wpf (orelse _ _ _ _) _ => apply wpf_orelse
  | |- wpf (ret _ _) _ => apply wpf_ret; cbv beta iota zeta
  | |- wpf (mk_span _ _ _) _ => apply wpf_mk_span; intro; cbv beta iota zeta
  | |- wpf (report_expected _) _ => apply wpf_report
  | |- wpf (panic _ _) _ => exact I
  | |- wpf (fin_slice _ _ _ _ _ _) _ => unfold fin_slice
  | |- wpf (prefix_form _ _ _ _) _ => unfold prefix_form
  | |- wpf (opt_expr _ _ _) _ => unfold opt_expr
  | |- wpf ((match ?x with _ => _ end) _) _ =>
      first [is_var x; destruct x | destruct x eqn:?]; cbv beta iota zeta; clean_hyps
  | |- wpf (match ?x with _ => _ end) _ =>
      first [is_var x; destruct x | destruct x eqn:?]; cbv beta iota zeta; clean_hyps
  | |- match ?x with _ => _ end => first [is_var x; destruct x | destruct x eqn:?]; cbv beta iota zeta; clean_hyps
  | |- wpf ((if ?x then _ else _) _) _ => destruct x; cbv beta iota zeta
  | |- wpf (if ?x then _ else _) _ => destruct x; cbv beta iota zeta
  | |- wpf ((let _ := _ in _) _) _ => cbv zeta
  | |- wpf (let _ := _ in _) _ => cbv zeta
  | |- wpf ((fun _ => _) _) _ => cbv beta
  | |- wpf (?m ?s) _ =>
      eapply wpf_use; [solve [eauto with trdb nocore] | assumption | cbv beta; fin | wpf_intros]
  | |- TN _ /\ _ => fin
  end.

Ltac side :=
  try assumption; try (apply Forall_snoc; [assumption|]); try assumption; try solve [oks]; try solve [constructor].
(* a call whose triple has side conditions (loops: the accumulator is fine) *)
Ltac use L := eapply wpf_use; [eapply L | assumption | fin | wpf_intros; try fin]; side.

Ltac start := let s := fresh "s" in let HT := fresh "HT" in let HR := fresh "HR" in
  intros s HT HR; cbv beta in HR; clean_hyps.
Ltac run := repeat step.

(* ---------------------------------------------------------------- small productions *)

Lemma tr_expect_simple k add : tr TT (expect_simple k add) (ltQ any).
Proof. unfold expect_simple. start. run. Qed.

Lemma tr_expect_ident add : tr TT (expect_ident add) (ltQ any).
Proof. unfold expect_ident. start. run. Qed.

Lemma tr_eat_visibility add : tr TT (eat_visibility add) (optQ any).
Proof. unfold eat_visibility. start. run. Qed.

Lemma tr_eat_plus_visibility add : tr TT (eat_plus_visibility add) (optQ any).
Proof. unfold eat_plus_visibility. start. run. Qed.

Lemma tr_eat_first O (l : list (stoken * O)) : tr TT (eat_first l) (optQ any).
Proof.
  induction l as [|[tk op] r IH]; cbn [eat_first]; start; run.
Qed.

#[export] Hint Resolve tr_expect_simple tr_expect_ident tr_eat_visibility tr_eat_plus_visibility
  tr_eat_first : trdb.

(* ---------------------------------------------------------------- productions *)

Section Prods.
  Variable T : prec_table.
  Variable pexpr : P expr.
  Variable lf : nat.
  Variable n0 : nat.      (* tokens not yet consumed when the enclosing parse_expr started *)

  Notation LE := (fun r : nat => r <= n0).
  Notation LT := (fun r : nat => r < n0).

  Hypothesis Hpe : tr LT pexpr (ltQ eok).
  Hypothesis Hlf : n0 < lf.

  Lemma tr_opt_expr c : tr LT (opt_expr pexpr c) (leQ oeok).
  Proof. unfold opt_expr. start. run. Qed.
  Hint Resolve tr_opt_expr : trdb.

  Lemma tr_parse_maybe_simple_expr : tr TT (parse_maybe_simple_expr) (optQ eok).
  Proof.
    unfold parse_maybe_simple_expr. apply tr_call. start. run.
    all: try (unfold eok; cbn [nodes]; constructor; [|constructor]; unfold okn; cbn [node_num_ok]; try reflexivity).
    all: try assumption.
  Qed.
  Hint Resolve tr_parse_maybe_simple_expr : trdb.

  Lemma tr_maybe_parse_assert add :
    tr LE (maybe_parse_assert pexpr add) (optQ (fun p : span * assert_ => aok (snd p))).
  Proof. unfold maybe_parse_assert. apply tr_call. start. run. Qed.
  Hint Resolve tr_maybe_parse_assert : trdb.

  Lemma tr_params_loop : forall fuel acc, Forall pok acc ->
    tr (fun r => r < fuel /\ r <= n0) (params_loop pexpr fuel acc)
       (ltQ (fun p : list param * span => Forall pok (fst p))).
  Proof.
    induction fuel as [|f IH]; intros acc Hacc; [intros s _ [H _]; lia|].
    cbn [params_loop]. start. run. all: use IH.
  Qed.

  Lemma tr_parse_params :
    tr LE (parse_params pexpr lf) (ltQ (fun p : list param * span => Forall pok (fst p))).
  Proof.
    unfold parse_params. apply tr_call. start. run.
    use tr_params_loop.
  Qed.
  Hint Resolve tr_parse_params : trdb.

  Lemma tr_parse_arg : tr LT (parse_arg pexpr) (ltQ argok).
  Proof. unfold parse_arg. apply tr_call. start. run. Qed.
  Hint Resolve tr_parse_arg : trdb.

  Lemma tr_args_loop : forall fuel acc, Forall argok acc ->
    tr (fun r => r < fuel /\ r < n0) (args_loop pexpr fuel acc)
       (ltQ (fun p : list arg * span => Forall argok (fst p))).
  Proof.
    induction fuel as [|f IH]; intros acc Hacc; [intros s _ [H _]; lia|].
    cbn [args_loop]. start. run. all: use IH.
  Qed.

  Lemma tr_parse_args :
    tr LT (parse_args pexpr lf) (ltQ (fun p : list arg * span => Forall argok (fst p))).
  Proof.
    unfold parse_args. apply tr_call. start. run.
    use tr_args_loop.
  Qed.
  Hint Resolve tr_parse_args : trdb.

  Lemma tr_parse_bind : tr LE (parse_bind pexpr lf) (ltQ bok).
  Proof. unfold parse_bind. apply tr_call. start. run. Qed.
  Hint Resolve tr_parse_bind : trdb.

  Lemma tr_maybe_parse_obj_local : tr LE (maybe_parse_obj_local pexpr lf) (optQ bok).
  Proof. unfold maybe_parse_obj_local. apply tr_call. start. run. Qed.
  Hint Resolve tr_maybe_parse_obj_local : trdb.

  Lemma tr_maybe_parse_for_spec : tr LE (maybe_parse_for_spec pexpr) (optQ cok).
  Proof. unfold maybe_parse_for_spec. apply tr_call. start. run. Qed.
  Lemma tr_maybe_parse_if_spec : tr LE (maybe_parse_if_spec pexpr) (optQ cok).
  Proof. unfold maybe_parse_if_spec. apply tr_call. start. run. Qed.
  Hint Resolve tr_maybe_parse_for_spec tr_maybe_parse_if_spec : trdb.

  Lemma tr_comp_spec_loop : forall fuel acc, Forall cok acc ->
    tr (fun r => r < fuel /\ r <= n0) (comp_spec_loop pexpr fuel acc) (leQ (Forall cok)).
  Proof.
    induction fuel as [|f IH]; intros acc Hacc; [intros s _ [H _]; lia|].
    cbn [comp_spec_loop]. start. run. all: use IH.
  Qed.

  Lemma tr_maybe_parse_comp_spec :
    tr LE (maybe_parse_comp_spec pexpr lf) (optQ (Forall cok)).
  Proof.
    unfold maybe_parse_comp_spec. apply tr_call. start. run.
    eapply wpf_use; [eapply tr_comp_spec_loop | assumption | fin | wpf_intros; run].
    constructor; [assumption|constructor].
  Qed.
  Hint Resolve tr_maybe_parse_comp_spec : trdb.

  Lemma tr_maybe_parse_field_name : tr LE (maybe_parse_field_name pexpr) (optQ fnok).
  Proof. unfold maybe_parse_field_name. apply tr_call. start. run. Qed.
  Hint Resolve tr_maybe_parse_field_name : trdb.

  Lemma tr_maybe_parse_field : tr LE (maybe_parse_field pexpr lf) (optQ fok).
  Proof. unfold maybe_parse_field. apply tr_call. start. run. Qed.
  Hint Resolve tr_maybe_parse_field : trdb.

  Lemma tr_comp_tail ms : Forall mok ms ->
    tr LE (comp_tail pexpr lf ms) (optQ (fun p : obj_inside * span => ook (fst p))).
  Proof.
    intros Hms. unfold comp_tail. start. run.
    apply wpf_make_comp. intros oi Hmk. run.
    eapply make_comp_ook; eassumption.
  Qed.

  Lemma tr_obj_loop : forall fuel ms cbc hd, Forall mok ms ->
    tr (fun r => r < fuel /\ r <= n0) (obj_loop pexpr lf fuel ms cbc hd)
       (ltQ (fun p : obj_inside * span => ook (fst p))).
  Proof.
    induction fuel as [|f IH]; intros ms cbc hd Hms; [intros s _ [H _]; lia|].
    cbn [obj_loop]. start.
    apply wpf_bind.
    apply (wpf_conseq _ _ (fun (x : list member * bool * bool) s' =>
             TN s' /\ rl s' < rl s /\ Forall mok (fst (fst x)))).
    - run.
      all: try (apply Forall_snoc; [assumption|oks]).
    - intros [[ms' cbc'] hd'] s1 (HT1 & Hlt1 & Hms'). cbn [fst] in Hms'.
      assert (Hok : ook (OMembers ms')) by (unfold ook; cbn [obj_nodes]; apply Forall_flat; exact Hms').
      run.
      all: try (eapply wpf_use; [apply (tr_comp_tail ms' Hms')| assumption | fin | wpf_intros; run]).
      all: try (use IH).
  Qed.

  Lemma tr_parse_obj_inside :
    tr LE (parse_obj_inside pexpr lf) (ltQ (fun p : obj_inside * span => ook (fst p))).
  Proof.
    unfold parse_obj_inside. apply tr_call. start. run.
    use tr_obj_loop.
  Qed.
  Hint Resolve tr_parse_obj_inside : trdb.

  Lemma tr_idx3 : tr LT (idx3 pexpr) (ltQ (fun p : option expr * span => oeok (fst p))).
  Proof. unfold idx3. start. run. Qed.
  Hint Resolve tr_idx3 : trdb.

  Lemma tr_after2 : tr LT (after2 pexpr) (ltQ (fun p : option expr * span => oeok (fst p))).
  Proof. unfold after2. start. run. Qed.
  Hint Resolve tr_after2 : trdb.

  Lemma tr_parse_index_expr lhs : eok lhs -> tr LT (parse_index_expr pexpr lhs) (ltQ eok).
  Proof.
    intros Hl. unfold parse_index_expr. apply tr_call. start. run.
  Qed.

  Lemma tr_suffix_loop : forall fuel lhs, eok lhs ->
    tr (fun r => r < fuel /\ r <= n0) (suffix_loop pexpr lf fuel lhs) (leQ eok).
  Proof.
    induction fuel as [|f IH]; intros lhs Hl; [intros s _ [H _]; lia|].
    cbn [suffix_loop]. start. run.
    all: try (use IH).
    use tr_parse_index_expr. use IH.
  Qed.

  Lemma tr_parse_suffix_expr e : eok e -> tr LE (parse_suffix_expr pexpr lf e) (leQ eok).
  Proof.
    intros He. unfold parse_suffix_expr. apply tr_call. start.
    use tr_suffix_loop.
  Qed.

  Lemma tr_binds_loop : forall fuel acc, Forall bok acc ->
    tr (fun r => r < fuel /\ r <= n0) (binds_loop pexpr lf fuel acc) (leQ (Forall bok)).
  Proof.
    induction fuel as [|f IH]; intros acc Hacc; [intros s _ [H _]; lia|].
    cbn [binds_loop]. start. run. all: use IH.
  Qed.


  (* ---- parse_expr's machine: potential function ---- *)
  Variable rank : binop_kind -> nat.
  Hypothesis Hrank_le : forall k, rank k <= 9.
  Hypothesis Hrank : forall k k', pt_next T k = Some k' -> rank k' < rank k.

  Definition phi (st : pstate) : nat :=
    match st with
    | StParsed _ => 0
    | StBinaryRhs _ _ => 1
    | StBinary k => 3 * rank k + 6
    | StUnary => 3
    | StPrimary => 1
    end.
  Definition w (it : stack_item) : nat :=
    match it with SiBinaryLhs _ | SiBinaryRhs _ _ _ => 2 | _ => 1 end.
  Fixpoint wsum (stk : list stack_item) : nat :=
    match stk with [] => 0 | it :: r => w it + wsum r end.
  Definition Phi (st : pstate) (stk : list stack_item) : nat := phi st + wsum stk.

  Definition st_ok (st : pstate) : Prop :=
    match st with StParsed e => eok e | StBinaryRhs _ lhs => eok lhs | _ => True end.
  Definition item_ok (it : stack_item) : Prop :=
    match it with
    | SiBinaryRhs _ lhs _ => eok lhs
    | SiArrayItemN _ items => Forall eok items
    | _ => True
    end.
  Definition strict (st : pstate) : bool :=
    match st with StParsed _ | StBinaryRhs _ _ => false | _ => true end.

  Lemma phi_next k : phi (next_state T k) + 3 <= phi (StBinary k).
  Proof.
    unfold next_state. destruct (pt_next T k) as [k'|] eqn:E; cbn [phi]; [|lia].
    pose proof (Hrank k k' E). lia.
  Qed.
  Lemma phi_init : phi (init_state T) <= 33.
  Proof. unfold init_state. cbn [phi]. pose proof (Hrank_le (pt_init T)). lia. Qed.
  Lemma strict_next k : strict (next_state T k) = true.
  Proof. unfold next_state. destruct (pt_next T k); reflexivity. Qed.
  Lemma st_ok_next k : st_ok (next_state T k).
  Proof. unfold next_state. destruct (pt_next T k); exact I. Qed.

  Ltac pe_side :=
    unfold Phi, init_state in *; cbn [st_ok item_ok phi wsum w strict] in *;
    repeat match goal with
           | |- _ /\ _ => split
           | |- True => exact I
           | |- TN _ => assumption
           | |- st_ok (next_state _ _) => apply st_ok_next
           | |- Forall item_ok (_ :: _) => constructor; cbn [item_ok]
           | |- Forall eok (_ ++ [_]) => apply Forall_snoc
           | |- Forall eok [_] => constructor; [|constructor]
           | H : strict (next_state T ?k) = true -> _ |- _ => specialize (H (strict_next k))
           | H : true = true -> _ |- _ => specialize (H eq_refl)
           | |- false = true -> _ => let H := fresh in intros H; discriminate H
           | H : is_some ?a = true |- _ => destruct a; [clear H; cbn [optQ] in *; clean_hyps | discriminate H]
           | |- true = true -> _ => intros _
           end;
    try assumption; try lia; try solve [oks].

  Ltac pe_use IH := eapply wpf_use; [eapply IH | assumption | cbv beta | wpf_intros]; pe_side.

  Lemma tr_pe_loop : forall fuel st stk, st_ok st -> Forall item_ok stk ->
    tr (fun r => 64 * r + Phi st stk < fuel /\ r <= n0) (pe_loop T pexpr lf fuel st stk)
       (fun r e r' => eok e /\ (strict st = true -> r' < r)).
  Proof.
    induction fuel as [|f IH]; intros st stk Hst Hstk; [intros s _ [H _]; lia|].
    pose proof phi_init as Hin.
    cbn [pe_loop]. destruct st as [e|k|k lhs| |]; cbn [st_ok] in Hst.
    - (* StParsed *)
      destruct stk as [|it stk']; [start; run; pe_side|].
      apply Forall_cons_iff in Hstk. destruct Hstk as [Hit Hstk'].
      destruct it; cbn [item_ok] in Hit; start; unfold Phi in *; cbn [phi wsum w] in *; run.
      all: try (pe_use IH).
      all: try (use tr_parse_suffix_expr; pe_use IH).
      all: pe_side.
    - (* StBinary *)
      pose proof (phi_next k). start. pe_use IH.
    - (* StBinaryRhs *)
      pose proof (phi_next k). pose proof (Hrank_le k). start. unfold Phi in *; cbn [phi] in *. run.
      all: try (pe_use IH).
      all: pe_side.
    - (* StUnary *)
      start. unfold Phi in *; cbn [phi] in *. run. all: try (pe_use IH). all: pe_side.
    - (* StPrimary *)
      start. unfold Phi in *; cbn [phi] in *. run.
      all: try (eapply wpf_use; [eapply tr_binds_loop; constructor; [eassumption|constructor]
                                | assumption | fin | wpf_intros; run]).
      all: try (pe_use IH).
      all: pe_side.
  Qed.

End Prods.

(* ---------------------------------------------------------------- parse_expr, parse_root_expr, parse *)

(* the chain of precedence levels is acyclic and at most 10 long *)
Definition ranked (T : prec_table) : Prop :=
  exists rank : binop_kind -> nat,
    (forall k, rank k <= 9) /\ (forall k k', pt_next T k = Some k' -> rank k' < rank k).

Lemma tr_parse_expr T : ranked T -> forall F,
  tr (fun r => 64 * r + 128 <= F) (parse_expr T F) (ltQ eok).
Proof.
  intros (rank & Hle & Hr). induction F as [|f IH]; [intros s _ H; lia|].
  change (parse_expr T (S f)) with (call (pe_loop T (parse_expr T f) f f (init_state T) [])).
  apply tr_call. intros s HT HR. cbv beta in HR.
  assert (Hpe : tr (fun r => r < rl s) (parse_expr T f) (ltQ eok)).
  { eapply tr_weaken; [exact IH| |].
    - intros r Hr'. cbv beta. lia.
    - intros r a r' _ _ H. exact H. }
  assert (Hlf : rl s < f) by lia.
  pose proof (tr_pe_loop T (parse_expr T f) f (rl s) Hpe Hlf rank Hle Hr f (init_state T) [] I (Forall_nil _)) as Hl.
  eapply wpf_use; [exact Hl|exact HT| |].
  - cbv beta. pose proof (phi_init T f (rl s) Hlf rank Hle). unfold Phi. cbn [wsum]. lia.
  - intros e s' HT' Hle' [He Hs]. split; [exact HT'|]. split; [exact Hle'|]. split; [exact He|].
    apply Hs. reflexivity.
Qed.

Lemma wpf_parse_root_expr T F s : ranked T -> TN s -> 64 * rl s + 128 <= F ->
  wpf (parse_root_expr T F s) (fun e _ => eok e).
Proof.
  intros HR HT HF. unfold parse_root_expr. apply wpf_bind.
  eapply wpf_use; [exact (tr_parse_expr T HR F)|exact HT|exact HF|].
  intros e s1 HT1 Hle1 [He _]. apply wpf_bind. unfold eat_eof.
  destruct (tok_kind (cur s1)); try (cbn [wpf]; apply wpf_report).
  destruct (rest s1); [|exact I]. cbn [wpf]. exact He.
Qed.

(* (a) + (b) for the entry point the composed front end uses *)
Theorem parse_fuel_sufficient : forall T F toks,
  ranked T -> 64 * (length toks + 1) + 64 <= F -> Forall tok_num_ok toks ->
  parse_fuel T F toks <> OutOfFuel /\
  (forall e d, parse_fuel T F toks = Ok (e, d) -> nums_ok e = true).
Proof.
  intros T F toks HR HF HN. unfold parse_fuel. destruct toks as [|t r]; [split; [discriminate|intros; discriminate]|].
  assert (HT : TN (init_pst t r)) by exact HN.
  assert (HF' : 64 * rl (init_pst t r) + 128 <= F) by (unfold rl; cbn [init_pst rest length] in *; lia).
  pose proof (wpf_parse_root_expr T F (init_pst t r) HR HT HF') as H.
  destruct (parse_root_expr T F (init_pst t r)) as [[e s']|e|site|]; cbn [wpf] in H.
  - split; [discriminate|]. intros e0 d Heq. injection Heq as <- _. apply eok_nums_ok. exact H.
  - split; [discriminate|intros; discriminate].
  - split; [discriminate|intros; discriminate].
  - destruct H.
Qed.

Theorem parse_total_nums : forall T toks, ranked T -> Forall tok_num_ok toks ->
  parse T toks <> OutOfFuel /\ (forall e d, parse T toks = Ok (e, d) -> nums_ok e = true).
Proof.
  intros T toks HR HN. unfold parse. apply parse_fuel_sufficient; [exact HR| |exact HN].
  unfold default_fuel. lia.
Qed.

(* the specification's table is ranked *)
Definition spec_rank (k : binop_kind) : nat :=
  match k with
  | LvLogicOr => 9 | LvLogicAnd => 8 | LvBitwiseOr => 7 | LvBitwiseXor => 6 | LvBitwiseAnd => 5
  | LvEqCmp => 4 | LvOrdCmp => 3 | LvShift => 2 | LvAdd => 1 | LvMul => 0
  end.

Lemma spec_prec_ranked : ranked spec_prec.
Proof.
  exists spec_rank. split.
  - intros k. destruct k; cbn; lia.
  - intros k k' H. destruct k; cbn in H; try discriminate; injection H as <-; cbn; lia.
Qed.
