(* Proofs/Utf8Order_proofs.v — lexicographic comparison of lists of numbers is a total
   order, and the byte order of UTF-8 encodings is the code-point order. *)
From Coq Require Import List NArith ZArith Lia Bool.
From RJ Require Import Model.Utf8Order.
Import ListNotations.
Local Open Scope N_scope.

(* ---------------------------------------------------------------- lex_compare is an order *)

Lemma lex_refl a : lex_compare a a = Eq.
Proof. induction a as [|x a IH]; cbn [lex_compare]; [reflexivity|]. now rewrite N.compare_refl. Qed.

Lemma lex_opp a : forall b, lex_compare b a = CompOpp (lex_compare a b).
Proof.
  induction a as [|x a IH]; intros [|y b]; cbn [lex_compare]; try reflexivity.
  rewrite (N.compare_antisym x y). destruct (x ?= y); cbn [CompOpp]; auto.
Qed.

Lemma lex_eq_iff a : forall b, lex_compare a b = Eq <-> a = b.
Proof.
  induction a as [|x a IH]; intros [|y b]; cbn [lex_compare]; split; intros H; try discriminate; try reflexivity.
  - destruct (x ?= y) eqn:E; try discriminate. apply N.compare_eq in E. apply IH in H. congruence.
  - injection H as -> ->. rewrite N.compare_refl. now apply IH.
Qed.

Lemma lex_trans_lt a : forall b c, lex_compare a b = Lt -> lex_compare b c = Lt -> lex_compare a c = Lt.
Proof.
  induction a as [|x a IH]; intros [|y b] [|z c]; cbn [lex_compare]; intros H1 H2; try discriminate; try reflexivity.
  destruct (x ?= y) eqn:E1; try discriminate; destruct (y ?= z) eqn:E2; try discriminate.
  - apply N.compare_eq in E1, E2. subst. rewrite N.compare_refl. eauto.
  - apply N.compare_eq in E1. subst. now rewrite E2.
  - apply N.compare_eq in E2. subst. now rewrite E1.
  - rewrite N.compare_lt_iff in E1, E2. assert (E : x < z) by lia. apply N.compare_lt_iff in E. now rewrite E.
Qed.

Lemma lex_eq_compat a b c : lex_compare a b = Eq -> lex_compare a c = lex_compare b c.
Proof. intros H. apply lex_eq_iff in H. now subst. Qed.

Lemma lex_app_same p : forall a b, lex_compare (p ++ a) (p ++ b) = lex_compare a b.
Proof. induction p as [|x p IH]; intros a b; cbn [app lex_compare]; [reflexivity|]. now rewrite N.compare_refl. Qed.

Lemma list_eqb_iff a : forall b, list_eqb a b = true <-> a = b.
Proof.
  induction a as [|x a IH]; intros [|y b]; cbn [list_eqb]; split; intros H; try discriminate; try reflexivity.
  - apply andb_true_iff in H as [H1 H2]. apply N.eqb_eq in H1. apply IH in H2. congruence.
  - injection H as -> ->. rewrite N.eqb_refl. cbn. now apply IH.
Qed.

Lemma list_eqb_lex a b : list_eqb a b = match lex_compare a b with Eq => true | _ => false end.
Proof.
  destruct (list_eqb a b) eqn:E.
  - apply list_eqb_iff in E. subst. now rewrite lex_refl.
  - destruct (lex_compare a b) eqn:C; try reflexivity.
    apply lex_eq_iff in C. apply list_eqb_iff in C. congruence.
Qed.

(* ---------------------------------------------------------------- UTF-8 *)

Lemma lex_lt_cons x y a b : x < y -> lex_compare (x :: a) (y :: b) = Lt.
Proof. intros H. cbn [lex_compare]. apply N.compare_lt_iff in H. now rewrite H. Qed.
Lemma lex_eq_cons x y a b : x = y -> lex_compare (x :: a) (y :: b) = lex_compare a b.
Proof. intros ->. cbn [lex_compare]. now rewrite N.compare_refl. Qed.

(* base-64 digits of a code point, and every quotient the encoder takes in terms of them *)
Lemma digits c : exists c3 c2 c1 c0,
  c = 262144 * c3 + 4096 * c2 + 64 * c1 + c0 /\ c2 < 64 /\ c1 < 64 /\ c0 < 64 /\
  c / 262144 = c3 /\ (c / 4096) mod 64 = c2 /\ (c / 64) mod 64 = c1 /\ c mod 64 = c0 /\
  c / 4096 = 64 * c3 + c2 /\ c / 64 = 4096 * c3 + 64 * c2 + c1.
Proof.
  exists (c / 64 / 64 / 64), ((c / 64 / 64) mod 64), ((c / 64) mod 64), (c mod 64).
  replace (c / 262144) with (c / 64 / 64 / 64) by (rewrite !N.div_div by lia; reflexivity).
  replace (c / 4096) with (c / 64 / 64) by (rewrite !N.div_div by lia; reflexivity).
  pose proof (N.div_mod' c 64) as E0. pose proof (N.mod_lt c 64) as L0.
  pose proof (N.div_mod' (c / 64) 64) as E1. pose proof (N.mod_lt (c / 64) 64) as L1.
  pose proof (N.div_mod' (c / 64 / 64) 64) as E2. pose proof (N.mod_lt (c / 64 / 64) 64) as L2.
  generalize dependent (c mod 64). generalize dependent ((c / 64) mod 64).
  generalize dependent ((c / 64 / 64) mod 64). generalize dependent (c / 64 / 64 / 64).
  generalize dependent (c / 64 / 64). generalize dependent (c / 64).
  intros. repeat split; lia.
Qed.

Ltac split_le a b := let H := fresh in assert (H : a < b \/ a = b) by lia; destruct H as [H|H].
Ltac bytes_lt :=
  first [ apply lex_lt_cons; lia
        | rewrite lex_eq_cons by lia; bytes_lt
        | match goal with
          | |- lex_compare (?x :: _) (?y :: _) = Lt =>
              split_le x y; [ apply lex_lt_cons; lia | rewrite lex_eq_cons by lia; bytes_lt ]
          end ].

(* a smaller code point has a smaller encoding, whatever follows *)
Lemma enc_lt c d X Y : c < d -> d < 0x110000 ->
  lex_compare (utf8_enc c ++ X) (utf8_enc d ++ Y) = Lt.
Proof.
  intros Hcd Hd. unfold utf8_enc.
  destruct (digits c) as (c3 & c2 & c1 & c0 & Ec & ? & ? & ? & Ec3 & Ec2 & Ec1 & Ec0 & Ec4096 & Ec64).
  destruct (digits d) as (d3 & d2 & d1 & d0 & Ed & ? & ? & ? & Ed3 & Ed2 & Ed1 & Ed0 & Ed4096 & Ed64).
  rewrite Ec3, Ec2, Ec1, Ec0, Ec4096, Ec64, Ed3, Ed2, Ed1, Ed0, Ed4096, Ed64.
  clear Ec3 Ec2 Ec1 Ec0 Ec4096 Ec64 Ed3 Ed2 Ed1 Ed0 Ed4096 Ed64.
  destruct (N.ltb_spec c 0x80), (N.ltb_spec c 0x800), (N.ltb_spec c 0x10000),
           (N.ltb_spec d 0x80), (N.ltb_spec d 0x800), (N.ltb_spec d 0x10000);
    try lia; cbn [app]; bytes_lt.
Qed.

Lemma enc_nonempty c : exists b r, utf8_enc c = b :: r.
Proof. unfold utf8_enc. destruct (c <? 0x80), (c <? 0x800), (c <? 0x10000); eauto. Qed.

Definition str_ok (s : list N) : Prop := Forall (fun c => c < 0x110000) s.

(* Rust compares `str` by the bytes of the UTF-8 encoding; on well-formed strings that is the
   order of the code-point sequences *)
Theorem utf8_order_is_cp_order s : forall t, str_ok s -> str_ok t ->
  lex_compare (utf8 s) (utf8 t) = lex_compare s t.
Proof.
  induction s as [|c s IH]; intros [|d t] Hs Ht; cbn [utf8 lex_compare]; try reflexivity.
  - destruct (enc_nonempty d) as (b & r & ->). reflexivity.
  - destruct (enc_nonempty c) as (b & r & ->). reflexivity.
  - inversion Hs as [|? ? Hc Hs']; inversion Ht as [|? ? Hd Ht']; subst.
    destruct (c ?= d) eqn:E.
    + apply N.compare_eq in E. subst. rewrite lex_app_same. now apply IH.
    + apply N.compare_lt_iff in E. now apply enc_lt.
    + apply N.compare_gt_iff in E. rewrite lex_opp. rewrite enc_lt by assumption. reflexivity.
Qed.

Corollary str_compare_is_cp_order s t : str_ok s -> str_ok t -> str_compare s t = lex_compare s t.
Proof. apply utf8_order_is_cp_order. Qed.

Corollary utf8_injective s t : str_ok s -> str_ok t -> utf8 s = utf8 t -> s = t.
Proof.
  intros Hs Ht E. apply lex_eq_iff. rewrite <- utf8_order_is_cp_order by assumption. now apply lex_eq_iff.
Qed.

Corollary str_eqb_is_eq s t : str_ok s -> str_ok t -> (str_eqb s t = true <-> s = t).
Proof.
  intros Hs Ht. unfold str_eqb. rewrite list_eqb_iff. split; [now apply utf8_injective | now intros ->].
Qed.

Lemma str_eqb_refl s : str_eqb s s = true.
Proof. unfold str_eqb. now apply list_eqb_iff. Qed.

Lemma str_eqb_compare s t : str_eqb s t = match str_compare s t with Eq => true | _ => false end.
Proof. apply list_eqb_lex. Qed.
