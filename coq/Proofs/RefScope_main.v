(* Proofs/RefScope_main.v — C02/C09: run-time scope soundness of the reference interpreter, part 3:
   builtins, calls, the expression evaluator, the knot, and the theorem on core programs. *)
From RJ Require Import Base.Outcome Base.F64 Model.Token Model.Ast Model.RefCore Model.RefValue Model.RefEval.
From RJ Require Import Proofs.RefSem_params Proofs.RefScope_defs Proofs.RefScope_proofs.
From Coq Require Import Lia.
Local Open Scope N_scope.

Lemma Forall_concat_const {A} (P : A -> Prop) (l : list A) {B} (ns : list B) :
  Forall P l -> Forall P (concat (map (fun _ => l) ns)).
Proof. intros H. apply Forall_concat. apply Forall_map_intro. intros; exact H. Qed.

Lemma safe_all_m d : forall items, Forall wf_thunk items -> safe wf_value (all_m items d).
Proof.
  induction items as [|it r IH]; intros Hi; simpl; [apply safe_ret; constructor|]. inversion Hi; subst.
  eapply safe_bind; [apply safe_forceT; assumption|]. intros v Hv. destruct v; try apply safe_kind.
  destruct b; [apply IH; assumption | apply safe_ret; constructor].
Qed.
Lemma safe_any_m d : forall items, Forall wf_thunk items -> safe wf_value (any_m items d).
Proof.
  induction items as [|it r IH]; intros Hi; simpl; [apply safe_ret; constructor|]. inversion Hi; subst.
  eapply safe_bind; [apply safe_forceT; assumption|]. intros v Hv. destruct v; try apply safe_kind.
  destruct b; [apply safe_ret; constructor | apply IH; assumption].
Qed.
Lemma safe_sum_m d : forall items acc, Forall wf_thunk items -> safe wf_value (sum_m items acc d).
Proof.
  induction items as [|it r IH]; intros acc Hi; simpl; [apply safe_check_num|]. inversion Hi; subst.
  eapply safe_bind; [apply safe_forceT; assumption|]. intros v Hv. destruct v; try apply safe_kind. apply IH; assumption.
Qed.
Lemma safe_flatten_m d : forall items acc, Forall wf_thunk items -> Forall wf_thunk acc -> safe wf_value (flatten_m items acc d).
Proof.
  induction items as [|it r IH]; intros acc Hi Ha; simpl; [apply safe_ret; constructor; exact Ha|]. inversion Hi; subst.
  eapply safe_bind; [apply safe_forceT; assumption|]. intros v Hv. destruct v; try apply safe_kind. inversion Hv; subst.
  apply IH; [assumption | apply Forall_app_intro; assumption].
Qed.
Lemma safe_contains_m x d : wf_value x -> forall items, Forall wf_thunk items -> safe wf_value (contains_m x items d).
Proof.
  intros Hx. induction items as [|it r IH]; intros Hi; simpl; [apply safe_ret; constructor|]. inversion Hi; subst.
  eapply safe_bind; [apply safe_forceT; assumption|]. intros vi Hvi.
  eapply safe_bind; [apply safe_equals; assumption|]. intros e _. destruct e; [apply safe_ret; constructor | apply IH; assumption].
Qed.
Lemma safe_count_m x d : wf_value x -> forall items n, Forall wf_thunk items -> safe wf_value (count_m x items n d).
Proof.
  intros Hx. induction items as [|it r IH]; intros n Hi; simpl; [apply safe_ret; constructor|]. inversion Hi; subst.
  eapply safe_bind; [apply safe_forceT; assumption|]. intros vi Hvi.
  eapply safe_bind; [apply safe_equals; assumption|]. intros e _. apply IH; assumption.
Qed.
Lemma char_thunks_wf s : Forall wf_thunk (char_thunks s).
Proof. unfold char_thunks. apply Forall_map_intro. intros. repeat constructor. Qed.
Lemma combine_in_r {A B} : forall (l1 : list A) (l2 : list B) p, In p (combine l1 l2) -> In (snd p) l2.
Proof.
  induction l1 as [|a r IH]; intros l2 p H; simpl in H; [destruct H|]. destruct l2 as [|b r2]; [destruct H|].
  destruct H as [<- | H]; [left; reflexivity | right; apply IH; exact H].
Qed.
#[export] Hint Resolve safe_all_m safe_any_m safe_sum_m safe_flatten_m safe_contains_m safe_count_m char_thunks_wf : safe.
#[export] Hint Resolve char_thunks_wf : wf.

Ltac down := repeat match goal with
  | |- safe _ (match ?x with _ => _ end) => first [is_var x; destruct x | destruct x eqn:?]
  | |- safe _ (if ?b then _ else _) => destruct b eqn:?
  end.
Ltac fin :=
  try solve [safe_tac];
  try solve [wf_inv; apply safe_foldr_m; auto; apply Forall_rev; assumption];
  try solve [wf_inv; apply safe_ret; constructor; first [ apply char_thunks_wf | apply Forall_rev; assumption ]];
  try solve [wf_inv; apply safe_ret; constructor; apply Forall_map_intro; intros p Hp; apply combine_in_r in Hp;
             constructor; [assumption|]; constructor; [repeat constructor|]; constructor; [|constructor];
             first [ match goal with H : Forall _ ?l |- _ => rewrite Forall_forall in H; apply H; exact Hp end
                   | match goal with Hq : In _ (char_thunks ?s) |- _ => pose proof (char_thunks_wf s) as Hc; rewrite Forall_forall in Hc; apply Hc; exact Hq end ]];
  try solve [wf_inv; apply safe_ret; constructor;
             first [ apply Forall_concat_const; assumption
                   | apply Forall_map_intro; intros; repeat constructor; auto;
                     match goal with H : Forall _ ?l, H1 : In _ ?l |- _ => rewrite Forall_forall in H; apply H; exact H1 end
                   | constructor ] ].

Lemma safe_call_builtin bi args d : Forall wf_thunk args -> safe wf_value (call_builtin bi args d).
Proof.
  intros Ha. unfold call_builtin.
  destruct args as [|a0 [|a1 [|a2 [|a3 [|a4 r]]]]]; try solve [safe_tac]; wf_inv.
  all: destruct bi; try solve [safe_tac].
  all: repeat (eapply safe_bind; [apply safe_forceT; assumption|]; intros ? ?).
  all: try solve [safe_tac].
  all: down; fin.
Qed.
#[export] Hint Resolve safe_call_builtin : safe.

(* ---- parameter binding keeps thunks well scoped and binds every parameter ---- *)
Lemma bind_positional_wf : forall ps pos b rest,
  bind_positional ps pos = Some (b, rest) -> Forall wf_thunk pos ->
  wf_vars b /\ (forall p, In p rest -> In p ps).
Proof.
  intros ps pos. revert ps. induction pos as [|t pr IH]; intros ps b rest H Hp.
  - destruct ps; simpl in H; injection H as <- <-; split; auto; constructor.
  - destruct ps as [|[x d] psr]; simpl in H; [discriminate|].
    destruct (bind_positional psr pr) as [[b' rest']|] eqn:E; [|discriminate].
    injection H as <- <-. inversion Hp; subst. destruct (IH _ _ _ E H2) as [Hb Hr]. split.
    + constructor; assumption.
    + intros p Hin. right. auto.
Qed.

Lemma fill_rest_wf : forall rest named b ds,
  fill_rest rest named = Ok (b, ds) -> wf_vars named ->
  wf_vars b /\ (forall x de, In (x, de) ds -> In (x, Some de) rest).
Proof.
  induction rest as [|[x0 d] r IH]; intros named b ds H Hn; simpl in H.
  - injection H as <- <-. split; [constructor | intros ? ? []].
  - destruct (fill_rest r named) as [[b' ds'] | e | s |] eqn:E; try discriminate.
    destruct (IH _ _ _ E Hn) as [Hb Hd].
    destruct (assoc x0 named) as [t|] eqn:En.
    + injection H as <- <-. split.
      * constructor; [|exact Hb]. simpl. apply in_assoc_in in En. unfold wf_vars in Hn. rewrite Forall_forall in Hn. apply (Hn _ En).
      * intros x de Hin. right. auto.
    + destruct d as [de0|]; [|discriminate]. injection H as <- <-. split; [exact Hb|].
      intros x de [Hin | Hin]; [injection Hin as <- <-; left; reflexivity | right; auto].
Qed.

Lemma check_named_kind : forall rest bpos named seen e, check_named rest bpos named seen = Some e -> exists s, e = EKind s.
Proof.
  intros rest bpos. induction named as [|[x t] r IH]; intros seen e H; simpl in H; [discriminate|].
  destruct (assoc x rest).
  - destruct (mem_str x seen); [injection H as <-; eauto | eapply IH; eassumption].
  - destruct (assoc x bpos); injection H as <-; eauto.
Qed.

Lemma fill_rest_kind : forall rest named e, fill_rest rest named = Err e -> exists s, e = EKind s.
Proof.
  induction rest as [|[x0 d] r IH]; intros named e H; simpl in H; [discriminate|].
  destruct (fill_rest r named) as [[b' ds'] | e' | s |] eqn:E; try discriminate.
  - destruct (assoc x0 named); [discriminate|]. destruct d; [discriminate|]. injection H as <-. eauto.
  - injection H as <-. eapply IH; eassumption.
Qed.

Lemma safe_bind_args ps pos named :
  safe (fun r => bind_args ps pos named = Ok r) (lift (bind_args ps pos named)).
Proof.
  intros c r _. unfold okres, lift. simpl. destruct (bind_args ps pos named) as [a | e | s |] eqn:E; auto.
  unfold bind_args in E. destruct (bind_positional ps pos) as [[bpos rest]|]; [|injection E as <-; exact I].
  destruct (check_named rest bpos named []) as [e'|] eqn:Ec.
  - injection E as <-. destruct (check_named_kind _ _ _ _ _ Ec) as [s ->]. exact I.
  - destruct (fill_rest rest named) as [[b ds] | e' | s |] eqn:Ef; try discriminate.
    injection E as <-. destruct (fill_rest_kind _ _ _ Ef) as [s ->]. exact I.
Qed.

Lemma bind_args_wf : forall ps pos named b ds,
  bind_args ps pos named = Ok (b, ds) -> Forall wf_thunk pos -> wf_vars named ->
  wf_vars b /\ (forall x de, In (x, de) ds -> In (x, Some de) ps) /\ incl (map fst ps) (map fst b ++ map fst ds).
Proof.
  intros ps pos named b ds H Hp Hn. pose proof (defaults_see_all_params ps pos named b ds [] H) as [Hsee _].
  unfold bind_args in H.
  destruct (bind_positional ps pos) as [[bpos rest]|] eqn:Ep; [|discriminate].
  destruct (check_named rest bpos named []); [discriminate|].
  destruct (fill_rest rest named) as [[b' ds'] | e | s |] eqn:Ef; try discriminate.
  injection H as <- <-. destruct (bind_positional_wf _ _ _ _ Ep Hp) as [Hb1 Hr]. destruct (fill_rest_wf _ _ _ _ Ef Hn) as [Hb2 Hd].
  repeat split.
  - apply Forall_app_intro; assumption.
  - intros x de Hin. apply Hr. apply Hd. exact Hin.
  - intros x Hx. specialize (Hsee x Hx). simpl in Hsee. apply in_or_app.
    destruct (assoc x (bpos ++ b')) eqn:E1; [left; eapply assoc_some_in; eassumption|].
    destruct (assoc x ds') eqn:E2; [right; eapply assoc_some_in; eassumption | congruence].
Qed.

Lemma arg_thunks_wf ps fr : wf_env fr -> Forall wf_thunk (arg_thunks ps fr).
Proof.
  intros Hf. unfold arg_thunks. induction ps as [|p r IH]; simpl; [constructor|].
  apply Forall_app_intro; [|exact IH]. destruct (lookup_var (fst p) fr) eqn:E; [|constructor].
  constructor; [eapply lookup_var_wf; eassumption | constructor].
Qed.

Lemma safe_force_args ts d : Forall wf_thunk ts -> safe any (force_args ts d).
Proof.
  intros H. unfold force_args. apply safe_iterM. intros t Ht. rewrite Forall_forall in H. specialize (H t Ht).
  eapply safe_bind; [apply safe_enter|]. intros d' _. eapply safe_bind; [apply safe_forceT; exact H|]. intros. apply safe_ret_any.
Qed.
#[export] Hint Resolve safe_force_args : safe.

Lemma safe_do_apply fv pos named force d :
  wf_value fv -> Forall wf_thunk pos -> wf_vars named -> safe wf_value (do_apply fv pos named force d).
Proof.
  intros Hf Hp Hn. unfold do_apply. destruct fv; try solve [safe_tac].
  - inversion Hf as [| | | | | | ? ? ? He Hc |]; subst.
    eapply safe_bind; [apply safe_bind_args|]. intros [b ds] Hb.
    destruct (bind_args_wf _ _ _ _ _ Hb Hp Hn) as (Hwb & Hds & Hincl).
    inversion Hc; subst. match goal with H : forall vs', incl _ vs' -> _ |- _ => rename H into Hbody end.
    set (fr := FVars b ds :: env) in *.
    assert (Hi1 : incl (dom env) (dom fr)) by (simpl; intros x Hx; apply in_or_app; right; apply in_or_app; right; exact Hx).
    assert (Hi2 : incl (map fst params) (dom fr)).
    { simpl. intros x Hx. apply Hincl in Hx. apply in_app_or in Hx. apply in_or_app.
      destruct Hx; [left; assumption | right; apply in_or_app; left; assumption]. }
    destruct (Hbody (dom fr) Hi1 Hi2) as [Hps Hbd].
    assert (Hfr : wf_env fr).
    { constructor; [exact Hwb | | exact He]. rewrite Forall_forall. intros [x de] Hin. simpl.
      rewrite Forall_forall in Hps. specialize (Hps _ (Hds _ _ Hin)). simpl in Hps. inversion Hps; subst. assumption. }
    eapply safe_bind with (Q := any).
    { destruct force; [apply safe_force_args; apply arg_thunks_wf; exact Hfr | apply safe_ret_any]. }
    intros _ _. eapply safe_bind; [apply safe_enter|]. intros d' _. apply safe_eval; [exact Hfr | exact Hbd].
  - eapply safe_bind; [apply safe_bind_args|]. intros [bb ds] Hb.
    destruct (bind_args_wf _ _ _ _ _ Hb Hp Hn) as (Hwb & _ & _).
    eapply safe_bind; [apply safe_enter|]. intros d' _. apply safe_call_builtin. apply arg_thunks_wf.
    constructor; [exact Hwb | constructor | constructor].
Qed.
#[export] Hint Resolve safe_do_apply : safe.

(* ---- equality, ordering, manifestation ---- *)
Lemma safe_eq_items d : forall a b, Forall wf_thunk a -> Forall wf_thunk b -> safe any (eq_items a b d).
Proof.
  induction a as [|x ra IH]; intros b Ha Hb; simpl; [apply safe_ret_any|].
  destruct b as [|y rb]; [apply safe_ret_any|]. inversion Ha; inversion Hb; subst.
  eapply safe_bind; [apply safe_enter|]. intros d' _.
  eapply safe_bind; [apply safe_forceT; assumption|]. intros vx Hvx.
  eapply safe_bind; [apply safe_forceT; assumption|]. intros vy Hvy.
  eapply safe_bind; [apply safe_equals; assumption|]. intros e _.
  destruct e; [apply IH; assumption | apply safe_ret_any].
Qed.

Lemma safe_eq_fields la lb d : wf_layers la -> wf_layers lb -> forall names, safe any (eq_fields la lb names d).
Proof.
  intros Ha Hb. induction names as [|n r IH]; simpl; [apply safe_ret_any|].
  eapply safe_bind; [apply safe_enter|]. intros d' _.
  eapply safe_bind; [apply safe_field_at; assumption|]. intros vx Hvx.
  eapply safe_bind; [apply safe_field_at; assumption|]. intros vy Hvy.
  eapply safe_bind; [apply safe_equals; assumption|]. intros e _.
  destruct e; [apply IH | apply safe_ret_any].
Qed.

Lemma safe_cmp_items d : forall a b, Forall wf_thunk a -> Forall wf_thunk b -> safe any (cmp_items a b d).
Proof.
  induction a as [|x ra IH]; intros b Ha Hb; simpl.
  - destruct b; apply safe_ret_any.
  - destruct b as [|y rb]; [apply safe_ret_any|]. inversion Ha; inversion Hb; subst.
    eapply safe_bind; [apply safe_enter|]. intros d' _.
    eapply safe_bind; [apply safe_forceT; assumption|]. intros vx Hvx.
    eapply safe_bind; [apply safe_forceT; assumption|]. intros vy Hvy.
    eapply safe_bind; [apply safe_compare; assumption|]. intros c _.
    destruct c; [apply IH; assumption | apply safe_ret_any | apply safe_ret_any].
Qed.
#[export] Hint Resolve safe_eq_items safe_eq_fields safe_cmp_items : safe.

Lemma safe_do_equals a b d : wf_value a -> wf_value b -> safe any (do_equals a b d).
Proof.
  intros Ha Hb. unfold do_equals. destruct a, b; try solve [safe_any]; inversion Ha; inversion Hb; subst.
  - destruct (lenN items =? lenN items0); [apply safe_eq_items; assumption | apply safe_ret_any].
  - destruct (list_str_eqb (visible_names layers) (visible_names layers0)); [|apply safe_ret_any].
    destruct (visible_names layers); [apply safe_ret_any|].
    eapply safe_bind; [apply safe_run_asserts; assumption|]. intros _ _.
    eapply safe_bind; [apply safe_run_asserts; assumption|]. intros _ _.
    apply safe_eq_fields; assumption.
Qed.

Lemma safe_do_compare a b d : wf_value a -> wf_value b -> safe any (do_compare a b d).
Proof.
  intros Ha Hb. unfold do_compare. destruct a, b; try solve [safe_any]; inversion Ha; inversion Hb; subst.
  apply safe_cmp_items; assumption.
Qed.

Lemma safe_do_manifest s v d : wf_value v -> safe any (do_manifest s v d).
Proof.
  intros Hv. unfold do_manifest. destruct v; try solve [safe_any]; inversion Hv; subst.
  - eapply safe_bind with (Q := Forall any); [|intros; apply safe_ret_any].
    apply safe_mapM. intros t Ht. rewrite Forall_forall in H0. specialize (H0 t Ht).
    eapply safe_bind; [apply safe_enter|]. intros d' _.
    eapply safe_bind; [apply safe_forceT; assumption|]. intros x Hx. apply safe_manifest. assumption.
  - eapply safe_bind; [apply safe_run_asserts; assumption|]. intros _ _.
    eapply safe_bind with (Q := Forall any); [|intros; apply safe_ret_any].
    apply safe_mapM. intros n Hn.
    eapply safe_bind; [apply safe_enter|]. intros d' _.
    eapply safe_bind; [apply safe_field_at; assumption|]. intros x Hx.
    eapply safe_bind; [apply safe_manifest; assumption|]. intros j _. apply safe_ret_any.
Qed.

Lemma safe_cond_bool v : safe any (cond_bool v).
Proof. unfold cond_bool. destruct v; safe_any. Qed.
#[export] Hint Resolve safe_do_equals safe_do_compare safe_do_manifest safe_cond_bool : safe.

(* ---- expressions ---- *)
Lemma wf_env_local binds en io :
  wf_env en -> io = hasobj en -> Forall (fun p => closed (map fst binds ++ dom en) io (snd p)) binds ->
  wf_env (FVars [] binds :: en).
Proof. intros He -> Hb. constructor; [constructor | exact Hb | exact He]. Qed.

Lemma wf_layer_object locals asserts fs en std :
  wf_env en ->
  Forall (fun p => closed (map fst locals ++ dom en) true (snd p)) locals ->
  Forall (fun a => closed (map fst locals ++ dom en) true (fst a) /\ closed_opt (map fst locals ++ dom en) true (snd a)) asserts ->
  Forall (field_ok locals en) fs ->
  wf_layer (MkLayer locals asserts fs en std).
Proof.
  intros He Hl Ha Hf. constructor; [|exact Hf].
  eapply Forall_impl; [|exact Ha]. intros a [Hc Hm]. split.
  - constructor; assumption.
  - intros m Em. rewrite Em in Hm. inversion Hm; subst. constructor; assumption.
Qed.

Lemma safe_do_eval en x d : wf_env en -> closed (dom en) (hasobj en) x -> safe wf_value (do_eval en x d).
Proof.
  intros He Hc. unfold do_eval. destruct x; pose proof Hc as Hc0; inversion Hc; subst;
    try match goal with H : true = hasobj _ |- _ => symmetry in H end; try solve [safe_tac].
  - (* CSelf *)
    destruct (hasobj_lookup en) as (ls & i & c & E); [assumption|]. rewrite E. apply safe_ret. constructor.
    eapply lookup_obj_wf; eassumption.
  - (* CVar *)
    destruct (lookup_var x en) as [t|] eqn:E.
    + pose proof (lookup_var_wf _ _ _ He E). safe_tac.
    + exfalso. eapply lookup_var_in; eassumption.
  - (* CObject *)
    eapply safe_bind; [apply safe_build_fields; try eassumption; constructor|]. intros fs Hfs.
    apply safe_ret. constructor. constructor; [|constructor]. apply wf_layer_object; assumption.
  - (* CObjComp *)
    eapply safe_bind; [apply safe_comp_envs; eassumption|]. intros envs Henvs.
    eapply safe_bind; [eapply (safe_build_comp_fields locals en en); try eassumption; constructor|]. intros fs Hfs.
    apply safe_ret. constructor. constructor; [|constructor]. constructor; [constructor | exact Hfs].
  - (* CArray *)
    apply safe_ret. constructor. apply Forall_map_intro. intros e Hin. constructor; [exact He|].
    match goal with H : Forall (closed _ _) items |- _ => rewrite Forall_forall in H; apply H; exact Hin end.
  - (* CArrComp *)
    eapply safe_bind; [apply safe_comp_envs; eassumption|]. intros envs Henvs.
    apply safe_ret. constructor. apply Forall_map_intro. intros e Hin.
    rewrite Forall_forall in Henvs. destruct (Henvs e Hin) as (Hwe & Hd & Ho). constructor; [exact Hwe|]. rewrite Hd, Ho. assumption.
  - (* CSuperIndex *)
    match goal with H : hasobj en = true |- _ => pose proof H as Ho end.
    eapply safe_bind; [apply safe_eval; [exact He | rewrite Ho; assumption]|]. intros v Hv. destruct v; safe_tac.
  - (* CInSuper *)
    match goal with H : hasobj en = true |- _ => pose proof H as Ho end.
    eapply safe_bind; [apply safe_eval; [exact He | rewrite Ho; assumption]|]. intros v Hv. destruct v; try solve [safe_tac].
    apply safe_with_super; auto. intros. apply safe_ret. constructor.
  - (* CCall *)
    eapply safe_bind; [apply safe_eval; assumption|]. intros fv Hfv. destruct (is_fun fv); [|safe_tac].
    eapply safe_bind; [apply safe_ask_ts_tail|]. intros ot _. apply safe_apply; [exact Hfv | |].
    + apply Forall_map_intro. intros e Hin. constructor; [exact He|].
      match goal with H : Forall (closed _ _) pos |- _ => rewrite Forall_forall in H; apply H; exact Hin end.
    + unfold wf_vars. apply Forall_map_intro. intros p Hin. simpl. constructor; [exact He|].
      match goal with H : Forall _ named |- _ => rewrite Forall_forall in H; apply (H p Hin) end.
  - (* CLocal *)
    apply safe_eval; [eapply wf_env_local; [exact He | reflexivity | assumption] | assumption].
  - (* CAssert *)
    eapply safe_bind; [apply safe_run_assert; simpl; assumption|]. intros _ _. apply safe_eval; assumption.
Qed.
#[export] Hint Resolve safe_do_eval : safe.

Lemma safe_do_force t d : wf_thunk t -> safe wf_value (do_force t d).
Proof. intros H. unfold do_force. destruct t; inversion H; subst; safe_tac. Qed.

Lemma safe_step_fn t d : wf_task t -> safe wf_answer (step t d).
Proof.
  intros H. unfold step. destruct t; simpl in H; wf_inv.
  - eapply safe_bind; [apply safe_do_eval; assumption|]. intros r Hr. apply safe_ret. exact Hr.
  - eapply safe_bind; [apply safe_do_force; assumption|]. intros r Hr. apply safe_ret. exact Hr.
  - eapply safe_bind; [apply safe_do_apply; assumption|]. intros r Hr. apply safe_ret. exact Hr.
  - eapply safe_bind; [apply safe_do_field; assumption|]. intros r Hr. apply safe_ret. exact Hr.
  - eapply safe_bind; [apply safe_do_equals; assumption|]. intros r Hr. apply safe_ret. exact I.
  - eapply safe_bind; [apply safe_do_compare; assumption|]. intros r Hr. apply safe_ret. exact I.
  - eapply safe_bind; [apply safe_do_manifest; assumption|]. intros r Hr. apply safe_ret. exact I.
Qed.

Lemma run_task_ok : forall fuel c, rec_ok (run_task fuel c).
Proof.
  induction fuel as [|n IH]; intros c t d Ht.
  - exact I.
  - simpl. apply safe_step_fn; [exact Ht | apply IH].
Qed.

Lemma closed_func_simple ps body :
  (forall vs', incl (map fst ps) vs' -> Forall (fun p => closed_opt vs' true (snd p)) ps /\ closed vs' true body) ->
  closed [] true (CFunc ps body).
Proof. intros H. constructor. intros vs' _ Hp. apply H. exact Hp. Qed.

Ltac in_params Hp := apply Hp; simpl; tauto.

Lemma std_layer_wf : wf_layer std_layer.
Proof.
  unfold std_layer. constructor; [constructor|]. apply Forall_app_intro.
  - apply Forall_map_intro. intros r _. simpl. constructor; [constructor | constructor | constructor].
  - unfold std_defs, val_comp, kv_comp, bcall, v_, p_. simpl.
    repeat (constructor; [simpl; constructor; [constructor | constructor |]; simpl; apply closed_func_simple; intros vs' Hp | ]).
    all: try solve [constructor].
    all: split; [repeat constructor|].
    all: try solve [repeat (first [ apply CL_Var; in_params Hp | constructor ])].
    all: try solve [econstructor; [ constructor; [ repeat (first [ apply CL_Var; in_params Hp | constructor ]) | constructor ]
                                  | repeat (first [ apply CL_Var; simpl; first [left; reflexivity | right; in_params Hp] | constructor ]) ]].
Qed.

Lemma init_env_wf : wf_env init_env.
Proof.
  unfold init_env. constructor; [|constructor|constructor]. constructor; [|constructor]. simpl.
  constructor. constructor. constructor; [apply std_layer_wf | constructor].
Qed.

Lemma safe_run_top x : closed [s_std] false x -> safe any (run_top x).
Proof.
  intros Hc. unfold run_top.
  eapply safe_bind; [apply safe_eval; [apply init_env_wf | exact Hc]|]. intros v Hv.
  eapply safe_bind; [apply safe_manifest; exact Hv|]. intros j _.
  destruct (has_func j); [apply safe_kind | apply safe_ret_any].
Qed.

Definition static_error {A} (r : res A) : Prop := exists s, snd r = Err (EStatic s).

(* a closed core program never fails because a variable, self, super or $ is unbound *)
Theorem core_no_static_error : forall x, closed [s_std] false x -> forall fuel c, ~ static_error (run_core fuel c x).
Proof.
  intros x Hc fuel c [s Hs]. unfold run_core in Hs.
  pose proof (safe_run_top x Hc c (run_task fuel c) (run_task_ok fuel c)) as H. unfold okres in H.
  rewrite Hs in H. exact H.
Qed.
